/-
  C06 — `MultivariateStudent::sample` against the documented `mean()` / `variance()` (over ℝ):

    * `affine_mean_cov_scaled` — for ANY random vector `V` with mean `0` and second moments `κ·δ_ij`,
      `X = μ + L V` has mean `μ` and covariance `κ·L Lᵀ`;
    * `mvtMap`, `mvt_sample_eq_mvtMap` — the deterministic part of the sampler: what it does with the chi-squared
      variate `c` and the vector `z` of normal draws (over ℝ no `freedom` is infinite, so the `is_infinite()` branch of
      864abd5 — weight `1.0`, no chi-squared draw — is never taken here; see `mvt_sample_of_inf*`);
    * `mvt_variance_toMatrix` — `variance()` of a constructed object is `(ν/(ν−2))·scale` (for `ν > 2`);
    * `mvt_new_sample_mean_cov` — on a constructed `MultivariateStudent(location, scale, ν)`, `ν > 2`: feed `mvtMap` with
      ANY random pair `(C, Z)` for which `V = √(ν/C)·Z` has mean `0` and second moments `(ν/(ν−2))·δ_ij` (true for
      `C ~ χ²_ν` independent of i.i.d. standard normals `Z`, since `E[ν/C] = ν/(ν−2)`): the output has mean
      `location` = `mean()` and covariance matrix `variance()`.
-/
import Statrs.Props.C06.VectorSamplersB
set_option linter.unusedVariables false
set_option linter.unusedSectionVars false
namespace Statrs.Props.C06
open Statrs Statrs.Gen Statrs.Model Statrs.Lemmas.Multivariate Statrs.Lemmas.Sampling
open Statrs.Spec hiding Fin  -- `Statrs.Spec.Fin` ("finite float", Spec/FloatLaws.lean) would shadow `_root_.Fin`
open MeasureTheory ProbabilityTheory Matrix

section expectation
variable {Ω : Type*} [MeasurableSpace Ω] (P : Measure Ω) [IsProbabilityMeasure P]

/-- full(ℝ): for ANY probability space and ANY random vector `V` whose coordinates and pairwise products are
    integrable with `E[V_i] = 0` and `E[V_i V_j] = κ·δ_ij`, the affine image `X = μ + L V` has `E[X_i] = μ_i` and
    `cov[X_i, X_j] = κ·(L Lᵀ)_ij`. -/
theorem affine_mean_cov_scaled {n : ℕ} (κ : ℝ) (μ : Fin n → ℝ) (L : Matrix (Fin n) (Fin n) ℝ) (V : Ω → Fin n → ℝ)
    (hint : ∀ i, Integrable (fun ω => V ω i) P) (hint2 : ∀ i j, Integrable (fun ω => V ω i * V ω j) P)
    (hmean : ∀ i, ∫ ω, V ω i ∂P = 0)
    (hcov : ∀ i j, ∫ ω, V ω i * V ω j ∂P = if i = j then κ else 0) :
    (∀ i, ∫ ω, (μ + L.mulVec (V ω)) i ∂P = μ i) ∧
    (∀ i j, cov[fun ω => (μ + L.mulVec (V ω)) i, fun ω => (μ + L.mulVec (V ω)) j; P] = κ * (L * Lᵀ) i j) := by
  have hlin : ∀ i, Integrable (fun ω => ∑ k, L i k * V ω k) P := fun i =>
    integrable_finsetSum _ (fun k _ => (hint k).const_mul (L i k))
  have hX : ∀ i ω, (μ + L.mulVec (V ω)) i = μ i + ∑ k, L i k * V ω k := fun i ω => by
    simp [Matrix.mulVec, dotProduct]
  have hm : ∀ i, ∫ ω, (μ + L.mulVec (V ω)) i ∂P = μ i := by
    intro i
    simp only [hX]
    rw [integral_add (integrable_const _) (hlin i), integral_const, probReal_univ, one_smul,
      integral_finsetSum _ (fun k _ => (hint k).const_mul (L i k))]
    simp [integral_const_mul, hmean]
  refine ⟨hm, fun i j => ?_⟩
  unfold covariance
  rw [hm i, hm j]
  simp only [hX, add_sub_cancel_left]
  have hprod : ∀ ω, (∑ k, L i k * V ω k) * (∑ l, L j l * V ω l)
      = ∑ k, ∑ l, (L i k * L j l) * (V ω k * V ω l) := fun ω => by
    rw [Finset.sum_mul_sum]
    apply Finset.sum_congr rfl; intro k _
    apply Finset.sum_congr rfl; intro l _
    ring
  simp only [hprod]
  rw [integral_finsetSum _ (fun k _ => integrable_finsetSum _ (fun l _ => (hint2 k l).const_mul _))]
  simp only [Matrix.mul_apply, Matrix.transpose_apply, Finset.mul_sum]
  apply Finset.sum_congr rfl
  intro k _
  rw [integral_finsetSum _ (fun l _ => (hint2 k l).const_mul _)]
  simp only [integral_const_mul, hcov]
  simp
  ring

end expectation

/-! ### the deterministic part of `MultivariateStudent::sample` -/

/-- what the sampler does with the chi-squared variate `c` and the vector `z` of normal draws:
    `(w * &scale_chol_decomp) * z + &location`, `w = √(ν / c)` -/
noncomputable def mvtMap (d : MultivariateStudent ℝ) (c : ℝ) (z : List ℝ) : List ℝ :=
  vadd (LA.matvec (d.f_scale_chol_decomp.map (fun r => r.map (fun e => e * Real.sqrt (d.f_freedom / c)))) z)
    d.f_location

/-- full(ℝ): for `freedom > 0` the sampler is `mvtMap` applied to the gamma (chi-squared) draw made first and to the
    normal draws made from the stream after it. -/
theorem mvt_sample_eq_mvtMap (d : MultivariateStudent ℝ) (hν : 0 < d.f_freedom) (rng : Rng) :
    let g := gamma_sample_unchecked (α := ℝ) rng (d.f_freedom / 2) (1 / 2)
    let zs := stdNormalVec (α := ℝ) d.f_location.length g.2
    MultivariateStudent.sample d rng = some (mvtMap d g.1 zs.1, zs.2) := by
  intro g zs
  have hnew := chiSquared_new_real d.f_freedom
  rw [if_neg (not_le.mpr hν)] at hnew
  have := mvt_sample_of_ok d rfl _ hnew rng
  simp only [rfun_sqrt] at this
  rw [show (2.0 : ℝ) = 2 by norm_num, show (0.5 : ℝ) = 1 / 2 by norm_num] at this
  exact this

/-- full(ℝ): `mvtMap d c z = location + L (w·z)` as vectors -/
theorem toVec_mvtMap (d : MultivariateStudent ℝ) (hL : d.f_scale_chol_decomp.length = d.f_location.length)
    (c : ℝ) (z : Fin d.f_location.length → ℝ) :
    toVec d.f_location.length (mvtMap d c (List.ofFn z))
      = toVec d.f_location.length d.f_location +
        (toMatrix d.f_location.length d.f_scale_chol_decomp).mulVec (Real.sqrt (d.f_freedom / c) • z) := by
  unfold mvtMap
  rw [toVec_vadd _ _ _ (by rw [matvec_length, List.length_map, hL]), toVec_matvec _ _ _ (by simp),
    toMatrix_scale, Matrix.smul_mulVec, Matrix.mulVec_smul, add_comm, toVec_ofFn]

/-- full(ℝ): entries of `m / t` -/
theorem mget_unscale (m : List (List ℝ)) (c : ℝ) (i j : ℕ) :
    LA.mget (LA.unscale m c) i j = LA.mget m i j / c := by
  unfold LA.mget LA.unscale
  have hd : (default : ℝ) = 0 := rfl
  simp only [List.getD_eq_getElem?_getD, List.getElem?_map, hd]
  cases m[i]? with
  | none => simp
  | some r =>
    simp only [Option.map_some, Option.getD_some, List.getElem?_map]
    cases r[j]? <;> simp

/-- full(ℝ): for `freedom > 2`, `variance()` is the matrix `(ν/(ν−2))·scale`. -/
theorem mvt_variance_toMatrix (d : MultivariateStudent ℝ) (h2 : 2 < d.f_freedom) (n : ℕ) :
    ∃ V, MultivariateStudent.variance d = some V ∧
      toMatrix n V = (d.f_freedom / (d.f_freedom - 2)) • toMatrix n d.f_scale := by
  refine ⟨_, by unfold MultivariateStudent.variance; rw [if_pos (by rw [show (2.0 : ℝ) = 2 by norm_num]; exact h2)], ?_⟩
  ext i j
  simp only [toMatrix, Matrix.smul_apply, smul_eq_mul, mget_unscale, Statrs.Props.C19.mget_scale]
  rw [show (2.0 : ℝ) = 2 by norm_num]
  ring

section student
variable [SF ℝ]
variable {Ω : Type*} [MeasurableSpace Ω] (P : Measure Ω) [IsProbabilityMeasure P]

/-- full(ℝ): **the sampler of a constructed `MultivariateStudent(location, scale, ν)`, `ν > 2`, has mean `mean()` and
    covariance `variance()`** whenever the random pair `(C, Z)` fed to its deterministic part `mvtMap` is such that
    `V = √(ν/C)·Z` has mean `0` and second moments `(ν/(ν−2))·δ_ij` — the case for `C ~ χ²_ν` independent of i.i.d.
    standard normals `Z`.  (`L Lᵀ = scale` from the Cholesky theorems of C09/C19; that the gamma and ziggurat draws
    have those laws is NOT proved here.) -/
theorem mvt_new_sample_mean_cov (loc : List ℝ) (scale : List (List ℝ)) (ν : ℝ) (d : MultivariateStudent ℝ)
    (h : MultivariateStudent.new_from_nalgebra loc scale ν = .ok d) (hν2 : 2 < ν)
    (C : Ω → ℝ) (Z : Ω → Fin d.f_location.length → ℝ)
    (hint : ∀ i, Integrable (fun ω => Real.sqrt (d.f_freedom / C ω) * Z ω i) P)
    (hint2 : ∀ i j, Integrable (fun ω => (Real.sqrt (d.f_freedom / C ω) * Z ω i) *
        (Real.sqrt (d.f_freedom / C ω) * Z ω j)) P)
    (hmean : ∀ i, ∫ ω, Real.sqrt (d.f_freedom / C ω) * Z ω i ∂P = 0)
    (hcov : ∀ i j, ∫ ω, (Real.sqrt (d.f_freedom / C ω) * Z ω i) * (Real.sqrt (d.f_freedom / C ω) * Z ω j) ∂P
        = if i = j then ν / (ν - 2) else 0) :
    let X : Ω → Fin d.f_location.length → ℝ :=
      fun ω => toVec d.f_location.length (mvtMap d (C ω) (List.ofFn (Z ω)))
    ∃ M V, MultivariateStudent.mean d = some M ∧ MultivariateStudent.variance d = some V ∧
      (∀ i, ∫ ω, X ω i ∂P = M.getD i 0) ∧
      (∀ i j, cov[fun ω => X ω i, fun ω => X ω j; P] = toMatrix d.f_location.length V i j) := by
  intro X
  obtain ⟨h1, h2, h3, _⟩ := Statrs.Props.C19.mvt_new_fields loc scale ν d h
  obtain ⟨_, hrows, _, _⟩ := mvt_new_sample_isSome loc scale ν d h ⟨[]⟩
  have hf2 : 2 < d.f_freedom := by rw [h3]; exact hν2
  obtain ⟨V, hV, hVm⟩ := mvt_variance_toMatrix d hf2 d.f_location.length
  have hM : MultivariateStudent.mean d = some d.f_location := by
    unfold MultivariateStudent.mean
    rw [if_pos (by rw [show (1.0 : ℝ) = 1 by norm_num]; linarith)]
  subst h1
  obtain ⟨_, _, hLL⟩ := Statrs.Props.C19.mvt_new_chol_decomp d.f_location scale ν d h
  have hX : X = fun ω => toVec d.f_location.length d.f_location +
      (toMatrix d.f_location.length d.f_scale_chol_decomp).mulVec (fun i => Real.sqrt (d.f_freedom / C ω) * Z ω i) := by
    funext ω
    rw [show X ω = toVec d.f_location.length (mvtMap d (C ω) (List.ofFn (Z ω))) from rfl, toVec_mvtMap d hrows]
    rfl
  obtain ⟨m1, m2⟩ := affine_mean_cov_scaled P (ν / (ν - 2)) (toVec d.f_location.length d.f_location)
    (toMatrix d.f_location.length d.f_scale_chol_decomp) (fun ω i => Real.sqrt (d.f_freedom / C ω) * Z ω i)
    hint hint2 hmean hcov
  refine ⟨d.f_location, V, hM, hV, ?_, ?_⟩
  · intro i; rw [hX]; exact m1 i
  · intro i j
    rw [hX, m2 i j, hLL, hVm, h2, h3]
    simp [Matrix.smul_apply]

end student

end Statrs.Props.C06
