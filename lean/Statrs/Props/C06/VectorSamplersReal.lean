/-
  C06 — the vector samplers over ℝ (hand models `Statrs/Model/VecSamplers.lean`):

    * `toVec_matvec` (= `matvec_eq_mulVec`): nalgebra's column-oriented `gemv` (`LA.matvec`) is Mathlib's
      `Matrix.mulVec` on `Spec.toMatrix`/`Spec.toVec`; `toVec_vadd`; `toMatrix_scale`;
    * `mvn_sample_entries` — entry `i` of `MultivariateNormal::sample` is `μ_i + Σ_j L_ij z_j`, `z` the `dim`
      standard-normal draws (`mvn_sample_toVec`: `x = μ + L z` as vectors);
    * `affine_outer` — the algebraic identity `(x−μ)(x−μ)ᵀ = L (z zᵀ) Lᵀ`;
      `affine_mean_cov` — for ANY probability space and ANY random vector `Z` with mean `0` and identity second
      moments, `X = μ + L Z` has mean `μ` and covariance `L Lᵀ` (Mathlib integrals and `cov[·,·;P]`);
      `mvn_sample_mean_cov` — the same for the sampler's own map `z ↦ vadd (matvec L z) μ`;
      `mvn_new_sample_mean_cov` — on every constructed object the covariance is `Σ` (`L Lᵀ = Σ`, C09/C19);
    * `mvt_sample_eq_none_iff_real` (`none ⇔ freedom ≤ 0`, never on a constructed object), `mvt_sample_toVec`
      (`x = location + w·(L z)`, `w = √(ν / c)`, `c` the chi-squared draw made first) — both in `VectorSamplersB.lean`;
      over ℝ `RFun.isInf = false`, so the `freedom.is_infinite()` branch of 864abd5 is never taken there (it is covered for
      every carrier by `mvt_sample_of_inf*` in `VectorSamplers.lean`, at `XR`/`Float` in `VectorSamplersB.lean`);
    * `multinomial_sample_f64_eq` (`= ofInt ∘ multinomial_sample`, same stream), `multinomial_sample_f64_spec`
      (one entry per category, entries sum to `n`, `n` words);
    * `empirical_sample_cons` (`Empirical::sample` = `__inverse_cdf(u)`, `u = ⌊w/4096⌋·2⁻⁵² / (1 − 2⁻⁵²) ∈ [0,1]` from ONE
      word `w`), `empirical_sample_consumes`.
-/
import Statrs.Props.C06.VectorSamplers
import Statrs.Props.C06.Vectors
import Statrs.Props.C19.MVNCholesky
import Mathlib.Probability.Moments.Covariance
import Mathlib.Probability.ProbabilityMassFunction.Integrals
import Mathlib.Probability.Distributions.Uniform
set_option linter.unusedVariables false
set_option linter.unusedSectionVars false
namespace Statrs.Props.C06
open Statrs Statrs.Gen Statrs.Model Statrs.Lemmas.Multivariate Statrs.Lemmas.Sampling
open Statrs.Spec hiding Fin  -- `Statrs.Spec.Fin` ("finite float", Spec/FloatLaws.lean) would shadow `_root_.Fin`
open MeasureTheory ProbabilityTheory Matrix

/-! ### lists ↔ Mathlib vectors and matrices -/

/-- full(ℝ): entries of `toVec` -/
theorem toVec_apply (n : ℕ) (v : List ℝ) (i : Fin n) : toVec n v i = v.getD i 0 := rfl

/-- full(ℝ): `matvec_eq_mulVec` — over ℝ nalgebra's `&a * &x` (`LA.matvec`: first column by `axc`, the others
    accumulated by `axcpy`) is `Matrix.mulVec`, for any list-of-lists `a` and any `x` with `n` entries
    (missing entries of `a` read as `0` on both sides). -/
theorem toVec_matvec (n : ℕ) (a : List (List ℝ)) (x : List ℝ) (hx : x.length = n) :
    toVec n (LA.matvec a x) = (toMatrix n a).mulVec (toVec n x) := by
  ext i
  rw [toVec_apply, matvec_eq, hx]
  simp only [Matrix.mulVec, dotProduct, toMatrix, toVec, LA.mget]
  have hd : (default : ℝ) = 0 := rfl
  by_cases hi : (i : ℕ) < a.length
  · rw [List.getD_eq_getElem?_getD, List.getElem?_map, List.getElem?_eq_getElem hi]
    simp only [Option.map_some, Option.getD_some]
    rw [list_sum_range_eq_finset, Finset.sum_range]
    apply Finset.sum_congr rfl
    intro j _
    rw [List.getD_eq_getElem?_getD (l := a), List.getElem?_eq_getElem hi, Option.getD_some, hd]
  · have h1 : (a.map (fun row => ((List.range n).map (fun t => row.getD t 0 * x.getD t 0)).sum)).getD i 0 = 0 := by
      rw [List.getD_eq_getElem?_getD, List.getElem?_eq_none (by simpa using hi)]; rfl
    rw [h1]
    symm
    apply Finset.sum_eq_zero
    intro j _
    rw [List.getD_eq_getElem?_getD (l := a), List.getElem?_eq_none (by simpa using hi)]
    simp [hd]

/-- full(ℝ): the same with the customary name -/
theorem matvec_eq_mulVec (n : ℕ) (a : List (List ℝ)) (x : List ℝ) (hx : x.length = n) :
    toVec n (LA.matvec a x) = (toMatrix n a).mulVec (toVec n x) := toVec_matvec n a x hx

/-- full(ℝ): `a + &b` on equally long vectors is the pointwise sum -/
theorem toVec_vadd (n : ℕ) (u v : List ℝ) (h : u.length = v.length) :
    toVec n (vadd u v) = toVec n u + toVec n v := by
  ext i
  simp only [toVec_apply, Pi.add_apply, vadd]
  by_cases hi : (i : ℕ) < u.length
  · have hi' : (i : ℕ) < v.length := h ▸ hi
    simp [List.getD_eq_getElem?_getD, List.getElem?_zipWith, List.getElem?_eq_getElem hi,
      List.getElem?_eq_getElem hi']
  · have hi' : ¬ (i : ℕ) < v.length := h ▸ hi
    simp [List.getD_eq_getElem?_getD, List.getElem?_zipWith, List.getElem?_eq_none (not_lt.mp hi),
      List.getElem?_eq_none (not_lt.mp hi')]

/-- full(ℝ): `w * &M` (every entry `e * w`) is the scalar multiple of the matrix -/
theorem toMatrix_scale (n : ℕ) (m : List (List ℝ)) (w : ℝ) :
    toMatrix n (m.map (fun r => r.map (fun e => e * w))) = w • toMatrix n m := by
  ext i j
  have := Statrs.Props.C19.mget_scale m w i j
  simp only [toMatrix, Matrix.smul_apply, smul_eq_mul]
  rw [mul_comm]
  exact this

/-! ### `MultivariateNormal::sample`: `x = μ + L z` -/

/-- full(ℝ): as vectors, the sample is `μ + L z` with `z` the `dim` standard-normal draws (`L` = the stored factor,
    with as many rows as `μ` has entries — true of every constructed object, `mvn_new_chol_rows`). -/
theorem mvn_sample_toVec (d : MultivariateNormal ℝ) (hL : d.f_cov_chol_decomp.length = d.f_mu.length) (rng : Rng) :
    toVec d.f_mu.length (MultivariateNormal.sample d rng).1
      = toVec d.f_mu.length d.f_mu +
        (toMatrix d.f_mu.length d.f_cov_chol_decomp).mulVec
          (toVec d.f_mu.length (stdNormalVec (α := ℝ) d.f_mu.length rng).1) := by
  rw [mvn_sample_eq, toVec_vadd _ _ _ (by rw [matvec_length, hL]), toVec_matvec _ _ _ (stdNormalVec_length _ _),
    add_comm]

/-- full(ℝ): entry `i` of the sample is `μ_i + Σ_j L_ij z_j`, `z_j` the `j`-th standard-normal draw. -/
theorem mvn_sample_entries (d : MultivariateNormal ℝ) (hL : d.f_cov_chol_decomp.length = d.f_mu.length)
    (rng : Rng) (i : Fin d.f_mu.length) :
    (MultivariateNormal.sample d rng).1.getD i 0
      = d.f_mu.getD i 0 + ∑ j : Fin d.f_mu.length, LA.mget d.f_cov_chol_decomp i j * normalDraw (α := ℝ) rng j := by
  have h := congrFun (mvn_sample_toVec d hL rng) i
  simp only [toVec_apply, Pi.add_apply, Matrix.mulVec, dotProduct, toMatrix] at h
  rw [h]
  congr 1
  apply Finset.sum_congr rfl
  intro j _
  congr 1
  rw [stdNormalVec_eq]
  simp [List.getD_eq_getElem?_getD, j.2]

/-! ### mean and covariance of `μ + L Z` -/

/-- full(ℝ): the algebraic identity behind the covariance: with `x = μ + L z`,
    `(x − μ)(x − μ)ᵀ = L (z zᵀ) Lᵀ`. -/
theorem affine_outer {n : ℕ} (μ z : Fin n → ℝ) (L : Matrix (Fin n) (Fin n) ℝ) :
    vecMulVec ((μ + L.mulVec z) - μ) ((μ + L.mulVec z) - μ) = L * vecMulVec z z * Lᵀ := by
  ext i j
  simp only [add_sub_cancel_left, vecMulVec_apply, Matrix.mul_apply, Matrix.transpose_apply, Matrix.mulVec,
    dotProduct]
  rw [Finset.sum_mul_sum, Finset.sum_comm]
  apply Finset.sum_congr rfl
  intro l _
  rw [Finset.sum_mul]
  apply Finset.sum_congr rfl
  intro k _
  ring

section expectation
variable {Ω : Type*} [MeasurableSpace Ω] (P : Measure Ω) [IsProbabilityMeasure P]

/-- full(ℝ): for ANY probability space `(Ω, P)` and ANY random vector `Z : Ω → ℝⁿ` whose coordinates and pairwise
    products are integrable with `E[Z_i] = 0` and `E[Z_i Z_j] = δ_ij` (no Gaussianity, no independence), the affine
    image `X = μ + L Z` has `E[X_i] = μ_i` and `E[(X_i − μ_i)(X_j − μ_j)] = (L Lᵀ)_ij`. -/
theorem affine_mean_cov {n : ℕ} (μ : Fin n → ℝ) (L : Matrix (Fin n) (Fin n) ℝ) (Z : Ω → Fin n → ℝ)
    (hint : ∀ i, Integrable (fun ω => Z ω i) P) (hint2 : ∀ i j, Integrable (fun ω => Z ω i * Z ω j) P)
    (hmean : ∀ i, ∫ ω, Z ω i ∂P = 0)
    (hcov : ∀ i j, ∫ ω, Z ω i * Z ω j ∂P = if i = j then 1 else 0) :
    (∀ i, Integrable (fun ω => (μ + L.mulVec (Z ω)) i) P ∧ ∫ ω, (μ + L.mulVec (Z ω)) i ∂P = μ i) ∧
    (∀ i j, ∫ ω, ((μ + L.mulVec (Z ω)) i - μ i) * ((μ + L.mulVec (Z ω)) j - μ j) ∂P = (L * Lᵀ) i j) := by
  have hlin : ∀ i, Integrable (fun ω => ∑ k, L i k * Z ω k) P := fun i =>
    integrable_finsetSum _ (fun k _ => (hint k).const_mul (L i k))
  have hX : ∀ i ω, (μ + L.mulVec (Z ω)) i = μ i + ∑ k, L i k * Z ω k := fun i ω => by
    simp [Matrix.mulVec, dotProduct]
  constructor
  · intro i
    simp only [hX]
    refine ⟨(integrable_const _).add (hlin i), ?_⟩
    rw [integral_add (integrable_const _) (hlin i), integral_const, probReal_univ, one_smul,
      integral_finsetSum _ (fun k _ => (hint k).const_mul (L i k))]
    simp [integral_const_mul, hmean]
  · intro i j
    simp only [hX, add_sub_cancel_left]
    have hprod : ∀ ω, (∑ k, L i k * Z ω k) * (∑ l, L j l * Z ω l)
        = ∑ k, ∑ l, (L i k * L j l) * (Z ω k * Z ω l) := fun ω => by
      rw [Finset.sum_mul_sum]
      apply Finset.sum_congr rfl; intro k _
      apply Finset.sum_congr rfl; intro l _
      ring
    simp only [hprod]
    rw [integral_finsetSum _ (fun k _ => integrable_finsetSum _ (fun l _ => (hint2 k l).const_mul _))]
    simp only [Matrix.mul_apply, Matrix.transpose_apply]
    apply Finset.sum_congr rfl
    intro k _
    rw [integral_finsetSum _ (fun l _ => (hint2 k l).const_mul _)]
    simp only [integral_const_mul, hcov]
    simp

/-- full(ℝ): … in Mathlib's vocabulary: `P[X_i] = μ_i` and `cov[X_i, X_j; P] = (L Lᵀ)_ij`. -/
theorem affine_covariance {n : ℕ} (μ : Fin n → ℝ) (L : Matrix (Fin n) (Fin n) ℝ) (Z : Ω → Fin n → ℝ)
    (hint : ∀ i, Integrable (fun ω => Z ω i) P) (hint2 : ∀ i j, Integrable (fun ω => Z ω i * Z ω j) P)
    (hmean : ∀ i, ∫ ω, Z ω i ∂P = 0)
    (hcov : ∀ i j, ∫ ω, Z ω i * Z ω j ∂P = if i = j then 1 else 0) (i j : Fin n) :
    cov[fun ω => (μ + L.mulVec (Z ω)) i, fun ω => (μ + L.mulVec (Z ω)) j; P] = (L * Lᵀ) i j := by
  obtain ⟨h1, h2⟩ := affine_mean_cov P μ L Z hint hint2 hmean hcov
  unfold covariance
  rw [(h1 i).2, (h1 j).2]
  exact h2 i j

end expectation

/-- a fair sign -/
noncomputable def rademacher (b : Bool) : ℝ := if b then 1 else -1

/-- non-vacuity of the moment hypotheses of `affine_mean_cov` (dimension 2, no Gaussian needed): two independent
    fair signs on `Bool × Bool` have mean `0` and identity second moments -/
example : ∃ (P : Measure (Bool × Bool)) (_ : IsProbabilityMeasure P) (Z : Bool × Bool → Fin 2 → ℝ),
    (∀ i, Integrable (fun ω => Z ω i) P) ∧ (∀ i j, Integrable (fun ω => Z ω i * Z ω j) P) ∧
    (∀ i, ∫ ω, Z ω i ∂P = 0) ∧ (∀ i j, ∫ ω, Z ω i * Z ω j ∂P = if i = j then 1 else 0) := by
  refine ⟨(PMF.uniformOfFintype (Bool × Bool)).toMeasure, inferInstance,
    fun ω => ![rademacher ω.1, rademacher ω.2],
    fun i => Integrable.of_finite, fun i j => Integrable.of_finite, ?_, ?_⟩
  · intro i
    rw [PMF.integral_eq_sum]
    fin_cases i <;> simp [PMF.uniformOfFintype_apply, Fintype.sum_prod_type, rademacher]
  · intro i j
    rw [PMF.integral_eq_sum]
    fin_cases i <;> fin_cases j <;>
      simp [PMF.uniformOfFintype_apply, Fintype.sum_prod_type, rademacher] <;> norm_num

section expectation
variable {Ω : Type*} [MeasurableSpace Ω] (P : Measure Ω) [IsProbabilityMeasure P]

/-- the deterministic part of `MultivariateNormal::sample`: what it does with the vector `z` of normal draws -/
noncomputable def mvnMap (d : MultivariateNormal ℝ) (z : List ℝ) : List ℝ :=
  vadd (LA.matvec d.f_cov_chol_decomp z) d.f_mu

/-- full(ℝ): the sampler is `mvnMap` applied to the vector of normal draws -/
theorem mvn_sample_eq_mvnMap (d : MultivariateNormal ℝ) (rng : Rng) :
    MultivariateNormal.sample d rng
      = (mvnMap d (stdNormalVec (α := ℝ) d.f_mu.length rng).1, (stdNormalVec (α := ℝ) d.f_mu.length rng).2) := rfl

/-- full(ℝ): `toVec` of the list of a function -/
theorem toVec_ofFn {n : ℕ} (z : Fin n → ℝ) : toVec n (List.ofFn z) = z := by
  ext i
  simp [toVec_apply, List.getD_eq_getElem?_getD]

/-- full(ℝ): `mvnMap d z = μ + L z` as vectors -/
theorem toVec_mvnMap (d : MultivariateNormal ℝ) (hL : d.f_cov_chol_decomp.length = d.f_mu.length)
    (z : Fin d.f_mu.length → ℝ) :
    toVec d.f_mu.length (mvnMap d (List.ofFn z))
      = toVec d.f_mu.length d.f_mu + (toMatrix d.f_mu.length d.f_cov_chol_decomp).mulVec z := by
  unfold mvnMap
  rw [toVec_vadd _ _ _ (by rw [matvec_length, hL]), toVec_matvec _ _ _ (by simp), add_comm, toVec_ofFn]

/-- full(ℝ): **mean and covariance of the sampler's output.**  Feed the sampler's own map
    `z ↦ (&cov_chol_decomp * z) + &mu` (`mvnMap`, `mvn_sample_eq_mvnMap`) with ANY random vector `Z` of mean `0` and
    identity covariance on any probability space: the result has mean `μ` and covariance matrix `L Lᵀ`. -/
theorem mvn_sample_mean_cov (d : MultivariateNormal ℝ) (hL : d.f_cov_chol_decomp.length = d.f_mu.length)
    (Z : Ω → Fin d.f_mu.length → ℝ)
    (hint : ∀ i, Integrable (fun ω => Z ω i) P) (hint2 : ∀ i j, Integrable (fun ω => Z ω i * Z ω j) P)
    (hmean : ∀ i, ∫ ω, Z ω i ∂P = 0)
    (hcov : ∀ i j, ∫ ω, Z ω i * Z ω j ∂P = if i = j then 1 else 0) :
    let X : Ω → Fin d.f_mu.length → ℝ := fun ω => toVec d.f_mu.length (mvnMap d (List.ofFn (Z ω)))
    let L := toMatrix d.f_mu.length d.f_cov_chol_decomp
    (∀ i, ∫ ω, X ω i ∂P = d.f_mu.getD i 0) ∧
    (∀ i j, cov[fun ω => X ω i, fun ω => X ω j; P] = (L * Lᵀ) i j) := by
  intro X L
  have hX : X = fun ω => toVec d.f_mu.length d.f_mu + L.mulVec (Z ω) := by
    funext ω; exact toVec_mvnMap d hL (Z ω)
  rw [hX]
  obtain ⟨h1, _⟩ := affine_mean_cov P (toVec d.f_mu.length d.f_mu) L Z hint hint2 hmean hcov
  exact ⟨fun i => (h1 i).2, fun i j => affine_covariance P _ L Z hint hint2 hmean hcov i j⟩

end expectation

end Statrs.Props.C06
