/-
  C06 — structural constraints of the vector variates, over ℝ, on the list models
  `dirichlet_sample` / `multinomial_sample` of `Statrs/Model/Samplers.lean`:

  * Dirichlet (current tree): the returned vector has one entry per concentration parameter and its
    entries sum to 1 whenever the gamma draws do not sum to 0 (then the Rust code divides by zero);
  * Multinomial: for non-negative weights (not all needed positive), `n ≥ 0` and any well-formed
    stream, the count vector has one entry per category, non-negative entries, and sums to `n`;
    exactly `n` words are consumed.

  Not proved: positivity of the Dirichlet entries (needs positivity of the Marsaglia–Tsang gamma
  draws, a property of a rejection sampler on ℝ that depends on the ziggurat output).
  Strength: full(ℝ).
-/
import Statrs.Lemmas.Sampling
import Statrs.Props.C06.Discrete
import Statrs.Props.C06.Structure
set_option linter.unusedVariables false
set_option linter.unusedSectionVars false
namespace Statrs.Props.C06
open Statrs Statrs.Gen Statrs.Model Statrs.Lemmas.Sampling

/-! ## Dirichlet -/

private theorem dirichlet_fold_inv : ∀ (alpha : List ℝ) (s : ℝ) (l : List ℝ) (r : Rng), s = l.sum →
    let st := alpha.foldl (fun (st : ℝ × List ℝ × Rng) a =>
      let (sample, rng) := gamma_sample_unchecked (α := ℝ) st.2.2 a (1.0 : ℝ)
      (st.1 + sample, st.2.1 ++ [sample], rng)) (s, l, r)
    st.1 = st.2.1.sum ∧ st.2.1.length = l.length + alpha.length := by
  intro alpha
  induction alpha with
  | nil => intro s l r h; simp [h]
  | cons a t ih =>
    intro s l r h
    simp only [List.foldl_cons]
    obtain ⟨h1, h2⟩ := ih (s + (gamma_sample_unchecked (α := ℝ) r a (1.0 : ℝ)).1)
      (l ++ [(gamma_sample_unchecked (α := ℝ) r a (1.0 : ℝ)).1])
      (gamma_sample_unchecked (α := ℝ) r a (1.0 : ℝ)).2 (by simp [h])
    refine ⟨h1, ?_⟩
    rw [h2]; simp; ring

/-- the accumulated `sum` is the sum of the draws, one draw per `alpha` entry -/
theorem dirichlet_draws_spec (alpha : List ℝ) (r : Rng) :
    (dirichlet_sample.draws (α := ℝ) alpha r).1 = ((dirichlet_sample.draws (α := ℝ) alpha r).2.1).sum
      ∧ ((dirichlet_sample.draws (α := ℝ) alpha r).2.1).length = alpha.length := by
  have := dirichlet_fold_inv alpha (0.0 : ℝ) [] r (by norm_num)
  simpa [dirichlet_sample.draws] using this

/-- Dirichlet (current tree): one entry per parameter, and the entries sum to 1 — the variate is on
    the hyperplane of the simplex — provided the gamma draws do not sum to zero -/
theorem dirichlet_sample_sum_one (alpha : List ℝ) (r : Rng)
    (hs : (dirichlet_sample.draws (α := ℝ) alpha r).1 ≠ 0) :
    (dirichlet_sample (α := ℝ) alpha r).1.length = alpha.length
      ∧ (dirichlet_sample (α := ℝ) alpha r).1.sum = 1 := by
  obtain ⟨h1, h2⟩ := dirichlet_draws_spec alpha r
  unfold dirichlet_sample
  simp only [List.length_map, h2, true_and]
  have : ∀ (l : List ℝ) (c : ℝ), (l.map (fun e => e / c)).sum = l.sum / c := by
    intro l c
    induction l with
    | nil => simp
    | cons a t ih => simp [ih, add_div]
  rw [this, ← h1, div_self hs]

/-! ## Multinomial -/

theorem genF64_mem_of_WF (r : Rng) (h : r.WF) :
    0 ≤ (genF64 (α := ℝ) r).1 ∧ (genF64 (α := ℝ) r).1 < 1 ∧ (genF64 (α := ℝ) r).2.WF := by
  rcases r with ⟨ws⟩
  cases ws with
  | nil =>
    refine ⟨?_, ?_, ?_⟩
    · simp [genF64, Rng.nextU64, cScale53_real]
    · simp [genF64, Rng.nextU64, cScale53_real]
    · simpa [genF64, Rng.nextU64] using h
  | cons w t =>
    have hw := h w (by simp)
    rw [genF64_cons]
    obtain ⟨a, b⟩ := unit53_mem hw.1 hw.2
    exact ⟨a, b, fun v hv => h v (by simp at hv ⊢; exact Or.inr hv)⟩

/-- the index returned by `categorical::sample_unchecked` is a valid index of the table -/
theorem categorical_index_valid (cdf : List ℝ) (hne : cdf ≠ []) (hlast : 0 ≤ cdf.getLast hne)
    (r : Rng) (h : r.WF) :
    ∃ k : Nat, (categorical_sample_unchecked (α := ℝ) r cdf).1 = (k : Int) ∧ k < cdf.length := by
  obtain ⟨hu0, hu1, _⟩ := genF64_mem_of_WF r h
  have hgl : cdf.getLast? = some (cdf.getLast hne) := List.getLast?_eq_some_getLast hne
  set draw := (genF64 (α := ℝ) r).1 * cdf.getLast hne with hd
  have hdraw : draw ≤ cdf.getLast hne := by rw [hd]; nlinarith
  have hsome := positionGe_isSome draw cdf 0 ⟨cdf.getLast hne, List.getLast_mem hne, hdraw⟩
  obtain ⟨j, hj⟩ := Option.isSome_iff_exists.mp hsome
  obtain ⟨k, hjk, hk, _, _⟩ := positionGe_spec draw cdf 0 j hj
  refine ⟨k, ?_, hk⟩
  simp only [categorical_sample_unchecked, hgl, unwrapO]
  show unwrapO (positionGe draw cdf 0) = _
  rw [hj, hjk]; simp [unwrapO]

private theorem sum_set_succ : ∀ (l : List Int) (k : Nat) (d : Int), k < l.length →
    (l.set k (l.getD k d + 1)).sum = l.sum + 1 ∧ (l.set k (l.getD k d + 1)).length = l.length
      ∧ ((∀ x ∈ l, 0 ≤ x) → ∀ x ∈ l.set k (l.getD k d + 1), 0 ≤ x) := by
  intro l
  induction l with
  | nil => intro k d h; simp at h
  | cons a t ih =>
    intro k d h
    cases k with
    | zero =>
      refine ⟨by simp; ring, by simp, ?_⟩
      intro hx x hm
      simp at hm
      rcases hm with rfl | hm
      · have := hx a (by simp); omega
      · exact hx x (by simp [hm])
    | succ k =>
      obtain ⟨h1, h2, h3⟩ := ih k d (by simpa using h)
      refine ⟨by simp at h1 ⊢; rw [h1]; ring, by simp, ?_⟩
      intro hx x hm
      simp at hm
      rcases hm with rfl | hm
      · exact hx x (by simp)
      · exact h3 (fun y hy => hx y (by simp [hy])) x (by simpa using hm)

/-- running sums of non-negative weights: one entry per weight, last entry `≥ 0` -/
theorem prob_mass_to_cdf_spec (p : List ℝ) (hne : p ≠ []) (hp : ∀ x ∈ p, 0 ≤ x) :
    ∃ h : prob_mass_to_cdf (α := ℝ) p ≠ [],
      0 ≤ (prob_mass_to_cdf (α := ℝ) p).getLast h ∧ (prob_mass_to_cdf (α := ℝ) p).length = p.length := by
  have key : ∀ (q : List ℝ) (s : ℝ) (acc : List ℝ), 0 ≤ s → (∀ x ∈ q, 0 ≤ x) →
      let st := q.foldl (fun (st : ℝ × List ℝ) p => let sum := st.1 + p; (sum, st.2 ++ [sum])) (s, acc)
      0 ≤ st.1 ∧ st.2.length = acc.length + q.length ∧ (q ≠ [] → st.2.getLast? = some st.1) := by
    intro q
    induction q with
    | nil => intro s acc hs _; simp [hs]
    | cons a t ih =>
      intro s acc hs hq
      simp only [List.foldl_cons]
      have ha := hq a (by simp)
      obtain ⟨h1, h2, h3⟩ := ih (s + a) (acc ++ [s + a]) (by linarith) (fun x hx => hq x (by simp [hx]))
      refine ⟨h1, by rw [h2]; simp; ring, ?_⟩
      intro _
      by_cases ht : t = []
      · subst ht; simp
      · exact h3 ht
  obtain ⟨h1, h2, h3⟩ := key p (0.0 : ℝ) [] (by norm_num) hp
  have hl := h3 hne
  have hne' : prob_mass_to_cdf (α := ℝ) p ≠ [] := by
    intro he
    unfold prob_mass_to_cdf at he
    rw [he] at hl; simp at hl
  refine ⟨hne', ?_, by simpa [prob_mass_to_cdf] using h2⟩
  have : (prob_mass_to_cdf (α := ℝ) p).getLast? = some ((prob_mass_to_cdf (α := ℝ) p).getLast hne') :=
    List.getLast?_eq_some_getLast hne'
  unfold prob_mass_to_cdf at this ⊢
  rw [hl] at this
  rw [← Option.some.inj this]; exact h1

/-- Multinomial: for non-negative weights, `n ≥ 0` and a well-formed stream, the count vector has
    one entry per category, all entries `≥ 0`, the entries sum to `n`, and `n` words are consumed -/
theorem multinomial_sample_spec (p : List ℝ) (hne : p ≠ []) (hp : ∀ x ∈ p, 0 ≤ x) (n : Int)
    (hn : 0 ≤ n) (r : Rng) (hwf : r.WF) :
    (multinomial_sample (α := ℝ) p n r).1.length = p.length
      ∧ (multinomial_sample (α := ℝ) p n r).1.sum = n
      ∧ (∀ x ∈ (multinomial_sample (α := ℝ) p n r).1, 0 ≤ x)
      ∧ Consumes r (multinomial_sample (α := ℝ) p n r).2 n.toNat := by
  obtain ⟨hcne, hlast, hlen⟩ := prob_mass_to_cdf_spec p hne hp
  have step : ∀ (st : List Int × Rng), st.1.length = p.length → st.2.WF →
      (multinomial_sample.step (α := ℝ) (prob_mass_to_cdf (α := ℝ) p) st).1.length = p.length
        ∧ (multinomial_sample.step (α := ℝ) (prob_mass_to_cdf (α := ℝ) p) st).1.sum = st.1.sum + 1
        ∧ ((∀ x ∈ st.1, 0 ≤ x) → ∀ x ∈ (multinomial_sample.step (α := ℝ) (prob_mass_to_cdf (α := ℝ) p) st).1, 0 ≤ x)
        ∧ (multinomial_sample.step (α := ℝ) (prob_mass_to_cdf (α := ℝ) p) st).2.WF
        ∧ Consumes st.2 (multinomial_sample.step (α := ℝ) (prob_mass_to_cdf (α := ℝ) p) st).2 1 := by
    intro st hl hw
    obtain ⟨k, hk, hkl⟩ := categorical_index_valid _ hcne hlast st.2 hw
    have hk' : k < st.1.length := by rw [hl, ← hlen]; exact hkl
    obtain ⟨s1, s2, s3⟩ := sum_set_succ st.1 k default hk'
    have hv : (multinomial_sample.step (α := ℝ) (prob_mass_to_cdf (α := ℝ) p) st).1
        = st.1.set k (st.1.getD k default + 1) := by
      have hk0 : ¬ ((k : Int) < 0) := by omega
      simp only [multinomial_sample.step, hk, listSet, listGet, if_neg hk0]
      simp
    have hr : (multinomial_sample.step (α := ℝ) (prob_mass_to_cdf (α := ℝ) p) st).2
        = (genF64 (α := ℝ) st.2).2 := rfl
    rw [hv, hr]
    exact ⟨by rw [s2, hl], s1, s3, (genF64_mem_of_WF st.2 hw).2.2, genF64_consumes st.2⟩
  have fold : ∀ (m : Nat) (st : List Int × Rng), st.1.length = p.length → st.2.WF →
      (∀ x ∈ st.1, 0 ≤ x) →
      let res := foldTimes (multinomial_sample.step (α := ℝ) (prob_mass_to_cdf (α := ℝ) p)) m st
      res.1.length = p.length ∧ res.1.sum = st.1.sum + m ∧ (∀ x ∈ res.1, 0 ≤ x) ∧ Consumes st.2 res.2 m := by
    intro m
    induction m with
    | zero => intro st hl hw hx; simp [foldTimes, hl, Consumes]; exact hx
    | succ m ih =>
      intro st hl hw hx
      obtain ⟨a, b, c, d, e⟩ := step st hl hw
      obtain ⟨a', b', c', e'⟩ := ih _ a d (c hx)
      simp only [foldTimes]
      refine ⟨a', by rw [b', b]; push_cast; ring, c', ?_⟩
      have := Consumes.trans e e'
      rwa [Nat.add_comm] at this
  obtain ⟨a, b, c, e⟩ := fold n.toNat (List.replicate p.length 0, r) (by simp) hwf
    (by intro x hx; simp at hx; omega)
  unfold multinomial_sample
  refine ⟨a, ?_, c, e⟩
  rw [b]; simp [Int.toNat_of_nonneg hn]

example : ∃ p : List ℝ, p ≠ [] ∧ ∀ x ∈ p, 0 ≤ x := ⟨[0.125, 0, 0.875], by simp, by
  intro x hx; simp at hx; rcases hx with rfl | rfl | rfl <;> norm_num⟩

end Statrs.Props.C06
