/-
  C06 — structural invariants of the ziggurat tables (src/distribution/ziggurat_tables.rs), proved
  over ℝ on the generated tables (the decimal literals denote exact rationals; 4 × 256 comparisons
  by `norm_num`):

  * all four tables have 257 entries, so `x_tab[i]`, `x_tab[i+1]`, `f_tab[i]`, `f_tab[i+1]` are in
    bounds for every `i = bits & 0xff`;
  * `X` is strictly decreasing from `X[0]` down to `X[256] = 0`, with `X[1] = R`;
  * `F` is strictly increasing up to `F[256] = 1`, and positive.

  Not proved (transcendental): `F[i] = pdf(X[i])` and equal strip areas.
  Strength: full(ℝ).
-/
import Statrs.Real.Simp
import Statrs.Gen.D_ziggurat_tables
import Mathlib.Tactic
set_option maxRecDepth 100000
namespace Statrs.Props.C06
open Statrs Statrs.Gen

theorem zig_norm_x_length : (D.ziggurat_tables.ZIG_NORM_X (α := ℝ)).length = 257 := by
  unfold D.ziggurat_tables.ZIG_NORM_X; rfl
theorem zig_norm_f_length : (D.ziggurat_tables.ZIG_NORM_F (α := ℝ)).length = 257 := by
  unfold D.ziggurat_tables.ZIG_NORM_F; rfl
theorem zig_exp_x_length : (D.ziggurat_tables.ZIG_EXP_X (α := ℝ)).length = 257 := by
  unfold D.ziggurat_tables.ZIG_EXP_X; rfl
theorem zig_exp_f_length : (D.ziggurat_tables.ZIG_EXP_F (α := ℝ)).length = 257 := by
  unfold D.ziggurat_tables.ZIG_EXP_F; rfl

/-- every table index the ziggurat loop uses is in bounds -/
theorem zig_index_in_bounds (bits : Int) :
    0 ≤ bits % 256 ∧ bits % 256 + 1 < 257 := by omega

/-- `ZIG_NORM_X` is strictly decreasing -/
theorem zig_norm_x_strictAnti :
    (D.ziggurat_tables.ZIG_NORM_X (α := ℝ)).IsChain (fun a b => b < a) := by
  unfold D.ziggurat_tables.ZIG_NORM_X
  simp only [List.isChain_cons_cons, List.isChain_singleton, and_true]
  norm_num

/-- `ZIG_NORM_F` is strictly increasing -/
theorem zig_norm_f_strictMono :
    (D.ziggurat_tables.ZIG_NORM_F (α := ℝ)).IsChain (fun a b => a < b) := by
  unfold D.ziggurat_tables.ZIG_NORM_F
  simp only [List.isChain_cons_cons, List.isChain_singleton, and_true]
  norm_num

/-- `ZIG_EXP_X` is strictly decreasing -/
theorem zig_exp_x_strictAnti :
    (D.ziggurat_tables.ZIG_EXP_X (α := ℝ)).IsChain (fun a b => b < a) := by
  unfold D.ziggurat_tables.ZIG_EXP_X
  simp only [List.isChain_cons_cons, List.isChain_singleton, and_true]
  norm_num

/-- `ZIG_EXP_F` is strictly increasing -/
theorem zig_exp_f_strictMono :
    (D.ziggurat_tables.ZIG_EXP_F (α := ℝ)).IsChain (fun a b => a < b) := by
  unfold D.ziggurat_tables.ZIG_EXP_F
  simp only [List.isChain_cons_cons, List.isChain_singleton, and_true]
  norm_num

/-- end points: `X[1] = R`, `X[256] = 0`, `F[0] > 0`, `F[256] = 1` (normal table) -/
theorem zig_norm_endpoints :
    (D.ziggurat_tables.ZIG_NORM_X (α := ℝ))[1]? = some (D.ziggurat_tables.ZIG_NORM_R (α := ℝ))
      ∧ (D.ziggurat_tables.ZIG_NORM_X (α := ℝ))[256]? = some 0
      ∧ (∃ v, (D.ziggurat_tables.ZIG_NORM_F (α := ℝ))[0]? = some v ∧ 0 < v)
      ∧ (D.ziggurat_tables.ZIG_NORM_F (α := ℝ))[256]? = some 1 := by
  unfold D.ziggurat_tables.ZIG_NORM_X D.ziggurat_tables.ZIG_NORM_F D.ziggurat_tables.ZIG_NORM_R
  refine ⟨rfl, ?_, ⟨_, rfl, by norm_num⟩, ?_⟩ <;> norm_num

/-- end points: `X[1] = R`, `X[256] = 0`, `F[0] > 0`, `F[256] = 1` (exponential table) -/
theorem zig_exp_endpoints :
    (D.ziggurat_tables.ZIG_EXP_X (α := ℝ))[1]? = some (D.ziggurat_tables.ZIG_EXP_R (α := ℝ))
      ∧ (D.ziggurat_tables.ZIG_EXP_X (α := ℝ))[256]? = some 0
      ∧ (∃ v, (D.ziggurat_tables.ZIG_EXP_F (α := ℝ))[0]? = some v ∧ 0 < v)
      ∧ (D.ziggurat_tables.ZIG_EXP_F (α := ℝ))[256]? = some 1 := by
  unfold D.ziggurat_tables.ZIG_EXP_X D.ziggurat_tables.ZIG_EXP_F D.ziggurat_tables.ZIG_EXP_R
  refine ⟨rfl, ?_, ⟨_, rfl, by norm_num⟩, ?_⟩ <;> norm_num

end Statrs.Props.C06
