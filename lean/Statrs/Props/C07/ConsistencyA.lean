/-
  C07 (consistency, part A) — `variance ≥ 0`, `std_dev ≥ 0`, `std_dev² = variance`, and
  `std_dev` defined exactly when `variance` is, bundled as `Spec.MomentsConsistent`, for the
  continuous families whose variance is an elementary expression.  Carrier ℝ, hypotheses are
  the constructor predicates on the struct fields.  full(ℝ).
-/
import Statrs.Real.Simp
import Statrs.Gen.D_normal
import Statrs.Gen.D_cauchy
import Statrs.Gen.D_laplace
import Statrs.Gen.D_gumbel
import Statrs.Gen.D_uniform
import Statrs.Gen.D_triangular
import Statrs.Gen.D_exponential
import Statrs.Gen.D_gamma
import Statrs.Gen.D_erlang
import Statrs.Gen.D_chi_squared
import Statrs.Gen.D_beta
import Statrs.Gen.D_log_normal
import Statrs.Gen.D_pareto
import Statrs.Gen.D_inverse_gamma
import Statrs.Gen.D_fisher_snedecor
import Statrs.Gen.D_students_t
import Statrs.Gen.D_dirac
import Statrs.Spec.MomentSpec
import Statrs.Lemmas.Related
import Mathlib.Tactic
namespace Statrs.Props.C07
open Statrs Statrs.Gen Statrs.Spec Statrs.Lemmas.Related

/-- Normal overrides `std_dev` (returns the parameter); consistent for `σ > 0` -/
theorem normal_moments_consistent (d : Normal ℝ) (h : 0 < d.f_std_dev) :
    MomentsConsistent (Normal.variance d) (Normal.std_dev d) := by
  unfold Normal.variance Normal.std_dev
  exact consistent_some h.le rfl

/-- Cauchy: neither exists -/
theorem cauchy_moments_consistent (d : Cauchy ℝ) :
    MomentsConsistent (Cauchy.variance d) (Cauchy.std_dev d) := by
  unfold Cauchy.std_dev Cauchy.variance
  exact consistent_none

theorem laplace_moments_consistent (d : Laplace ℝ) :
    MomentsConsistent (Laplace.variance d) (Laplace.std_dev d) := by
  unfold Laplace.std_dev
  apply consistent_of_default
  intro v hv; unfold Laplace.variance at hv; lit_norm
  simp only [Option.some.injEq] at hv; subst hv
  nlinarith [mul_self_nonneg d.f_scale]

/-- Gumbel overrides `std_dev` with `s·π/√6`; consistent with `variance = π²/6·s²` for `s > 0` -/
theorem gumbel_moments_consistent (d : Gumbel ℝ) (h : 0 < d.f_scale) :
    MomentsConsistent (Gumbel.variance d) (Gumbel.std_dev d) := by
  unfold Gumbel.variance Gumbel.std_dev
  rfun_norm; lit_norm
  apply consistent_some
  · have := Real.pi_pos; positivity
  · have h6 : Real.sqrt 6 * Real.sqrt 6 = 6 := Real.mul_self_sqrt (by norm_num)
    have hne : Real.sqrt 6 ≠ 0 := by positivity
    field_simp
    nlinarith [h6]

theorem uniform_moments_consistent (d : Uniform ℝ) :
    MomentsConsistent (Uniform.variance d) (Uniform.std_dev d) := by
  unfold Uniform.std_dev
  apply consistent_of_default
  intro v hv; unfold Uniform.variance at hv; lit_norm
  simp only [Option.some.injEq] at hv; subst hv
  have := mul_self_nonneg (d.f_max - d.f_min)
  positivity

theorem triangular_moments_consistent (d : Triangular ℝ) :
    MomentsConsistent (Triangular.variance d) (Triangular.std_dev d) := by
  unfold Triangular.std_dev
  apply consistent_of_default
  intro v hv; unfold Triangular.variance at hv; lit_norm
  simp only [Option.some.injEq] at hv; subst hv
  apply div_nonneg _ (by norm_num)
  nlinarith [sq_nonneg (d.f_min - d.f_max), sq_nonneg (d.f_min - d.f_mode),
    sq_nonneg (d.f_max - d.f_mode)]

theorem exp_moments_consistent (d : Exp ℝ) :
    MomentsConsistent (Exp.variance d) (Exp.std_dev d) := by
  unfold Exp.std_dev
  apply consistent_of_default
  intro v hv; unfold Exp.variance at hv; lit_norm
  simp only [Option.some.injEq] at hv; subst hv
  have := mul_self_nonneg d.f_rate
  positivity

theorem gamma_moments_consistent (d : Gamma ℝ) (h : 0 < d.f_shape) :
    MomentsConsistent (Gamma.variance d) (Gamma.std_dev d) := by
  unfold Gamma.std_dev
  apply consistent_of_default
  intro v hv; unfold Gamma.variance at hv
  simp only [Option.some.injEq] at hv; subst hv
  exact div_nonneg h.le (mul_self_nonneg _)

theorem erlang_moments_consistent (d : Erlang ℝ) (h : 0 < d.f_g.f_shape) :
    MomentsConsistent (Erlang.variance d) (Erlang.std_dev d) := by
  unfold Erlang.std_dev
  apply consistent_of_default
  intro v hv; unfold Erlang.variance Gamma.variance at hv
  simp only [Option.some.injEq] at hv; subst hv
  exact div_nonneg h.le (mul_self_nonneg _)

theorem chiSquared_moments_consistent (d : ChiSquared ℝ) (h : 0 < d.f_g.f_shape) :
    MomentsConsistent (ChiSquared.variance d) (ChiSquared.std_dev d) := by
  unfold ChiSquared.std_dev
  apply consistent_of_default
  intro v hv; unfold ChiSquared.variance Gamma.variance at hv
  simp only [Option.some.injEq] at hv; subst hv
  exact div_nonneg h.le (mul_self_nonneg _)

theorem beta_moments_consistent (d : Beta ℝ) (ha : 0 < d.f_shape_a) (hb : 0 < d.f_shape_b) :
    MomentsConsistent (Beta.variance d) (Beta.std_dev d) := by
  unfold Beta.std_dev
  apply consistent_of_default
  intro v hv; unfold Beta.variance at hv; lit_norm
  simp only [Option.some.injEq] at hv; subst hv
  positivity

theorem logNormal_moments_consistent (d : LogNormal ℝ) :
    MomentsConsistent (LogNormal.variance d) (LogNormal.std_dev d) := by
  unfold LogNormal.std_dev
  apply consistent_of_default
  intro v hv; unfold LogNormal.variance at hv; rfun_norm; lit_norm
  simp only [Option.some.injEq] at hv; subst hv
  have h1 : 1 ≤ Real.exp (d.f_scale * d.f_scale) := Real.one_le_exp (mul_self_nonneg _)
  exact mul_nonneg (by linarith) (Real.exp_pos _).le

theorem pareto_moments_consistent (d : Pareto ℝ) :
    MomentsConsistent (Pareto.variance d) (Pareto.std_dev d) := by
  unfold Pareto.std_dev
  apply consistent_of_default
  intro v hv; unfold Pareto.variance at hv; lit_norm
  split_ifs at hv with h2
  rw [not_le] at h2
  simp only [Option.some.injEq] at hv; subst hv
  have : 0 < d.f_shape - 2 := by linarith
  have : 0 < d.f_shape := by linarith
  have := mul_self_nonneg (d.f_scale / (d.f_shape - 1))
  positivity

theorem inverseGamma_moments_consistent (d : InverseGamma ℝ) :
    MomentsConsistent (InverseGamma.variance d) (InverseGamma.std_dev d) := by
  unfold InverseGamma.std_dev
  apply consistent_of_default
  intro v hv; unfold InverseGamma.variance at hv; lit_norm
  split_ifs at hv with h2
  rw [not_le] at h2
  simp only [Option.some.injEq] at hv; subst hv
  have : 0 < d.f_shape - 2 := by linarith
  have := mul_self_nonneg d.f_rate
  have := mul_self_nonneg (d.f_shape - 1)
  positivity

theorem fisherSnedecor_moments_consistent (d : FisherSnedecor ℝ) (h1 : 0 < d.f_freedom_1) :
    MomentsConsistent (FisherSnedecor.variance d) (FisherSnedecor.std_dev d) := by
  unfold FisherSnedecor.std_dev
  apply consistent_of_default
  intro v hv; unfold FisherSnedecor.variance at hv; lit_norm
  split_ifs at hv with h4
  rw [not_le] at h4
  simp only [Option.some.injEq] at hv; subst hv
  have : 0 < d.f_freedom_2 - 4 := by linarith
  have : 0 < d.f_freedom_2 - 2 := by linarith
  have : 0 < d.f_freedom_2 := by linarith
  have : 0 < d.f_freedom_1 + d.f_freedom_2 - 2 := by linarith
  positivity

theorem studentsT_moments_consistent (d : StudentsT ℝ) :
    MomentsConsistent (StudentsT.variance d) (StudentsT.std_dev d) := by
  unfold StudentsT.std_dev
  apply consistent_of_default
  intro v hv; unfold StudentsT.variance at hv; rfun_norm; lit_norm
  simp only [Bool.false_eq_true, if_false] at hv
  split_ifs at hv with h2
  simp only [Option.some.injEq] at hv; subst hv
  have : 0 < d.f_freedom - 2 := by linarith
  have : 0 < d.f_freedom := by linarith
  have := mul_self_nonneg d.f_scale
  apply div_nonneg _ (by linarith)
  nlinarith [mul_self_nonneg d.f_scale]

theorem dirac_moments_consistent (d : Dirac ℝ) :
    MomentsConsistent (Dirac.variance d) (Dirac.std_dev d) := by
  unfold Dirac.std_dev
  apply consistent_of_default
  intro v hv; unfold Dirac.variance at hv; lit_norm
  simp only [Option.some.injEq] at hv; subst hv; exact le_refl _

example : ∃ d : Normal ℝ, 0 < d.f_std_dev := ⟨⟨0, 1⟩, one_pos⟩
example : ∃ d : Beta ℝ, 0 < d.f_shape_a ∧ 0 < d.f_shape_b := ⟨⟨1, 1⟩, by norm_num⟩
example : ∃ d : FisherSnedecor ℝ, 0 < d.f_freedom_1 := ⟨⟨1, 1⟩, by norm_num⟩

end Statrs.Props.C07
