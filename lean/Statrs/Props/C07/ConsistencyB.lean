/-
  C07 (consistency, part B) — `Spec.MomentsConsistent (variance) (std_dev)` for the discrete
  families, plus the families whose variance goes through special functions (Chi, Weibull:
  `_partial`, nonnegativity of the variance is out of reach without Γ-function premises) and Levy
  (both moments are `+∞`; stated for every carrier).
  Unsigned Rust integers are `Int` in the model: hypotheses such as `0 ≤ d.f_n` are the `u64`
  typing invariant, the others are the constructor predicates.
-/
import Statrs.Real.Simp
import Statrs.Gen.D_binomial
import Statrs.Gen.D_bernoulli
import Statrs.Gen.D_discrete_uniform
import Statrs.Gen.D_geometric
import Statrs.Gen.D_hypergeometric
import Statrs.Gen.D_negative_binomial
import Statrs.Gen.D_poisson
import Statrs.Gen.D_levy
import Statrs.Gen.D_chi
import Statrs.Gen.D_weibull
import Statrs.Spec.MomentSpec
import Statrs.Lemmas.Related
import Mathlib.Tactic
namespace Statrs.Props.C07
open Statrs Statrs.Gen Statrs.Spec Statrs.Lemmas.Related

theorem binomial_moments_consistent (d : Binomial ℝ) (hp0 : 0 ≤ d.f_p) (hp1 : d.f_p ≤ 1)
    (hn : 0 ≤ d.f_n) :
    MomentsConsistent (Binomial.variance d) (Binomial.std_dev d) := by
  unfold Binomial.std_dev
  apply consistent_of_default
  intro v hv; unfold Binomial.variance at hv; rfun_norm; lit_norm
  simp only [Option.some.injEq] at hv; subst hv
  have : (0 : ℝ) ≤ (d.f_n : ℝ) := by exact_mod_cast hn
  exact mul_nonneg (mul_nonneg hp0 (by linarith)) this

theorem bernoulli_moments_consistent (d : Bernoulli ℝ) (hp0 : 0 ≤ d.f_b.f_p)
    (hp1 : d.f_b.f_p ≤ 1) (hn : d.f_b.f_n = 1) :
    MomentsConsistent (Bernoulli.variance d) (Bernoulli.std_dev d) := by
  have := binomial_moments_consistent d.f_b hp0 hp1 (by rw [hn]; norm_num)
  exact this

theorem discreteUniform_moments_consistent (d : DiscreteUniform) (h : d.f_min ≤ d.f_max) :
    MomentsConsistent (DiscreteUniform.variance (α := ℝ) d) (DiscreteUniform.std_dev d) := by
  unfold DiscreteUniform.std_dev
  apply consistent_of_default
  intro v hv; unfold DiscreteUniform.variance at hv; rfun_norm; lit_norm
  simp only [Option.some.injEq] at hv; subst hv
  have : (0 : ℝ) ≤ ((d.f_max - d.f_min : Int) : ℝ) := by exact_mod_cast sub_nonneg.mpr h
  apply div_nonneg _ (by norm_num)
  nlinarith

theorem geometric_moments_consistent (d : Geometric ℝ) (hp1 : d.f_p ≤ 1) :
    MomentsConsistent (Geometric.variance d) (Geometric.std_dev d) := by
  unfold Geometric.std_dev
  apply consistent_of_default
  intro v hv; unfold Geometric.variance at hv; lit_norm
  simp only [Option.some.injEq] at hv; subst hv
  exact div_nonneg (by linarith) (mul_self_nonneg _)

theorem hypergeometric_moments_consistent (d : Hypergeometric) (hs0 : 0 ≤ d.f_successes)
    (hd0 : 0 ≤ d.f_draws) (hs : d.f_successes ≤ d.f_population)
    (hd : d.f_draws ≤ d.f_population) :
    MomentsConsistent (Hypergeometric.variance (α := ℝ) d) (Hypergeometric.std_dev d) := by
  unfold Hypergeometric.std_dev
  apply consistent_of_default
  intro v hv; unfold Hypergeometric.variance Hypergeometric.values_f64 at hv; rfun_norm; lit_norm
  split_ifs at hv with h1
  rw [not_le] at h1
  simp only [Option.some.injEq] at hv; subst hv
  have e1 : (0 : ℝ) ≤ (d.f_successes : ℝ) := by exact_mod_cast hs0
  have e2 : (0 : ℝ) ≤ (d.f_draws : ℝ) := by exact_mod_cast hd0
  have e3 : (d.f_successes : ℝ) ≤ (d.f_population : ℝ) := by exact_mod_cast hs
  have e4 : (d.f_draws : ℝ) ≤ (d.f_population : ℝ) := by exact_mod_cast hd
  have e5 : (1 : ℝ) < (d.f_population : ℝ) := by exact_mod_cast h1
  apply div_nonneg
  · exact mul_nonneg (mul_nonneg (mul_nonneg e2 e1) (by linarith)) (by linarith)
  · exact mul_nonneg (mul_self_nonneg _) (by linarith)

theorem negativeBinomial_moments_consistent (d : NegativeBinomial ℝ) (hr : 0 ≤ d.f_r)
    (hp1 : d.f_p ≤ 1) :
    MomentsConsistent (NegativeBinomial.variance d) (NegativeBinomial.std_dev d) := by
  unfold NegativeBinomial.std_dev
  apply consistent_of_default
  intro v hv; unfold NegativeBinomial.variance at hv; lit_norm
  simp only [Option.some.injEq] at hv; subst hv
  exact div_nonneg (mul_nonneg hr (by linarith)) (mul_self_nonneg _)

theorem poisson_moments_consistent (d : Poisson ℝ) (h : 0 < d.f_lambda) :
    MomentsConsistent (Poisson.variance d) (Poisson.std_dev d) := by
  unfold Poisson.std_dev
  apply consistent_of_default
  intro v hv; unfold Poisson.variance at hv
  simp only [Option.some.injEq] at hv; subst hv
  exact h.le

/-- Chi: `std_dev` is the default `variance.map sqrt`; `std_dev² = variance` holds whenever the
    variance `k − mean²` is `≥ 0`.  PARTIAL: `0 ≤ variance` itself needs a Γ-function inequality
    (Gautschi) about the abstract `SF.gamma`, not provable here. -/
theorem chi_moments_consistent_partial [SF ℝ] (d : Chi)
    (hnn : ∀ v, Chi.variance (α := ℝ) d = some v → 0 ≤ v) :
    MomentsConsistent (Chi.variance (α := ℝ) d) (Chi.std_dev d) := by
  unfold Chi.std_dev
  exact consistent_of_default hnn

/-- Weibull: same situation as Chi (variance = `λ²Γ(1+2/k) − mean²`). PARTIAL. -/
theorem weibull_moments_consistent_partial [SF ℝ] (d : Weibull ℝ)
    (hnn : ∀ v, Weibull.variance d = some v → 0 ≤ v) :
    MomentsConsistent (Weibull.variance d) (Weibull.std_dev d) := by
  unfold Weibull.std_dev
  exact consistent_of_default hnn

/-- Levy: mean, variance and std_dev all diverge and the code returns `+∞` for each
    (every carrier; over ℝ `RFun.inf` is a junk value so nothing more is claimed there). -/
theorem levy_moments_infinite {α : Type} [Add α] [Sub α] [Mul α] [Div α] [Neg α] [LT α] [LE α]
    [BEq α] [DecidableLT α] [DecidableLE α] [OfScientific α] [Inhabited α] [RFun α]
    (d : Levy α) :
    Levy.mean d = some RFun.inf ∧ Levy.variance d = some RFun.inf ∧
    Levy.std_dev d = some RFun.inf ∧ Levy.skewness d = none := ⟨rfl, rfl, rfl, rfl⟩

example : ∃ d : Binomial ℝ, 0 ≤ d.f_p ∧ d.f_p ≤ 1 ∧ 0 ≤ d.f_n := ⟨⟨1 / 2, 3⟩, by norm_num⟩
example : ∃ d : Hypergeometric, 0 ≤ d.f_successes ∧ 0 ≤ d.f_draws ∧
    d.f_successes ≤ d.f_population ∧ d.f_draws ≤ d.f_population := ⟨⟨5, 2, 3⟩, by decide⟩
example : ∃ d : NegativeBinomial ℝ, 0 ≤ d.f_r ∧ d.f_p ≤ 1 := ⟨⟨1, 1 / 2⟩, by norm_num⟩

end Statrs.Props.C07
