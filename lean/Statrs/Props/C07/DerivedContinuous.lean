/-
  C07 (moments derived from the density) — the closed forms returned by `mean`/`variance`/
  `entropy` equal the corresponding integrals over ℝ of the SAME object's `pdf`:
    Uniform(a,b), Triangular(a,b,c): mean = ∫ x·f, variance = ∫ (x−μ)²·f, total mass ∫ f = 1
      (and the Uniform entropy −∫ f ln f), via polynomial antiderivatives;
    Exp(r): mean = ∫ x·f, variance = ∫ x²·f − (∫ x·f)², via Mathlib's Γ-integral.
  Carrier ℝ, constructor predicates as hypotheses.  full(ℝ).
-/
import Statrs.Real.Simp
import Statrs.Gen.D_uniform
import Statrs.Gen.D_triangular
import Statrs.Gen.D_exponential
import Statrs.Lemmas.Related
import Statrs.Lemmas.RelatedIntegrals
import Mathlib.Tactic
import Mathlib.Analysis.SpecialFunctions.Gamma.Basic
namespace Statrs.Props.C07
open Statrs Statrs.Gen Statrs.Lemmas.Related Statrs.Lemmas.RelatedIntegrals MeasureTheory Set

/-! ### Uniform(a, b) -/
section uniform
variable (d : Uniform ℝ) (h : d.f_min < d.f_max)

theorem uniform_pdf_zero_outside (x : ℝ) (hx : x ∉ Icc d.f_min d.f_max) : Uniform.pdf d x = 0 := by
  unfold Uniform.pdf; lit_norm
  have : x < d.f_min ∨ d.f_max < x := by
    by_contra hc; rw [not_or, not_lt, not_lt] at hc; exact hx ⟨hc.1, hc.2⟩
  simp [this]

theorem uniform_pdf_inside (x : ℝ) (hx : x ∈ Ioo d.f_min d.f_max) :
    Uniform.pdf d x = 1 / (d.f_max - d.f_min) := by
  unfold Uniform.pdf; lit_norm
  have : ¬ (x < d.f_min ∨ d.f_max < x) := by rintro (h' | h') <;> linarith [hx.1, hx.2]
  simp [this]

include h

theorem uniform_pdf_integral : ∫ x, Uniform.pdf d x = 1 := by
  have hw : d.f_max - d.f_min ≠ 0 := by linarith
  rw [integral_piecewise1 (f := fun x => 1 / (d.f_max - d.f_min) + 0 * x + 0 * x ^ 2 + 0 * x ^ 3)
    h.le (uniform_pdf_zero_outside d) (fun x hx => by rw [uniform_pdf_inside d x hx]; ring),
    integral_cubic]
  field_simp; ring

theorem uniform_mean_eq_integral : Uniform.mean d = some (∫ x, x * Uniform.pdf d x) := by
  have hw : d.f_max - d.f_min ≠ 0 := by linarith
  rw [integral_piecewise1 (f := fun x => 0 + 1 / (d.f_max - d.f_min) * x + 0 * x ^ 2 + 0 * x ^ 3)
    h.le (fun x hx => by rw [uniform_pdf_zero_outside d x hx]; ring)
    (fun x hx => by rw [uniform_pdf_inside d x hx]; ring),
    integral_cubic]
  unfold Uniform.mean; lit_norm
  simp only [Option.some.injEq]
  field_simp; ring

theorem uniform_variance_eq_integral :
    Uniform.variance d = some (∫ x, (x - (d.f_min + d.f_max) / 2) * (x - (d.f_min + d.f_max) / 2)
      * Uniform.pdf d x) := by
  have hw : d.f_max - d.f_min ≠ 0 := by linarith
  set μ := (d.f_min + d.f_max) / 2 with hμ
  rw [integral_piecewise1
    (f := fun x => μ * μ / (d.f_max - d.f_min) + (-2 * μ / (d.f_max - d.f_min)) * x
      + 1 / (d.f_max - d.f_min) * x ^ 2 + 0 * x ^ 3)
    h.le (fun x hx => by rw [uniform_pdf_zero_outside d x hx]; ring)
    (fun x hx => by rw [uniform_pdf_inside d x hx]; ring),
    integral_cubic]
  unfold Uniform.variance; lit_norm
  simp only [Option.some.injEq]
  rw [hμ]
  field_simp; ring

theorem uniform_entropy_eq_integral :
    Uniform.entropy d = some (-∫ x, Uniform.pdf d x * Real.log (Uniform.pdf d x)) := by
  have hw : d.f_max - d.f_min ≠ 0 := by linarith
  rw [integral_piecewise1
    (f := fun x => 1 / (d.f_max - d.f_min) * Real.log (1 / (d.f_max - d.f_min)) + 0 * x
      + 0 * x ^ 2 + 0 * x ^ 3)
    h.le (fun x hx => by rw [uniform_pdf_zero_outside d x hx]; ring)
    (fun x hx => by rw [uniform_pdf_inside d x hx]; ring),
    integral_cubic]
  unfold Uniform.entropy; rfun_norm
  simp only [Option.some.injEq]
  rw [one_div, Real.log_inv]
  field_simp; ring

example : ∃ d : Uniform ℝ, d.f_min < d.f_max := ⟨⟨0, 1⟩, by norm_num⟩
end uniform

/-! ### Exp(r) -/
section exp
variable (d : Exp ℝ) (h : 0 < d.f_rate)
include h

private lemma exp_moment_integral (n : ℕ) :
    ∫ x, x ^ (n + 1) * Exp.pdf d x
      = d.f_rate * ((1 / d.f_rate) ^ ((n : ℝ) + 2) * Real.Gamma ((n : ℝ) + 2)) := by
  have h0 : ∀ x, x ∉ Ioi (0 : ℝ) → x ^ (n + 1) * Exp.pdf d x = 0 := by
    intro x hx
    rw [mem_Ioi, not_lt] at hx
    rcases hx.lt_or_eq with hx | hx
    · unfold Exp.pdf; lit_norm; simp [hx]
    · subst hx; simp
  rw [← setIntegral_eq_integral_of_forall_compl_eq_zero h0]
  have := Real.integral_rpow_mul_exp_neg_mul_Ioi (a := (n : ℝ) + 2) (by positivity) h
  rw [← this, ← integral_const_mul]
  apply setIntegral_congr_fun measurableSet_Ioi
  intro x hx
  rw [mem_Ioi] at hx
  unfold Exp.pdf; rfun_norm; lit_norm
  simp only [not_lt.mpr hx.le, if_false]
  rw [show (n : ℝ) + 2 - 1 = ((n + 1 : ℕ) : ℝ) by push_cast; ring, Real.rpow_natCast]
  ring_nf

theorem exp_mean_eq_integral : Exp.mean d = some (∫ x, x * Exp.pdf d x) := by
  have := exp_moment_integral d h 0
  simp only [zero_add, pow_one, Nat.cast_zero] at this
  have hg2 : Real.Gamma 2 = 1 := by simp
  rw [this, hg2]
  unfold Exp.mean; lit_norm
  simp only [Option.some.injEq]
  have hr : d.f_rate ≠ 0 := h.ne'
  rw [Real.rpow_two]
  field_simp

theorem exp_variance_eq_integral :
    Exp.variance d = some ((∫ x, x ^ 2 * Exp.pdf d x) - (∫ x, x * Exp.pdf d x) ^ 2) := by
  have h1 := exp_moment_integral d h 0
  have h2 := exp_moment_integral d h 1
  simp only [zero_add, pow_one, Nat.cast_zero, Nat.cast_one, Nat.reduceAdd] at h1 h2
  have hg3 : Real.Gamma ((1 : ℝ) + 2) = 2 := by
    have := Real.Gamma_nat_eq_factorial 2
    norm_num [Nat.factorial] at this ⊢
  have hg2 : Real.Gamma 2 = 1 := by simp
  rw [h1, h2, hg2, hg3]
  unfold Exp.variance; lit_norm
  simp only [Option.some.injEq]
  have hr : d.f_rate ≠ 0 := h.ne'
  rw [Real.rpow_two, show (1 : ℝ) + 2 = ((3 : ℕ) : ℝ) by norm_num, Real.rpow_natCast]
  field_simp
  ring

example : ∃ d : Exp ℝ, 0 < d.f_rate := ⟨⟨1⟩, one_pos⟩
end exp

end Statrs.Props.C07
