/-
  C07 (moments derived from the mass function, finite support) — the closed forms returned by
  `mean`/`variance`/`entropy` equal the corresponding finite sums over the SAME object's `pmf`.
    DiscreteUniform(a, b):  full(ℝ)   (pmf is elementary)
    Bernoulli(p):           rel(RelatedSpec.ln_binomial_one)  (pmf goes through `SF.ln_binomial`)
    Dirac(v):               the model has no pmf for Dirac; the moments are those of the point mass
                            `Measure.dirac v`, whose cdf is `Dirac.cdf`.  full(ℝ)
-/
import Statrs.Real.Simp
import Statrs.Gen.D_discrete_uniform
import Statrs.Gen.D_bernoulli
import Statrs.Gen.D_dirac
import Statrs.Spec.SFSpec_related
import Statrs.Lemmas.Related
import Mathlib.Tactic
import Mathlib.MeasureTheory.Measure.Dirac
import Mathlib.MeasureTheory.Integral.Bochner.Basic
namespace Statrs.Props.C07
open Statrs Statrs.Gen Statrs.Spec Statrs.Lemmas.Related Finset

/-! ### DiscreteUniform -/
section discreteUniform
variable (d : DiscreteUniform) (h : d.f_min ≤ d.f_max)
include h

omit h in
private lemma du_pmf_on (k : ℤ) (hk : k ∈ Icc d.f_min d.f_max) :
    DiscreteUniform.pmf (α := ℝ) d k = 1 / ((d.f_max : ℝ) - d.f_min + 1) := by
  rw [Finset.mem_Icc] at hk
  unfold DiscreteUniform.pmf; rfun_norm; lit_norm
  simp [hk.1, hk.2]

private lemma du_n_pos : (0 : ℝ) < (d.f_max : ℝ) - d.f_min + 1 := by
  have : (d.f_min : ℝ) ≤ d.f_max := by exact_mod_cast h
  linarith

/-- total mass 1 -/
theorem discreteUniform_pmf_sum :
    ∑ k ∈ Icc d.f_min d.f_max, DiscreteUniform.pmf (α := ℝ) d k = 1 := by
  rw [Finset.sum_congr rfl (du_pmf_on d), sum_Icc_const _ _ h]
  have := du_n_pos d h
  field_simp

/-- mean = Σ k · pmf(k) -/
theorem discreteUniform_mean_eq_sum :
    DiscreteUniform.mean (α := ℝ) d
      = some (∑ k ∈ Icc d.f_min d.f_max, (k : ℝ) * DiscreteUniform.pmf d k) := by
  have hn := du_n_pos d h
  have : ∀ k ∈ Icc d.f_min d.f_max, (k : ℝ) * DiscreteUniform.pmf (α := ℝ) d k
      = (k : ℝ) * (1 / ((d.f_max : ℝ) - d.f_min + 1)) := by
    intro k hk; rw [du_pmf_on d k hk]
  rw [Finset.sum_congr rfl this, ← Finset.sum_mul, sum_Icc_id _ _ h]
  unfold DiscreteUniform.mean; rfun_norm; lit_norm
  simp only [Option.some.injEq]
  push_cast
  field_simp

/-- variance = Σ (k − μ)² · pmf(k) with μ the reported mean -/
theorem discreteUniform_variance_eq_sum :
    DiscreteUniform.variance (α := ℝ) d
      = some (∑ k ∈ Icc d.f_min d.f_max,
          ((k : ℝ) - ((d.f_min : ℝ) + d.f_max) / 2) * ((k : ℝ) - ((d.f_min : ℝ) + d.f_max) / 2)
            * DiscreteUniform.pmf d k) := by
  have hn := du_n_pos d h
  set μ : ℝ := ((d.f_min : ℝ) + d.f_max) / 2 with hμ
  have : ∀ k ∈ Icc d.f_min d.f_max, ((k : ℝ) - μ) * ((k : ℝ) - μ) * DiscreteUniform.pmf (α := ℝ) d k
      = ((k : ℝ) * (k : ℝ) - 2 * μ * (k : ℝ) + μ * μ) * (1 / ((d.f_max : ℝ) - d.f_min + 1)) := by
    intro k hk; rw [du_pmf_on d k hk]; ring
  rw [Finset.sum_congr rfl this, ← Finset.sum_mul, Finset.sum_add_distrib, Finset.sum_sub_distrib,
    ← Finset.mul_sum, sum_Icc_sq _ _ h, sum_Icc_id _ _ h, sum_Icc_const _ _ h]
  unfold DiscreteUniform.variance; rfun_norm; lit_norm
  simp only [Option.some.injEq]
  push_cast
  rw [hμ]
  field_simp
  ring

/-- entropy = −Σ pmf(k)·ln pmf(k) -/
theorem discreteUniform_entropy_eq_sum :
    DiscreteUniform.entropy (α := ℝ) d
      = some (-∑ k ∈ Icc d.f_min d.f_max,
          DiscreteUniform.pmf (α := ℝ) d k * Real.log (DiscreteUniform.pmf (α := ℝ) d k)) := by
  have hn := du_n_pos d h
  have : ∀ k ∈ Icc d.f_min d.f_max,
      DiscreteUniform.pmf (α := ℝ) d k * Real.log (DiscreteUniform.pmf (α := ℝ) d k)
      = (1 / ((d.f_max : ℝ) - d.f_min + 1)) * Real.log (1 / ((d.f_max : ℝ) - d.f_min + 1)) := by
    intro k hk; rw [du_pmf_on d k hk]
  rw [Finset.sum_congr rfl this, sum_Icc_const _ _ h]
  unfold DiscreteUniform.entropy; rfun_norm; lit_norm
  simp only [Option.some.injEq]
  push_cast
  rw [one_div, Real.log_inv]
  field_simp

example : ∃ d : DiscreteUniform, d.f_min ≤ d.f_max := ⟨⟨-2, 5⟩, by decide⟩
end discreteUniform

/-! ### Bernoulli (support {0, 1}) -/
section bernoulli
variable [SF ℝ] (S : RelatedSpec) (d : Bernoulli ℝ) (hn : d.f_b.f_n = 1)
  (hp0 : 0 < d.f_b.f_p) (hp1 : d.f_b.f_p < 1)
include S hn hp0 hp1

/-- for `0 < p < 1`: pmf(0) = 1 − p and pmf(1) = p, given `ln C(1,k) = 0` -/
theorem bernoulli_pmf_values_rel :
    Bernoulli.pmf d 0 = 1 - d.f_b.f_p ∧ Bernoulli.pmf d 1 = d.f_b.f_p := by
  unfold Bernoulli.pmf Binomial.pmf
  rw [hn]
  rfun_norm; lit_norm
  have h1 : ¬ d.f_b.f_p = 0 := hp0.ne'
  have h2 : ¬ d.f_b.f_p = 1 := hp1.ne
  have e0 := S.ln_binomial_one 0 (by norm_num) (by norm_num)
  have e1 := S.ln_binomial_one 1 (by norm_num) (by norm_num)
  constructor
  · simp only [h1, h2, if_false, decide_false, Bool.false_eq_true, e0]
    simp [usub, Real.exp_log (by linarith : (0 : ℝ) < 1 - d.f_b.f_p)]
  · simp only [h1, h2, if_false, decide_false, Bool.false_eq_true, e1]
    simp [usub, Real.exp_log hp0]

theorem bernoulli_mean_eq_sum_rel :
    Bernoulli.mean d = some (∑ k ∈ Icc (0 : ℤ) 1, (k : ℝ) * Bernoulli.pmf d k) := by
  obtain ⟨e0, e1⟩ := bernoulli_pmf_values_rel S d hn hp0 hp1
  have : Icc (0 : ℤ) 1 = {0, 1} := by decide
  rw [this, Finset.sum_pair (by norm_num), e0, e1]
  unfold Bernoulli.mean Binomial.mean; rw [hn]; rfun_norm
  simp

theorem bernoulli_variance_eq_sum_rel :
    Bernoulli.variance d = some (∑ k ∈ Icc (0 : ℤ) 1,
      ((k : ℝ) - d.f_b.f_p) * ((k : ℝ) - d.f_b.f_p) * Bernoulli.pmf d k) := by
  obtain ⟨e0, e1⟩ := bernoulli_pmf_values_rel S d hn hp0 hp1
  have : Icc (0 : ℤ) 1 = {0, 1} := by decide
  rw [this, Finset.sum_pair (by norm_num), e0, e1]
  unfold Bernoulli.variance Binomial.variance; rw [hn]; rfun_norm; lit_norm
  simp only [Option.some.injEq]
  push_cast; ring

omit S hp0 hp1 in
/-- total mass: needs no premise beyond the two values -/
theorem bernoulli_pmf_sum_rel (S : RelatedSpec) (hp0 : 0 < d.f_b.f_p) (hp1 : d.f_b.f_p < 1) :
    ∑ k ∈ Icc (0 : ℤ) 1, Bernoulli.pmf d k = 1 := by
  obtain ⟨e0, e1⟩ := bernoulli_pmf_values_rel S d hn hp0 hp1
  have : Icc (0 : ℤ) 1 = {0, 1} := by decide
  rw [this, Finset.sum_pair (by norm_num), e0, e1]; ring

end bernoulli

example : ∃ (_ : SF ℝ) (_ : RelatedSpec) (d : Bernoulli ℝ), d.f_b.f_n = 1 ∧ 0 < d.f_b.f_p ∧
    d.f_b.f_p < 1 := ⟨witnessSF, relatedSpec_witness, ⟨⟨1 / 2, 1⟩⟩, by norm_num⟩

/-! ### Dirac: the point mass at `v` -/
section dirac
open MeasureTheory
variable (d : Dirac ℝ)

/-- `Dirac.cdf` is the distribution function of the point mass at `v` -/
theorem dirac_cdf_eq_measure (x : ℝ) :
    Dirac.cdf d x = ((Measure.dirac d.f_0) (Set.Iic x)).toReal := by
  unfold Dirac.cdf; lit_norm
  rw [Measure.dirac_apply' _ measurableSet_Iic]
  by_cases hx : x < d.f_0
  · have : d.f_0 ∉ Set.Iic x := by simp [hx]
    simp [hx, this]
  · have : d.f_0 ∈ Set.Iic x := by simpa using not_lt.mp hx
    simp [hx, this]

theorem dirac_mean_eq_integral :
    Dirac.mean d = some (∫ x, x ∂(Measure.dirac d.f_0)) := by
  unfold Dirac.mean; rw [integral_dirac]

theorem dirac_variance_eq_integral :
    Dirac.variance d = some (∫ x, (x - d.f_0) * (x - d.f_0) ∂(Measure.dirac d.f_0)) := by
  unfold Dirac.variance; lit_norm; rw [integral_dirac]; simp

theorem dirac_std_dev_eq_zero : Dirac.std_dev d = some 0 := by
  unfold Dirac.std_dev Dirac.variance; rfun_norm; lit_norm; simp

end dirac

end Statrs.Props.C07
