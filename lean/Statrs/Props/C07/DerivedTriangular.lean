/-
  C07 (moments derived from the density) — Triangular(a, b, c), `a ≤ c ≤ b`, `a < b`
  (what `Triangular.new` enforces): total mass, mean and variance are the integrals over ℝ of
  the object's own piecewise-linear `pdf`.  full(ℝ).
-/
import Statrs.Real.Simp
import Statrs.Gen.D_triangular
import Statrs.Lemmas.Related
import Statrs.Lemmas.RelatedIntegrals
import Mathlib.Tactic
namespace Statrs.Props.C07
open Statrs Statrs.Gen Statrs.Lemmas.Related Statrs.Lemmas.RelatedIntegrals MeasureTheory Set

section triangular
variable (d : Triangular ℝ)

theorem triangular_pdf_zero_outside (x : ℝ) (hx : x ∉ Icc d.f_min d.f_max)
    (h1 : d.f_min ≤ d.f_mode) (h2 : d.f_mode ≤ d.f_max) : Triangular.pdf d x = 0 := by
  unfold Triangular.pdf; lit_norm
  have hE : ¬ (x = d.f_mode) := fun hc => hx ⟨hc ▸ h1, hc ▸ h2⟩
  have hA : ¬ (d.f_min ≤ x ∧ x < d.f_mode) := fun hc => hx ⟨hc.1, hc.2.le.trans h2⟩
  have hB : ¬ (d.f_mode < x ∧ x ≤ d.f_max) := fun hc => hx ⟨h1.trans hc.1.le, hc.2⟩
  simp [hE, hA, hB]

theorem triangular_pdf_left (x : ℝ) (hx : x ∈ Ioo d.f_min d.f_mode) :
    Triangular.pdf d x = 2 * (x - d.f_min) / ((d.f_max - d.f_min) * (d.f_mode - d.f_min)) := by
  unfold Triangular.pdf; lit_norm
  simp [hx.1.le, hx.2, hx.2.ne]

theorem triangular_pdf_right (x : ℝ) (hx : x ∈ Ioo d.f_mode d.f_max) :
    Triangular.pdf d x = 2 * (d.f_max - x) / ((d.f_max - d.f_min) * (d.f_max - d.f_mode)) := by
  unfold Triangular.pdf; lit_norm
  have hA : ¬ (d.f_min ≤ x ∧ x < d.f_mode) := fun hc => absurd hc.2 (not_lt.mpr hx.1.le)
  simp [hA, hx.1, hx.1.ne', hx.2.le]

/-- at the mode itself (a single point, so irrelevant to the integrals below) the density is
    `2/(max-min)` — also when `mode = min` or `mode = max` -/
theorem triangular_pdf_at_mode : Triangular.pdf d d.f_mode = 2 / (d.f_max - d.f_min) := by
  unfold Triangular.pdf; lit_norm
  simp

variable (h : d.f_min < d.f_max) (h1 : d.f_min ≤ d.f_mode) (h2 : d.f_mode ≤ d.f_max)
include h h1 h2

omit h in
/-- generic moment: for a polynomial weight `p0 + p1 x + p2 x²`, the integral of `weight · pdf` -/
private lemma tri_weighted (p0 p1 p2 : ℝ) :
    ∫ x, (p0 + p1 * x + p2 * x ^ 2) * Triangular.pdf d x =
      (let a := d.f_min; let b := d.f_max; let c := d.f_mode
       let K1 := (b - a) * (c - a); let K2 := (b - a) * (b - c)
       (∫ x in a..c, (-(2 * a * p0 / K1) + (2 * p0 / K1 - 2 * a * p1 / K1) * x
          + (2 * p1 / K1 - 2 * a * p2 / K1) * x ^ 2 + (2 * p2 / K1) * x ^ 3)) +
       (∫ x in c..b, ((2 * b * p0 / K2) + (2 * b * p1 / K2 - 2 * p0 / K2) * x
          + (2 * b * p2 / K2 - 2 * p1 / K2) * x ^ 2 + (-(2 * p2 / K2)) * x ^ 3))) := by
  apply integral_piecewise2 h1 h2
  · intro x hx; rw [triangular_pdf_zero_outside d x hx h1 h2]; ring
  · intro x hx; rw [triangular_pdf_left d x hx]; ring
  · intro x hx; rw [triangular_pdf_right d x hx]; ring
  · fun_prop
  · fun_prop

/-- the closed form of `tri_weighted` -/
private lemma tri_weighted_value (p0 p1 p2 : ℝ) :
    ∫ x, (p0 + p1 * x + p2 * x ^ 2) * Triangular.pdf d x =
      p0 + p1 * ((d.f_min + d.f_max + d.f_mode) / 3)
        + p2 * ((d.f_min ^ 2 + d.f_max ^ 2 + d.f_mode ^ 2 + d.f_min * d.f_max
            + d.f_min * d.f_mode + d.f_max * d.f_mode) / 6) := by
  rw [tri_weighted d h1 h2]
  simp only [integral_cubic]
  obtain ⟨a, b, c⟩ := d
  simp only at h h1 h2 ⊢
  have hw : b - a ≠ 0 := by linarith
  rcases h1.eq_or_lt with hac | hac
  · subst hac
    simp only [sub_self, mul_zero, div_zero]
    field_simp
    ring
  · rcases h2.eq_or_lt with hcb | hcb
    · subst hcb
      have hca : c - a ≠ 0 := by linarith
      simp only [sub_self, mul_zero, div_zero]
      field_simp
      ring
    · have hca : c - a ≠ 0 := by linarith
      have hbc : b - c ≠ 0 := by linarith
      field_simp
      ring

theorem triangular_pdf_integral : ∫ x, Triangular.pdf d x = 1 := by
  have := tri_weighted_value d h h1 h2 1 0 0
  simpa using this

theorem triangular_mean_eq_integral :
    Triangular.mean d = some (∫ x, x * Triangular.pdf d x) := by
  have := tri_weighted_value d h h1 h2 0 1 0
  simp only [zero_add, one_mul, zero_mul, add_zero] at this
  rw [this]
  unfold Triangular.mean; lit_norm

theorem triangular_variance_eq_integral :
    Triangular.variance d = some (∫ x, (x - (d.f_min + d.f_max + d.f_mode) / 3)
      * (x - (d.f_min + d.f_max + d.f_mode) / 3) * Triangular.pdf d x) := by
  set μ := (d.f_min + d.f_max + d.f_mode) / 3 with hμ
  have := tri_weighted_value d h h1 h2 (μ * μ) (-2 * μ) 1
  have e : ∀ x, (x - μ) * (x - μ) * Triangular.pdf d x
      = (μ * μ + -2 * μ * x + 1 * x ^ 2) * Triangular.pdf d x := fun x => by ring
  simp only [e, this]
  unfold Triangular.variance; lit_norm
  simp only [Option.some.injEq]
  rw [hμ]; ring

example : ∃ d : Triangular ℝ, d.f_min < d.f_max ∧ d.f_min ≤ d.f_mode ∧ d.f_mode ≤ d.f_max :=
  ⟨⟨0, 1, 0⟩, by norm_num⟩

end triangular
end Statrs.Props.C07
