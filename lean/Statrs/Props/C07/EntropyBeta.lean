/-
  C07 (moments derived from the density) — Beta(a, b): the logarithmic moments and the differential
  entropy as integrals over ℝ of the SAME object's generated `pdf`:
    E[ln X] = ∫ ln x · f = ψ(a) − ψ(a+b),     E[ln(1−X)] = ∫ ln(1−x) · f = ψ(b) − ψ(a+b),
    entropy = ln B(a,b) − (a−1)ψ(a) − (b−1)ψ(b) + (a+b−2)ψ(a+b) = −∫ f ln f.
  Method: `∂/∂a B(a,b) = ∫₀¹ ln t · t^(a−1)(1−t)^(b−1) dt` (differentiation of the Mellin transform of
  `(1−t)^(b−1)·1_(0,1)`, `Lemmas/DigammaIntegral.lean`) and `B(a,b) = Γ(a)Γ(b)/Γ(a+b)`; reflection
  `t ↦ 1 − t` for the second moment.  On `(0,1)`: `ln f = (a−1) ln x + (b−1) ln(1−x) − ln B(a,b)`
  (`C03.beta_pdf_formula_rel`, all three branches of `Beta::pdf`).
  Relative to `Spec.GammaDensitySpec` (pdf), `Spec.DigammaSpec` (`SF.digamma = ψ = Γ'/Γ`) and
  `Spec.LnBetaSpec` (`SF.ln_beta = ln(Γ(a)Γ(b)/Γ(a+b))`).  Hypotheses: the constructor's `0 < a`,
  `0 < b`.  Non-vacuous by `Spec.sfWitnessDigamma`.
-/
import Statrs.Real.Simp
import Statrs.Spec.SFSpec_Density
import Statrs.Spec.SFSpec_digamma
import Statrs.Lemmas.DigammaIntegral
import Statrs.Props.C03.SFDerivB
import Statrs.Props.C07.MomentIntegralsB2
import Statrs.Lemmas.Related
import Statrs.Gen.D_beta
import Mathlib.Tactic
namespace Statrs.Props.C07
open Statrs Statrs.Gen Statrs.Spec Statrs.Lemmas.Related Statrs.Lemmas.MomentIntegralsGamma
open Statrs.Lemmas.Transfer Statrs.Lemmas.DigammaIntegral
open MeasureTheory Set

variable [SF ℝ]

section beta
variable (S : GammaDensitySpec) (d : Beta ℝ) (h1 : 0 < d.f_shape_a) (h2 : 0 < d.f_shape_b)

include S h1 h2 in
/-- rel(GammaDensitySpec): `g x · pdf x` on `(0,1)`, kernel form -/
theorem beta_mul_pdf_eq (g : ℝ) (x : ℝ) (hx : x ∈ Ioo (0:ℝ) 1) :
    g * Beta.pdf d x
      = (Real.Gamma (d.f_shape_a + d.f_shape_b) / (Real.Gamma d.f_shape_a * Real.Gamma d.f_shape_b))
        * (x ^ (d.f_shape_a - 1) * (g * (1 - x) ^ (d.f_shape_b - 1))) := by
  rw [C03.beta_pdf_formula_rel S d h1 h2 x hx.1 hx.2]; ring

include S h1 h2 in
/-- rel(GammaDensitySpec): the generated density is integrable over ℝ -/
theorem beta_pdf_integrable_rel : Integrable (fun x => Beta.pdf d x) := by
  apply Integrable.of_integral_ne_zero
  rw [beta_pdf_integral_rel S d h1 h2]; exact one_ne_zero

include S h1 h2 in
/-- rel(GammaDensitySpec): `ln x · pdf x` is integrable over ℝ -/
theorem beta_log_moment_integrable_rel : Integrable (fun x => Real.log x * Beta.pdf d x) := by
  refine integrable_of_integrableOn_Ioo
    (fun x hx => by rw [C03.beta_pdf_eq_zero d x hx, mul_zero]) ?_
  have hk := (integrableOn_log_betaKernel h1 h2).const_mul
    (Real.Gamma (d.f_shape_a + d.f_shape_b) / (Real.Gamma d.f_shape_a * Real.Gamma d.f_shape_b))
  exact IntegrableOn.congr_fun hk (fun x hx => (beta_mul_pdf_eq S d h1 h2 _ x hx).symm)
    measurableSet_Ioo

include S h1 h2 in
/-- rel(GammaDensitySpec): `ln(1−x) · pdf x` is integrable over ℝ -/
theorem beta_log_one_sub_moment_integrable_rel :
    Integrable (fun x => Real.log (1 - x) * Beta.pdf d x) := by
  refine integrable_of_integrableOn_Ioo
    (fun x hx => by rw [C03.beta_pdf_eq_zero d x hx, mul_zero]) ?_
  have hk := (integrableOn_log_one_sub_betaKernel h1 h2).const_mul
    (Real.Gamma (d.f_shape_a + d.f_shape_b) / (Real.Gamma d.f_shape_a * Real.Gamma d.f_shape_b))
  exact IntegrableOn.congr_fun hk (fun x hx => (beta_mul_pdf_eq S d h1 h2 _ x hx).symm)
    measurableSet_Ioo

include S h1 h2 in
/-- rel(GammaDensitySpec): `E[ln X] = ∫ ln x · pdf x dx = ψ(a) − ψ(a+b)` -/
theorem beta_log_moment_integral_rel :
    ∫ x, Real.log x * Beta.pdf d x = psi d.f_shape_a - psi (d.f_shape_a + d.f_shape_b) := by
  have hGa : 0 < Real.Gamma d.f_shape_a := Real.Gamma_pos_of_pos h1
  have hGb : 0 < Real.Gamma d.f_shape_b := Real.Gamma_pos_of_pos h2
  have hGab : 0 < Real.Gamma (d.f_shape_a + d.f_shape_b) := Real.Gamma_pos_of_pos (by linarith)
  rw [integral_eq_setIntegral_Ioo (f := fun x => Real.log x * Beta.pdf d x)
    (fun x hx => by rw [C03.beta_pdf_eq_zero d x hx, mul_zero]),
    setIntegral_congr_fun measurableSet_Ioo (fun x hx => beta_mul_pdf_eq S d h1 h2 _ x hx),
    integral_const_mul, integral_log_betaKernel h1 h2]
  field_simp

include S h1 h2 in
/-- rel(GammaDensitySpec): `E[ln(1−X)] = ∫ ln(1−x) · pdf x dx = ψ(b) − ψ(a+b)` -/
theorem beta_log_one_sub_moment_integral_rel :
    ∫ x, Real.log (1 - x) * Beta.pdf d x
      = psi d.f_shape_b - psi (d.f_shape_a + d.f_shape_b) := by
  have hGa : 0 < Real.Gamma d.f_shape_a := Real.Gamma_pos_of_pos h1
  have hGb : 0 < Real.Gamma d.f_shape_b := Real.Gamma_pos_of_pos h2
  have hGab : 0 < Real.Gamma (d.f_shape_a + d.f_shape_b) := Real.Gamma_pos_of_pos (by linarith)
  rw [integral_eq_setIntegral_Ioo (f := fun x => Real.log (1 - x) * Beta.pdf d x)
    (fun x hx => by rw [C03.beta_pdf_eq_zero d x hx, mul_zero]),
    setIntegral_congr_fun measurableSet_Ioo (fun x hx => beta_mul_pdf_eq S d h1 h2 _ x hx),
    integral_const_mul, integral_log_one_sub_betaKernel h1 h2]
  field_simp

include S h1 h2 in
/-- rel(GammaDensitySpec): the log-density on `(0,1)` -/
theorem beta_log_pdf_rel (x : ℝ) (hx0 : 0 < x) (hx1 : x < 1) :
    Real.log (Beta.pdf d x)
      = (d.f_shape_a - 1) * Real.log x + (d.f_shape_b - 1) * Real.log (1 - x)
        - Real.log (Real.Gamma d.f_shape_a * Real.Gamma d.f_shape_b
            / Real.Gamma (d.f_shape_a + d.f_shape_b)) := by
  have hGa : 0 < Real.Gamma d.f_shape_a := Real.Gamma_pos_of_pos h1
  have hGb : 0 < Real.Gamma d.f_shape_b := Real.Gamma_pos_of_pos h2
  have hGab : 0 < Real.Gamma (d.f_shape_a + d.f_shape_b) := Real.Gamma_pos_of_pos (by linarith)
  have h1x : 0 < 1 - x := by linarith
  have hxa : 0 < x ^ (d.f_shape_a - 1) := Real.rpow_pos_of_pos hx0 _
  have hxb : 0 < (1 - x) ^ (d.f_shape_b - 1) := Real.rpow_pos_of_pos h1x _
  rw [C03.beta_pdf_formula_rel S d h1 h2 x hx0 hx1, Real.log_mul (by positivity) (by positivity),
    Real.log_mul hxa.ne' hxb.ne', Real.log_rpow hx0, Real.log_rpow h1x,
    Real.log_div hGab.ne' (by positivity), Real.log_div (by positivity) hGab.ne']
  ring

include S h1 h2 in
/-- rel(GammaDensitySpec, DigammaSpec, LnBetaSpec): the returned entropy
    `ln B(a,b) − (a−1)ψ(a) − (b−1)ψ(b) + (a+b−2)ψ(a+b)` is the differential entropy `−∫ f ln f`
    of the generated density -/
theorem beta_entropy_eq_integral_rel (D : DigammaSpec) (L : LnBetaSpec) :
    Beta.entropy d = some (-∫ x, Beta.pdf d x * Real.log (Beta.pdf d x)) := by
  set c0 := Real.log (Real.Gamma d.f_shape_a * Real.Gamma d.f_shape_b
            / Real.Gamma (d.f_shape_a + d.f_shape_b)) with hc0
  have i0 := beta_pdf_integrable_rel S d h1 h2
  have iL := beta_log_moment_integrable_rel S d h1 h2
  have iM := beta_log_one_sub_moment_integrable_rel S d h1 h2
  have hae : (fun x => Beta.pdf d x * Real.log (Beta.pdf d x)) =ᵐ[volume] fun x =>
      (-c0) * Beta.pdf d x + ((d.f_shape_a - 1) * (Real.log x * Beta.pdf d x)
        + (d.f_shape_b - 1) * (Real.log (1 - x) * Beta.pdf d x)) := by
    filter_upwards [Measure.ae_ne volume (0:ℝ), Measure.ae_ne volume (1:ℝ)] with x hx0 hx1
    by_cases hx : x < 0 ∨ 1 < x
    · rw [C03.beta_pdf_eq_zero d x hx]; ring
    · rw [not_or, not_lt, not_lt] at hx
      rw [beta_log_pdf_rel S d h1 h2 x (lt_of_le_of_ne hx.1 (Ne.symm hx0))
        (lt_of_le_of_ne hx.2 hx1)]
      ring
  have j : Integrable (fun x => (d.f_shape_a - 1) * (Real.log x * Beta.pdf d x)
      + (d.f_shape_b - 1) * (Real.log (1 - x) * Beta.pdf d x)) :=
    (iL.const_mul _).add (iM.const_mul _)
  rw [integral_congr_ae hae, integral_add (i0.const_mul _) j,
    integral_add (iL.const_mul _) (iM.const_mul _), integral_const_mul, integral_const_mul,
    integral_const_mul, beta_pdf_integral_rel S d h1 h2, beta_log_moment_integral_rel S d h1 h2,
    beta_log_one_sub_moment_integral_rel S d h1 h2]
  unfold Beta.entropy; lit_norm
  rw [L.ln_beta_eq _ _ h1 h2, D.digamma_eq _ h1, D.digamma_eq _ h2,
    D.digamma_eq _ (add_pos h1 h2)]
  simp only [Option.some.injEq]
  ring

/-- non-vacuity: hypotheses and premise structures are satisfiable -/
example : ∃ d : Beta ℝ, 0 < d.f_shape_a ∧ 0 < d.f_shape_b := ⟨⟨3, 2⟩, by norm_num, by norm_num⟩
example : @Beta.entropy ℝ _ _ _ _ _ _ _ _ _ _ _ _ _ sfWitnessDigamma ⟨3, 2⟩
    = some (-∫ x, @Beta.pdf ℝ _ _ _ _ _ _ _ _ _ _ _ _ _ sfWitnessDigamma ⟨3, 2⟩ x
        * Real.log (@Beta.pdf ℝ _ _ _ _ _ _ _ _ _ _ _ _ _ sfWitnessDigamma ⟨3, 2⟩ x)) :=
  @beta_entropy_eq_integral_rel sfWitnessDigamma gammaDensitySpec_witnessDigamma ⟨3, 2⟩
    (by norm_num) (by norm_num) digammaSpec_witness lnBetaSpec_witness

end beta
end Statrs.Props.C07
