/-
  C07 (moments derived from the density) — Chi(k): the logarithmic moment and the differential
  entropy as integrals over ℝ of the SAME object's generated `pdf`:
    E[ln X] = ∫ ln x · f = (ψ(k/2) + ln 2)/2,
    entropy = ln Γ(k/2) + (k − ln 2 − (k−1) ψ(k/2))/2 = −∫ f ln f      (every `freedom = k ≥ 1`).
  Method: `∫₀^∞ ln t · t^(k−1) e^{−t²/2} dt = 2^(k/2−2) Γ(k/2) (ψ(k/2) + ln 2)` (differentiation of the
  Mellin transform of `e^{−t²/2}`, `Lemmas/DigammaIntegral.lean`); on the support
  `ln f = (1−k/2) ln 2 + (k−1) ln x − x²/2 − ln Γ(k/2)` (`C03.chi_pdf_formula_rel`, both branches of
  `Chi::pdf`), `∫ f = 1`, `∫ x² f = k` from `MomentIntegralsB2.lean`.
  Unlike `Chi::mean`, the entropy has no large-`freedom` approximation branch, so the statement is for
  ALL `freedom ≥ 1`.  Relative to `Spec.GammaDensitySpec` and `Spec.DigammaSpec`
  (`SF.digamma = ψ = Γ'/Γ`).  Non-vacuous by `Spec.sfWitnessDigamma`.
-/
import Statrs.Real.Simp
import Statrs.Spec.SFSpec_Density
import Statrs.Spec.SFSpec_digamma
import Statrs.Lemmas.DigammaIntegral
import Statrs.Props.C03.SFDerivA
import Statrs.Props.C07.MomentIntegralsB2
import Statrs.Lemmas.Related
import Statrs.Gen.D_chi
import Mathlib.Tactic
namespace Statrs.Props.C07
open Statrs Statrs.Gen Statrs.Spec Statrs.Lemmas.Related Statrs.Lemmas.MomentIntegralsGamma
open Statrs.Lemmas.Transfer Statrs.Lemmas.DigammaIntegral Statrs.Lemmas.Density
open MeasureTheory Set

variable [SF ℝ]

section chi
variable (S : GammaDensitySpec) (d : Chi) (h0 : 0 ≤ d.f_freedom) (hne : d.f_freedom ≠ 0)

include S h0 hne in
/-- rel(GammaDensitySpec): `ln x · pdf x` on the support, kernel form -/
theorem chi_log_mul_pdf_eq (x : ℝ) (hx : 0 < x) :
    Real.log x * Chi.pdf (α := ℝ) d x
      = ((2:ℝ) ^ (1 - (d.f_freedom : ℝ) / 2) / Real.Gamma ((d.f_freedom : ℝ) / 2)) *
        (x ^ ((d.f_freedom : ℝ) - 1) * (Real.log x * Real.exp (-(x * x / 2)))) := by
  rw [C03.chi_pdf_formula_rel S d h0 hne x hx]; ring

include S h0 hne in
/-- rel(GammaDensitySpec): `ln x · pdf x` is integrable over ℝ -/
theorem chi_log_moment_integrable_rel :
    Integrable (fun x => Real.log x * Chi.pdf (α := ℝ) d x) := by
  have hk : (0:ℝ) < (d.f_freedom : ℝ) := by exact_mod_cast lt_of_le_of_ne h0 (Ne.symm hne)
  refine integrable_of_integrableOn_Ioi
    (fun x hx => by rw [C03.chi_pdf_eq_zero d x hx.le, mul_zero]) ?_
  have hI := (integrableOn_log_chiKernel hk).const_mul
    ((2:ℝ) ^ (1 - (d.f_freedom : ℝ) / 2) / Real.Gamma ((d.f_freedom : ℝ) / 2))
  exact IntegrableOn.congr_fun hI (fun x hx => (chi_log_mul_pdf_eq S d h0 hne x hx).symm)
    measurableSet_Ioi

include S h0 hne in
/-- rel(GammaDensitySpec): `E[ln X] = ∫ ln x · pdf x dx = (ψ(k/2) + ln 2)/2` -/
theorem chi_log_moment_integral_rel :
    ∫ x, Real.log x * Chi.pdf (α := ℝ) d x
      = (psi ((d.f_freedom : ℝ) / 2) + Real.log 2) / 2 := by
  have hk : (0:ℝ) < (d.f_freedom : ℝ) := by exact_mod_cast lt_of_le_of_ne h0 (Ne.symm hne)
  have hG : 0 < Real.Gamma ((d.f_freedom : ℝ) / 2) := Real.Gamma_pos_of_pos (by positivity)
  have h2 : (2:ℝ) ^ (1 - (d.f_freedom : ℝ) / 2) * (2:ℝ) ^ ((d.f_freedom : ℝ) / 2 - 2) = 1 / 2 := by
    rw [← Real.rpow_add two_pos,
      show 1 - (d.f_freedom : ℝ) / 2 + ((d.f_freedom : ℝ) / 2 - 2) = -1 by ring, Real.rpow_neg_one]
    norm_num
  rw [integral_eq_setIntegral_Ioi (f := fun x => Real.log x * Chi.pdf (α := ℝ) d x)
    (fun x hx => by rw [C03.chi_pdf_eq_zero d x hx.le, mul_zero]),
    setIntegral_congr_fun measurableSet_Ioi (fun x hx => chi_log_mul_pdf_eq S d h0 hne x hx),
    integral_const_mul, integral_log_chiKernel hk]
  generalize (2:ℝ) ^ (1 - (d.f_freedom : ℝ) / 2) = A at h2 ⊢
  generalize (2:ℝ) ^ ((d.f_freedom : ℝ) / 2 - 2) = B at h2 ⊢
  have : A / Real.Gamma ((d.f_freedom : ℝ) / 2) * (B * Real.Gamma ((d.f_freedom : ℝ) / 2)
      * (psi ((d.f_freedom : ℝ) / 2) + Real.log 2))
      = (A * B) * (psi ((d.f_freedom : ℝ) / 2) + Real.log 2) := by
    field_simp
  rw [this, h2]; ring

include S h0 hne in
/-- rel(GammaDensitySpec): the log-density on the support -/
theorem chi_log_pdf_rel (x : ℝ) (hx : 0 < x) :
    Real.log (Chi.pdf (α := ℝ) d x)
      = ((1 - (d.f_freedom : ℝ) / 2) * Real.log 2 - Real.log (Real.Gamma ((d.f_freedom : ℝ) / 2)))
        + ((d.f_freedom : ℝ) - 1) * Real.log x + (-(1 / 2)) * x ^ 2 := by
  have hk : (0:ℝ) < (d.f_freedom : ℝ) := by exact_mod_cast lt_of_le_of_ne h0 (Ne.symm hne)
  have hG : 0 < Real.Gamma ((d.f_freedom : ℝ) / 2) := Real.Gamma_pos_of_pos (by positivity)
  have h2s : 0 < (2:ℝ) ^ (1 - (d.f_freedom : ℝ) / 2) := Real.rpow_pos_of_pos two_pos _
  have hxs : 0 < x ^ ((d.f_freedom : ℝ) - 1) := Real.rpow_pos_of_pos hx _
  rw [C03.chi_pdf_formula_rel S d h0 hne x hx, Real.log_div (by positivity) hG.ne',
    Real.log_mul (by positivity) (Real.exp_pos _).ne', Real.log_mul h2s.ne' hxs.ne',
    Real.log_rpow two_pos, Real.log_rpow hx, Real.log_exp]
  ring

include S h0 hne in
/-- rel(GammaDensitySpec, DigammaSpec): the returned entropy
    `ln Γ(k/2) + (k − ln 2 − (k−1)·ψ(k/2))/2` is the differential entropy `−∫ f ln f` of the generated
    density, for every `freedom = k ≥ 1` -/
theorem chi_entropy_eq_integral_rel (D : DigammaSpec) :
    Chi.entropy (α := ℝ) d
      = some (-∫ x, Chi.pdf (α := ℝ) d x * Real.log (Chi.pdf (α := ℝ) d x)) := by
  have hk : (0:ℝ) < (d.f_freedom : ℝ) := by exact_mod_cast lt_of_le_of_ne h0 (Ne.symm hne)
  set c0 := (1 - (d.f_freedom : ℝ) / 2) * Real.log 2
    - Real.log (Real.Gamma ((d.f_freedom : ℝ) / 2)) with hc0
  have i0 : Integrable (fun x => Chi.pdf (α := ℝ) d x) := by
    apply Integrable.of_integral_ne_zero
    rw [chi_pdf_integral_rel S d h0 hne]; exact one_ne_zero
  have i2 : Integrable (fun x => x ^ 2 * Chi.pdf (α := ℝ) d x) := by
    apply Integrable.of_integral_ne_zero
    rw [chi_second_moment_integral_rel S d h0 hne]; exact hk.ne'
  have iL := chi_log_moment_integrable_rel S d h0 hne
  have hae : (fun x => Chi.pdf (α := ℝ) d x * Real.log (Chi.pdf (α := ℝ) d x)) =ᵐ[volume] fun x =>
      c0 * Chi.pdf (α := ℝ) d x + (((d.f_freedom : ℝ) - 1) * (Real.log x * Chi.pdf (α := ℝ) d x)
        + (-(1 / 2)) * (x ^ 2 * Chi.pdf (α := ℝ) d x)) := by
    refine Filter.Eventually.of_forall fun x => ?_
    rcases le_or_gt x 0 with hneg | hpos
    · simp only [C03.chi_pdf_eq_zero d x hneg]; ring
    · simp only [chi_log_pdf_rel S d h0 hne x hpos]; ring
  have j : Integrable (fun x => ((d.f_freedom : ℝ) - 1) * (Real.log x * Chi.pdf (α := ℝ) d x)
      + (-(1 / 2)) * (x ^ 2 * Chi.pdf (α := ℝ) d x)) := (iL.const_mul _).add (i2.const_mul _)
  rw [integral_congr_ae hae, integral_add (i0.const_mul _) j,
    integral_add (iL.const_mul _) (i2.const_mul _), integral_const_mul, integral_const_mul,
    integral_const_mul, chi_pdf_integral_rel S d h0 hne, chi_second_moment_integral_rel S d h0 hne,
    chi_log_moment_integral_rel S d h0 hne]
  unfold Chi.entropy Chi.freedom; model_norm
  rw [S.ln_gamma_eq _ (by positivity), D.digamma_eq _ (by positivity)]
  simp only [Option.some.injEq]
  ring

/-- non-vacuity: hypotheses and premise structures are satisfiable -/
example : ∃ d : Chi, 0 ≤ d.f_freedom ∧ d.f_freedom ≠ 0 := ⟨⟨3⟩, by decide, by decide⟩
example : @Chi.entropy ℝ _ _ _ _ _ _ _ _ _ _ _ _ _ sfWitnessDigamma ⟨500⟩
    = some (-∫ x, @Chi.pdf ℝ _ _ _ _ _ _ _ _ _ _ _ _ _ sfWitnessDigamma ⟨500⟩ x
        * Real.log (@Chi.pdf ℝ _ _ _ _ _ _ _ _ _ _ _ _ _ sfWitnessDigamma ⟨500⟩ x)) :=
  @chi_entropy_eq_integral_rel sfWitnessDigamma gammaDensitySpec_witnessDigamma ⟨500⟩
    (by decide) (by decide) digammaSpec_witness

end chi
end Statrs.Props.C07
