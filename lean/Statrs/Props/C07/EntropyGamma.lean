/-
  C07 (moments derived from the density) — differential entropy of the Gamma family (Gamma, Erlang,
  ChiSquared) as the integral `−∫ f ln f` over ℝ of the SAME object's generated `pdf`, and the
  logarithmic moment `E[ln X] = ∫ ln x · f(x) dx = ψ(shape) − ln rate` it rests on.
  Method: `Γ'(a) = ∫₀^∞ ln t · t^(a−1) e^{−t} dt` (differentiation of the Mellin transform,
  `Lemmas/DigammaIntegral.lean`), hence `∫₀^∞ ln t · t^(a−1) e^{−rt} dt = r^{−a} Γ(a) (ψ(a) − ln r)`;
  on the support `ln f = a ln r − ln Γ(a) + (a−1) ln x − r x` (`C03.gamma_pdf_formula_rel`, all three
  branches of `Gamma::pdf`), and `∫ f = 1`, `∫ x f = a/r` from `MomentIntegralsB.lean`.
  The pdf carries `SF.gamma`/`SF.ln_gamma`, the entropy formula `SF.ln_gamma` and `SF.digamma`:
  relative to `Spec.GammaDensitySpec` and `Spec.DigammaSpec` (`SF.digamma = ψ = Γ'/Γ`, the true
  digamma function `Lemmas.Transfer.psi`).  Hypotheses: the constructor's `0 < shape`, `0 < rate`
  (on the wrapped Gamma for Erlang/ChiSquared).  Non-vacuous by `Spec.sfWitnessDigamma`.
-/
import Statrs.Real.Simp
import Statrs.Spec.SFSpec_Density
import Statrs.Spec.SFSpec_digamma
import Statrs.Lemmas.DigammaIntegral
import Statrs.Props.C03.SFDerivA
import Statrs.Props.C07.MomentIntegralsB
import Statrs.Props.C07.MomentIntegralsA11
import Statrs.Gen.D_gamma
import Statrs.Gen.D_erlang
import Statrs.Gen.D_chi_squared
import Mathlib.Tactic
namespace Statrs.Props.C07
open Statrs Statrs.Gen Statrs.Spec Statrs.Lemmas.Related Statrs.Lemmas.MomentIntegralsGamma
open Statrs.Lemmas.Transfer Statrs.Lemmas.DigammaIntegral
open MeasureTheory Set

variable [SF ℝ]

section gamma
variable (S : GammaDensitySpec) (d : Gamma ℝ) (h1 : 0 < d.f_shape) (h2 : 0 < d.f_rate)

include S h1 h2 in
/-- rel(GammaDensitySpec): `ln x · pdf x` on the support, kernel form -/
theorem gamma_log_mul_pdf_eq (x : ℝ) (hx : 0 < x) :
    Real.log x * Gamma.pdf d x = (d.f_rate ^ d.f_shape / Real.Gamma d.f_shape) *
      (x ^ (d.f_shape - 1) * (Real.log x * Real.exp (-(d.f_rate * x)))) := by
  rw [C03.gamma_pdf_formula_rel S d h1 h2 x hx]; ring

include S h1 h2 in
/-- rel(GammaDensitySpec): `ln x · pdf x` is integrable over ℝ -/
theorem gamma_log_moment_integrable_rel : Integrable (fun x => Real.log x * Gamma.pdf d x) := by
  refine integrable_of_integrableOn_Ioi
    (fun x hx => by rw [gamma_pdf_eq_zero_of_neg d x hx, mul_zero]) ?_
  have hk : IntegrableOn (fun x : ℝ => (d.f_rate ^ d.f_shape / Real.Gamma d.f_shape) *
      (x ^ (d.f_shape - 1) * (Real.log x * Real.exp (-(d.f_rate * x))))) (Ioi 0) :=
    (hasDerivAt_gammaKernel_integral h1 h2).1.const_mul _
  exact hk.congr_fun (fun x hx => (gamma_log_mul_pdf_eq S d h1 h2 x hx).symm) measurableSet_Ioi

include S h1 h2 in
/-- rel(GammaDensitySpec): `E[ln X] = ∫ ln x · pdf x dx = ψ(shape) − ln rate` -/
theorem gamma_log_moment_integral_rel :
    ∫ x, Real.log x * Gamma.pdf d x = psi d.f_shape - Real.log d.f_rate := by
  have hG : 0 < Real.Gamma d.f_shape := Real.Gamma_pos_of_pos h1
  have hrs : 0 < d.f_rate ^ d.f_shape := Real.rpow_pos_of_pos h2 _
  rw [integral_eq_setIntegral_Ioi (f := fun x => Real.log x * Gamma.pdf d x)
    (fun x hx => by rw [gamma_pdf_eq_zero_of_neg d x hx, mul_zero]),
    setIntegral_congr_fun measurableSet_Ioi (fun x hx => gamma_log_mul_pdf_eq S d h1 h2 x hx),
    integral_const_mul, integral_log_gammaKernel h1 h2, one_div, Real.inv_rpow h2.le]
  field_simp

include S h1 h2 in
/-- rel(GammaDensitySpec): the log-density on the support -/
theorem gamma_log_pdf_rel (x : ℝ) (hx : 0 < x) :
    Real.log (Gamma.pdf d x) = (d.f_shape * Real.log d.f_rate - Real.log (Real.Gamma d.f_shape))
      + (d.f_shape - 1) * Real.log x - d.f_rate * x := by
  have hG : 0 < Real.Gamma d.f_shape := Real.Gamma_pos_of_pos h1
  have hrs : 0 < d.f_rate ^ d.f_shape := Real.rpow_pos_of_pos h2 _
  have hxs : 0 < x ^ (d.f_shape - 1) := Real.rpow_pos_of_pos hx _
  rw [C03.gamma_pdf_formula_rel S d h1 h2 x hx, Real.log_div (by positivity) hG.ne',
    Real.log_mul (by positivity) (Real.exp_pos _).ne', Real.log_mul hrs.ne' hxs.ne',
    Real.log_rpow h2, Real.log_rpow hx, Real.log_exp]
  ring

include S h1 h2 in
/-- rel(GammaDensitySpec, DigammaSpec): the returned entropy
    `shape − ln rate + ln Γ(shape) + (1 − shape)·ψ(shape)` is the differential entropy
    `−∫ f ln f` of the generated density -/
theorem gamma_entropy_eq_integral_rel (D : DigammaSpec) :
    Gamma.entropy d = some (-∫ x, Gamma.pdf d x * Real.log (Gamma.pdf d x)) := by
  set c0 := d.f_shape * Real.log d.f_rate - Real.log (Real.Gamma d.f_shape) with hc0
  have i0 : Integrable (fun x => Gamma.pdf d x) := by
    simpa using gamma_raw_moment_integrable_rel S d h1 h2 0
  have i1 : Integrable (fun x => x * Gamma.pdf d x) := by
    simpa using gamma_raw_moment_integrable_rel S d h1 h2 1
  have iL := gamma_log_moment_integrable_rel S d h1 h2
  have hae : (fun x => Gamma.pdf d x * Real.log (Gamma.pdf d x)) =ᵐ[volume] fun x =>
      c0 * Gamma.pdf d x + ((d.f_shape - 1) * (Real.log x * Gamma.pdf d x)
        + (-d.f_rate) * (x * Gamma.pdf d x)) := by
    filter_upwards [Measure.ae_ne volume (0:ℝ)] with x hx
    rcases lt_or_gt_of_ne hx with hneg | hpos
    · rw [gamma_pdf_eq_zero_of_neg d x hneg]; ring
    · rw [gamma_log_pdf_rel S d h1 h2 x hpos]; ring
  have j : Integrable (fun x => (d.f_shape - 1) * (Real.log x * Gamma.pdf d x)
      + (-d.f_rate) * (x * Gamma.pdf d x)) := (iL.const_mul _).add (i1.const_mul _)
  rw [integral_congr_ae hae, integral_add (i0.const_mul _) j,
    integral_add (iL.const_mul _) (i1.const_mul _), integral_const_mul, integral_const_mul,
    integral_const_mul, gamma_pdf_integral_rel S d h1 h2, gamma_mean_integral_rel S d h1 h2,
    gamma_log_moment_integral_rel S d h1 h2]
  unfold Gamma.entropy; rfun_norm; lit_norm
  rw [S.ln_gamma_eq _ h1, D.digamma_eq _ h1]
  simp only [Option.some.injEq]
  have hr : d.f_rate ≠ 0 := h2.ne'
  field_simp
  ring

/-- non-vacuity: hypotheses and premise structures are satisfiable -/
example : ∃ d : Gamma ℝ, 0 < d.f_shape ∧ 0 < d.f_rate := ⟨⟨3, 2⟩, by norm_num, by norm_num⟩
example : @Gamma.entropy ℝ _ _ _ _ _ _ _ _ _ _ _ _ _ sfWitnessDigamma ⟨3, 2⟩
    = some (-∫ x, @Gamma.pdf ℝ _ _ _ _ _ _ _ _ _ _ _ _ _ sfWitnessDigamma ⟨3, 2⟩ x
        * Real.log (@Gamma.pdf ℝ _ _ _ _ _ _ _ _ _ _ _ _ _ sfWitnessDigamma ⟨3, 2⟩ x)) :=
  @gamma_entropy_eq_integral_rel sfWitnessDigamma gammaDensitySpec_witnessDigamma ⟨3, 2⟩
    (by norm_num) (by norm_num) digammaSpec_witness

end gamma

/-! ### Erlang (wraps Gamma) -/

/-- rel(GammaDensitySpec): Erlang `E[ln X] = ψ(shape) − ln rate` -/
theorem erlang_log_moment_integral_rel (S : GammaDensitySpec) (d : Erlang ℝ)
    (h1 : 0 < d.f_g.f_shape) (h2 : 0 < d.f_g.f_rate) :
    ∫ x, Real.log x * Erlang.pdf d x = psi d.f_g.f_shape - Real.log d.f_g.f_rate :=
  gamma_log_moment_integral_rel S d.f_g h1 h2

/-- rel(GammaDensitySpec, DigammaSpec): Erlang: the returned entropy is `−∫ f ln f` of the
    generated density -/
theorem erlang_entropy_eq_integral_rel (S : GammaDensitySpec) (D : DigammaSpec) (d : Erlang ℝ)
    (h1 : 0 < d.f_g.f_shape) (h2 : 0 < d.f_g.f_rate) :
    Erlang.entropy d = some (-∫ x, Erlang.pdf d x * Real.log (Erlang.pdf d x)) :=
  gamma_entropy_eq_integral_rel S d.f_g h1 h2 D

/-- what `Erlang::new(3, 2.0)` stores satisfies the hypotheses -/
example : ∃ d : Erlang ℝ, 0 < d.f_g.f_shape ∧ 0 < d.f_g.f_rate :=
  ⟨⟨⟨3, 2⟩⟩, by norm_num, by norm_num⟩

/-! ### ChiSquared (wraps Gamma(freedom/2, 1/2)) -/

/-- rel(GammaDensitySpec): ChiSquared `E[ln X] = ψ(shape) − ln rate` of the wrapped Gamma -/
theorem chi_squared_log_moment_integral_rel (S : GammaDensitySpec) (d : ChiSquared ℝ)
    (h1 : 0 < d.f_g.f_shape) (h2 : 0 < d.f_g.f_rate) :
    ∫ x, Real.log x * ChiSquared.pdf d x = psi d.f_g.f_shape - Real.log d.f_g.f_rate :=
  gamma_log_moment_integral_rel S d.f_g h1 h2

/-- rel(GammaDensitySpec, DigammaSpec): ChiSquared: the returned entropy is `−∫ f ln f` of the
    generated density -/
theorem chi_squared_entropy_eq_integral_rel (S : GammaDensitySpec) (D : DigammaSpec)
    (d : ChiSquared ℝ) (h1 : 0 < d.f_g.f_shape) (h2 : 0 < d.f_g.f_rate) :
    ChiSquared.entropy d = some (-∫ x, ChiSquared.pdf d x * Real.log (ChiSquared.pdf d x)) :=
  gamma_entropy_eq_integral_rel S d.f_g h1 h2 D

/-- rel(GammaDensitySpec, DigammaSpec): ChiSquared as built by `ChiSquared::new(k)` (wrapped Gamma =
    `(k/2, 1/2)`): `E[ln X] = ψ(k/2) + ln 2` and the entropy `−∫ f ln f` has the textbook value
    `k/2 + ln 2 + ln Γ(k/2) + (1 − k/2) ψ(k/2)` -/
theorem chi_squared_entropy_of_new_rel (S : GammaDensitySpec) (D : DigammaSpec) (d : ChiSquared ℝ)
    (hk : 0 < d.f_freedom) (hg : d.f_g = ⟨d.f_freedom / 2, 1 / 2⟩) :
    ∫ x, Real.log x * ChiSquared.pdf d x = psi (d.f_freedom / 2) + Real.log 2 ∧
    ChiSquared.entropy d = some (-∫ x, ChiSquared.pdf d x * Real.log (ChiSquared.pdf d x)) ∧
    -∫ x, ChiSquared.pdf d x * Real.log (ChiSquared.pdf d x)
      = d.f_freedom / 2 + Real.log 2 + Real.log (Real.Gamma (d.f_freedom / 2))
        + (1 - d.f_freedom / 2) * psi (d.f_freedom / 2) := by
  have h1 : 0 < d.f_g.f_shape := by rw [hg]; positivity
  have h2 : 0 < d.f_g.f_rate := by rw [hg]; norm_num
  have hl := chi_squared_log_moment_integral_rel S d h1 h2
  have he := chi_squared_entropy_eq_integral_rel S D d h1 h2
  have hlog : Real.log (1 / 2 : ℝ) = -Real.log 2 := by rw [one_div, Real.log_inv]
  refine ⟨?_, he, ?_⟩
  · rw [hl, hg]; simp only; rw [hlog]; ring
  · have hv : ChiSquared.entropy d = some (d.f_freedom / 2 + Real.log 2
        + Real.log (Real.Gamma (d.f_freedom / 2)) + (1 - d.f_freedom / 2) * psi (d.f_freedom / 2)) := by
      show Gamma.entropy d.f_g = _
      unfold Gamma.entropy; rfun_norm; lit_norm
      rw [hg]; simp only
      rw [S.ln_gamma_eq _ (by positivity), D.digamma_eq _ (by positivity), hlog]
      simp only [Option.some.injEq]
      ring
    rw [hv] at he
    exact (Option.some.inj he).symm

/-- what `ChiSquared::new(k)` stores satisfies the hypotheses -/
example (k : ℝ) (hk : 0 < k) : ∃ d : ChiSquared ℝ, 0 < d.f_freedom ∧
    d.f_g = ⟨d.f_freedom / 2, 1 / 2⟩ ∧ 0 < d.f_g.f_shape ∧ 0 < d.f_g.f_rate :=
  ⟨⟨k, ⟨k / 2, 1 / 2⟩⟩, hk, rfl, by positivity, by norm_num⟩

end Statrs.Props.C07
