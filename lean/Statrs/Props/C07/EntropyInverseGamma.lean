/-
  C07 (moments derived from the density) — InverseGamma(shape, rate): real-power moments, the
  logarithmic moment and the differential entropy as integrals over ℝ of the SAME object's generated
  `pdf`:
    ∫ x^m · f = rate^m Γ(shape − m)/Γ(shape)   for every real `m < shape`,
    E[ln X] = ∫ ln x · f = ln rate − ψ(shape),
    entropy = shape + ln rate + ln Γ(shape) − (1 + shape) ψ(shape) = −∫ f ln f.
  Method: the substitution `t = 1/x` turns the kernel `x^(−a−1) e^{−r/x}` into the Gamma kernel
  (`Lemmas/MomentIntegralsGamma.lean`, `Lemmas/DigammaIntegral.lean`); on the support
  `ln f = a ln r − ln Γ(a) − (a+1) ln x − r/x` (`C03.inverse_gamma_pdf_formula_rel`, both branches).
  Relative to `Spec.GammaDensitySpec` (pdf) and `Spec.DigammaSpec` (`SF.digamma = ψ = Γ'/Γ`).
  Hypotheses: the constructor's `0 < shape`, `0 < rate`.  Non-vacuous by `Spec.sfWitnessDigamma`.
-/
import Statrs.Real.Simp
import Statrs.Spec.SFSpec_Density
import Statrs.Spec.SFSpec_digamma
import Statrs.Lemmas.DigammaIntegral
import Statrs.Props.C03.SFDerivA
import Statrs.Props.C07.MomentIntegralsB
import Statrs.Lemmas.Related
import Statrs.Gen.D_inverse_gamma
import Mathlib.Tactic
namespace Statrs.Props.C07
open Statrs Statrs.Gen Statrs.Spec Statrs.Lemmas.Related Statrs.Lemmas.MomentIntegralsGamma
open Statrs.Lemmas.Transfer Statrs.Lemmas.DigammaIntegral
open MeasureTheory Set

variable [SF ℝ]

section inverse_gamma
variable (S : GammaDensitySpec) (d : InverseGamma ℝ) (h1 : 0 < d.f_shape) (h2 : 0 < d.f_rate)

include S h1 h2 in
/-- rel(GammaDensitySpec): `x^m · pdf x` on the support, kernel form -/
theorem inverse_gamma_rpow_mul_pdf_eq (m : ℝ) (x : ℝ) (hx : 0 < x) :
    x ^ m * InverseGamma.pdf d x = (d.f_rate ^ d.f_shape / Real.Gamma d.f_shape) *
      (x ^ (-(d.f_shape - m) - 1) * Real.exp (-(d.f_rate / x))) := by
  rw [C03.inverse_gamma_pdf_formula_rel S d h1 h2 x hx,
    show -(d.f_shape - m) - 1 = m + (-d.f_shape - 1) by ring, Real.rpow_add hx]
  ring

include S h1 h2 in
/-- rel(GammaDensitySpec): real-power moments `∫ x^m · pdf x dx = rate^m Γ(shape − m)/Γ(shape)`
    for every real `m < shape` (negative `m` included) -/
theorem inverse_gamma_rpow_moment_rel (m : ℝ) (hm : m < d.f_shape) :
    ∫ x, x ^ m * InverseGamma.pdf d x
      = d.f_rate ^ m * Real.Gamma (d.f_shape - m) / Real.Gamma d.f_shape := by
  have hG : 0 < Real.Gamma d.f_shape := Real.Gamma_pos_of_pos h1
  have hb : 0 < d.f_shape - m := by linarith
  rw [integral_eq_setIntegral_Ioi (f := fun x => x ^ m * InverseGamma.pdf d x)
    (fun x hx => by rw [C03.inverse_gamma_pdf_eq_zero d x hx.le, mul_zero]),
    setIntegral_congr_fun measurableSet_Ioi
      (fun x hx => inverse_gamma_rpow_mul_pdf_eq S d h1 h2 m x hx),
    integral_const_mul, integral_invGammaKernel hb h2, one_div, Real.inv_rpow h2.le,
    Real.rpow_sub h2]
  have : 0 < d.f_rate ^ d.f_shape := Real.rpow_pos_of_pos h2 _
  have : 0 < d.f_rate ^ m := Real.rpow_pos_of_pos h2 _
  field_simp

include S h1 h2 in
/-- rel(GammaDensitySpec): `x^m · pdf x` is integrable over ℝ for `m < shape` -/
theorem inverse_gamma_rpow_moment_integrable_rel (m : ℝ) (hm : m < d.f_shape) :
    Integrable (fun x => x ^ m * InverseGamma.pdf d x) := by
  apply Integrable.of_integral_ne_zero
  rw [inverse_gamma_rpow_moment_rel S d h1 h2 m hm]
  have : 0 < Real.Gamma (d.f_shape - m) := Real.Gamma_pos_of_pos (by linarith)
  have : 0 < Real.Gamma d.f_shape := Real.Gamma_pos_of_pos h1
  have : 0 < d.f_rate ^ m := Real.rpow_pos_of_pos h2 _
  positivity

include S h1 h2 in
/-- rel(GammaDensitySpec): `ln x · pdf x` on the support, kernel form -/
theorem inverse_gamma_log_mul_pdf_eq (x : ℝ) (hx : 0 < x) :
    Real.log x * InverseGamma.pdf d x = (d.f_rate ^ d.f_shape / Real.Gamma d.f_shape) *
      (x ^ (-d.f_shape - 1) * (Real.log x * Real.exp (-(d.f_rate / x)))) := by
  rw [C03.inverse_gamma_pdf_formula_rel S d h1 h2 x hx]; ring

include S h1 h2 in
/-- rel(GammaDensitySpec): `ln x · pdf x` is integrable over ℝ -/
theorem inverse_gamma_log_moment_integrable_rel :
    Integrable (fun x => Real.log x * InverseGamma.pdf d x) := by
  refine integrable_of_integrableOn_Ioi
    (fun x hx => by rw [C03.inverse_gamma_pdf_eq_zero d x hx.le, mul_zero]) ?_
  have hk : IntegrableOn (fun x : ℝ => (d.f_rate ^ d.f_shape / Real.Gamma d.f_shape) *
      (x ^ (-d.f_shape - 1) * (Real.log x * Real.exp (-(d.f_rate / x))))) (Ioi 0) :=
    (integrableOn_log_invGammaKernel h1 h2).const_mul _
  exact hk.congr_fun (fun x hx => (inverse_gamma_log_mul_pdf_eq S d h1 h2 x hx).symm)
    measurableSet_Ioi

include S h1 h2 in
/-- rel(GammaDensitySpec): `E[ln X] = ∫ ln x · pdf x dx = ln rate − ψ(shape)` -/
theorem inverse_gamma_log_moment_integral_rel :
    ∫ x, Real.log x * InverseGamma.pdf d x = Real.log d.f_rate - psi d.f_shape := by
  have hG : 0 < Real.Gamma d.f_shape := Real.Gamma_pos_of_pos h1
  have hrs : 0 < d.f_rate ^ d.f_shape := Real.rpow_pos_of_pos h2 _
  rw [integral_eq_setIntegral_Ioi (f := fun x => Real.log x * InverseGamma.pdf d x)
    (fun x hx => by rw [C03.inverse_gamma_pdf_eq_zero d x hx.le, mul_zero]),
    setIntegral_congr_fun measurableSet_Ioi
      (fun x hx => inverse_gamma_log_mul_pdf_eq S d h1 h2 x hx),
    integral_const_mul, integral_log_invGammaKernel h1 h2, one_div, Real.inv_rpow h2.le]
  field_simp
  ring

include S h1 h2 in
/-- rel(GammaDensitySpec): the log-density on the support -/
theorem inverse_gamma_log_pdf_rel (x : ℝ) (hx : 0 < x) :
    Real.log (InverseGamma.pdf d x)
      = (d.f_shape * Real.log d.f_rate - Real.log (Real.Gamma d.f_shape))
        + (-(d.f_shape + 1)) * Real.log x + (-d.f_rate) * x ^ (-1:ℝ) := by
  have hG : 0 < Real.Gamma d.f_shape := Real.Gamma_pos_of_pos h1
  have hrs : 0 < d.f_rate ^ d.f_shape := Real.rpow_pos_of_pos h2 _
  have hxs : 0 < x ^ (-d.f_shape - 1) := Real.rpow_pos_of_pos hx _
  rw [C03.inverse_gamma_pdf_formula_rel S d h1 h2 x hx, Real.log_div (by positivity) hG.ne',
    Real.log_mul (by positivity) (Real.exp_pos _).ne', Real.log_mul hrs.ne' hxs.ne',
    Real.log_rpow h2, Real.log_rpow hx, Real.log_exp, Real.rpow_neg_one]
  ring

include S h1 h2 in
/-- rel(GammaDensitySpec, DigammaSpec): the returned entropy
    `shape + ln rate + ln Γ(shape) − (1 + shape)·ψ(shape)` is the differential entropy `−∫ f ln f`
    of the generated density -/
theorem inverse_gamma_entropy_eq_integral_rel (D : DigammaSpec) :
    InverseGamma.entropy d
      = some (-∫ x, InverseGamma.pdf d x * Real.log (InverseGamma.pdf d x)) := by
  set c0 := d.f_shape * Real.log d.f_rate - Real.log (Real.Gamma d.f_shape) with hc0
  have hG : 0 < Real.Gamma d.f_shape := Real.Gamma_pos_of_pos h1
  have i0 : Integrable (fun x => InverseGamma.pdf d x) := by
    have := inverse_gamma_rpow_moment_integrable_rel S d h1 h2 0 h1
    simpa using this
  have i1 := inverse_gamma_rpow_moment_integrable_rel S d h1 h2 (-1) (by linarith)
  have iL := inverse_gamma_log_moment_integrable_rel S d h1 h2
  have hae : (fun x => InverseGamma.pdf d x * Real.log (InverseGamma.pdf d x)) =ᵐ[volume] fun x =>
      c0 * InverseGamma.pdf d x + ((-(d.f_shape + 1)) * (Real.log x * InverseGamma.pdf d x)
        + (-d.f_rate) * (x ^ (-1:ℝ) * InverseGamma.pdf d x)) := by
    filter_upwards [Measure.ae_ne volume (0:ℝ)] with x hx
    rcases lt_or_gt_of_ne hx with hneg | hpos
    · rw [C03.inverse_gamma_pdf_eq_zero d x hneg.le]; ring
    · rw [inverse_gamma_log_pdf_rel S d h1 h2 x hpos]; ring
  have j : Integrable (fun x => (-(d.f_shape + 1)) * (Real.log x * InverseGamma.pdf d x)
      + (-d.f_rate) * (x ^ (-1:ℝ) * InverseGamma.pdf d x)) := (iL.const_mul _).add (i1.const_mul _)
  have g1 : Real.Gamma (d.f_shape - -1) = d.f_shape * Real.Gamma d.f_shape := by
    rw [sub_neg_eq_add, Real.Gamma_add_one h1.ne']
  rw [integral_congr_ae hae, integral_add (i0.const_mul _) j,
    integral_add (iL.const_mul _) (i1.const_mul _), integral_const_mul, integral_const_mul,
    integral_const_mul, inverse_gamma_pdf_integral_rel S d h1 h2,
    inverse_gamma_rpow_moment_rel S d h1 h2 (-1) (by linarith),
    inverse_gamma_log_moment_integral_rel S d h1 h2, g1, Real.rpow_neg_one]
  unfold InverseGamma.entropy; rfun_norm; lit_norm
  rw [S.ln_gamma_eq _ h1, D.digamma_eq _ h1]
  simp only [Option.some.injEq]
  have hr : d.f_rate ≠ 0 := h2.ne'
  field_simp
  ring

/-- non-vacuity: hypotheses and premise structures are satisfiable -/
example : ∃ d : InverseGamma ℝ, 0 < d.f_shape ∧ 0 < d.f_rate := ⟨⟨3, 2⟩, by norm_num, by norm_num⟩
example : @InverseGamma.entropy ℝ _ _ _ _ _ _ _ _ _ _ _ _ _ sfWitnessDigamma ⟨3, 2⟩
    = some (-∫ x, @InverseGamma.pdf ℝ _ _ _ _ _ _ _ _ _ _ _ _ _ sfWitnessDigamma ⟨3, 2⟩ x
        * Real.log (@InverseGamma.pdf ℝ _ _ _ _ _ _ _ _ _ _ _ _ _ sfWitnessDigamma ⟨3, 2⟩ x)) :=
  @inverse_gamma_entropy_eq_integral_rel sfWitnessDigamma gammaDensitySpec_witnessDigamma ⟨3, 2⟩
    (by norm_num) (by norm_num) digammaSpec_witness

end inverse_gamma
end Statrs.Props.C07
