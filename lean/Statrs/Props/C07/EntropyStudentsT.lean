/-
  C07 (moments derived from the density) — StudentsT(μ, σ, ν), Student branch (`ν < 1e8`): the
  differential entropy returned by `entropy`,
      ((ν+1)/2)(ψ((ν+1)/2) − ψ(ν/2)) + ln(√ν · B(ν/2, 1/2)) + ln σ,
  is `−∫ f ln f` over ℝ of the SAME object's generated `pdf`.
  Method: `E[ln(1 + T²/ν)] = ψ((ν+1)/2) − ψ(ν/2)` by differentiating the Student-kernel integral
  `∫ (1+t²/ν)^(−(a+b))|t|^(2a−1) dt = ν^a B(a,b)` in `b` under the integral sign
  (`Lemmas/StudentLogIntegral.lean`), the closed form `C03.studentDensity` of the pdf, and the
  location–scale substitution.
  Relative to `Spec.GammaDensitySpec` (pdf: `SF.ln_gamma`), `Spec.DigammaSpec` (`SF.digamma = ψ`) and
  `C03.BetaFnSpec` (`SF.beta = ΓΓ/Γ`).  Hypotheses: the constructor's `0 < σ`, `0 < ν`.
  PARTIAL only in `ν < 1e8`: for `ν ≥ 1e8` `StudentsT::pdf` returns the Normal(μ, σ) density while
  `entropy` keeps the Student formula (over ℝ `is_infinite` is `false`); nothing is claimed there.
-/
import Statrs.Real.Simp
import Statrs.Spec.SFSpec_Density
import Statrs.Spec.SFSpec_digamma
import Statrs.Lemmas.StudentLogIntegral
import Statrs.Props.C03.SFDerivSpec
import Statrs.Props.C03.SFDerivB
import Statrs.Props.C07.MomentIntegralsB4
import Statrs.Lemmas.Related
import Statrs.Gen.D_students_t
import Mathlib.Tactic
namespace Statrs.Props.C07
open Statrs Statrs.Gen Statrs.Spec Statrs.Lemmas.Related Statrs.Lemmas.MomentIntegralsGamma
open Statrs.Lemmas.Transfer Statrs.Lemmas.StudentLogIntegral Statrs.Lemmas.Density
open MeasureTheory Set

/-! ### the Student kernel `h(t) = (1 + t²/ν)^(−(ν+1)/2)` against `ln(1 + t²/ν)` -/
section kernel

/-- full(ℝ): `∫_ℝ ln(1+t²/ν) h(t) dt = √ν · √π Γ(ν/2)/Γ((ν+1)/2) · (ψ((ν+1)/2) − ψ(ν/2))`, with
    integrability -/
theorem student_log_mul_h_integral {ν : ℝ} (hν : 0 < ν) :
    Integrable (fun t : ℝ => Real.log (1 + t * t / ν) * (1 + t * t / ν) ^ (-(1 / 2) * (ν + 1))) ∧
    ∫ t : ℝ, Real.log (1 + t * t / ν) * (1 + t * t / ν) ^ (-(1 / 2) * (ν + 1))
      = Real.sqrt ν * (Real.sqrt Real.pi * Real.Gamma (ν / 2) / Real.Gamma ((ν + 1) / 2))
        * (psi ((ν + 1) / 2) - psi (ν / 2)) := by
  obtain ⟨hi, hv⟩ := integral_log_studentKernel (a := 1 / 2) (b := ν / 2) (ν := ν) (by norm_num)
    (by positivity) hν
  have e : (fun t : ℝ => Real.log (1 + t * t / ν)
        * (|t| ^ (2 * (1 / 2 : ℝ) - 1) * (1 + t * t / ν) ^ (-(1 / 2 + ν / 2)))) =
      fun t => Real.log (1 + t * t / ν) * (1 + t * t / ν) ^ (-(1 / 2) * (ν + 1)) := by
    funext t
    rw [show 2 * (1 / 2 : ℝ) - 1 = 0 by norm_num, Real.rpow_zero, one_mul]
    congr 2; ring
  rw [e] at hi hv
  refine ⟨hi, ?_⟩
  rw [hv, Real.Gamma_one_half_eq, ← Real.sqrt_eq_rpow,
    show (1 / 2 + ν / 2 : ℝ) = (ν + 1) / 2 by ring]

end kernel

/-! ### entropy of `C03.studentDensity μ σ ν` -/
section density

/-- the normalising constant of the Student density -/
noncomputable def studentConst (ν : ℝ) : ℝ :=
  Real.Gamma ((ν + 1) / 2) / Real.Gamma (ν / 2) / (Real.sqrt ν * Real.sqrt Real.pi)

/-- full(ℝ): the normalising constant is positive -/
theorem studentConst_pos {ν : ℝ} (hν : 0 < ν) : 0 < studentConst ν := by
  unfold studentConst
  have hG1 := Real.Gamma_pos_of_pos (by positivity : 0 < ν / 2)
  have hG2 := Real.Gamma_pos_of_pos (by positivity : 0 < (ν + 1) / 2)
  have hsν := Real.sqrt_pos.mpr hν
  have hsπ := Real.sqrt_pos.mpr Real.pi_pos
  positivity

/-- full(ℝ): `f ln f` of the Student density as a function of `t = (x−μ)/σ` -/
theorem studentDensity_mul_log (μ : ℝ) {σ ν : ℝ} (hσ : 0 < σ) (hν : 0 < ν) (x : ℝ) :
    C03.studentDensity μ σ ν x * Real.log (C03.studentDensity μ σ ν x)
      = (fun t : ℝ => studentConst ν / σ * (Real.log (studentConst ν / σ)
            * (1 + t * t / ν) ^ (-(1 / 2) * (ν + 1))
          + (-(1 / 2) * (ν + 1)) * (Real.log (1 + t * t / ν)
            * (1 + t * t / ν) ^ (-(1 / 2) * (ν + 1))))) ((x - μ) / σ) := by
  have hK := studentConst_pos hν
  have hw : 0 < 1 + (x - μ) / σ * ((x - μ) / σ) / ν := by
    have := mul_self_nonneg ((x - μ) / σ)
    positivity
  have hh := Real.rpow_pos_of_pos hw (-(1 / 2) * (ν + 1))
  rw [studentDensity_eq]
  simp only
  rw [show Real.Gamma ((ν + 1) / 2) / Real.Gamma (ν / 2) / (Real.sqrt ν * Real.sqrt Real.pi) / σ
      = studentConst ν / σ from rfl,
    Real.log_mul (by positivity) hh.ne', Real.log_rpow hw]
  ring

/-- full(ℝ): differential entropy of the Student density:
    `−∫ f ln f = ((ν+1)/2)(ψ((ν+1)/2) − ψ(ν/2)) − ln (Γ((ν+1)/2)/(Γ(ν/2)√ν√π)) + ln σ` -/
theorem studentDensity_entropy_integral (μ : ℝ) {σ ν : ℝ} (hσ : 0 < σ) (hν : 0 < ν) :
    -∫ x, C03.studentDensity μ σ ν x * Real.log (C03.studentDensity μ σ ν x)
      = (ν + 1) / 2 * (psi ((ν + 1) / 2) - psi (ν / 2)) - Real.log (studentConst ν)
        + Real.log σ := by
  have hK := studentConst_pos hν
  obtain ⟨hiL, hvL⟩ := student_log_mul_h_integral hν
  have hih := student_h_integrable hν
  have hG1 := Real.Gamma_pos_of_pos (by positivity : 0 < ν / 2)
  have hG2 := Real.Gamma_pos_of_pos (by positivity : 0 < (ν + 1) / 2)
  have hsν := Real.sqrt_pos.mpr hν
  have hsπ := Real.sqrt_pos.mpr Real.pi_pos
  set G : ℝ → ℝ := fun t : ℝ => studentConst ν / σ * (Real.log (studentConst ν / σ)
            * (1 + t * t / ν) ^ (-(1 / 2) * (ν + 1))
          + (-(1 / 2) * (ν + 1)) * (Real.log (1 + t * t / ν)
            * (1 + t * t / ν) ^ (-(1 / 2) * (ν + 1)))) with hG
  have e : (fun x => C03.studentDensity μ σ ν x * Real.log (C03.studentDensity μ σ ν x))
      = fun x => G ((x - μ) / σ) := funext (studentDensity_mul_log μ hσ hν)
  rw [e, integral_comp_sub_div G μ hσ, hG, integral_const_mul,
    integral_add (hih.const_mul _) (hiL.const_mul _), integral_const_mul, integral_const_mul,
    student_h_integral hν, hvL, Real.log_div hK.ne' hσ.ne']
  unfold studentConst
  field_simp
  ring

end density

/-! ### StudentsT, Student branch (`freedom < 1e8`) -/
section students_t
variable [SF ℝ]

/-- rel(GammaDensitySpec, DigammaSpec, BetaFnSpec), partial(ν < 1e8): the returned entropy
    `((ν+1)/2)(ψ((ν+1)/2) − ψ(ν/2)) + ln(√ν·B(ν/2, 1/2)) + ln σ` is the differential entropy
    `−∫ f ln f` of the generated density.
    PARTIAL only in `ν < 1e8` (for `ν ≥ 1e8` the generated pdf is the Normal density). -/
theorem students_t_entropy_eq_integral_rel_partial (S : GammaDensitySpec) (D : DigammaSpec)
    (B : C03.BetaFnSpec) (d : StudentsT ℝ) (hσ : 0 < d.f_scale) (hν : 0 < d.f_freedom)
    (hν8 : d.f_freedom < 1e8) :
    StudentsT.entropy d = some (-∫ x, StudentsT.pdf d x * Real.log (StudentsT.pdf d x)) := by
  simp_rw [C03.students_t_pdf_eq_density_rel S d hν hν8]
  rw [studentDensity_entropy_integral _ hσ hν]
  have hG1 := Real.Gamma_pos_of_pos (by positivity : 0 < d.f_freedom / 2)
  have hG2 := Real.Gamma_pos_of_pos (by positivity : 0 < (d.f_freedom + 1) / 2)
  have hsν := Real.sqrt_pos.mpr hν
  have hsπ := Real.sqrt_pos.mpr Real.pi_pos
  unfold StudentsT.entropy; model_norm; lit_norm
  rw [D.digamma_eq _ (by positivity), D.digamma_eq _ (by positivity),
    B.beta_eq _ _ (by positivity) (by norm_num), Real.Gamma_one_half_eq,
    show d.f_freedom / 2 + 1 / 2 = (d.f_freedom + 1) / 2 by ring]
  simp only [Option.some.injEq]
  have e : Real.sqrt d.f_freedom * (Real.Gamma (d.f_freedom / 2) * Real.sqrt Real.pi
      / Real.Gamma ((d.f_freedom + 1) / 2)) = (studentConst d.f_freedom)⁻¹ := by
    unfold studentConst; field_simp
  rw [e, Real.log_inv]
  ring

omit [SF ℝ] in
/-- full(ℝ): non-vacuity: `sfWitnessDigamma` also satisfies `BetaFnSpec` -/
theorem betaFnSpec_witnessDigamma : @C03.BetaFnSpec sfWitnessDigamma :=
  @C03.BetaFnSpec.mk sfWitnessDigamma (fun _ _ _ _ => rfl)
example : ∃ d : StudentsT ℝ, 0 < d.f_scale ∧ 0 < d.f_freedom ∧ d.f_freedom < 1e8 :=
  ⟨⟨0, 1, 3⟩, by norm_num, by norm_num, by norm_num⟩
example : @StudentsT.entropy ℝ _ _ _ _ _ _ _ _ _ _ _ _ _ sfWitnessDigamma ⟨0, 1, 3⟩
    = some (-∫ x, @StudentsT.pdf ℝ _ _ _ _ _ _ _ _ _ _ _ _ _ sfWitnessDigamma ⟨0, 1, 3⟩ x
        * Real.log (@StudentsT.pdf ℝ _ _ _ _ _ _ _ _ _ _ _ _ _ sfWitnessDigamma ⟨0, 1, 3⟩ x)) :=
  @students_t_entropy_eq_integral_rel_partial sfWitnessDigamma gammaDensitySpec_witnessDigamma
    digammaSpec_witness betaFnSpec_witnessDigamma ⟨0, 1, 3⟩ (by norm_num) (by norm_num)
    (by norm_num)

end students_t
end Statrs.Props.C07
