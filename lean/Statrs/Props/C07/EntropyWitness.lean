/-
  C07 — the project-wide TRUE special-function instance `Spec.Witnesses.trueSF`
  (`Props/Common/Witnesses_3.lean`: `gamma = Γ`, `ln_gamma = ln Γ`, `digamma = Γ'/Γ`,
  `ln_beta = ln(ΓΓ/Γ)`, …) satisfies the two premise structures of the entropy-as-integral theorems
  (`Spec.DigammaSpec`, `Spec.LnBetaSpec`), so every `…_entropy_eq_integral_rel` theorem of
  `Entropy{Gamma,InverseGamma,Beta,Chi}.lean` can be instantiated at the instance that already
  satisfies all other premises (`Witnesses.allSFPremises_true`); the unconditional instances
  (`…_true`) of the Gamma, Beta, InverseGamma, Chi and StudentsT entropies are recorded below.
-/
import Statrs.Props.Common.Witnesses_3
import Statrs.Spec.SFSpec_digamma
import Statrs.Props.C07.EntropyGamma
import Statrs.Props.C07.EntropyBeta
import Statrs.Props.C07.EntropyChi
import Statrs.Props.C07.EntropyInverseGamma
import Statrs.Props.C07.EntropyStudentsT
namespace Statrs.Props.C07
open Statrs Statrs.Gen Statrs.Spec Statrs.Spec.Witnesses Statrs.Lemmas.Transfer
open MeasureTheory

/-- full(ℝ): the true special functions satisfy `DigammaSpec` -/
theorem digammaSpec_true : @DigammaSpec trueSF :=
  @DigammaSpec.mk trueSF (fun x _ => (psi_def x).symm)

/-- full(ℝ): the true special functions satisfy `LnBetaSpec` -/
theorem lnBetaSpec_true : @LnBetaSpec trueSF := @LnBetaSpec.mk trueSF (fun _ _ _ _ => rfl)

/-- full(ℝ): joint consistency of the entropy premises with every other premise about `SF ℝ` -/
theorem entropy_premises_consistent :
    ∃ inst : SF ℝ, @AllSFPremises inst ∧ @DigammaSpec inst ∧ @LnBetaSpec inst :=
  ⟨trueSF, allSFPremises_true, digammaSpec_true, lnBetaSpec_true⟩

/-- full(ℝ): with the true special functions, `Gamma::entropy` is `−∫ f ln f` of `Gamma::pdf` -/
theorem gamma_entropy_eq_integral_true (d : Gamma ℝ) (h1 : 0 < d.f_shape) (h2 : 0 < d.f_rate) :
    @Gamma.entropy ℝ _ _ _ _ _ _ _ _ _ _ _ _ _ trueSF d
      = some (-∫ x, @Gamma.pdf ℝ _ _ _ _ _ _ _ _ _ _ _ _ _ trueSF d x
          * Real.log (@Gamma.pdf ℝ _ _ _ _ _ _ _ _ _ _ _ _ _ trueSF d x)) :=
  @gamma_entropy_eq_integral_rel trueSF gammaDensitySpec_true d h1 h2 digammaSpec_true

/-- full(ℝ): with the true special functions, `Beta::entropy` is `−∫ f ln f` of `Beta::pdf` -/
theorem beta_entropy_eq_integral_true (d : Beta ℝ) (h1 : 0 < d.f_shape_a) (h2 : 0 < d.f_shape_b) :
    @Beta.entropy ℝ _ _ _ _ _ _ _ _ _ _ _ _ _ trueSF d
      = some (-∫ x, @Beta.pdf ℝ _ _ _ _ _ _ _ _ _ _ _ _ _ trueSF d x
          * Real.log (@Beta.pdf ℝ _ _ _ _ _ _ _ _ _ _ _ _ _ trueSF d x)) :=
  @beta_entropy_eq_integral_rel trueSF gammaDensitySpec_true d h1 h2 digammaSpec_true
    lnBetaSpec_true

/-- full(ℝ): with the true special functions, `InverseGamma::entropy` is `−∫ f ln f` of the pdf -/
theorem inverse_gamma_entropy_eq_integral_true (d : InverseGamma ℝ) (h1 : 0 < d.f_shape)
    (h2 : 0 < d.f_rate) :
    @InverseGamma.entropy ℝ _ _ _ _ _ _ _ _ _ _ _ _ _ trueSF d
      = some (-∫ x, @InverseGamma.pdf ℝ _ _ _ _ _ _ _ _ _ _ _ _ _ trueSF d x
          * Real.log (@InverseGamma.pdf ℝ _ _ _ _ _ _ _ _ _ _ _ _ _ trueSF d x)) :=
  @inverse_gamma_entropy_eq_integral_rel trueSF gammaDensitySpec_true d h1 h2 digammaSpec_true

/-- full(ℝ): with the true special functions, `Chi::entropy` is `−∫ f ln f` of the pdf (every
    `freedom ≥ 1`) -/
theorem chi_entropy_eq_integral_true (d : Chi) (h0 : 0 ≤ d.f_freedom) (hne : d.f_freedom ≠ 0) :
    @Chi.entropy ℝ _ _ _ _ _ _ _ _ _ _ _ _ _ trueSF d
      = some (-∫ x, @Chi.pdf ℝ _ _ _ _ _ _ _ _ _ _ _ _ _ trueSF d x
          * Real.log (@Chi.pdf ℝ _ _ _ _ _ _ _ _ _ _ _ _ _ trueSF d x)) :=
  @chi_entropy_eq_integral_rel trueSF gammaDensitySpec_true d h0 hne digammaSpec_true

/-- partial(ν < 1e8): with the true special functions, `StudentsT::entropy` is `−∫ f ln f` of the pdf
    on the Student branch of the pdf -/
theorem students_t_entropy_eq_integral_true_partial (d : StudentsT ℝ) (hσ : 0 < d.f_scale)
    (hν : 0 < d.f_freedom) (hν8 : d.f_freedom < 1e8) :
    @StudentsT.entropy ℝ _ _ _ _ _ _ _ _ _ _ _ _ _ trueSF d
      = some (-∫ x, @StudentsT.pdf ℝ _ _ _ _ _ _ _ _ _ _ _ _ _ trueSF d x
          * Real.log (@StudentsT.pdf ℝ _ _ _ _ _ _ _ _ _ _ _ _ _ trueSF d x)) :=
  @students_t_entropy_eq_integral_rel_partial trueSF gammaDensitySpec_true digammaSpec_true
    betaFnSpec_true d hσ hν hν8

end Statrs.Props.C07
