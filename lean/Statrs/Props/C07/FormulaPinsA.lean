/-
  C07 (formula pins, part A) — Bernoulli, Beta, Binomial, Cauchy, Chi, ChiSquared, Dirac.

  Every closed form returned by the generated `mean` / `variance` / `std_dev` / `skewness` /
  `entropy` is pinned to the hand-written textbook formula of `Statrs.Spec.Moments` (same
  parameterisation as the pdf, entropy in nats), over ℝ.  The pins are syntactic/algebraic: any
  edit of a constant, threshold, operator or argument in a moment formula of /repo/src breaks one
  of these theorems.  Hypotheses are the part of the constructor's acceptance predicate (and of the
  existence condition) that the identity really needs; a theorem without hypotheses holds for all
  field values.  `SF.gamma`, `SF.ln_gamma`, `SF.digamma`, `SF.ln_beta`, `SF.ln_binomial` are the
  abstract special functions, used on both sides as they are (no premise), except
  `bernoulli_entropy_rel` which needs `ln C(1,k) = 0`.

  Branches: `Chi.mean` uses the Γ-ratio `√2·SF.gamma((k+1)/2)/SF.gamma(k/2)` for `k ≤ 300` and the
  asymptotic product `Spec.Moments.Chi.meanAsymptotic` for `k > 300` (both pinned, with the exact
  threshold); `Chi.variance/std_dev/skewness` inherit the branch.
-/
import Statrs.Real.Simp
import Statrs.Spec.Moments
import Statrs.Spec.SFSpec_Density
import Statrs.Gen.D_bernoulli
import Statrs.Gen.D_beta
import Statrs.Gen.D_binomial
import Statrs.Gen.D_cauchy
import Statrs.Gen.D_chi
import Statrs.Gen.D_chi_squared
import Statrs.Gen.D_dirac
import Mathlib.Tactic
namespace Statrs.Props.C07
open Statrs Statrs.Gen Statrs.Spec

/-! ### Beta(a, b) -/
section beta
variable (d : Beta ℝ)

theorem beta_mean_pin : Beta.mean d = some (Moments.Beta.mean d.f_shape_a d.f_shape_b) := by
  unfold Beta.mean Moments.Beta.mean; rfl

theorem beta_variance_pin :
    Beta.variance d = some (Moments.Beta.variance d.f_shape_a d.f_shape_b) := by
  unfold Beta.variance Moments.Beta.variance; norm_num; ring

theorem beta_std_dev_pin :
    Beta.std_dev d = some (Real.sqrt (Moments.Beta.variance d.f_shape_a d.f_shape_b)) := by
  unfold Beta.std_dev; rw [beta_variance_pin]; rfl

theorem beta_skewness_pin :
    Beta.skewness d = some (Moments.Beta.skewness d.f_shape_a d.f_shape_b) := by
  unfold Beta.skewness Moments.Beta.skewness; rfun_norm; norm_num

theorem beta_entropy_pin [SF ℝ] :
    Beta.entropy d = some (Moments.Beta.entropy d.f_shape_a d.f_shape_b) := by
  unfold Beta.entropy Moments.Beta.entropy; norm_num

example : ∃ d : Beta ℝ, 0 < d.f_shape_a ∧ 0 < d.f_shape_b := ⟨⟨2, 3⟩, by norm_num⟩
end beta

/-! ### Binomial(n, p) -/
section binomial
variable (d : Binomial ℝ)

theorem binomial_mean_pin : Binomial.mean d = some (Moments.Binomial.mean d.f_n d.f_p) := by
  unfold Binomial.mean Moments.Binomial.mean; rfun_norm
  simp only [Option.some.injEq]; ring

theorem binomial_variance_pin :
    Binomial.variance d = some (Moments.Binomial.variance d.f_n d.f_p) := by
  unfold Binomial.variance Moments.Binomial.variance; rfun_norm; norm_num; ring

theorem binomial_std_dev_pin :
    Binomial.std_dev d = some (Real.sqrt (Moments.Binomial.variance d.f_n d.f_p)) := by
  unfold Binomial.std_dev; rw [binomial_variance_pin]; rfl

theorem binomial_skewness_pin :
    Binomial.skewness d = some (Moments.Binomial.skewness d.f_n d.f_p) := by
  unfold Binomial.skewness Moments.Binomial.skewness; rfun_norm; norm_num

private lemma foldl_sub (g : ℤ → ℝ) (l : List ℤ) (a : ℝ) :
    List.foldl (fun acc x => acc - g x) a l = a - (l.map g).sum := by
  induction l generalizing a with
  | nil => simp
  | cons x t ih => simp only [List.foldl_cons, ih, List.map_cons, List.sum_cons]; ring

private lemma sum_map_range (f : ℕ → ℝ) (n : ℕ) :
    ((List.range n).map f).sum = ∑ i ∈ Finset.range n, f i := by
  induction n with
  | zero => simp
  | succ n ih =>
    rw [List.range_succ, List.map_append, List.sum_append, ih, Finset.sum_range_succ]; simp

/-- the generated pmf on the support, `0 < p < 1`: `exp(ln C(n,k) + k ln p + (n−k) ln(1−p))`
    is the textbook `C(n,k) p^k (1−p)^{n−k}` (`C(n,k) = exp (SF.ln_binomial n k)`) -/
theorem binomial_pmf_pin [SF ℝ] (m k : ℕ) (hn : d.f_n = (m : ℤ)) (hk : k ≤ m)
    (hp0 : 0 < d.f_p) (hp1 : d.f_p < 1) :
    Binomial.pmf d (k : ℤ) = Moments.Binomial.pmf m d.f_p k := by
  unfold Binomial.pmf Moments.Binomial.pmf
  rfun_norm
  have h1 : ¬ ((m : ℤ) < (k : ℤ)) := by exact_mod_cast not_lt.mpr hk
  have h2 : ¬ d.f_p = (0.0 : ℝ) := by norm_num; exact hp0.ne'
  have h3 : ¬ d.f_p = (1.0 : ℝ) := by norm_num; exact hp1.ne
  have h4 : usub (m : ℤ) (k : ℤ) = ((m - k : ℕ) : ℤ) := by
    unfold usub; rw [if_neg h1]; omega
  rw [hn]
  simp only [h1, h2, h3, if_false, decide_false, Bool.false_eq_true, h4]
  have hq : (0 : ℝ) < 1 - d.f_p := by linarith
  rw [Real.exp_add, Real.exp_add]
  norm_num
  rw [mul_comm (k : ℝ), mul_comm ((m - k : ℕ) : ℝ), Real.exp_mul, Real.exp_mul, Real.exp_log hp0,
    Real.exp_log hq, Real.rpow_natCast, Real.rpow_natCast]

/-- Binomial entropy: `0` for `p ∈ {0,1}`, else `−Σ_{k=0}^{n} P(k) ln P(k)` over the textbook pmf
    (the summation range `0..=n`, the sign and the natural log are all pinned) -/
theorem binomial_entropy_pin [SF ℝ] (hn : 0 ≤ d.f_n) (hp0 : 0 ≤ d.f_p) (hp1 : d.f_p ≤ 1) :
    Binomial.entropy d = some (Moments.Binomial.entropy d.f_n.toNat d.f_p) := by
  obtain ⟨m, hm⟩ := Int.eq_ofNat_of_zero_le hn
  unfold Binomial.entropy Moments.Binomial.entropy
  rfun_norm
  simp only [Option.some.injEq]
  by_cases hdeg : d.f_p = 0 ∨ d.f_p = 1
  · have : d.f_p = (0.0 : ℝ) ∨ decide (d.f_p = (1.0 : ℝ)) = true := by
      rcases hdeg with h | h
      · left; rw [h]; norm_num
      · right; rw [h]; norm_num
    rw [if_pos this, if_pos hdeg]; norm_num
  · have hne : ¬ (d.f_p = (0.0 : ℝ) ∨ decide (d.f_p = (1.0 : ℝ)) = true) := by
      intro h; apply hdeg
      rcases h with h | h
      · left; rw [h]; norm_num
      · right; have := of_decide_eq_true h; rw [this]; norm_num
    rw [if_neg hne, if_neg hdeg]
    rw [not_or] at hdeg
    have hp0' : 0 < d.f_p := lt_of_le_of_ne hp0 (Ne.symm hdeg.1)
    have hp1' : d.f_p < 1 := lt_of_le_of_ne hp1 hdeg.2
    have hfold := foldl_sub (fun x => Binomial.pmf d x * Real.log (Binomial.pmf d x))
      (rangeList 0 (d.f_n + 1)) (0.0 : ℝ)
    try simp only at hfold ⊢
    rw [hfold]
    have hlen : ((m : ℤ) + 1 - 0).toNat = m + 1 := by omega
    rw [hm]
    unfold rangeList
    rw [hlen, List.map_map, sum_map_range]
    norm_num
    apply Finset.sum_congr rfl
    intro k hk
    have hk' : k ≤ m := Nat.lt_succ_iff.mp (Finset.mem_range.mp hk)
    show _ = Moments.Binomial.pmf m d.f_p k * Real.log (Moments.Binomial.pmf m d.f_p k)
    rw [← binomial_pmf_pin d m k hm hk' hp0' hp1']

example : ∃ d : Binomial ℝ, 0 ≤ d.f_n ∧ 0 ≤ d.f_p ∧ d.f_p ≤ 1 := ⟨⟨1 / 3, 7⟩, by norm_num⟩
end binomial

/-! ### Bernoulli(p) = Binomial(1, p) -/
section bernoulli
variable (d : Bernoulli ℝ) (hn : d.f_b.f_n = 1)
include hn

theorem bernoulli_mean_pin : Bernoulli.mean d = some (Moments.Bernoulli.mean d.f_b.f_p) := by
  unfold Bernoulli.mean Binomial.mean Moments.Bernoulli.mean; rw [hn]; rfun_norm; norm_num

theorem bernoulli_variance_pin :
    Bernoulli.variance d = some (Moments.Bernoulli.variance d.f_b.f_p) := by
  unfold Bernoulli.variance Binomial.variance Moments.Bernoulli.variance; rw [hn]; rfun_norm
  norm_num

theorem bernoulli_std_dev_pin :
    Bernoulli.std_dev d = some (Real.sqrt (Moments.Bernoulli.variance d.f_b.f_p)) := by
  unfold Bernoulli.std_dev; rw [bernoulli_variance_pin d hn]; rfl

theorem bernoulli_skewness_pin :
    Bernoulli.skewness d = some (Moments.Bernoulli.skewness d.f_b.f_p) := by
  unfold Bernoulli.skewness Binomial.skewness Moments.Bernoulli.skewness; rw [hn]; rfun_norm
  norm_num

/-- relative to `ln C(1,0) = ln C(1,1) = 0`: the binary entropy function, in nats -/
theorem bernoulli_entropy_rel [SF ℝ] (S : LnBinomialOneSpec) (hp0 : 0 ≤ d.f_b.f_p)
    (hp1 : d.f_b.f_p ≤ 1) :
    Bernoulli.entropy d = some (Moments.Bernoulli.entropy d.f_b.f_p) := by
  unfold Bernoulli.entropy
  rw [binomial_entropy_pin d.f_b (by rw [hn]; norm_num) hp0 hp1, hn]
  simp only [Option.some.injEq]
  unfold Moments.Binomial.entropy Moments.Bernoulli.entropy
  split_ifs with h
  · rcases h with h | h <;> rw [h] <;> simp
  · have e0 := S.ln_binomial_one_zero
    have e1 := S.ln_binomial_one_one
    have : (1 : ℤ).toNat = 1 := rfl
    rw [this, Finset.sum_range_succ, Finset.sum_range_one]
    unfold Moments.Binomial.pmf
    simp only [Nat.cast_one, Nat.cast_zero, e0, e1, Real.exp_zero]
    norm_num
    ring

example : ∃ (_ : SF ℝ) (_ : LnBinomialOneSpec) (d : Bernoulli ℝ), d.f_b.f_n = 1 ∧ 0 ≤ d.f_b.f_p ∧
    d.f_b.f_p ≤ 1 := ⟨sfWitness, lnBinomialOneSpec_witness, ⟨⟨1 / 2, 1⟩⟩, by norm_num⟩
end bernoulli

/-! ### Cauchy(x₀, γ) -/
section cauchy
variable (d : Cauchy ℝ)
/-- no moment exists -/
theorem cauchy_moments_none_pin :
    Cauchy.mean d = none ∧ Cauchy.variance d = none ∧ Cauchy.std_dev d = none ∧
      Cauchy.skewness d = none := ⟨rfl, rfl, rfl, rfl⟩
theorem cauchy_entropy_pin : Cauchy.entropy d = some (Moments.Cauchy.entropy d.f_scale) := by
  unfold Cauchy.entropy Moments.Cauchy.entropy; rfun_norm; norm_num
example : ∃ d : Cauchy ℝ, 0 < d.f_scale := ⟨⟨0, 1⟩, by norm_num⟩
end cauchy

/-! ### Chi(k) -/
section chi
variable [SF ℝ] (d : Chi)

/-- `k ≤ 300`: the Γ-ratio, computed with `SF.gamma` (not `SF.ln_gamma`) -/
theorem chi_mean_pin (h : d.f_freedom ≤ 300) :
    Chi.mean (α := ℝ) d = some (Moments.Chi.mean d.f_freedom) := by
  unfold Chi.mean Chi.freedom Moments.Chi.mean
  rfun_norm
  simp only [not_lt.mpr h, if_false]
  norm_num

/-- `k > 300`: the asymptotic product with its exact coefficients `1/4, 1/32, 3/64` -/
theorem chi_mean_large_pin (h : 300 < d.f_freedom) :
    Chi.mean (α := ℝ) d = some (Moments.Chi.meanAsymptotic d.f_freedom) := by
  unfold Chi.mean Chi.freedom Moments.Chi.meanAsymptotic
  rfun_norm
  simp only [h, if_true]
  norm_num
  ring

/-- the variance is `k − μ²` of whatever `mean` returned (both branches) -/
theorem chi_variance_of_mean (μ : ℝ) (hμ : Chi.mean (α := ℝ) d = some μ) :
    Chi.variance (α := ℝ) d = some (Moments.Chi.varianceOf d.f_freedom μ) := by
  unfold Chi.variance Chi.freedom Moments.Chi.varianceOf; rw [hμ]; rfun_norm
  simp only [Option.some.injEq]; ring

theorem chi_variance_pin (h : d.f_freedom ≤ 300) :
    Chi.variance (α := ℝ) d = some (Moments.Chi.variance d.f_freedom) :=
  chi_variance_of_mean d _ (chi_mean_pin d h)

theorem chi_variance_large_pin (h : 300 < d.f_freedom) :
    Chi.variance (α := ℝ) d
      = some (Moments.Chi.varianceOf d.f_freedom (Moments.Chi.meanAsymptotic d.f_freedom)) :=
  chi_variance_of_mean d _ (chi_mean_large_pin d h)

theorem chi_std_dev_pin (h : d.f_freedom ≤ 300) :
    Chi.std_dev (α := ℝ) d = some (Real.sqrt (Moments.Chi.variance d.f_freedom)) := by
  unfold Chi.std_dev; rw [chi_variance_pin d h]; rfl

theorem chi_std_dev_large_pin (h : 300 < d.f_freedom) :
    Chi.std_dev (α := ℝ) d = some (Real.sqrt
      (Moments.Chi.varianceOf d.f_freedom (Moments.Chi.meanAsymptotic d.f_freedom))) := by
  unfold Chi.std_dev; rw [chi_variance_large_pin d h]; rfl

theorem chi_skewness_pin (h : d.f_freedom ≤ 300) :
    Chi.skewness (α := ℝ) d = some (Moments.Chi.skewness d.f_freedom) := by
  unfold Chi.skewness; rw [chi_std_dev_pin d h, chi_mean_pin d h]
  unfold Moments.Chi.skewness Moments.Chi.skewnessOf
  norm_num; ring

theorem chi_skewness_large_pin (h : 300 < d.f_freedom) :
    Chi.skewness (α := ℝ) d = some (Moments.Chi.skewnessOf (Moments.Chi.meanAsymptotic d.f_freedom)
      (Real.sqrt (Moments.Chi.varianceOf d.f_freedom (Moments.Chi.meanAsymptotic d.f_freedom)))) := by
  unfold Chi.skewness; rw [chi_std_dev_large_pin d h, chi_mean_large_pin d h]
  unfold Moments.Chi.skewnessOf
  norm_num; ring

theorem chi_entropy_pin : Chi.entropy (α := ℝ) d = some (Moments.Chi.entropy d.f_freedom) := by
  unfold Chi.entropy Chi.freedom Moments.Chi.entropy; rfun_norm; norm_num

example : ∃ d : Chi, 0 < d.f_freedom ∧ d.f_freedom ≤ 300 := ⟨⟨300⟩, by decide⟩
example : ∃ d : Chi, 300 < d.f_freedom := ⟨⟨301⟩, by decide⟩
end chi

/-! ### ChiSquared(k): the wrapped Gamma is `Gamma(k/2, 1/2)` (what `ChiSquared.new` builds) -/
section chiSquared
variable (d : ChiSquared ℝ) (hs : d.f_g.f_shape = d.f_freedom / 2) (hr : d.f_g.f_rate = 1 / 2)
include hs hr

theorem chiSquared_mean_pin : ChiSquared.mean d = some (Moments.ChiSquared.mean d.f_freedom) := by
  unfold ChiSquared.mean Gamma.mean Moments.ChiSquared.mean; rw [hs, hr]
  simp only [Option.some.injEq]; ring

theorem chiSquared_variance_pin :
    ChiSquared.variance d = some (Moments.ChiSquared.variance d.f_freedom) := by
  unfold ChiSquared.variance Gamma.variance Moments.ChiSquared.variance; rw [hs, hr]
  simp only [Option.some.injEq]; ring

theorem chiSquared_std_dev_pin :
    ChiSquared.std_dev d = some (Real.sqrt (Moments.ChiSquared.variance d.f_freedom)) := by
  unfold ChiSquared.std_dev; rw [chiSquared_variance_pin d hs hr]; rfl

omit hr in
theorem chiSquared_skewness_pin (hk : 0 < d.f_freedom) :
    ChiSquared.skewness d = some (Moments.ChiSquared.skewness d.f_freedom) := by
  unfold ChiSquared.skewness Gamma.skewness Moments.ChiSquared.skewness; rw [hs]; rfun_norm
  simp only [Option.some.injEq]
  have h2 : (8 : ℝ) / d.f_freedom = 2 ^ 2 / (d.f_freedom / 2) := by field_simp; ring
  have h3 : Real.sqrt (8 / d.f_freedom) = 2 / Real.sqrt (d.f_freedom / 2) := by
    rw [h2, Real.sqrt_div (by positivity) (d.f_freedom / 2), Real.sqrt_sq (by norm_num)]
  rw [h3]; norm_num

theorem chiSquared_entropy_pin [SF ℝ] :
    ChiSquared.entropy d = some (Moments.ChiSquared.entropy d.f_freedom) := by
  unfold ChiSquared.entropy Gamma.entropy Moments.ChiSquared.entropy; rw [hs, hr]; rfun_norm
  simp only [Option.some.injEq]
  rw [one_div, Real.log_inv]; norm_num

example : ∃ d : ChiSquared ℝ, d.f_g.f_shape = d.f_freedom / 2 ∧ d.f_g.f_rate = 1 / 2 ∧
    0 < d.f_freedom := ⟨⟨3, ⟨3 / 2, 1 / 2⟩⟩, by norm_num⟩
end chiSquared

/-! ### Dirac(v) -/
section dirac
variable (d : Dirac ℝ)
theorem dirac_mean_pin : Dirac.mean d = some (Moments.Dirac.mean d.f_0) := rfl
theorem dirac_variance_pin : Dirac.variance d = some Moments.Dirac.variance := by
  unfold Dirac.variance Moments.Dirac.variance; norm_num
theorem dirac_std_dev_pin : Dirac.std_dev d = some (Real.sqrt Moments.Dirac.variance) := by
  unfold Dirac.std_dev; rw [dirac_variance_pin]; rfl
/-- statrs' convention `0` (the textbook skewness of a point mass is undefined) -/
theorem dirac_skewness_pin : Dirac.skewness d = some Moments.Dirac.skewness := by
  unfold Dirac.skewness Moments.Dirac.skewness; norm_num
theorem dirac_entropy_pin : Dirac.entropy d = some Moments.Dirac.entropy := by
  unfold Dirac.entropy Moments.Dirac.entropy; norm_num
example : ∃ _ : Dirac ℝ, True := ⟨⟨3⟩, trivial⟩
end dirac

end Statrs.Props.C07
