/-
  C07 (formula pins, part B) — DiscreteUniform, Erlang, Exp, FisherSnedecor, Gamma, Geometric,
  Gumbel.  See `FormulaPinsA.lean` for the conventions.

  Disagreements with the textbook (nats) found here:
  * `Geometric.entropy` is in BITS (`log₂`): `geometric_entropy_bits_pin` (what it is) and
    `geometric_entropy_counterexample` (p = 1/2: returns 2, textbook 2 ln 2).
  * `Gumbel.skewness` returns the 6-digit decimal `1.13955`, not `12√6 ζ(3)/π³ = 1.1395470994…`
    (`gumbel_skewness_literal_pin`; the literal is pinned, the difference ≈ 3·10⁻⁶ is only noted).
  * `FisherSnedecor.entropy` is `none` although the F distribution has a finite entropy.
-/
import Statrs.Real.Simp
import Statrs.Spec.Moments
import Statrs.Gen.D_discrete_uniform
import Statrs.Gen.D_erlang
import Statrs.Gen.D_exponential
import Statrs.Gen.D_fisher_snedecor
import Statrs.Gen.D_gamma
import Statrs.Gen.D_geometric
import Statrs.Gen.D_gumbel
import Mathlib.Tactic
import Mathlib.Analysis.SpecialFunctions.Log.Deriv
import Mathlib.Analysis.SpecialFunctions.Complex.LogBounds
namespace Statrs.Props.C07
open Statrs Statrs.Gen Statrs.Spec

/-! ### DiscreteUniform(a, b) -/
section discreteUniform
variable (d : DiscreteUniform)

theorem discreteUniform_mean_pin :
    DiscreteUniform.mean (α := ℝ) d = some (Moments.DiscreteUniform.mean d.f_min d.f_max) := by
  unfold DiscreteUniform.mean Moments.DiscreteUniform.mean; rfun_norm; norm_num

theorem discreteUniform_variance_pin :
    DiscreteUniform.variance (α := ℝ) d
      = some (Moments.DiscreteUniform.variance d.f_min d.f_max) := by
  unfold DiscreteUniform.variance Moments.DiscreteUniform.variance; rfun_norm
  simp only [Option.some.injEq]; push_cast; norm_num; ring

theorem discreteUniform_std_dev_pin :
    DiscreteUniform.std_dev (α := ℝ) d
      = some (Real.sqrt (Moments.DiscreteUniform.variance d.f_min d.f_max)) := by
  unfold DiscreteUniform.std_dev; rw [discreteUniform_variance_pin]; rfl

theorem discreteUniform_skewness_pin :
    DiscreteUniform.skewness (α := ℝ) d = some Moments.DiscreteUniform.skewness := by
  unfold DiscreteUniform.skewness Moments.DiscreteUniform.skewness; norm_num

theorem discreteUniform_entropy_pin :
    DiscreteUniform.entropy (α := ℝ) d
      = some (Moments.DiscreteUniform.entropy d.f_min d.f_max) := by
  unfold DiscreteUniform.entropy Moments.DiscreteUniform.entropy; rfun_norm
  simp only [Option.some.injEq]; push_cast; norm_num

example : ∃ d : DiscreteUniform, d.f_min ≤ d.f_max := ⟨⟨-2, 5⟩, by decide⟩
end discreteUniform

/-! ### Gamma(shape k, rate λ) -/
section gamma
variable (d : Gamma ℝ)

theorem gamma_mean_pin : Gamma.mean d = some (Moments.Gamma.mean d.f_shape d.f_rate) := rfl

theorem gamma_variance_pin :
    Gamma.variance d = some (Moments.Gamma.variance d.f_shape d.f_rate) := by
  unfold Gamma.variance Moments.Gamma.variance; simp only [Option.some.injEq]; ring

theorem gamma_std_dev_pin :
    Gamma.std_dev d = some (Real.sqrt (Moments.Gamma.variance d.f_shape d.f_rate)) := by
  unfold Gamma.std_dev; rw [gamma_variance_pin]; rfl

theorem gamma_skewness_pin : Gamma.skewness d = some (Moments.Gamma.skewness d.f_shape) := by
  unfold Gamma.skewness Moments.Gamma.skewness; rfun_norm; norm_num

theorem gamma_entropy_pin [SF ℝ] :
    Gamma.entropy d = some (Moments.Gamma.entropy d.f_shape d.f_rate) := by
  unfold Gamma.entropy Moments.Gamma.entropy; rfun_norm; norm_num

example : ∃ d : Gamma ℝ, 0 < d.f_shape ∧ 0 < d.f_rate := ⟨⟨2, 3⟩, by norm_num⟩
end gamma

/-! ### Erlang(k, λ) = Gamma(k, λ) -/
section erlang
variable (d : Erlang ℝ)

theorem erlang_mean_pin : Erlang.mean d = some (Moments.Erlang.mean d.f_g.f_shape d.f_g.f_rate) :=
  rfl

theorem erlang_variance_pin :
    Erlang.variance d = some (Moments.Erlang.variance d.f_g.f_shape d.f_g.f_rate) := by
  unfold Erlang.variance Gamma.variance Moments.Erlang.variance
  simp only [Option.some.injEq]; ring

theorem erlang_std_dev_pin :
    Erlang.std_dev d = some (Real.sqrt (Moments.Erlang.variance d.f_g.f_shape d.f_g.f_rate)) := by
  unfold Erlang.std_dev; rw [erlang_variance_pin]; rfl

theorem erlang_skewness_pin : Erlang.skewness d = some (Moments.Erlang.skewness d.f_g.f_shape) := by
  unfold Erlang.skewness Gamma.skewness Moments.Erlang.skewness; rfun_norm; norm_num

theorem erlang_entropy_pin [SF ℝ] :
    Erlang.entropy d = some (Moments.Erlang.entropy d.f_g.f_shape d.f_g.f_rate) := by
  unfold Erlang.entropy Gamma.entropy Moments.Erlang.entropy; rfun_norm
  simp only [Option.some.injEq]; norm_num; ring

example : ∃ d : Erlang ℝ, 0 < d.f_g.f_shape ∧ 0 < d.f_g.f_rate := ⟨⟨⟨2, 3⟩⟩, by norm_num⟩
end erlang

/-! ### Exp(λ) -/
section exp
variable (d : Exp ℝ)

theorem exp_mean_pin : Exp.mean d = some (Moments.Exp.mean d.f_rate) := by
  unfold Exp.mean Moments.Exp.mean; norm_num

theorem exp_variance_pin : Exp.variance d = some (Moments.Exp.variance d.f_rate) := by
  unfold Exp.variance Moments.Exp.variance; norm_num; ring

theorem exp_std_dev_pin : Exp.std_dev d = some (Real.sqrt (Moments.Exp.variance d.f_rate)) := by
  unfold Exp.std_dev; rw [exp_variance_pin]; rfl

theorem exp_skewness_pin : Exp.skewness d = some Moments.Exp.skewness := by
  unfold Exp.skewness Moments.Exp.skewness; norm_num

theorem exp_entropy_pin : Exp.entropy d = some (Moments.Exp.entropy d.f_rate) := by
  unfold Exp.entropy Moments.Exp.entropy; rfun_norm; norm_num

example : ∃ d : Exp ℝ, 0 < d.f_rate := ⟨⟨2⟩, by norm_num⟩
end exp

/-! ### FisherSnedecor(d₁, d₂) -/
section fisherSnedecor
variable (d : FisherSnedecor ℝ)

theorem fisherSnedecor_mean_pin (h : 2 < d.f_freedom_2) :
    FisherSnedecor.mean d = some (Moments.FisherSnedecor.mean d.f_freedom_2) := by
  unfold FisherSnedecor.mean Moments.FisherSnedecor.mean; norm_num; intro h'; linarith

theorem fisherSnedecor_mean_none_pin (h : d.f_freedom_2 ≤ 2) : FisherSnedecor.mean d = none := by
  unfold FisherSnedecor.mean
  have : d.f_freedom_2 ≤ (2.0 : ℝ) := by norm_num; exact h
  rw [if_pos this]

theorem fisherSnedecor_variance_pin (h : 4 < d.f_freedom_2) :
    FisherSnedecor.variance d
      = some (Moments.FisherSnedecor.variance d.f_freedom_1 d.f_freedom_2) := by
  unfold FisherSnedecor.variance Moments.FisherSnedecor.variance
  have : ¬ d.f_freedom_2 ≤ (4.0 : ℝ) := by norm_num; exact h
  rw [if_neg this]; norm_num; ring

theorem fisherSnedecor_variance_none_pin (h : d.f_freedom_2 ≤ 4) :
    FisherSnedecor.variance d = none := by
  unfold FisherSnedecor.variance
  have : d.f_freedom_2 ≤ (4.0 : ℝ) := by norm_num; exact h
  rw [if_pos this]

theorem fisherSnedecor_std_dev_pin (h : 4 < d.f_freedom_2) :
    FisherSnedecor.std_dev d
      = some (Real.sqrt (Moments.FisherSnedecor.variance d.f_freedom_1 d.f_freedom_2)) := by
  unfold FisherSnedecor.std_dev; rw [fisherSnedecor_variance_pin d h]; rfl

theorem fisherSnedecor_skewness_pin (h : 6 < d.f_freedom_2) :
    FisherSnedecor.skewness d
      = some (Moments.FisherSnedecor.skewness d.f_freedom_1 d.f_freedom_2) := by
  unfold FisherSnedecor.skewness Moments.FisherSnedecor.skewness
  have : ¬ d.f_freedom_2 ≤ (6.0 : ℝ) := by norm_num; exact h
  rw [if_neg this]; rfun_norm; norm_num

theorem fisherSnedecor_skewness_none_pin (h : d.f_freedom_2 ≤ 6) :
    FisherSnedecor.skewness d = none := by
  unfold FisherSnedecor.skewness
  have : d.f_freedom_2 ≤ (6.0 : ℝ) := by norm_num; exact h
  rw [if_pos this]

/-- not reported, although the F distribution has a finite differential entropy -/
theorem fisherSnedecor_entropy_none_pin : FisherSnedecor.entropy d = none := rfl

example : ∃ d : FisherSnedecor ℝ, 0 < d.f_freedom_1 ∧ 6 < d.f_freedom_2 := ⟨⟨3, 7⟩, by norm_num⟩
end fisherSnedecor

/-! ### Geometric(p) on {1, 2, …} -/
section geometric
variable (d : Geometric ℝ)

theorem geometric_mean_pin : Geometric.mean d = some (Moments.Geometric.mean d.f_p) := by
  unfold Geometric.mean Moments.Geometric.mean; norm_num

theorem geometric_variance_pin :
    Geometric.variance d = some (Moments.Geometric.variance d.f_p) := by
  unfold Geometric.variance Moments.Geometric.variance; norm_num; ring

theorem geometric_std_dev_pin :
    Geometric.std_dev d = some (Real.sqrt (Moments.Geometric.variance d.f_p)) := by
  unfold Geometric.std_dev; rw [geometric_variance_pin]; rfl

/-- `p ≠ 1` -/
theorem geometric_skewness_pin (h : d.f_p ≠ 1) :
    Geometric.skewness d = some (Moments.Geometric.skewness d.f_p) := by
  unfold Geometric.skewness Moments.Geometric.skewness; rfun_norm
  have : ¬ decide (d.f_p = (1.0 : ℝ)) = true := by norm_num; exact h
  rw [if_neg this]; norm_num

/-- `p = 1` (point mass at 1): the code answers `+∞` (a junk value over ℝ; the branch and its
    trigger `p = 1` are what is pinned) -/
theorem geometric_skewness_one_pin (h : d.f_p = 1) :
    Geometric.skewness d = some (RFun.inf : ℝ) := by
  unfold Geometric.skewness; rfun_norm
  have : decide (d.f_p = (1.0 : ℝ)) = true := by norm_num; exact h
  rw [if_pos this]

/-- what `Geometric.entropy` computes: the textbook entropy in BITS,
    `(−(1−p) log₂(1−p) − p log₂ p)/p`, for `0 < p < 1` -/
theorem geometric_entropy_bits_pin (h0 : 0 < d.f_p) (h1 : d.f_p < 1) :
    Geometric.entropy d = some (Moments.Geometric.entropyBits d.f_p) := by
  unfold Geometric.entropy Moments.Geometric.entropyBits Moments.Geometric.entropy; rfun_norm
  simp only [Option.some.injEq]
  have hq : (0 : ℝ) < 1 - d.f_p := by linarith
  have hl2 : Real.log 2 ≠ 0 := (Real.log_pos (by norm_num)).ne'
  have hlog : Real.log ((1.0 : ℝ) / d.f_p - (1.0 : ℝ)) = Real.log (1 - d.f_p) - Real.log d.f_p := by
    rw [← Real.log_div hq.ne' h0.ne']; congr 1; field_simp; norm_num
  rw [hlog]; norm_num
  field_simp; ring

/-- FALSE for the model: the entropy in nats.  Witness p = 1/2: the code returns `2` (bits),
    the textbook value is `2 ln 2` nats. -/
theorem geometric_entropy_counterexample :
    Geometric.entropy (⟨1 / 2⟩ : Geometric ℝ) ≠ some (Moments.Geometric.entropy (1 / 2)) := by
  rw [geometric_entropy_bits_pin _ (by norm_num) (by norm_num)]
  unfold Moments.Geometric.entropyBits Moments.Geometric.entropy
  simp only [ne_eq, Option.some.injEq]
  have hl2 : 0 < Real.log 2 := Real.log_pos (by norm_num)
  have hlt : Real.log 2 < 1 := by
    have := Real.log_two_lt_d9; linarith
  have hhalf : Real.log (1 / 2 : ℝ) = -Real.log 2 := by rw [one_div, Real.log_inv]
  have h12 : (1 : ℝ) - 1 / 2 = 1 / 2 := by norm_num
  rw [h12, hhalf]
  intro h
  have h' : (2 : ℝ) * Real.log 2 / Real.log 2 = 2 * Real.log 2 := by
    have e : (-(1 / 2) * -Real.log 2 - 1 / 2 * -Real.log 2) / (1 / 2) = 2 * Real.log 2 := by ring
    rw [e] at h; exact h
  rw [mul_div_assoc, div_self hl2.ne'] at h'
  linarith

example : ∃ d : Geometric ℝ, 0 < d.f_p ∧ d.f_p < 1 := ⟨⟨1 / 2⟩, by norm_num⟩
end geometric

/-! ### Gumbel(μ, β) -/
section gumbel
variable (d : Gumbel ℝ)

theorem gumbel_mean_pin : Gumbel.mean d = some (Moments.Gumbel.mean d.f_location d.f_scale) := by
  unfold Gumbel.mean Moments.Gumbel.mean; rfun_norm

theorem gumbel_variance_pin : Gumbel.variance d = some (Moments.Gumbel.variance d.f_scale) := by
  unfold Gumbel.variance Moments.Gumbel.variance; rfun_norm; norm_num; ring

/-- `std_dev` is overridden: `βπ/√6` -/
theorem gumbel_std_dev_pin : Gumbel.std_dev d = some (Moments.Gumbel.stdDev d.f_scale) := by
  unfold Gumbel.std_dev Moments.Gumbel.stdDev; rfun_norm; norm_num

/-- the override agrees with `√variance` for `β ≥ 0` -/
theorem gumbel_std_dev_eq_sqrt_variance (h : 0 ≤ d.f_scale) :
    Moments.Gumbel.stdDev d.f_scale = Real.sqrt (Moments.Gumbel.variance d.f_scale) := by
  unfold Moments.Gumbel.stdDev Moments.Gumbel.variance
  have h6 : (0 : ℝ) < Real.sqrt 6 := Real.sqrt_pos.mpr (by norm_num)
  have hnn : 0 ≤ d.f_scale * Real.pi / Real.sqrt 6 := by positivity
  rw [← Real.sqrt_sq hnn]; congr 1
  rw [div_pow, Real.sq_sqrt (by norm_num : (0 : ℝ) ≤ 6)]; ring

/-- the code returns the decimal literal `1.13955`; the textbook value
    `Moments.Gumbel.skewness = 12√6 ζ(3)/π³ = 1.1395470994…` differs from it by ≈ 3·10⁻⁶
    (not proved here: it needs 7-digit bounds on ζ(3) and π³). -/
theorem gumbel_skewness_literal_pin :
    Gumbel.skewness d = some Moments.Gumbel.skewnessLiteral := by
  unfold Gumbel.skewness Moments.Gumbel.skewnessLiteral; norm_num

theorem gumbel_entropy_pin : Gumbel.entropy d = some (Moments.Gumbel.entropy d.f_scale) := by
  unfold Gumbel.entropy Moments.Gumbel.entropy; rfun_norm
  simp only [Option.some.injEq]; norm_num; ring

example : ∃ d : Gumbel ℝ, 0 < d.f_scale := ⟨⟨0, 1⟩, by norm_num⟩
end gumbel

end Statrs.Props.C07
