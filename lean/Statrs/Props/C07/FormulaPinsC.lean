/-
  C07 (formula pins, part C) — Hypergeometric, InverseGamma, Laplace, Levy, LogNormal,
  NegativeBinomial, Normal.  See `FormulaPinsA.lean` for the conventions.

  Notes:
  * `Levy.entropy` adds `ln c` to a decimal literal standing for `(1 + 3γ + ln 16π)/2`
    (`levy_entropy_literal_pin` pins every digit; `levy_entropy_spec_split` shows that the textbook
    value has exactly the shape `const + ln c`; the closeness of the literal to the constant is not
    proved — Mathlib only knows `1/2 < γ < 2/3`).  `Levy.mean/variance/std_dev` return `+∞`
    (a junk value over ℝ — only the branch is pinned), `Levy.skewness` is `none`.
  * `Hypergeometric.entropy`, `NegativeBinomial.entropy` are `none` (no closed form).
-/
import Statrs.Real.Simp
import Statrs.Spec.Moments
import Statrs.Gen.D_hypergeometric
import Statrs.Gen.D_inverse_gamma
import Statrs.Gen.D_laplace
import Statrs.Gen.D_levy
import Statrs.Gen.D_log_normal
import Statrs.Gen.D_negative_binomial
import Statrs.Gen.D_normal
import Mathlib.Tactic
namespace Statrs.Props.C07
open Statrs Statrs.Gen Statrs.Spec

/-! ### Hypergeometric(N, K, n) -/
section hypergeometric
variable (d : Hypergeometric)

theorem hypergeometric_mean_pin (h : d.f_population ≠ 0) :
    Hypergeometric.mean (α := ℝ) d
      = some (Moments.Hypergeometric.mean d.f_population d.f_successes d.f_draws) := by
  unfold Hypergeometric.mean Moments.Hypergeometric.mean; rw [if_neg h]; rfun_norm
  simp only [Option.some.injEq]; ring

theorem hypergeometric_mean_none_pin (h : d.f_population = 0) :
    Hypergeometric.mean (α := ℝ) d = none := by
  unfold Hypergeometric.mean; rw [if_pos h]

theorem hypergeometric_variance_pin (h : 1 < d.f_population) :
    Hypergeometric.variance (α := ℝ) d
      = some (Moments.Hypergeometric.variance d.f_population d.f_successes d.f_draws) := by
  unfold Hypergeometric.variance Hypergeometric.values_f64 Moments.Hypergeometric.variance
  rw [if_neg (not_le.mpr h)]; rfun_norm
  simp only [Option.some.injEq]
  have h1 : (1 : ℝ) < d.f_population := by exact_mod_cast h
  have hN : (d.f_population : ℝ) ≠ 0 := by linarith
  have hN1 : (d.f_population : ℝ) - 1 ≠ 0 := by linarith
  norm_num
  field_simp

theorem hypergeometric_variance_none_pin (h : d.f_population ≤ 1) :
    Hypergeometric.variance (α := ℝ) d = none := by
  unfold Hypergeometric.variance; rw [if_pos h]

theorem hypergeometric_std_dev_pin (h : 1 < d.f_population) :
    Hypergeometric.std_dev (α := ℝ) d = some (Real.sqrt
      (Moments.Hypergeometric.variance d.f_population d.f_successes d.f_draws)) := by
  unfold Hypergeometric.std_dev; rw [hypergeometric_variance_pin d h]; rfl

theorem hypergeometric_skewness_pin (h : 2 < d.f_population) :
    Hypergeometric.skewness (α := ℝ) d
      = some (Moments.Hypergeometric.skewness d.f_population d.f_successes d.f_draws) := by
  unfold Hypergeometric.skewness Hypergeometric.values_f64 Moments.Hypergeometric.skewness
  rw [if_neg (not_le.mpr h)]; rfun_norm
  simp only [Option.some.injEq]
  norm_num
  ring

theorem hypergeometric_skewness_none_pin (h : d.f_population ≤ 2) :
    Hypergeometric.skewness (α := ℝ) d = none := by
  unfold Hypergeometric.skewness; rw [if_pos h]

theorem hypergeometric_entropy_none_pin : Hypergeometric.entropy (α := ℝ) d = none := rfl

example : ∃ d : Hypergeometric, d.f_successes ≤ d.f_population ∧ d.f_draws ≤ d.f_population ∧
    2 < d.f_population := ⟨⟨10, 4, 3⟩, by decide⟩
end hypergeometric

/-! ### InverseGamma(α, β) -/
section inverseGamma
variable (d : InverseGamma ℝ)

theorem inverseGamma_mean_pin (h : 1 < d.f_shape) :
    InverseGamma.mean d = some (Moments.InverseGamma.mean d.f_shape d.f_rate) := by
  unfold InverseGamma.mean Moments.InverseGamma.mean
  have : ¬ d.f_shape ≤ (1.0 : ℝ) := by norm_num; exact h
  rw [if_neg this]; norm_num

theorem inverseGamma_mean_none_pin (h : d.f_shape ≤ 1) : InverseGamma.mean d = none := by
  unfold InverseGamma.mean
  have : d.f_shape ≤ (1.0 : ℝ) := by norm_num; exact h
  rw [if_pos this]

theorem inverseGamma_variance_pin (h : 2 < d.f_shape) :
    InverseGamma.variance d = some (Moments.InverseGamma.variance d.f_shape d.f_rate) := by
  unfold InverseGamma.variance Moments.InverseGamma.variance
  have : ¬ d.f_shape ≤ (2.0 : ℝ) := by norm_num; exact h
  rw [if_neg this]; norm_num; ring

theorem inverseGamma_variance_none_pin (h : d.f_shape ≤ 2) : InverseGamma.variance d = none := by
  unfold InverseGamma.variance
  have : d.f_shape ≤ (2.0 : ℝ) := by norm_num; exact h
  rw [if_pos this]

theorem inverseGamma_std_dev_pin (h : 2 < d.f_shape) :
    InverseGamma.std_dev d
      = some (Real.sqrt (Moments.InverseGamma.variance d.f_shape d.f_rate)) := by
  unfold InverseGamma.std_dev; rw [inverseGamma_variance_pin d h]; rfl

theorem inverseGamma_skewness_pin (h : 3 < d.f_shape) :
    InverseGamma.skewness d = some (Moments.InverseGamma.skewness d.f_shape) := by
  unfold InverseGamma.skewness Moments.InverseGamma.skewness
  have : ¬ d.f_shape ≤ (3.0 : ℝ) := by norm_num; exact h
  rw [if_neg this]; rfun_norm; norm_num

theorem inverseGamma_skewness_none_pin (h : d.f_shape ≤ 3) : InverseGamma.skewness d = none := by
  unfold InverseGamma.skewness
  have : d.f_shape ≤ (3.0 : ℝ) := by norm_num; exact h
  rw [if_pos this]

theorem inverseGamma_entropy_pin [SF ℝ] :
    InverseGamma.entropy d = some (Moments.InverseGamma.entropy d.f_shape d.f_rate) := by
  unfold InverseGamma.entropy Moments.InverseGamma.entropy; rfun_norm; norm_num

example : ∃ d : InverseGamma ℝ, 3 < d.f_shape ∧ 0 < d.f_rate := ⟨⟨4, 1⟩, by norm_num⟩
end inverseGamma

/-! ### Laplace(μ, b) -/
section laplace
variable (d : Laplace ℝ)

theorem laplace_mean_pin : Laplace.mean d = some (Moments.Laplace.mean d.f_location) := rfl

theorem laplace_variance_pin : Laplace.variance d = some (Moments.Laplace.variance d.f_scale) := by
  unfold Laplace.variance Moments.Laplace.variance; norm_num; ring

theorem laplace_std_dev_pin :
    Laplace.std_dev d = some (Real.sqrt (Moments.Laplace.variance d.f_scale)) := by
  unfold Laplace.std_dev; rw [laplace_variance_pin]; rfl

theorem laplace_skewness_pin : Laplace.skewness d = some Moments.Laplace.skewness := by
  unfold Laplace.skewness Moments.Laplace.skewness; norm_num

theorem laplace_entropy_pin (h : 0 < d.f_scale) :
    Laplace.entropy d = some (Moments.Laplace.entropy d.f_scale) := by
  unfold Laplace.entropy Moments.Laplace.entropy; rfun_norm
  simp only [Option.some.injEq]
  rw [Real.log_mul (by positivity) (Real.exp_pos 1).ne', Real.log_exp]; norm_num

example : ∃ d : Laplace ℝ, 0 < d.f_scale := ⟨⟨0, 1⟩, by norm_num⟩
end laplace

/-! ### Levy(μ, c) -/
section levy
variable (d : Levy ℝ)

/-- mean, variance, std_dev: the `+∞` branch (junk value over ℝ); skewness: `none` -/
theorem levy_moments_pin :
    Levy.mean d = some (RFun.inf : ℝ) ∧ Levy.variance d = some (RFun.inf : ℝ) ∧
      Levy.std_dev d = some (RFun.inf : ℝ) ∧ Levy.skewness d = none := ⟨rfl, rfl, rfl, rfl⟩

/-- the code: decimal literal (all 49 digits pinned) `+ ln c` -/
theorem levy_entropy_literal_pin :
    Levy.entropy d = some (Moments.Levy.entropyConstLiteral + Real.log d.f_c) := by
  unfold Levy.entropy Moments.Levy.entropyConstLiteral; rfun_norm

/-- the textbook entropy `(1 + 3γ + ln(16πc²))/2` is `(1 + 3γ + ln 16π)/2 + ln c`: the code has
    the textbook shape, with the constant replaced by the literal -/
theorem levy_entropy_spec_split (h : 0 < d.f_c) :
    Moments.Levy.entropy d.f_c = Moments.Levy.entropyConst + Real.log d.f_c := by
  unfold Moments.Levy.entropy Moments.Levy.entropyConst
  rw [Real.log_mul (by positivity) (by positivity), Real.log_pow]; push_cast; ring

example : ∃ d : Levy ℝ, 0 < d.f_c := ⟨⟨0, 1⟩, by norm_num⟩
end levy

/-! ### LogNormal(μ, σ) -/
section logNormal
variable (d : LogNormal ℝ)

theorem logNormal_mean_pin :
    LogNormal.mean d = some (Moments.LogNormal.mean d.f_location d.f_scale) := by
  unfold LogNormal.mean Moments.LogNormal.mean; rfun_norm
  simp only [Option.some.injEq]; norm_num; ring_nf

theorem logNormal_variance_pin :
    LogNormal.variance d = some (Moments.LogNormal.variance d.f_location d.f_scale) := by
  unfold LogNormal.variance Moments.LogNormal.variance; rfun_norm
  simp only [Option.some.injEq]; norm_num; ring_nf

theorem logNormal_std_dev_pin :
    LogNormal.std_dev d
      = some (Real.sqrt (Moments.LogNormal.variance d.f_location d.f_scale)) := by
  unfold LogNormal.std_dev; rw [logNormal_variance_pin]; rfl

theorem logNormal_skewness_pin :
    LogNormal.skewness d = some (Moments.LogNormal.skewness d.f_scale) := by
  unfold LogNormal.skewness Moments.LogNormal.skewness; rfun_norm
  simp only [Option.some.injEq]; norm_num; ring_nf

theorem logNormal_entropy_pin (h : 0 < d.f_scale) :
    LogNormal.entropy d = some (Moments.LogNormal.entropy d.f_location d.f_scale) := by
  unfold LogNormal.entropy Moments.LogNormal.entropy; rfun_norm
  simp only [Option.some.injEq]
  have hs : (0 : ℝ) < Real.sqrt (2 * Real.pi) := Real.sqrt_pos.mpr (by positivity)
  rw [Real.log_mul (by positivity) hs.ne', Real.log_mul h.ne' (Real.exp_pos _).ne', Real.log_exp]
  norm_num; ring

example : ∃ d : LogNormal ℝ, 0 < d.f_scale := ⟨⟨0, 1⟩, by norm_num⟩
end logNormal

/-! ### NegativeBinomial(r, p) -/
section negativeBinomial
variable (d : NegativeBinomial ℝ)

theorem negativeBinomial_mean_pin :
    NegativeBinomial.mean d = some (Moments.NegativeBinomial.mean d.f_r d.f_p) := by
  unfold NegativeBinomial.mean Moments.NegativeBinomial.mean; norm_num

theorem negativeBinomial_variance_pin :
    NegativeBinomial.variance d = some (Moments.NegativeBinomial.variance d.f_r d.f_p) := by
  unfold NegativeBinomial.variance Moments.NegativeBinomial.variance; norm_num; ring

theorem negativeBinomial_std_dev_pin :
    NegativeBinomial.std_dev d
      = some (Real.sqrt (Moments.NegativeBinomial.variance d.f_r d.f_p)) := by
  unfold NegativeBinomial.std_dev; rw [negativeBinomial_variance_pin]; rfl

theorem negativeBinomial_skewness_pin :
    NegativeBinomial.skewness d = some (Moments.NegativeBinomial.skewness d.f_r d.f_p) := by
  unfold NegativeBinomial.skewness Moments.NegativeBinomial.skewness; rfun_norm; norm_num

theorem negativeBinomial_entropy_none_pin : NegativeBinomial.entropy d = none := rfl

example : ∃ d : NegativeBinomial ℝ, 0 ≤ d.f_r ∧ 0 ≤ d.f_p ∧ d.f_p ≤ 1 :=
  ⟨⟨3, 1 / 2⟩, by norm_num⟩
end negativeBinomial

/-! ### Normal(μ, σ) -/
section normal
variable (d : Normal ℝ)

theorem normal_mean_pin : Normal.mean d = some (Moments.Normal.mean d.f_mean) := rfl

theorem normal_variance_pin : Normal.variance d = some (Moments.Normal.variance d.f_std_dev) := by
  unfold Normal.variance Moments.Normal.variance; simp only [Option.some.injEq]; ring

/-- `std_dev` is overridden: the stored `σ` -/
theorem normal_std_dev_pin : Normal.std_dev d = some (Moments.Normal.stdDev d.f_std_dev) := rfl

theorem normal_skewness_pin : Normal.skewness d = some Moments.Normal.skewness := by
  unfold Normal.skewness Moments.Normal.skewness; norm_num

theorem normal_entropy_pin (h : 0 < d.f_std_dev) :
    Normal.entropy d = some (Moments.Normal.entropy d.f_std_dev) := by
  unfold Normal.entropy Moments.Normal.entropy; rfun_norm
  simp only [Option.some.injEq]
  have h2 : (0 : ℝ) < 2 * Real.pi * Real.exp 1 := by positivity
  rw [Real.log_sqrt h2.le, Real.log_mul h2.ne' (by positivity), Real.log_pow]
  push_cast; ring

example : ∃ d : Normal ℝ, 0 < d.f_std_dev := ⟨⟨0, 1⟩, by norm_num⟩
end normal

end Statrs.Props.C07
