/-
  C07 (formula pins, part D) — Pareto, Poisson, StudentsT, Triangular, Uniform, Weibull.
  See `FormulaPinsA.lean` for the conventions.

  Disagreements with the textbook found here (each with the pin of what the code DOES compute and a
  `_counterexample` against the textbook value):
  * `Pareto.entropy` has the wrong sign: it returns `ln(α/x_m) − 1/α − 1 = −(ln(x_m/α) + 1/α + 1)`
    (`pareto_entropy_neg_pin`, `pareto_entropy_counterexample`: x_m = α = 1 gives −2, textbook 2).
  * `Poisson.entropy` is the large-λ series `½ln(2πeλ) − 1/(12λ) − 1/(24λ²) − 19/(360λ³)` for
    EVERY λ, no threshold (`poisson_entropy_series_pin`); `poisson_entropy_counterexample`:
    λ = 1/10 gives a negative number (< −50) whereas the Shannon entropy `−Σ P ln P` is ≥ 0.
  (`StudentsT.entropy` used to shift by `−ln σ`; fixed in the source, now the positive pin
  `studentsT_entropy_pin`: `entropy = h(t_ν) + ln σ`.)
-/
import Statrs.Real.Simp
import Statrs.Spec.Moments
import Statrs.Gen.D_pareto
import Statrs.Gen.D_poisson
import Statrs.Gen.D_students_t
import Statrs.Gen.D_triangular
import Statrs.Gen.D_uniform
import Statrs.Gen.D_weibull
import Mathlib.Tactic
import Mathlib.Analysis.SpecialFunctions.Exponential
import Mathlib.Analysis.SpecialFunctions.Complex.LogBounds
namespace Statrs.Props.C07
open Statrs Statrs.Gen Statrs.Spec

/-! ### Pareto(x_m, α) -/
section pareto
variable (d : Pareto ℝ)

theorem pareto_mean_pin (h : 1 < d.f_shape) :
    Pareto.mean d = some (Moments.Pareto.mean d.f_scale d.f_shape) := by
  unfold Pareto.mean Moments.Pareto.mean
  have : ¬ d.f_shape ≤ (1.0 : ℝ) := by norm_num; exact h
  rw [if_neg this]; norm_num

theorem pareto_mean_none_pin (h : d.f_shape ≤ 1) : Pareto.mean d = none := by
  unfold Pareto.mean
  have : d.f_shape ≤ (1.0 : ℝ) := by norm_num; exact h
  rw [if_pos this]

theorem pareto_variance_pin (h : 2 < d.f_shape) :
    Pareto.variance d = some (Moments.Pareto.variance d.f_scale d.f_shape) := by
  unfold Pareto.variance Moments.Pareto.variance
  have : ¬ d.f_shape ≤ (2.0 : ℝ) := by norm_num; exact h
  rw [if_neg this]
  have h1 : d.f_shape - 1 ≠ 0 := by linarith
  have h2 : d.f_shape - 2 ≠ 0 := by linarith
  norm_num; field_simp

theorem pareto_variance_none_pin (h : d.f_shape ≤ 2) : Pareto.variance d = none := by
  unfold Pareto.variance
  have : d.f_shape ≤ (2.0 : ℝ) := by norm_num; exact h
  rw [if_pos this]

theorem pareto_std_dev_pin (h : 2 < d.f_shape) :
    Pareto.std_dev d = some (Real.sqrt (Moments.Pareto.variance d.f_scale d.f_shape)) := by
  unfold Pareto.std_dev; rw [pareto_variance_pin d h]; rfl

theorem pareto_skewness_pin (h : 3 < d.f_shape) :
    Pareto.skewness d = some (Moments.Pareto.skewness d.f_shape) := by
  unfold Pareto.skewness Moments.Pareto.skewness
  have : ¬ d.f_shape ≤ (3.0 : ℝ) := by norm_num; exact h
  rw [if_neg this]; rfun_norm; norm_num; left; ring

theorem pareto_skewness_none_pin (h : d.f_shape ≤ 3) : Pareto.skewness d = none := by
  unfold Pareto.skewness
  have : d.f_shape ≤ (3.0 : ℝ) := by norm_num; exact h
  rw [if_pos this]

/-- what `Pareto.entropy` computes: MINUS the textbook entropy -/
theorem pareto_entropy_neg_pin (hs : 0 < d.f_scale) (ha : 0 < d.f_shape) :
    Pareto.entropy d = some (-(Moments.Pareto.entropy d.f_scale d.f_shape)) := by
  unfold Pareto.entropy Moments.Pareto.entropy; rfun_norm
  simp only [Option.some.injEq]
  rw [Real.log_div hs.ne' ha.ne']; norm_num; ring

/-- FALSE for the model: `Pareto.entropy = ln(x_m/α) + 1/α + 1`.  Witness x_m = 1, α = 1:
    the code returns −2, the textbook entropy is 2. -/
theorem pareto_entropy_counterexample :
    Pareto.entropy (⟨1, 1⟩ : Pareto ℝ) ≠ some (Moments.Pareto.entropy 1 1) := by
  rw [pareto_entropy_neg_pin _ (by norm_num) (by norm_num)]
  unfold Moments.Pareto.entropy
  norm_num

example : ∃ d : Pareto ℝ, 0 < d.f_scale ∧ 3 < d.f_shape := ⟨⟨1, 4⟩, by norm_num⟩
end pareto

/-! ### Poisson(λ) -/
section poisson
variable (d : Poisson ℝ)

theorem poisson_mean_pin : Poisson.mean d = some (Moments.Poisson.mean d.f_lambda) := rfl
theorem poisson_variance_pin : Poisson.variance d = some (Moments.Poisson.variance d.f_lambda) :=
  rfl
theorem poisson_std_dev_pin :
    Poisson.std_dev d = some (Real.sqrt (Moments.Poisson.variance d.f_lambda)) := by
  unfold Poisson.std_dev; rw [poisson_variance_pin]; rfl
theorem poisson_skewness_pin : Poisson.skewness d = some (Moments.Poisson.skewness d.f_lambda) := by
  unfold Poisson.skewness Moments.Poisson.skewness; rfun_norm; norm_num

/-- what `Poisson.entropy` computes, for EVERY λ (there is no threshold): the asymptotic series
    with coefficients `1/12, 1/24, 19/360` -/
theorem poisson_entropy_series_pin :
    Poisson.entropy d = some (Moments.Poisson.entropyAsymptotic d.f_lambda) := by
  unfold Poisson.entropy Moments.Poisson.entropyAsymptotic; rfun_norm
  simp only [Option.some.injEq]; norm_num; ring

/-- the Shannon entropy of Poisson(λ), λ ≥ 0, is nonnegative -/
theorem poisson_spec_entropy_nonneg (l : ℝ) (hl : 0 ≤ l) : 0 ≤ Moments.Poisson.entropy l := by
  unfold Moments.Poisson.entropy
  rw [neg_nonneg]
  apply tsum_nonpos
  intro k
  have hpos : 0 ≤ Moments.Poisson.pmf l k := by unfold Moments.Poisson.pmf; positivity
  have hle : Moments.Poisson.pmf l k ≤ 1 := by
    unfold Moments.Poisson.pmf
    have h1 := Real.pow_div_factorial_le_exp l hl k
    have h2 : Real.exp (-l) * l ^ k / (k.factorial : ℝ) = Real.exp (-l) * (l ^ k / k.factorial) := by
      ring
    rw [h2]
    calc Real.exp (-l) * (l ^ k / k.factorial) ≤ Real.exp (-l) * Real.exp l :=
          mul_le_mul_of_nonneg_left h1 (Real.exp_pos _).le
      _ = 1 := by rw [← Real.exp_add]; simp
  exact mul_nonpos_of_nonneg_of_nonpos hpos (Real.log_nonpos hpos hle)

/-- FALSE for the model: `Poisson.entropy = −Σ P(k) ln P(k)`.  Witness λ = 1/10: the series gives
    a value below −50, the entropy is ≥ 0. -/
theorem poisson_entropy_counterexample :
    Poisson.entropy (⟨1 / 10⟩ : Poisson ℝ) ≠ some (Moments.Poisson.entropy (1 / 10)) := by
  rw [poisson_entropy_series_pin]
  simp only [ne_eq, Option.some.injEq]
  intro h
  have hnn := poisson_spec_entropy_nonneg (1 / 10) (by norm_num)
  rw [← h] at hnn
  unfold Moments.Poisson.entropyAsymptotic at hnn
  have hx : (0 : ℝ) < 2 * Real.pi * Real.exp 1 * (1 / 10) := by positivity
  have hlog := Real.log_le_sub_one_of_pos hx
  have hpi := Real.pi_lt_d2
  have he := Real.exp_one_lt_d9
  have hpi0 := Real.pi_pos
  have he0 := Real.exp_pos 1
  have hprod : Real.pi * Real.exp 1 < 3.15 * 2.7182818286 := by
    apply mul_lt_mul'' hpi he hpi0.le he0.le
  norm_num at hnn hprod
  nlinarith

example : ∃ d : Poisson ℝ, 0 < d.f_lambda := ⟨⟨1 / 10⟩, by norm_num⟩
end poisson

/-! ### StudentsT(μ, σ, ν) -/
section studentsT
variable (d : StudentsT ℝ)

theorem studentsT_mean_pin (h : 1 < d.f_freedom) :
    StudentsT.mean d = some (Moments.StudentsT.mean d.f_location) := by
  unfold StudentsT.mean Moments.StudentsT.mean
  have : ¬ d.f_freedom ≤ (1.0 : ℝ) := by norm_num; exact h
  rw [if_neg this]

theorem studentsT_mean_none_pin (h : d.f_freedom ≤ 1) : StudentsT.mean d = none := by
  unfold StudentsT.mean
  have : d.f_freedom ≤ (1.0 : ℝ) := by norm_num; exact h
  rw [if_pos this]

theorem studentsT_variance_pin (h : 2 < d.f_freedom) :
    StudentsT.variance d = some (Moments.StudentsT.variance d.f_scale d.f_freedom) := by
  unfold StudentsT.variance Moments.StudentsT.variance; rfun_norm
  have : (2.0 : ℝ) < d.f_freedom := by norm_num; exact h
  simp only [Bool.false_eq_true, if_false, this, if_true, Option.some.injEq]
  norm_num; ring

/-- `ν ≤ 2` (finite): `none` (for `1 < ν ≤ 2` the true variance is `+∞`) -/
theorem studentsT_variance_none_pin (h : d.f_freedom ≤ 2) : StudentsT.variance d = none := by
  unfold StudentsT.variance; rfun_norm
  have : ¬ (2.0 : ℝ) < d.f_freedom := by norm_num; exact h
  simp only [Bool.false_eq_true, if_false, this]

theorem studentsT_std_dev_pin (h : 2 < d.f_freedom) :
    StudentsT.std_dev d
      = some (Real.sqrt (Moments.StudentsT.variance d.f_scale d.f_freedom)) := by
  unfold StudentsT.std_dev; rw [studentsT_variance_pin d h]; rfl

theorem studentsT_skewness_pin (h : 3 < d.f_freedom) :
    StudentsT.skewness d = some Moments.StudentsT.skewness := by
  unfold StudentsT.skewness Moments.StudentsT.skewness
  have : ¬ d.f_freedom ≤ (3.0 : ℝ) := by norm_num; exact h
  rw [if_neg this]; norm_num

theorem studentsT_skewness_none_pin (h : d.f_freedom ≤ 3) : StudentsT.skewness d = none := by
  unfold StudentsT.skewness
  have : d.f_freedom ≤ (3.0 : ℝ) := by norm_num; exact h
  rw [if_pos this]

/-- `StudentsT.entropy` is the textbook entropy `h(t_ν) + ln σ` (the standard-t entropy shifted by
    `+ ln σ`), for every parameter triple and every `SF ℝ`
    (`students_t.rs: let shift = self.scale.ln();` — the earlier `− ln σ` sign defect is fixed). -/
theorem studentsT_entropy_pin [SF ℝ] :
    StudentsT.entropy d = some (Moments.StudentsT.entropy d.f_scale d.f_freedom) := by
  unfold StudentsT.entropy Moments.StudentsT.entropy Moments.StudentsT.entropyStd; rfun_norm
  simp only [Bool.false_eq_true, if_false, Option.some.injEq]; norm_num

/-- the same pin in "standard entropy + shift" form -/
theorem studentsT_entropy_shift_pin [SF ℝ] :
    StudentsT.entropy d
      = some (Moments.StudentsT.entropyStd d.f_freedom + Real.log d.f_scale) :=
  studentsT_entropy_pin d

/-- instance at the formerly failing witness σ = 2, ν = 1 (location 0), for every `SF ℝ` -/
theorem studentsT_entropy_pin_instance [SF ℝ] :
    StudentsT.entropy (⟨0, 2, 1⟩ : StudentsT ℝ) = some (Moments.StudentsT.entropy 2 1) :=
  studentsT_entropy_pin _

example : ∃ d : StudentsT ℝ, 0 < d.f_scale ∧ 3 < d.f_freedom := ⟨⟨0, 1, 4⟩, by norm_num⟩

/-- `ν = ∞` (unreachable over ℝ, so stated for EVERY carrier, in particular IEEE `Float`): after the
    source fix `entropy` returns the Normal entropy `ln σ + ln √(2πe)`, the limit of `h(t_ν) + ln σ`
    (it used to evaluate `∞·(ψ(∞) − ψ(∞)) + …` = NaN). -/
theorem studentsT_entropy_inf_pin {α : Type} [Add α] [Sub α] [Mul α] [Div α] [Neg α] [LT α] [LE α]
    [BEq α] [DecidableLT α] [DecidableLE α] [OfScientific α] [Inhabited α] [RFun α] [SF α]
    (d : StudentsT α) (hinf : RFun.isInf d.f_freedom = true) :
    StudentsT.entropy d = some (RFun.ln d.f_scale + (RFun.c_LN_SQRT_2PIE : α)) := by
  unfold StudentsT.entropy; rw [if_pos hinf]
end studentsT

/-! ### Triangular(a, b, c) -/
section triangular
variable (d : Triangular ℝ)

theorem triangular_mean_pin :
    Triangular.mean d = some (Moments.Triangular.mean d.f_min d.f_max d.f_mode) := by
  unfold Triangular.mean Moments.Triangular.mean; norm_num

theorem triangular_variance_pin :
    Triangular.variance d = some (Moments.Triangular.variance d.f_min d.f_max d.f_mode) := by
  unfold Triangular.variance Moments.Triangular.variance
  simp only [Option.some.injEq]; norm_num; ring

theorem triangular_std_dev_pin :
    Triangular.std_dev d
      = some (Real.sqrt (Moments.Triangular.variance d.f_min d.f_max d.f_mode)) := by
  unfold Triangular.std_dev; rw [triangular_variance_pin]; rfl

theorem triangular_skewness_pin :
    Triangular.skewness d = some (Moments.Triangular.skewness d.f_min d.f_max d.f_mode) := by
  unfold Triangular.skewness Moments.Triangular.skewness; rfun_norm
  simp only [Option.some.injEq]
  have e : d.f_min * d.f_min + d.f_max * d.f_max + d.f_mode * d.f_mode - d.f_min * d.f_max
      - d.f_min * d.f_mode - d.f_max * d.f_mode
      = d.f_min ^ 2 + d.f_max ^ 2 + d.f_mode ^ 2 - d.f_min * d.f_max - d.f_min * d.f_mode
        - d.f_max * d.f_mode := by ring
  rw [e]; norm_num

theorem triangular_entropy_pin :
    Triangular.entropy d = some (Moments.Triangular.entropy d.f_min d.f_max) := by
  unfold Triangular.entropy Moments.Triangular.entropy; rfun_norm; norm_num

example : ∃ d : Triangular ℝ, d.f_min ≤ d.f_mode ∧ d.f_mode ≤ d.f_max ∧ d.f_min ≠ d.f_max :=
  ⟨⟨0, 2, 1⟩, by norm_num⟩
end triangular

/-! ### Uniform(a, b) -/
section uniform
variable (d : Uniform ℝ)

theorem uniform_mean_pin : Uniform.mean d = some (Moments.Uniform.mean d.f_min d.f_max) := by
  unfold Uniform.mean Moments.Uniform.mean; norm_num

theorem uniform_variance_pin :
    Uniform.variance d = some (Moments.Uniform.variance d.f_min d.f_max) := by
  unfold Uniform.variance Moments.Uniform.variance; norm_num; ring

theorem uniform_std_dev_pin :
    Uniform.std_dev d = some (Real.sqrt (Moments.Uniform.variance d.f_min d.f_max)) := by
  unfold Uniform.std_dev; rw [uniform_variance_pin]; rfl

theorem uniform_skewness_pin : Uniform.skewness d = some Moments.Uniform.skewness := by
  unfold Uniform.skewness Moments.Uniform.skewness; norm_num

theorem uniform_entropy_pin :
    Uniform.entropy d = some (Moments.Uniform.entropy d.f_min d.f_max) := by
  unfold Uniform.entropy Moments.Uniform.entropy; rfun_norm

example : ∃ d : Uniform ℝ, d.f_min < d.f_max := ⟨⟨0, 1⟩, by norm_num⟩
end uniform

/-! ### Weibull(k, λ) -/
section weibull
variable [SF ℝ] (d : Weibull ℝ)

theorem weibull_mean_pin : Weibull.mean d = some (Moments.Weibull.mean d.f_shape d.f_scale) := by
  unfold Weibull.mean Moments.Weibull.mean; norm_num

theorem weibull_variance_pin :
    Weibull.variance d = some (Moments.Weibull.variance d.f_shape d.f_scale) := by
  unfold Weibull.variance; rw [weibull_mean_pin]
  unfold Moments.Weibull.variance
  simp only [Option.some.injEq]; norm_num; ring

theorem weibull_std_dev_pin :
    Weibull.std_dev d = some (Real.sqrt (Moments.Weibull.variance d.f_shape d.f_scale)) := by
  unfold Weibull.std_dev; rw [weibull_variance_pin]; rfl

theorem weibull_skewness_pin :
    Weibull.skewness d = some (Moments.Weibull.skewness d.f_shape d.f_scale) := by
  unfold Weibull.skewness; rw [weibull_mean_pin, weibull_std_dev_pin]
  unfold Moments.Weibull.skewness
  simp only [Option.some.injEq]; norm_num; ring

omit [SF ℝ] in
theorem weibull_entropy_pin :
    Weibull.entropy d = some (Moments.Weibull.entropy d.f_shape d.f_scale) := by
  unfold Weibull.entropy Moments.Weibull.entropy; rfun_norm; norm_num

example : ∃ d : Weibull ℝ, 0 < d.f_shape ∧ 0 < d.f_scale := ⟨⟨2, 1, 1⟩, by norm_num⟩
end weibull

end Statrs.Props.C07
