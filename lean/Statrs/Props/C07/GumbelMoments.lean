/-
  C07 (moments derived from the density) — Gumbel(μ, β): the closed forms returned by `variance` and
  `std_dev` are the second central moment (and its square root) of the SAME object's generated `pdf`:
      variance = π²β²/6 = ∫ (x − m)² f(x) dx,   m = μ + γβ the returned mean (= ∫ x f, A5),
      std_dev  = βπ/√6 = √(∫ (x − m)² f).
  Method: the substitution `u = exp(−(x−μ)/β)` (`gumbel_integral_mul_pdf`, MomentIntegralsA5) turns the
  moments into `∫₀^∞ (ln u)^k e^{−u} du`, `k ≤ 2`; `∫₀^∞ (ln u)² e^{−u} du = Γ''(1) = γ² + π²/6` is
  proved in `Lemmas/GammaLogMoments.lean` from the trigamma series `ψ'(1) = Σ 1/n² = π²/6`
  (`Lemmas/Trigamma.lean`) — no premise is needed.
  Third moment: `∫₀^∞ (ln u)³ e^{−u} du = Γ'''(1) = −(γ³ + γπ²/2 + 2ζ(3))` (tetragamma series), hence the
  third central moment is `2ζ(3)β³` and the third standardised moment `12√6 ζ(3)/π³` for every
  `μ, β`; `Gumbel::skewness` returns the rounded literal `1.13955` for it.
  Carrier ℝ, constructor predicate `0 < β` as hypothesis.  full(ℝ): the pdf uses only `exp`.
-/
import Statrs.Real.Simp
import Statrs.Gen.D_gumbel
import Statrs.Lemmas.Related
import Statrs.Props.C07.MomentIntegralsA5
import Statrs.Props.C07.MomentIntegralsA6
import Statrs.Lemmas.GammaLogMoments
import Mathlib.Tactic
namespace Statrs.Props.C07
open Statrs Statrs.Gen Statrs.Lemmas.Related Statrs.Lemmas.GammaLogMoments
open MeasureTheory Set Filter Topology

section gumbel
variable (d : Gumbel ℝ) (h : 0 < d.f_scale)

include h in
/-- full(ℝ): `∫ (x − c)² f(x) dx = (μ − c)² + 2(μ − c)γβ + β²(γ² + π²/6)` for every centre `c`
    (all moments of the generated density up to order 2) -/
theorem gumbel_second_moment_about (c : ℝ) :
    ∫ x, (x - c) ^ 2 * Gumbel.pdf d x
      = (d.f_location - c) ^ 2 + 2 * (d.f_location - c) * (Real.eulerMascheroniConstant * d.f_scale)
        + d.f_scale ^ 2 * (Real.eulerMascheroniConstant ^ 2 + Real.pi ^ 2 / 6) := by
  rw [gumbel_integral_mul_pdf d h (fun x => (x - c) ^ 2)]
  have hsplit : ∀ u : ℝ, (d.f_location - d.f_scale * Real.log u - c) ^ 2 * Real.exp (-u)
      = (d.f_location - c) ^ 2 * Real.exp (-u)
        + ((-2 * (d.f_location - c) * d.f_scale) * (Real.log u * Real.exp (-u))
          + d.f_scale ^ 2 * (Real.log u ^ 2 * Real.exp (-u))) := by
    intro u; ring
  simp_rw [hsplit]
  obtain ⟨hi2, hv2⟩ := integral_log_sq_mul_exp_neg_Ioi
  have j : IntegrableOn (fun u : ℝ => (-2 * (d.f_location - c) * d.f_scale)
      * (Real.log u * Real.exp (-u)) + d.f_scale ^ 2 * (Real.log u ^ 2 * Real.exp (-u))) (Ioi 0) :=
    (integrableOn_log_mul_exp_neg_Ioi.const_mul _).add (hi2.const_mul _)
  rw [integral_add ((integrableOn_exp_neg_Ioi 0).const_mul _) j,
    integral_add (integrableOn_log_mul_exp_neg_Ioi.const_mul _) (hi2.const_mul _),
    integral_const_mul, integral_const_mul, integral_const_mul, integral_exp_neg_Ioi_zero,
    integral_log_mul_exp_neg_Ioi, hv2]
  ring

include h in
/-- full(ℝ): the returned variance `π²β²/6` is the second central moment of the generated density
    (centre written as the closed form `m = μ + γβ`, which is `∫ x·f` by `gumbel_mean_eq_integral`) -/
theorem gumbel_variance_eq_integral :
    Gumbel.variance d = some (∫ x, (x - (d.f_location
      + Real.eulerMascheroniConstant * d.f_scale)) ^ 2 * Gumbel.pdf d x) := by
  rw [gumbel_second_moment_about d h]
  unfold Gumbel.variance; rfun_norm; lit_norm
  simp only [Option.some.injEq]
  ring

include h in
/-- full(ℝ): variance with the centre taken from the returned mean: there are `m`, `v` with
    `mean = some m`, `variance = some v`, `m = ∫ x·f`, `v = ∫ (x − m)²·f` and `0 < v` -/
theorem gumbel_variance_eq_integral_about_mean :
    ∃ m v : ℝ, Gumbel.mean d = some m ∧ Gumbel.variance d = some v ∧ 0 < v ∧
      m = ∫ x, x * Gumbel.pdf d x ∧ v = ∫ x, (x - m) ^ 2 * Gumbel.pdf d x := by
  have hm := gumbel_mean_eq_integral d h
  have hv := gumbel_variance_eq_integral d h
  have hmv : Gumbel.mean d = some (d.f_location + Real.eulerMascheroniConstant * d.f_scale) := by
    unfold Gumbel.mean; rfun_norm
  refine ⟨_, _, hmv, hv, ?_, ?_, rfl⟩
  · rw [gumbel_second_moment_about d h]
    have : 0 < Real.pi ^ 2 := by positivity
    have : 0 < d.f_scale ^ 2 := by positivity
    nlinarith
  · rw [hmv] at hm; exact Option.some.inj hm

include h in
/-- full(ℝ): the returned standard deviation `βπ/√6` is the square root of the second central moment
    of the generated density -/
theorem gumbel_std_dev_eq_sqrt_integral :
    Gumbel.std_dev d = some (Real.sqrt (∫ x, (x - (d.f_location
      + Real.eulerMascheroniConstant * d.f_scale)) ^ 2 * Gumbel.pdf d x)) := by
  rw [gumbel_second_moment_about d h]
  unfold Gumbel.std_dev; rfun_norm; lit_norm
  simp only [Option.some.injEq]
  have e : (d.f_location - (d.f_location + Real.eulerMascheroniConstant * d.f_scale)) ^ 2
      + 2 * (d.f_location - (d.f_location + Real.eulerMascheroniConstant * d.f_scale))
        * (Real.eulerMascheroniConstant * d.f_scale)
      + d.f_scale ^ 2 * (Real.eulerMascheroniConstant ^ 2 + Real.pi ^ 2 / 6)
      = (d.f_scale * Real.pi) ^ 2 / 6 := by ring
  rw [e, Real.sqrt_div (sq_nonneg _), Real.sqrt_sq (by positivity)]

include h in
/-- full(ℝ): third central moment of the generated density: `∫ (x − m)³ f = 2 ζ(3) β³`
    (`m = μ + γβ` the returned mean, `ζ(3) = Σ 1/n³` as `GammaLogMoments.zeta3`) -/
theorem gumbel_third_central_moment :
    ∫ x, (x - (d.f_location + Real.eulerMascheroniConstant * d.f_scale)) ^ 3 * Gumbel.pdf d x
      = 2 * zeta3 * d.f_scale ^ 3 := by
  rw [gumbel_integral_mul_pdf d h
    (fun x => (x - (d.f_location + Real.eulerMascheroniConstant * d.f_scale)) ^ 3)]
  set γ := Real.eulerMascheroniConstant with hγ
  have hsplit : ∀ u : ℝ, (d.f_location - d.f_scale * Real.log u - (d.f_location + γ * d.f_scale)) ^ 3
        * Real.exp (-u)
      = (-d.f_scale ^ 3) * (Real.log u ^ 3 * Real.exp (-u))
        + ((-3 * γ * d.f_scale ^ 3) * (Real.log u ^ 2 * Real.exp (-u))
          + ((-3 * γ ^ 2 * d.f_scale ^ 3) * (Real.log u * Real.exp (-u))
            + (-γ ^ 3 * d.f_scale ^ 3) * Real.exp (-u))) := by
    intro u; ring
  simp_rw [hsplit]
  obtain ⟨hi2, hv2⟩ := integral_log_sq_mul_exp_neg_Ioi
  obtain ⟨hi3, hv3⟩ := integral_log_cube_mul_exp_neg_Ioi
  have hi1 := integrableOn_log_mul_exp_neg_Ioi
  have hi0 := integrableOn_exp_neg_Ioi 0
  have j1 : IntegrableOn (fun u : ℝ => (-3 * γ ^ 2 * d.f_scale ^ 3) * (Real.log u * Real.exp (-u))
      + (-γ ^ 3 * d.f_scale ^ 3) * Real.exp (-u)) (Ioi 0) :=
    (hi1.const_mul _).add (hi0.const_mul _)
  have j2 : IntegrableOn (fun u : ℝ => (-3 * γ * d.f_scale ^ 3) * (Real.log u ^ 2 * Real.exp (-u))
      + ((-3 * γ ^ 2 * d.f_scale ^ 3) * (Real.log u * Real.exp (-u))
        + (-γ ^ 3 * d.f_scale ^ 3) * Real.exp (-u))) (Ioi 0) := (hi2.const_mul _).add j1
  rw [integral_add (hi3.const_mul _) j2, integral_add (hi2.const_mul _) j1,
    integral_add (hi1.const_mul _) (hi0.const_mul _), integral_const_mul, integral_const_mul,
    integral_const_mul, integral_const_mul, integral_exp_neg_Ioi_zero,
    integral_log_mul_exp_neg_Ioi, hv2, hv3]
  ring

include h in
/-- full(ℝ): the third standardised central moment of the generated density (centre = returned mean,
    scale = square root of the returned variance) is `12√6 ζ(3)/π³` for every `μ`, `β > 0` -/
theorem gumbel_third_standardised_moment :
    ∃ m v : ℝ, Gumbel.mean d = some m ∧ Gumbel.variance d = some v ∧ 0 < v ∧
      ∫ x, ((x - m) / Real.sqrt v) ^ 3 * Gumbel.pdf d x
        = 12 * Real.sqrt 6 * zeta3 / Real.pi ^ 3 := by
  have hmv : Gumbel.mean d = some (d.f_location + Real.eulerMascheroniConstant * d.f_scale) := by
    unfold Gumbel.mean; rfun_norm
  have hvv : Gumbel.variance d = some ((d.f_scale * Real.pi) ^ 2 / 6) := by
    unfold Gumbel.variance; rfun_norm; lit_norm
    simp only [Option.some.injEq]; ring
  have hpi := Real.pi_pos
  refine ⟨_, _, hmv, hvv, by positivity, ?_⟩
  rw [integral_standardised_cube, gumbel_third_central_moment d h,
    Real.sqrt_div (sq_nonneg _), Real.sqrt_sq (by positivity)]
  have h6 : Real.sqrt 6 ^ 2 = 6 := Real.sq_sqrt (by norm_num)
  have h60 : Real.sqrt 6 ≠ 0 := (Real.sqrt_pos.mpr (by norm_num)).ne'
  have hb : d.f_scale ≠ 0 := h.ne'
  rw [div_pow, mul_pow, show Real.sqrt 6 ^ 3 = Real.sqrt 6 * Real.sqrt 6 ^ 2 by ring, h6]
  field_simp
  ring

include h in
/-- partial(numerical value of ζ(3)/π³): `Gumbel::skewness` returns the literal `1.13955`; it is the
    third standardised central moment of the generated density exactly when
    `1.13955 = 12√6 ζ(3)/π³` (`= 1.1395470994…`).  What is missing: a decision of that numerical
    equation (see `GumbelSkewnessLiteral.lean`). -/
theorem gumbel_skewness_eq_integral_iff_partial :
    (∃ m v : ℝ, Gumbel.mean d = some m ∧ Gumbel.variance d = some v ∧ 0 < v ∧
      Gumbel.skewness d = some (∫ x, ((x - m) / Real.sqrt v) ^ 3 * Gumbel.pdf d x))
    ↔ (1.13955 : ℝ) = 12 * Real.sqrt 6 * zeta3 / Real.pi ^ 3 := by
  obtain ⟨m, v, hm, hv, hv0, hI⟩ := gumbel_third_standardised_moment d h
  have hsk : Gumbel.skewness d = some (1.13955 : ℝ) := rfl
  constructor
  · rintro ⟨m', v', hm', hv', _, hs⟩
    rw [hm] at hm'; rw [hv] at hv'
    cases Option.some.inj hm'; cases Option.some.inj hv'
    rw [hsk, hI] at hs
    exact Option.some.inj hs
  · intro he
    exact ⟨m, v, hm, hv, hv0, by rw [hsk, hI, he]⟩

example : ∃ d : Gumbel ℝ, 0 < d.f_scale := ⟨⟨0, 1⟩, one_pos⟩
end gumbel

end Statrs.Props.C07
