/-
  C07 (moments derived from the density) — the literal returned by `Gumbel::skewness`.
  The third standardised central moment of the generated Gumbel density is `12√6 ζ(3)/π³` for every
  `μ` and `β > 0` (`gumbel_third_standardised_moment`, GumbelMoments.lean).  Here:
      1.139545 < 12√6 ζ(3)/π³ < 1.139549            (ζ(3) from `Lemmas/Zeta3Bounds.lean`, π from
                                                     `Real.pi_gt_d6`/`Real.pi_lt_d6`),
  hence the source literal `1.13955`
    * is NOT the third standardised moment of the density (`gumbel_skewness_counterexample`: it is the
      5-decimal rounding of `1.1395470…`), and
    * differs from it by less than `5·10⁻⁶` (`gumbel_skewness_literal_close`).
  Carrier ℝ, constructor predicate `0 < β` as hypothesis.  full(ℝ).
-/
import Statrs.Real.Simp
import Statrs.Gen.D_gumbel
import Statrs.Props.C07.GumbelMoments
import Statrs.Lemmas.Zeta3Bounds
import Mathlib.Tactic
namespace Statrs.Props.C07
open Statrs Statrs.Gen Statrs.Lemmas.GammaLogMoments Statrs.Lemmas.Zeta3Bounds
open MeasureTheory

/-- full(ℝ): `1.139545 < 12√6 ζ(3)/π³ < 1.139549` -/
theorem gumbel_skewness_value_bounds :
    1.139545 < 12 * Real.sqrt 6 * zeta3 / Real.pi ^ 3
      ∧ 12 * Real.sqrt 6 * zeta3 / Real.pi ^ 3 < 1.139549 := by
  have hz1 := lt_zeta3
  have hz2 := zeta3_lt
  have hp1 := Real.pi_gt_d6
  have hp2 := Real.pi_lt_d6
  have hs1 : (2.449489 : ℝ) < Real.sqrt 6 := by
    rw [show (2.449489 : ℝ) = Real.sqrt (2.449489 ^ 2) by rw [Real.sqrt_sq (by norm_num)]]
    exact Real.sqrt_lt_sqrt (by norm_num) (by norm_num)
  have hs2 : Real.sqrt 6 < 2.44949 := by
    rw [show (2.44949 : ℝ) = Real.sqrt (2.44949 ^ 2) by rw [Real.sqrt_sq (by norm_num)]]
    exact Real.sqrt_lt_sqrt (by norm_num) (by norm_num)
  have hpi : 0 < Real.pi := Real.pi_pos
  have hp3lo : (3.141592 : ℝ) ^ 3 < Real.pi ^ 3 := pow_lt_pow_left₀ hp1 (by norm_num) (by norm_num)
  have hp3hi : Real.pi ^ 3 < (3.141593 : ℝ) ^ 3 := pow_lt_pow_left₀ hp2 hpi.le (by norm_num)
  have hz0 : 0 < zeta3 := zeta3_pos
  have hs0 : 0 < Real.sqrt 6 := by linarith
  constructor
  · rw [lt_div_iff₀ (pow_pos hpi 3)]
    calc 1.139545 * Real.pi ^ 3 < 1.139545 * (3.141593 : ℝ) ^ 3 := by
            apply mul_lt_mul_of_pos_left hp3hi; norm_num
      _ < 12 * 2.449489 * 1.2020563 := by norm_num
      _ < 12 * Real.sqrt 6 * zeta3 := by
            have : (2.449489 : ℝ) * 1.2020563 < Real.sqrt 6 * zeta3 :=
              mul_lt_mul hs1 hz1.le (by norm_num) hs0.le
            linarith
  · rw [div_lt_iff₀ (pow_pos hpi 3)]
    calc 12 * Real.sqrt 6 * zeta3 < 12 * 2.44949 * 1.2020571 := by
            have : Real.sqrt 6 * zeta3 < (2.44949 : ℝ) * 1.2020571 :=
              mul_lt_mul hs2 hz2.le hz0 (by norm_num)
            linarith
      _ < 1.139549 * (3.141592 : ℝ) ^ 3 := by norm_num
      _ < 1.139549 * Real.pi ^ 3 := by
            apply mul_lt_mul_of_pos_left hp3lo; norm_num

section gumbel
variable (d : Gumbel ℝ) (h : 0 < d.f_scale)

include h in
/-- counterexample (every Gumbel object): the value returned by `Gumbel::skewness`, the literal
    `1.13955`, is NOT the third standardised central moment of the generated density (which is
    `12√6 ζ(3)/π³ = 1.139547…`); the literal is its rounding to five decimals. -/
theorem gumbel_skewness_counterexample :
    ¬ ∃ m v : ℝ, Gumbel.mean d = some m ∧ Gumbel.variance d = some v ∧ 0 < v ∧
      Gumbel.skewness d = some (∫ x, ((x - m) / Real.sqrt v) ^ 3 * Gumbel.pdf d x) := by
  rw [gumbel_skewness_eq_integral_iff_partial d h]
  have := gumbel_skewness_value_bounds.2
  intro he
  rw [← he] at this
  norm_num at this

include h in
/-- full(ℝ): the returned literal is within `5·10⁻⁶` of the third standardised central moment of the
    generated density (centre = returned mean, scale = √ returned variance) -/
theorem gumbel_skewness_literal_close :
    ∃ m v s : ℝ, Gumbel.mean d = some m ∧ Gumbel.variance d = some v ∧ 0 < v ∧
      Gumbel.skewness d = some s ∧
      |s - ∫ x, ((x - m) / Real.sqrt v) ^ 3 * Gumbel.pdf d x| < 5e-6 := by
  obtain ⟨m, v, hm, hv, hv0, hI⟩ := gumbel_third_standardised_moment d h
  refine ⟨m, v, 1.13955, hm, hv, hv0, rfl, ?_⟩
  rw [hI]
  obtain ⟨h1, h2⟩ := gumbel_skewness_value_bounds
  rw [abs_lt]
  constructor <;> linarith

example : ∃ d : Gumbel ℝ, 0 < d.f_scale := ⟨⟨0, 1⟩, one_pos⟩
end gumbel

end Statrs.Props.C07
