/-
  C07 (location–scale equivariance of the moments) — for X = l + s·Z with Z the standard member:
    mean(X) = l + s·mean(Z),  variance(X) = s²·variance(Z),  std_dev(X) = s·std_dev(Z),
    skewness(X) = skewness(Z),  entropy(X) = entropy(Z) + ln s.
  Carrier ℝ, `s > 0`.  full(ℝ) for every family, including StudentsT.entropy (the earlier sign
  defect `shift = -ln s` is fixed in the source: `studentsT_entropy_loc_scale`).
-/
import Statrs.Real.Simp
import Statrs.Gen.D_normal
import Statrs.Gen.D_cauchy
import Statrs.Gen.D_laplace
import Statrs.Gen.D_gumbel
import Statrs.Gen.D_levy
import Statrs.Gen.D_uniform
import Statrs.Gen.D_triangular
import Statrs.Gen.D_students_t
import Statrs.Lemmas.Related
import Mathlib.Tactic
namespace Statrs.Props.C07
open Statrs Statrs.Gen Statrs.Lemmas.Related

/-! ### Normal -/
theorem normal_mean_loc_scale (l s : ℝ) :
    Normal.mean ⟨l, s⟩ = (Normal.mean (⟨0, 1⟩ : Normal ℝ)).map (fun m => l + s * m) := by
  unfold Normal.mean; simp
theorem normal_variance_loc_scale (l s : ℝ) :
    Normal.variance ⟨l, s⟩ = (Normal.variance (⟨0, 1⟩ : Normal ℝ)).map (fun v => s * s * v) := by
  unfold Normal.variance; simp
theorem normal_std_dev_loc_scale (l s : ℝ) :
    Normal.std_dev ⟨l, s⟩ = (Normal.std_dev (⟨0, 1⟩ : Normal ℝ)).map (fun v => s * v) := by
  unfold Normal.std_dev; simp
theorem normal_skewness_loc_scale (l s : ℝ) :
    Normal.skewness ⟨l, s⟩ = Normal.skewness (⟨0, 1⟩ : Normal ℝ) := rfl
theorem normal_entropy_loc_scale (l s : ℝ) :
    Normal.entropy ⟨l, s⟩ = (Normal.entropy (⟨0, 1⟩ : Normal ℝ)).map (fun e => e + Real.log s) := by
  unfold Normal.entropy; rfun_norm; simp; ring

/-! ### Cauchy (no moments; entropy shifts) -/
theorem cauchy_entropy_loc_scale (l s : ℝ) (hs : 0 < s) :
    Cauchy.entropy ⟨l, s⟩ = (Cauchy.entropy (⟨0, 1⟩ : Cauchy ℝ)).map (fun e => e + Real.log s) := by
  unfold Cauchy.entropy; rfun_norm; lit_norm
  have : (4 : ℝ) * Real.pi ≠ 0 := by have := Real.pi_pos; positivity
  simp only [Option.map_some, mul_one, Option.some.injEq]
  rw [Real.log_mul this hs.ne']

/-! ### Laplace -/
theorem laplace_mean_loc_scale (l s : ℝ) :
    Laplace.mean ⟨l, s⟩ = (Laplace.mean (⟨0, 1⟩ : Laplace ℝ)).map (fun m => l + s * m) := by
  unfold Laplace.mean; simp
theorem laplace_variance_loc_scale (l s : ℝ) :
    Laplace.variance ⟨l, s⟩ = (Laplace.variance (⟨0, 1⟩ : Laplace ℝ)).map (fun v => s * s * v) := by
  unfold Laplace.variance; lit_norm; simp; ring
theorem laplace_std_dev_loc_scale (l s : ℝ) (hs : 0 < s) :
    Laplace.std_dev ⟨l, s⟩ = (Laplace.std_dev (⟨0, 1⟩ : Laplace ℝ)).map (fun v => s * v) := by
  unfold Laplace.std_dev Laplace.variance; rfun_norm; lit_norm
  simp only [Option.map_some, mul_one, Option.some.injEq]
  rw [show (2 : ℝ) * s * s = s * s * 2 by ring, sqrt_sq_mul s 2 hs.le]
theorem laplace_skewness_loc_scale (l s : ℝ) :
    Laplace.skewness ⟨l, s⟩ = Laplace.skewness (⟨0, 1⟩ : Laplace ℝ) := rfl
theorem laplace_entropy_loc_scale (l s : ℝ) (hs : 0 < s) :
    Laplace.entropy ⟨l, s⟩ = (Laplace.entropy (⟨0, 1⟩ : Laplace ℝ)).map (fun e => e + Real.log s) := by
  unfold Laplace.entropy; rfun_norm; lit_norm
  simp only [Option.map_some, mul_one, Option.some.injEq]
  rw [Real.log_mul (by norm_num) hs.ne']; ring

/-! ### Gumbel -/
theorem gumbel_mean_loc_scale (l s : ℝ) :
    Gumbel.mean ⟨l, s⟩ = (Gumbel.mean (⟨0, 1⟩ : Gumbel ℝ)).map (fun m => l + s * m) := by
  unfold Gumbel.mean; simp; ring
theorem gumbel_variance_loc_scale (l s : ℝ) :
    Gumbel.variance ⟨l, s⟩ = (Gumbel.variance (⟨0, 1⟩ : Gumbel ℝ)).map (fun v => s * s * v) := by
  unfold Gumbel.variance; rfun_norm; lit_norm; simp; ring
theorem gumbel_std_dev_loc_scale (l s : ℝ) :
    Gumbel.std_dev ⟨l, s⟩ = (Gumbel.std_dev (⟨0, 1⟩ : Gumbel ℝ)).map (fun v => s * v) := by
  unfold Gumbel.std_dev; rfun_norm; lit_norm; simp; ring
theorem gumbel_skewness_loc_scale (l s : ℝ) :
    Gumbel.skewness ⟨l, s⟩ = Gumbel.skewness (⟨0, 1⟩ : Gumbel ℝ) := rfl
theorem gumbel_entropy_loc_scale (l s : ℝ) :
    Gumbel.entropy ⟨l, s⟩ = (Gumbel.entropy (⟨0, 1⟩ : Gumbel ℝ)).map (fun e => e + Real.log s) := by
  unfold Gumbel.entropy; rfun_norm; simp

/-! ### Levy (moments are `+∞`; only the entropy is a real number) -/
theorem levy_entropy_loc_scale (m c : ℝ) :
    Levy.entropy ⟨m, c⟩ = (Levy.entropy (⟨0, 1⟩ : Levy ℝ)).map (fun e => e + Real.log c) := by
  unfold Levy.entropy; rfun_norm; simp

/-! ### Uniform(a, b) = a + (b − a)·Uniform(0, 1) -/
theorem uniform_mean_loc_scale (d : Uniform ℝ) :
    Uniform.mean d = (Uniform.mean (⟨0, 1⟩ : Uniform ℝ)).map
      (fun m => d.f_min + (d.f_max - d.f_min) * m) := by
  unfold Uniform.mean; lit_norm; simp; ring
theorem uniform_variance_loc_scale (d : Uniform ℝ) :
    Uniform.variance d = (Uniform.variance (⟨0, 1⟩ : Uniform ℝ)).map
      (fun v => (d.f_max - d.f_min) * (d.f_max - d.f_min) * v) := by
  unfold Uniform.variance; lit_norm; simp; ring
theorem uniform_std_dev_loc_scale (d : Uniform ℝ) (h : d.f_min < d.f_max) :
    Uniform.std_dev d = (Uniform.std_dev (⟨0, 1⟩ : Uniform ℝ)).map
      (fun v => (d.f_max - d.f_min) * v) := by
  unfold Uniform.std_dev Uniform.variance; rfun_norm; lit_norm
  simp only [Option.map_some, sub_zero, mul_one, Option.some.injEq]
  rw [show (d.f_max - d.f_min) * (d.f_max - d.f_min) / 12
      = (d.f_max - d.f_min) * (d.f_max - d.f_min) * (1 / 12) by ring,
    sqrt_sq_mul _ _ (by linarith)]
theorem uniform_skewness_loc_scale (d : Uniform ℝ) :
    Uniform.skewness d = Uniform.skewness (⟨0, 1⟩ : Uniform ℝ) := rfl
theorem uniform_entropy_loc_scale (d : Uniform ℝ) :
    Uniform.entropy d = (Uniform.entropy (⟨0, 1⟩ : Uniform ℝ)).map
      (fun e => e + Real.log (d.f_max - d.f_min)) := by
  unfold Uniform.entropy; rfun_norm; simp

/-! ### Triangular(a, b, c) = a + (b − a)·Triangular(0, 1, (c − a)/(b − a)) -/
theorem triangular_mean_loc_scale (d : Triangular ℝ) (h : d.f_min < d.f_max) :
    Triangular.mean d =
      (Triangular.mean (⟨0, 1, (d.f_mode - d.f_min) / (d.f_max - d.f_min)⟩ : Triangular ℝ)).map
        (fun m => d.f_min + (d.f_max - d.f_min) * m) := by
  have hw : d.f_max - d.f_min ≠ 0 := by linarith
  unfold Triangular.mean; lit_norm
  simp only [Option.map_some, Option.some.injEq]
  field_simp; ring
theorem triangular_variance_loc_scale (d : Triangular ℝ) (h : d.f_min < d.f_max) :
    Triangular.variance d =
      (Triangular.variance (⟨0, 1, (d.f_mode - d.f_min) / (d.f_max - d.f_min)⟩ : Triangular ℝ)).map
        (fun v => (d.f_max - d.f_min) * (d.f_max - d.f_min) * v) := by
  have hw : d.f_max - d.f_min ≠ 0 := by linarith
  unfold Triangular.variance; lit_norm
  simp only [Option.map_some, Option.some.injEq]
  field_simp; ring
theorem triangular_entropy_loc_scale (d : Triangular ℝ) (h : d.f_min < d.f_max) :
    Triangular.entropy d =
      (Triangular.entropy (⟨0, 1, (d.f_mode - d.f_min) / (d.f_max - d.f_min)⟩ : Triangular ℝ)).map
        (fun e => e + Real.log (d.f_max - d.f_min)) := by
  have hw : d.f_max - d.f_min ≠ 0 := by linarith
  unfold Triangular.entropy; rfun_norm; lit_norm
  simp only [Option.map_some, Option.some.injEq, sub_zero]
  rw [Real.log_div hw (by norm_num), Real.log_div one_ne_zero (by norm_num), Real.log_one]
  ring

/-! ### StudentsT(l, s, ν) -/
theorem studentsT_mean_loc_scale (l s ν : ℝ) :
    StudentsT.mean ⟨l, s, ν⟩ = (StudentsT.mean (⟨0, 1, ν⟩ : StudentsT ℝ)).map
      (fun m => l + s * m) := by
  unfold StudentsT.mean; split_ifs <;> simp
theorem studentsT_variance_loc_scale (l s ν : ℝ) :
    StudentsT.variance ⟨l, s, ν⟩ = (StudentsT.variance (⟨0, 1, ν⟩ : StudentsT ℝ)).map
      (fun v => s * s * v) := by
  unfold StudentsT.variance; rfun_norm; lit_norm
  simp only [Bool.false_eq_true, if_false]
  split_ifs <;> simp; ring
theorem studentsT_skewness_loc_scale (l s ν : ℝ) :
    StudentsT.skewness ⟨l, s, ν⟩ = StudentsT.skewness (⟨0, 1, ν⟩ : StudentsT ℝ) := rfl

/-- the location–scale law `entropy(l + s·Z) = entropy(Z) + ln s` holds for StudentsT, whatever the
    special functions are (`students_t.rs: let shift = self.scale.ln();` — the earlier `-ln s` sign
    defect is fixed; consistent with the density scaling `pdf(l+s·z) = pdf₀(z)/s` of C10). -/
theorem studentsT_entropy_loc_scale [SF ℝ] (l s ν : ℝ) :
    StudentsT.entropy ⟨l, s, ν⟩ = (StudentsT.entropy (⟨0, 1, ν⟩ : StudentsT ℝ)).map
      (fun e => e + Real.log s) := by
  unfold StudentsT.entropy; rfun_norm; lit_norm; simp

/-- instance at the formerly failing witness `s = 2`: the entropy is shifted by `+ ln 2`, and that
    shift is not zero (so the sign matters). -/
theorem studentsT_entropy_loc_scale_two [SF ℝ] (ν : ℝ) :
    StudentsT.entropy ⟨0, 2, ν⟩ = (StudentsT.entropy (⟨0, 1, ν⟩ : StudentsT ℝ)).map
      (fun e => e + Real.log 2) ∧ Real.log 2 ≠ 0 :=
  ⟨studentsT_entropy_loc_scale 0 2 ν, (Real.log_pos (by norm_num)).ne'⟩

example : ∃ d : Uniform ℝ, d.f_min < d.f_max := ⟨⟨0, 1⟩, by norm_num⟩
example : ∃ d : Triangular ℝ, d.f_min < d.f_max := ⟨⟨0, 1, 0⟩, by norm_num⟩

end Statrs.Props.C07
