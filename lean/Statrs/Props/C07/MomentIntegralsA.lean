/-
  C07 (moments derived from the density) — Normal(μ, σ): the closed forms returned by
  `mean`/`variance`/`std_dev`/`skewness`/`entropy` equal the corresponding integrals over ℝ of the
  SAME object's generated `pdf`:
    ∫ f = 1,  mean = ∫ x·f,  variance = ∫ (x−μ)²·f,  skewness = ∫ ((x−μ)/σ)³·f,
    entropy = −∫ f ln f.
  The generated `Normal.pdf` (parameterised by the standard deviation) is identified with Mathlib's
  `gaussianPDFReal μ (σ²)`, and Mathlib's `integral_id_gaussianReal`/`variance_id_gaussianReal`
  are transported.  Carrier ℝ, constructor predicate `0 < σ` as hypothesis.  full(ℝ): the pdf uses
  only exp/sqrt/π, no special-function premise.
-/
import Statrs.Real.Simp
import Statrs.Gen.D_normal
import Statrs.Gen.D_laplace
import Statrs.Lemmas.Related
import Mathlib.Tactic
import Mathlib.Probability.Distributions.Gaussian.Real
namespace Statrs.Props.C07
open Statrs Statrs.Gen Statrs.Lemmas.Related MeasureTheory Set ProbabilityTheory

/-! ### symmetry helper -/

/-- a function odd about `m` has Bochner integral 0 over ℝ (integrable or not) -/
theorem integral_eq_zero_of_odd_about (F : ℝ → ℝ) (m : ℝ)
    (hodd : ∀ t, F (m - t) = - F (m + t)) : ∫ x, F x = 0 := by
  have h1 : ∫ x, F x = ∫ t, F (m + t) := by
    rw [← integral_add_left_eq_self (μ := volume) F m]
  have h2 : ∫ t, F (m + t) = ∫ t, F (m + -t) := by
    rw [← integral_neg_eq_self (fun t => F (m + t)) volume]
  simp_rw [← sub_eq_add_neg, hodd, integral_neg] at h2
  linarith

/-! ### Normal(μ, σ) -/
section normal

/-- the variance `σ²` of a `Normal ℝ` as a nonnegative real (Mathlib's parameterisation) -/
noncomputable def normalVar (d : Normal ℝ) : NNReal :=
  ⟨d.f_std_dev * d.f_std_dev, mul_self_nonneg _⟩

variable (d : Normal ℝ) (h : 0 < d.f_std_dev)

theorem normalVar_coe : (normalVar d : ℝ) = d.f_std_dev * d.f_std_dev := rfl

include h in
theorem normalVar_ne_zero : normalVar d ≠ 0 := by
  intro h0
  have : (normalVar d : ℝ) = 0 := by rw [h0]; rfl
  rw [normalVar_coe] at this
  nlinarith

include h in
/-- the generated density is Mathlib's Gaussian density with variance `σ²` -/
theorem normal_pdf_eq_gaussianPDFReal (x : ℝ) :
    Normal.pdf d x = gaussianPDFReal d.f_mean (normalVar d) x := by
  unfold Normal.pdf D.normal.pdf_unchecked gaussianPDFReal
  rfun_norm; lit_norm
  rw [normalVar_coe]
  have hs : d.f_std_dev ≠ 0 := h.ne'
  have e : Real.sqrt (2 * Real.pi * (d.f_std_dev * d.f_std_dev))
      = Real.sqrt (2 * Real.pi) * d.f_std_dev := by
    rw [Real.sqrt_mul (by positivity), Real.sqrt_mul_self h.le]
  rw [e]
  have hp : Real.sqrt (2 * Real.pi) ≠ 0 := by positivity
  rw [show -(1 / 2 : ℝ) * ((x - d.f_mean) / d.f_std_dev) * ((x - d.f_mean) / d.f_std_dev)
    = -(x - d.f_mean) ^ 2 / (2 * (d.f_std_dev * d.f_std_dev)) by field_simp]
  field_simp

include h in
theorem normal_pdf_integral : ∫ x, Normal.pdf d x = 1 := by
  simp_rw [normal_pdf_eq_gaussianPDFReal d h]
  exact integral_gaussianPDFReal_eq_one _ (normalVar_ne_zero d h)

include h in
/-- integrals against the generated density are integrals against Mathlib's Gaussian measure -/
theorem normal_integral_mul_pdf (g : ℝ → ℝ) :
    ∫ x, g x * Normal.pdf d x = ∫ x, g x ∂(gaussianReal d.f_mean (normalVar d)) := by
  rw [integral_gaussianReal_eq_integral_smul (normalVar_ne_zero d h)]
  apply integral_congr_ae
  filter_upwards with x
  rw [normal_pdf_eq_gaussianPDFReal d h, smul_eq_mul, mul_comm]

include h in
theorem normal_mean_eq_integral : Normal.mean d = some (∫ x, x * Normal.pdf d x) := by
  rw [normal_integral_mul_pdf d h (fun x => x), integral_id_gaussianReal]
  rfl

include h in
theorem normal_variance_eq_integral :
    Normal.variance d = some (∫ x, (x - d.f_mean) ^ 2 * Normal.pdf d x) := by
  rw [normal_integral_mul_pdf d h (fun x => (x - d.f_mean) ^ 2)]
  have hv := variance_fun_id_gaussianReal (μ := d.f_mean) (v := normalVar d)
  rw [variance_eq_integral measurable_id'.aemeasurable] at hv
  simp only [integral_id_gaussianReal] at hv
  rw [hv]
  rfl

include h in
/-- the same statement with the mean written as the integral of the density -/
theorem normal_variance_eq_integral' :
    Normal.variance d
      = some (∫ x, (x - ∫ y, y * Normal.pdf d y) ^ 2 * Normal.pdf d x) := by
  have hm : (∫ y, y * Normal.pdf d y) = d.f_mean := by
    rw [normal_integral_mul_pdf d h (fun x => x), integral_id_gaussianReal]
  rw [hm]; exact normal_variance_eq_integral d h

include h in
/-- `std_dev² = ∫ (x−μ)² f` -/
theorem normal_std_dev_eq_integral :
    ∃ s, Normal.std_dev d = some s ∧ 0 ≤ s ∧ s * s = ∫ x, (x - d.f_mean) ^ 2 * Normal.pdf d x := by
  refine ⟨d.f_std_dev, rfl, h.le, ?_⟩
  have := normal_variance_eq_integral d h
  unfold Normal.variance at this
  exact Option.some.inj this

include h in
theorem normal_second_moment_integrable :
    Integrable (fun x => (x - d.f_mean) ^ 2 * Normal.pdf d x) := by
  apply Integrable.of_integral_ne_zero
  have := normal_variance_eq_integral d h
  unfold Normal.variance at this
  rw [← Option.some.inj this]
  exact (mul_pos h h).ne'

include h in
theorem normal_pdf_integrable : Integrable (fun x => Normal.pdf d x) := by
  apply Integrable.of_integral_ne_zero
  rw [normal_pdf_integral d h]; exact one_ne_zero

/-- the generated density is symmetric about the mean -/
theorem normal_pdf_symm (t : ℝ) : Normal.pdf d (d.f_mean + t) = Normal.pdf d (d.f_mean - t) := by
  unfold Normal.pdf D.normal.pdf_unchecked
  rfun_norm
  congr 2
  ring

/-- skewness: the third standardised central moment of the generated density vanishes
    (no integrability needed: both sides of `∫ F = −∫ F` are Bochner integrals) -/
theorem normal_skewness_eq_integral :
    Normal.skewness d
      = some (∫ x, ((x - d.f_mean) / d.f_std_dev) ^ 3 * Normal.pdf d x) := by
  unfold Normal.skewness; lit_norm
  simp only [Option.some.injEq]
  rw [integral_eq_zero_of_odd_about _ d.f_mean
    (fun t => by simp only [← normal_pdf_symm]; ring)]

include h in
/-- differential entropy: `−∫ f ln f = ln σ + ln √(2πe)` -/
theorem normal_entropy_eq_integral :
    Normal.entropy d = some (-∫ x, Normal.pdf d x * Real.log (Normal.pdf d x)) := by
  have hs : d.f_std_dev ≠ 0 := h.ne'
  have hp : 0 < Real.sqrt (2 * Real.pi) := by positivity
  set c : ℝ := Real.log (Real.sqrt (2 * Real.pi) * d.f_std_dev) with hc
  have hlog : ∀ x, Normal.pdf d x * Real.log (Normal.pdf d x)
      = (-(1 / (2 * (d.f_std_dev * d.f_std_dev)))) * ((x - d.f_mean) ^ 2 * Normal.pdf d x)
        + (-c) * Normal.pdf d x := by
    intro x
    have hl : Real.log (Normal.pdf d x)
        = -(1 / (2 * (d.f_std_dev * d.f_std_dev))) * (x - d.f_mean) ^ 2 - c := by
      unfold Normal.pdf D.normal.pdf_unchecked
      rfun_norm; lit_norm
      rw [Real.log_div (Real.exp_pos _).ne' (by positivity), Real.log_exp, hc]
      field_simp
    rw [hl]; ring
  simp_rw [hlog]
  rw [integral_add ((normal_second_moment_integrable d h).const_mul _)
    ((normal_pdf_integrable d h).const_mul _), integral_const_mul, integral_const_mul,
    normal_pdf_integral d h]
  have hv := normal_variance_eq_integral d h
  unfold Normal.variance at hv
  rw [← Option.some.inj hv]
  unfold Normal.entropy
  rfun_norm
  simp only [Option.some.injEq]
  rw [hc, Real.log_mul hp.ne' hs,
    show 2 * Real.pi * Real.exp 1 = (2 * Real.pi) * Real.exp 1 by ring,
    Real.sqrt_mul (by positivity), Real.log_mul hp.ne' (by positivity),
    Real.log_sqrt (Real.exp_pos 1).le, Real.log_exp]
  field_simp
  ring

example : ∃ d : Normal ℝ, 0 < d.f_std_dev := ⟨⟨0, 1⟩, one_pos⟩
end normal

/-! ### Laplace(μ, b) -/
section laplace

/-- `∫₀^∞ tⁿ e^{−t/b} dt = n!·bⁿ⁺¹` -/
theorem integral_pow_mul_exp_neg_div_Ioi (n : ℕ) (b : ℝ) (hb : 0 < b) :
    ∫ t in Ioi (0 : ℝ), t ^ n * Real.exp (-t / b) = (n.factorial : ℝ) * b ^ (n + 1) := by
  have := Real.integral_rpow_mul_exp_neg_mul_Ioi (a := (n : ℝ) + 1) (r := 1 / b)
    (by positivity) (by positivity)
  rw [Real.Gamma_nat_eq_factorial, add_sub_cancel_right, one_div_one_div] at this
  have e : b ^ ((n : ℝ) + 1) = b ^ (n + 1) := by
    rw [← Real.rpow_natCast]; push_cast; rfl
  rw [mul_comm, ← e, ← this]
  apply setIntegral_congr_fun measurableSet_Ioi
  intro t ht
  simp only
  rw [Real.rpow_natCast]
  congr 2
  field_simp

variable (d : Laplace ℝ) (h : 0 < d.f_scale)

/-- the generated density at `μ + t` -/
theorem laplace_pdf_shift (t : ℝ) :
    Laplace.pdf d (d.f_location + t) = Real.exp (-|t| / d.f_scale) / (2 * d.f_scale) := by
  unfold Laplace.pdf; rfun_norm; lit_norm
  rw [add_sub_cancel_left]

include h in
/-- absolute central moments of the generated density: `∫ |x−μ|ⁿ f = n!·bⁿ` -/
theorem laplace_abs_moment (n : ℕ) :
    ∫ x, |x - d.f_location| ^ n * Laplace.pdf d x = (n.factorial : ℝ) * d.f_scale ^ n := by
  have hb : d.f_scale ≠ 0 := h.ne'
  rw [← integral_add_left_eq_self (μ := volume) _ d.f_location]
  simp_rw [laplace_pdf_shift, add_sub_cancel_left]
  rw [integral_comp_abs (f := fun t => t ^ n * (Real.exp (-t / d.f_scale) / (2 * d.f_scale)))]
  simp_rw [mul_div_assoc']
  rw [integral_div, integral_pow_mul_exp_neg_div_Ioi n _ h]
  field_simp
  ring

include h in
theorem laplace_pdf_integral : ∫ x, Laplace.pdf d x = 1 := by
  have := laplace_abs_moment d h 0
  simpa using this

include h in
theorem laplace_pdf_integrable : Integrable (fun x => Laplace.pdf d x) := by
  apply Integrable.of_integral_ne_zero
  rw [laplace_pdf_integral d h]; exact one_ne_zero

theorem laplace_pdf_continuous : Continuous (fun x => Laplace.pdf d x) := by
  unfold Laplace.pdf; rfun_norm
  fun_prop

theorem laplace_pdf_nonneg (x : ℝ) (h : 0 < d.f_scale) : 0 ≤ Laplace.pdf d x := by
  unfold Laplace.pdf; rfun_norm; lit_norm
  positivity

include h in
theorem laplace_abs_moment_integrable (n : ℕ) :
    Integrable (fun x => |x - d.f_location| ^ n * Laplace.pdf d x) := by
  apply Integrable.of_integral_ne_zero
  rw [laplace_abs_moment d h n]
  positivity

include h in
theorem laplace_moment_integrable (n : ℕ) :
    Integrable (fun x => (x - d.f_location) ^ n * Laplace.pdf d x) := by
  refine (laplace_abs_moment_integrable d h n).mono
    (((continuous_id.sub continuous_const).pow n).mul
      (laplace_pdf_continuous d)).aestronglyMeasurable ?_
  filter_upwards with x
  simp only [norm_mul, norm_pow, Real.norm_eq_abs, abs_abs]
  exact le_rfl

/-- the generated density is symmetric about the location -/
theorem laplace_pdf_symm (t : ℝ) :
    Laplace.pdf d (d.f_location - t) = Laplace.pdf d (d.f_location + t) := by
  rw [sub_eq_add_neg, laplace_pdf_shift, laplace_pdf_shift, abs_neg]

include h in
theorem laplace_mean_eq_integral : Laplace.mean d = some (∫ x, x * Laplace.pdf d x) := by
  unfold Laplace.mean
  simp only [Option.some.injEq]
  have hsplit : ∀ x, x * Laplace.pdf d x
      = d.f_location * Laplace.pdf d x + (x - d.f_location) ^ 1 * Laplace.pdf d x := by
    intro x; ring
  simp_rw [hsplit]
  rw [integral_add ((laplace_pdf_integrable d h).const_mul _) (laplace_moment_integrable d h 1),
    integral_const_mul, laplace_pdf_integral d h,
    integral_eq_zero_of_odd_about (fun x => (x - d.f_location) ^ 1 * Laplace.pdf d x) d.f_location
      (fun t => by simp only [laplace_pdf_symm]; ring)]
  ring

include h in
theorem laplace_variance_eq_integral :
    Laplace.variance d = some (∫ x, (x - d.f_location) ^ 2 * Laplace.pdf d x) := by
  have := laplace_abs_moment d h 2
  simp only [sq_abs] at this
  rw [this]
  unfold Laplace.variance; lit_norm
  simp only [Option.some.injEq, Nat.factorial]
  push_cast; ring

include h in
/-- the same statement with the mean written as the integral of the density -/
theorem laplace_variance_eq_integral' :
    Laplace.variance d
      = some (∫ x, (x - ∫ y, y * Laplace.pdf d y) ^ 2 * Laplace.pdf d x) := by
  have hm := laplace_mean_eq_integral d h
  unfold Laplace.mean at hm
  rw [← Option.some.inj hm]; exact laplace_variance_eq_integral d h

/-- skewness: the third standardised central moment of the generated density vanishes -/
theorem laplace_skewness_eq_integral (σ : ℝ) :
    Laplace.skewness d = some (∫ x, ((x - d.f_location) / σ) ^ 3 * Laplace.pdf d x) := by
  unfold Laplace.skewness; lit_norm
  simp only [Option.some.injEq]
  rw [integral_eq_zero_of_odd_about _ d.f_location
    (fun t => by simp only [laplace_pdf_symm]; ring)]

include h in
/-- differential entropy: `−∫ f ln f = ln(2b) + 1` -/
theorem laplace_entropy_eq_integral :
    Laplace.entropy d = some (-∫ x, Laplace.pdf d x * Real.log (Laplace.pdf d x)) := by
  have hb : d.f_scale ≠ 0 := h.ne'
  have hlog : ∀ x, Laplace.pdf d x * Real.log (Laplace.pdf d x)
      = (-(1 / d.f_scale)) * (|x - d.f_location| ^ 1 * Laplace.pdf d x)
        + (-Real.log (2 * d.f_scale)) * Laplace.pdf d x := by
    intro x
    have hl : Real.log (Laplace.pdf d x)
        = -(1 / d.f_scale) * |x - d.f_location| - Real.log (2 * d.f_scale) := by
      unfold Laplace.pdf; rfun_norm; lit_norm
      rw [Real.log_div (Real.exp_pos _).ne' (by positivity), Real.log_exp]
      field_simp
    rw [hl]; ring
  simp_rw [hlog]
  rw [integral_add ((laplace_abs_moment_integrable d h 1).const_mul _)
    ((laplace_pdf_integrable d h).const_mul _), integral_const_mul, integral_const_mul,
    laplace_pdf_integral d h, laplace_abs_moment d h 1]
  unfold Laplace.entropy; rfun_norm; lit_norm
  simp only [Option.some.injEq, Nat.factorial]
  push_cast
  field_simp
  ring

example : ∃ d : Laplace ℝ, 0 < d.f_scale := ⟨⟨0, 1⟩, one_pos⟩
end laplace

end Statrs.Props.C07
