/-
  C07 (moments derived from the density) — skewness of Exp(r) and Uniform(a, b) as the third
  standardised central moment of the SAME object's generated `pdf` (mean/variance/entropy of these
  two families are in Props/C07/DerivedContinuous.lean):
    Exp(r): raw moments ∫ xⁿ·f = n!/rⁿ;  skewness 2 = ∫ ((x − m)/√v)³·f  (m, v the returned
            mean and variance);
    Uniform(a, b): skewness 0 = ∫ ((x − m)/s)³·f  for every s (symmetry about the mean).
  Carrier ℝ, constructor predicates as hypotheses.  full(ℝ).
-/
import Statrs.Real.Simp
import Statrs.Gen.D_exponential
import Statrs.Gen.D_uniform
import Statrs.Lemmas.Related
import Statrs.Props.C07.MomentIntegralsA
import Statrs.Props.C07.MomentIntegralsA6
import Mathlib.Tactic
namespace Statrs.Props.C07
open Statrs Statrs.Gen Statrs.Lemmas.Related MeasureTheory Set

/-! ### Exp(r) -/
section exp
variable (d : Exp ℝ) (h : 0 < d.f_rate)

include h in
/-- raw moments of the generated density: `∫ xⁿ f = n!/rⁿ` -/
theorem exp_raw_moment (n : ℕ) :
    ∫ x, x ^ n * Exp.pdf d x = (n.factorial : ℝ) / d.f_rate ^ n := by
  have hr : d.f_rate ≠ 0 := h.ne'
  have h0 : ∀ x, x ∉ Ici (0 : ℝ) → x ^ n * Exp.pdf d x = 0 := by
    intro x hx
    rw [mem_Ici, not_le] at hx
    unfold Exp.pdf; lit_norm; simp [hx]
  rw [← setIntegral_eq_integral_of_forall_compl_eq_zero h0, integral_Ici_eq_integral_Ioi]
  have hform : ∀ x ∈ Ioi (0 : ℝ), x ^ n * Exp.pdf d x
      = d.f_rate * (x ^ n * Real.exp (-x / (1 / d.f_rate))) := by
    intro x hx
    rw [mem_Ioi] at hx
    unfold Exp.pdf; rfun_norm; lit_norm
    simp only [not_lt.mpr hx.le, if_false]
    rw [show -x / (1 / d.f_rate) = -d.f_rate * x by field_simp]
    ring
  rw [setIntegral_congr_fun measurableSet_Ioi hform, integral_const_mul,
    integral_pow_mul_exp_neg_div_Ioi n (1 / d.f_rate) (by positivity)]
  rw [one_div, inv_pow, pow_succ]
  field_simp

include h in
theorem exp_raw_moment_integrable (n : ℕ) : Integrable (fun x => x ^ n * Exp.pdf d x) := by
  apply Integrable.of_integral_ne_zero
  rw [exp_raw_moment d h n]
  positivity

include h in
/-- the returned skewness (2) is the third standardised central moment of the generated density,
    centred at the returned mean `m` and scaled by the square root of the returned variance `v` -/
theorem exp_skewness_eq_integral :
    ∃ m v : ℝ, Exp.mean d = some m ∧ Exp.variance d = some v ∧ 0 < v ∧
      Exp.skewness d = some (∫ x, ((x - m) / Real.sqrt v) ^ 3 * Exp.pdf d x) := by
  have hr : d.f_rate ≠ 0 := h.ne'
  refine ⟨1 / d.f_rate, 1 / (d.f_rate * d.f_rate), ?_, ?_, by positivity, ?_⟩
  · unfold Exp.mean; lit_norm
  · unfold Exp.variance; lit_norm
  · have hs : Real.sqrt (1 / (d.f_rate * d.f_rate)) = 1 / d.f_rate := by
      rw [show 1 / (d.f_rate * d.f_rate) = (1 / d.f_rate) ^ 2 by field_simp,
        Real.sqrt_sq (by positivity)]
    rw [integral_standardised_cube,
      integral_cube_sub_mul _ _ (fun k _ => exp_raw_moment_integrable d h k),
      exp_raw_moment d h 0, exp_raw_moment d h 1, exp_raw_moment d h 2, exp_raw_moment d h 3, hs]
    unfold Exp.skewness; lit_norm
    simp only [Option.some.injEq, Nat.factorial]
    push_cast
    field_simp
    ring

example : ∃ d : Exp ℝ, 0 < d.f_rate := ⟨⟨1⟩, one_pos⟩
end exp

/-! ### Uniform(a, b) -/
section uniform
variable (d : Uniform ℝ)

/-- the generated density is symmetric about the midpoint -/
theorem uniform_pdf_symm (t : ℝ) :
    Uniform.pdf d ((d.f_min + d.f_max) / 2 - t) = Uniform.pdf d ((d.f_min + d.f_max) / 2 + t) := by
  unfold Uniform.pdf
  have e : ((d.f_min + d.f_max) / 2 - t < d.f_min ∨ d.f_max < (d.f_min + d.f_max) / 2 - t)
      ↔ ((d.f_min + d.f_max) / 2 + t < d.f_min ∨ d.f_max < (d.f_min + d.f_max) / 2 + t) := by
    constructor
    · rintro (h | h)
      · right; linarith
      · left; linarith
    · rintro (h | h)
      · right; linarith
      · left; linarith
  simp only [e]

/-- skewness: the third standardised central moment of the generated density vanishes (about the
    returned mean `(a+b)/2`, for every scale `s`) -/
theorem uniform_skewness_eq_integral (s : ℝ) :
    Uniform.skewness d
      = some (∫ x, ((x - (d.f_min + d.f_max) / 2) / s) ^ 3 * Uniform.pdf d x) := by
  unfold Uniform.skewness; lit_norm
  simp only [Option.some.injEq]
  rw [integral_eq_zero_of_odd_about _ ((d.f_min + d.f_max) / 2)
    (fun t => by simp only [uniform_pdf_symm]; ring)]

example : ∃ d : Uniform ℝ, d.f_min < d.f_max := ⟨⟨0, 1⟩, by norm_num⟩
end uniform

end Statrs.Props.C07
