/-
  C07 (moments derived from the density) — skewness of the Gamma family (Gamma, Erlang, ChiSquared)
  as the third standardised central moment of the SAME object's generated `pdf`:
    raw moments ∫ xⁿ·f = Γ(s+n)/(Γ(s)·rⁿ);  skewness 2/√s = ∫ ((x − m)/√v)³·f  with m, v the
    returned mean and variance.
  The pdf carries `SF.ln_gamma`/`SF.gamma`: relative to `Spec.GammaDensitySpec` (`…_rel`).
  Hypotheses: the constructor's `0 < shape`, `0 < rate` (on the wrapped Gamma for Erlang/ChiSquared).
-/
import Statrs.Real.Simp
import Statrs.Spec.SFSpec_Density
import Statrs.Props.C03.SFDerivA
import Statrs.Lemmas.MomentIntegralsGamma
import Statrs.Props.C07.MomentIntegralsA6
import Statrs.Props.C07.MomentIntegralsB
import Statrs.Gen.D_gamma
import Statrs.Gen.D_erlang
import Statrs.Gen.D_chi_squared
import Mathlib.Tactic
namespace Statrs.Props.C07
open Statrs Statrs.Gen Statrs.Spec Statrs.Lemmas.Related Statrs.Lemmas.MomentIntegralsGamma
open MeasureTheory Set

variable [SF ℝ]

section gamma
variable (S : GammaDensitySpec) (d : Gamma ℝ) (h1 : 0 < d.f_shape) (h2 : 0 < d.f_rate)

include S h1 h2 in
/-- raw moments of the generated density: `∫ xⁿ f = Γ(s+n)/(Γ(s)·rⁿ)` -/
theorem gamma_raw_moment_rel (n : ℕ) :
    ∫ x, x ^ n * Gamma.pdf d x
      = Real.Gamma (d.f_shape + n) / (Real.Gamma d.f_shape * d.f_rate ^ n) := by
  have hG : 0 < Real.Gamma d.f_shape := Real.Gamma_pos_of_pos h1
  have hrs : 0 < d.f_rate ^ d.f_shape := Real.rpow_pos_of_pos h2 _
  rw [integral_eq_setIntegral_Ioi (f := fun x => x ^ n * Gamma.pdf d x)
    (fun x hx => by rw [gamma_pdf_eq_zero_of_neg d x hx, mul_zero])]
  have e : ∀ x ∈ Ioi (0 : ℝ), x ^ n * Gamma.pdf d x
      = (d.f_rate ^ d.f_shape / Real.Gamma d.f_shape)
        * (x ^ (d.f_shape + n - 1) * Real.exp (-(d.f_rate * x))) := by
    intro x hx
    rw [mem_Ioi] at hx
    rw [C03.gamma_pdf_formula_rel S d h1 h2 x hx,
      show d.f_shape + n - 1 = (n : ℝ) + (d.f_shape - 1) by ring, Real.rpow_add hx,
      Real.rpow_natCast]
    ring
  rw [setIntegral_congr_fun measurableSet_Ioi e, integral_const_mul,
    integral_gammaKernel (by positivity) h2, one_div, Real.inv_rpow h2.le,
    Real.rpow_add h2, Real.rpow_natCast]
  field_simp

include S h1 h2 in
theorem gamma_raw_moment_integrable_rel (n : ℕ) :
    Integrable (fun x => x ^ n * Gamma.pdf d x) := by
  apply Integrable.of_integral_ne_zero
  rw [gamma_raw_moment_rel S d h1 h2 n]
  have : 0 < Real.Gamma (d.f_shape + n) := Real.Gamma_pos_of_pos (by positivity)
  have : 0 < Real.Gamma d.f_shape := Real.Gamma_pos_of_pos h1
  positivity

include S h1 h2 in
/-- the returned skewness `2/√s` is the third standardised central moment of the generated
    density, centred at the returned mean `m` and scaled by the square root of the returned
    variance `v` -/
theorem gamma_skewness_eq_integral_rel :
    ∃ m v : ℝ, Gamma.mean d = some m ∧ Gamma.variance d = some v ∧ 0 < v ∧
      Gamma.skewness d = some (∫ x, ((x - m) / Real.sqrt v) ^ 3 * Gamma.pdf d x) := by
  have hs0 : d.f_shape ≠ 0 := h1.ne'
  have hr0 : d.f_rate ≠ 0 := h2.ne'
  have hG : Real.Gamma d.f_shape ≠ 0 := (Real.Gamma_pos_of_pos h1).ne'
  refine ⟨d.f_shape / d.f_rate, d.f_shape / (d.f_rate * d.f_rate), rfl, rfl, by positivity, ?_⟩
  have g1 : Real.Gamma (d.f_shape + 1) = d.f_shape * Real.Gamma d.f_shape :=
    Real.Gamma_add_one hs0
  have g2 : Real.Gamma (d.f_shape + 2) = (d.f_shape + 1) * (d.f_shape * Real.Gamma d.f_shape) := by
    rw [show d.f_shape + 2 = (d.f_shape + 1) + 1 by ring, Real.Gamma_add_one (by positivity), g1]
  have g3 : Real.Gamma (d.f_shape + 3)
      = (d.f_shape + 2) * ((d.f_shape + 1) * (d.f_shape * Real.Gamma d.f_shape)) := by
    rw [show d.f_shape + 3 = (d.f_shape + 2) + 1 by ring, Real.Gamma_add_one (by positivity), g2]
  have m0 := gamma_raw_moment_rel S d h1 h2 0
  have m1 := gamma_raw_moment_rel S d h1 h2 1
  have m2 := gamma_raw_moment_rel S d h1 h2 2
  have m3 := gamma_raw_moment_rel S d h1 h2 3
  simp only [Nat.cast_zero, add_zero, Nat.cast_one, Nat.cast_ofNat] at m0 m1 m2 m3
  rw [g1] at m1; rw [g2] at m2; rw [g3] at m3
  have hq : 0 < Real.sqrt d.f_shape := Real.sqrt_pos.mpr h1
  have hq2 : Real.sqrt d.f_shape ^ 2 = d.f_shape := Real.sq_sqrt h1.le
  have hsv : Real.sqrt (d.f_shape / (d.f_rate * d.f_rate)) = Real.sqrt d.f_shape / d.f_rate := by
    rw [Real.sqrt_div h1.le, Real.sqrt_mul_self h2.le]
  rw [integral_standardised_cube,
    integral_cube_sub_mul _ _ (fun k _ => gamma_raw_moment_integrable_rel S d h1 h2 k),
    m0, m1, m2, m3, hsv]
  unfold Gamma.skewness; rfun_norm; lit_norm
  simp only [Option.some.injEq]
  set q := Real.sqrt d.f_shape with hqdef
  have hq0 : q ≠ 0 := hq.ne'
  rw [← hq2]
  field_simp
  ring

end gamma

/-- Erlang: the same statement through the wrapped Gamma -/
theorem erlang_skewness_eq_integral_rel (S : GammaDensitySpec) (d : Erlang ℝ)
    (h1 : 0 < d.f_g.f_shape) (h2 : 0 < d.f_g.f_rate) :
    ∃ m v : ℝ, Erlang.mean d = some m ∧ Erlang.variance d = some v ∧ 0 < v ∧
      Erlang.skewness d = some (∫ x, ((x - m) / Real.sqrt v) ^ 3 * Erlang.pdf d x) :=
  gamma_skewness_eq_integral_rel S d.f_g h1 h2

/-- ChiSquared: the same statement through the wrapped Gamma -/
theorem chi_squared_skewness_eq_integral_rel (S : GammaDensitySpec) (d : ChiSquared ℝ)
    (h1 : 0 < d.f_g.f_shape) (h2 : 0 < d.f_g.f_rate) :
    ∃ m v : ℝ, ChiSquared.mean d = some m ∧ ChiSquared.variance d = some v ∧ 0 < v ∧
      ChiSquared.skewness d = some (∫ x, ((x - m) / Real.sqrt v) ^ 3 * ChiSquared.pdf d x) :=
  gamma_skewness_eq_integral_rel S d.f_g h1 h2

/-- non-vacuity -/
example : ∃ d : Gamma ℝ, 0 < d.f_shape ∧ 0 < d.f_rate := ⟨⟨2, 3⟩, by norm_num, by norm_num⟩
example : @GammaDensitySpec sfWitness := gammaDensitySpec_witness

end Statrs.Props.C07
