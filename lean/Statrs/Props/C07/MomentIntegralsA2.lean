/-
  C07 (moments derived from the density) — heavy-tailed families, carrier ℝ, constructor predicates
  as hypotheses, no special-function premise (the pdfs use only exp/sqrt/pow/π):  full(ℝ).
    Pareto(xm, α): ∫ f = 1; raw moments ∫ xᵏ f = α·xmᵏ/(α−k) for k < α;
       α > 1: mean = ∫ x·f;   α ≤ 1: mean = none and x·f is NOT integrable;
       α > 2: variance = ∫ (x−mean)²·f;   α ≤ 2: variance = none and x²·f is NOT integrable.
    Cauchy(x₀, γ): ∫ f = 1; mean = variance = skewness = none and x·f is NOT integrable.
    Levy(μ, c): mean = some RFun.inf (the float +∞; a junk value over ℝ — nothing is claimed about
       it) and x·f is NOT integrable.
-/
import Statrs.Real.Simp
import Statrs.Gen.D_pareto
import Statrs.Gen.D_cauchy
import Statrs.Gen.D_levy
import Statrs.Lemmas.Related
import Mathlib.Tactic
import Mathlib.Analysis.SpecialFunctions.ImproperIntegrals
import Mathlib.Analysis.SpecialFunctions.NonIntegrable
import Mathlib.Probability.Distributions.Cauchy
namespace Statrs.Props.C07
open Statrs Statrs.Gen Statrs.Lemmas.Related MeasureTheory Set

/-! ### non-integrability by comparison with `1/x` -/

/-- a function that dominates `c/x` (c > 0) beyond some point is not integrable over ℝ -/
theorem not_integrable_of_inv_le (g : ℝ → ℝ) (a c : ℝ) (ha : 0 < a) (hc : 0 < c)
    (hg : ∀ x, a < x → c * x⁻¹ ≤ g x) : ¬ Integrable g := by
  intro hint
  have h1 : IntegrableOn (fun x => c⁻¹ * g x) (Ioi a) := (hint.const_mul _).integrableOn
  have h2 : IntegrableOn (fun x : ℝ => x⁻¹) (Ioi a) := by
    refine Integrable.mono' h1 measurable_inv.aestronglyMeasurable ?_
    filter_upwards [ae_restrict_mem measurableSet_Ioi] with x hx
    have hxpos : 0 < x := ha.trans hx
    rw [Real.norm_eq_abs, abs_of_pos (inv_pos.mpr hxpos)]
    have := hg x hx
    calc x⁻¹ = c⁻¹ * (c * x⁻¹) := by field_simp
      _ ≤ c⁻¹ * g x := by gcongr
  exact not_integrableOn_Ioi_inv h2

/-! ### Pareto(xm, α) -/
section pareto
variable (d : Pareto ℝ) (h1 : 0 < d.f_scale) (h2 : 0 < d.f_shape)

theorem pareto_pdf_below (x : ℝ) (hx : x < d.f_scale) : Pareto.pdf d x = 0 := by
  unfold Pareto.pdf; lit_norm; simp [hx]

theorem pareto_pdf_above (x : ℝ) (hx : d.f_scale ≤ x) :
    Pareto.pdf d x = d.f_shape * d.f_scale ^ d.f_shape / x ^ (d.f_shape + 1) := by
  unfold Pareto.pdf; rfun_norm; lit_norm; simp [not_lt.mpr hx]

include h1 in
/-- `xᵏ·f(x)` as a single real power on the support -/
theorem pareto_pow_mul_pdf (k : ℕ) (x : ℝ) (hx : d.f_scale < x) :
    x ^ k * Pareto.pdf d x
      = d.f_shape * d.f_scale ^ d.f_shape * x ^ ((k : ℝ) - d.f_shape - 1) := by
  have hx0 : 0 < x := h1.trans hx
  rw [pareto_pdf_above d x hx.le, ← Real.rpow_natCast x k,
    show (k : ℝ) - d.f_shape - 1 = (k : ℝ) - (d.f_shape + 1) by ring, Real.rpow_sub hx0]
  ring

include h1 in
/-- raw moments of the generated density: `∫ xᵏ f = α·xmᵏ/(α−k)` for `k < α` -/
theorem pareto_raw_moment (k : ℕ) (hk : (k : ℝ) < d.f_shape) :
    ∫ x, x ^ k * Pareto.pdf d x = d.f_shape * d.f_scale ^ k / (d.f_shape - k) := by
  have h0 : ∀ x, x ∉ Ici d.f_scale → x ^ k * Pareto.pdf d x = 0 := by
    intro x hx
    rw [mem_Ici, not_le] at hx
    rw [pareto_pdf_below d x hx, mul_zero]
  rw [← setIntegral_eq_integral_of_forall_compl_eq_zero h0, integral_Ici_eq_integral_Ioi,
    setIntegral_congr_fun measurableSet_Ioi (fun x hx => pareto_pow_mul_pdf d h1 k x hx),
    integral_const_mul, integral_Ioi_rpow_of_lt (by linarith) h1]
  have hne : d.f_shape - k ≠ 0 := by linarith
  have hne' : (k : ℝ) - d.f_shape - 1 + 1 ≠ 0 := by
    intro h; apply hne; linarith
  have e : d.f_scale ^ d.f_shape * d.f_scale ^ ((k : ℝ) - d.f_shape - 1 + 1) = d.f_scale ^ k := by
    rw [← Real.rpow_add h1, ← Real.rpow_natCast]
    congr 1; ring
  rw [show d.f_shape * d.f_scale ^ d.f_shape *
        (-d.f_scale ^ ((k : ℝ) - d.f_shape - 1 + 1) / ((k : ℝ) - d.f_shape - 1 + 1))
      = d.f_shape * (d.f_scale ^ d.f_shape * d.f_scale ^ ((k : ℝ) - d.f_shape - 1 + 1))
        / (-((k : ℝ) - d.f_shape - 1 + 1)) by field_simp, e]
  congr 1; ring

include h1 h2 in
theorem pareto_raw_moment_integrable (k : ℕ) (hk : (k : ℝ) < d.f_shape) :
    Integrable (fun x => x ^ k * Pareto.pdf d x) := by
  apply Integrable.of_integral_ne_zero
  rw [pareto_raw_moment d h1 k hk]
  have : 0 < d.f_shape - k := by linarith
  positivity

include h1 h2 in
theorem pareto_pdf_integral : ∫ x, Pareto.pdf d x = 1 := by
  have := pareto_raw_moment d h1 0 (by simpa using h2)
  simp only [pow_zero, one_mul, Nat.cast_zero, sub_zero, mul_one] at this
  rw [this]; field_simp

include h1 in
/-- α > 1: the returned mean is `∫ x·f` -/
theorem pareto_mean_eq_integral (ha : 1 < d.f_shape) :
    Pareto.mean d = some (∫ x, x * Pareto.pdf d x) := by
  have := pareto_raw_moment d h1 1 (by simpa using ha)
  simp only [pow_one, Nat.cast_one] at this
  rw [this]
  unfold Pareto.mean; lit_norm
  simp [not_le.mpr ha]

include h1 h2 in
/-- α ≤ 1: `mean` returns `none`, and indeed `x·f` is not integrable -/
theorem pareto_mean_none_not_integrable (ha : d.f_shape ≤ 1) :
    Pareto.mean d = none ∧ ¬ Integrable (fun x => x * Pareto.pdf d x) := by
  refine ⟨by unfold Pareto.mean; lit_norm; simp [ha], ?_⟩
  have hc : 0 < d.f_shape * d.f_scale ^ d.f_shape := by positivity
  refine not_integrable_of_inv_le _ (max d.f_scale 1) _ (lt_max_of_lt_left h1) hc ?_
  intro x hx
  have hx1 : 1 < x := (le_max_right _ _).trans_lt hx
  have hxs : d.f_scale < x := (le_max_left _ _).trans_lt hx
  have := pareto_pow_mul_pdf d h1 1 x hxs
  simp only [pow_one, Nat.cast_one] at this
  rw [this]
  apply mul_le_mul_of_nonneg_left _ hc.le
  rw [← Real.rpow_neg_one]
  exact Real.rpow_le_rpow_of_exponent_le hx1.le (by linarith)

include h1 h2 in
/-- α > 2: the returned variance is `∫ (x − m)²·f` with `m = α·xm/(α−1)` the returned mean -/
theorem pareto_variance_eq_integral (ha : 2 < d.f_shape) :
    Pareto.variance d
      = some (∫ x, (x - d.f_shape * d.f_scale / (d.f_shape - 1)) ^ 2 * Pareto.pdf d x) := by
  set m := d.f_shape * d.f_scale / (d.f_shape - 1) with hm
  have i0 := pareto_raw_moment_integrable d h1 h2 0 (by simpa using h2)
  have i1 := pareto_raw_moment_integrable d h1 h2 1 (by simp; linarith)
  have i2 := pareto_raw_moment_integrable d h1 h2 2 (by simpa using ha)
  have m0 := pareto_raw_moment d h1 0 (by simpa using h2)
  have m1 := pareto_raw_moment d h1 1 (by simp; linarith)
  have m2 := pareto_raw_moment d h1 2 (by simpa using ha)
  have hsplit : ∀ x, (x - m) ^ 2 * Pareto.pdf d x
      = x ^ 2 * Pareto.pdf d x + ((-2 * m) * (x ^ 1 * Pareto.pdf d x)
        + (m ^ 2) * (x ^ 0 * Pareto.pdf d x)) := by
    intro x; ring
  simp_rw [hsplit]
  rw [integral_add i2 (show Integrable (fun x => (-2 * m) * (x ^ 1 * Pareto.pdf d x)
        + (m ^ 2) * (x ^ 0 * Pareto.pdf d x)) from (i1.const_mul _).add (i0.const_mul _)),
    integral_add (i1.const_mul _) (i0.const_mul _), integral_const_mul, integral_const_mul,
    m0, m1, m2]
  unfold Pareto.variance; lit_norm
  simp only [not_le.mpr ha, if_false, Option.some.injEq]
  have e1 : d.f_shape - 1 ≠ 0 := by linarith
  have e2 : d.f_shape - 2 ≠ 0 := by linarith
  have e0 : d.f_shape ≠ 0 := h2.ne'
  rw [hm]
  push_cast
  field_simp
  ring

include h1 h2 in
/-- the same statement with the mean written as the integral of the density -/
theorem pareto_variance_eq_integral' (ha : 2 < d.f_shape) :
    Pareto.variance d
      = some (∫ x, (x - ∫ y, y * Pareto.pdf d y) ^ 2 * Pareto.pdf d x) := by
  have hm := pareto_mean_eq_integral d h1 (by linarith)
  unfold Pareto.mean at hm; lit_norm
  simp only [not_le.mpr (show (1 : ℝ) < d.f_shape by linarith), if_false,
    Option.some.injEq] at hm
  rw [← hm]; exact pareto_variance_eq_integral d h1 h2 ha

include h1 h2 in
/-- α ≤ 2: `variance` returns `none`, and indeed `x²·f` is not integrable -/
theorem pareto_variance_none_not_integrable (ha : d.f_shape ≤ 2) :
    Pareto.variance d = none ∧ ¬ Integrable (fun x => x ^ 2 * Pareto.pdf d x) := by
  refine ⟨by unfold Pareto.variance; lit_norm; simp [ha], ?_⟩
  have hc : 0 < d.f_shape * d.f_scale ^ d.f_shape := by positivity
  refine not_integrable_of_inv_le _ (max d.f_scale 1) _ (lt_max_of_lt_left h1) hc ?_
  intro x hx
  have hx1 : 1 < x := (le_max_right _ _).trans_lt hx
  have hxs : d.f_scale < x := (le_max_left _ _).trans_lt hx
  rw [pareto_pow_mul_pdf d h1 2 x hxs]
  apply mul_le_mul_of_nonneg_left _ hc.le
  rw [← Real.rpow_neg_one]
  exact Real.rpow_le_rpow_of_exponent_le hx1.le (by push_cast; linarith)

example : ∃ d : Pareto ℝ, 0 < d.f_scale ∧ 0 < d.f_shape ∧ 2 < d.f_shape :=
  ⟨⟨1, 3⟩, by norm_num, by norm_num, by norm_num⟩
example : ∃ d : Pareto ℝ, 0 < d.f_scale ∧ 0 < d.f_shape ∧ d.f_shape ≤ 1 :=
  ⟨⟨1, 1⟩, by norm_num, by norm_num, by norm_num⟩
end pareto

/-! ### Cauchy(x₀, γ) -/
section cauchy

/-- the scale `γ` of a `Cauchy ℝ` as a nonnegative real (Mathlib's parameterisation) -/
noncomputable def cauchyScale (d : Cauchy ℝ) (h : 0 < d.f_scale) : NNReal := ⟨d.f_scale, h.le⟩

variable (d : Cauchy ℝ) (h : 0 < d.f_scale)

theorem cauchyScale_coe : (cauchyScale d h : ℝ) = d.f_scale := rfl

/-- the generated density is Mathlib's Cauchy density -/
theorem cauchy_pdf_eq_cauchyPDFReal (x : ℝ) :
    Cauchy.pdf d x = ProbabilityTheory.cauchyPDFReal d.f_location (cauchyScale d h) x := by
  unfold Cauchy.pdf ProbabilityTheory.cauchyPDFReal
  rfun_norm; lit_norm
  rw [cauchyScale_coe]
  have hs : d.f_scale ≠ 0 := h.ne'
  have hp : Real.pi ≠ 0 := Real.pi_ne_zero
  have hq : (x - d.f_location) ^ 2 + d.f_scale ^ 2 ≠ 0 := by positivity
  have hq' : 1 + (x - d.f_location) / d.f_scale * ((x - d.f_location) / d.f_scale) ≠ 0 := by
    have := mul_self_nonneg ((x - d.f_location) / d.f_scale); linarith
  field_simp
  ring

include h in
theorem cauchy_pdf_integral : ∫ x, Cauchy.pdf d x = 1 := by
  simp_rw [cauchy_pdf_eq_cauchyPDFReal d h]
  refine ProbabilityTheory.integral_cauchyPDFReal_eq_one _ ?_
  intro h0
  have : (cauchyScale d h : ℝ) = 0 := by rw [h0]; rfl
  rw [cauchyScale_coe] at this
  linarith

include h in
/-- `mean`/`variance`/`skewness` return `none`, and indeed `x·f` is not integrable: the first
    moment (hence every higher one) of the generated density does not exist -/
theorem cauchy_moments_none_not_integrable :
    Cauchy.mean d = none ∧ Cauchy.variance d = none ∧ Cauchy.skewness d = none
      ∧ ¬ Integrable (fun x => x * Cauchy.pdf d x) := by
  refine ⟨rfl, rfl, rfl, ?_⟩
  have hpi := Real.pi_pos
  refine not_integrable_of_inv_le _ (|d.f_location| + d.f_scale + 1) (d.f_scale / (5 * Real.pi))
    (by positivity) (by positivity) ?_
  intro x hx
  have hx0 : 0 < x := by
    have := abs_nonneg d.f_location; linarith
  have hb1 : |x - d.f_location| ≤ 2 * x := by
    rw [abs_le]; constructor <;> linarith [neg_abs_le d.f_location, le_abs_self d.f_location]
  have hb2 : (x - d.f_location) ^ 2 ≤ (2 * x) ^ 2 := by
    rw [← sq_abs]; exact pow_le_pow_left₀ (abs_nonneg _) hb1 2
  have hb3 : d.f_scale ^ 2 ≤ x ^ 2 :=
    pow_le_pow_left₀ h.le (by linarith [abs_nonneg d.f_location]) 2
  have hs : d.f_scale ≠ 0 := h.ne'
  have hpdf : Cauchy.pdf d x
      = d.f_scale / (Real.pi * ((x - d.f_location) ^ 2 + d.f_scale ^ 2)) := by
    unfold Cauchy.pdf; rfun_norm; lit_norm
    have hq : (x - d.f_location) ^ 2 + d.f_scale ^ 2 ≠ 0 := by positivity
    have hq' : 1 + (x - d.f_location) / d.f_scale * ((x - d.f_location) / d.f_scale) ≠ 0 := by
      have := mul_self_nonneg ((x - d.f_location) / d.f_scale); linarith
    field_simp
    ring
  rw [hpdf]
  have hden : 0 < Real.pi * ((x - d.f_location) ^ 2 + d.f_scale ^ 2) := by positivity
  rw [div_mul_eq_mul_div, ← mul_div_assoc, div_le_div_iff₀ (by positivity) hden]
  have : (x - d.f_location) ^ 2 + d.f_scale ^ 2 ≤ 5 * x ^ 2 := by nlinarith
  have hx' : x⁻¹ * x = 1 := by field_simp
  calc d.f_scale * x⁻¹ * (Real.pi * ((x - d.f_location) ^ 2 + d.f_scale ^ 2))
      ≤ d.f_scale * x⁻¹ * (Real.pi * (5 * x ^ 2)) := by gcongr
    _ = x * d.f_scale * (5 * Real.pi) * (x⁻¹ * x) := by ring
    _ = x * d.f_scale * (5 * Real.pi) := by rw [hx', mul_one]

example : ∃ d : Cauchy ℝ, 0 < d.f_scale := ⟨⟨0, 1⟩, one_pos⟩
end cauchy

/-! ### Levy(μ, c) -/
section levy
variable (d : Levy ℝ) (h : 0 < d.f_c)

include h in
/-- `mean` returns the float `+∞` (`RFun.inf`; over ℝ a junk value about which nothing is claimed),
    and indeed `x·f` is not integrable: the generated density has no first moment -/
theorem levy_mean_inf_not_integrable :
    Levy.mean d = some RFun.inf ∧ ¬ Integrable (fun x => x * Levy.pdf d x) := by
  refine ⟨rfl, ?_⟩
  have hpi := Real.pi_pos
  set K : ℝ := Real.sqrt (d.f_c / (2 * Real.pi)) * Real.exp (-(1 / 2)) with hK
  have hKpos : 0 < K := by positivity
  refine not_integrable_of_inv_le _ (|d.f_mu| + d.f_c + 1) (K / 4)
    (by positivity) (by positivity) ?_
  intro x hx
  have habs := abs_nonneg d.f_mu
  have hx0 : 0 < x := by linarith
  have ht1 : 1 ≤ x - d.f_mu := by linarith [le_abs_self d.f_mu]
  have htc : d.f_c ≤ x - d.f_mu := by linarith [le_abs_self d.f_mu]
  have ht2 : x - d.f_mu ≤ 2 * x := by linarith [neg_abs_le d.f_mu]
  have ht0 : 0 < x - d.f_mu := by linarith
  have hpdf : Levy.pdf d x = Real.sqrt (d.f_c / (2 * Real.pi))
      * Real.exp (-(1 / 2 * d.f_c / (x - d.f_mu))) / (x - d.f_mu) ^ (3 / 2 : ℝ) := by
    unfold Levy.pdf; rfun_norm; lit_norm
    simp [not_le.mpr (show d.f_mu < x by linarith)]
  rw [hpdf]
  have hexp : Real.exp (-(1 / 2)) ≤ Real.exp (-(1 / 2 * d.f_c / (x - d.f_mu))) := by
    apply Real.exp_le_exp.mpr
    rw [neg_le_neg_iff, div_le_iff₀ ht0]
    linarith
  have hpow : (x - d.f_mu) ^ (3 / 2 : ℝ) ≤ 4 * x ^ 2 := by
    calc (x - d.f_mu) ^ (3 / 2 : ℝ) ≤ (x - d.f_mu) ^ (2 : ℝ) :=
          Real.rpow_le_rpow_of_exponent_le ht1 (by norm_num)
      _ = (x - d.f_mu) ^ 2 := Real.rpow_two _
      _ ≤ (2 * x) ^ 2 := pow_le_pow_left₀ ht0.le ht2 2
      _ = 4 * x ^ 2 := by ring
  have hpowpos : 0 < (x - d.f_mu) ^ (3 / 2 : ℝ) := Real.rpow_pos_of_pos ht0 _
  rw [← mul_div_assoc, le_div_iff₀ hpowpos]
  have hx' : x⁻¹ * x = 1 := by field_simp
  calc K / 4 * x⁻¹ * (x - d.f_mu) ^ (3 / 2 : ℝ)
      ≤ K / 4 * x⁻¹ * (4 * x ^ 2) := by gcongr
    _ = x * K * (x⁻¹ * x) := by ring
    _ = x * (Real.sqrt (d.f_c / (2 * Real.pi)) * Real.exp (-(1 / 2))) := by rw [hx', mul_one]
    _ ≤ x * (Real.sqrt (d.f_c / (2 * Real.pi))
          * Real.exp (-(1 / 2 * d.f_c / (x - d.f_mu)))) := by gcongr

example : ∃ d : Levy ℝ, 0 < d.f_c := ⟨⟨0, 1⟩, one_pos⟩
end levy

end Statrs.Props.C07
