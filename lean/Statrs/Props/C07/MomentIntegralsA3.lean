/-
  C07 (moments derived from the density) — LogNormal(μ, σ): the closed forms returned by
  `mean`/`variance`/`entropy` equal the corresponding integrals over ℝ of the SAME object's
  generated `pdf`:
    ∫ f = 1,  raw moments ∫ xᵏ·f = exp(kμ + k²σ²/2),  mean = ∫ x·f,  variance = ∫ (x−mean)²·f,
    entropy = −∫ f ln f.
  Method: the substitution x = eᵗ turns x·f(x) into the generated Normal(μ, σ) density (identified
  with Mathlib's Gaussian in MomentIntegralsA), and the raw moments become the Gaussian
  moment-generating function (`mgf_id_gaussianReal`).
  Carrier ℝ, constructor predicate `0 < σ` as hypothesis.  full(ℝ): the pdf uses only exp/ln/sqrt/π.
-/
import Statrs.Real.Simp
import Statrs.Gen.D_log_normal
import Statrs.Lemmas.Related
import Statrs.Props.C07.MomentIntegralsA
import Mathlib.Tactic
import Mathlib.MeasureTheory.Function.JacobianOneDim
namespace Statrs.Props.C07
open Statrs Statrs.Gen Statrs.Lemmas.Related MeasureTheory Set ProbabilityTheory

/-- substitution `y = eˣ`: `∫₀^∞ g = ∫_ℝ eˣ·g(eˣ)` -/
theorem integral_Ioi_zero_eq_integral_comp_exp (g : ℝ → ℝ) :
    ∫ y in Ioi (0 : ℝ), g y = ∫ x, Real.exp x * g (Real.exp x) := by
  have := integral_image_eq_integral_abs_deriv_smul (s := univ) (f := Real.exp) (f' := Real.exp)
    MeasurableSet.univ (fun x _ => (Real.hasDerivAt_exp x).hasDerivWithinAt)
    (fun x _ y _ hxy => Real.exp_injective hxy) g
  rw [image_univ, Real.range_exp] at this
  rw [this, Measure.restrict_univ]
  simp only [abs_of_pos (Real.exp_pos _), smul_eq_mul]

/-! ### LogNormal(μ, σ) -/
section lognormal
variable (d : LogNormal ℝ) (h : 0 < d.f_scale)

/-- the Normal(μ, σ) of `ln X` -/
def lognormalBase (d : LogNormal ℝ) : Normal ℝ := ⟨d.f_location, d.f_scale⟩

theorem lognormal_pdf_nonpos (x : ℝ) (hx : x ≤ 0) : LogNormal.pdf d x = 0 := by
  unfold LogNormal.pdf; rfun_norm; lit_norm; simp [hx]

include h in
/-- `eᵗ·f(eᵗ)` is the generated Normal(μ, σ) density at `t` -/
theorem lognormal_pdf_exp (t : ℝ) :
    Real.exp t * LogNormal.pdf d (Real.exp t) = Normal.pdf (lognormalBase d) t := by
  unfold LogNormal.pdf Normal.pdf D.normal.pdf_unchecked lognormalBase
  rfun_norm; lit_norm
  simp only [not_le.mpr (Real.exp_pos t), Bool.false_eq_true, or_self, if_false, Real.log_exp]
  have he : Real.exp t ≠ 0 := (Real.exp_pos t).ne'
  have hs : d.f_scale ≠ 0 := h.ne'
  have hp : Real.sqrt (2 * Real.pi) ≠ 0 := by positivity
  field_simp

include h in
/-- integrals against the generated density are Gaussian integrals in `t = ln x` -/
theorem lognormal_integral_mul_pdf (g : ℝ → ℝ) :
    ∫ x, g x * LogNormal.pdf d x
      = ∫ t, g (Real.exp t) ∂(gaussianReal d.f_location (normalVar (lognormalBase d))) := by
  have h0 : ∀ x, x ∉ Ioi (0 : ℝ) → g x * LogNormal.pdf d x = 0 := by
    intro x hx
    rw [mem_Ioi, not_lt] at hx
    rw [lognormal_pdf_nonpos d x hx, mul_zero]
  have key := normal_integral_mul_pdf (lognormalBase d) h (fun t => g (Real.exp t))
  change _ = ∫ t, g (Real.exp t) ∂(gaussianReal d.f_location (normalVar (lognormalBase d)))
    at key
  rw [← setIntegral_eq_integral_of_forall_compl_eq_zero h0,
    integral_Ioi_zero_eq_integral_comp_exp, ← key]
  apply integral_congr_ae
  filter_upwards with t
  rw [← lognormal_pdf_exp d h t]; ring

include h in
/-- raw moments of the generated density: `∫ xᵏ f = exp(kμ + k²σ²/2)` -/
theorem lognormal_raw_moment (k : ℕ) :
    ∫ x, x ^ k * LogNormal.pdf d x
      = Real.exp (d.f_location * k + d.f_scale * d.f_scale * (k : ℝ) ^ 2 / 2) := by
  rw [lognormal_integral_mul_pdf d h (fun x => x ^ k)]
  have := congrFun (mgf_id_gaussianReal (μ := d.f_location) (v := normalVar (lognormalBase d))) k
  simp only [mgf, id] at this
  rw [normalVar_coe] at this
  change _ = Real.exp (d.f_location * k + d.f_scale * d.f_scale * (k : ℝ) ^ 2 / 2) at this
  rw [← this]
  apply integral_congr_ae
  filter_upwards with t
  rw [← Real.exp_nat_mul]

include h in
theorem lognormal_raw_moment_integrable (k : ℕ) :
    Integrable (fun x => x ^ k * LogNormal.pdf d x) := by
  apply Integrable.of_integral_ne_zero
  rw [lognormal_raw_moment d h k]
  exact (Real.exp_pos _).ne'

include h in
theorem lognormal_pdf_integral : ∫ x, LogNormal.pdf d x = 1 := by
  have := lognormal_raw_moment d h 0
  simpa using this

include h in
theorem lognormal_mean_eq_integral : LogNormal.mean d = some (∫ x, x * LogNormal.pdf d x) := by
  have := lognormal_raw_moment d h 1
  simp only [pow_one, Nat.cast_one, mul_one, one_pow] at this
  rw [this]
  unfold LogNormal.mean; rfun_norm; lit_norm

include h in
/-- the returned variance is `∫ (x − m)²·f` with `m = exp(μ + σ²/2)` the returned mean -/
theorem lognormal_variance_eq_integral :
    LogNormal.variance d
      = some (∫ x, (x - Real.exp (d.f_location + d.f_scale * d.f_scale / 2)) ^ 2
          * LogNormal.pdf d x) := by
  set m := Real.exp (d.f_location + d.f_scale * d.f_scale / 2) with hm
  have i0 := lognormal_raw_moment_integrable d h 0
  have i1 := lognormal_raw_moment_integrable d h 1
  have i2 := lognormal_raw_moment_integrable d h 2
  have m0 := lognormal_raw_moment d h 0
  have m1 := lognormal_raw_moment d h 1
  have m2 := lognormal_raw_moment d h 2
  have m2' : ∫ x, x ^ 2 * LogNormal.pdf d x = Real.exp (d.f_scale * d.f_scale)
      * Real.exp (d.f_location + d.f_location + d.f_scale * d.f_scale) := by
    rw [m2, ← Real.exp_add]; congr 1; push_cast; ring
  have m1' : ∫ x, x ^ 1 * LogNormal.pdf d x = m := by
    rw [m1, hm]; congr 1; push_cast; ring
  have m0' : ∫ x, x ^ 0 * LogNormal.pdf d x = 1 := by rw [m0]; simp
  have mm : m ^ 2 = Real.exp (d.f_location + d.f_location + d.f_scale * d.f_scale) := by
    rw [hm, sq, ← Real.exp_add]; congr 1; ring
  have hsplit : ∀ x, (x - m) ^ 2 * LogNormal.pdf d x
      = x ^ 2 * LogNormal.pdf d x + ((-2 * m) * (x ^ 1 * LogNormal.pdf d x)
        + (m ^ 2) * (x ^ 0 * LogNormal.pdf d x)) := by
    intro x; ring
  simp_rw [hsplit]
  rw [integral_add i2 (show Integrable (fun x => (-2 * m) * (x ^ 1 * LogNormal.pdf d x)
        + (m ^ 2) * (x ^ 0 * LogNormal.pdf d x)) from (i1.const_mul _).add (i0.const_mul _)),
    integral_add (i1.const_mul _) (i0.const_mul _), integral_const_mul, integral_const_mul,
    m0', m1', m2']
  unfold LogNormal.variance; rfun_norm; lit_norm
  simp only [Option.some.injEq]
  rw [show -2 * m * m = -2 * m ^ 2 by ring, mm]
  ring

include h in
/-- the same statement with the mean written as the integral of the density -/
theorem lognormal_variance_eq_integral' :
    LogNormal.variance d
      = some (∫ x, (x - ∫ y, y * LogNormal.pdf d y) ^ 2 * LogNormal.pdf d x) := by
  have hm := lognormal_mean_eq_integral d h
  unfold LogNormal.mean at hm; rfun_norm; lit_norm
  rw [← Option.some.inj hm]; exact lognormal_variance_eq_integral d h

include h in
/-- differential entropy: `−∫ f ln f = ½ + ln σ + μ + ln √(2π)` -/
theorem lognormal_entropy_eq_integral :
    LogNormal.entropy d
      = some (-∫ x, LogNormal.pdf d x * Real.log (LogNormal.pdf d x)) := by
  have hs : d.f_scale ≠ 0 := h.ne'
  have hp : 0 < Real.sqrt (2 * Real.pi) := by positivity
  set n := lognormalBase d with hn
  have hnm : n.f_mean = d.f_location := rfl
  have hns : n.f_std_dev = d.f_scale := rfl
  set c : ℝ := Real.log (Real.sqrt (2 * Real.pi) * d.f_scale) with hc
  -- reduce to an integral in t = ln x against the Normal(μ, σ) density
  have h0 : ∀ x, x ∉ Ioi (0 : ℝ) → LogNormal.pdf d x * Real.log (LogNormal.pdf d x) = 0 := by
    intro x hx
    rw [mem_Ioi, not_lt] at hx
    rw [lognormal_pdf_nonpos d x hx, zero_mul]
  rw [← setIntegral_eq_integral_of_forall_compl_eq_zero h0,
    integral_Ioi_zero_eq_integral_comp_exp]
  have hlog : ∀ t, Real.exp t * (LogNormal.pdf d (Real.exp t)
        * Real.log (LogNormal.pdf d (Real.exp t)))
      = (-(1 / (2 * (d.f_scale * d.f_scale)))) * ((t - n.f_mean) ^ 2 * Normal.pdf n t)
        + ((-1) * ((t - n.f_mean) * Normal.pdf n t)
          + (-(c + d.f_location)) * Normal.pdf n t) := by
    intro t
    rw [← mul_assoc, lognormal_pdf_exp d h t]
    have hl : Real.log (LogNormal.pdf d (Real.exp t))
        = -(1 / (2 * (d.f_scale * d.f_scale))) * (t - d.f_location) ^ 2 - t - c := by
      unfold LogNormal.pdf
      rfun_norm; lit_norm
      simp only [not_le.mpr (Real.exp_pos t), Bool.false_eq_true, or_self, if_false,
        Real.log_exp]
      rw [Real.log_div (Real.exp_pos _).ne' (by positivity), Real.log_exp,
        show Real.exp t * Real.sqrt (2 * Real.pi) * d.f_scale
          = Real.exp t * (Real.sqrt (2 * Real.pi) * d.f_scale) by ring,
        Real.log_mul (Real.exp_pos t).ne' (by positivity), Real.log_exp, hc]
      field_simp
      ring
    rw [hl, hnm]; ring
  simp_rw [hlog]
  have i2 := normal_second_moment_integrable n h
  have i0 := normal_pdf_integrable n h
  have hcont : Continuous (fun t => Normal.pdf n t) := by
    unfold Normal.pdf D.normal.pdf_unchecked; rfun_norm; fun_prop
  have hnn : ∀ t, 0 ≤ Normal.pdf n t := by
    intro t; unfold Normal.pdf D.normal.pdf_unchecked; rfun_norm
    have : 0 < n.f_std_dev := h
    positivity
  have i1 : Integrable (fun t => (t - n.f_mean) * Normal.pdf n t) := by
    refine (i0.add i2).mono
      ((continuous_id.sub continuous_const).mul hcont).aestronglyMeasurable ?_
    filter_upwards with t
    have hp0 := hnn t
    simp only [Pi.add_apply, norm_mul, Real.norm_eq_abs]
    rw [abs_of_nonneg hp0, abs_of_nonneg (add_nonneg hp0 (mul_nonneg (sq_nonneg _) hp0))]
    have : |t - n.f_mean| ≤ 1 + (t - n.f_mean) ^ 2 := by
      rw [abs_le]; constructor <;> nlinarith [sq_nonneg (t - n.f_mean - 1),
        sq_nonneg (t - n.f_mean + 1)]
    calc |t - n.f_mean| * Normal.pdf n t ≤ (1 + (t - n.f_mean) ^ 2) * Normal.pdf n t := by gcongr
      _ = Normal.pdf n t + (t - n.f_mean) ^ 2 * Normal.pdf n t := by ring
  have e1 : ∫ t, (t - n.f_mean) * Normal.pdf n t = 0 :=
    integral_eq_zero_of_odd_about _ n.f_mean (fun t => by simp only [← normal_pdf_symm]; ring)
  rw [integral_add (i2.const_mul _) (show Integrable (fun t =>
        (-1) * ((t - n.f_mean) * Normal.pdf n t) + (-(c + d.f_location)) * Normal.pdf n t)
        from (i1.const_mul _).add (i0.const_mul _)),
    integral_add (i1.const_mul _) (i0.const_mul _),
    integral_const_mul, integral_const_mul, integral_const_mul, e1, normal_pdf_integral n h]
  have hv := normal_variance_eq_integral n h
  unfold Normal.variance at hv
  rw [← Option.some.inj hv, hns]
  unfold LogNormal.entropy
  rfun_norm; lit_norm
  simp only [Option.some.injEq]
  rw [hc, Real.log_mul hp.ne' hs]
  field_simp
  ring

example : ∃ d : LogNormal ℝ, 0 < d.f_scale := ⟨⟨0, 1⟩, one_pos⟩
end lognormal

end Statrs.Props.C07
