/-
  C07 (moments derived from the density) — Pareto(xm, α) entropy: the value returned by
  `Pareto.entropy` is `+∫ f ln f` of the generated density, i.e. MINUS the differential entropy,
  for every constructed distribution (`pareto_entropy_eq_pos_integral`); the differential entropy
  itself is `−∫ f ln f = ln xm − ln α + 1/α + 1` (`pareto_neg_integral_pdf_log`).  Hence the C07
  statement "entropy = −∫ f ln f" is FALSE for the model: `pareto_entropy_integral_counterexample`
  (witness xm = α = 1: returned −2, true +2).  Carrier ℝ, no special-function premise.
-/
import Statrs.Real.Simp
import Statrs.Gen.D_pareto
import Statrs.Lemmas.Related
import Statrs.Props.C07.MomentIntegralsA2
import Mathlib.Tactic
import Mathlib.MeasureTheory.Integral.IntegralEqImproper
import Mathlib.Analysis.SpecialFunctions.Pow.Asymptotics
namespace Statrs.Props.C07
open Statrs Statrs.Gen Statrs.Lemmas.Related MeasureTheory Set Filter Topology

/-- antiderivative of `x^(−a−1)·(ln x − L)` -/
private noncomputable def parG (a L : ℝ) (y : ℝ) : ℝ :=
  (-(y ^ (-a)) * (Real.log y - L)) / a - y ^ (-a) / a ^ 2

private lemma parG_hasDerivAt (a L x : ℝ) (ha : 0 < a) (hx : 0 < x) :
    HasDerivAt (parG a L) (x ^ (-a - 1) * (Real.log x - L)) x := by
  have h1 := Real.hasDerivAt_rpow_const (x := x) (p := -a) (Or.inl hx.ne')
  have h2 := (Real.hasDerivAt_log hx.ne').sub_const L
  have := ((h1.neg.mul h2).div_const a).sub (h1.div_const (a ^ 2))
  refine this.congr_deriv ?_
  have e : x ^ (-a) = x ^ (-a - 1) * x := by
    rw [Real.rpow_sub_one hx.ne']; field_simp
  simp only [Pi.neg_apply]
  rw [e]
  have ha' : a ≠ 0 := ha.ne'
  field_simp
  ring

private lemma parG_tendsto (a L : ℝ) (ha : 0 < a) : Tendsto (parG a L) atTop (𝓝 0) := by
  have t1 : Tendsto (fun x : ℝ => x ^ (-a)) atTop (𝓝 0) := tendsto_rpow_neg_atTop ha
  have t2 : Tendsto (fun x : ℝ => x ^ (-a) * Real.log x) atTop (𝓝 0) := by
    have := (isLittleO_log_rpow_atTop ha).tendsto_div_nhds_zero
    refine this.congr' ?_
    filter_upwards [eventually_gt_atTop 0] with x hx
    rw [Real.rpow_neg hx.le]; field_simp
  have : Tendsto (fun x : ℝ => (-(x ^ (-a) * Real.log x) + L * x ^ (-a)) / a - x ^ (-a) / a ^ 2)
      atTop (𝓝 ((-0 + L * 0) / a - 0 / a ^ 2)) :=
    ((t2.neg.add (t1.const_mul L)).div_const a).sub (t1.div_const _)
  simp only [neg_zero, mul_zero, add_zero, zero_div, sub_zero] at this
  refine this.congr (fun x => ?_)
  unfold parG; ring

/-- `∫_{xm}^∞ x^(−α−1)(ln x − ln xm) dx = xm^(−α)/α²`, with integrability -/
private lemma par_log_integral (a xm : ℝ) (ha : 0 < a) (hxm : 0 < xm) :
    IntegrableOn (fun x => x ^ (-a - 1) * (Real.log x - Real.log xm)) (Ioi xm)
      ∧ ∫ x in Ioi xm, x ^ (-a - 1) * (Real.log x - Real.log xm) = xm ^ (-a) / a ^ 2 := by
  have hcont : ContinuousWithinAt (parG a (Real.log xm)) (Ici xm) xm :=
    (parG_hasDerivAt a _ xm ha hxm).continuousAt.continuousWithinAt
  have hderiv : ∀ x ∈ Ioi xm, HasDerivAt (parG a (Real.log xm))
      (x ^ (-a - 1) * (Real.log x - Real.log xm)) x :=
    fun x hx => parG_hasDerivAt a _ x ha (hxm.trans hx)
  have hpos : ∀ x ∈ Ioi xm, 0 ≤ x ^ (-a - 1) * (Real.log x - Real.log xm) := by
    intro x hx
    have hx0 : 0 < x := hxm.trans hx
    have : Real.log xm ≤ Real.log x := Real.log_le_log hxm (le_of_lt hx)
    exact mul_nonneg (Real.rpow_pos_of_pos hx0 _).le (by linarith)
  refine ⟨integrableOn_Ioi_deriv_of_nonneg hcont hderiv hpos (parG_tendsto a _ ha), ?_⟩
  rw [integral_Ioi_of_hasDerivAt_of_nonneg hcont hderiv hpos (parG_tendsto a _ ha)]
  unfold parG
  ring

section pareto
variable (d : Pareto ℝ) (h1 : 0 < d.f_scale) (h2 : 0 < d.f_shape)

include h1 h2 in
/-- `∫ f ln f = ln α − ln xm − 1/α − 1` for the generated density -/
theorem pareto_integral_pdf_log :
    ∫ x, Pareto.pdf d x * Real.log (Pareto.pdf d x)
      = Real.log d.f_shape - Real.log d.f_scale - 1 / d.f_shape - 1 := by
  set a := d.f_shape with hadef
  set xm := d.f_scale with hxmdef
  have ha0 : a ≠ 0 := h2.ne'
  have hC : 0 < a * xm ^ a := by positivity
  have h0 : ∀ x, x ∉ Ici xm → Pareto.pdf d x * Real.log (Pareto.pdf d x) = 0 := by
    intro x hx
    rw [mem_Ici, not_le] at hx
    rw [pareto_pdf_below d x hx, zero_mul]
  rw [← setIntegral_eq_integral_of_forall_compl_eq_zero h0, integral_Ici_eq_integral_Ioi]
  have hform : ∀ x ∈ Ioi xm, Pareto.pdf d x * Real.log (Pareto.pdf d x)
      = (Real.log a - Real.log xm) * (a * xm ^ a * x ^ (-a - 1))
        + (-((a + 1) * (a * xm ^ a))) * (x ^ (-a - 1) * (Real.log x - Real.log xm)) := by
    intro x hx
    have hx0 : 0 < x := h1.trans hx
    have hp := pareto_pow_mul_pdf d h1 0 x hx
    simp only [pow_zero, one_mul, Nat.cast_zero, zero_sub] at hp
    rw [hp, Real.log_mul hC.ne' (Real.rpow_pos_of_pos hx0 _).ne',
      Real.log_mul ha0 (Real.rpow_pos_of_pos h1 _).ne', Real.log_rpow h1, Real.log_rpow hx0]
    ring
  rw [setIntegral_congr_fun measurableSet_Ioi hform]
  obtain ⟨hint, hval⟩ := par_log_integral a xm h2 h1
  have hint0 : IntegrableOn (fun x : ℝ => x ^ (-a - 1)) (Ioi xm) :=
    integrableOn_Ioi_rpow_of_lt (by linarith) h1
  rw [integral_add ((hint0.const_mul _).const_mul _) (hint.const_mul _), integral_const_mul,
    integral_const_mul, integral_const_mul, hval, integral_Ioi_rpow_of_lt (by linarith) h1]
  have e1 : xm ^ (-a - 1 + 1) = xm ^ (-a) := by congr 1; ring
  have e2 : xm ^ a * xm ^ (-a) = 1 := by
    rw [← Real.rpow_add h1]; simp
  rw [e1, show (Real.log a - Real.log xm) * (a * xm ^ a * (-xm ^ (-a) / (-a - 1 + 1)))
      = (Real.log a - Real.log xm) * (a * (xm ^ a * xm ^ (-a)) / a) by
        rw [show -a - 1 + 1 = -a by ring]; field_simp,
    show -((a + 1) * (a * xm ^ a)) * (xm ^ (-a) / a ^ 2)
      = -((a + 1) * (a * (xm ^ a * xm ^ (-a)))) / a ^ 2 by ring, e2]
  field_simp
  ring

include h1 h2 in
/-- the differential entropy of the generated density: `−∫ f ln f = ln xm − ln α + 1/α + 1` -/
theorem pareto_neg_integral_pdf_log :
    -∫ x, Pareto.pdf d x * Real.log (Pareto.pdf d x)
      = Real.log d.f_scale - Real.log d.f_shape + 1 / d.f_shape + 1 := by
  rw [pareto_integral_pdf_log d h1 h2]; ring

include h1 h2 in
/-- `Pareto.entropy` returns `+∫ f ln f`, i.e. the NEGATIVE of the differential entropy, for every
    constructed Pareto distribution (wrong sign in the source formula) -/
theorem pareto_entropy_eq_pos_integral :
    Pareto.entropy d = some (∫ x, Pareto.pdf d x * Real.log (Pareto.pdf d x)) := by
  rw [pareto_integral_pdf_log d h1 h2]
  unfold Pareto.entropy; rfun_norm; lit_norm

/-- C07 fails for `Pareto::entropy`: for xm = α = 1 the returned value (−2) is not `−∫ f ln f`
    (= +2) -/
theorem pareto_entropy_integral_counterexample :
    ∃ d : Pareto ℝ, 0 < d.f_scale ∧ 0 < d.f_shape ∧
      Pareto.entropy d ≠ some (-∫ x, Pareto.pdf d x * Real.log (Pareto.pdf d x)) := by
  refine ⟨⟨1, 1⟩, one_pos, one_pos, ?_⟩
  rw [pareto_entropy_eq_pos_integral _ one_pos one_pos,
    pareto_integral_pdf_log _ one_pos one_pos]
  simp only [Real.log_one, ne_eq, Option.some.injEq]
  norm_num

example : ∃ d : Pareto ℝ, 0 < d.f_scale ∧ 0 < d.f_shape := ⟨⟨1, 1⟩, one_pos, one_pos⟩
end pareto

end Statrs.Props.C07
