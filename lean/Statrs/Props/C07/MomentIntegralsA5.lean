/-
  C07 (moments derived from the density) — Gumbel(μ, β): the closed forms returned by
  `mean`/`entropy` equal the corresponding integrals over ℝ of the SAME object's generated `pdf`:
    ∫ f = 1,  mean = μ + γβ = ∫ x·f,  entropy = 1 + γ + ln β = −∫ f ln f
  (γ the Euler–Mascheroni constant, `RFun.c_EULER_MASCHERONI = Real.eulerMascheroniConstant`).
  Method: the substitution u = exp(−(x−μ)/β) turns integrals against the density into
  `∫₀^∞ g(μ − β ln u)·e^{−u} du`; `∫₀^∞ ln u·e^{−u} du = Γ'(1) = −γ` comes from Mathlib's
  `Complex.hasDerivAt_GammaIntegral` and `Complex.hasDerivAt_Gamma_one`.
  Carrier ℝ, constructor predicate `0 < β` as hypothesis.  full(ℝ): the pdf uses only exp.
  Not covered: variance (needs Γ''(1) = γ² + π²/6) and skewness (the source uses the rounded
  literal 1.13955 for 12√6·ζ(3)/π³).
-/
import Statrs.Real.Simp
import Statrs.Gen.D_gumbel
import Statrs.Lemmas.Related
import Statrs.Props.C07.MomentIntegralsA3
import Mathlib.Tactic
import Mathlib.NumberTheory.Harmonic.GammaDeriv
import Mathlib.Analysis.SpecialFunctions.Gamma.Deriv
import Mathlib.Analysis.SpecialFunctions.ImproperIntegrals
import Mathlib.MeasureTheory.Measure.Haar.NormedSpace
namespace Statrs.Props.C07
open Statrs Statrs.Gen Statrs.Lemmas.Related MeasureTheory Set Filter Topology

/-- `∫₀^∞ ln t·e^{−t} dt = Γ'(1) = −γ` -/
theorem integral_log_mul_exp_neg_Ioi :
    ∫ t in Ioi (0 : ℝ), Real.log t * Real.exp (-t) = -Real.eulerMascheroniConstant := by
  have h1 := Complex.hasDerivAt_GammaIntegral (s := 1) (by simp)
  have h2 : HasDerivAt Complex.GammaIntegral (-(Real.eulerMascheroniConstant : ℂ)) 1 := by
    refine Complex.hasDerivAt_Gamma_one.congr_of_eventuallyEq ?_
    have hopen : IsOpen {s : ℂ | 0 < s.re} := isOpen_lt continuous_const Complex.continuous_re
    filter_upwards [hopen.mem_nhds (show (1 : ℂ) ∈ {s : ℂ | 0 < s.re} by simp)] with s hs
    exact (Complex.Gamma_eq_integral hs).symm
  have h3 := h1.unique h2
  have h4 : (∫ t : ℝ in Ioi 0, (t : ℂ) ^ ((1 : ℂ) - 1) * ((Real.log t : ℂ) * (Real.exp (-t) : ℂ)))
      = ((∫ t in Ioi (0 : ℝ), Real.log t * Real.exp (-t) : ℝ) : ℂ) := by
    rw [← integral_complex_ofReal]
    apply setIntegral_congr_fun measurableSet_Ioi
    intro t ht
    simp
  rw [h4] at h3
  exact_mod_cast h3

theorem integrableOn_log_mul_exp_neg_Ioi :
    IntegrableOn (fun t : ℝ => Real.log t * Real.exp (-t)) (Ioi 0) := by
  apply Integrable.of_integral_ne_zero
  rw [integral_log_mul_exp_neg_Ioi]
  have := Real.one_half_lt_eulerMascheroniConstant
  linarith

/-- `∫₀^∞ t·e^{−t} dt = 1`, with integrability -/
theorem integral_id_mul_exp_neg_Ioi :
    IntegrableOn (fun t : ℝ => t * Real.exp (-t)) (Ioi 0)
      ∧ ∫ t in Ioi (0 : ℝ), t * Real.exp (-t) = 1 := by
  have hv : ∫ t in Ioi (0 : ℝ), t * Real.exp (-t) = 1 := by
    have := integral_pow_mul_exp_neg_div_Ioi 1 1 one_pos
    simpa using this
  exact ⟨Integrable.of_integral_ne_zero (by rw [hv]; exact one_ne_zero), hv⟩

/-! ### Gumbel(μ, β) -/
section gumbel
variable (d : Gumbel ℝ) (h : 0 < d.f_scale)

include h in
/-- the generated density at `x = μ − β·t` -/
theorem gumbel_pdf_affine (t : ℝ) :
    Gumbel.pdf d (d.f_location - d.f_scale * t)
      = 1 / d.f_scale * Real.exp t * Real.exp (-Real.exp t) := by
  unfold Gumbel.pdf; rfun_norm; lit_norm
  have hb : d.f_scale ≠ 0 := h.ne'
  have e : -(d.f_location - d.f_scale * t - d.f_location) / d.f_scale = t := by field_simp; ring
  rw [e]

include h in
/-- integrals against the generated density, after the substitution `u = exp(−(x−μ)/β)` -/
theorem gumbel_integral_mul_pdf (g : ℝ → ℝ) :
    ∫ x, g x * Gumbel.pdf d x
      = ∫ u in Ioi (0 : ℝ), g (d.f_location - d.f_scale * Real.log u) * Real.exp (-u) := by
  have hb : d.f_scale ≠ 0 := h.ne'
  set F : ℝ → ℝ := fun x => g x * Gumbel.pdf d x with hF
  -- affine substitution x = μ − β t
  have hA : ∫ x, F x = d.f_scale * ∫ t, F (d.f_location - d.f_scale * t) := by
    have e1 := Measure.integral_comp_mul_left (fun s => F (d.f_location - s)) d.f_scale
    have e2 := integral_sub_left_eq_self F (volume : Measure ℝ) d.f_location
    rw [e1, e2, abs_of_pos (inv_pos.mpr h), smul_eq_mul, ← mul_assoc, mul_inv_cancel₀ hb, one_mul]
  rw [hA, integral_Ioi_zero_eq_integral_comp_exp, ← integral_const_mul]
  apply integral_congr_ae
  filter_upwards with t
  simp only [hF, gumbel_pdf_affine d h t, Real.log_exp]
  field_simp

include h in
theorem gumbel_pdf_integral : ∫ x, Gumbel.pdf d x = 1 := by
  have := gumbel_integral_mul_pdf d h (fun _ => 1)
  simp only [one_mul] at this
  rw [this, integral_exp_neg_Ioi_zero]

include h in
theorem gumbel_mean_eq_integral : Gumbel.mean d = some (∫ x, x * Gumbel.pdf d x) := by
  rw [gumbel_integral_mul_pdf d h (fun x => x)]
  have hsplit : ∀ u : ℝ, (d.f_location - d.f_scale * Real.log u) * Real.exp (-u)
      = d.f_location * Real.exp (-u) + (-d.f_scale) * (Real.log u * Real.exp (-u)) := by
    intro u; ring
  simp_rw [hsplit]
  rw [integral_add ((integrableOn_exp_neg_Ioi 0).const_mul _)
    (integrableOn_log_mul_exp_neg_Ioi.const_mul _), integral_const_mul, integral_const_mul,
    integral_exp_neg_Ioi_zero, integral_log_mul_exp_neg_Ioi]
  unfold Gumbel.mean; rfun_norm
  simp only [Option.some.injEq]
  ring

include h in
/-- differential entropy: `−∫ f ln f = 1 + γ + ln β` -/
theorem gumbel_entropy_eq_integral :
    Gumbel.entropy d = some (-∫ x, Gumbel.pdf d x * Real.log (Gumbel.pdf d x)) := by
  have hb : d.f_scale ≠ 0 := h.ne'
  simp_rw [mul_comm (Gumbel.pdf d _) (Real.log _)]
  rw [gumbel_integral_mul_pdf d h (fun x => Real.log (Gumbel.pdf d x))]
  have hform : ∀ u ∈ Ioi (0 : ℝ),
      Real.log (Gumbel.pdf d (d.f_location - d.f_scale * Real.log u)) * Real.exp (-u)
      = (-Real.log d.f_scale) * Real.exp (-u) + (Real.log u * Real.exp (-u)
          + (-1) * (u * Real.exp (-u))) := by
    intro u hu
    rw [mem_Ioi] at hu
    rw [gumbel_pdf_affine d h, Real.exp_log hu,
      Real.log_mul (by positivity) (Real.exp_pos _).ne',
      Real.log_mul (by positivity) hu.ne', Real.log_exp, one_div, Real.log_inv]
    ring
  rw [setIntegral_congr_fun measurableSet_Ioi hform]
  obtain ⟨hi1, hv1⟩ := integral_id_mul_exp_neg_Ioi
  rw [integral_add ((integrableOn_exp_neg_Ioi 0).const_mul _)
      (show Integrable (fun u : ℝ => Real.log u * Real.exp (-u) + (-1) * (u * Real.exp (-u)))
        (volume.restrict (Ioi 0)) from integrableOn_log_mul_exp_neg_Ioi.add (hi1.const_mul _)),
    integral_add integrableOn_log_mul_exp_neg_Ioi (hi1.const_mul _),
    integral_const_mul, integral_const_mul, integral_exp_neg_Ioi_zero,
    integral_log_mul_exp_neg_Ioi, hv1]
  unfold Gumbel.entropy; rfun_norm; lit_norm
  simp only [Option.some.injEq]
  ring

example : ∃ d : Gumbel ℝ, 0 < d.f_scale := ⟨⟨0, 1⟩, one_pos⟩
end gumbel

end Statrs.Props.C07
