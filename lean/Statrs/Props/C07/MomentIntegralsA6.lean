/-
  C07 (moments derived from the density) — skewness as the third standardised central moment of
  the SAME object's generated `pdf`, for the two heavy-tailed families whose raw moments are
  available in closed form (MomentIntegralsA2/A3):
    LogNormal(μ, σ):  skewness = ∫ ((x − m)/√v)³·f  with m, v the returned mean and variance;
    Pareto(xm, α), α > 3:  skewness = ∫ ((x − m)/√v)³·f  likewise.
  Carrier ℝ, constructor predicates (+ the existence threshold α > 3) as hypotheses.  full(ℝ).
-/
import Statrs.Real.Simp
import Statrs.Gen.D_log_normal
import Statrs.Gen.D_pareto
import Statrs.Lemmas.Related
import Statrs.Props.C07.MomentIntegralsA2
import Statrs.Props.C07.MomentIntegralsA3
import Mathlib.Tactic
namespace Statrs.Props.C07
open Statrs Statrs.Gen Statrs.Lemmas.Related MeasureTheory Set

/-- third central moment from raw moments -/
theorem integral_cube_sub_mul (f : ℝ → ℝ) (m : ℝ)
    (hi : ∀ k : ℕ, k ≤ 3 → Integrable (fun x => x ^ k * f x)) :
    ∫ x, (x - m) ^ 3 * f x
      = (∫ x, x ^ 3 * f x) - 3 * m * (∫ x, x ^ 2 * f x) + 3 * m ^ 2 * (∫ x, x ^ 1 * f x)
        - m ^ 3 * (∫ x, x ^ 0 * f x) := by
  have i0 := hi 0 (by norm_num)
  have i1 := hi 1 (by norm_num)
  have i2 := hi 2 (by norm_num)
  have i3 := hi 3 (by norm_num)
  have hsplit : ∀ x, (x - m) ^ 3 * f x
      = x ^ 3 * f x + ((-3 * m) * (x ^ 2 * f x)
        + ((3 * m ^ 2) * (x ^ 1 * f x) + (-m ^ 3) * (x ^ 0 * f x))) := by
    intro x; ring
  simp_rw [hsplit]
  have j1 : Integrable (fun x => (3 * m ^ 2) * (x ^ 1 * f x) + (-m ^ 3) * (x ^ 0 * f x)) :=
    (i1.const_mul _).add (i0.const_mul _)
  have j2 : Integrable (fun x => (-3 * m) * (x ^ 2 * f x)
      + ((3 * m ^ 2) * (x ^ 1 * f x) + (-m ^ 3) * (x ^ 0 * f x))) := (i2.const_mul _).add j1
  rw [integral_add i3 j2, integral_add (i2.const_mul _) j1,
    integral_add (i1.const_mul _) (i0.const_mul _), integral_const_mul, integral_const_mul,
    integral_const_mul]
  ring

/-- standardising: `∫ ((x−m)/s)³ f = (∫ (x−m)³ f)/s³` -/
theorem integral_standardised_cube (f : ℝ → ℝ) (m s : ℝ) :
    ∫ x, ((x - m) / s) ^ 3 * f x = (∫ x, (x - m) ^ 3 * f x) / s ^ 3 := by
  rw [← integral_div]
  congr 1; funext x
  rw [div_pow]; ring

/-! ### LogNormal(μ, σ) -/
section lognormal
variable (d : LogNormal ℝ) (h : 0 < d.f_scale)

include h in
/-- the returned skewness is the third standardised central moment of the generated density,
    centred at the returned mean `m` and scaled by the square root of the returned variance `v` -/
theorem lognormal_skewness_eq_integral :
    ∃ m v : ℝ, LogNormal.mean d = some m ∧ LogNormal.variance d = some v ∧ 0 < v ∧
      LogNormal.skewness d = some (∫ x, ((x - m) / Real.sqrt v) ^ 3 * LogNormal.pdf d x) := by
  set E := Real.exp (d.f_location + d.f_scale * d.f_scale / 2) with hE
  set w := Real.exp (d.f_scale * d.f_scale) with hw
  have hEpos : 0 < E := Real.exp_pos _
  have hw1 : 1 < w := by
    rw [hw]; exact Real.one_lt_exp_iff.mpr (mul_pos h h)
  have hr : 0 < Real.sqrt (w - 1) := Real.sqrt_pos.mpr (by linarith)
  have hr2 : Real.sqrt (w - 1) ^ 2 = w - 1 := Real.sq_sqrt (by linarith)
  have hvE : Real.exp (d.f_location + d.f_location + d.f_scale * d.f_scale) = E ^ 2 := by
    rw [hE, sq, ← Real.exp_add]; congr 1; ring
  have hvpos : 0 < (w - 1) * E ^ 2 := by
    have : 0 < w - 1 := by linarith
    positivity
  refine ⟨E, (w - 1) * E ^ 2, ?_, ?_, hvpos, ?_⟩
  · unfold LogNormal.mean; rfun_norm; lit_norm
    rfl
  · unfold LogNormal.variance; rfun_norm; lit_norm
    rw [hvE]
  · have m0 : ∫ x, x ^ 0 * LogNormal.pdf d x = 1 := by
      rw [lognormal_raw_moment d h 0]; simp
    have m1 : ∫ x, x ^ 1 * LogNormal.pdf d x = E := by
      rw [lognormal_raw_moment d h 1, hE]; congr 1; push_cast; ring
    have m2 : ∫ x, x ^ 2 * LogNormal.pdf d x = E ^ 2 * w := by
      rw [lognormal_raw_moment d h 2, hE, hw, ← Real.exp_nat_mul, ← Real.exp_add]
      congr 1; push_cast; ring
    have m3 : ∫ x, x ^ 3 * LogNormal.pdf d x = E ^ 3 * w ^ 3 := by
      rw [lognormal_raw_moment d h 3, hE, hw, ← Real.exp_nat_mul, ← Real.exp_nat_mul,
        ← Real.exp_add]
      congr 1; push_cast; ring
    have hs : Real.sqrt ((w - 1) * E ^ 2) = Real.sqrt (w - 1) * E := by
      rw [Real.sqrt_mul (by linarith), Real.sqrt_sq hEpos.le]
    rw [integral_standardised_cube,
      integral_cube_sub_mul _ _ (fun k _ => lognormal_raw_moment_integrable d h k),
      m0, m1, m2, m3, hs]
    unfold LogNormal.skewness; rfun_norm; lit_norm
    simp only [Option.some.injEq]
    rw [← hw]
    set r := Real.sqrt (w - 1) with hrdef
    have hw' : w = r ^ 2 + 1 := by rw [hr2]; ring
    have hr0 : r ≠ 0 := hr.ne'
    have hE0 : E ≠ 0 := hEpos.ne'
    rw [hw']
    field_simp
    ring

example : ∃ d : LogNormal ℝ, 0 < d.f_scale := ⟨⟨0, 1⟩, one_pos⟩
end lognormal

/-! ### Pareto(xm, α), α > 3 -/
section pareto
variable (d : Pareto ℝ) (h1 : 0 < d.f_scale) (h2 : 0 < d.f_shape)

include h1 h2 in
/-- α > 3: the returned skewness is the third standardised central moment of the generated
    density, centred at the returned mean `m` and scaled by the square root of the returned
    variance `v` -/
theorem pareto_skewness_eq_integral (ha : 3 < d.f_shape) :
    ∃ m v : ℝ, Pareto.mean d = some m ∧ Pareto.variance d = some v ∧ 0 < v ∧
      Pareto.skewness d = some (∫ x, ((x - m) / Real.sqrt v) ^ 3 * Pareto.pdf d x) := by
  set a := d.f_shape with hadef
  set xm := d.f_scale with hxmdef
  have e0 : a ≠ 0 := h2.ne'
  have e1 : a - 1 ≠ 0 := by linarith
  have e2 : a - 2 ≠ 0 := by linarith
  have e3 : a - 3 ≠ 0 := by linarith
  have p1 : 0 < a - 1 := by linarith
  have p2 : 0 < a - 2 := by linarith
  set q := Real.sqrt ((a - 2) / a) with hq
  have hqpos : 0 < q := Real.sqrt_pos.mpr (by positivity)
  have hq2 : q ^ 2 = (a - 2) / a := Real.sq_sqrt (by positivity)
  set v := xm / (a - 1) * (xm / (a - 1)) * a / (a - 2) with hv
  have hvpos : 0 < v := by positivity
  have hsv : Real.sqrt v = xm / ((a - 1) * q) := by
    have : v = (xm / ((a - 1) * q)) ^ 2 := by
      rw [div_pow, mul_pow, hq2, hv]; field_simp
    rw [this, Real.sqrt_sq (by positivity)]
  refine ⟨a * xm / (a - 1), v, ?_, ?_, hvpos, ?_⟩
  · unfold Pareto.mean; lit_norm
    simp only [← hadef, ← hxmdef]
    simp [not_le.mpr (show (1 : ℝ) < a by linarith)]
  · unfold Pareto.variance; lit_norm
    simp only [← hadef, ← hxmdef]
    simp [not_le.mpr (show (2 : ℝ) < a by linarith), hv]
  · have hk : ∀ k : ℕ, k ≤ 3 → (k : ℝ) < a := by
      intro k hk
      have : (k : ℝ) ≤ 3 := by exact_mod_cast hk
      linarith
    have m0 := pareto_raw_moment d h1 0 (hk 0 (by norm_num))
    have m1 := pareto_raw_moment d h1 1 (hk 1 (by norm_num))
    have m2 := pareto_raw_moment d h1 2 (hk 2 (by norm_num))
    have m3 := pareto_raw_moment d h1 3 (hk 3 (by norm_num))
    rw [integral_standardised_cube,
      integral_cube_sub_mul _ _ (fun k hk3 => pareto_raw_moment_integrable d h1 h2 k (hk k hk3)),
      m0, m1, m2, m3, hsv]
    unfold Pareto.skewness; rfun_norm; lit_norm
    simp only [← hadef, ← hxmdef]
    simp only [not_le.mpr ha, if_false, Option.some.injEq]
    rw [← hq]
    have hq0 : q ≠ 0 := hqpos.ne'
    have hx0 : xm ≠ 0 := h1.ne'
    have hq2' : a * q ^ 2 = a - 2 := by rw [hq2]; field_simp
    push_cast
    field_simp
    linear_combination (-(2 * a + 2 * a ^ 2)) * hq2'

example : ∃ d : Pareto ℝ, 0 < d.f_scale ∧ 0 < d.f_shape ∧ 3 < d.f_shape :=
  ⟨⟨1, 4⟩, by norm_num, by norm_num, by norm_num⟩
end pareto

end Statrs.Props.C07
