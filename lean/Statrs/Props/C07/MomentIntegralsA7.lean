/-
  C07 (moments derived from the density) — Levy(μ, c): total mass of the generated `pdf` over ℝ,
  `∫ f = 1` (substitution t = 1/(x−μ), Γ(1/2) = √π).  Together with
  `levy_mean_inf_not_integrable` (MomentIntegralsA2) this shows the generated density is a
  probability density without a first moment.  Carrier ℝ, constructor predicate `0 < c`.  full(ℝ).
-/
import Statrs.Real.Simp
import Statrs.Gen.D_levy
import Statrs.Lemmas.Related
import Statrs.Lemmas.MomentIntegralsGamma
import Mathlib.Tactic
namespace Statrs.Props.C07
open Statrs Statrs.Gen Statrs.Lemmas.Related MeasureTheory Set

section levy
variable (d : Levy ℝ) (h : 0 < d.f_c)

include h in
theorem levy_pdf_integral : ∫ x, Levy.pdf d x = 1 := by
  have hpi := Real.pi_pos
  rw [← integral_add_left_eq_self (μ := volume) _ d.f_mu,
    Statrs.Lemmas.MomentIntegralsGamma.integral_eq_setIntegral_Ioi (f := fun t => Levy.pdf d (d.f_mu + t))
      (fun t ht => by unfold Levy.pdf; lit_norm; simp [ht.le])]
  have hform : ∀ t ∈ Ioi (0 : ℝ), Levy.pdf d (d.f_mu + t)
      = Real.sqrt (d.f_c / (2 * Real.pi))
        * (t ^ (-(1 / 2 : ℝ) - 1) * Real.exp (-((d.f_c / 2) / t))) := by
    intro t ht
    rw [mem_Ioi] at ht
    unfold Levy.pdf; rfun_norm; lit_norm
    simp only [add_sub_cancel_left, not_le.mpr (show d.f_mu < d.f_mu + t by linarith), if_false]
    rw [show (-(1 / 2 : ℝ) - 1) = -(3 / 2) by norm_num, Real.rpow_neg ht.le,
      show 1 / 2 * d.f_c / t = d.f_c / 2 / t by ring]
    field_simp
  rw [setIntegral_congr_fun measurableSet_Ioi hform, integral_const_mul,
    Statrs.Lemmas.MomentIntegralsGamma.integral_invGammaKernel (by norm_num) (by positivity),
    Real.Gamma_one_half_eq, ← Real.sqrt_eq_rpow, ← Real.sqrt_mul (by positivity),
    ← Real.sqrt_mul (by positivity)]
  rw [show d.f_c / (2 * Real.pi) * (1 / (d.f_c / 2) * Real.pi) = 1 by field_simp]
  exact Real.sqrt_one

example : ∃ d : Levy ℝ, 0 < d.f_c := ⟨⟨0, 1⟩, one_pos⟩
end levy

end Statrs.Props.C07
