/-
  C07 (moments derived from the density) — Cauchy(x₀, γ) entropy: the value `ln(4πγ)` returned by
  `Cauchy.entropy` is the differential entropy `−∫ f ln f` of the SAME object's generated `pdf`.
  Method: x = x₀ + γ·z, then z = tan θ reduces `∫ ln(1+z²)/(1+z²) dz` to Mathlib's
  `∫₀^π ln sin θ dθ = −π ln 2` (`integral_log_sin_zero_pi`).
  Carrier ℝ, constructor predicate `0 < γ` as hypothesis.  full(ℝ): the pdf uses only π.
-/
import Statrs.Real.Simp
import Statrs.Gen.D_cauchy
import Statrs.Lemmas.Related
import Mathlib.Tactic
import Mathlib.Analysis.SpecialFunctions.Integrals.LogTrigonometric
import Mathlib.Analysis.SpecialFunctions.Trigonometric.ArctanDeriv
import Mathlib.Analysis.SpecialFunctions.ImproperIntegrals
import Mathlib.MeasureTheory.Function.JacobianOneDim
import Mathlib.MeasureTheory.Measure.Haar.NormedSpace
namespace Statrs.Props.C07
open Statrs Statrs.Gen Statrs.Lemmas.Related MeasureTheory Set

/-- `∫_ℝ ln(1+x²)/(1+x²) dx = 2π ln 2` -/
theorem integral_log_one_add_sq_div :
    ∫ x : ℝ, Real.log (1 + x ^ 2) * (1 + x ^ 2)⁻¹ = 2 * Real.pi * Real.log 2 := by
  have himg := integral_image_eq_integral_abs_deriv_smul
    (s := Ioo (-(Real.pi / 2)) (Real.pi / 2))
    (f := Real.tan) (f' := fun x => 1 / Real.cos x ^ 2) measurableSet_Ioo
    (fun x hx => (Real.hasDerivAt_tan (Real.cos_pos_of_mem_Ioo hx).ne').hasDerivWithinAt)
    Real.injOn_tan (fun x => Real.log (1 + x ^ 2) * (1 + x ^ 2)⁻¹)
  rw [Real.image_tan_Ioo, Measure.restrict_univ] at himg
  rw [himg]
  have hcongr : ∀ x ∈ Ioo (-(Real.pi / 2)) (Real.pi / 2),
      |1 / Real.cos x ^ 2| • (Real.log (1 + Real.tan x ^ 2) * (1 + Real.tan x ^ 2)⁻¹)
        = -2 * Real.log (Real.cos x) := by
    intro x hx
    have hc := Real.cos_pos_of_mem_Ioo hx
    have h1 : (1 + Real.tan x ^ 2)⁻¹ = Real.cos x ^ 2 := Real.inv_one_add_tan_sq hc.ne'
    have h2 : 1 + Real.tan x ^ 2 = (Real.cos x ^ 2)⁻¹ := by rw [← h1, inv_inv]
    rw [h1, h2, Real.log_inv, Real.log_pow, abs_of_pos (by positivity), smul_eq_mul]
    push_cast
    field_simp
  rw [setIntegral_congr_fun measurableSet_Ioo hcongr, integral_const_mul,
    ← integral_Ioc_eq_integral_Ioo,
    ← intervalIntegral.integral_of_le (by linarith [Real.pi_pos])]
  have hshift : ∫ x in (-(Real.pi / 2))..(Real.pi / 2), Real.log (Real.cos x)
      = ∫ x in (0 : ℝ)..Real.pi, Real.log (Real.sin x) := by
    have := intervalIntegral.integral_comp_add_right (a := -(Real.pi / 2)) (b := Real.pi / 2)
      (fun x => Real.log (Real.sin x)) (Real.pi / 2)
    simp only [Real.sin_add_pi_div_two] at this
    rw [this]; congr 1 <;> ring
  rw [hshift, integral_log_sin_zero_pi]
  ring

theorem integrable_log_one_add_sq_div :
    Integrable (fun x : ℝ => Real.log (1 + x ^ 2) * (1 + x ^ 2)⁻¹) := by
  apply Integrable.of_integral_ne_zero
  rw [integral_log_one_add_sq_div]
  have := Real.log_pos one_lt_two
  have := Real.pi_pos
  positivity

/-! ### Cauchy(x₀, γ) -/
section cauchy
variable (d : Cauchy ℝ) (h : 0 < d.f_scale)

include h in
/-- differential entropy: `−∫ f ln f = ln(4πγ)` -/
theorem cauchy_entropy_eq_integral :
    Cauchy.entropy d = some (-∫ x, Cauchy.pdf d x * Real.log (Cauchy.pdf d x)) := by
  have hs : d.f_scale ≠ 0 := h.ne'
  have hpi := Real.pi_pos
  set F : ℝ → ℝ := fun x => Cauchy.pdf d x * Real.log (Cauchy.pdf d x) with hF
  -- affine substitution x = x₀ + γ z
  have hA : ∫ x, F x = d.f_scale * ∫ z, F (d.f_location + d.f_scale * z) := by
    have e1 := Measure.integral_comp_mul_left (fun s => F (d.f_location + s)) d.f_scale
    have e2 := integral_add_left_eq_self (μ := (volume : Measure ℝ)) F d.f_location
    rw [e1, e2, abs_of_pos (inv_pos.mpr h), smul_eq_mul, ← mul_assoc, mul_inv_cancel₀ hs, one_mul]
  have hform : ∀ z, d.f_scale * F (d.f_location + d.f_scale * z)
      = (-(Real.log (Real.pi * d.f_scale) / Real.pi)) * (1 + z ^ 2)⁻¹
        + (-(1 / Real.pi)) * (Real.log (1 + z ^ 2) * (1 + z ^ 2)⁻¹) := by
    intro z
    have hz : 0 < 1 + z ^ 2 := by positivity
    have hp : Cauchy.pdf d (d.f_location + d.f_scale * z)
        = 1 / (Real.pi * d.f_scale * (1 + z ^ 2)) := by
      unfold Cauchy.pdf; rfun_norm; lit_norm
      rw [add_sub_cancel_left, mul_div_cancel_left₀ _ hs, sq]
    simp only [hF]
    rw [hp, one_div, Real.log_inv, Real.log_mul (by positivity) hz.ne']
    field_simp
    ring
  change Cauchy.entropy d = some (-∫ x, F x)
  rw [hA, ← integral_const_mul]
  simp_rw [hform]
  rw [integral_add (integrable_inv_one_add_sq.const_mul _)
    (integrable_log_one_add_sq_div.const_mul _), integral_const_mul, integral_const_mul,
    integral_univ_inv_one_add_sq, integral_log_one_add_sq_div]
  unfold Cauchy.entropy; rfun_norm; lit_norm
  simp only [Option.some.injEq]
  rw [show (4 : ℝ) * Real.pi * d.f_scale = 2 ^ 2 * (Real.pi * d.f_scale) by ring,
    Real.log_mul (by positivity) (by positivity), Real.log_pow]
  push_cast
  field_simp
  ring

example : ∃ d : Cauchy ℝ, 0 < d.f_scale := ⟨⟨0, 1⟩, one_pos⟩
end cauchy

end Statrs.Props.C07
