/-
  C07 (moments derived from the density) — Weibull(k, λ) entropy: the value
  `γ(1 − 1/k) + ln(λ/k) + 1` returned by `Weibull.entropy` is the differential entropy `−∫ f ln f`
  of the SAME object's generated `pdf`.  Method: x = λ·v, u = vᵏ turn integrals against the density
  into `∫₀^∞ g(λ·u^{1/k})·e^{−u} du`, and `∫₀^∞ ln u·e^{−u} du = −γ` (MomentIntegralsA5).
  Hypotheses: the constructor's `0 < shape`, `0 < scale` and the invariant it establishes for the
  cached field, `scale_pow_shape_inv = scale^(−shape)`.  Carrier ℝ.  full(ℝ): the pdf and the
  entropy formula use only exp/ln/pow (mean and variance, which call `SF.gamma`, are in
  MomentIntegralsB2).
-/
import Statrs.Real.Simp
import Statrs.Gen.D_weibull
import Statrs.Lemmas.Related
import Statrs.Props.C07.MomentIntegralsA5
import Mathlib.Tactic
import Mathlib.MeasureTheory.Integral.IntegralEqImproper
namespace Statrs.Props.C07
open Statrs Statrs.Gen Statrs.Lemmas.Related MeasureTheory Set

section weibull
variable (d : Weibull ℝ) (h1 : 0 < d.f_shape) (h2 : 0 < d.f_scale)
  (hi : d.f_scale_pow_shape_inv = d.f_scale ^ (-d.f_shape))

theorem weibull_pdf_of_neg (x : ℝ) (hx : x < 0) : Weibull.pdf d x = 0 := by
  unfold Weibull.pdf; lit_norm; simp [hx]

include hi in
theorem weibull_pdf_of_pos (x : ℝ) (hx : 0 < x) :
    Weibull.pdf d x = d.f_shape * (x / d.f_scale) ^ (d.f_shape - 1)
      * Real.exp (-(x ^ d.f_shape) * d.f_scale ^ (-d.f_shape)) / d.f_scale := by
  unfold Weibull.pdf; rfun_norm; lit_norm
  simp [not_lt.mpr hx.le, hx.ne', hi]

include h2 hi in
/-- the generated density at `x = λ·v`, `v > 0` -/
theorem weibull_pdf_scaled (v : ℝ) (hv : 0 < v) :
    Weibull.pdf d (d.f_scale * v)
      = d.f_shape * v ^ (d.f_shape - 1) * Real.exp (-(v ^ d.f_shape)) / d.f_scale := by
  have hl : d.f_scale ≠ 0 := h2.ne'
  rw [weibull_pdf_of_pos d hi _ (mul_pos h2 hv), mul_div_cancel_left₀ _ hl,
    Real.mul_rpow h2.le hv.le, Real.rpow_neg h2.le]
  have hB : d.f_scale ^ d.f_shape ≠ 0 := (Real.rpow_pos_of_pos h2 _).ne'
  have e : -(d.f_scale ^ d.f_shape * v ^ d.f_shape) * (d.f_scale ^ d.f_shape)⁻¹
      = -(v ^ d.f_shape) := by field_simp
  rw [e]

include h1 h2 hi in
/-- integrals against the generated density, after the substitution `u = (x/λ)ᵏ` -/
theorem weibull_integral_mul_pdf (g : ℝ → ℝ) :
    ∫ x, g x * Weibull.pdf d x
      = ∫ u in Ioi (0 : ℝ), g (d.f_scale * u ^ (1 / d.f_shape)) * Real.exp (-u) := by
  have hk0 : d.f_shape ≠ 0 := h1.ne'
  have hl : d.f_scale ≠ 0 := h2.ne'
  -- restrict to (0, ∞): the density vanishes on (−∞, 0) and {0} is a null set
  have hae : ∀ᵐ x ∂(volume : Measure ℝ), x ∉ Ioi (0 : ℝ) → g x * Weibull.pdf d x = 0 := by
    have hne : ∀ᵐ x ∂(volume : Measure ℝ), x ≠ 0 := by simp [ae_iff]
    filter_upwards [hne] with x hx0 hx
    rw [mem_Ioi, not_lt] at hx
    rw [weibull_pdf_of_neg d x (lt_of_le_of_ne hx hx0), mul_zero]
  rw [← setIntegral_eq_integral_of_ae_compl_eq_zero hae]
  -- x = λ v
  have s1 := integral_comp_mul_left_Ioi (fun x => g x * Weibull.pdf d x) 0 h2
  rw [mul_zero, smul_eq_mul] at s1
  have s1' : ∫ x in Ioi (0 : ℝ), g x * Weibull.pdf d x
      = d.f_scale * ∫ v in Ioi (0 : ℝ), g (d.f_scale * v) * Weibull.pdf d (d.f_scale * v) := by
    rw [s1, ← mul_assoc, mul_inv_cancel₀ hl, one_mul]
  rw [s1', ← integral_const_mul]
  -- u = v^k
  have hsub := integral_comp_rpow_Ioi_of_pos (p := d.f_shape) h1
    (g := fun u => g (d.f_scale * u ^ (1 / d.f_shape)) * Real.exp (-u))
  rw [← hsub]
  apply setIntegral_congr_fun measurableSet_Ioi
  intro v hv
  rw [mem_Ioi] at hv
  simp only
  rw [weibull_pdf_scaled d h2 hi v hv, smul_eq_mul, ← Real.rpow_mul hv.le,
    mul_one_div_cancel hk0, Real.rpow_one]
  field_simp

include h1 h2 hi in
/-- differential entropy: `−∫ f ln f = γ(1 − 1/k) + ln(λ/k) + 1` -/
theorem weibull_entropy_eq_integral :
    Weibull.entropy d = some (-∫ x, Weibull.pdf d x * Real.log (Weibull.pdf d x)) := by
  have hk0 : d.f_shape ≠ 0 := h1.ne'
  have hl : d.f_scale ≠ 0 := h2.ne'
  simp_rw [mul_comm (Weibull.pdf d _) (Real.log _)]
  rw [weibull_integral_mul_pdf d h1 h2 hi (fun x => Real.log (Weibull.pdf d x))]
  have hform : ∀ u ∈ Ioi (0 : ℝ),
      Real.log (Weibull.pdf d (d.f_scale * u ^ (1 / d.f_shape))) * Real.exp (-u)
      = (Real.log d.f_shape - Real.log d.f_scale) * Real.exp (-u)
        + (((d.f_shape - 1) / d.f_shape) * (Real.log u * Real.exp (-u))
          + (-1) * (u * Real.exp (-u))) := by
    intro u hu
    rw [mem_Ioi] at hu
    have hv : 0 < u ^ (1 / d.f_shape) := Real.rpow_pos_of_pos hu _
    rw [weibull_pdf_scaled d h2 hi _ hv, ← Real.rpow_mul hu.le, ← Real.rpow_mul hu.le,
      one_div_mul_cancel hk0, Real.rpow_one,
      Real.log_div (by positivity) hl,
      Real.log_mul (by positivity) (Real.exp_pos _).ne',
      Real.log_mul hk0 (Real.rpow_pos_of_pos hu _).ne', Real.log_exp, Real.log_rpow hu]
    field_simp
    ring
  rw [setIntegral_congr_fun measurableSet_Ioi hform]
  obtain ⟨hi1, hv1⟩ := integral_id_mul_exp_neg_Ioi
  rw [integral_add ((integrableOn_exp_neg_Ioi 0).const_mul _)
      (show Integrable (fun u : ℝ => ((d.f_shape - 1) / d.f_shape)
          * (Real.log u * Real.exp (-u)) + (-1) * (u * Real.exp (-u)))
        (volume.restrict (Ioi 0)) from
        (integrableOn_log_mul_exp_neg_Ioi.const_mul _).add (hi1.const_mul _)),
    integral_add (integrableOn_log_mul_exp_neg_Ioi.const_mul _) (hi1.const_mul _),
    integral_const_mul, integral_const_mul, integral_const_mul, integral_exp_neg_Ioi_zero,
    integral_log_mul_exp_neg_Ioi, hv1]
  unfold Weibull.entropy; rfun_norm; lit_norm
  simp only [Option.some.injEq]
  rw [Real.log_div hl hk0]
  field_simp
  ring

/-- non-vacuity: a concrete Weibull(1, 1) -/
example : ∃ d : Weibull ℝ, 0 < d.f_shape ∧ 0 < d.f_scale ∧
    d.f_scale_pow_shape_inv = d.f_scale ^ (-d.f_shape) := ⟨⟨1, 1, 1⟩, by norm_num⟩
end weibull

end Statrs.Props.C07
