/-
  C07 (moments derived from the density) — Gamma family, part B: Gamma(shape, rate), Erlang and
  ChiSquared (both wrap a Gamma), InverseGamma(shape, rate).  For each family, over ℝ and for ALL
  parameters accepted by the constructor:
      ∫ pdf = 1,     mean = some (∫ x · pdf x),     variance = some (∫ (x − m)² · pdf x)
  with all integrals over the whole real line (the generated pdf is `0` on `x < 0` by its first
  branch; its value AT `0` is irrelevant), `m` the closed-form mean (which the `…_mean_integral_rel`
  lemma identifies with `∫ x · pdf x`).  InverseGamma: mean needs `shape > 1`, variance `shape > 2`;
  at or below the threshold the generated methods return `none` (also proved).
  The pdfs call `SF.gamma` / `SF.ln_gamma` (all three branches of `Gamma::pdf`: `shape = 1`,
  `shape > 160` through `exp ∘ ln_pdf`, direct), so everything is relative to
  `Spec.GammaDensitySpec` (`SF.gamma = Γ`, `SF.ln_gamma = log Γ` on `(0,∞)`); non-vacuous by
  `Spec.gammaDensitySpec_witness`.  The closed forms of the pdf on `(0,∞)` are reused from
  `Props/C03/SFDerivA.lean`; the integrals come from `Real.integral_rpow_mul_exp_neg_mul_Ioi`
  (InverseGamma after the substitution `t = 1/x`, `integral_comp_rpow_Ioi`).
-/
import Statrs.Real.Simp
import Statrs.Lemmas.Density
import Statrs.Spec.SFSpec_Density
import Statrs.Props.C03.SFDerivA
import Statrs.Lemmas.MomentIntegralsGamma
import Statrs.Gen.D_gamma
import Statrs.Gen.D_erlang
import Statrs.Gen.D_chi_squared
import Statrs.Gen.D_inverse_gamma
import Mathlib.Tactic
namespace Statrs.Props.C07
open Statrs Statrs.Gen Statrs.Spec Statrs.Lemmas.Density Statrs.Lemmas.MomentIntegralsGamma
open MeasureTheory Set

variable [SF ℝ]

/-! ### Gamma(shape, rate) -/
section gamma

theorem gamma_pdf_eq_zero_of_neg (d : Gamma ℝ) (x : ℝ) (hx : x < 0) : Gamma.pdf d x = 0 := by
  unfold Gamma.pdf; model_norm; rw [if_pos hx]

/-- Gamma: `∫ (c₀ + c₁x + c₂x²) · pdf x dx = c₀ + c₁·s/r + c₂·s(s+1)/r²` over ℝ
    (all raw moments up to order 2 at once) -/
theorem gamma_poly2_integral_rel (S : GammaDensitySpec) (d : Gamma ℝ) (h1 : 0 < d.f_shape)
    (h2 : 0 < d.f_rate) (c0 c1 c2 : ℝ) :
    ∫ x, (c0 + c1 * x + c2 * x ^ 2) * Gamma.pdf d x
      = c0 + c1 * (d.f_shape / d.f_rate)
        + c2 * (d.f_shape * (d.f_shape + 1) / d.f_rate ^ 2) := by
  have hG : 0 < Real.Gamma d.f_shape := Real.Gamma_pos_of_pos h1
  have hrs : 0 < d.f_rate ^ d.f_shape := Real.rpow_pos_of_pos h2 _
  rw [integral_eq_setIntegral_Ioi
    (f := fun x => (c0 + c1 * x + c2 * x ^ 2) * Gamma.pdf d x)
    (fun x hx => by rw [gamma_pdf_eq_zero_of_neg d x hx, mul_zero])]
  have e : ∀ x ∈ Ioi (0:ℝ), (c0 + c1 * x + c2 * x ^ 2) * Gamma.pdf d x =
      (d.f_rate ^ d.f_shape / Real.Gamma d.f_shape) *
        ((c0 + c1 * x + c2 * x ^ 2) * (x ^ (d.f_shape - 1) * Real.exp (-(d.f_rate * x)))) := by
    intro x hx
    rw [C03.gamma_pdf_formula_rel S d h1 h2 x hx]
    ring
  rw [setIntegral_congr_fun measurableSet_Ioi e, integral_const_mul,
    integral_poly2_gammaKernel h1 h2, one_div, Real.inv_rpow h2.le]
  field_simp

/-- Gamma: total mass `∫ pdf = 1` over ℝ -/
theorem gamma_pdf_integral_rel (S : GammaDensitySpec) (d : Gamma ℝ) (h1 : 0 < d.f_shape)
    (h2 : 0 < d.f_rate) : ∫ x, Gamma.pdf d x = 1 := by
  have := gamma_poly2_integral_rel S d h1 h2 1 0 0
  simpa using this

/-- Gamma: `∫ x · pdf x dx = shape / rate` -/
theorem gamma_mean_integral_rel (S : GammaDensitySpec) (d : Gamma ℝ) (h1 : 0 < d.f_shape)
    (h2 : 0 < d.f_rate) : ∫ x, x * Gamma.pdf d x = d.f_shape / d.f_rate := by
  have := gamma_poly2_integral_rel S d h1 h2 0 1 0
  simpa using this

/-- Gamma: the returned mean is the first moment of the generated pdf -/
theorem gamma_mean_eq_integral_rel (S : GammaDensitySpec) (d : Gamma ℝ) (h1 : 0 < d.f_shape)
    (h2 : 0 < d.f_rate) : Gamma.mean d = some (∫ x, x * Gamma.pdf d x) := by
  rw [gamma_mean_integral_rel S d h1 h2]; rfl

/-- Gamma: the returned variance is the second central moment of the generated pdf (centre written
    as the closed form `m = shape / rate`, which is `∫ x · pdf` by `gamma_mean_integral_rel`) -/
theorem gamma_variance_eq_integral_rel (S : GammaDensitySpec) (d : Gamma ℝ) (h1 : 0 < d.f_shape)
    (h2 : 0 < d.f_rate) :
    Gamma.variance d = some (∫ x, (x - d.f_shape / d.f_rate) ^ 2 * Gamma.pdf d x) := by
  have e : (fun x => (x - d.f_shape / d.f_rate) ^ 2 * Gamma.pdf d x) = fun x =>
      ((d.f_shape / d.f_rate) ^ 2 + (-2 * (d.f_shape / d.f_rate)) * x + 1 * x ^ 2)
        * Gamma.pdf d x := by
    funext x; ring
  rw [e, gamma_poly2_integral_rel S d h1 h2]
  unfold Gamma.variance
  simp only [Option.some.injEq]
  have hr : d.f_rate ≠ 0 := h2.ne'
  field_simp
  ring

/-- Gamma: variance with the centre written as the integral `∫ y · pdf y` itself -/
theorem gamma_variance_eq_integral_about_mean_rel (S : GammaDensitySpec) (d : Gamma ℝ)
    (h1 : 0 < d.f_shape) (h2 : 0 < d.f_rate) :
    Gamma.variance d = some (∫ x, (x - ∫ y, y * Gamma.pdf d y) ^ 2 * Gamma.pdf d x) := by
  rw [gamma_mean_integral_rel S d h1 h2]; exact gamma_variance_eq_integral_rel S d h1 h2

/-- non-vacuity: hypotheses and premise structure are satisfiable -/
example : ∃ d : Gamma ℝ, 0 < d.f_shape ∧ 0 < d.f_rate := ⟨⟨3, 2⟩, by norm_num, by norm_num⟩
example : @Gamma.mean ℝ _ _ _ _ _ _ _ _ _ _ _ _ _ ⟨3, 2⟩
    = some (∫ x, x * @Gamma.pdf ℝ _ _ _ _ _ _ _ _ _ _ _ _ _ sfWitness ⟨3, 2⟩ x) :=
  @gamma_mean_eq_integral_rel sfWitness gammaDensitySpec_witness ⟨3, 2⟩ (by norm_num) (by norm_num)
end gamma

/-! ### Erlang (wraps Gamma) -/
section erlang

/-- Erlang: total mass `∫ pdf = 1` over ℝ -/
theorem erlang_pdf_integral_rel (S : GammaDensitySpec) (d : Erlang ℝ) (h1 : 0 < d.f_g.f_shape)
    (h2 : 0 < d.f_g.f_rate) : ∫ x, Erlang.pdf d x = 1 :=
  gamma_pdf_integral_rel S d.f_g h1 h2

/-- Erlang: the returned mean is the first moment of the generated pdf -/
theorem erlang_mean_eq_integral_rel (S : GammaDensitySpec) (d : Erlang ℝ)
    (h1 : 0 < d.f_g.f_shape) (h2 : 0 < d.f_g.f_rate) :
    Erlang.mean d = some (∫ x, x * Erlang.pdf d x) :=
  gamma_mean_eq_integral_rel S d.f_g h1 h2

/-- Erlang: the returned variance is the second central moment of the generated pdf (centre = the
    closed-form mean `shape / rate`) -/
theorem erlang_variance_eq_integral_rel (S : GammaDensitySpec) (d : Erlang ℝ)
    (h1 : 0 < d.f_g.f_shape) (h2 : 0 < d.f_g.f_rate) :
    Erlang.variance d
      = some (∫ x, (x - d.f_g.f_shape / d.f_g.f_rate) ^ 2 * Erlang.pdf d x) :=
  gamma_variance_eq_integral_rel S d.f_g h1 h2

/-- Erlang: variance with the centre written as the integral `∫ y · pdf y` itself -/
theorem erlang_variance_eq_integral_about_mean_rel (S : GammaDensitySpec) (d : Erlang ℝ)
    (h1 : 0 < d.f_g.f_shape) (h2 : 0 < d.f_g.f_rate) :
    Erlang.variance d = some (∫ x, (x - ∫ y, y * Erlang.pdf d y) ^ 2 * Erlang.pdf d x) :=
  gamma_variance_eq_integral_about_mean_rel S d.f_g h1 h2

/-- what `Erlang::new(3, 2.0)` stores satisfies the hypotheses -/
example : ∃ d : Erlang ℝ, 0 < d.f_g.f_shape ∧ 0 < d.f_g.f_rate :=
  ⟨⟨⟨3, 2⟩⟩, by norm_num, by norm_num⟩
example : @Erlang.mean ℝ _ _ _ _ _ _ _ _ _ _ _ _ _ ⟨⟨3, 2⟩⟩
    = some (∫ x, x * @Erlang.pdf ℝ _ _ _ _ _ _ _ _ _ _ _ _ _ sfWitness ⟨⟨3, 2⟩⟩ x) :=
  @erlang_mean_eq_integral_rel sfWitness gammaDensitySpec_witness ⟨⟨3, 2⟩⟩ (by norm_num)
    (by norm_num)
end erlang

/-! ### ChiSquared (wraps Gamma(freedom/2, 1/2)) -/
section chi_squared

/-- ChiSquared: total mass `∫ pdf = 1` over ℝ -/
theorem chi_squared_pdf_integral_rel (S : GammaDensitySpec) (d : ChiSquared ℝ)
    (h1 : 0 < d.f_g.f_shape) (h2 : 0 < d.f_g.f_rate) : ∫ x, ChiSquared.pdf d x = 1 :=
  gamma_pdf_integral_rel S d.f_g h1 h2

/-- ChiSquared: the returned mean is the first moment of the generated pdf -/
theorem chi_squared_mean_eq_integral_rel (S : GammaDensitySpec) (d : ChiSquared ℝ)
    (h1 : 0 < d.f_g.f_shape) (h2 : 0 < d.f_g.f_rate) :
    ChiSquared.mean d = some (∫ x, x * ChiSquared.pdf d x) :=
  gamma_mean_eq_integral_rel S d.f_g h1 h2

/-- ChiSquared: the returned variance is the second central moment of the generated pdf (centre =
    the closed-form mean `shape / rate` of the wrapped Gamma) -/
theorem chi_squared_variance_eq_integral_rel (S : GammaDensitySpec) (d : ChiSquared ℝ)
    (h1 : 0 < d.f_g.f_shape) (h2 : 0 < d.f_g.f_rate) :
    ChiSquared.variance d
      = some (∫ x, (x - d.f_g.f_shape / d.f_g.f_rate) ^ 2 * ChiSquared.pdf d x) :=
  gamma_variance_eq_integral_rel S d.f_g h1 h2

/-- ChiSquared: variance with the centre written as the integral `∫ y · pdf y` itself -/
theorem chi_squared_variance_eq_integral_about_mean_rel (S : GammaDensitySpec) (d : ChiSquared ℝ)
    (h1 : 0 < d.f_g.f_shape) (h2 : 0 < d.f_g.f_rate) :
    ChiSquared.variance d
      = some (∫ x, (x - ∫ y, y * ChiSquared.pdf d y) ^ 2 * ChiSquared.pdf d x) :=
  gamma_variance_eq_integral_about_mean_rel S d.f_g h1 h2

/-- ChiSquared as built by `ChiSquared::new(k)` (wrapped Gamma = `(k/2, 1/2)`): the first moment of
    the generated pdf is `k` and the second central moment is `2k` -/
theorem chi_squared_moments_of_new_rel (S : GammaDensitySpec) (d : ChiSquared ℝ)
    (hk : 0 < d.f_freedom) (hg : d.f_g = ⟨d.f_freedom / 2, 1 / 2⟩) :
    ∫ x, ChiSquared.pdf d x = 1 ∧
    ChiSquared.mean d = some d.f_freedom ∧ ∫ x, x * ChiSquared.pdf d x = d.f_freedom ∧
    ChiSquared.variance d = some (2 * d.f_freedom) ∧
    ∫ x, (x - d.f_freedom) ^ 2 * ChiSquared.pdf d x = 2 * d.f_freedom := by
  have h1 : 0 < d.f_g.f_shape := by rw [hg]; positivity
  have h2 : 0 < d.f_g.f_rate := by rw [hg]; norm_num
  have hm := chi_squared_mean_eq_integral_rel S d h1 h2
  have hv := chi_squared_variance_eq_integral_rel S d h1 h2
  have em : ChiSquared.mean d = some d.f_freedom := by
    show Gamma.mean d.f_g = _
    unfold Gamma.mean; rw [hg]; simp only [Option.some.injEq]; ring
  have ev : ChiSquared.variance d = some (2 * d.f_freedom) := by
    show Gamma.variance d.f_g = _
    unfold Gamma.variance; rw [hg]; simp only [Option.some.injEq]; ring
  have ec : d.f_g.f_shape / d.f_g.f_rate = d.f_freedom := by rw [hg]; ring
  rw [ec] at hv
  rw [em] at hm; rw [ev] at hv
  exact ⟨chi_squared_pdf_integral_rel S d h1 h2, em, (Option.some.inj hm).symm, ev,
    (Option.some.inj hv).symm⟩

/-- what `ChiSquared::new(k)` stores satisfies the hypotheses -/
example (k : ℝ) (hk : 0 < k) : ∃ d : ChiSquared ℝ, 0 < d.f_freedom ∧
    d.f_g = ⟨d.f_freedom / 2, 1 / 2⟩ ∧ 0 < d.f_g.f_shape ∧ 0 < d.f_g.f_rate :=
  ⟨⟨k, ⟨k / 2, 1 / 2⟩⟩, hk, rfl, by positivity, by norm_num⟩
example : @ChiSquared.mean ℝ _ _ _ _ _ _ _ _ _ _ _ _ _ ⟨3, ⟨3 / 2, 1 / 2⟩⟩
    = some (∫ x, x * @ChiSquared.pdf ℝ _ _ _ _ _ _ _ _ _ _ _ _ _ sfWitness ⟨3, ⟨3 / 2, 1 / 2⟩⟩ x) :=
  @chi_squared_mean_eq_integral_rel sfWitness gammaDensitySpec_witness ⟨3, ⟨3 / 2, 1 / 2⟩⟩
    (by norm_num) (by norm_num)
end chi_squared

/-! ### InverseGamma(shape, rate) -/
section inverse_gamma

/-- InverseGamma: total mass `∫ pdf = 1` over ℝ (every `shape > 0`) -/
theorem inverse_gamma_pdf_integral_rel (S : GammaDensitySpec) (d : InverseGamma ℝ)
    (h1 : 0 < d.f_shape) (h2 : 0 < d.f_rate) : ∫ x, InverseGamma.pdf d x = 1 := by
  have hG : 0 < Real.Gamma d.f_shape := Real.Gamma_pos_of_pos h1
  have hrs : 0 < d.f_rate ^ d.f_shape := Real.rpow_pos_of_pos h2 _
  rw [integral_eq_setIntegral_Ioi (f := fun x => InverseGamma.pdf d x)
    (fun x hx => C03.inverse_gamma_pdf_eq_zero d x hx.le)]
  have e : ∀ x ∈ Ioi (0:ℝ), InverseGamma.pdf d x =
      (d.f_rate ^ d.f_shape / Real.Gamma d.f_shape) *
        (x ^ (-d.f_shape - 1) * Real.exp (-(d.f_rate / x))) := by
    intro x hx
    rw [C03.inverse_gamma_pdf_formula_rel S d h1 h2 x hx]
    ring
  rw [setIntegral_congr_fun measurableSet_Ioi e, integral_const_mul,
    integral_invGammaKernel h1 h2, one_div, Real.inv_rpow h2.le]
  field_simp

/-- InverseGamma, `shape > 1`: `∫ (c₀ + c₁x) · pdf x dx = c₀ + c₁ · rate/(shape−1)` over ℝ -/
theorem inverse_gamma_poly1_integral_rel (S : GammaDensitySpec) (d : InverseGamma ℝ)
    (h1 : 1 < d.f_shape) (h2 : 0 < d.f_rate) (c0 c1 : ℝ) :
    ∫ x, (c0 + c1 * x) * InverseGamma.pdf d x = c0 + c1 * (d.f_rate / (d.f_shape - 1)) := by
  have h0 : 0 < d.f_shape := by linarith
  have hb : 0 < d.f_shape - 1 := by linarith
  have hG : 0 < Real.Gamma (d.f_shape - 1) := Real.Gamma_pos_of_pos hb
  have hrs : 0 < d.f_rate ^ (d.f_shape - 1) := Real.rpow_pos_of_pos h2 _
  have g1 : Real.Gamma d.f_shape = (d.f_shape - 1) * Real.Gamma (d.f_shape - 1) := by
    have := Real.Gamma_add_one hb.ne'
    rwa [sub_add_cancel] at this
  have p1 : d.f_rate ^ d.f_shape = d.f_rate ^ (d.f_shape - 1) * d.f_rate := by
    rw [Real.rpow_sub_one h2.ne']; field_simp
  rw [integral_eq_setIntegral_Ioi (f := fun x => (c0 + c1 * x) * InverseGamma.pdf d x)
    (fun x hx => by rw [C03.inverse_gamma_pdf_eq_zero d x hx.le, mul_zero])]
  have e : ∀ x ∈ Ioi (0:ℝ), (c0 + c1 * x) * InverseGamma.pdf d x =
      (d.f_rate ^ d.f_shape / Real.Gamma d.f_shape) *
        ((c0 + c1 * x) * (x ^ (-((d.f_shape - 1) + 1) - 1) * Real.exp (-(d.f_rate / x)))) := by
    intro x hx
    rw [C03.inverse_gamma_pdf_formula_rel S d h0 h2 x hx, sub_add_cancel]
    ring
  rw [setIntegral_congr_fun measurableSet_Ioi e, integral_const_mul,
    integral_poly1_invGammaKernel hb h2, one_div, Real.inv_rpow h2.le, g1, p1]
  field_simp

/-- InverseGamma, `shape > 2`: `∫ (c₀ + c₁x + c₂x²) · pdf x dx
    = c₀ + c₁ · rate/(shape−1) + c₂ · rate²/((shape−1)(shape−2))` over ℝ -/
theorem inverse_gamma_poly2_integral_rel (S : GammaDensitySpec) (d : InverseGamma ℝ)
    (h1 : 2 < d.f_shape) (h2 : 0 < d.f_rate) (c0 c1 c2 : ℝ) :
    ∫ x, (c0 + c1 * x + c2 * x ^ 2) * InverseGamma.pdf d x
      = c0 + c1 * (d.f_rate / (d.f_shape - 1))
        + c2 * (d.f_rate ^ 2 / ((d.f_shape - 1) * (d.f_shape - 2))) := by
  have h0 : 0 < d.f_shape := by linarith
  have hb : 0 < d.f_shape - 2 := by linarith
  have hb1 : 0 < d.f_shape - 1 := by linarith
  have hG : 0 < Real.Gamma (d.f_shape - 2) := Real.Gamma_pos_of_pos hb
  have hrs : 0 < d.f_rate ^ (d.f_shape - 2) := Real.rpow_pos_of_pos h2 _
  have g1 : Real.Gamma d.f_shape
      = (d.f_shape - 1) * ((d.f_shape - 2) * Real.Gamma (d.f_shape - 2)) := by
    have a1 := Real.Gamma_add_one hb.ne'
    have a2 := Real.Gamma_add_one hb1.ne'
    rw [sub_add_cancel] at a2
    rw [show d.f_shape - 2 + 1 = d.f_shape - 1 by ring] at a1
    rw [a2, a1]
  have p1 : d.f_rate ^ d.f_shape = d.f_rate ^ (d.f_shape - 2) * d.f_rate ^ 2 := by
    rw [← Real.rpow_two, ← Real.rpow_add h2]; congr 1; ring
  rw [integral_eq_setIntegral_Ioi
    (f := fun x => (c0 + c1 * x + c2 * x ^ 2) * InverseGamma.pdf d x)
    (fun x hx => by rw [C03.inverse_gamma_pdf_eq_zero d x hx.le, mul_zero])]
  have e : ∀ x ∈ Ioi (0:ℝ), (c0 + c1 * x + c2 * x ^ 2) * InverseGamma.pdf d x =
      (d.f_rate ^ d.f_shape / Real.Gamma d.f_shape) *
        ((c0 + c1 * x + c2 * x ^ 2) *
          (x ^ (-((d.f_shape - 2) + 2) - 1) * Real.exp (-(d.f_rate / x)))) := by
    intro x hx
    rw [C03.inverse_gamma_pdf_formula_rel S d h0 h2 x hx, sub_add_cancel]
    ring
  rw [setIntegral_congr_fun measurableSet_Ioi e, integral_const_mul,
    integral_poly2_invGammaKernel hb h2, one_div, Real.inv_rpow h2.le, g1, p1]
  have hb' : d.f_shape - 2 ≠ 0 := hb.ne'
  have hb1' : d.f_shape - 1 ≠ 0 := hb1.ne'
  rw [show d.f_shape - 2 + 1 = d.f_shape - 1 by ring]
  field_simp

/-- InverseGamma, `shape > 1`: `∫ x · pdf x dx = rate / (shape − 1)` -/
theorem inverse_gamma_mean_integral_rel (S : GammaDensitySpec) (d : InverseGamma ℝ)
    (h1 : 1 < d.f_shape) (h2 : 0 < d.f_rate) :
    ∫ x, x * InverseGamma.pdf d x = d.f_rate / (d.f_shape - 1) := by
  have := inverse_gamma_poly1_integral_rel S d h1 h2 0 1
  simpa using this

/-- InverseGamma, `shape > 1` (existence threshold of the mean): the returned mean is the first
    moment of the generated pdf -/
theorem inverse_gamma_mean_eq_integral_rel (S : GammaDensitySpec) (d : InverseGamma ℝ)
    (h1 : 1 < d.f_shape) (h2 : 0 < d.f_rate) :
    InverseGamma.mean d = some (∫ x, x * InverseGamma.pdf d x) := by
  rw [inverse_gamma_mean_integral_rel S d h1 h2]
  unfold InverseGamma.mean; model_norm
  rw [if_neg (not_le.mpr h1)]

/-- InverseGamma, `shape > 2` (existence threshold of the variance): the returned variance is the
    second central moment of the generated pdf (centre = the closed-form mean `rate/(shape−1)`,
    which is `∫ x · pdf` by `inverse_gamma_mean_integral_rel`) -/
theorem inverse_gamma_variance_eq_integral_rel (S : GammaDensitySpec) (d : InverseGamma ℝ)
    (h1 : 2 < d.f_shape) (h2 : 0 < d.f_rate) :
    InverseGamma.variance d
      = some (∫ x, (x - d.f_rate / (d.f_shape - 1)) ^ 2 * InverseGamma.pdf d x) := by
  have e : (fun x => (x - d.f_rate / (d.f_shape - 1)) ^ 2 * InverseGamma.pdf d x) = fun x =>
      ((d.f_rate / (d.f_shape - 1)) ^ 2 + (-2 * (d.f_rate / (d.f_shape - 1))) * x + 1 * x ^ 2)
        * InverseGamma.pdf d x := by
    funext x; ring
  rw [e, inverse_gamma_poly2_integral_rel S d h1 h2]
  unfold InverseGamma.variance; model_norm
  rw [if_neg (not_le.mpr h1)]
  simp only [Option.some.injEq]
  have hb' : d.f_shape - 2 ≠ 0 := by linarith
  have hb1' : d.f_shape - 1 ≠ 0 := by linarith
  field_simp
  ring

/-- InverseGamma: variance with the centre written as the integral `∫ y · pdf y` itself -/
theorem inverse_gamma_variance_eq_integral_about_mean_rel (S : GammaDensitySpec)
    (d : InverseGamma ℝ) (h1 : 2 < d.f_shape) (h2 : 0 < d.f_rate) :
    InverseGamma.variance d
      = some (∫ x, (x - ∫ y, y * InverseGamma.pdf d y) ^ 2 * InverseGamma.pdf d x) := by
  rw [inverse_gamma_mean_integral_rel S d (by linarith) h2]
  exact inverse_gamma_variance_eq_integral_rel S d h1 h2

omit [SF ℝ] in
/-- InverseGamma: at or below the existence threshold the generated `mean` returns `None` -/
theorem inverse_gamma_mean_none (d : InverseGamma ℝ) (h : d.f_shape ≤ 1) :
    InverseGamma.mean d = none := by
  unfold InverseGamma.mean; model_norm; rw [if_pos h]

omit [SF ℝ] in
/-- InverseGamma: at or below the existence threshold the generated `variance` returns `None` -/
theorem inverse_gamma_variance_none (d : InverseGamma ℝ) (h : d.f_shape ≤ 2) :
    InverseGamma.variance d = none := by
  unfold InverseGamma.variance; model_norm; rw [if_pos h]

example : ∃ d : InverseGamma ℝ, 2 < d.f_shape ∧ 0 < d.f_rate := ⟨⟨3, 2⟩, by norm_num, by norm_num⟩
example : @InverseGamma.variance ℝ _ _ _ _ _ _ _ _ _ _ _ _ _ ⟨3, 2⟩
    = some (∫ x, (x - 2 / (3 - 1)) ^ 2
        * @InverseGamma.pdf ℝ _ _ _ _ _ _ _ _ _ _ _ _ _ sfWitness ⟨3, 2⟩ x) :=
  @inverse_gamma_variance_eq_integral_rel sfWitness gammaDensitySpec_witness ⟨3, 2⟩ (by norm_num)
    (by norm_num)
end inverse_gamma

end Statrs.Props.C07
