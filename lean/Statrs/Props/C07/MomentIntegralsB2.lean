/-
  C07 (moments derived from the density) — Gamma family, part B2: Beta(a, b), Weibull(shape, scale),
  Chi(freedom).  For each family, over ℝ, for ALL parameters accepted by the constructor:
      ∫ pdf = 1,     mean = some (∫ x · pdf x),     variance = some (∫ (x − m)² · pdf x)
  with all integrals over the whole real line (the generated pdfs vanish outside the support by their
  first branch; the values AT the support end points are irrelevant), `m` the closed-form mean
  (identified with `∫ x · pdf x` by the `…_mean_integral_rel` lemmas).
  * Beta: the pdf calls `SF.gamma`/`SF.ln_gamma` (three branches: `a = b = 1`, `a > 80 ∨ b > 80` through
    `exp ∘ ln_pdf`, direct) — relative to `Spec.GammaDensitySpec`.
  * Weibull: the pdf is elementary, but `mean`/`variance` call `SF.gamma(1 + 1/k)`, `SF.gamma(1 + 2/k)`
    — relative to `Spec.GammaDensitySpec`.  `hinv` is what `Weibull::new` stores in the cached field.
  * Chi: relative to `Spec.GammaDensitySpec`.  `Chi::mean` switches to an asymptotic series for
    `freedom > 300`; there the returned value is NOT the first moment (`chi_mean_counterexample` in
    `MomentIntegralsB3.lean`,
    witness `freedom = 301`, by irrationality of π), so mean/variance are proved for `freedom ≤ 300`
    (`…_partial`).
  Non-vacuous by `Spec.gammaDensitySpec_witness`.
-/
import Statrs.Real.Simp
import Statrs.Lemmas.Density
import Statrs.Spec.SFSpec_Density
import Statrs.Props.C03.SFDerivA
import Statrs.Props.C03.SFDerivB
import Statrs.Props.C03.Continuous
import Statrs.Lemmas.MomentIntegralsGamma
import Statrs.Gen.D_beta
import Statrs.Gen.D_weibull
import Statrs.Gen.D_chi
import Mathlib.Tactic
namespace Statrs.Props.C07
open Statrs Statrs.Gen Statrs.Spec Statrs.Lemmas.Density Statrs.Lemmas.MomentIntegralsGamma
open MeasureTheory Set

variable [SF ℝ]

/-! ### Beta(a, b) -/
section beta

/-- Beta: `∫ (c₀ + c₁x + c₂x²) · pdf x dx = c₀ + c₁·a/(a+b) + c₂·a(a+1)/((a+b)(a+b+1))` over ℝ -/
theorem beta_poly2_integral_rel (S : GammaDensitySpec) (d : Beta ℝ) (h1 : 0 < d.f_shape_a)
    (h2 : 0 < d.f_shape_b) (c0 c1 c2 : ℝ) :
    ∫ x, (c0 + c1 * x + c2 * x ^ 2) * Beta.pdf d x
      = c0 + c1 * (d.f_shape_a / (d.f_shape_a + d.f_shape_b))
        + c2 * (d.f_shape_a * (d.f_shape_a + 1)
          / ((d.f_shape_a + d.f_shape_b) * (d.f_shape_a + d.f_shape_b + 1))) := by
  have hGa : 0 < Real.Gamma d.f_shape_a := Real.Gamma_pos_of_pos h1
  have hGb : 0 < Real.Gamma d.f_shape_b := Real.Gamma_pos_of_pos h2
  have hGab : 0 < Real.Gamma (d.f_shape_a + d.f_shape_b) := Real.Gamma_pos_of_pos (by linarith)
  rw [integral_eq_setIntegral_Ioo
    (f := fun x => (c0 + c1 * x + c2 * x ^ 2) * Beta.pdf d x)
    (fun x hx => by rw [C03.beta_pdf_eq_zero d x hx, mul_zero])]
  have e : ∀ x ∈ Ioo (0:ℝ) 1, (c0 + c1 * x + c2 * x ^ 2) * Beta.pdf d x =
      (Real.Gamma (d.f_shape_a + d.f_shape_b) / (Real.Gamma d.f_shape_a * Real.Gamma d.f_shape_b)) *
        ((c0 + c1 * x + c2 * x ^ 2) * (x ^ (d.f_shape_a - 1) * (1 - x) ^ (d.f_shape_b - 1))) := by
    intro x hx
    rw [C03.beta_pdf_formula_rel S d h1 h2 x hx.1 hx.2]
    ring
  rw [setIntegral_congr_fun measurableSet_Ioo e, integral_const_mul,
    integral_poly2_betaKernel h1 h2]
  field_simp

/-- Beta: total mass `∫ pdf = 1` over ℝ -/
theorem beta_pdf_integral_rel (S : GammaDensitySpec) (d : Beta ℝ) (h1 : 0 < d.f_shape_a)
    (h2 : 0 < d.f_shape_b) : ∫ x, Beta.pdf d x = 1 := by
  have := beta_poly2_integral_rel S d h1 h2 1 0 0
  simpa using this

/-- Beta: `∫ x · pdf x dx = a / (a + b)` -/
theorem beta_mean_integral_rel (S : GammaDensitySpec) (d : Beta ℝ) (h1 : 0 < d.f_shape_a)
    (h2 : 0 < d.f_shape_b) :
    ∫ x, x * Beta.pdf d x = d.f_shape_a / (d.f_shape_a + d.f_shape_b) := by
  have := beta_poly2_integral_rel S d h1 h2 0 1 0
  simpa using this

/-- Beta: the returned mean is the first moment of the generated pdf -/
theorem beta_mean_eq_integral_rel (S : GammaDensitySpec) (d : Beta ℝ) (h1 : 0 < d.f_shape_a)
    (h2 : 0 < d.f_shape_b) : Beta.mean d = some (∫ x, x * Beta.pdf d x) := by
  rw [beta_mean_integral_rel S d h1 h2]; rfl

/-- Beta: the returned variance is the second central moment of the generated pdf (centre written
    as the closed form `m = a/(a+b)`, which is `∫ x · pdf` by `beta_mean_integral_rel`) -/
theorem beta_variance_eq_integral_rel (S : GammaDensitySpec) (d : Beta ℝ) (h1 : 0 < d.f_shape_a)
    (h2 : 0 < d.f_shape_b) :
    Beta.variance d
      = some (∫ x, (x - d.f_shape_a / (d.f_shape_a + d.f_shape_b)) ^ 2 * Beta.pdf d x) := by
  have e : (fun x => (x - d.f_shape_a / (d.f_shape_a + d.f_shape_b)) ^ 2 * Beta.pdf d x) = fun x =>
      ((d.f_shape_a / (d.f_shape_a + d.f_shape_b)) ^ 2
        + (-2 * (d.f_shape_a / (d.f_shape_a + d.f_shape_b))) * x + 1 * x ^ 2) * Beta.pdf d x := by
    funext x; ring
  rw [e, beta_poly2_integral_rel S d h1 h2]
  unfold Beta.variance; model_norm
  simp only [Option.some.injEq]
  have hab : d.f_shape_a + d.f_shape_b ≠ 0 := by linarith
  have hab1 : d.f_shape_a + d.f_shape_b + 1 ≠ 0 := by linarith
  field_simp
  ring

/-- Beta: variance with the centre written as the integral `∫ y · pdf y` itself -/
theorem beta_variance_eq_integral_about_mean_rel (S : GammaDensitySpec) (d : Beta ℝ)
    (h1 : 0 < d.f_shape_a) (h2 : 0 < d.f_shape_b) :
    Beta.variance d = some (∫ x, (x - ∫ y, y * Beta.pdf d y) ^ 2 * Beta.pdf d x) := by
  rw [beta_mean_integral_rel S d h1 h2]; exact beta_variance_eq_integral_rel S d h1 h2

example : ∃ d : Beta ℝ, 0 < d.f_shape_a ∧ 0 < d.f_shape_b := ⟨⟨2, 3⟩, by norm_num, by norm_num⟩
example : @Beta.mean ℝ _ _ _ _ _ _ _ _ _ _ _ _ _ ⟨2, 3⟩
    = some (∫ x, x * @Beta.pdf ℝ _ _ _ _ _ _ _ _ _ _ _ _ _ sfWitness ⟨2, 3⟩ x) :=
  @beta_mean_eq_integral_rel sfWitness gammaDensitySpec_witness ⟨2, 3⟩ (by norm_num) (by norm_num)
end beta

/-! ### Weibull(shape, scale) -/
section weibull

omit [SF ℝ] in
/-- Weibull: the generated pdf on `(0,∞)` -/
theorem weibull_pdf_formula (d : Weibull ℝ) (x : ℝ) (hx : 0 < x) :
    Weibull.pdf d x = d.f_shape * (x / d.f_scale) ^ (d.f_shape - 1) *
      Real.exp (-(x ^ d.f_shape) * d.f_scale_pow_shape_inv) / d.f_scale := by
  unfold Weibull.pdf; model_norm
  rw [if_neg (not_lt.mpr hx.le), if_neg (fun c => hx.ne' c.1)]

omit [SF ℝ] in
/-- Weibull: `∫ (c₀ + c₁x + c₂x²) · pdf x dx = c₀ + c₁·λΓ(1+1/k) + c₂·λ²Γ(1+2/k)` over ℝ
    (elementary pdf: no special-function premise) -/
theorem weibull_poly2_integral (d : Weibull ℝ) (hk : 0 < d.f_shape) (hs : 0 < d.f_scale)
    (hinv : d.f_scale_pow_shape_inv = d.f_scale ^ (-d.f_shape)) (c0 c1 c2 : ℝ) :
    ∫ x, (c0 + c1 * x + c2 * x ^ 2) * Weibull.pdf d x
      = c0 + c1 * (d.f_scale * Real.Gamma (1 + 1 / d.f_shape))
        + c2 * (d.f_scale ^ 2 * Real.Gamma (1 + 2 / d.f_shape)) := by
  rw [integral_eq_setIntegral_Ioi
    (f := fun x => (c0 + c1 * x + c2 * x ^ 2) * Weibull.pdf d x)
    (fun x hx => by rw [C03.weibull_pdf_eq_zero d x hx, mul_zero])]
  have e : ∀ x ∈ Ioi (0:ℝ), (c0 + c1 * x + c2 * x ^ 2) * Weibull.pdf d x =
      (c0 + c1 * x + c2 * x ^ 2) * (d.f_shape * (x / d.f_scale) ^ (d.f_shape - 1) *
        Real.exp (-(x ^ d.f_shape) * d.f_scale ^ (-d.f_shape)) / d.f_scale) := by
    intro x hx
    rw [weibull_pdf_formula d x hx, hinv]
  rw [setIntegral_congr_fun measurableSet_Ioi e, integral_poly2_weibullKernel hk hs]

omit [SF ℝ] in
/-- Weibull: total mass `∫ pdf = 1` over ℝ.  full(ℝ) -/
theorem weibull_pdf_integral (d : Weibull ℝ) (hk : 0 < d.f_shape) (hs : 0 < d.f_scale)
    (hinv : d.f_scale_pow_shape_inv = d.f_scale ^ (-d.f_shape)) : ∫ x, Weibull.pdf d x = 1 := by
  have := weibull_poly2_integral d hk hs hinv 1 0 0
  simpa using this

omit [SF ℝ] in
/-- Weibull: `∫ x · pdf x dx = scale · Γ(1 + 1/shape)` (Euler's Γ).  full(ℝ) -/
theorem weibull_mean_integral (d : Weibull ℝ) (hk : 0 < d.f_shape) (hs : 0 < d.f_scale)
    (hinv : d.f_scale_pow_shape_inv = d.f_scale ^ (-d.f_shape)) :
    ∫ x, x * Weibull.pdf d x = d.f_scale * Real.Gamma (1 + 1 / d.f_shape) := by
  have := weibull_poly2_integral d hk hs hinv 0 1 0
  simpa using this

/-- Weibull: the returned mean `scale · SF.gamma(1 + 1/shape)` is the first moment of the generated
    pdf -/
theorem weibull_mean_eq_integral_rel (S : GammaDensitySpec) (d : Weibull ℝ) (hk : 0 < d.f_shape)
    (hs : 0 < d.f_scale) (hinv : d.f_scale_pow_shape_inv = d.f_scale ^ (-d.f_shape)) :
    Weibull.mean d = some (∫ x, x * Weibull.pdf d x) := by
  rw [weibull_mean_integral d hk hs hinv]
  unfold Weibull.mean; model_norm
  rw [S.gamma_eq _ (by positivity)]

/-- Weibull: the returned variance `scale²·SF.gamma(1 + 2/shape) − mean²` is the second central
    moment of the generated pdf (centre written as the closed form `m = scale · Γ(1 + 1/shape)`,
    which is `∫ x · pdf` by `weibull_mean_integral`) -/
theorem weibull_variance_eq_integral_rel (S : GammaDensitySpec) (d : Weibull ℝ)
    (hk : 0 < d.f_shape) (hs : 0 < d.f_scale)
    (hinv : d.f_scale_pow_shape_inv = d.f_scale ^ (-d.f_shape)) :
    Weibull.variance d = some (∫ x, (x - d.f_scale * Real.Gamma (1 + 1 / d.f_shape)) ^ 2
      * Weibull.pdf d x) := by
  have e : (fun x => (x - d.f_scale * Real.Gamma (1 + 1 / d.f_shape)) ^ 2 * Weibull.pdf d x) =
      fun x => ((d.f_scale * Real.Gamma (1 + 1 / d.f_shape)) ^ 2
        + (-2 * (d.f_scale * Real.Gamma (1 + 1 / d.f_shape))) * x + 1 * x ^ 2)
        * Weibull.pdf d x := by
    funext x; ring
  rw [e, weibull_poly2_integral d hk hs hinv]
  unfold Weibull.variance Weibull.mean; model_norm
  simp only [Option.some.injEq]
  rw [S.gamma_eq _ (by positivity), S.gamma_eq _ (by positivity)]
  ring

/-- Weibull: variance with the centre written as the integral `∫ y · pdf y` itself -/
theorem weibull_variance_eq_integral_about_mean_rel (S : GammaDensitySpec) (d : Weibull ℝ)
    (hk : 0 < d.f_shape) (hs : 0 < d.f_scale)
    (hinv : d.f_scale_pow_shape_inv = d.f_scale ^ (-d.f_shape)) :
    Weibull.variance d = some (∫ x, (x - ∫ y, y * Weibull.pdf d y) ^ 2 * Weibull.pdf d x) := by
  rw [weibull_mean_integral d hk hs hinv]; exact weibull_variance_eq_integral_rel S d hk hs hinv

/-- what `Weibull::new(2, 3)` stores satisfies the hypotheses -/
example : ∃ d : Weibull ℝ, 0 < d.f_shape ∧ 0 < d.f_scale ∧
    d.f_scale_pow_shape_inv = d.f_scale ^ (-d.f_shape) :=
  ⟨⟨2, 3, (3:ℝ) ^ (-(2:ℝ))⟩, by norm_num, by norm_num, rfl⟩
example : @Weibull.mean ℝ _ _ _ _ _ _ _ _ _ _ _ _ _ sfWitness ⟨2, 3, (3:ℝ) ^ (-(2:ℝ))⟩
    = some (∫ x, x * Weibull.pdf ⟨2, 3, (3:ℝ) ^ (-(2:ℝ))⟩ x) :=
  @weibull_mean_eq_integral_rel sfWitness gammaDensitySpec_witness ⟨2, 3, (3:ℝ) ^ (-(2:ℝ))⟩
    (by norm_num) (by norm_num) rfl
end weibull

/-! ### Chi(freedom) -/
section chi

/-- Chi: `∫ (c₀ + c₁x + c₂x²) · pdf x dx = c₀ + c₁·√2 Γ((k+1)/2)/Γ(k/2) + c₂·k` over ℝ, every
    `freedom = k ≥ 1` (both pdf branches) -/
theorem chi_poly2_integral_rel (S : GammaDensitySpec) (d : Chi) (h0 : 0 ≤ d.f_freedom)
    (hne : d.f_freedom ≠ 0) (c0 c1 c2 : ℝ) :
    ∫ x, (c0 + c1 * x + c2 * x ^ 2) * Chi.pdf (α := ℝ) d x
      = c0 + c1 * (Real.sqrt 2 * Real.Gamma (((d.f_freedom : ℝ) + 1) / 2)
          / Real.Gamma ((d.f_freedom : ℝ) / 2))
        + c2 * (d.f_freedom : ℝ) := by
  have hk : (0:ℝ) < (d.f_freedom : ℝ) := by exact_mod_cast lt_of_le_of_ne h0 (Ne.symm hne)
  have hG : 0 < Real.Gamma ((d.f_freedom : ℝ) / 2) := Real.Gamma_pos_of_pos (by positivity)
  have h2 : (2:ℝ) ^ (1 - (d.f_freedom : ℝ) / 2) * (2:ℝ) ^ ((d.f_freedom : ℝ) / 2 - 1) = 1 := by
    rw [← Real.rpow_add two_pos, show 1 - (d.f_freedom : ℝ) / 2 + ((d.f_freedom : ℝ) / 2 - 1) = 0 by ring,
      Real.rpow_zero]
  rw [integral_eq_setIntegral_Ioi
    (f := fun x => (c0 + c1 * x + c2 * x ^ 2) * Chi.pdf (α := ℝ) d x)
    (fun x hx => by rw [C03.chi_pdf_eq_zero d x hx.le, mul_zero])]
  have e : ∀ x ∈ Ioi (0:ℝ), (c0 + c1 * x + c2 * x ^ 2) * Chi.pdf (α := ℝ) d x =
      ((2:ℝ) ^ (1 - (d.f_freedom : ℝ) / 2) / Real.Gamma ((d.f_freedom : ℝ) / 2)) *
        ((c0 + c1 * x + c2 * x ^ 2) * (x ^ ((d.f_freedom : ℝ) - 1) * Real.exp (-(x * x / 2)))) := by
    intro x hx
    rw [C03.chi_pdf_formula_rel S d h0 hne x hx]
    ring
  rw [setIntegral_congr_fun measurableSet_Ioi e, integral_const_mul,
    integral_poly2_chiKernel hk]
  generalize (2:ℝ) ^ (1 - (d.f_freedom : ℝ) / 2) = A at h2 ⊢
  generalize (2:ℝ) ^ ((d.f_freedom : ℝ) / 2 - 1) = B at h2 ⊢
  have : A / Real.Gamma ((d.f_freedom : ℝ) / 2) * (B * (c0 * Real.Gamma ((d.f_freedom : ℝ) / 2)
      + c1 * (Real.sqrt 2 * Real.Gamma (((d.f_freedom : ℝ) + 1) / 2))
      + c2 * ((d.f_freedom : ℝ) * Real.Gamma ((d.f_freedom : ℝ) / 2))))
      = (A * B) * (c0 + c1 * (Real.sqrt 2 * Real.Gamma (((d.f_freedom : ℝ) + 1) / 2)
          / Real.Gamma ((d.f_freedom : ℝ) / 2)) + c2 * (d.f_freedom : ℝ)) := by
    field_simp
  rw [this, h2, one_mul]

/-- Chi: total mass `∫ pdf = 1` over ℝ (every `freedom ≥ 1`) -/
theorem chi_pdf_integral_rel (S : GammaDensitySpec) (d : Chi) (h0 : 0 ≤ d.f_freedom)
    (hne : d.f_freedom ≠ 0) : ∫ x, Chi.pdf (α := ℝ) d x = 1 := by
  have := chi_poly2_integral_rel S d h0 hne 1 0 0
  simpa using this

/-- Chi: `∫ x · pdf x dx = √2 Γ((k+1)/2) / Γ(k/2)` (every `freedom = k ≥ 1`) -/
theorem chi_mean_integral_rel (S : GammaDensitySpec) (d : Chi) (h0 : 0 ≤ d.f_freedom)
    (hne : d.f_freedom ≠ 0) :
    ∫ x, x * Chi.pdf (α := ℝ) d x = Real.sqrt 2 * Real.Gamma (((d.f_freedom : ℝ) + 1) / 2)
      / Real.Gamma ((d.f_freedom : ℝ) / 2) := by
  have := chi_poly2_integral_rel S d h0 hne 0 1 0
  simpa using this

/-- Chi: `∫ x² · pdf x dx = k` (every `freedom = k ≥ 1`) -/
theorem chi_second_moment_integral_rel (S : GammaDensitySpec) (d : Chi) (h0 : 0 ≤ d.f_freedom)
    (hne : d.f_freedom ≠ 0) : ∫ x, x ^ 2 * Chi.pdf (α := ℝ) d x = (d.f_freedom : ℝ) := by
  have := chi_poly2_integral_rel S d h0 hne 0 0 1
  simpa using this

/-- Chi, `freedom ≤ 300`: the returned mean is the first moment of the generated pdf.
    PARTIAL: for `freedom > 300` `Chi::mean` returns an asymptotic approximation and the equality is
    false (`chi_mean_counterexample`). -/
theorem chi_mean_eq_integral_rel_partial (S : GammaDensitySpec) (d : Chi) (h0 : 0 ≤ d.f_freedom)
    (hne : d.f_freedom ≠ 0) (h300 : d.f_freedom ≤ 300) :
    Chi.mean (α := ℝ) d = some (∫ x, x * Chi.pdf (α := ℝ) d x) := by
  have hk : (0:ℝ) < (d.f_freedom : ℝ) := by exact_mod_cast lt_of_le_of_ne h0 (Ne.symm hne)
  rw [chi_mean_integral_rel S d h0 hne]
  unfold Chi.mean Chi.freedom; model_norm
  rw [if_neg (not_lt.mpr h300)]
  simp only [Option.some.injEq]
  rw [S.gamma_eq _ (by positivity), S.gamma_eq _ (by positivity)]

/-- Chi, `freedom ≤ 300`: the returned variance `k − mean²` is the second central moment of the
    generated pdf (centre written as the closed form `m = √2 Γ((k+1)/2)/Γ(k/2)`, which is `∫ x · pdf`
    by `chi_mean_integral_rel`).
    PARTIAL: for `freedom > 300` the returned value is built from the approximate mean. -/
theorem chi_variance_eq_integral_rel_partial (S : GammaDensitySpec) (d : Chi)
    (h0 : 0 ≤ d.f_freedom) (hne : d.f_freedom ≠ 0) (h300 : d.f_freedom ≤ 300) :
    Chi.variance (α := ℝ) d = some (∫ x, (x - Real.sqrt 2 * Real.Gamma (((d.f_freedom : ℝ) + 1) / 2)
      / Real.Gamma ((d.f_freedom : ℝ) / 2)) ^ 2 * Chi.pdf (α := ℝ) d x) := by
  have hk : (0:ℝ) < (d.f_freedom : ℝ) := by exact_mod_cast lt_of_le_of_ne h0 (Ne.symm hne)
  set m := Real.sqrt 2 * Real.Gamma (((d.f_freedom : ℝ) + 1) / 2)
      / Real.Gamma ((d.f_freedom : ℝ) / 2) with hm
  have e : (fun x => (x - m) ^ 2 * Chi.pdf (α := ℝ) d x) = fun x =>
      (m ^ 2 + (-2 * m) * x + 1 * x ^ 2) * Chi.pdf (α := ℝ) d x := by
    funext x; ring
  rw [e, chi_poly2_integral_rel S d h0 hne, ← hm]
  have hmean : Chi.mean (α := ℝ) d = some m := by
    rw [chi_mean_eq_integral_rel_partial S d h0 hne h300, chi_mean_integral_rel S d h0 hne]
  unfold Chi.variance
  rw [hmean]
  unfold Chi.freedom; model_norm
  simp only [Option.some.injEq]
  ring

/-- Chi, `freedom ≤ 300`: variance with the centre written as the integral `∫ y · pdf y` itself -/
theorem chi_variance_eq_integral_about_mean_rel_partial (S : GammaDensitySpec) (d : Chi)
    (h0 : 0 ≤ d.f_freedom) (hne : d.f_freedom ≠ 0) (h300 : d.f_freedom ≤ 300) :
    Chi.variance (α := ℝ) d
      = some (∫ x, (x - ∫ y, y * Chi.pdf (α := ℝ) d y) ^ 2 * Chi.pdf (α := ℝ) d x) := by
  rw [chi_mean_integral_rel S d h0 hne]
  exact chi_variance_eq_integral_rel_partial S d h0 hne h300

example : ∃ d : Chi, 0 ≤ d.f_freedom ∧ d.f_freedom ≠ 0 ∧ d.f_freedom ≤ 300 :=
  ⟨⟨3⟩, by decide, by decide, by decide⟩
example : @Chi.mean ℝ _ _ _ _ _ _ _ _ _ _ _ _ _ sfWitness ⟨3⟩
    = some (∫ x, x * @Chi.pdf ℝ _ _ _ _ _ _ _ _ _ _ _ _ _ sfWitness ⟨3⟩ x) :=
  @chi_mean_eq_integral_rel_partial sfWitness gammaDensitySpec_witness ⟨3⟩ (by decide) (by decide)
    (by decide)
end chi

end Statrs.Props.C07
