/-
  C07 (moments derived from the density) — Gamma family, part B3:
  * Chi, `freedom > 300`: `Chi::mean` returns the asymptotic series
        √k / ((1 + 1/(4k)) (1 + 1/(32k²)) (1 − 3/(64k³)))
    instead of `√2 Γ((k+1)/2)/Γ(k/2)`.  At `k = 301` this is NOT the first moment of the generated pdf,
    and the returned variance `k − mean²` is NOT its second central moment
    (`chi_mean_counterexample`, `chi_variance_counterexample`): with `Γ(151) = 150!` and
    `Γ(150 + 1/2) = 299‼ √π / 2^150`, equality would make π rational.  (The series is accurate to
    ~1e-10 relative, so this is an approximation by design, not a wrong formula; it is the reason the
    `Chi` theorems of part B2 carry `freedom ≤ 300`.)
  * InverseGamma at or below the existence thresholds: `mean = None` for `shape ≤ 1` and
    `variance = None` for `shape ≤ 2` are the right answers — `x · pdf` resp. `x² · pdf` is not
    integrable (comparison with `c/x`).
  Relative to `Spec.GammaDensitySpec` (the pdfs call `SF.gamma`/`SF.ln_gamma`).
-/
import Statrs.Props.C07.MomentIntegralsB
import Statrs.Props.C07.MomentIntegralsB2
import Statrs.Props.C07.MomentIntegralsA2
import Mathlib.Analysis.SpecialFunctions.Gamma.Beta
import Mathlib.Analysis.Real.Pi.Irrational
namespace Statrs.Props.C07
open Statrs Statrs.Gen Statrs.Spec Statrs.Lemmas.Density Statrs.Lemmas.MomentIntegralsGamma
open MeasureTheory Set
open scoped Nat

/-! ### Chi, freedom = 301 -/
section chi

/-- the value of the asymptotic series at `k = 301` differs from `√2 Γ(151)/Γ(150.5)`:
    otherwise π would be rational -/
theorem chi_301_series_ne_true_mean :
    (Real.sqrt 301 / ((1 + 0.25 / 301) * (1 + 3125e-5 / (301 * 301))
        * (1 - 46875e-6 / (301 * 301 * 301))) : ℝ)
      ≠ Real.sqrt 2 * Real.Gamma (((301:ℝ) + 1) / 2) / Real.Gamma ((301:ℝ) / 2) := by
  intro h
  have g1 : Real.Gamma (((301:ℝ) + 1) / 2) = ((150 ! : ℕ) : ℝ) := by
    rw [show ((301:ℝ) + 1) / 2 = ((150:ℕ):ℝ) + 1 by norm_num, Real.Gamma_nat_eq_factorial]
  have g2 : Real.Gamma ((301:ℝ) / 2) = ((2 * 150 - 1 : ℕ)‼ : ℝ) * Real.sqrt Real.pi / 2 ^ 150 := by
    rw [show (301:ℝ) / 2 = ((150:ℕ):ℝ) + 1 / 2 by norm_num, Real.Gamma_nat_add_half]
  rw [g1, g2] at h
  have hA : (0:ℝ) < ((150 ! : ℕ) : ℝ) := by exact_mod_cast Nat.factorial_pos 150
  have hD : (0:ℝ) < ((2 * 150 - 1 : ℕ)‼ : ℝ) := by exact_mod_cast Nat.doubleFactorial_pos _
  generalize (150 ! : ℕ) = a at h hA
  generalize ((2 * 150 - 1 : ℕ)‼) = dd at h hD
  set q0 : ℚ := (1 + 1 / 4 / 301) * (1 + 1 / 32 / (301 * 301)) * (1 - 3 / 64 / (301 * 301 * 301))
    with hq0
  have hQ : ((1 + 0.25 / 301) * (1 + 3125e-5 / (301 * 301)) * (1 - 46875e-6 / (301 * 301 * 301)) : ℝ)
      = ((q0 : ℚ) : ℝ) := by
    rw [hq0]; push_cast; norm_num
  have hq0pos : (0:ℝ) < ((q0 : ℚ) : ℝ) := by
    rw [hq0]; push_cast; norm_num
  rw [hQ] at h
  have hpi : (0:ℝ) < Real.sqrt Real.pi := Real.sqrt_pos.mpr Real.pi_pos
  obtain ⟨t, ht, htpos⟩ : ∃ t : ℚ, ((t : ℚ) : ℝ) = (2:ℝ) ^ 150 ∧ (0:ℝ) < ((t : ℚ) : ℝ) :=
    ⟨2 ^ 150, by push_cast; rfl, by push_cast; exact pow_pos two_pos 150⟩
  rw [← ht] at h
  rw [div_eq_div_iff hq0pos.ne' (div_pos (mul_pos hD hpi) htpos).ne'] at h
  have h2 := congrArg (fun z : ℝ => z ^ 2) h
  simp only [mul_pow, div_pow, Real.sq_sqrt (by norm_num : (0:ℝ) ≤ 301),
    Real.sq_sqrt (by norm_num : (0:ℝ) ≤ 2), Real.sq_sqrt Real.pi_pos.le] at h2
  refine irrational_pi ⟨(2 * (a:ℚ) ^ 2 * q0 ^ 2 * t ^ 2 / (301 * (dd:ℚ) ^ 2) : ℚ), ?_⟩
  push_cast
  field_simp
  field_simp at h2
  linarith

variable [SF ℝ]

/-- what `Chi::mean` returns for `freedom = 301` (the asymptotic-series branch) -/
theorem chi_mean_301 : Chi.mean (α := ℝ) ⟨301⟩
    = some (Real.sqrt 301 / ((1 + 0.25 / 301) * (1 + 3125e-5 / (301 * 301))
        * (1 - 46875e-6 / (301 * 301 * 301)))) := by
  unfold Chi.mean Chi.freedom; model_norm
  rw [if_pos (by decide)]
  push_cast
  rfl

/-- COUNTEREXAMPLE (`freedom = 301 > 300`): the mean returned by `Chi::mean` is not the first moment
    of the generated pdf -/
theorem chi_mean_counterexample (S : GammaDensitySpec) :
    Chi.mean (α := ℝ) ⟨301⟩ ≠ some (∫ x, x * Chi.pdf (α := ℝ) ⟨301⟩ x) := by
  intro h
  rw [chi_mean_integral_rel S ⟨301⟩ (by decide) (by decide), chi_mean_301] at h
  simp only [Option.some.injEq] at h
  push_cast at h
  exact chi_301_series_ne_true_mean h

/-- COUNTEREXAMPLE (`freedom = 301 > 300`): the variance returned by `Chi::variance` (`k − mean²` with
    the approximate mean) is not the second central moment of the generated pdf about its true first
    moment `∫ y · pdf y` -/
theorem chi_variance_counterexample (S : GammaDensitySpec) :
    Chi.variance (α := ℝ) ⟨301⟩
      ≠ some (∫ x, (x - ∫ y, y * Chi.pdf (α := ℝ) ⟨301⟩ y) ^ 2 * Chi.pdf (α := ℝ) ⟨301⟩ x) := by
  intro h
  have hm := chi_mean_integral_rel S ⟨301⟩ (by decide) (by decide)
  rw [hm] at h
  set m := Real.sqrt 2 * Real.Gamma (((((⟨301⟩ : Chi).f_freedom : ℤ) : ℝ) + 1) / 2)
      / Real.Gamma ((((⟨301⟩ : Chi).f_freedom : ℤ) : ℝ) / 2) with hmdef
  have e : (fun x => (x - m) ^ 2 * Chi.pdf (α := ℝ) ⟨301⟩ x) = fun x =>
      (m ^ 2 + (-2 * m) * x + 1 * x ^ 2) * Chi.pdf (α := ℝ) ⟨301⟩ x := by
    funext x; ring
  rw [e, chi_poly2_integral_rel S ⟨301⟩ (by decide) (by decide), ← hmdef] at h
  unfold Chi.variance at h
  rw [chi_mean_301] at h
  unfold Chi.freedom at h
  model_norm
  simp only [Option.some.injEq] at h
  set s := (Real.sqrt 301 / ((1 + 0.25 / 301) * (1 + 3125e-5 / (301 * 301))
        * (1 - 46875e-6 / (301 * 301 * 301))) : ℝ) with hs
  have hsq : s ^ 2 = m ^ 2 := by linarith
  have hspos : 0 ≤ s := by rw [hs]; norm_num; positivity
  have hmpos : 0 ≤ m := by
    rw [hmdef]
    have h1 : 0 < Real.Gamma (((((⟨301⟩ : Chi).f_freedom : ℤ) : ℝ) + 1) / 2) :=
      Real.Gamma_pos_of_pos (by norm_num)
    have h2 : 0 < Real.Gamma ((((⟨301⟩ : Chi).f_freedom : ℤ) : ℝ) / 2) :=
      Real.Gamma_pos_of_pos (by norm_num)
    positivity
  have hsm : s = m := by
    rcases sq_eq_sq_iff_eq_or_eq_neg.mp hsq with h' | h'
    · exact h'
    · have : s = 0 ∧ m = 0 := ⟨by linarith, by linarith⟩
      rw [this.1, this.2]
  rw [hs, hmdef] at hsm
  push_cast at hsm
  exact chi_301_series_ne_true_mean hsm

/-- COUNTEREXAMPLE (`freedom = 301 > 300`), centre = the RETURNED (approximate) mean `s`: the returned
    variance `k − s²` is not `∫ (x − s)² · pdf x` either -/
theorem chi_variance_counterexample_about_returned_mean (S : GammaDensitySpec) :
    Chi.variance (α := ℝ) ⟨301⟩
      ≠ some (∫ x, (x - Real.sqrt 301 / ((1 + 0.25 / 301) * (1 + 3125e-5 / (301 * 301))
        * (1 - 46875e-6 / (301 * 301 * 301)))) ^ 2 * Chi.pdf (α := ℝ) ⟨301⟩ x) := by
  intro h
  set s := (Real.sqrt 301 / ((1 + 0.25 / 301) * (1 + 3125e-5 / (301 * 301))
        * (1 - 46875e-6 / (301 * 301 * 301))) : ℝ) with hs
  have e : (fun x => (x - s) ^ 2 * Chi.pdf (α := ℝ) ⟨301⟩ x) = fun x =>
      (s ^ 2 + (-2 * s) * x + 1 * x ^ 2) * Chi.pdf (α := ℝ) ⟨301⟩ x := by
    funext x; ring
  rw [e, chi_poly2_integral_rel S ⟨301⟩ (by decide) (by decide)] at h
  unfold Chi.variance at h
  rw [chi_mean_301, ← hs] at h
  unfold Chi.freedom at h
  model_norm
  simp only [Option.some.injEq] at h
  have hspos : 0 < s := by
    rw [hs]
    have : (0:ℝ) < Real.sqrt 301 := Real.sqrt_pos.mpr (by norm_num)
    have : (0:ℝ) < (1 + 0.25 / 301) * (1 + 3125e-5 / (301 * 301))
        * (1 - 46875e-6 / (301 * 301 * 301)) := by norm_num
    positivity
  have hsm : s = Real.sqrt 2 * Real.Gamma (((((⟨301⟩ : Chi).f_freedom : ℤ) : ℝ) + 1) / 2)
      / Real.Gamma ((((⟨301⟩ : Chi).f_freedom : ℤ) : ℝ) / 2) := by
    have : s * s = s * (Real.sqrt 2 * Real.Gamma (((((⟨301⟩ : Chi).f_freedom : ℤ) : ℝ) + 1) / 2)
      / Real.Gamma ((((⟨301⟩ : Chi).f_freedom : ℤ) : ℝ) / 2)) := by linarith
    exact mul_left_cancel₀ hspos.ne' this
  rw [hs] at hsm
  push_cast at hsm
  exact chi_301_series_ne_true_mean hsm

example : ∃ d : Chi, 0 ≤ d.f_freedom ∧ d.f_freedom ≠ 0 ∧ 300 < d.f_freedom :=
  ⟨⟨301⟩, by decide, by decide, by decide⟩
end chi

/-! ### InverseGamma at or below the existence thresholds -/
section inverse_gamma
variable [SF ℝ]

/-- InverseGamma, `shape ≤ 1`: `mean = None`, and indeed `x · pdf x` is not integrable -/
theorem inverse_gamma_mean_none_not_integrable_rel (S : GammaDensitySpec) (d : InverseGamma ℝ)
    (h1 : 0 < d.f_shape) (h2 : 0 < d.f_rate) (hle : d.f_shape ≤ 1) :
    InverseGamma.mean d = none ∧ ¬ Integrable (fun x => x * InverseGamma.pdf d x) := by
  refine ⟨inverse_gamma_mean_none d hle, ?_⟩
  have hG : 0 < Real.Gamma d.f_shape := Real.Gamma_pos_of_pos h1
  have hrs : 0 < d.f_rate ^ d.f_shape := Real.rpow_pos_of_pos h2 _
  have hc : 0 < d.f_rate ^ d.f_shape / Real.Gamma d.f_shape * Real.exp (-1) := by positivity
  refine not_integrable_of_inv_le _ (max d.f_rate 1) _ (lt_max_of_lt_left h2) hc ?_
  intro x hx
  have hx1 : 1 < x := (le_max_right _ _).trans_lt hx
  have hxr : d.f_rate < x := (le_max_left _ _).trans_lt hx
  have hx0 : 0 < x := by linarith
  rw [C03.inverse_gamma_pdf_formula_rel S d h1 h2 x hx0]
  have e1 : Real.exp (-1) ≤ Real.exp (-(d.f_rate / x)) := by
    apply Real.exp_le_exp.mpr
    have := (div_le_one hx0).mpr hxr.le
    linarith
  have e2 : x⁻¹ ≤ x * x ^ (-d.f_shape - 1) := by
    have : x * x ^ (-d.f_shape - 1) = x ^ (-d.f_shape) := by
      rw [show -d.f_shape = 1 + (-d.f_shape - 1) by ring, Real.rpow_add hx0, Real.rpow_one]
      ring_nf
    rw [this, ← Real.rpow_neg_one]
    exact Real.rpow_le_rpow_of_exponent_le hx1.le (by linarith)
  have e3 : x * (d.f_rate ^ d.f_shape * x ^ (-d.f_shape - 1) * Real.exp (-(d.f_rate / x))
      / Real.Gamma d.f_shape) = d.f_rate ^ d.f_shape / Real.Gamma d.f_shape *
        (Real.exp (-(d.f_rate / x)) * (x * x ^ (-d.f_shape - 1))) := by ring
  rw [e3, mul_assoc]
  exact mul_le_mul_of_nonneg_left
    (mul_le_mul e1 e2 (inv_nonneg.mpr hx0.le) (Real.exp_pos _).le) (by positivity)

/-- InverseGamma, `shape ≤ 2`: `variance = None`, and indeed `x² · pdf x` is not integrable -/
theorem inverse_gamma_variance_none_not_integrable_rel (S : GammaDensitySpec) (d : InverseGamma ℝ)
    (h1 : 0 < d.f_shape) (h2 : 0 < d.f_rate) (hle : d.f_shape ≤ 2) :
    InverseGamma.variance d = none ∧ ¬ Integrable (fun x => x ^ 2 * InverseGamma.pdf d x) := by
  refine ⟨inverse_gamma_variance_none d hle, ?_⟩
  have hG : 0 < Real.Gamma d.f_shape := Real.Gamma_pos_of_pos h1
  have hrs : 0 < d.f_rate ^ d.f_shape := Real.rpow_pos_of_pos h2 _
  have hc : 0 < d.f_rate ^ d.f_shape / Real.Gamma d.f_shape * Real.exp (-1) := by positivity
  refine not_integrable_of_inv_le _ (max d.f_rate 1) _ (lt_max_of_lt_left h2) hc ?_
  intro x hx
  have hx1 : 1 < x := (le_max_right _ _).trans_lt hx
  have hxr : d.f_rate < x := (le_max_left _ _).trans_lt hx
  have hx0 : 0 < x := by linarith
  rw [C03.inverse_gamma_pdf_formula_rel S d h1 h2 x hx0]
  have e1 : Real.exp (-1) ≤ Real.exp (-(d.f_rate / x)) := by
    apply Real.exp_le_exp.mpr
    have := (div_le_one hx0).mpr hxr.le
    linarith
  have e2 : x⁻¹ ≤ x ^ 2 * x ^ (-d.f_shape - 1) := by
    have : x ^ 2 * x ^ (-d.f_shape - 1) = x ^ (1 - d.f_shape) := by
      rw [show 1 - d.f_shape = 2 + (-d.f_shape - 1) by ring, Real.rpow_add hx0, Real.rpow_two]
    rw [this, ← Real.rpow_neg_one]
    exact Real.rpow_le_rpow_of_exponent_le hx1.le (by linarith)
  have e3 : x ^ 2 * (d.f_rate ^ d.f_shape * x ^ (-d.f_shape - 1) * Real.exp (-(d.f_rate / x))
      / Real.Gamma d.f_shape) = d.f_rate ^ d.f_shape / Real.Gamma d.f_shape *
        (Real.exp (-(d.f_rate / x)) * (x ^ 2 * x ^ (-d.f_shape - 1))) := by ring
  rw [e3, mul_assoc]
  exact mul_le_mul_of_nonneg_left
    (mul_le_mul e1 e2 (inv_nonneg.mpr hx0.le) (Real.exp_pos _).le) (by positivity)

example : ∃ d : InverseGamma ℝ, 0 < d.f_shape ∧ 0 < d.f_rate ∧ d.f_shape ≤ 1 :=
  ⟨⟨1, 2⟩, by norm_num, by norm_num, by norm_num⟩
end inverse_gamma

end Statrs.Props.C07
