/-
  C07 (moments derived from the density) — StudentsT(location μ, scale σ, freedom ν), over ℝ, under the
  constructor's hypotheses `0 < σ`, `0 < ν` (all integrals over the whole real line):
  * Student branch of the generated pdf (`ν < 1e8`; the pdf calls `SF.ln_gamma`, so relative to
    `Spec.GammaDensitySpec`):
        ∫ pdf = 1  (every ν > 0),
        ν > 1:  mean = some μ = some (∫ x · pdf x),
        ν > 2:  variance = some (σ² ν/(ν−2)) = some (∫ (x − μ)² · pdf x),
    via the closed form `C03.studentDensity` of the pdf and the Beta integral
    `∫_ℝ |t|^(2a−1)(1+t²/ν)^(−(a+b)) dt = ν^a B(a,b)` (`Lemmas/MomentIntegralsGamma2.lean`).
    These are `_partial` only in that they carry `ν < 1e8`.
  * Normal branch (`ν ≥ 1e8`: `StudentsT::pdf` returns the Normal(μ, σ) density; no special
    function, full(ℝ)): total mass 1 and mean = ∫ x · pdf hold, but the returned variance
    `σ² ν/(ν−2)` is NOT the second central moment of the generated pdf, which is `σ²`
    (`students_t_variance_large_freedom_counterexample`, every `ν ≥ 1e8`).  Relative size of the
    discrepancy `2/(ν−2) ≤ 2e-8`: a mismatch of formulas between `pdf` and `variance`, not of magnitude.
  * Below the thresholds `mean`/`variance` return `None`, and `x·pdf` resp. `x²·pdf` is not integrable
    (proved, comparison with `c/x`); over ℝ `RFun.isInf` is `false`, so
    the `freedom = ∞` branch of `variance` is unreachable and nothing is claimed about it.
-/
import Statrs.Real.Simp
import Statrs.Lemmas.Density
import Statrs.Spec.SFSpec_Density
import Statrs.Props.C03.SFDerivB
import Statrs.Lemmas.MomentIntegralsGamma2
import Statrs.Props.C07.MomentIntegralsA
import Statrs.Props.C07.MomentIntegralsA2
import Statrs.Gen.D_students_t
import Statrs.Gen.D_normal
import Mathlib.Tactic
namespace Statrs.Props.C07
open Statrs Statrs.Gen Statrs.Spec Statrs.Lemmas.Density Statrs.Lemmas.MomentIntegralsGamma
open MeasureTheory Set

/-! ### the Student kernel `h(t) = (1 + t²/ν)^(−(ν+1)/2)` -/
section kernel

theorem student_h_continuous {ν : ℝ} (hν : 0 < ν) :
    Continuous (fun t : ℝ => (1 + t * t / ν) ^ (-(1 / 2) * (ν + 1))) := by
  refine Continuous.rpow_const (by fun_prop) (fun t => Or.inl ?_)
  have := mul_self_nonneg t
  positivity

theorem student_h_pos {ν : ℝ} (hν : 0 < ν) (t : ℝ) : 0 < (1 + t * t / ν) ^ (-(1 / 2) * (ν + 1)) := by
  have := mul_self_nonneg t
  exact Real.rpow_pos_of_pos (by positivity) _

/-- `∫_ℝ h = √ν · √π Γ(ν/2) / Γ((ν+1)/2)` -/
theorem student_h_integral {ν : ℝ} (hν : 0 < ν) :
    ∫ t : ℝ, (1 + t * t / ν) ^ (-(1 / 2) * (ν + 1))
      = Real.sqrt ν * (Real.sqrt Real.pi * Real.Gamma (ν / 2) / Real.Gamma ((ν + 1) / 2)) := by
  have h := integral_studentKernel (a := 1 / 2) (b := ν / 2) (ν := ν) (by norm_num) (by positivity) hν
  have e : (fun t : ℝ => |t| ^ (2 * (1 / 2 : ℝ) - 1) * (1 + t * t / ν) ^ (-(1 / 2 + ν / 2))) =
      fun t => (1 + t * t / ν) ^ (-(1 / 2) * (ν + 1)) := by
    funext t
    rw [show 2 * (1 / 2 : ℝ) - 1 = 0 by norm_num, Real.rpow_zero, one_mul]
    congr 1; ring
  rw [e] at h
  rw [h, Real.Gamma_one_half_eq, ← Real.sqrt_eq_rpow, show (1 / 2 + ν / 2 : ℝ) = (ν + 1) / 2 by ring]

theorem student_h_integrable {ν : ℝ} (hν : 0 < ν) :
    Integrable (fun t : ℝ => (1 + t * t / ν) ^ (-(1 / 2) * (ν + 1))) := by
  refine Integrable.of_integral_ne_zero ?_
  rw [student_h_integral hν]
  have := Real.Gamma_pos_of_pos (by positivity : 0 < ν / 2)
  have := Real.Gamma_pos_of_pos (by positivity : 0 < (ν + 1) / 2)
  have := Real.pi_pos
  positivity

/-- ν > 1: `t · h(t)` is integrable -/
theorem student_t_mul_h_integrable {ν : ℝ} (hν : 1 < ν) :
    Integrable (fun t : ℝ => t * (1 + t * t / ν) ^ (-(1 / 2) * (ν + 1))) := by
  have h0 : 0 < ν := by linarith
  have h := integrable_studentKernel (a := 1) (b := (ν - 1) / 2) (ν := ν) one_pos
    (by linarith) h0
  refine h.mono ((continuous_id.mul (student_h_continuous h0)).aestronglyMeasurable) ?_
  filter_upwards with t
  have e1 : |t| ^ (2 * 1 - 1 : ℝ) = |t| := by
    rw [show (2 * 1 - 1 : ℝ) = 1 by norm_num, Real.rpow_one]
  have e2 : (-(1 + (ν - 1) / 2) : ℝ) = -(1 / 2) * (ν + 1) := by ring
  simp only [norm_mul, Real.norm_eq_abs, e1, e2, abs_abs]
  exact le_rfl

/-- ν > 1: `∫ t · h(t) dt = 0` (odd integrand) -/
theorem student_t_mul_h_integral {ν : ℝ} :
    ∫ t : ℝ, t * (1 + t * t / ν) ^ (-(1 / 2) * (ν + 1)) = 0 := by
  refine integral_eq_zero_of_odd_about _ 0 (fun t => ?_)
  simp only [zero_sub, zero_add]
  rw [neg_mul_neg, neg_mul]

/-- ν > 2: `∫ t² h(t) dt = ν √ν · (√π/2) Γ(ν/2 − 1) / Γ((ν+1)/2)` -/
theorem student_sq_mul_h_integral {ν : ℝ} (hν : 2 < ν) :
    ∫ t : ℝ, t ^ 2 * (1 + t * t / ν) ^ (-(1 / 2) * (ν + 1))
      = ν * Real.sqrt ν *
        (Real.sqrt Real.pi / 2 * Real.Gamma (ν / 2 - 1) / Real.Gamma ((ν + 1) / 2)) := by
  have h0 : 0 < ν := by linarith
  have h := integral_studentKernel (a := 3 / 2) (b := ν / 2 - 1) (ν := ν) (by norm_num)
    (by linarith) h0
  have e : (fun t : ℝ => |t| ^ (2 * (3 / 2 : ℝ) - 1) * (1 + t * t / ν) ^ (-(3 / 2 + (ν / 2 - 1)))) =
      fun t => t ^ 2 * (1 + t * t / ν) ^ (-(1 / 2) * (ν + 1)) := by
    funext t
    rw [show 2 * (3 / 2 : ℝ) - 1 = 2 by norm_num, Real.rpow_two, sq_abs]
    congr 2; ring
  rw [e] at h
  have g32 : Real.Gamma (3 / 2) = Real.sqrt Real.pi / 2 := by
    rw [show (3 / 2 : ℝ) = 1 / 2 + 1 by norm_num, Real.Gamma_add_one (by norm_num),
      Real.Gamma_one_half_eq]
    ring
  have p32 : ν ^ (3 / 2 : ℝ) = ν * Real.sqrt ν := by
    rw [show (3 / 2 : ℝ) = 1 + 1 / 2 by norm_num, Real.rpow_add h0, Real.rpow_one,
      ← Real.sqrt_eq_rpow]
  rw [h, g32, p32, show (3 / 2 + (ν / 2 - 1) : ℝ) = (ν + 1) / 2 by ring]

theorem student_sq_mul_h_integrable {ν : ℝ} (hν : 2 < ν) :
    Integrable (fun t : ℝ => t ^ 2 * (1 + t * t / ν) ^ (-(1 / 2) * (ν + 1))) := by
  refine Integrable.of_integral_ne_zero ?_
  rw [student_sq_mul_h_integral hν]
  have h0 : 0 < ν := by linarith
  have := Real.Gamma_pos_of_pos (by linarith : 0 < ν / 2 - 1)
  have := Real.Gamma_pos_of_pos (by positivity : 0 < (ν + 1) / 2)
  have := Real.pi_pos
  positivity

end kernel

/-! ### moments of `C03.studentDensity μ σ ν` -/
section density

theorem studentDensity_eq (μ σ ν x : ℝ) :
    C03.studentDensity μ σ ν x =
      Real.Gamma ((ν + 1) / 2) / Real.Gamma (ν / 2) / (Real.sqrt ν * Real.sqrt Real.pi) / σ *
        (fun t : ℝ => (1 + t * t / ν) ^ (-(1 / 2) * (ν + 1))) ((x - μ) / σ) := by
  unfold C03.studentDensity
  ring

/-- `∫ studentDensity = 1` -/
theorem studentDensity_integral (μ : ℝ) {σ ν : ℝ} (hσ : 0 < σ) (hν : 0 < ν) :
    ∫ x, C03.studentDensity μ σ ν x = 1 := by
  have hG1 := Real.Gamma_pos_of_pos (by positivity : 0 < ν / 2)
  have hG2 := Real.Gamma_pos_of_pos (by positivity : 0 < (ν + 1) / 2)
  have hsν := Real.sqrt_pos.mpr hν
  have hsπ := Real.sqrt_pos.mpr Real.pi_pos
  simp_rw [studentDensity_eq]
  rw [integral_const_mul,
    integral_comp_sub_div (fun t : ℝ => (1 + t * t / ν) ^ (-(1 / 2) * (ν + 1))) μ hσ,
    student_h_integral hν]
  field_simp

theorem studentDensity_integrable (μ : ℝ) {σ ν : ℝ} (hσ : 0 < σ) (hν : 0 < ν) :
    Integrable (fun x => C03.studentDensity μ σ ν x) := by
  refine Integrable.of_integral_ne_zero ?_
  rw [studentDensity_integral μ hσ hν]; exact one_ne_zero

/-- ν > 1: `(x − μ) · studentDensity x` is integrable -/
theorem studentDensity_first_integrable (μ : ℝ) {σ ν : ℝ} (hσ : 0 < σ) (hν : 1 < ν) :
    Integrable (fun x => (x - μ) * C03.studentDensity μ σ ν x) := by
  have h := (integrable_comp_sub_div (student_t_mul_h_integrable hν) μ hσ).const_mul
    (Real.Gamma ((ν + 1) / 2) / Real.Gamma (ν / 2) / (Real.sqrt ν * Real.sqrt Real.pi))
  refine h.congr (Filter.Eventually.of_forall fun x => ?_)
  simp only [studentDensity_eq]
  field_simp

/-- ν > 1: `∫ (x − μ) · studentDensity x dx = 0` -/
theorem studentDensity_first_integral (μ σ ν : ℝ) :
    ∫ x, (x - μ) * C03.studentDensity μ σ ν x = 0 := by
  refine integral_eq_zero_of_odd_about _ μ (fun t => ?_)
  unfold C03.studentDensity
  rw [show μ - t - μ = -t by ring, show μ + t - μ = t by ring, neg_div, neg_mul_neg]
  ring

/-- ν > 1: `∫ x · studentDensity x dx = μ` -/
theorem studentDensity_mean_integral (μ : ℝ) {σ ν : ℝ} (hσ : 0 < σ) (hν : 1 < ν) :
    ∫ x, x * C03.studentDensity μ σ ν x = μ := by
  have h0 : 0 < ν := by linarith
  have e : (fun x => x * C03.studentDensity μ σ ν x) = fun x =>
      μ * C03.studentDensity μ σ ν x + (x - μ) * C03.studentDensity μ σ ν x := by
    funext x; ring
  rw [e, integral_add ((studentDensity_integrable μ hσ h0).const_mul μ)
      (studentDensity_first_integrable μ hσ hν),
    integral_const_mul, studentDensity_integral μ hσ h0, studentDensity_first_integral]
  ring

/-- ν > 2: `∫ (x − μ)² · studentDensity x dx = σ² ν/(ν − 2)` -/
theorem studentDensity_second_integral (μ : ℝ) {σ ν : ℝ} (hσ : 0 < σ) (hν : 2 < ν) :
    ∫ x, (x - μ) ^ 2 * C03.studentDensity μ σ ν x = σ * σ * ν / (ν - 2) := by
  have h0 : 0 < ν := by linarith
  have hG0 := Real.Gamma_pos_of_pos (by linarith : 0 < ν / 2 - 1)
  have hG2 := Real.Gamma_pos_of_pos (by positivity : 0 < (ν + 1) / 2)
  have hsν := Real.sqrt_pos.mpr h0
  have hsπ := Real.sqrt_pos.mpr Real.pi_pos
  have g1 : Real.Gamma (ν / 2) = (ν / 2 - 1) * Real.Gamma (ν / 2 - 1) := by
    have := Real.Gamma_add_one (by linarith : ν / 2 - 1 ≠ 0)
    rwa [sub_add_cancel] at this
  have e : (fun x => (x - μ) ^ 2 * C03.studentDensity μ σ ν x) = fun x =>
      (Real.Gamma ((ν + 1) / 2) / Real.Gamma (ν / 2) / (Real.sqrt ν * Real.sqrt Real.pi) * σ) *
        (fun t : ℝ => t ^ 2 * (1 + t * t / ν) ^ (-(1 / 2) * (ν + 1))) ((x - μ) / σ) := by
    funext x
    simp only [studentDensity_eq]
    field_simp
  rw [e, integral_const_mul,
    integral_comp_sub_div (fun t : ℝ => t ^ 2 * (1 + t * t / ν) ^ (-(1 / 2) * (ν + 1))) μ hσ,
    student_sq_mul_h_integral hν, g1]
  have hν2 : ν - 2 ≠ 0 := by linarith
  have hν2' : ν / 2 - 1 ≠ 0 := by linarith
  generalize Real.Gamma (ν / 2 - 1) = G0 at hG0 ⊢
  generalize Real.Gamma ((ν + 1) / 2) = G2 at hG2 ⊢
  generalize Real.sqrt ν = sν at hsν ⊢
  generalize Real.sqrt Real.pi = sπ at hsπ ⊢
  field_simp

/-- tail lower bound: for `x > |μ| + 1`,
    `studentDensity x ≥ K/σ · (1 + 4/(σ²ν))^(−(ν+1)/2) · x^(−(ν+1))` -/
theorem studentDensity_lower (μ : ℝ) {σ ν : ℝ} (hσ : 0 < σ) (hν : 0 < ν) (x : ℝ)
    (hx : |μ| + 1 < x) :
    Real.Gamma ((ν + 1) / 2) / Real.Gamma (ν / 2) / (Real.sqrt ν * Real.sqrt Real.pi) / σ *
        ((1 + 4 / (σ * σ * ν)) ^ (-(1 / 2) * (ν + 1)) * x ^ (-(ν + 1)))
      ≤ C03.studentDensity μ σ ν x := by
  have hG1 := Real.Gamma_pos_of_pos (by positivity : 0 < ν / 2)
  have hG2 := Real.Gamma_pos_of_pos (by positivity : 0 < (ν + 1) / 2)
  have hsν := Real.sqrt_pos.mpr hν
  have hsπ := Real.sqrt_pos.mpr Real.pi_pos
  have hμ := abs_nonneg μ
  have hx1 : 1 < x := by linarith
  have hx0 : 0 < x := by linarith
  have habs : |x - μ| ≤ 2 * x := by
    calc |x - μ| ≤ |x| + |μ| := abs_sub x μ
      _ ≤ 2 * x := by rw [abs_of_pos hx0]; linarith
  have hsq : (x - μ) ^ 2 ≤ 4 * x ^ 2 := by
    have h1 := sq_abs (x - μ)
    have h2 := abs_nonneg (x - μ)
    nlinarith
  have ht : (x - μ) / σ * ((x - μ) / σ) / ν ≤ 4 * x ^ 2 / (σ * σ * ν) := by
    rw [show (x - μ) / σ * ((x - μ) / σ) / ν = (x - μ) ^ 2 / (σ * σ * ν) by field_simp]
    exact div_le_div_of_nonneg_right hsq (by positivity)
  have hB : 1 + (x - μ) / σ * ((x - μ) / σ) / ν ≤ (1 + 4 / (σ * σ * ν)) * x ^ 2 := by
    have e : (1 + 4 / (σ * σ * ν)) * x ^ 2 = x ^ 2 + 4 * x ^ 2 / (σ * σ * ν) := by ring
    rw [e]; nlinarith
  have hBpos : 0 < 1 + (x - μ) / σ * ((x - μ) / σ) / ν := by
    have := mul_self_nonneg ((x - μ) / σ)
    positivity
  have key := Real.rpow_le_rpow_of_nonpos hBpos hB (by nlinarith : -(1 / 2) * (ν + 1) ≤ 0)
  rw [Real.mul_rpow (by positivity) (by positivity), ← Real.rpow_natCast x 2, ← Real.rpow_mul hx0.le,
    show ((2:ℕ):ℝ) * (-(1 / 2) * (ν + 1)) = -(ν + 1) by push_cast; ring] at key
  rw [studentDensity_eq]
  exact mul_le_mul_of_nonneg_left key (by positivity)

end density

/-! ### StudentsT, Student branch (`freedom < 1e8`) -/
section students_t
variable [SF ℝ]

/-- StudentsT, `ν < 1e8`: total mass `∫ pdf = 1` over ℝ.
    PARTIAL only in `ν < 1e8` (for `ν ≥ 1e8` see `students_t_pdf_integral_large_freedom`). -/
theorem students_t_pdf_integral_rel_partial (S : GammaDensitySpec) (d : StudentsT ℝ)
    (hσ : 0 < d.f_scale) (hν : 0 < d.f_freedom) (hν8 : d.f_freedom < 1e8) :
    ∫ x, StudentsT.pdf d x = 1 := by
  simp_rw [C03.students_t_pdf_eq_density_rel S d hν hν8]
  exact studentDensity_integral _ hσ hν

/-- StudentsT, `1 < ν < 1e8`: `∫ x · pdf x dx = μ` -/
theorem students_t_mean_integral_rel_partial (S : GammaDensitySpec) (d : StudentsT ℝ)
    (hσ : 0 < d.f_scale) (hν : 1 < d.f_freedom) (hν8 : d.f_freedom < 1e8) :
    ∫ x, x * StudentsT.pdf d x = d.f_location := by
  simp_rw [C03.students_t_pdf_eq_density_rel S d (by linarith) hν8]
  exact studentDensity_mean_integral _ hσ hν

/-- StudentsT, `1 < ν < 1e8` (`ν > 1` is the existence threshold of the mean): the returned mean is
    the first moment of the generated pdf.  PARTIAL only in `ν < 1e8`. -/
theorem students_t_mean_eq_integral_rel_partial (S : GammaDensitySpec) (d : StudentsT ℝ)
    (hσ : 0 < d.f_scale) (hν : 1 < d.f_freedom) (hν8 : d.f_freedom < 1e8) :
    StudentsT.mean d = some (∫ x, x * StudentsT.pdf d x) := by
  rw [students_t_mean_integral_rel_partial S d hσ hν hν8]
  unfold StudentsT.mean; model_norm
  rw [if_neg (not_le.mpr hν)]

/-- StudentsT, `2 < ν < 1e8` (`ν > 2` is the existence threshold of the variance): the returned
    variance `σ²ν/(ν−2)` is the second central moment of the generated pdf (centre `μ`, which is
    `∫ x · pdf` by `students_t_mean_integral_rel_partial`).  PARTIAL only in `ν < 1e8`; for
    `ν ≥ 1e8` the statement is false (`students_t_variance_large_freedom_counterexample`). -/
theorem students_t_variance_eq_integral_rel_partial (S : GammaDensitySpec) (d : StudentsT ℝ)
    (hσ : 0 < d.f_scale) (hν : 2 < d.f_freedom) (hν8 : d.f_freedom < 1e8) :
    StudentsT.variance d = some (∫ x, (x - d.f_location) ^ 2 * StudentsT.pdf d x) := by
  simp_rw [C03.students_t_pdf_eq_density_rel S d (by linarith) hν8]
  rw [studentDensity_second_integral _ hσ hν]
  unfold StudentsT.variance; model_norm
  rw [if_pos hν]
  simp only [Option.some.injEq]
  ring

/-- the same with the centre written as the integral `∫ y · pdf y` itself -/
theorem students_t_variance_eq_integral_about_mean_rel_partial (S : GammaDensitySpec)
    (d : StudentsT ℝ) (hσ : 0 < d.f_scale) (hν : 2 < d.f_freedom) (hν8 : d.f_freedom < 1e8) :
    StudentsT.variance d
      = some (∫ x, (x - ∫ y, y * StudentsT.pdf d y) ^ 2 * StudentsT.pdf d x) := by
  rw [students_t_mean_integral_rel_partial S d hσ (by linarith) hν8]
  exact students_t_variance_eq_integral_rel_partial S d hσ hν hν8

omit [SF ℝ] in
/-- StudentsT: at or below the threshold `ν ≤ 1` the generated `mean` returns `None` -/
theorem students_t_mean_none (d : StudentsT ℝ) (h : d.f_freedom ≤ 1) : StudentsT.mean d = none := by
  unfold StudentsT.mean; model_norm; rw [if_pos h]

omit [SF ℝ] in
/-- StudentsT: at or below the threshold `ν ≤ 2` the generated `variance` returns `None` (over ℝ the
    `is_infinite` guard never fires) -/
theorem students_t_variance_none (d : StudentsT ℝ) (h : d.f_freedom ≤ 2) :
    StudentsT.variance d = none := by
  unfold StudentsT.variance; model_norm; rw [if_neg (not_lt.mpr h)]

example : ∃ d : StudentsT ℝ, 0 < d.f_scale ∧ 2 < d.f_freedom ∧ d.f_freedom < 1e8 :=
  ⟨⟨0, 1, 3⟩, by norm_num, by norm_num, by norm_num⟩
example : StudentsT.variance (⟨1, 2, 3⟩ : StudentsT ℝ)
    = some (∫ x, (x - 1) ^ 2 * @StudentsT.pdf ℝ _ _ _ _ _ _ _ _ _ _ _ _ _ sfWitness ⟨1, 2, 3⟩ x) :=
  @students_t_variance_eq_integral_rel_partial sfWitness gammaDensitySpec_witness ⟨1, 2, 3⟩
    (by norm_num) (by norm_num) (by norm_num)

/-- StudentsT, `ν ≤ 1`: `mean = None`, and indeed `x · pdf x` is not integrable -/
theorem students_t_mean_none_not_integrable_rel (S : GammaDensitySpec) (d : StudentsT ℝ)
    (hσ : 0 < d.f_scale) (hν : 0 < d.f_freedom) (hle : d.f_freedom ≤ 1) :
    StudentsT.mean d = none ∧ ¬ Integrable (fun x => x * StudentsT.pdf d x) := by
  refine ⟨students_t_mean_none d hle, ?_⟩
  have hν8 : d.f_freedom < 1e8 := by rw [C03.lit_1e8]; linarith
  simp_rw [C03.students_t_pdf_eq_density_rel S d hν hν8]
  have hG1 := Real.Gamma_pos_of_pos (by positivity : 0 < d.f_freedom / 2)
  have hG2 := Real.Gamma_pos_of_pos (by positivity : 0 < (d.f_freedom + 1) / 2)
  have hsν := Real.sqrt_pos.mpr hν
  have hsπ := Real.sqrt_pos.mpr Real.pi_pos
  have hμ := abs_nonneg d.f_location
  set c := Real.Gamma ((d.f_freedom + 1) / 2) / Real.Gamma (d.f_freedom / 2)
      / (Real.sqrt d.f_freedom * Real.sqrt Real.pi) / d.f_scale
      * (1 + 4 / (d.f_scale * d.f_scale * d.f_freedom)) ^ (-(1 / 2) * (d.f_freedom + 1)) with hc
  have hcpos : 0 < c := by rw [hc]; positivity
  refine not_integrable_of_inv_le _ (|d.f_location| + 1) c (by positivity) hcpos ?_
  intro x hx
  have hx1 : 1 < x := by linarith
  have hx0 : 0 < x := by linarith
  have low := studentDensity_lower d.f_location hσ hν x hx
  rw [← mul_assoc, ← hc] at low
  have e1 : x⁻¹ ≤ x * x ^ (-(d.f_freedom + 1)) := by
    have : x * x ^ (-(d.f_freedom + 1)) = x ^ (-d.f_freedom) := by
      rw [show -d.f_freedom = 1 + -(d.f_freedom + 1) by ring, Real.rpow_add hx0, Real.rpow_one]
    rw [this, ← Real.rpow_neg_one]
    exact Real.rpow_le_rpow_of_exponent_le hx1.le (by linarith)
  calc c * x⁻¹ ≤ c * (x * x ^ (-(d.f_freedom + 1))) := mul_le_mul_of_nonneg_left e1 hcpos.le
    _ = x * (c * x ^ (-(d.f_freedom + 1))) := by ring
    _ ≤ x * C03.studentDensity d.f_location d.f_scale d.f_freedom x :=
        mul_le_mul_of_nonneg_left low hx0.le

/-- StudentsT, `ν ≤ 2`: `variance = None`, and indeed `x² · pdf x` is not integrable -/
theorem students_t_variance_none_not_integrable_rel (S : GammaDensitySpec) (d : StudentsT ℝ)
    (hσ : 0 < d.f_scale) (hν : 0 < d.f_freedom) (hle : d.f_freedom ≤ 2) :
    StudentsT.variance d = none ∧ ¬ Integrable (fun x => x ^ 2 * StudentsT.pdf d x) := by
  refine ⟨students_t_variance_none d hle, ?_⟩
  have hν8 : d.f_freedom < 1e8 := by rw [C03.lit_1e8]; linarith
  simp_rw [C03.students_t_pdf_eq_density_rel S d hν hν8]
  have hG1 := Real.Gamma_pos_of_pos (by positivity : 0 < d.f_freedom / 2)
  have hG2 := Real.Gamma_pos_of_pos (by positivity : 0 < (d.f_freedom + 1) / 2)
  have hsν := Real.sqrt_pos.mpr hν
  have hsπ := Real.sqrt_pos.mpr Real.pi_pos
  have hμ := abs_nonneg d.f_location
  set c := Real.Gamma ((d.f_freedom + 1) / 2) / Real.Gamma (d.f_freedom / 2)
      / (Real.sqrt d.f_freedom * Real.sqrt Real.pi) / d.f_scale
      * (1 + 4 / (d.f_scale * d.f_scale * d.f_freedom)) ^ (-(1 / 2) * (d.f_freedom + 1)) with hc
  have hcpos : 0 < c := by rw [hc]; positivity
  refine not_integrable_of_inv_le _ (|d.f_location| + 1) c (by positivity) hcpos ?_
  intro x hx
  have hx1 : 1 < x := by linarith
  have hx0 : 0 < x := by linarith
  have low := studentDensity_lower d.f_location hσ hν x hx
  rw [← mul_assoc, ← hc] at low
  have e1 : x⁻¹ ≤ x ^ 2 * x ^ (-(d.f_freedom + 1)) := by
    have : x ^ 2 * x ^ (-(d.f_freedom + 1)) = x ^ (1 - d.f_freedom) := by
      rw [show 1 - d.f_freedom = 2 + -(d.f_freedom + 1) by ring, Real.rpow_add hx0, Real.rpow_two]
    rw [this, ← Real.rpow_neg_one]
    exact Real.rpow_le_rpow_of_exponent_le hx1.le (by linarith)
  calc c * x⁻¹ ≤ c * (x ^ 2 * x ^ (-(d.f_freedom + 1))) := mul_le_mul_of_nonneg_left e1 hcpos.le
    _ = x ^ 2 * (c * x ^ (-(d.f_freedom + 1))) := by ring
    _ ≤ x ^ 2 * C03.studentDensity d.f_location d.f_scale d.f_freedom x :=
        mul_le_mul_of_nonneg_left low (by positivity)

example : ∃ d : StudentsT ℝ, 0 < d.f_scale ∧ 0 < d.f_freedom ∧ d.f_freedom ≤ 1 :=
  ⟨⟨0, 1, 1⟩, by norm_num, by norm_num, by norm_num⟩

/-! ### StudentsT, Normal branch (`freedom ≥ 1e8`) -/

/-- for `ν ≥ 1e8` the generated pdf is the generated Normal(μ, σ) pdf -/
theorem students_t_pdf_eq_normal_pdf (d : StudentsT ℝ) (h8 : (1e8 : ℝ) ≤ d.f_freedom) (x : ℝ) :
    StudentsT.pdf d x = Normal.pdf ⟨d.f_location, d.f_scale⟩ x := by
  unfold StudentsT.pdf; model_norm
  rw [if_pos h8]
  rfl

/-- StudentsT, `ν ≥ 1e8`: total mass `∫ pdf = 1`.  full(ℝ) (no special function on this branch) -/
theorem students_t_pdf_integral_large_freedom (d : StudentsT ℝ) (hσ : 0 < d.f_scale)
    (h8 : (1e8 : ℝ) ≤ d.f_freedom) : ∫ x, StudentsT.pdf d x = 1 := by
  simp_rw [students_t_pdf_eq_normal_pdf d h8]
  exact normal_pdf_integral ⟨d.f_location, d.f_scale⟩ hσ

/-- StudentsT, `ν ≥ 1e8`: the returned mean is the first moment of the generated pdf.  full(ℝ) -/
theorem students_t_mean_eq_integral_large_freedom (d : StudentsT ℝ) (hσ : 0 < d.f_scale)
    (h8 : (1e8 : ℝ) ≤ d.f_freedom) : StudentsT.mean d = some (∫ x, x * StudentsT.pdf d x) := by
  simp_rw [students_t_pdf_eq_normal_pdf d h8]
  rw [← normal_mean_eq_integral ⟨d.f_location, d.f_scale⟩ hσ]
  have h1 : ¬ d.f_freedom ≤ 1 := by
    rw [C03.lit_1e8] at h8; linarith
  unfold StudentsT.mean Normal.mean; model_norm
  rw [if_neg h1]

/-- COUNTEREXAMPLE (every `ν ≥ 1e8`): `StudentsT::variance` returns `σ²ν/(ν−2)`, but the generated pdf
    is then the Normal(μ, σ) density, whose second central moment is `σ²`. -/
theorem students_t_variance_large_freedom_counterexample (d : StudentsT ℝ) (hσ : 0 < d.f_scale)
    (h8 : (1e8 : ℝ) ≤ d.f_freedom) :
    (∫ x, (x - d.f_location) ^ 2 * StudentsT.pdf d x) = d.f_scale * d.f_scale ∧
    StudentsT.variance d = some (d.f_freedom * d.f_scale * d.f_scale / (d.f_freedom - 2)) ∧
    StudentsT.variance d ≠ some (∫ x, (x - d.f_location) ^ 2 * StudentsT.pdf d x) := by
  have h8' : (100000000 : ℝ) ≤ d.f_freedom := by rw [C03.lit_1e8] at h8; exact h8
  have hI : (∫ x, (x - d.f_location) ^ 2 * StudentsT.pdf d x) = d.f_scale * d.f_scale := by
    simp_rw [students_t_pdf_eq_normal_pdf d h8]
    have := normal_variance_eq_integral ⟨d.f_location, d.f_scale⟩ hσ
    unfold Normal.variance at this
    exact (Option.some.inj this).symm
  have hV : StudentsT.variance d
      = some (d.f_freedom * d.f_scale * d.f_scale / (d.f_freedom - 2)) := by
    unfold StudentsT.variance; model_norm
    rw [if_pos (by linarith)]
  refine ⟨hI, hV, ?_⟩
  rw [hI, hV]
  intro h
  simp only [Option.some.injEq] at h
  have hν2 : d.f_freedom - 2 ≠ 0 := by linarith
  rw [div_eq_iff hν2] at h
  have hss : 0 < d.f_scale * d.f_scale := mul_pos hσ hσ
  nlinarith

example : ∃ d : StudentsT ℝ, 0 < d.f_scale ∧ (1e8 : ℝ) ≤ d.f_freedom :=
  ⟨⟨0, 1, 1e8⟩, by norm_num, le_refl _⟩

end students_t

end Statrs.Props.C07
