/-
  C07 (moments derived from the density) — FisherSnedecor(d₁, d₂), over ℝ, under the constructor's
  hypotheses `0 < d₁`, `0 < d₂` (all integrals over the whole real line; the generated pdf is `0` on
  `x ≤ 0` by its first branch):
      ∫ pdf = 1                                                    (every d₁, d₂ > 0),
      d₂ > 2:  mean = some (d₂/(d₂−2)) = some (∫ x · pdf x),
      d₂ > 4:  variance = some (2d₂²(d₁+d₂−2)/(d₁(d₂−2)²(d₂−4))) = some (∫ (x − m)² · pdf x),
  `m = d₂/(d₂−2)` the closed-form mean (= `∫ x · pdf` by `fisher_snedecor_mean_integral_rel`); at or
  below the thresholds the generated methods return `None` and `x·pdf` resp. `x²·pdf` is not
  integrable (proved, comparison with `c/x`).
  The pdf normalises with `SF.beta`, so everything is relative to `C03.BetaFnSpec`
  (`SF.beta a b = Γ(a)Γ(b)/Γ(a+b)`; satisfiable: `C03.Witness.betaFnSpec_witness`).
  On `(0,∞)` the generated pdf `√((d₁x)^d₁ d₂^d₂/(d₁x+d₂)^(d₁+d₂)) / (x B(d₁/2,d₂/2))` is
  `c^a x^(a−1) (1+cx)^(−(a+b)) / B(a,b)` with `a = d₁/2`, `b = d₂/2`, `c = d₁/d₂`; the integrals are
  `∫₀^∞ x^(a−1)(1+cx)^(−(a+b)) dx = c^(−a) B(a,b)` (`Lemmas/MomentIntegralsGamma2.lean`).
-/
import Statrs.Real.Simp
import Statrs.Lemmas.Density
import Statrs.Props.C03.SFDerivB
import Statrs.Props.C03.SFDerivWitness
import Statrs.Lemmas.MomentIntegralsGamma2
import Statrs.Props.C07.MomentIntegralsA2
import Statrs.Gen.D_fisher_snedecor
import Mathlib.Tactic
namespace Statrs.Props.C07
open Statrs Statrs.Gen Statrs.Spec Statrs.Lemmas.Density Statrs.Lemmas.MomentIntegralsGamma
open MeasureTheory Set

variable [SF ℝ]

/-- FisherSnedecor: the generated pdf on `(0,∞)` is
    `c^a / B(a,b) · x^(a−1) (1+cx)^(−(a+b))`, `a = d₁/2`, `b = d₂/2`, `c = d₁/d₂` -/
theorem fisher_snedecor_pdf_formula_rel (Bf : C03.BetaFnSpec) (d : FisherSnedecor ℝ)
    (h1 : 0 < d.f_freedom_1) (h2 : 0 < d.f_freedom_2) (x : ℝ) (hx : 0 < x) :
    FisherSnedecor.pdf d x =
      (d.f_freedom_1 / d.f_freedom_2) ^ (d.f_freedom_1 / 2) /
        (Real.Gamma (d.f_freedom_1 / 2) * Real.Gamma (d.f_freedom_2 / 2)
          / Real.Gamma (d.f_freedom_1 / 2 + d.f_freedom_2 / 2)) *
        (x ^ (d.f_freedom_1 / 2 - 1)
          * (1 + d.f_freedom_1 / d.f_freedom_2 * x) ^ (-(d.f_freedom_1 / 2 + d.f_freedom_2 / 2))) := by
  unfold FisherSnedecor.pdf; model_norm
  rw [if_neg (not_le.mpr hx), Bf.beta_eq _ _ (by positivity) (by positivity)]
  generalize d.f_freedom_1 = d1 at *
  generalize d.f_freedom_2 = d2 at *
  have hp : 0 < d1 * x := mul_pos h1 hx
  have hs : 0 < d1 * x + d2 := by positivity
  have hq : 0 < 1 + d1 / d2 * x := by positivity
  have e1 : Real.sqrt ((d1 * x) ^ d1 * d2 ^ d2 / (d1 * x + d2) ^ (d1 + d2)) =
      (d1 * x) ^ (d1 / 2) * d2 ^ (d2 / 2) / (d1 * x + d2) ^ (d1 / 2 + d2 / 2) := by
    rw [Real.sqrt_eq_rpow, Real.div_rpow (by positivity) (by positivity),
      Real.mul_rpow (by positivity) (by positivity), ← Real.rpow_mul hp.le, ← Real.rpow_mul h2.le,
      ← Real.rpow_mul hs.le]
    rw [show d1 * (1 / 2) = d1 / 2 by ring, show d2 * (1 / 2) = d2 / 2 by ring,
      show (d1 + d2) * (1 / 2) = d1 / 2 + d2 / 2 by ring]
  have e2 : d1 * x + d2 = d2 * (1 + d1 / d2 * x) := by field_simp; ring
  rw [e1, e2, Real.mul_rpow h1.le hx.le, Real.mul_rpow h2.le hq.le, Real.rpow_add h2,
    Real.div_rpow h1.le h2.le, Real.rpow_sub_one hx.ne', Real.rpow_neg hq.le]
  have hGa := Real.Gamma_pos_of_pos (by positivity : 0 < d1 / 2)
  have hGb := Real.Gamma_pos_of_pos (by positivity : 0 < d2 / 2)
  have hGab := Real.Gamma_pos_of_pos (by positivity : 0 < d1 / 2 + d2 / 2)
  have hA := Real.rpow_pos_of_pos h1 (d1 / 2)
  have hB := Real.rpow_pos_of_pos h2 (d1 / 2)
  have hC := Real.rpow_pos_of_pos h2 (d2 / 2)
  have hD := Real.rpow_pos_of_pos hx (d1 / 2)
  have hE := Real.rpow_pos_of_pos hq (d1 / 2 + d2 / 2)
  generalize Real.Gamma (d1 / 2) = Ga at *
  generalize Real.Gamma (d2 / 2) = Gb at *
  generalize Real.Gamma (d1 / 2 + d2 / 2) = Gab at *
  generalize d1 ^ (d1 / 2) = A at *
  generalize d2 ^ (d1 / 2) = B at *
  generalize d2 ^ (d2 / 2) = C at *
  generalize x ^ (d1 / 2) = D at *
  generalize (1 + d1 / d2 * x) ^ (d1 / 2 + d2 / 2) = E at *
  field_simp

/-- FisherSnedecor: total mass `∫ pdf = 1` over ℝ (every `d₁, d₂ > 0`) -/
theorem fisher_snedecor_pdf_integral_rel (Bf : C03.BetaFnSpec) (d : FisherSnedecor ℝ)
    (h1 : 0 < d.f_freedom_1) (h2 : 0 < d.f_freedom_2) : ∫ x, FisherSnedecor.pdf d x = 1 := by
  have ha : 0 < d.f_freedom_1 / 2 := by positivity
  have hb : 0 < d.f_freedom_2 / 2 := by positivity
  have hc : 0 < d.f_freedom_1 / d.f_freedom_2 := by positivity
  have hGa := Real.Gamma_pos_of_pos ha
  have hGb := Real.Gamma_pos_of_pos hb
  have hGab := Real.Gamma_pos_of_pos (add_pos ha hb)
  have hca := Real.rpow_pos_of_pos hc (d.f_freedom_1 / 2)
  rw [integral_eq_setIntegral_Ioi (f := fun x => FisherSnedecor.pdf d x)
    (fun x hx => C03.fisher_snedecor_pdf_eq_zero d x hx.le),
    setIntegral_congr_fun measurableSet_Ioi
      (fun x hx => fisher_snedecor_pdf_formula_rel Bf d h1 h2 x hx),
    integral_const_mul, integral_betaPrimeKernel_scaled ha hb hc, Real.rpow_neg hc.le]
  field_simp

/-- FisherSnedecor, `d₂ > 2`: `∫ (c₀ + c₁x) · pdf x dx = c₀ + c₁ · d₂/(d₂−2)` over ℝ -/
theorem fisher_snedecor_poly1_integral_rel (Bf : C03.BetaFnSpec) (d : FisherSnedecor ℝ)
    (h1 : 0 < d.f_freedom_1) (h2 : 2 < d.f_freedom_2) (c0 c1 : ℝ) :
    ∫ x, (c0 + c1 * x) * FisherSnedecor.pdf d x
      = c0 + c1 * (d.f_freedom_2 / (d.f_freedom_2 - 2)) := by
  have h20 : 0 < d.f_freedom_2 := by linarith
  have ha : 0 < d.f_freedom_1 / 2 := by positivity
  have hb : 0 < d.f_freedom_2 / 2 - 1 := by linarith
  have hc : 0 < d.f_freedom_1 / d.f_freedom_2 := by positivity
  have hGa := Real.Gamma_pos_of_pos ha
  have hGb := Real.Gamma_pos_of_pos hb
  have hGab := Real.Gamma_pos_of_pos (by positivity : 0 < d.f_freedom_1 / 2 + d.f_freedom_2 / 2)
  have hca := Real.rpow_pos_of_pos hc (d.f_freedom_1 / 2)
  have gb : Real.Gamma (d.f_freedom_2 / 2) = (d.f_freedom_2 / 2 - 1) * Real.Gamma (d.f_freedom_2 / 2 - 1) := by
    have := Real.Gamma_add_one hb.ne'
    rwa [sub_add_cancel] at this
  rw [integral_eq_setIntegral_Ioi (f := fun x => (c0 + c1 * x) * FisherSnedecor.pdf d x)
    (fun x hx => by rw [C03.fisher_snedecor_pdf_eq_zero d x hx.le, mul_zero])]
  have e : ∀ x ∈ Ioi (0:ℝ), (c0 + c1 * x) * FisherSnedecor.pdf d x =
      ((d.f_freedom_1 / d.f_freedom_2) ^ (d.f_freedom_1 / 2) /
        (Real.Gamma (d.f_freedom_1 / 2) * Real.Gamma (d.f_freedom_2 / 2)
          / Real.Gamma (d.f_freedom_1 / 2 + d.f_freedom_2 / 2))) *
        ((c0 + c1 * x) * (x ^ (d.f_freedom_1 / 2 - 1) * (1 + d.f_freedom_1 / d.f_freedom_2 * x)
          ^ (-(d.f_freedom_1 / 2 + (d.f_freedom_2 / 2 - 1 + 1))))) := by
    intro x hx
    rw [fisher_snedecor_pdf_formula_rel Bf d h1 h20 x hx, sub_add_cancel]
    ring
  rw [setIntegral_congr_fun measurableSet_Ioi e, integral_const_mul,
    integral_poly1_betaPrimeKernel ha hb hc, Real.rpow_neg hc.le, sub_add_cancel, gb]
  have hd2 : d.f_freedom_2 - 2 ≠ 0 := by linarith
  have hd2' : d.f_freedom_2 / 2 - 1 ≠ 0 := hb.ne'
  generalize Real.Gamma (d.f_freedom_1 / 2) = Ga at *
  generalize Real.Gamma (d.f_freedom_2 / 2 - 1) = Gb at *
  generalize Real.Gamma (d.f_freedom_1 / 2 + d.f_freedom_2 / 2) = Gab at *
  generalize (d.f_freedom_1 / d.f_freedom_2) ^ (d.f_freedom_1 / 2) = A at *
  field_simp

/-- FisherSnedecor, `d₂ > 4`: `∫ (c₀ + c₁x + c₂x²) · pdf x dx
      = c₀ + c₁ · d₂/(d₂−2) + c₂ · d₂²(d₁+2)/(d₁(d₂−2)(d₂−4))` over ℝ -/
theorem fisher_snedecor_poly2_integral_rel (Bf : C03.BetaFnSpec) (d : FisherSnedecor ℝ)
    (h1 : 0 < d.f_freedom_1) (h2 : 4 < d.f_freedom_2) (c0 c1 c2 : ℝ) :
    ∫ x, (c0 + c1 * x + c2 * x ^ 2) * FisherSnedecor.pdf d x
      = c0 + c1 * (d.f_freedom_2 / (d.f_freedom_2 - 2))
        + c2 * (d.f_freedom_2 ^ 2 * (d.f_freedom_1 + 2)
          / (d.f_freedom_1 * (d.f_freedom_2 - 2) * (d.f_freedom_2 - 4))) := by
  have h20 : 0 < d.f_freedom_2 := by linarith
  have ha : 0 < d.f_freedom_1 / 2 := by positivity
  have hb : 0 < d.f_freedom_2 / 2 - 2 := by linarith
  have hc : 0 < d.f_freedom_1 / d.f_freedom_2 := by positivity
  have hGa := Real.Gamma_pos_of_pos ha
  have hGb := Real.Gamma_pos_of_pos hb
  have hGab := Real.Gamma_pos_of_pos (by positivity : 0 < d.f_freedom_1 / 2 + d.f_freedom_2 / 2)
  have hca := Real.rpow_pos_of_pos hc (d.f_freedom_1 / 2)
  have gb : Real.Gamma (d.f_freedom_2 / 2)
      = (d.f_freedom_2 / 2 - 1) * ((d.f_freedom_2 / 2 - 2) * Real.Gamma (d.f_freedom_2 / 2 - 2)) := by
    have a1 := Real.Gamma_add_one hb.ne'
    have a2 := Real.Gamma_add_one (by linarith : d.f_freedom_2 / 2 - 1 ≠ 0)
    rw [sub_add_cancel] at a2
    rw [show d.f_freedom_2 / 2 - 2 + 1 = d.f_freedom_2 / 2 - 1 by ring] at a1
    rw [a2, a1]
  rw [integral_eq_setIntegral_Ioi
    (f := fun x => (c0 + c1 * x + c2 * x ^ 2) * FisherSnedecor.pdf d x)
    (fun x hx => by rw [C03.fisher_snedecor_pdf_eq_zero d x hx.le, mul_zero])]
  have e : ∀ x ∈ Ioi (0:ℝ), (c0 + c1 * x + c2 * x ^ 2) * FisherSnedecor.pdf d x =
      ((d.f_freedom_1 / d.f_freedom_2) ^ (d.f_freedom_1 / 2) /
        (Real.Gamma (d.f_freedom_1 / 2) * Real.Gamma (d.f_freedom_2 / 2)
          / Real.Gamma (d.f_freedom_1 / 2 + d.f_freedom_2 / 2))) *
        ((c0 + c1 * x + c2 * x ^ 2) * (x ^ (d.f_freedom_1 / 2 - 1)
          * (1 + d.f_freedom_1 / d.f_freedom_2 * x)
            ^ (-(d.f_freedom_1 / 2 + (d.f_freedom_2 / 2 - 2 + 2))))) := by
    intro x hx
    rw [fisher_snedecor_pdf_formula_rel Bf d h1 h20 x hx, sub_add_cancel]
    ring
  rw [setIntegral_congr_fun measurableSet_Ioi e, integral_const_mul,
    integral_poly2_betaPrimeKernel ha hb hc, Real.rpow_neg hc.le, sub_add_cancel, gb,
    show d.f_freedom_2 / 2 - 2 + 1 = d.f_freedom_2 / 2 - 1 by ring]
  clear e gb
  generalize Real.Gamma (d.f_freedom_1 / 2) = Ga at *
  generalize Real.Gamma (d.f_freedom_2 / 2 - 2) = Gb at *
  generalize Real.Gamma (d.f_freedom_1 / 2 + d.f_freedom_2 / 2) = Gab at *
  generalize (d.f_freedom_1 / d.f_freedom_2) ^ (d.f_freedom_1 / 2) = A at *
  generalize d.f_freedom_1 = d1 at *
  generalize d.f_freedom_2 = d2 at *
  obtain ⟨β, rfl⟩ : ∃ β, d2 = 2 * β + 4 := ⟨d2 / 2 - 2, by ring⟩
  have hβ : 0 < β := by linarith
  rw [show (2 * β + 4) / 2 - 1 = β + 1 by ring, show (2 * β + 4) / 2 - 2 = β by ring,
    show 2 * β + 4 - 2 = 2 * (β + 1) by ring, show 2 * β + 4 - 4 = 2 * β by ring]
  field_simp

/-- FisherSnedecor, `d₂ > 2`: `∫ x · pdf x dx = d₂/(d₂−2)` -/
theorem fisher_snedecor_mean_integral_rel (Bf : C03.BetaFnSpec) (d : FisherSnedecor ℝ)
    (h1 : 0 < d.f_freedom_1) (h2 : 2 < d.f_freedom_2) :
    ∫ x, x * FisherSnedecor.pdf d x = d.f_freedom_2 / (d.f_freedom_2 - 2) := by
  have := fisher_snedecor_poly1_integral_rel Bf d h1 h2 0 1
  simpa using this

/-- FisherSnedecor, `d₂ > 2` (existence threshold of the mean): the returned mean is the first
    moment of the generated pdf -/
theorem fisher_snedecor_mean_eq_integral_rel (Bf : C03.BetaFnSpec) (d : FisherSnedecor ℝ)
    (h1 : 0 < d.f_freedom_1) (h2 : 2 < d.f_freedom_2) :
    FisherSnedecor.mean d = some (∫ x, x * FisherSnedecor.pdf d x) := by
  rw [fisher_snedecor_mean_integral_rel Bf d h1 h2]
  unfold FisherSnedecor.mean; model_norm
  rw [if_neg (not_le.mpr h2)]

/-- FisherSnedecor, `d₂ > 4` (existence threshold of the variance): the returned variance is the
    second central moment of the generated pdf (centre written as the closed form `m = d₂/(d₂−2)`,
    which is `∫ x · pdf` by `fisher_snedecor_mean_integral_rel`) -/
theorem fisher_snedecor_variance_eq_integral_rel (Bf : C03.BetaFnSpec) (d : FisherSnedecor ℝ)
    (h1 : 0 < d.f_freedom_1) (h2 : 4 < d.f_freedom_2) :
    FisherSnedecor.variance d
      = some (∫ x, (x - d.f_freedom_2 / (d.f_freedom_2 - 2)) ^ 2 * FisherSnedecor.pdf d x) := by
  have e : (fun x => (x - d.f_freedom_2 / (d.f_freedom_2 - 2)) ^ 2 * FisherSnedecor.pdf d x) =
      fun x => ((d.f_freedom_2 / (d.f_freedom_2 - 2)) ^ 2
        + (-2 * (d.f_freedom_2 / (d.f_freedom_2 - 2))) * x + 1 * x ^ 2)
        * FisherSnedecor.pdf d x := by
    funext x; ring
  rw [e, fisher_snedecor_poly2_integral_rel Bf d h1 h2]
  unfold FisherSnedecor.variance; model_norm
  rw [show (4.0 : ℝ) = 4 by norm_num, if_neg (not_le.mpr h2)]
  simp only [Option.some.injEq]
  have hd1 : d.f_freedom_1 ≠ 0 := h1.ne'
  have hd2 : d.f_freedom_2 - 2 ≠ 0 := by linarith
  have hd4 : d.f_freedom_2 - 4 ≠ 0 := by linarith
  field_simp
  ring

/-- FisherSnedecor: variance with the centre written as the integral `∫ y · pdf y` itself -/
theorem fisher_snedecor_variance_eq_integral_about_mean_rel (Bf : C03.BetaFnSpec)
    (d : FisherSnedecor ℝ) (h1 : 0 < d.f_freedom_1) (h2 : 4 < d.f_freedom_2) :
    FisherSnedecor.variance d
      = some (∫ x, (x - ∫ y, y * FisherSnedecor.pdf d y) ^ 2 * FisherSnedecor.pdf d x) := by
  rw [fisher_snedecor_mean_integral_rel Bf d h1 (by linarith)]
  exact fisher_snedecor_variance_eq_integral_rel Bf d h1 h2

omit [SF ℝ] in
/-- FisherSnedecor: at or below the threshold `d₂ ≤ 2` the generated `mean` returns `None` -/
theorem fisher_snedecor_mean_none (d : FisherSnedecor ℝ) (h : d.f_freedom_2 ≤ 2) :
    FisherSnedecor.mean d = none := by
  unfold FisherSnedecor.mean; model_norm; rw [if_pos h]

omit [SF ℝ] in
/-- FisherSnedecor: at or below the threshold `d₂ ≤ 4` the generated `variance` returns `None` -/
theorem fisher_snedecor_variance_none (d : FisherSnedecor ℝ) (h : d.f_freedom_2 ≤ 4) :
    FisherSnedecor.variance d = none := by
  unfold FisherSnedecor.variance; model_norm
  rw [show (4.0 : ℝ) = 4 by norm_num, if_pos h]

example : ∃ d : FisherSnedecor ℝ, 0 < d.f_freedom_1 ∧ 4 < d.f_freedom_2 :=
  ⟨⟨3, 5⟩, by norm_num, by norm_num⟩
example : FisherSnedecor.variance (⟨3, 5⟩ : FisherSnedecor ℝ)
    = some (∫ x, (x - 5 / (5 - 2)) ^ 2
        * @FisherSnedecor.pdf ℝ _ _ _ _ _ _ _ _ _ _ _ _ _ C03.Witness.sfDerivWitness ⟨3, 5⟩ x) :=
  @fisher_snedecor_variance_eq_integral_rel C03.Witness.sfDerivWitness
    C03.Witness.betaFnSpec_witness ⟨3, 5⟩ (by norm_num) (by norm_num)

/-- tail lower bound: for `x > 1`, `pdf x ≥ c^a/B(a,b) · (1+c)^(−(a+b)) · x^(−b−1)` -/
theorem fisher_snedecor_pdf_lower_rel (Bf : C03.BetaFnSpec) (d : FisherSnedecor ℝ)
    (h1 : 0 < d.f_freedom_1) (h2 : 0 < d.f_freedom_2) (x : ℝ) (hx : 1 < x) :
    (d.f_freedom_1 / d.f_freedom_2) ^ (d.f_freedom_1 / 2) /
        (Real.Gamma (d.f_freedom_1 / 2) * Real.Gamma (d.f_freedom_2 / 2)
          / Real.Gamma (d.f_freedom_1 / 2 + d.f_freedom_2 / 2)) *
        ((1 + d.f_freedom_1 / d.f_freedom_2) ^ (-(d.f_freedom_1 / 2 + d.f_freedom_2 / 2))
          * x ^ (-(d.f_freedom_2 / 2) - 1))
      ≤ FisherSnedecor.pdf d x := by
  have hx0 : 0 < x := by linarith
  have ha : 0 < d.f_freedom_1 / 2 := by positivity
  have hb : 0 < d.f_freedom_2 / 2 := by positivity
  have hc : 0 < d.f_freedom_1 / d.f_freedom_2 := by positivity
  have hGa := Real.Gamma_pos_of_pos ha
  have hGb := Real.Gamma_pos_of_pos hb
  have hGab := Real.Gamma_pos_of_pos (add_pos ha hb)
  have hca := Real.rpow_pos_of_pos hc (d.f_freedom_1 / 2)
  rw [fisher_snedecor_pdf_formula_rel Bf d h1 h2 x hx0]
  refine mul_le_mul_of_nonneg_left ?_ (by positivity)
  have hB : 1 + d.f_freedom_1 / d.f_freedom_2 * x ≤ (1 + d.f_freedom_1 / d.f_freedom_2) * x := by
    nlinarith
  have key := Real.rpow_le_rpow_of_nonpos (by positivity) hB
    (by linarith : -(d.f_freedom_1 / 2 + d.f_freedom_2 / 2) ≤ 0)
  rw [Real.mul_rpow (by positivity) hx0.le] at key
  have e : x ^ (-(d.f_freedom_2 / 2) - 1)
      = x ^ (d.f_freedom_1 / 2 - 1) * x ^ (-(d.f_freedom_1 / 2 + d.f_freedom_2 / 2)) := by
    rw [← Real.rpow_add hx0]; congr 1; ring
  rw [e]
  calc (1 + d.f_freedom_1 / d.f_freedom_2) ^ (-(d.f_freedom_1 / 2 + d.f_freedom_2 / 2)) *
        (x ^ (d.f_freedom_1 / 2 - 1) * x ^ (-(d.f_freedom_1 / 2 + d.f_freedom_2 / 2)))
      = x ^ (d.f_freedom_1 / 2 - 1) *
        ((1 + d.f_freedom_1 / d.f_freedom_2) ^ (-(d.f_freedom_1 / 2 + d.f_freedom_2 / 2)) *
          x ^ (-(d.f_freedom_1 / 2 + d.f_freedom_2 / 2))) := by ring
    _ ≤ _ := mul_le_mul_of_nonneg_left key (Real.rpow_pos_of_pos hx0 _).le

/-- FisherSnedecor, `d₂ ≤ 2`: `mean = None`, and indeed `x · pdf x` is not integrable -/
theorem fisher_snedecor_mean_none_not_integrable_rel (Bf : C03.BetaFnSpec) (d : FisherSnedecor ℝ)
    (h1 : 0 < d.f_freedom_1) (h2 : 0 < d.f_freedom_2) (hle : d.f_freedom_2 ≤ 2) :
    FisherSnedecor.mean d = none ∧ ¬ Integrable (fun x => x * FisherSnedecor.pdf d x) := by
  refine ⟨fisher_snedecor_mean_none d hle, ?_⟩
  have ha : 0 < d.f_freedom_1 / 2 := by positivity
  have hb : 0 < d.f_freedom_2 / 2 := by positivity
  have hc : 0 < d.f_freedom_1 / d.f_freedom_2 := by positivity
  have hGa := Real.Gamma_pos_of_pos ha
  have hGb := Real.Gamma_pos_of_pos hb
  have hGab := Real.Gamma_pos_of_pos (add_pos ha hb)
  set c := (d.f_freedom_1 / d.f_freedom_2) ^ (d.f_freedom_1 / 2) /
        (Real.Gamma (d.f_freedom_1 / 2) * Real.Gamma (d.f_freedom_2 / 2)
          / Real.Gamma (d.f_freedom_1 / 2 + d.f_freedom_2 / 2)) *
        (1 + d.f_freedom_1 / d.f_freedom_2) ^ (-(d.f_freedom_1 / 2 + d.f_freedom_2 / 2)) with hcdef
  have hcpos : 0 < c := by rw [hcdef]; positivity
  refine not_integrable_of_inv_le _ 1 c one_pos hcpos ?_
  intro x hx
  have hx0 : 0 < x := by linarith
  have low := fisher_snedecor_pdf_lower_rel Bf d h1 h2 x hx
  rw [← mul_assoc, ← hcdef] at low
  have e1 : x⁻¹ ≤ x * x ^ (-(d.f_freedom_2 / 2) - 1) := by
    have : x * x ^ (-(d.f_freedom_2 / 2) - 1) = x ^ (-(d.f_freedom_2 / 2)) := by
      rw [show -(d.f_freedom_2 / 2) = 1 + (-(d.f_freedom_2 / 2) - 1) by ring, Real.rpow_add hx0,
        Real.rpow_one]
      ring_nf
    rw [this, ← Real.rpow_neg_one]
    exact Real.rpow_le_rpow_of_exponent_le hx.le (by linarith)
  calc c * x⁻¹ ≤ c * (x * x ^ (-(d.f_freedom_2 / 2) - 1)) := mul_le_mul_of_nonneg_left e1 hcpos.le
    _ = x * (c * x ^ (-(d.f_freedom_2 / 2) - 1)) := by ring
    _ ≤ x * FisherSnedecor.pdf d x := mul_le_mul_of_nonneg_left low hx0.le

/-- FisherSnedecor, `d₂ ≤ 4`: `variance = None`, and indeed `x² · pdf x` is not integrable -/
theorem fisher_snedecor_variance_none_not_integrable_rel (Bf : C03.BetaFnSpec)
    (d : FisherSnedecor ℝ) (h1 : 0 < d.f_freedom_1) (h2 : 0 < d.f_freedom_2)
    (hle : d.f_freedom_2 ≤ 4) :
    FisherSnedecor.variance d = none ∧ ¬ Integrable (fun x => x ^ 2 * FisherSnedecor.pdf d x) := by
  refine ⟨fisher_snedecor_variance_none d hle, ?_⟩
  have ha : 0 < d.f_freedom_1 / 2 := by positivity
  have hb : 0 < d.f_freedom_2 / 2 := by positivity
  have hc : 0 < d.f_freedom_1 / d.f_freedom_2 := by positivity
  have hGa := Real.Gamma_pos_of_pos ha
  have hGb := Real.Gamma_pos_of_pos hb
  have hGab := Real.Gamma_pos_of_pos (add_pos ha hb)
  set c := (d.f_freedom_1 / d.f_freedom_2) ^ (d.f_freedom_1 / 2) /
        (Real.Gamma (d.f_freedom_1 / 2) * Real.Gamma (d.f_freedom_2 / 2)
          / Real.Gamma (d.f_freedom_1 / 2 + d.f_freedom_2 / 2)) *
        (1 + d.f_freedom_1 / d.f_freedom_2) ^ (-(d.f_freedom_1 / 2 + d.f_freedom_2 / 2)) with hcdef
  have hcpos : 0 < c := by rw [hcdef]; positivity
  refine not_integrable_of_inv_le _ 1 c one_pos hcpos ?_
  intro x hx
  have hx0 : 0 < x := by linarith
  have low := fisher_snedecor_pdf_lower_rel Bf d h1 h2 x hx
  rw [← mul_assoc, ← hcdef] at low
  have e1 : x⁻¹ ≤ x ^ 2 * x ^ (-(d.f_freedom_2 / 2) - 1) := by
    have : x ^ 2 * x ^ (-(d.f_freedom_2 / 2) - 1) = x ^ (1 - d.f_freedom_2 / 2) := by
      rw [show 1 - d.f_freedom_2 / 2 = 2 + (-(d.f_freedom_2 / 2) - 1) by ring, Real.rpow_add hx0,
        Real.rpow_two]
    rw [this, ← Real.rpow_neg_one]
    exact Real.rpow_le_rpow_of_exponent_le hx.le (by linarith)
  calc c * x⁻¹ ≤ c * (x ^ 2 * x ^ (-(d.f_freedom_2 / 2) - 1)) :=
        mul_le_mul_of_nonneg_left e1 hcpos.le
    _ = x ^ 2 * (c * x ^ (-(d.f_freedom_2 / 2) - 1)) := by ring
    _ ≤ x ^ 2 * FisherSnedecor.pdf d x := mul_le_mul_of_nonneg_left low (by positivity)

example : ∃ d : FisherSnedecor ℝ, 0 < d.f_freedom_1 ∧ 0 < d.f_freedom_2 ∧ d.f_freedom_2 ≤ 2 :=
  ⟨⟨3, 2⟩, by norm_num, by norm_num, by norm_num⟩

end Statrs.Props.C07
