/-
  C07 (moments derived from the mass function, infinite support) — Geometric(p).
  The values returned by `mean`/`variance` are the first moment / central second moment of the SAME
  object's `pmf`, as convergent series over the support; `entropy` is the Shannon entropy of the
  pmf in BITS (so it is NOT `−Σ pmf·ln pmf`: counterexample at p = 1/2).

  The pmf takes an integer argument (`Int` in the model, Rust `u64`): all series run over
  `k : ℕ` with the pmf evaluated at `(k : ℤ)`, i.e. over the whole `u64`-shaped domain `k ≥ 0`
  (the model's integers are unbounded).  In this version of the crate `Geometric::pmf` is
  `(1 − p).powf((x − 1) as f64) * p` for `x ≥ 1`, `0` at `x = 0` — elementary, so everything here is
  `full(ℝ)` with no special-function premise.
-/
import Statrs.Real.Simp
import Statrs.Gen.D_geometric
import Statrs.Lemmas.Related
import Statrs.Lemmas.MomentSums
import Mathlib.Tactic
namespace Statrs.Props.C07
open Statrs Statrs.Gen Statrs.Lemmas.Related Statrs.Lemmas.MomentSums

/-! ### Geometric -/
section geometric
variable (d : Geometric ℝ)

/-- the pmf vanishes at 0 -/
theorem geometric_pmf_zero : Geometric.pmf d (0 : ℤ) = 0 := by
  unfold Geometric.pmf; lit_norm; simp

/-- closed form on the support: `pmf (n+1) = (1−p)ⁿ · p` (for every `p`; `0⁰ = 1` as in Rust's `powf`) -/
theorem geometric_pmf_succ (n : ℕ) :
    Geometric.pmf d (((n + 1 : ℕ) : ℤ)) = (1 - d.f_p) ^ n * d.f_p := by
  unfold Geometric.pmf; rfun_norm; lit_norm
  have h1 : ¬ (((n + 1 : ℕ) : ℤ) = 0) := by omega
  have h2 : usub (((n + 1 : ℕ) : ℤ)) 1 = (n : ℤ) := by
    unfold usub; rw [if_neg (by omega)]; push_cast; ring
  rw [if_neg h1, h2]
  simp [Real.rpow_natCast]

variable (hp0 : 0 < d.f_p) (hp1 : d.f_p ≤ 1)
include hp0 hp1

/-- total mass: `Σ_{k≥0} pmf(k) = 1` -/
theorem geometric_pmf_hasSum : HasSum (fun k : ℕ => Geometric.pmf d (k : ℤ)) 1 := by
  apply hasSum_of_succ (geometric_pmf_zero d)
  simp only [geometric_pmf_succ]
  exact geom_hasSum_mass hp0 hp1

/-- mean: the returned value `1/p` is `Σ_{k≥0} k·pmf(k)` -/
theorem geometric_mean_hasSum :
    ∃ m : ℝ, Geometric.mean d = some m ∧
      HasSum (fun k : ℕ => (k : ℝ) * Geometric.pmf d (k : ℤ)) m := by
  refine ⟨1 / d.f_p, by unfold Geometric.mean; lit_norm, ?_⟩
  apply hasSum_of_succ (by simp)
  simp only [geometric_pmf_succ]
  refine hasSum_congr' (geom_hasSum_mean hp0 hp1) (fun n => ?_) rfl
  push_cast; ring

/-- `mean = some (Σ' k·pmf(k))` -/
theorem geometric_mean_eq_tsum :
    Geometric.mean d = some (∑' k : ℕ, (k : ℝ) * Geometric.pmf d (k : ℤ)) := by
  obtain ⟨m, hm, hs⟩ := geometric_mean_hasSum d hp0 hp1
  rw [hs.tsum_eq]; exact hm

/-- variance: the returned value `(1−p)/p²` is `Σ_{k≥0} (k−μ)²·pmf(k)` with `μ` the returned mean -/
theorem geometric_variance_hasSum :
    ∃ m v : ℝ, Geometric.mean d = some m ∧ Geometric.variance d = some v ∧
      HasSum (fun k : ℕ => ((k : ℝ) - m) * ((k : ℝ) - m) * Geometric.pmf d (k : ℤ)) v := by
  refine ⟨1 / d.f_p, (1 - d.f_p) / (d.f_p * d.f_p), by unfold Geometric.mean; lit_norm,
    by unfold Geometric.variance; lit_norm, ?_⟩
  apply hasSum_of_succ (by simp [geometric_pmf_zero])
  simp only [geometric_pmf_succ]
  refine hasSum_congr' (geom_hasSum_variance hp0 hp1) (fun n => ?_) rfl
  push_cast; ring

/-- `variance = some (Σ' (k−1/p)²·pmf(k))` -/
theorem geometric_variance_eq_tsum :
    Geometric.variance d = some (∑' k : ℕ,
      ((k : ℝ) - 1 / d.f_p) * ((k : ℝ) - 1 / d.f_p) * Geometric.pmf d (k : ℤ)) := by
  obtain ⟨m, v, hm, hv, hs⟩ := geometric_variance_hasSum d hp0 hp1
  have : m = 1 / d.f_p := by
    unfold Geometric.mean at hm; lit_norm; simpa using hm.symm
  subst this
  rw [hs.tsum_eq]; exact hv

omit hp1 in
/-- entropy: for `0 < p < 1` the returned value is the Shannon entropy of the pmf in BITS,
    `returned · ln 2 = −Σ_{k≥0} pmf(k)·ln pmf(k)`.  (At `p = 1` the Rust code returns NaN —
    `−1·log₂ 0 + log₂ 0` — which the real model cannot express, hence `p < 1`.) -/
theorem geometric_entropy_bits_hasSum (hp1' : d.f_p < 1) :
    ∃ e : ℝ, Geometric.entropy d = some e ∧
      HasSum (fun k : ℕ => Geometric.pmf d (k : ℤ) * Real.log (Geometric.pmf d (k : ℤ)))
        (-(e * Real.log 2)) := by
  have hq : 0 < 1 - d.f_p := by linarith
  have hl2 : Real.log 2 ≠ 0 := (Real.log_pos (by norm_num)).ne'
  refine ⟨_, by unfold Geometric.entropy; rfun_norm; lit_norm; rfl, ?_⟩
  apply hasSum_of_succ (by simp [geometric_pmf_zero])
  simp only [geometric_pmf_succ]
  refine hasSum_congr' (geom_hasSum_plogp hp0 hp1') (fun n => rfl) ?_
  have e1 : 1 / d.f_p - 1 = (1 - d.f_p) / d.f_p := by field_simp
  rw [e1, Real.log_div hq.ne' hp0.ne']
  field_simp
  ring

end geometric

/-- FALSE as a "nats" statement: for `Geometric(1/2)` the returned entropy is `2` (bits) while
    `−Σ pmf·ln pmf = 2·ln 2 ≈ 1.386`. -/
theorem geometric_entropy_sum_counterexample :
    ∃ d : Geometric ℝ, 0 < d.f_p ∧ d.f_p ≤ 1 ∧
      Summable (fun k : ℕ => Geometric.pmf d (k : ℤ) * Real.log (Geometric.pmf d (k : ℤ))) ∧
      Geometric.entropy d = some 2 ∧
      Geometric.entropy d
        ≠ some (-∑' k : ℕ, Geometric.pmf d (k : ℤ) * Real.log (Geometric.pmf d (k : ℤ))) := by
  let d : Geometric ℝ := ⟨1 / 2⟩
  have hp0 : 0 < d.f_p := by show (0:ℝ) < 1 / 2; norm_num
  have hp1 : d.f_p < 1 := by show (1 / 2 : ℝ) < 1; norm_num
  obtain ⟨e, he, hs⟩ := geometric_entropy_bits_hasSum d hp0 hp1
  have hl2 : 0 < Real.log 2 := Real.log_pos (by norm_num)
  have he2 : Geometric.entropy d = some 2 := by
    unfold Geometric.entropy; rfun_norm; lit_norm
    show some (-(1 / (1 / 2 : ℝ)) * (Real.log (1 - 1 / 2) / Real.log 2)
      + Real.log (1 / (1 / 2 : ℝ) - 1) / Real.log 2) = some 2
    have h1 : (1 - 1 / 2 : ℝ) = 2⁻¹ := by norm_num
    have h2 : (1 / (1 / 2 : ℝ) - 1) = 1 := by norm_num
    rw [h1, h2, Real.log_inv, Real.log_one]
    congr 1; field_simp; ring
  have : e = 2 := by rw [he2] at he; exact (Option.some.inj he).symm
  subst this
  refine ⟨d, hp0, hp1.le, hs.summable, he2, ?_⟩
  rw [hs.tsum_eq, he2]
  intro h
  have h' : (2 : ℝ) = 2 * Real.log 2 := by simpa using Option.some.inj h
  -- ln 2 < 1
  have : Real.log 2 < 1 := by
    have := Real.log_two_lt_d9; linarith
  linarith

example : ∃ d : Geometric ℝ, 0 < d.f_p ∧ d.f_p ≤ 1 := ⟨⟨1 / 3⟩, by norm_num⟩

end Statrs.Props.C07
