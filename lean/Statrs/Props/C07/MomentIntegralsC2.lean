/-
  C07 (moments derived from the mass function) — Binomial(n, p).
  `mean`, `variance`, `entropy` returned by the generated `Binomial` are the first moment, central
  second moment and Shannon entropy (nats) of the SAME object's `pmf`, as finite sums over the
  support `{0,…,n}`.

  The pmf takes an integer argument (`Int` in the model, Rust `u64`); sums run over
  `k ∈ Finset.range (n.toNat + 1)` with the pmf evaluated at `(k : ℤ)`.
  `Binomial.pmf` goes through `SF.ln_binomial`, which is abstract over ℝ: the mass / mean / variance
  theorems are relative to `Spec.TestsSF.LnBinomialSpec` (`exp (ln_binomial n k) = C(n,k)` on
  `0 ≤ k ≤ n`; satisfiable: `Spec.TestsSF.lnBinomialSpec_witness`), names end in `_rel`.
  The degenerate branches `p = 0`, `p = 1` of the pmf are covered (constructor domain `0 ≤ p ≤ 1`).
  `Binomial.entropy` is computed by the code itself as a fold over the pmf, so the entropy theorem
  needs no premise at all.
-/
import Statrs.Real.Simp
import Statrs.Gen.D_binomial
import Statrs.Spec.SFSpec_tests
import Statrs.Lemmas.Related
import Statrs.Lemmas.MomentSums
import Mathlib.Tactic
namespace Statrs.Props.C07
open Statrs Statrs.Gen Statrs.Lemmas.Related Statrs.Lemmas.MomentSums Finset

/-! ### Binomial -/
section binomial
variable [SF ℝ] (d : Binomial ℝ)

/-- closed form of the generated pmf on the support, all three branches (`p = 0`, `p = 1`, generic):
    `pmf(k) = C(n,k) pᵏ (1−p)ⁿ⁻ᵏ` for `0 ≤ k ≤ n`, `0 ≤ p ≤ 1` -/
theorem binomial_pmf_closed_rel (S : Spec.TestsSF.LnBinomialSpec) (hn : 0 ≤ d.f_n)
    (hp0 : 0 ≤ d.f_p) (hp1 : d.f_p ≤ 1) (k : ℕ) (hk : k ≤ d.f_n.toNat) :
    Binomial.pmf d (k : ℤ)
      = (d.f_n.toNat.choose k : ℝ) * d.f_p ^ k * (1 - d.f_p) ^ (d.f_n.toNat - k) := by
  obtain ⟨N, hN⟩ := Int.eq_ofNat_of_zero_le hn
  have hNt : d.f_n.toNat = N := by rw [hN]; simp
  rw [hNt] at hk ⊢
  unfold Binomial.pmf; rfun_norm; lit_norm
  rw [hN]
  have h1 : ¬ ((N : ℤ) < (k : ℤ)) := by omega
  rw [if_neg h1]
  by_cases hz : d.f_p = 0
  · rw [if_pos hz, hz]
    rcases Nat.eq_zero_or_pos k with rfl | hkpos
    · simp
    · have : ¬ ((k : ℤ) = 0) := by omega
      rw [if_neg this]; simp [hkpos.ne']
  · rw [if_neg hz]
    by_cases ho : d.f_p = 1
    · have hd : decide (d.f_p = 1) = true := by simp [ho]
      rw [if_pos hd, ho]
      by_cases hkN : k = N
      · subst hkN; simp
      · have : ¬ ((k : ℤ) = (N : ℤ)) := by omega
        have h0 : N - k ≠ 0 := by omega
        rw [if_neg this]; simp [h0]
    · have hd : ¬ (decide (d.f_p = 1) = true) := by simp [ho]
      rw [if_neg hd]
      have hpos : 0 < d.f_p := lt_of_le_of_ne hp0 (Ne.symm hz)
      have hq : 0 < 1 - d.f_p := by
        have : d.f_p < 1 := lt_of_le_of_ne hp1 ho
        linarith
      have hu : usub (N : ℤ) (k : ℤ) = ((N - k : ℕ) : ℤ) := by
        unfold usub; rw [if_neg h1]; omega
      have hc := S.exp_ln_binomial (N : ℤ) (k : ℤ) (by omega) (by omega)
      simp only [Int.toNat_natCast] at hc
      rw [hu, Real.exp_add, Real.exp_add, hc]
      simp only [Int.cast_natCast]
      rw [Real.exp_nat_mul, Real.exp_nat_mul, Real.exp_log hpos, Real.exp_log hq]

variable (S : Spec.TestsSF.LnBinomialSpec) (hn : 0 ≤ d.f_n) (hp0 : 0 ≤ d.f_p) (hp1 : d.f_p ≤ 1)
include S hn hp0 hp1

/-- total mass: `Σ_{k=0}^{n} pmf(k) = 1` -/
theorem binomial_pmf_sum_rel :
    ∑ k ∈ range (d.f_n.toNat + 1), Binomial.pmf d (k : ℤ) = 1 := by
  rw [Finset.sum_congr rfl (fun k hk =>
    binomial_pmf_closed_rel d S hn hp0 hp1 k (by rw [Finset.mem_range] at hk; omega))]
  exact binom_sum_mass _ _

/-- mean: the returned value `p·n` is `Σ_{k=0}^{n} k·pmf(k)` -/
theorem binomial_mean_eq_sum_rel :
    Binomial.mean d = some (∑ k ∈ range (d.f_n.toNat + 1), (k : ℝ) * Binomial.pmf d (k : ℤ)) := by
  rw [Finset.sum_congr rfl (fun k hk => by
    rw [binomial_pmf_closed_rel d S hn hp0 hp1 k (by rw [Finset.mem_range] at hk; omega)])]
  rw [binom_sum_mean]
  obtain ⟨N, hN⟩ := Int.eq_ofNat_of_zero_le hn
  unfold Binomial.mean; rfun_norm
  rw [hN]; simp [mul_comm]

/-- variance: the returned value `p(1−p)·n` is `Σ_{k=0}^{n} (k−μ)²·pmf(k)` with `μ = p·n` the
    returned mean -/
theorem binomial_variance_eq_sum_rel :
    ∃ m : ℝ, Binomial.mean d = some m ∧
    Binomial.variance d = some (∑ k ∈ range (d.f_n.toNat + 1),
      ((k : ℝ) - m) * ((k : ℝ) - m) * Binomial.pmf d (k : ℤ)) := by
  obtain ⟨N, hN⟩ := Int.eq_ofNat_of_zero_le hn
  have hNt : d.f_n.toNat = N := by rw [hN]; simp
  refine ⟨(d.f_n.toNat : ℝ) * d.f_p, ?_, ?_⟩
  · unfold Binomial.mean; rfun_norm; rw [hN]; simp [mul_comm]
  · rw [Finset.sum_congr rfl (fun k hk => by
      rw [binomial_pmf_closed_rel d S hn hp0 hp1 k (by rw [Finset.mem_range] at hk; omega)])]
    rw [binom_sum_variance]
    unfold Binomial.variance; rfun_norm; lit_norm
    rw [hN]; simp only [Int.toNat_natCast, Int.cast_natCast, Option.some.injEq]; ring

end binomial

/-! entropy: no premise on `SF` -/
private lemma foldl_sub_range (g : ℤ → ℝ) (m : ℕ) :
    List.foldl (fun acc x => acc - g x) (0 : ℝ) ((List.range m).map (fun (i : ℕ) => (0 : ℤ) + (i : ℤ)))
      = -∑ i ∈ range m, g (i : ℤ) := by
  induction m with
  | zero => simp
  | succ m ih =>
    rw [List.range_succ, List.map_append, List.foldl_append, ih, Finset.sum_range_succ]
    simp; ring

section binomialEntropy
variable [SF ℝ] (d : Binomial ℝ)

/-- entropy: the returned value is `−Σ_{k=0}^{n} pmf(k)·ln pmf(k)` (the code computes exactly this
    fold when `0 < p < 1`; in the degenerate branches `p ∈ {0, 1}` it returns `0`, which is the same
    sum because the pmf is then 0/1-valued).  Holds for EVERY `SF ℝ` instance. -/
theorem binomial_entropy_eq_sum (hn : 0 ≤ d.f_n) :
    Binomial.entropy d = some (-∑ k ∈ range (d.f_n.toNat + 1),
      Binomial.pmf d (k : ℤ) * Real.log (Binomial.pmf d (k : ℤ))) := by
  obtain ⟨N, hN⟩ := Int.eq_ofNat_of_zero_le hn
  have hNt : d.f_n.toNat = N := by rw [hN]; simp
  rw [hNt]
  unfold Binomial.entropy; rfun_norm; lit_norm
  simp only [Option.some.injEq]
  by_cases hz : d.f_p = 0
  · rw [if_pos (Or.inl hz)]
    have : ∀ k ∈ range (N + 1), Binomial.pmf d (k : ℤ) * Real.log (Binomial.pmf d (k : ℤ)) = 0 := by
      intro k hk
      rw [Finset.mem_range] at hk
      unfold Binomial.pmf; rfun_norm; lit_norm
      rw [hN, if_neg (by omega), if_pos hz]
      split_ifs <;> simp
    rw [Finset.sum_eq_zero this]; simp
  · by_cases ho : d.f_p = 1
    · rw [if_pos (Or.inr (by simp [ho]))]
      have : ∀ k ∈ range (N + 1), Binomial.pmf d (k : ℤ) * Real.log (Binomial.pmf d (k : ℤ)) = 0 := by
        intro k hk
        rw [Finset.mem_range] at hk
        unfold Binomial.pmf; rfun_norm; lit_norm
        rw [hN, if_neg (by omega), if_neg hz, if_pos (by simp [ho])]
        split_ifs <;> simp
      rw [Finset.sum_eq_zero this]; simp
    · rw [if_neg (by simp [hz, ho])]
      rw [hN]
      have hr : rangeList 0 ((N : ℤ) + 1)
          = (List.range (N + 1)).map (fun (i : ℕ) => (0 : ℤ) + (i : ℤ)) := by
        unfold rangeList
        have : (((N : ℤ) + 1 - 0).toNat) = N + 1 := by omega
        rw [this]
      rw [hr]
      have := foldl_sub_range (fun x => Binomial.pmf d x * Real.log (Binomial.pmf d x)) (N + 1)
      simpa [hN] using this

end binomialEntropy

example : ∃ (_ : SF ℝ) (_ : Spec.TestsSF.LnBinomialSpec) (d : Binomial ℝ),
    0 ≤ d.f_n ∧ 0 ≤ d.f_p ∧ d.f_p ≤ 1 :=
  ⟨Spec.sfWitness, Spec.TestsSF.lnBinomialSpec_witness, ⟨1 / 3, 7⟩, by norm_num⟩

end Statrs.Props.C07
