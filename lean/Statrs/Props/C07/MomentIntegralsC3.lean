/-
  C07 (moments derived from the mass function, infinite support) — Poisson(λ).
  `mean` and `variance` returned by the generated `Poisson` (both `λ`) are the first moment and the
  central second moment of the SAME object's `pmf`, as convergent series over `k ≥ 0`.
  `Poisson.entropy` is a truncated asymptotic series: it is NOT the entropy of the pmf
  (counterexample at λ = 1/10, where the returned value is negative).

  The pmf takes an integer argument (`Int` in the model, Rust `u64`); series run over `k : ℕ` with
  the pmf evaluated at `(k : ℤ)` (the model's integers are unbounded).
  `Poisson.pmf` goes through `SF.ln_factorial`, abstract over ℝ: theorems are relative to
  `Props.C03.LnFactorialSpec` (`ln_factorial k = log k!` for `k ≥ 0`; satisfied by `Spec.sfWitness`,
  see `lnFactorialSpec_sfWitness` below), names end in `_rel`.
-/
import Statrs.Real.Simp
import Statrs.Gen.D_poisson
import Statrs.Props.C03.SFDerivSpec
import Statrs.Lemmas.Related
import Statrs.Lemmas.MomentSums
import Mathlib.Tactic
namespace Statrs.Props.C07
open Statrs Statrs.Gen Statrs.Lemmas.Related Statrs.Lemmas.MomentSums Statrs.Props.C03

/-- the premise structure is satisfiable (witness instance `Spec.sfWitness`) -/
theorem lnFactorialSpec_sfWitness : @LnFactorialSpec Spec.sfWitness :=
  @LnFactorialSpec.mk Spec.sfWitness (fun _ _ => rfl)

/-! ### Poisson -/
section poisson
open Nat
variable [SF ℝ] (S : LnFactorialSpec) (d : Poisson ℝ) (hl : 0 < d.f_lambda)
include S hl

/-- closed form of the generated pmf: `pmf(k) = e^{−λ} λᵏ / k!` for `k ≥ 0` -/
theorem poisson_pmf_closed_rel (k : ℕ) :
    Poisson.pmf d (k : ℤ) = Real.exp (-d.f_lambda) * d.f_lambda ^ k / (k ! : ℝ) := by
  unfold Poisson.pmf; rfun_norm
  have hf : (0 : ℝ) < (k ! : ℝ) := by exact_mod_cast Nat.factorial_pos k
  rw [S.ln_factorial_eq (k : ℤ) (by omega), Int.toNat_natCast, Real.exp_sub, Real.exp_add,
    Real.exp_log hf]
  simp only [Int.cast_natCast]
  rw [Real.exp_nat_mul, Real.exp_log hl]

/-- total mass: `Σ_{k≥0} pmf(k) = 1` -/
theorem poisson_pmf_hasSum_rel : HasSum (fun k : ℕ => Poisson.pmf d (k : ℤ)) 1 := by
  simp only [poisson_pmf_closed_rel S d hl]
  exact poisson_hasSum_mass _

/-- mean: the returned value `λ` is `Σ_{k≥0} k·pmf(k)` -/
theorem poisson_mean_hasSum_rel :
    ∃ m : ℝ, Poisson.mean d = some m ∧
      HasSum (fun k : ℕ => (k : ℝ) * Poisson.pmf d (k : ℤ)) m := by
  refine ⟨d.f_lambda, rfl, ?_⟩
  simp only [poisson_pmf_closed_rel S d hl]
  exact poisson_hasSum_mean _

/-- `mean = some (Σ' k·pmf(k))` -/
theorem poisson_mean_eq_tsum_rel :
    Poisson.mean d = some (∑' k : ℕ, (k : ℝ) * Poisson.pmf d (k : ℤ)) := by
  obtain ⟨m, hm, hs⟩ := poisson_mean_hasSum_rel S d hl
  rw [hs.tsum_eq]; exact hm

/-- variance: the returned value `λ` is `Σ_{k≥0} (k−μ)²·pmf(k)` with `μ` the returned mean -/
theorem poisson_variance_hasSum_rel :
    ∃ m v : ℝ, Poisson.mean d = some m ∧ Poisson.variance d = some v ∧
      HasSum (fun k : ℕ => ((k : ℝ) - m) * ((k : ℝ) - m) * Poisson.pmf d (k : ℤ)) v := by
  refine ⟨d.f_lambda, d.f_lambda, rfl, rfl, ?_⟩
  simp only [poisson_pmf_closed_rel S d hl]
  exact poisson_hasSum_variance _

/-- `variance = some (Σ' (k−λ)²·pmf(k))` -/
theorem poisson_variance_eq_tsum_rel :
    Poisson.variance d = some (∑' k : ℕ,
      ((k : ℝ) - d.f_lambda) * ((k : ℝ) - d.f_lambda) * Poisson.pmf d (k : ℤ)) := by
  obtain ⟨m, v, hm, hv, hs⟩ := poisson_variance_hasSum_rel S d hl
  have : m = d.f_lambda := (Option.some.inj hm).symm
  subst this
  rw [hs.tsum_eq]; exact hv

/-- every term of the entropy series is non-negative: `0 ≤ pmf(k) ≤ 1`, so `pmf·ln pmf ≤ 0` -/
theorem poisson_plogp_nonpos_rel (k : ℕ) :
    Poisson.pmf d (k : ℤ) * Real.log (Poisson.pmf d (k : ℤ)) ≤ 0 := by
  have h0 : ∀ j : ℕ, 0 ≤ Poisson.pmf d (j : ℤ) := by
    intro j; unfold Poisson.pmf; rfun_norm; exact (Real.exp_pos _).le
  have h1 : Poisson.pmf d (k : ℤ) ≤ 1 :=
    le_hasSum (poisson_pmf_hasSum_rel S d hl) k (fun j _ => h0 j)
  exact mul_nonpos_of_nonneg_of_nonpos (h0 k) (Real.log_nonpos (h0 k) h1)

end poisson

/-- FALSE: `Poisson.entropy` is not the entropy of the pmf.  For `Poisson(1/10)` the returned value
    (`½ ln(2πeλ) − 1/(12λ) − 1/(24λ²) − 19/(360λ³)`) is negative, whereas every term
    `−pmf(k)·ln pmf(k)` of the entropy series is `≥ 0`; so the returned value differs from
    `−Σ' pmf·ln pmf` (and from any value the series could have). -/
theorem poisson_entropy_sum_counterexample_rel [SF ℝ] (S : LnFactorialSpec) :
    ∃ d : Poisson ℝ, 0 < d.f_lambda ∧ ∃ r : ℝ, Poisson.entropy d = some r ∧ r < 0 ∧
      (∀ e : ℝ, HasSum (fun k : ℕ => Poisson.pmf d (k : ℤ) * Real.log (Poisson.pmf d (k : ℤ))) (-e)
        → 0 ≤ e) ∧
      Poisson.entropy d
        ≠ some (-∑' k : ℕ, Poisson.pmf d (k : ℤ) * Real.log (Poisson.pmf d (k : ℤ))) := by
  let d : Poisson ℝ := ⟨1 / 10⟩
  have hl : 0 < d.f_lambda := by show (0:ℝ) < 1 / 10; norm_num
  have hterm := poisson_plogp_nonpos_rel S d hl
  -- ln(2πe/10) < 1
  have hlog : Real.log (2 * Real.pi * Real.exp 1 * (1 / 10)) < 1 := by
    have hpi : Real.pi < 4 := Real.pi_lt_four
    have he : Real.exp 1 < 3 := by
      have := Real.exp_one_lt_d9; linarith
    have hpos : 0 < 2 * Real.pi * Real.exp 1 * (1 / 10) := by positivity
    rw [Real.log_lt_iff_lt_exp hpos]
    have h2 : (2 : ℝ) < Real.exp 1 := by
      have := Real.exp_one_gt_d9; linarith
    nlinarith [Real.pi_pos, Real.exp_pos 1]
  have hr : ∃ r : ℝ, Poisson.entropy d = some r ∧ r < 0 := by
    refine ⟨_, by unfold Poisson.entropy; rfun_norm; rfl, ?_⟩
    show (0.5 : ℝ) * Real.log (2.0 * Real.pi * Real.exp 1 * (1 / 10)) - 1.0 / (12.0 * (1 / 10))
      - 1.0 / (24.0 * (1 / 10) * (1 / 10)) - 19.0 / (360.0 * (1 / 10) * (1 / 10) * (1 / 10)) < 0
    have : (2.0 : ℝ) = 2 := by norm_num
    rw [this]
    norm_num
    linarith
  obtain ⟨r, hre, hrneg⟩ := hr
  refine ⟨d, hl, r, hre, hrneg, ?_, ?_⟩
  · intro e he
    have := hasSum_le (fun k => hterm k) he hasSum_zero
    linarith
  · rw [hre]
    intro h
    have h' : r = -∑' k : ℕ, Poisson.pmf d (k : ℤ) * Real.log (Poisson.pmf d (k : ℤ)) :=
      Option.some.inj h
    have : ∑' k : ℕ, Poisson.pmf d (k : ℤ) * Real.log (Poisson.pmf d (k : ℤ)) ≤ 0 :=
      tsum_nonpos hterm
    linarith

example : ∃ (_ : SF ℝ) (_ : LnFactorialSpec) (d : Poisson ℝ), 0 < d.f_lambda :=
  ⟨Spec.sfWitness, lnFactorialSpec_sfWitness, ⟨5 / 2⟩, by norm_num⟩

end Statrs.Props.C07
