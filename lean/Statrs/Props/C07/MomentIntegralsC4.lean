/-
  C07 (moments derived from the mass function) — Hypergeometric(N, K, n)
  (`N = population`, `K = successes`, `n = draws`).
  `mean` (`K·n/N`, defined for `N > 0`) and `variance` (`n·K·(N−n)·(N−K)/(N²(N−1))`, defined for
  `N > 1`) returned by the generated `Hypergeometric` are the first moment / central second moment
  of the SAME object's `pmf`, as finite sums over `k ∈ {0,…,n}` — the terms outside the support
  `[max(0, n+K−N), min(K, n)]` are `0` (`hypergeometric_pmf_zero_outside_rel`).
  (`entropy` returns `None` for this family: nothing to prove.  For `N = 0` the only object is
  `N = K = n = 0`, a point mass at 0 whose mean exists, but `mean` returns `None` by design.)

  The pmf takes an integer argument (`Int` in the model, Rust `u64`); sums run over
  `k ∈ Finset.range (n.toNat + 1)` with the pmf evaluated at `(k : ℤ)`.
  `Hypergeometric.pmf` goes through `SF.binomial`, abstract over ℝ: theorems are relative to
  `Spec.ModeE.BinomialChooseSpec` (`SF.binomial n k = C(n,k)` on all naturals; satisfiable:
  `Spec.ModeE.binomialChooseSpec_witness`), names end in `_rel`.
-/
import Statrs.Real.Simp
import Statrs.Gen.D_hypergeometric
import Statrs.Spec.SFSpec_modeE
import Statrs.Lemmas.Related
import Statrs.Lemmas.MomentSums
import Mathlib.Tactic
namespace Statrs.Props.C07
open Statrs Statrs.Gen Statrs.Lemmas.Related Statrs.Lemmas.MomentSums Finset

/-! ### Hypergeometric -/
section hypergeometric
variable [SF ℝ] (S : Spec.ModeE.BinomialChooseSpec) (d : Hypergeometric)
  (hN : 0 ≤ d.f_population) (hK0 : 0 ≤ d.f_successes) (hn0 : 0 ≤ d.f_draws)
  (hK : d.f_successes ≤ d.f_population) (hn : d.f_draws ≤ d.f_population)
include S hN hK0 hn0 hK

omit hN in
/-- closed form of the generated pmf: `pmf(k) = C(K,k)·C(N−K,n−k)/C(N,n)` for `0 ≤ k ≤ n` -/
theorem hypergeometric_pmf_closed_rel (k : ℕ) (hk : k ≤ d.f_draws.toNat) :
    Hypergeometric.pmf (α := ℝ) d (k : ℤ)
      = (d.f_successes.toNat.choose k : ℝ)
          * ((d.f_population.toNat - d.f_successes.toNat).choose (d.f_draws.toNat - k) : ℝ)
          / (d.f_population.toNat.choose d.f_draws.toNat : ℝ) := by
  obtain ⟨Ni, Ki, ni⟩ := d
  simp only at hK0 hn0 hK hk ⊢
  obtain ⟨K, rfl⟩ := Int.eq_ofNat_of_zero_le hK0
  obtain ⟨n, rfl⟩ := Int.eq_ofNat_of_zero_le hn0
  obtain ⟨N, rfl⟩ := Int.eq_ofNat_of_zero_le (le_trans hK0 hK)
  simp only [Int.toNat_natCast] at hk ⊢
  unfold Hypergeometric.pmf; lit_norm
  have h1 : ¬ ((n : ℤ) < (k : ℤ)) := by omega
  have hu1 : usub (N : ℤ) (K : ℤ) = ((N - K : ℕ) : ℤ) := by
    unfold usub; rw [if_neg (by omega)]; omega
  have hu2 : usub (n : ℤ) (k : ℤ) = ((n - k : ℕ) : ℤ) := by
    unfold usub; rw [if_neg h1]; omega
  rw [if_neg h1, hu1, hu2, S.binomial_eq, S.binomial_eq, S.binomial_eq]

omit hN in
/-- inside `0 ≤ k ≤ n` the pmf vanishes off the support `[n+K−N, min(K,n)]` -/
theorem hypergeometric_pmf_zero_outside_rel (k : ℕ) (hk : k ≤ d.f_draws.toNat)
    (hout : (k : ℤ) < Hypergeometric.min (α := ℝ) d ∨ Hypergeometric.max (α := ℝ) d < (k : ℤ)) :
    Hypergeometric.pmf (α := ℝ) d (k : ℤ) = 0 := by
  rw [hypergeometric_pmf_closed_rel S d hK0 hn0 hK k hk]
  unfold Hypergeometric.min Hypergeometric.max usatSub at hout
  obtain ⟨Ni, Ki, ni⟩ := d
  simp only at hK0 hn0 hK hk hout ⊢
  obtain ⟨K, rfl⟩ := Int.eq_ofNat_of_zero_le hK0
  obtain ⟨n, rfl⟩ := Int.eq_ofNat_of_zero_le hn0
  obtain ⟨N, rfl⟩ := Int.eq_ofNat_of_zero_le (le_trans hK0 hK)
  simp only [Int.toNat_natCast] at hk ⊢
  rcases hout with h | h
  · have : (N - K).choose (n - k) = 0 := by
      apply Nat.choose_eq_zero_of_lt
      split_ifs at h <;> omega
    rw [this]; simp
  · have : K.choose k = 0 := by
      apply Nat.choose_eq_zero_of_lt
      have := min_le_left (K : ℤ) (n : ℤ)
      rcases le_total (K : ℤ) (n : ℤ) with h' | h'
      · rw [min_eq_left h'] at h; omega
      · rw [min_eq_right h'] at h; omega
    rw [this]; simp

include hn

/-- total mass: `Σ_{k=0}^{n} pmf(k) = 1` -/
theorem hypergeometric_pmf_sum_rel :
    ∑ k ∈ range (d.f_draws.toNat + 1), Hypergeometric.pmf (α := ℝ) d (k : ℤ) = 1 := by
  rw [Finset.sum_congr rfl (fun k hk =>
    hypergeometric_pmf_closed_rel S d hK0 hn0 hK k (by rw [Finset.mem_range] at hk; omega))]
  exact hyper_sum_mass _ _ _ (by omega) (by omega)

/-- mean (`N > 0`): the returned value `K·n/N` is `Σ_{k=0}^{n} k·pmf(k)` -/
theorem hypergeometric_mean_eq_sum_rel (hpos : 0 < d.f_population) :
    Hypergeometric.mean (α := ℝ) d
      = some (∑ k ∈ range (d.f_draws.toNat + 1), (k : ℝ) * Hypergeometric.pmf (α := ℝ) d (k : ℤ)) := by
  rw [Finset.sum_congr rfl (fun k hk => by
    rw [hypergeometric_pmf_closed_rel S d hK0 hn0 hK k (by rw [Finset.mem_range] at hk; omega)])]
  rw [hyper_sum_mean _ _ _ (by omega) (by omega) (by omega)]
  obtain ⟨K, hKe⟩ := Int.eq_ofNat_of_zero_le hK0
  obtain ⟨n, hne⟩ := Int.eq_ofNat_of_zero_le hn0
  obtain ⟨N, hNe⟩ := Int.eq_ofNat_of_zero_le hN
  unfold Hypergeometric.mean; rfun_norm
  rw [if_neg (by omega), hKe, hne, hNe]
  simp

/-- variance (`N > 1`): the returned value is `Σ_{k=0}^{n} (k−μ)²·pmf(k)` with `μ` the returned mean -/
theorem hypergeometric_variance_eq_sum_rel (hpos : 1 < d.f_population) :
    ∃ m : ℝ, Hypergeometric.mean (α := ℝ) d = some m ∧
    Hypergeometric.variance (α := ℝ) d = some (∑ k ∈ range (d.f_draws.toNat + 1),
      ((k : ℝ) - m) * ((k : ℝ) - m) * Hypergeometric.pmf (α := ℝ) d (k : ℤ)) := by
  obtain ⟨K, hKe⟩ := Int.eq_ofNat_of_zero_le hK0
  obtain ⟨n, hne⟩ := Int.eq_ofNat_of_zero_le hn0
  obtain ⟨N, hNe⟩ := Int.eq_ofNat_of_zero_le hN
  refine ⟨(d.f_successes.toNat : ℝ) * d.f_draws.toNat / d.f_population.toNat, ?_, ?_⟩
  · unfold Hypergeometric.mean; rfun_norm
    rw [if_neg (by omega), hKe, hne, hNe]; simp
  · rw [Finset.sum_congr rfl (fun k hk => by
      rw [hypergeometric_pmf_closed_rel S d hK0 hn0 hK k (by rw [Finset.mem_range] at hk; omega)])]
    rw [hyper_sum_variance _ _ _ (by omega) (by omega) (by omega)]
    unfold Hypergeometric.variance Hypergeometric.values_f64; rfun_norm; lit_norm
    rw [if_neg (by omega), hKe, hne, hNe]
    simp only [Int.toNat_natCast, Int.cast_natCast]

end hypergeometric

example : ∃ (_ : SF ℝ) (_ : Spec.ModeE.BinomialChooseSpec) (d : Hypergeometric),
    0 ≤ d.f_population ∧ 0 ≤ d.f_successes ∧ 0 ≤ d.f_draws ∧ d.f_successes ≤ d.f_population ∧
      d.f_draws ≤ d.f_population ∧ 1 < d.f_population :=
  ⟨Spec.sfWitness, Spec.ModeE.binomialChooseSpec_witness, ⟨10, 4, 7⟩, by decide⟩

end Statrs.Props.C07
