/-
  C07 (moments derived from the mass function, infinite support) — NegativeBinomial(r, p), real
  shape `r`.  `mean` (`r(1−p)/p`) and `variance` (`r(1−p)/p²`) returned by the generated
  `NegativeBinomial` are the first moment / central second moment of the SAME object's `pmf`, as
  convergent series over `k ≥ 0` (`entropy` returns `None` for this family).

  The pmf takes an integer argument (`Int` in the model, Rust `u64`); series run over `k : ℕ` with
  the pmf evaluated at `(k : ℤ)`.  `NegativeBinomial.pmf` is `exp(ln_pmf)` with `ln_pmf` built from
  `SF.ln_gamma`: theorems are relative to `Spec.GammaDensitySpec` (`ln_gamma = log Γ` on `(0,∞)`;
  satisfied by `Spec.sfWitness`), names end in `_rel`.

  PARTIAL (all theorems here): they are stated for `r > 0`, `0 < p < 1`.  The constructor also
  accepts `r = 0`, `p = 0`, `p = 1`; there the generated `ln_pmf` evaluates `ln 0` / `ln_gamma 0`
  (−∞/+∞ or NaN in IEEE, junk over ℝ), so nothing can be stated over ℝ.
-/
import Statrs.Real.Simp
import Statrs.Gen.D_negative_binomial
import Statrs.Props.C03.SFDerivD
import Statrs.Lemmas.Related
import Statrs.Lemmas.MomentSumsNegBin
import Mathlib.Tactic
namespace Statrs.Props.C07
open Statrs Statrs.Gen Statrs.Spec Statrs.Lemmas.Related Statrs.Lemmas.MomentSums Statrs.Props.C03

/-! ### NegativeBinomial -/
section negativeBinomial
variable [SF ℝ] (G : GammaDensitySpec) (d : NegativeBinomial ℝ)
  (hr : 0 < d.f_r) (hp0 : 0 < d.f_p) (hp1 : d.f_p < 1)
include G hr hp0 hp1

/-- closed form of the generated pmf in the shape used by the series lemmas:
    `pmf(k) = p^r (1−p)ᵏ Γ(r+k)/(Γ(r)Γ(k+1))` -/
theorem negativeBinomial_pmf_closed_rel_partial (k : ℕ) :
    NegativeBinomial.pmf d (k : ℤ) = d.f_p ^ d.f_r * (1 - d.f_p) ^ k * nbCoef d.f_r k := by
  rw [negative_binomial_pmf_formula_rel G d hr hp0 hp1 k, Real.rpow_natCast]; rfl

/-- total mass: `Σ_{k≥0} pmf(k) = 1` -/
theorem negativeBinomial_pmf_hasSum_rel_partial :
    HasSum (fun k : ℕ => NegativeBinomial.pmf d (k : ℤ)) 1 := by
  simp only [negativeBinomial_pmf_closed_rel_partial G d hr hp0 hp1]
  exact negbin_hasSum_mass hr hp0 hp1

/-- mean: the returned value `r(1−p)/p` is `Σ_{k≥0} k·pmf(k)` -/
theorem negativeBinomial_mean_hasSum_rel_partial :
    ∃ m : ℝ, NegativeBinomial.mean d = some m ∧
      HasSum (fun k : ℕ => (k : ℝ) * NegativeBinomial.pmf d (k : ℤ)) m := by
  refine ⟨d.f_r * (1 - d.f_p) / d.f_p, by unfold NegativeBinomial.mean; lit_norm, ?_⟩
  simp only [negativeBinomial_pmf_closed_rel_partial G d hr hp0 hp1]
  exact negbin_hasSum_mean hr hp0 hp1

/-- `mean = some (Σ' k·pmf(k))` -/
theorem negativeBinomial_mean_eq_tsum_rel_partial :
    NegativeBinomial.mean d = some (∑' k : ℕ, (k : ℝ) * NegativeBinomial.pmf d (k : ℤ)) := by
  obtain ⟨m, hm, hs⟩ := negativeBinomial_mean_hasSum_rel_partial G d hr hp0 hp1
  rw [hs.tsum_eq]; exact hm

/-- variance: the returned value `r(1−p)/p²` is `Σ_{k≥0} (k−μ)²·pmf(k)` with `μ` the returned mean -/
theorem negativeBinomial_variance_hasSum_rel_partial :
    ∃ m v : ℝ, NegativeBinomial.mean d = some m ∧ NegativeBinomial.variance d = some v ∧
      HasSum (fun k : ℕ => ((k : ℝ) - m) * ((k : ℝ) - m) * NegativeBinomial.pmf d (k : ℤ)) v := by
  refine ⟨d.f_r * (1 - d.f_p) / d.f_p, d.f_r * (1 - d.f_p) / (d.f_p * d.f_p),
    by unfold NegativeBinomial.mean; lit_norm, by unfold NegativeBinomial.variance; lit_norm, ?_⟩
  simp only [negativeBinomial_pmf_closed_rel_partial G d hr hp0 hp1]
  exact negbin_hasSum_variance hr hp0 hp1

/-- `variance = some (Σ' (k−μ)²·pmf(k))`, `μ = r(1−p)/p` -/
theorem negativeBinomial_variance_eq_tsum_rel_partial :
    NegativeBinomial.variance d = some (∑' k : ℕ,
      ((k : ℝ) - d.f_r * (1 - d.f_p) / d.f_p) * ((k : ℝ) - d.f_r * (1 - d.f_p) / d.f_p)
        * NegativeBinomial.pmf d (k : ℤ)) := by
  obtain ⟨m, v, hm, hv, hs⟩ := negativeBinomial_variance_hasSum_rel_partial G d hr hp0 hp1
  have : m = d.f_r * (1 - d.f_p) / d.f_p := by
    unfold NegativeBinomial.mean at hm; lit_norm; simpa using hm.symm
  subst this
  rw [hs.tsum_eq]; exact hv

end negativeBinomial

/-- `Spec.sfWitness` (true `Γ`, `log Γ`) satisfies the premise -/
theorem gammaDensitySpec_sfWitness : @GammaDensitySpec Spec.sfWitness :=
  @GammaDensitySpec.mk Spec.sfWitness (fun _ _ => rfl) (fun _ _ => rfl)

example : ∃ (_ : SF ℝ) (_ : GammaDensitySpec) (d : NegativeBinomial ℝ),
    0 < d.f_r ∧ 0 < d.f_p ∧ d.f_p < 1 :=
  ⟨Spec.sfWitness, gammaDensitySpec_sfWitness, ⟨5 / 2, 1 / 3⟩, by norm_num⟩

end Statrs.Props.C07
