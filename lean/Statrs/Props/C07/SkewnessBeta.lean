/-
  C07 (moments derived from the density) — skewness of Beta(a, b) as the third standardised central
  moment of the SAME object's generated `pdf`:
      raw moments ∫ xⁿ·f = Γ(a+n)Γ(a+b)/(Γ(a)Γ(a+b+n));
      skewness 2(b−a)√(a+b+1)/((a+b+2)√(ab)) = ∫ ((x − m)/√v)³·f  with m, v the returned mean and
      variance.
  The pdf carries `SF.gamma`/`SF.ln_gamma`: relative to `Spec.GammaDensitySpec` (`…_rel`).
  Hypotheses: the constructor's `0 < a`, `0 < b`.
-/
import Statrs.Real.Simp
import Statrs.Spec.SFSpec_Density
import Statrs.Props.C03.SFDerivB
import Statrs.Lemmas.MomentIntegralsGamma
import Statrs.Lemmas.Related
import Statrs.Props.C07.MomentIntegralsA6
import Statrs.Props.C07.MomentIntegralsB2
import Statrs.Gen.D_beta
import Mathlib.Tactic
namespace Statrs.Props.C07
open Statrs Statrs.Gen Statrs.Spec Statrs.Lemmas.Related Statrs.Lemmas.MomentIntegralsGamma
open MeasureTheory Set

variable [SF ℝ]

section beta
variable (S : GammaDensitySpec) (d : Beta ℝ) (h1 : 0 < d.f_shape_a) (h2 : 0 < d.f_shape_b)

include S h1 h2 in
/-- rel(GammaDensitySpec): raw moments of the generated density:
    `∫ xⁿ f = Γ(a+n)Γ(a+b)/(Γ(a)Γ(a+b+n))` -/
theorem beta_raw_moment_rel (n : ℕ) :
    ∫ x, x ^ n * Beta.pdf d x
      = Real.Gamma (d.f_shape_a + n) * Real.Gamma (d.f_shape_a + d.f_shape_b)
        / (Real.Gamma d.f_shape_a * Real.Gamma (d.f_shape_a + d.f_shape_b + n)) := by
  have hGa : 0 < Real.Gamma d.f_shape_a := Real.Gamma_pos_of_pos h1
  have hGb : 0 < Real.Gamma d.f_shape_b := Real.Gamma_pos_of_pos h2
  have hGab : 0 < Real.Gamma (d.f_shape_a + d.f_shape_b) := Real.Gamma_pos_of_pos (by linarith)
  have hGabn : 0 < Real.Gamma (d.f_shape_a + d.f_shape_b + n) :=
    Real.Gamma_pos_of_pos (by positivity)
  rw [integral_eq_setIntegral_Ioo (f := fun x => x ^ n * Beta.pdf d x)
    (fun x hx => by rw [C03.beta_pdf_eq_zero d x hx, mul_zero])]
  have e : ∀ x ∈ Ioo (0:ℝ) 1, x ^ n * Beta.pdf d x
      = (Real.Gamma (d.f_shape_a + d.f_shape_b) / (Real.Gamma d.f_shape_a * Real.Gamma d.f_shape_b))
        * (x ^ (d.f_shape_a + n - 1) * (1 - x) ^ (d.f_shape_b - 1)) := by
    intro x hx
    rw [C03.beta_pdf_formula_rel S d h1 h2 x hx.1 hx.2,
      show d.f_shape_a + n - 1 = (n : ℝ) + (d.f_shape_a - 1) by ring, Real.rpow_add hx.1,
      Real.rpow_natCast]
    ring
  rw [setIntegral_congr_fun measurableSet_Ioo e, integral_const_mul,
    integral_betaKernel (by positivity) h2,
    show d.f_shape_a + ↑n + d.f_shape_b = d.f_shape_a + d.f_shape_b + n by ring]
  field_simp

include S h1 h2 in
/-- rel(GammaDensitySpec): `xⁿ·pdf x` is integrable over ℝ -/
theorem beta_raw_moment_integrable_rel (n : ℕ) :
    Integrable (fun x => x ^ n * Beta.pdf d x) := by
  apply Integrable.of_integral_ne_zero
  rw [beta_raw_moment_rel S d h1 h2 n]
  have : 0 < Real.Gamma (d.f_shape_a + n) := Real.Gamma_pos_of_pos (by positivity)
  have : 0 < Real.Gamma d.f_shape_a := Real.Gamma_pos_of_pos h1
  have : 0 < Real.Gamma (d.f_shape_a + d.f_shape_b) := Real.Gamma_pos_of_pos (by linarith)
  have : 0 < Real.Gamma (d.f_shape_a + d.f_shape_b + n) := Real.Gamma_pos_of_pos (by positivity)
  positivity

omit [SF ℝ] in
/-- full(ℝ): `Γ(s+1), Γ(s+2), Γ(s+3)` through `Γ(s)` -/
theorem Gamma_add_123 {s : ℝ} (hs : 0 < s) :
    Real.Gamma (s + 1) = s * Real.Gamma s ∧ Real.Gamma (s + 2) = (s + 1) * (s * Real.Gamma s) ∧
    Real.Gamma (s + 3) = (s + 2) * ((s + 1) * (s * Real.Gamma s)) := by
  have g1 : Real.Gamma (s + 1) = s * Real.Gamma s := Real.Gamma_add_one hs.ne'
  have g2 : Real.Gamma (s + 2) = (s + 1) * (s * Real.Gamma s) := by
    rw [show s + 2 = (s + 1) + 1 by ring, Real.Gamma_add_one (by positivity), g1]
  have g3 : Real.Gamma (s + 3) = (s + 2) * ((s + 1) * (s * Real.Gamma s)) := by
    rw [show s + 3 = (s + 2) + 1 by ring, Real.Gamma_add_one (by positivity), g2]
  exact ⟨g1, g2, g3⟩

include S h1 h2 in
/-- rel(GammaDensitySpec): the returned skewness `2(b−a)√(a+b+1)/((a+b+2)√(ab))` is the third
    standardised central moment of the generated density, centred at the returned mean `m` and
    scaled by the square root of the returned variance `v` -/
theorem beta_skewness_eq_integral_rel :
    ∃ m v : ℝ, Beta.mean d = some m ∧ Beta.variance d = some v ∧ 0 < v ∧
      Beta.skewness d = some (∫ x, ((x - m) / Real.sqrt v) ^ 3 * Beta.pdf d x) := by
  set a := d.f_shape_a with ha
  set b := d.f_shape_b with hb
  have hab : 0 < a + b := add_pos h1 h2
  have hGa : Real.Gamma a ≠ 0 := (Real.Gamma_pos_of_pos h1).ne'
  have hGab : Real.Gamma (a + b) ≠ 0 := (Real.Gamma_pos_of_pos hab).ne'
  refine ⟨a / (a + b), a * b / ((a + b) * (a + b) * (a + b + 1)), rfl, ?_, by positivity, ?_⟩
  · unfold Beta.variance; lit_norm; rfl
  obtain ⟨ga1, ga2, ga3⟩ := Gamma_add_123 h1
  obtain ⟨gs1, gs2, gs3⟩ := Gamma_add_123 hab
  have m0 := beta_raw_moment_rel S d h1 h2 0
  have m1 := beta_raw_moment_rel S d h1 h2 1
  have m2 := beta_raw_moment_rel S d h1 h2 2
  have m3 := beta_raw_moment_rel S d h1 h2 3
  simp only [Nat.cast_zero, add_zero, Nat.cast_one, Nat.cast_ofNat, ← ha, ← hb] at m0 m1 m2 m3
  rw [ga1, gs1] at m1; rw [ga2, gs2] at m2; rw [ga3, gs3] at m3
  set p := Real.sqrt (a * b) with hp
  set q := Real.sqrt (a + b + 1) with hq
  have hp0 : 0 < p := Real.sqrt_pos.mpr (mul_pos h1 h2)
  have hq0 : 0 < q := Real.sqrt_pos.mpr (by positivity)
  have hp2 : p ^ 2 = a * b := Real.sq_sqrt (mul_pos h1 h2).le
  have hq2 : q ^ 2 = a + b + 1 := Real.sq_sqrt (by positivity)
  have hsv : Real.sqrt (a * b / ((a + b) * (a + b) * (a + b + 1))) = p / ((a + b) * q) := by
    have e : a * b / ((a + b) * (a + b) * (a + b + 1)) = (p / ((a + b) * q)) ^ 2 := by
      rw [div_pow, mul_pow, hp2, hq2]; ring
    rw [e, Real.sqrt_sq (by positivity)]
  have hsd3 : (p / ((a + b) * q)) ^ 3 = p * (a * b) / ((a + b) ^ 3 * (q * (a + b + 1))) := by
    rw [← hp2, ← hq2]; field_simp
  rw [integral_standardised_cube,
    integral_cube_sub_mul _ _ (fun k _ => beta_raw_moment_integrable_rel S d h1 h2 k),
    m0, m1, m2, m3, hsv, hsd3]
  unfold Beta.skewness; rfun_norm; lit_norm
  simp only [Option.some.injEq, ← ha, ← hb, ← hp, ← hq]
  have hp0' : p ≠ 0 := hp0.ne'
  have hq0' : q ≠ 0 := hq0.ne'
  have ha0 : a ≠ 0 := h1.ne'
  have hb0 : b ≠ 0 := h2.ne'
  field_simp
  ring

/-- non-vacuity -/
example : ∃ d : Beta ℝ, 0 < d.f_shape_a ∧ 0 < d.f_shape_b := ⟨⟨2, 3⟩, by norm_num, by norm_num⟩
example : @GammaDensitySpec sfWitness := gammaDensitySpec_witness

end beta
end Statrs.Props.C07
