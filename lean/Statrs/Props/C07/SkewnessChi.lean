/-
  C07 (moments derived from the density) — skewness of Chi(k) as the third standardised central
  moment of the SAME object's generated `pdf`:
      raw moments ∫ xⁿ·f = 2^(n/2) Γ((k+n)/2)/Γ(k/2)   (every `freedom = k ≥ 1`);
      skewness μ(1 − 2σ²)/σ³ = ∫ ((x − m)/√v)³·f  with m = μ, v = σ² the returned mean and variance,
      for `freedom ≤ 300`.
  PARTIAL in `freedom`: for `freedom > 300` `Chi::mean` returns an asymptotic approximation which is
  not the first moment (`chi_mean_counterexample`, MomentIntegralsB3), and `skewness` is built from it.
  The variance `v = k − μ²` is shown to be strictly positive through its integral representation
  (`Lemmas/CentralMoments.lean`).  Relative to `Spec.GammaDensitySpec` (`…_rel`).
-/
import Statrs.Real.Simp
import Statrs.Spec.SFSpec_Density
import Statrs.Props.C03.SFDerivA
import Statrs.Lemmas.MomentIntegralsGamma
import Statrs.Lemmas.Related
import Statrs.Props.C07.MomentIntegralsA6
import Statrs.Props.C07.MomentIntegralsB2
import Statrs.Lemmas.CentralMoments
import Statrs.Gen.D_chi
import Mathlib.Tactic
namespace Statrs.Props.C07
open Statrs Statrs.Gen Statrs.Spec Statrs.Lemmas.Related Statrs.Lemmas.MomentIntegralsGamma
open Statrs.Lemmas.Density Statrs.Lemmas.CentralMoments
open MeasureTheory Set

variable [SF ℝ]

section chi
variable (S : GammaDensitySpec) (d : Chi) (h0 : 0 ≤ d.f_freedom) (hne : d.f_freedom ≠ 0)

include S h0 hne in
/-- rel(GammaDensitySpec): raw moments of the generated density (every `freedom = k ≥ 1`):
    `∫ xⁿ f = 2^(n/2) Γ((k+n)/2)/Γ(k/2)` -/
theorem chi_raw_moment_rel (n : ℕ) :
    ∫ x, x ^ n * Chi.pdf (α := ℝ) d x
      = (2:ℝ) ^ ((n:ℝ) / 2) * Real.Gamma (((d.f_freedom : ℝ) + n) / 2)
        / Real.Gamma ((d.f_freedom : ℝ) / 2) := by
  have hk : (0:ℝ) < (d.f_freedom : ℝ) := by exact_mod_cast lt_of_le_of_ne h0 (Ne.symm hne)
  have hG : 0 < Real.Gamma ((d.f_freedom : ℝ) / 2) := Real.Gamma_pos_of_pos (by positivity)
  have h2 : (2:ℝ) ^ (1 - (d.f_freedom : ℝ) / 2) * (2:ℝ) ^ (((d.f_freedom : ℝ) + n) / 2 - 1)
      = (2:ℝ) ^ ((n:ℝ) / 2) := by
    rw [← Real.rpow_add two_pos]; congr 1; ring
  rw [integral_eq_setIntegral_Ioi (f := fun x => x ^ n * Chi.pdf (α := ℝ) d x)
    (fun x hx => by rw [C03.chi_pdf_eq_zero d x hx.le, mul_zero])]
  have e : ∀ x ∈ Ioi (0:ℝ), x ^ n * Chi.pdf (α := ℝ) d x =
      ((2:ℝ) ^ (1 - (d.f_freedom : ℝ) / 2) / Real.Gamma ((d.f_freedom : ℝ) / 2)) *
        (x ^ ((d.f_freedom : ℝ) - 1 + n) * Real.exp (-(x * x / 2))) := by
    intro x hx
    have hx' : 0 < x := hx
    rw [C03.chi_pdf_formula_rel S d h0 hne x hx, Real.rpow_add hx', Real.rpow_natCast]
    ring
  rw [setIntegral_congr_fun measurableSet_Ioi e, integral_const_mul,
    integral_chiKernel hk (Nat.cast_nonneg n), ← h2]
  field_simp

include S h0 hne in
/-- rel(GammaDensitySpec): `xⁿ·pdf x` is integrable over ℝ -/
theorem chi_raw_moment_integrable_rel (n : ℕ) :
    Integrable (fun x => x ^ n * Chi.pdf (α := ℝ) d x) := by
  have hk : (0:ℝ) < (d.f_freedom : ℝ) := by exact_mod_cast lt_of_le_of_ne h0 (Ne.symm hne)
  apply Integrable.of_integral_ne_zero
  rw [chi_raw_moment_rel S d h0 hne n]
  have : 0 < Real.Gamma (((d.f_freedom : ℝ) + n) / 2) := Real.Gamma_pos_of_pos (by positivity)
  have : 0 < Real.Gamma ((d.f_freedom : ℝ) / 2) := Real.Gamma_pos_of_pos (by positivity)
  positivity

include S h0 hne in
/-- rel(GammaDensitySpec): `∫ x³ f = (k+1)·μ`, `μ = √2 Γ((k+1)/2)/Γ(k/2)` the first moment -/
theorem chi_third_moment_integral_rel :
    ∫ x, x ^ 3 * Chi.pdf (α := ℝ) d x
      = ((d.f_freedom : ℝ) + 1) * (Real.sqrt 2 * Real.Gamma (((d.f_freedom : ℝ) + 1) / 2)
          / Real.Gamma ((d.f_freedom : ℝ) / 2)) := by
  have hk : (0:ℝ) < (d.f_freedom : ℝ) := by exact_mod_cast lt_of_le_of_ne h0 (Ne.symm hne)
  have hG : Real.Gamma ((d.f_freedom : ℝ) / 2) ≠ 0 := (Real.Gamma_pos_of_pos (by positivity)).ne'
  have h := chi_raw_moment_rel S d h0 hne 3
  have p : (2:ℝ) ^ (((3:ℕ):ℝ) / 2) = 2 * Real.sqrt 2 := by
    rw [Real.sqrt_eq_rpow, show (((3:ℕ):ℝ) / 2) = 1 + 1 / 2 by norm_num, Real.rpow_add two_pos,
      Real.rpow_one]
  have g : Real.Gamma (((d.f_freedom : ℝ) + ((3:ℕ):ℝ)) / 2)
      = (((d.f_freedom : ℝ) + 1) / 2) * Real.Gamma (((d.f_freedom : ℝ) + 1) / 2) := by
    rw [show ((d.f_freedom : ℝ) + ((3:ℕ):ℝ)) / 2 = ((d.f_freedom : ℝ) + 1) / 2 + 1 by
      push_cast; ring, Real.Gamma_add_one (by positivity)]
  rw [h, p, g]
  field_simp

include S h0 hne in
/-- rel(GammaDensitySpec): the second central moment `k − μ²` of the generated density is strictly
    positive (every `freedom = k ≥ 1`), i.e. `2 Γ((k+1)/2)² < k Γ(k/2)²` -/
theorem chi_central_second_moment_pos_rel :
    0 < (d.f_freedom : ℝ) - (Real.sqrt 2 * Real.Gamma (((d.f_freedom : ℝ) + 1) / 2)
          / Real.Gamma ((d.f_freedom : ℝ) / 2)) ^ 2 := by
  have hk : (0:ℝ) < (d.f_freedom : ℝ) := by exact_mod_cast lt_of_le_of_ne h0 (Ne.symm hne)
  have hG : 0 < Real.Gamma ((d.f_freedom : ℝ) / 2) := Real.Gamma_pos_of_pos (by positivity)
  set m := Real.sqrt 2 * Real.Gamma (((d.f_freedom : ℝ) + 1) / 2)
          / Real.Gamma ((d.f_freedom : ℝ) / 2) with hm
  have e : (fun x => (x - m) ^ 2 * Chi.pdf (α := ℝ) d x) = fun x =>
      (m ^ 2 + (-2 * m) * x + 1 * x ^ 2) * Chi.pdf (α := ℝ) d x := by funext x; ring
  have hint : Integrable (fun x => (x - m) ^ 2 * Chi.pdf (α := ℝ) d x) := by
    have i0 := chi_raw_moment_integrable_rel S d h0 hne 0
    have i1 := chi_raw_moment_integrable_rel S d h0 hne 1
    have i2 := chi_raw_moment_integrable_rel S d h0 hne 2
    have := ((i0.const_mul (m ^ 2)).add (i1.const_mul (-2 * m))).add i2
    refine this.congr (Filter.Eventually.of_forall fun x => ?_)
    simp only [Pi.add_apply]; ring
  have hpos := integral_sq_sub_mul_pos m (C03.chi_pdf_nonneg_rel S d h0 hne) (fun x hx => by
    rw [C03.chi_pdf_formula_rel S d h0 hne x hx]
    have : 0 < x ^ ((d.f_freedom : ℝ) - 1) := Real.rpow_pos_of_pos hx _
    have : 0 < (2:ℝ) ^ (1 - (d.f_freedom : ℝ) / 2) := Real.rpow_pos_of_pos two_pos _
    have := Real.exp_pos (-(x * x / 2))
    positivity) hint
  rw [e, chi_poly2_integral_rel S d h0 hne, ← hm] at hpos
  linarith [hpos, show m ^ 2 + -2 * m * m + 1 * (d.f_freedom : ℝ) = (d.f_freedom : ℝ) - m ^ 2 by ring]

include S h0 hne in
/-- rel(GammaDensitySpec), partial(freedom ≤ 300): the returned skewness `μ(1 − 2σ²)/σ³` is the third
    standardised central moment of the generated density, centred at the returned mean `m` and
    scaled by the square root of the returned variance `v` (which is strictly positive).
    PARTIAL: for `freedom > 300` `Chi::mean` is an asymptotic approximation and the value returned by
    `skewness` is built from it. -/
theorem chi_skewness_eq_integral_rel_partial (h300 : d.f_freedom ≤ 300) :
    ∃ m v : ℝ, Chi.mean (α := ℝ) d = some m ∧ Chi.variance (α := ℝ) d = some v ∧ 0 < v ∧
      Chi.skewness (α := ℝ) d
        = some (∫ x, ((x - m) / Real.sqrt v) ^ 3 * Chi.pdf (α := ℝ) d x) := by
  have hk : (0:ℝ) < (d.f_freedom : ℝ) := by exact_mod_cast lt_of_le_of_ne h0 (Ne.symm hne)
  set m := Real.sqrt 2 * Real.Gamma (((d.f_freedom : ℝ) + 1) / 2)
          / Real.Gamma ((d.f_freedom : ℝ) / 2) with hm
  have hmean : Chi.mean (α := ℝ) d = some m := by
    rw [chi_mean_eq_integral_rel_partial S d h0 hne h300, chi_mean_integral_rel S d h0 hne]
  have hvar : Chi.variance (α := ℝ) d = some ((d.f_freedom : ℝ) - m * m) := by
    unfold Chi.variance
    rw [hmean]
    unfold Chi.freedom; model_norm
  have hvpos : 0 < (d.f_freedom : ℝ) - m * m := by
    have := chi_central_second_moment_pos_rel S d h0 hne
    rw [← hm] at this; nlinarith [this]
  refine ⟨_, _, hmean, hvar, hvpos, ?_⟩
  set v := (d.f_freedom : ℝ) - m * m with hv
  have m0 := chi_pdf_integral_rel S d h0 hne
  have m1 := chi_mean_integral_rel S d h0 hne
  have m2 := chi_second_moment_integral_rel S d h0 hne
  have m3 := chi_third_moment_integral_rel S d h0 hne
  rw [← hm] at m1 m3
  have hsq : Real.sqrt v * Real.sqrt v = v := Real.mul_self_sqrt hvpos.le
  rw [integral_standardised_cube,
    integral_cube_sub_mul _ _ (fun k _ => chi_raw_moment_integrable_rel S d h0 hne k),
    m2, m3]
  simp only [pow_zero, pow_one, one_mul, m0, m1]
  unfold Chi.skewness Chi.std_dev
  rw [hmean, hvar]
  simp only [Option.map_some]
  model_norm
  simp only [Option.some.injEq]
  have hkk : (d.f_freedom : ℝ) = Real.sqrt v * Real.sqrt v + m * m := by rw [hsq, hv]; ring
  have hs0 : Real.sqrt v ≠ 0 := (Real.sqrt_pos.mpr hvpos).ne'
  generalize Real.sqrt v = s at hkk hs0 ⊢
  rw [hkk]
  field_simp
  ring

/-- non-vacuity -/
example : ∃ d : Chi, 0 ≤ d.f_freedom ∧ d.f_freedom ≠ 0 ∧ d.f_freedom ≤ 300 :=
  ⟨⟨3⟩, by decide, by decide, by decide⟩
example : @GammaDensitySpec sfWitness := gammaDensitySpec_witness

end chi
end Statrs.Props.C07
