/-
  C07 (moments derived from the density) — skewness of FisherSnedecor(d₁, d₂) as the third
  standardised central moment of the SAME object's generated `pdf`:
      raw moments ∫ xⁿ·f = (d₂/d₁)ⁿ Γ(d₁/2 + n) Γ(d₂/2 − n)/(Γ(d₁/2) Γ(d₂/2))     (2n < d₂);
      d₂ > 6:  skewness (2d₁+d₂−2)√(8(d₂−4))/((d₂−6)√(d₁(d₁+d₂−2))) = ∫ ((x − m)/√v)³·f  with m, v the
               returned mean and variance;      d₂ ≤ 6:  `skewness = none`.
  The pdf normalises with `SF.beta`: relative to `C03.BetaFnSpec` (`…_rel`).
  Hypotheses: the constructor's `0 < d₁` and the existence threshold `6 < d₂`.
-/
import Statrs.Real.Simp
import Statrs.Lemmas.Density
import Statrs.Lemmas.Related
import Statrs.Props.C03.SFDerivB
import Statrs.Props.C03.SFDerivWitness
import Statrs.Lemmas.MomentIntegralsGamma2
import Statrs.Props.C07.MomentIntegralsA6
import Statrs.Props.C07.MomentIntegralsB5
import Statrs.Props.C07.SkewnessBeta
import Statrs.Gen.D_fisher_snedecor
import Mathlib.Tactic
namespace Statrs.Props.C07
open Statrs Statrs.Gen Statrs.Spec Statrs.Lemmas.Related Statrs.Lemmas.Density
open Statrs.Lemmas.MomentIntegralsGamma
open MeasureTheory Set

variable [SF ℝ]

section fisher_snedecor
variable (Bf : C03.BetaFnSpec) (d : FisherSnedecor ℝ) (h1 : 0 < d.f_freedom_1)
  (h2 : 0 < d.f_freedom_2)

include Bf h1 h2 in
/-- rel(BetaFnSpec): raw moments of the generated density, `2n < d₂`:
    `∫ xⁿ f = (d₂/d₁)ⁿ Γ(d₁/2 + n) Γ(d₂/2 − n)/(Γ(d₁/2) Γ(d₂/2))` -/
theorem fisher_snedecor_raw_moment_rel (n : ℕ) (hn : 2 * (n : ℝ) < d.f_freedom_2) :
    ∫ x, x ^ n * FisherSnedecor.pdf d x
      = (d.f_freedom_2 / d.f_freedom_1) ^ n * Real.Gamma (d.f_freedom_1 / 2 + n)
        * Real.Gamma (d.f_freedom_2 / 2 - n)
        / (Real.Gamma (d.f_freedom_1 / 2) * Real.Gamma (d.f_freedom_2 / 2)) := by
  have ha : 0 < d.f_freedom_1 / 2 := by positivity
  have hb : 0 < d.f_freedom_2 / 2 := by positivity
  have han : 0 < d.f_freedom_1 / 2 + n := by positivity
  have hbn : 0 < d.f_freedom_2 / 2 - n := by linarith
  have hc : 0 < d.f_freedom_1 / d.f_freedom_2 := by positivity
  have hGa := Real.Gamma_pos_of_pos ha
  have hGb := Real.Gamma_pos_of_pos hb
  have hGab := Real.Gamma_pos_of_pos (add_pos ha hb)
  have hca := Real.rpow_pos_of_pos hc (d.f_freedom_1 / 2)
  rw [integral_eq_setIntegral_Ioi (f := fun x => x ^ n * FisherSnedecor.pdf d x)
    (fun x hx => by rw [C03.fisher_snedecor_pdf_eq_zero d x hx.le, mul_zero])]
  have e : ∀ x ∈ Ioi (0:ℝ), x ^ n * FisherSnedecor.pdf d x =
      ((d.f_freedom_1 / d.f_freedom_2) ^ (d.f_freedom_1 / 2) /
        (Real.Gamma (d.f_freedom_1 / 2) * Real.Gamma (d.f_freedom_2 / 2)
          / Real.Gamma (d.f_freedom_1 / 2 + d.f_freedom_2 / 2))) *
        (x ^ (d.f_freedom_1 / 2 + n - 1)
          * (1 + d.f_freedom_1 / d.f_freedom_2 * x)
              ^ (-((d.f_freedom_1 / 2 + n) + (d.f_freedom_2 / 2 - n)))) := by
    intro x hx
    have hx' : 0 < x := hx
    rw [fisher_snedecor_pdf_formula_rel Bf d h1 h2 x hx,
      show d.f_freedom_1 / 2 + n - 1 = (n : ℝ) + (d.f_freedom_1 / 2 - 1) by ring,
      Real.rpow_add hx', Real.rpow_natCast,
      show d.f_freedom_1 / 2 + ↑n + (d.f_freedom_2 / 2 - ↑n)
        = d.f_freedom_1 / 2 + d.f_freedom_2 / 2 by ring]
    ring
  have hcn : (d.f_freedom_1 / d.f_freedom_2) ^ (-(d.f_freedom_1 / 2 + (n:ℝ)))
      = ((d.f_freedom_1 / d.f_freedom_2) ^ (d.f_freedom_1 / 2))⁻¹
        * (d.f_freedom_2 / d.f_freedom_1) ^ n := by
    rw [neg_add, Real.rpow_add hc, Real.rpow_neg hc.le, Real.rpow_neg hc.le, Real.rpow_natCast,
      ← inv_pow, inv_div]
  rw [setIntegral_congr_fun measurableSet_Ioi e, integral_const_mul,
    integral_betaPrimeKernel_scaled han hbn hc, hcn,
    show d.f_freedom_1 / 2 + ↑n + (d.f_freedom_2 / 2 - ↑n)
        = d.f_freedom_1 / 2 + d.f_freedom_2 / 2 by ring]
  field_simp

include Bf h1 h2 in
/-- rel(BetaFnSpec): `xⁿ·pdf x` is integrable over ℝ for `2n < d₂` -/
theorem fisher_snedecor_raw_moment_integrable_rel (n : ℕ) (hn : 2 * (n : ℝ) < d.f_freedom_2) :
    Integrable (fun x => x ^ n * FisherSnedecor.pdf d x) := by
  apply Integrable.of_integral_ne_zero
  rw [fisher_snedecor_raw_moment_rel Bf d h1 h2 n hn]
  have := Real.Gamma_pos_of_pos (by positivity : 0 < d.f_freedom_1 / 2)
  have := Real.Gamma_pos_of_pos (by positivity : 0 < d.f_freedom_2 / 2)
  have := Real.Gamma_pos_of_pos (by positivity : 0 < d.f_freedom_1 / 2 + n)
  have := Real.Gamma_pos_of_pos (by linarith : 0 < d.f_freedom_2 / 2 - n)
  positivity

include Bf h1 in
/-- rel(BetaFnSpec): for `d₂ > 6` the returned skewness is the third standardised central moment of
    the generated density, centred at the returned mean `m` and scaled by the square root of the
    returned variance `v` -/
theorem fisher_snedecor_skewness_eq_integral_rel (h6 : 6 < d.f_freedom_2) :
    ∃ m v : ℝ, FisherSnedecor.mean d = some m ∧ FisherSnedecor.variance d = some v ∧ 0 < v ∧
      FisherSnedecor.skewness d
        = some (∫ x, ((x - m) / Real.sqrt v) ^ 3 * FisherSnedecor.pdf d x) := by
  have h2 : 0 < d.f_freedom_2 := by linarith
  set d1 := d.f_freedom_1 with hd1
  set d2 := d.f_freedom_2 with hd2
  have hmean : FisherSnedecor.mean d = some (d2 / (d2 - 2)) := by
    unfold FisherSnedecor.mean; model_norm
    rw [if_neg (by linarith)]
  have hvar : FisherSnedecor.variance d
      = some (2 * d2 * d2 * (d1 + d2 - 2) / (d1 * (d2 - 2) * (d2 - 2) * (d2 - 4))) := by
    unfold FisherSnedecor.variance; model_norm; lit_norm
    rw [if_neg (by linarith)]
  have hP : 0 < d1 + d2 - 2 := by linarith
  have hvpos : 0 < 2 * d2 * d2 * (d1 + d2 - 2) / (d1 * (d2 - 2) * (d2 - 2) * (d2 - 4)) := by
    have : 0 < d2 - 2 := by linarith
    have : 0 < d2 - 4 := by linarith
    positivity
  refine ⟨_, _, hmean, hvar, hvpos, ?_⟩
  -- Γ-recurrences
  have ha : 0 < d1 / 2 := by positivity
  have hb3 : 0 < d2 / 2 - 3 := by linarith
  obtain ⟨ga1, ga2, ga3⟩ := Gamma_add_123 ha
  obtain ⟨gb1, gb2, gb3⟩ := Gamma_add_123 hb3
  rw [show d2 / 2 - 3 + 1 = d2 / 2 - 2 by ring] at gb1
  rw [show d2 / 2 - 3 + 2 = d2 / 2 - 1 by ring] at gb2
  rw [show d2 / 2 - 3 + 3 = d2 / 2 by ring] at gb3
  have hGa : Real.Gamma (d1 / 2) ≠ 0 := (Real.Gamma_pos_of_pos ha).ne'
  have hGb : Real.Gamma (d2 / 2 - 3) ≠ 0 := (Real.Gamma_pos_of_pos hb3).ne'
  have m0 := fisher_snedecor_raw_moment_rel Bf d h1 h2 0 (by push_cast; linarith)
  have m1 := fisher_snedecor_raw_moment_rel Bf d h1 h2 1 (by push_cast; linarith)
  have m2 := fisher_snedecor_raw_moment_rel Bf d h1 h2 2 (by push_cast; linarith)
  have m3 := fisher_snedecor_raw_moment_rel Bf d h1 h2 3 (by push_cast; linarith)
  simp only [Nat.cast_zero, add_zero, sub_zero, Nat.cast_one, Nat.cast_ofNat, ← hd1, ← hd2]
    at m0 m1 m2 m3
  rw [gb3] at m0 m1 m2 m3
  rw [ga1, gb2] at m1; rw [ga2, gb1] at m2; rw [ga3] at m3
  have hi : ∀ k : ℕ, k ≤ 3 → Integrable (fun x => x ^ k * FisherSnedecor.pdf d x) := fun k hk =>
    fisher_snedecor_raw_moment_integrable_rel Bf d h1 h2 k (by
      have : (k:ℝ) ≤ 3 := by exact_mod_cast hk
      linarith)
  -- square roots
  obtain ⟨r, hr0, hr2⟩ : ∃ r : ℝ, 0 < r ∧ r ^ 2 = 8 * (d2 - 4) :=
    ⟨Real.sqrt (8 * (d2 - 4)), Real.sqrt_pos.mpr (by linarith), Real.sq_sqrt (by linarith)⟩
  obtain ⟨s, hs0, hs2⟩ : ∃ s : ℝ, 0 < s ∧ s ^ 2 = d1 * (d1 + d2 - 2) :=
    ⟨Real.sqrt (d1 * (d1 + d2 - 2)), Real.sqrt_pos.mpr (by positivity),
      Real.sq_sqrt (by positivity)⟩
  have hr : Real.sqrt (8 * (d2 - 4)) = r := by rw [← hr2, Real.sqrt_sq hr0.le]
  have hs : Real.sqrt (d1 * (d1 + d2 - 2)) = s := by rw [← hs2, Real.sqrt_sq hs0.le]
  have hd22 : 0 < d2 - 2 := by linarith
  have hsv : Real.sqrt (2 * d2 * d2 * (d1 + d2 - 2) / (d1 * (d2 - 2) * (d2 - 2) * (d2 - 4)))
      = 4 * d2 * s / (d1 * (d2 - 2) * r) := by
    have e : 2 * d2 * d2 * (d1 + d2 - 2) / (d1 * (d2 - 2) * (d2 - 2) * (d2 - 4))
        = (4 * d2 * s / (d1 * (d2 - 2) * r)) ^ 2 := by
      rw [div_pow, mul_pow, mul_pow, mul_pow, mul_pow, hs2, hr2]
      have : d2 - 4 ≠ 0 := by linarith
      field_simp; ring
    rw [e, Real.sqrt_sq (by positivity)]
  have hsd3 : (4 * d2 * s / (d1 * (d2 - 2) * r)) ^ 3
      = 64 * d2 ^ 3 * (s * (d1 * (d1 + d2 - 2))) / (d1 ^ 3 * (d2 - 2) ^ 3 * (r * (8 * (d2 - 4)))) := by
    rw [← hs2, ← hr2]; field_simp; norm_num
  rw [integral_standardised_cube, integral_cube_sub_mul _ _ hi, m0, m1, m2, m3, hsv, hsd3]
  unfold FisherSnedecor.skewness; model_norm; lit_norm
  rw [if_neg (by linarith)]
  simp only [← hd1, ← hd2, hr, hs, Option.some.injEq]
  have n9 : d2 / 2 - 3 ≠ 0 := hb3.ne'
  have n10 : d2 / 2 - 3 + 1 ≠ 0 := by linarith
  have n11 : d2 / 2 - 3 + 2 ≠ 0 := by linarith
  generalize Real.Gamma (d2 / 2 - 3) = Gb at hGb ⊢
  generalize Real.Gamma (d1 / 2) = Ga at hGa ⊢
  rw [show d2 / 2 - 3 + 2 = (d2 - 2) / 2 by ring, show d2 / 2 - 3 + 1 = (d2 - 4) / 2 by ring,
    show d2 / 2 - 3 = (d2 - 6) / 2 by ring]
  have n1 : d1 ≠ 0 := h1.ne'
  have n2 : d2 ≠ 0 := h2.ne'
  have n3 : d2 - 2 ≠ 0 := by linarith
  have n4 : d2 - 4 ≠ 0 := by linarith
  have n5 : d2 - 6 ≠ 0 := by linarith
  have n6 : r ≠ 0 := hr0.ne'
  have n7 : s ≠ 0 := hs0.ne'
  have n8 : d1 + d2 - 2 ≠ 0 := hP.ne'
  field_simp
  ring

omit [SF ℝ] in
/-- full(ℝ): at or below the existence threshold `d₂ ≤ 6` the skewness is `none` -/
theorem fisher_snedecor_skewness_none (d : FisherSnedecor ℝ) (h6 : d.f_freedom_2 ≤ 6) :
    FisherSnedecor.skewness d = none := by
  unfold FisherSnedecor.skewness; model_norm; lit_norm
  rw [if_pos h6]

/-- non-vacuity -/
example : ∃ d : FisherSnedecor ℝ, 0 < d.f_freedom_1 ∧ 6 < d.f_freedom_2 :=
  ⟨⟨3, 7⟩, by norm_num, by norm_num⟩
example : @C03.BetaFnSpec C03.Witness.sfDerivWitness := C03.Witness.betaFnSpec_witness

end fisher_snedecor
end Statrs.Props.C07
