/-
  C07 (moments derived from the density) — skewness of InverseGamma(shape, rate) as the third
  standardised central moment of the SAME object's generated `pdf`:
      shape > 3:  skewness = 4√(shape−2)/(shape−3) = ∫ ((x − m)/√v)³·f  with m, v the returned mean and
                  variance;      shape ≤ 3:  `skewness = none`.
  Raw moments `∫ xⁿ·f = rateⁿ Γ(shape − n)/Γ(shape)` (`n < shape`) come from
  `inverse_gamma_rpow_moment_rel` (`EntropyInverseGamma.lean`).
  The pdf carries `SF.gamma`: relative to `Spec.GammaDensitySpec` (`…_rel`).
  Hypotheses: the constructor's `0 < rate` and the existence threshold `3 < shape`.
-/
import Statrs.Real.Simp
import Statrs.Spec.SFSpec_Density
import Statrs.Props.C03.SFDerivA
import Statrs.Lemmas.MomentIntegralsGamma
import Statrs.Props.C07.MomentIntegralsA6
import Statrs.Props.C07.MomentIntegralsB
import Statrs.Props.C07.EntropyInverseGamma
import Statrs.Gen.D_inverse_gamma
import Mathlib.Tactic
namespace Statrs.Props.C07
open Statrs Statrs.Gen Statrs.Spec Statrs.Lemmas.Related Statrs.Lemmas.MomentIntegralsGamma
open MeasureTheory Set

variable [SF ℝ]

section inverse_gamma
variable (S : GammaDensitySpec) (d : InverseGamma ℝ) (h2 : 0 < d.f_rate)

include S h2 in
/-- rel(GammaDensitySpec): raw moments of the generated density, `n < shape`:
    `∫ xⁿ f = rateⁿ Γ(shape − n)/Γ(shape)` -/
theorem inverse_gamma_raw_moment_rel (n : ℕ) (hn : (n : ℝ) < d.f_shape) :
    ∫ x, x ^ n * InverseGamma.pdf d x
      = d.f_rate ^ n * Real.Gamma (d.f_shape - n) / Real.Gamma d.f_shape := by
  have h1 : 0 < d.f_shape := lt_of_le_of_lt (Nat.cast_nonneg n) hn
  have := inverse_gamma_rpow_moment_rel S d h1 h2 (n : ℝ) hn
  simpa only [Real.rpow_natCast] using this

include S h2 in
/-- rel(GammaDensitySpec): `xⁿ·pdf x` is integrable over ℝ for `n < shape` -/
theorem inverse_gamma_raw_moment_integrable_rel (n : ℕ) (hn : (n : ℝ) < d.f_shape) :
    Integrable (fun x => x ^ n * InverseGamma.pdf d x) := by
  have h1 : 0 < d.f_shape := lt_of_le_of_lt (Nat.cast_nonneg n) hn
  have := inverse_gamma_rpow_moment_integrable_rel S d h1 h2 (n : ℝ) hn
  simpa only [Real.rpow_natCast] using this

include S h2 in
/-- rel(GammaDensitySpec): for `shape > 3` the returned skewness `4√(shape−2)/(shape−3)` is the third
    standardised central moment of the generated density, centred at the returned mean `m` and
    scaled by the square root of the returned variance `v` -/
theorem inverse_gamma_skewness_eq_integral_rel (h3 : 3 < d.f_shape) :
    ∃ m v : ℝ, InverseGamma.mean d = some m ∧ InverseGamma.variance d = some v ∧ 0 < v ∧
      InverseGamma.skewness d
        = some (∫ x, ((x - m) / Real.sqrt v) ^ 3 * InverseGamma.pdf d x) := by
  have hr0 : d.f_rate ≠ 0 := h2.ne'
  obtain ⟨q, hq0, hqa⟩ : ∃ q : ℝ, 0 < q ∧ d.f_shape = q ^ 2 + 2 :=
    ⟨Real.sqrt (d.f_shape - 2), Real.sqrt_pos.mpr (by linarith),
      by rw [Real.sq_sqrt (by linarith)]; ring⟩
  have hb : 0 < d.f_shape - 3 := by linarith
  have hG3 : Real.Gamma (d.f_shape - 3) ≠ 0 := (Real.Gamma_pos_of_pos hb).ne'
  have g2 : Real.Gamma (d.f_shape - 2) = (d.f_shape - 3) * Real.Gamma (d.f_shape - 3) := by
    have := Real.Gamma_add_one hb.ne'
    rwa [show d.f_shape - 3 + 1 = d.f_shape - 2 by ring] at this
  have g1 : Real.Gamma (d.f_shape - 1)
      = (d.f_shape - 2) * ((d.f_shape - 3) * Real.Gamma (d.f_shape - 3)) := by
    have := Real.Gamma_add_one (by linarith : d.f_shape - 2 ≠ 0)
    rw [show d.f_shape - 2 + 1 = d.f_shape - 1 by ring] at this
    rw [this, g2]
  have g0 : Real.Gamma d.f_shape
      = (d.f_shape - 1) * ((d.f_shape - 2) * ((d.f_shape - 3) * Real.Gamma (d.f_shape - 3))) := by
    have := Real.Gamma_add_one (by linarith : d.f_shape - 1 ≠ 0)
    rw [sub_add_cancel] at this
    rw [this, g1]
  have m0 := inverse_gamma_raw_moment_rel S d h2 0 (by push_cast; linarith)
  have m1 := inverse_gamma_raw_moment_rel S d h2 1 (by push_cast; linarith)
  have m2 := inverse_gamma_raw_moment_rel S d h2 2 (by push_cast; linarith)
  have m3 := inverse_gamma_raw_moment_rel S d h2 3 (by push_cast; linarith)
  simp only [Nat.cast_zero, sub_zero, Nat.cast_one, Nat.cast_ofNat] at m0 m1 m2 m3
  rw [g0] at m0 m1 m2 m3
  rw [g1] at m1; rw [g2] at m2
  have hi : ∀ k : ℕ, k ≤ 3 → Integrable (fun x => x ^ k * InverseGamma.pdf d x) := fun k hk =>
    inverse_gamma_raw_moment_integrable_rel S d h2 k
      (lt_of_le_of_lt (by exact_mod_cast hk) h3)
  have hmean : InverseGamma.mean d = some (d.f_rate / (d.f_shape - 1)) := by
    unfold InverseGamma.mean; lit_norm
    rw [if_neg (by linarith)]
  have hvar : InverseGamma.variance d
      = some (d.f_rate * d.f_rate / ((d.f_shape - 1) * (d.f_shape - 1) * (d.f_shape - 2))) := by
    unfold InverseGamma.variance; rfun_norm; lit_norm
    rw [if_neg (by linarith)]
  have hvpos : 0 < d.f_rate * d.f_rate / ((d.f_shape - 1) * (d.f_shape - 1) * (d.f_shape - 2)) := by
    have : 0 < d.f_shape - 1 := by linarith
    have : 0 < d.f_shape - 2 := by linarith
    positivity
  refine ⟨_, _, hmean, hvar, hvpos, ?_⟩
  have hsv : Real.sqrt (d.f_rate * d.f_rate / ((d.f_shape - 1) * (d.f_shape - 1) * (d.f_shape - 2)))
      = d.f_rate / ((d.f_shape - 1) * q) := by
    have e : d.f_rate * d.f_rate / ((d.f_shape - 1) * (d.f_shape - 1) * (d.f_shape - 2))
        = (d.f_rate / ((d.f_shape - 1) * q)) ^ 2 := by
      rw [hqa]; field_simp; ring
    rw [e, Real.sqrt_sq]
    have : 0 < d.f_shape - 1 := by linarith
    positivity
  have hsq : Real.sqrt (d.f_shape - 2) = q := by
    rw [hqa, show q ^ 2 + 2 - 2 = q ^ 2 by ring, Real.sqrt_sq hq0.le]
  rw [integral_standardised_cube, integral_cube_sub_mul _ _ hi, m0, m1, m2, m3, hsv]
  unfold InverseGamma.skewness; rfun_norm; lit_norm
  rw [if_neg (by linarith), hsq]
  simp only [Option.some.injEq]
  have hq0' : q ≠ 0 := hq0.ne'
  have e1 : d.f_shape - 1 = q ^ 2 + 1 := by rw [hqa]; ring
  have e2 : d.f_shape - 2 = q ^ 2 := by rw [hqa]; ring
  have e3 : d.f_shape - 3 = q ^ 2 - 1 := by rw [hqa]; ring
  have hq3 : q ^ 2 - 1 ≠ 0 := by rw [← e3]; exact hb.ne'
  rw [e3] at hG3
  rw [e1, e2, e3]
  field_simp
  ring

omit [SF ℝ] in
/-- full(ℝ): at or below the existence threshold `shape ≤ 3` the skewness is `none` -/
theorem inverse_gamma_skewness_none (d : InverseGamma ℝ) (h3 : d.f_shape ≤ 3) :
    InverseGamma.skewness d = none := by
  unfold InverseGamma.skewness; rfun_norm; lit_norm
  rw [if_pos h3]

/-- non-vacuity -/
example : ∃ d : InverseGamma ℝ, 3 < d.f_shape ∧ 0 < d.f_rate := ⟨⟨4, 2⟩, by norm_num, by norm_num⟩
example : @GammaDensitySpec sfWitness := gammaDensitySpec_witness

end inverse_gamma
end Statrs.Props.C07
