/-
  C07 (moments derived from the density) — skewness of StudentsT(μ, σ, ν) as the third standardised
  central moment of the SAME object's generated `pdf`:
      ν > 3:  skewness = 0 = ∫ ((x − m)/√v)³·f  with m, v the returned mean and variance
              (the generated pdf is symmetric about `μ` on BOTH branches, Student `ν < 1e8` and
              Normal `ν ≥ 1e8`, so no premise about the special functions is needed: full(ℝ));
      3 < ν < 1e8:  `(x − μ)³·f` IS integrable (so the integral above is a genuine moment, not the
              junk value `0` of a divergent Bochner integral) — relative to `Spec.GammaDensitySpec`;
      ν ≤ 3:  `skewness = none`.
  Hypotheses: the constructor's `0 < σ`, `0 < ν`.
-/
import Statrs.Real.Simp
import Statrs.Spec.SFSpec_Density
import Statrs.Props.C03.SFDerivB
import Statrs.Lemmas.MomentIntegralsGamma2
import Statrs.Lemmas.Related
import Statrs.Props.C07.MomentIntegralsA6
import Statrs.Props.C07.MomentIntegralsB4
import Statrs.Gen.D_students_t
import Mathlib.Tactic
namespace Statrs.Props.C07
open Statrs Statrs.Gen Statrs.Spec Statrs.Lemmas.Related Statrs.Lemmas.MomentIntegralsGamma
open Statrs.Lemmas.Density
open MeasureTheory Set

variable [SF ℝ]

/-- full(ℝ): the generated density is symmetric about the location (both branches) -/
theorem students_t_pdf_symm (d : StudentsT ℝ) (t : ℝ) :
    StudentsT.pdf d (d.f_location - t) = StudentsT.pdf d (d.f_location + t) := by
  unfold StudentsT.pdf D.normal.pdf_unchecked; model_norm
  rw [show d.f_location - t - d.f_location = -t by ring,
    show d.f_location + t - d.f_location = t by ring]
  split_ifs
  · rw [neg_div]; ring_nf
  · rw [neg_div, neg_mul_neg]

/-- full(ℝ): for `ν > 3` the returned skewness `0` is the third standardised central moment of the
    generated density, centred at the returned mean `m` and scaled by the square root of the
    returned variance `v` (every `ν > 3`, both pdf branches) -/
theorem students_t_skewness_eq_integral (d : StudentsT ℝ) (hσ : 0 < d.f_scale)
    (hν : 3 < d.f_freedom) :
    ∃ m v : ℝ, StudentsT.mean d = some m ∧ StudentsT.variance d = some v ∧ 0 < v ∧
      StudentsT.skewness d = some (∫ x, ((x - m) / Real.sqrt v) ^ 3 * StudentsT.pdf d x) := by
  have hmean : StudentsT.mean d = some d.f_location := by
    unfold StudentsT.mean; model_norm
    rw [if_neg (by linarith)]
  have hvar : StudentsT.variance d
      = some (d.f_freedom * d.f_scale * d.f_scale / (d.f_freedom - 2)) := by
    unfold StudentsT.variance; model_norm
    rw [if_pos (by linarith)]
  have hvpos : 0 < d.f_freedom * d.f_scale * d.f_scale / (d.f_freedom - 2) := by
    have : 0 < d.f_freedom - 2 := by linarith
    have : 0 < d.f_freedom := by linarith
    positivity
  refine ⟨_, _, hmean, hvar, hvpos, ?_⟩
  rw [integral_eq_zero_of_odd_about _ d.f_location (fun t => ?_)]
  · unfold StudentsT.skewness; model_norm; lit_norm
    rw [if_neg (by linarith)]
  · rw [students_t_pdf_symm d t, show d.f_location - t - d.f_location = -t by ring,
      show d.f_location + t - d.f_location = t by ring, neg_div, Odd.neg_pow (by decide)]
    ring

/-- rel(GammaDensitySpec), partial(ν < 1e8): for `3 < ν < 1e8` the third moment exists:
    `(x − μ)³·pdf x` is integrable over ℝ -/
theorem students_t_third_moment_integrable_rel_partial (S : GammaDensitySpec) (d : StudentsT ℝ)
    (hσ : 0 < d.f_scale) (hν : 3 < d.f_freedom) (hν8 : d.f_freedom < 1e8) :
    Integrable (fun x => (x - d.f_location) ^ 3 * StudentsT.pdf d x) := by
  have h0 : 0 < d.f_freedom := by linarith
  simp_rw [C03.students_t_pdf_eq_density_rel S d h0 hν8]
  have hk := integrable_studentKernel (a := 2) (b := (d.f_freedom - 3) / 2) (ν := d.f_freedom)
    two_pos (by linarith) h0
  have h3 : Integrable (fun t : ℝ => t ^ 3 * (1 + t * t / d.f_freedom) ^ (-(1 / 2) * (d.f_freedom + 1))) := by
    refine hk.mono ((by fun_prop : Continuous fun t : ℝ => t ^ 3).mul
      (student_h_continuous h0)).aestronglyMeasurable ?_
    filter_upwards with t
    have e1 : |t| ^ (2 * 2 - 1 : ℝ) = |t| ^ 3 := by
      rw [show (2 * 2 - 1 : ℝ) = ((3:ℕ):ℝ) by norm_num, Real.rpow_natCast]
    have e2 : (-(2 + (d.f_freedom - 3) / 2) : ℝ) = -(1 / 2) * (d.f_freedom + 1) := by ring
    simp only [norm_mul, Real.norm_eq_abs, e1, e2, abs_abs, abs_pow]
    exact le_rfl
  have h := (integrable_comp_sub_div h3 d.f_location hσ).const_mul
    (Real.Gamma ((d.f_freedom + 1) / 2) / Real.Gamma (d.f_freedom / 2)
      / (Real.sqrt d.f_freedom * Real.sqrt Real.pi) * d.f_scale ^ 2)
  refine h.congr (Filter.Eventually.of_forall fun x => ?_)
  simp only [studentDensity_eq]
  field_simp

omit [SF ℝ] in
/-- full(ℝ): at or below the existence threshold `ν ≤ 3` the skewness is `none` -/
theorem students_t_skewness_none (d : StudentsT ℝ) (h3 : d.f_freedom ≤ 3) :
    StudentsT.skewness d = none := by
  unfold StudentsT.skewness; model_norm; lit_norm
  rw [if_pos h3]

/-- non-vacuity -/
example : ∃ d : StudentsT ℝ, 0 < d.f_scale ∧ 3 < d.f_freedom ∧ d.f_freedom < 1e8 :=
  ⟨⟨0, 1, 4⟩, by norm_num, by norm_num, by norm_num⟩
example : @GammaDensitySpec sfWitness := gammaDensitySpec_witness

end Statrs.Props.C07
