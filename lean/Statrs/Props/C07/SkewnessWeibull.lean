/-
  C07 (moments derived from the density) — skewness of Weibull(shape k, scale λ) as the third
  standardised central moment of the SAME object's generated `pdf`:
      raw moments ∫ xⁿ·f = λⁿ Γ(1 + n/k)   (elementary pdf: no premise);
      skewness (λ³Γ(1+3/k) − 3σ²μ − μ³)/σ³ = ∫ ((x − m)/√v)³·f  with m = μ, v = σ² the returned mean
      and variance.
  The variance `v = λ²(Γ(1+2/k) − Γ(1+1/k)²)` is shown to be strictly positive through its integral
  representation (`Lemmas/CentralMoments.lean`), not through a Γ-inequality.
  `mean`/`variance`/`skewness` call `SF.gamma`: relative to `Spec.GammaDensitySpec` (`…_rel`).
  Hypotheses: the constructor's `0 < shape`, `0 < scale`; `hinv` is what `Weibull::new` stores in
  the cached field.
-/
import Statrs.Real.Simp
import Statrs.Spec.SFSpec_Density
import Statrs.Props.C03.Continuous
import Statrs.Lemmas.MomentIntegralsGamma
import Statrs.Lemmas.Related
import Statrs.Props.C07.MomentIntegralsA6
import Statrs.Props.C07.MomentIntegralsB2
import Statrs.Lemmas.CentralMoments
import Statrs.Gen.D_weibull
import Mathlib.Tactic
namespace Statrs.Props.C07
open Statrs Statrs.Gen Statrs.Spec Statrs.Lemmas.Related Statrs.Lemmas.MomentIntegralsGamma
open Statrs.Lemmas.Density Statrs.Lemmas.CentralMoments
open MeasureTheory Set

section weibull
variable (d : Weibull ℝ) (hk : 0 < d.f_shape) (hs : 0 < d.f_scale)
  (hinv : d.f_scale_pow_shape_inv = d.f_scale ^ (-d.f_shape))

include hk hs hinv in
/-- full(ℝ): raw moments of the generated density: `∫ xⁿ f = λⁿ Γ(1 + n/k)` -/
theorem weibull_raw_moment (n : ℕ) :
    ∫ x, x ^ n * Weibull.pdf d x = d.f_scale ^ n * Real.Gamma (1 + n / d.f_shape) := by
  have hlk : 0 < d.f_scale ^ d.f_shape := Real.rpow_pos_of_pos hs _
  rw [integral_eq_setIntegral_Ioi (f := fun x => x ^ n * Weibull.pdf d x)
    (fun x hx => by rw [C03.weibull_pdf_eq_zero d x hx, mul_zero])]
  have e : ∀ x ∈ Ioi (0:ℝ), x ^ n * Weibull.pdf d x
      = (d.f_shape / d.f_scale ^ d.f_shape)
        * (x ^ (d.f_shape - 1 + n) * Real.exp (-(d.f_scale ^ (-d.f_shape)) * x ^ d.f_shape)) := by
    intro x hx
    have hx' : 0 < x := hx
    rw [weibull_pdf_formula d x hx, hinv, Real.rpow_add hx', Real.rpow_natCast,
      Real.div_rpow hx'.le hs.le, Real.rpow_sub_one hs.ne' d.f_shape,
      show -(x ^ d.f_shape) * d.f_scale ^ (-d.f_shape)
        = -(d.f_scale ^ (-d.f_shape)) * x ^ d.f_shape by ring]
    field_simp
  rw [setIntegral_congr_fun measurableSet_Ioi e, integral_const_mul,
    integral_weibullKernel hk hs (Nat.cast_nonneg n), Real.rpow_add hs, Real.rpow_natCast]
  field_simp

include hk hs hinv in
/-- full(ℝ): `xⁿ·pdf x` is integrable over ℝ -/
theorem weibull_raw_moment_integrable (n : ℕ) :
    Integrable (fun x => x ^ n * Weibull.pdf d x) := by
  apply Integrable.of_integral_ne_zero
  rw [weibull_raw_moment d hk hs hinv n]
  have : 0 < Real.Gamma (1 + n / d.f_shape) := Real.Gamma_pos_of_pos (by positivity)
  positivity

include hk hs hinv in
/-- full(ℝ): the second central moment of the generated density is strictly positive, i.e.
    `Γ(1+1/k)² < Γ(1+2/k)` -/
theorem weibull_central_second_moment_pos :
    0 < d.f_scale ^ 2 * Real.Gamma (1 + 2 / d.f_shape)
      - (d.f_scale * Real.Gamma (1 + 1 / d.f_shape)) ^ 2 := by
  set m := d.f_scale * Real.Gamma (1 + 1 / d.f_shape) with hm
  have e : (fun x => (x - m) ^ 2 * Weibull.pdf d x) = fun x =>
      (m ^ 2 + (-2 * m) * x + 1 * x ^ 2) * Weibull.pdf d x := by funext x; ring
  have hint : Integrable (fun x => (x - m) ^ 2 * Weibull.pdf d x) := by
    have i0 := weibull_raw_moment_integrable d hk hs hinv 0
    have i1 := weibull_raw_moment_integrable d hk hs hinv 1
    have i2 := weibull_raw_moment_integrable d hk hs hinv 2
    have := ((i0.const_mul (m ^ 2)).add (i1.const_mul (-2 * m))).add i2
    refine this.congr (Filter.Eventually.of_forall fun x => ?_)
    simp only [Pi.add_apply]; ring
  have hpos := integral_sq_sub_mul_pos m (C03.weibull_pdf_nonneg d hk hs) (fun x hx => by
    rw [weibull_pdf_formula d x hx]
    have : 0 < (x / d.f_scale) ^ (d.f_shape - 1) := Real.rpow_pos_of_pos (div_pos hx hs) _
    have := Real.exp_pos (-(x ^ d.f_shape) * d.f_scale_pow_shape_inv)
    positivity) hint
  rw [e, weibull_poly2_integral d hk hs hinv] at hpos
  linarith [hpos, show m ^ 2 + -2 * m * (d.f_scale * Real.Gamma (1 + 1 / d.f_shape))
    + 1 * (d.f_scale ^ 2 * Real.Gamma (1 + 2 / d.f_shape))
    = d.f_scale ^ 2 * Real.Gamma (1 + 2 / d.f_shape) - m ^ 2 by rw [hm]; ring]

variable [SF ℝ]

include hk hs hinv in
/-- rel(GammaDensitySpec): the returned skewness is the third standardised central moment of the
    generated density, centred at the returned mean `m` and scaled by the square root of the
    returned variance `v` (which is strictly positive) -/
theorem weibull_skewness_eq_integral_rel (S : GammaDensitySpec) :
    ∃ m v : ℝ, Weibull.mean d = some m ∧ Weibull.variance d = some v ∧ 0 < v ∧
      Weibull.skewness d = some (∫ x, ((x - m) / Real.sqrt v) ^ 3 * Weibull.pdf d x) := by
  set g1 := Real.Gamma (1 + 1 / d.f_shape) with hg1
  set g2 := Real.Gamma (1 + 2 / d.f_shape) with hg2
  set g3 := Real.Gamma (1 + 3 / d.f_shape) with hg3
  have hmean : Weibull.mean d = some (d.f_scale * g1) := by
    unfold Weibull.mean; model_norm
    rw [S.gamma_eq _ (by positivity)]
  have hvar : Weibull.variance d
      = some (d.f_scale * d.f_scale * g2 - d.f_scale * g1 * (d.f_scale * g1)) := by
    unfold Weibull.variance; rw [hmean]; model_norm
    rw [S.gamma_eq _ (by positivity)]
  have hvpos : 0 < d.f_scale * d.f_scale * g2 - d.f_scale * g1 * (d.f_scale * g1) := by
    have := weibull_central_second_moment_pos d hk hs hinv
    rw [← hg1, ← hg2] at this
    nlinarith [this]
  refine ⟨_, _, hmean, hvar, hvpos, ?_⟩
  set v := d.f_scale * d.f_scale * g2 - d.f_scale * g1 * (d.f_scale * g1) with hv
  have m0 := weibull_raw_moment d hk hs hinv 0
  have m1 := weibull_raw_moment d hk hs hinv 1
  have m2 := weibull_raw_moment d hk hs hinv 2
  have m3 := weibull_raw_moment d hk hs hinv 3
  simp only [Nat.cast_zero, zero_div, add_zero, Real.Gamma_one, Nat.cast_one, Nat.cast_ofNat,
    ← hg1, ← hg2, ← hg3] at m0 m1 m2 m3
  have hsq : Real.sqrt v * Real.sqrt v = v := Real.mul_self_sqrt hvpos.le
  have hs0 : Real.sqrt v ≠ 0 := (Real.sqrt_pos.mpr hvpos).ne'
  rw [integral_standardised_cube,
    integral_cube_sub_mul _ _ (fun k _ => weibull_raw_moment_integrable d hk hs hinv k),
    m0, m1, m2, m3]
  unfold Weibull.skewness Weibull.std_dev
  rw [hmean, hvar]
  simp only [Option.map_some]
  model_norm; lit_norm
  rw [S.gamma_eq _ (by positivity), ← hg3]
  simp only [Option.some.injEq]
  rw [show Real.sqrt v ^ 3 = Real.sqrt v * Real.sqrt v * Real.sqrt v by ring, hsq]
  congr 1
  rw [hv]; ring

/-- non-vacuity: what `Weibull::new(2, 3)` stores -/
example : ∃ d : Weibull ℝ, 0 < d.f_shape ∧ 0 < d.f_scale ∧
    d.f_scale_pow_shape_inv = d.f_scale ^ (-d.f_shape) :=
  ⟨⟨2, 3, (3:ℝ) ^ (-(2:ℝ))⟩, by norm_num, by norm_num, rfl⟩
example : @GammaDensitySpec sfWitness := gammaDensitySpec_witness

end weibull
end Statrs.Props.C07
