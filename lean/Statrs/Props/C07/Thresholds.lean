/-
  C07 (existence thresholds) — a moment is reported (`some`) exactly when it exists
  mathematically; otherwise `none` (or `+∞`, Levy — see `levy_moments_infinite`).
  Stated as iff on the struct fields.  Pareto / InverseGamma / FisherSnedecor / Cauchy are
  branch logic only and hold for EVERY carrier α (full(∀α)); StudentsT.variance tests `isInf`
  first, so it is stated over ℝ (full(ℝ)) and, for every carrier, under `isInf freedom = false`.
  No off-by-one was found: every threshold in the model is the mathematical one.
-/
import Statrs.Real.Simp
import Statrs.Gen.D_pareto
import Statrs.Gen.D_inverse_gamma
import Statrs.Gen.D_students_t
import Statrs.Gen.D_fisher_snedecor
import Statrs.Gen.D_cauchy
import Statrs.Gen.D_hypergeometric
import Statrs.Gen.D_gamma
import Statrs.Gen.D_beta
import Statrs.Lemmas.Related
import Mathlib.Tactic
namespace Statrs.Props.C07
open Statrs Statrs.Gen Statrs.Lemmas.Related

section generic
variable {α : Type} [Add α] [Sub α] [Mul α] [Div α] [Neg α] [LT α] [LE α] [BEq α]
  [DecidableLT α] [DecidableLE α] [OfScientific α] [Inhabited α] [RFun α]

/-! ### Pareto(scale, shape): k-th moment exists iff shape > k -/
theorem pareto_mean_none_iff (d : Pareto α) : Pareto.mean d = none ↔ d.f_shape ≤ (1.0 : α) := by
  unfold Pareto.mean; split_ifs with h <;> simp [h]
theorem pareto_variance_none_iff (d : Pareto α) :
    Pareto.variance d = none ↔ d.f_shape ≤ (2.0 : α) := by
  unfold Pareto.variance; split_ifs with h <;> simp [h]
theorem pareto_std_dev_none_iff (d : Pareto α) :
    Pareto.std_dev d = none ↔ d.f_shape ≤ (2.0 : α) := by
  unfold Pareto.std_dev; rw [Option.map_eq_none_iff]; exact pareto_variance_none_iff d
theorem pareto_skewness_none_iff (d : Pareto α) :
    Pareto.skewness d = none ↔ d.f_shape ≤ (3.0 : α) := by
  unfold Pareto.skewness; split_ifs with h <;> simp [h]
/-- entropy is always reported -/
theorem pareto_entropy_isSome (d : Pareto α) : (Pareto.entropy d).isSome = true := rfl

/-! ### InverseGamma(shape, rate): k-th moment exists iff shape > k -/
theorem inverseGamma_mean_none_iff (d : InverseGamma α) :
    InverseGamma.mean d = none ↔ d.f_shape ≤ (1.0 : α) := by
  unfold InverseGamma.mean; split_ifs with h <;> simp [h]
theorem inverseGamma_variance_none_iff (d : InverseGamma α) :
    InverseGamma.variance d = none ↔ d.f_shape ≤ (2.0 : α) := by
  unfold InverseGamma.variance; split_ifs with h <;> simp [h]
theorem inverseGamma_std_dev_none_iff (d : InverseGamma α) :
    InverseGamma.std_dev d = none ↔ d.f_shape ≤ (2.0 : α) := by
  unfold InverseGamma.std_dev; rw [Option.map_eq_none_iff]; exact inverseGamma_variance_none_iff d
theorem inverseGamma_skewness_none_iff (d : InverseGamma α) :
    InverseGamma.skewness d = none ↔ d.f_shape ≤ (3.0 : α) := by
  unfold InverseGamma.skewness; split_ifs with h <;> simp [h]

/-! ### FisherSnedecor(d1, d2): mean iff d2 > 2, variance iff d2 > 4, skewness iff d2 > 6 -/
theorem fisherSnedecor_mean_none_iff (d : FisherSnedecor α) :
    FisherSnedecor.mean d = none ↔ d.f_freedom_2 ≤ (2.0 : α) := by
  unfold FisherSnedecor.mean; split_ifs with h <;> simp [h]
theorem fisherSnedecor_variance_none_iff (d : FisherSnedecor α) :
    FisherSnedecor.variance d = none ↔ d.f_freedom_2 ≤ (4.0 : α) := by
  unfold FisherSnedecor.variance; split_ifs with h <;> simp [h]
theorem fisherSnedecor_std_dev_none_iff (d : FisherSnedecor α) :
    FisherSnedecor.std_dev d = none ↔ d.f_freedom_2 ≤ (4.0 : α) := by
  unfold FisherSnedecor.std_dev; rw [Option.map_eq_none_iff]
  exact fisherSnedecor_variance_none_iff d
theorem fisherSnedecor_skewness_none_iff (d : FisherSnedecor α) :
    FisherSnedecor.skewness d = none ↔ d.f_freedom_2 ≤ (6.0 : α) := by
  unfold FisherSnedecor.skewness; split_ifs with h <;> simp [h]
/-- the (finite) entropy of the F distribution is never reported -/
theorem fisherSnedecor_entropy_none (d : FisherSnedecor α) : FisherSnedecor.entropy d = none := rfl

/-! ### StudentsT(l, s, ν): mean iff ν > 1, variance iff ν > 2, skewness iff ν > 3 -/
theorem studentsT_mean_none_iff (d : StudentsT α) :
    StudentsT.mean d = none ↔ d.f_freedom ≤ (1.0 : α) := by
  unfold StudentsT.mean; split_ifs with h <;> simp [h]
theorem studentsT_skewness_none_iff (d : StudentsT α) :
    StudentsT.skewness d = none ↔ d.f_freedom ≤ (3.0 : α) := by
  unfold StudentsT.skewness; split_ifs with h <;> simp [h]
/-- finite ν, any carrier: variance is reported iff `2 < ν` (for `1 < ν ≤ 2` the true variance is
    `+∞` and the code answers `None`) -/
theorem studentsT_variance_isSome_iff_of_finite (d : StudentsT α)
    (hfin : RFun.isInf d.f_freedom = false) :
    (StudentsT.variance d).isSome = true ↔ (2.0 : α) < d.f_freedom := by
  unfold StudentsT.variance; simp only [hfin, Bool.false_eq_true, if_false]
  split_ifs with h <;> simp [h]
/-- ν = ∞, any carrier: variance is reported (the Normal one) -/
theorem studentsT_variance_isSome_of_inf (d : StudentsT α)
    (hinf : RFun.isInf d.f_freedom = true) : (StudentsT.variance d).isSome = true := by
  unfold StudentsT.variance; simp [hinf]

/-- entropy is reported for every ν, `ν = ∞` included (both branches are `Some`), any carrier -/
theorem studentsT_entropy_isSome [SF α] (d : StudentsT α) : (StudentsT.entropy d).isSome = true := by
  unfold StudentsT.entropy; split_ifs <;> rfl

/-! ### Cauchy: no moment exists -/
theorem cauchy_no_moments (d : Cauchy α) :
    Cauchy.mean d = none ∧ Cauchy.variance d = none ∧ Cauchy.std_dev d = none ∧
    Cauchy.skewness d = none ∧ (Cauchy.entropy d).isSome = true := ⟨rfl, rfl, rfl, rfl, rfl⟩

/-! ### Hypergeometric: degenerate populations -/
theorem hypergeometric_mean_none_iff (d : Hypergeometric) :
    Hypergeometric.mean (α := α) d = none ↔ d.f_population = 0 := by
  unfold Hypergeometric.mean; split_ifs with h <;> simp [h]
theorem hypergeometric_variance_none_iff (d : Hypergeometric) :
    Hypergeometric.variance (α := α) d = none ↔ d.f_population ≤ 1 := by
  unfold Hypergeometric.variance Hypergeometric.values_f64; split_ifs with h <;> simp [h]
theorem hypergeometric_skewness_none_iff (d : Hypergeometric) :
    Hypergeometric.skewness (α := α) d = none ↔ d.f_population ≤ 2 := by
  unfold Hypergeometric.skewness Hypergeometric.values_f64; split_ifs with h <;> simp [h]

end generic

/-! ### over ℝ (numerals instead of float literals; `isInf` is never true) -/

theorem studentsT_variance_none_iff (d : StudentsT ℝ) :
    StudentsT.variance d = none ↔ d.f_freedom ≤ 2 := by
  unfold StudentsT.variance; rfun_norm; lit_norm
  simp only [Bool.false_eq_true, if_false]
  split_ifs with h
  · simp [not_le.mpr h]
  · simp [not_lt.mp h]

theorem studentsT_std_dev_none_iff (d : StudentsT ℝ) :
    StudentsT.std_dev d = none ↔ d.f_freedom ≤ 2 := by
  unfold StudentsT.std_dev; rw [Option.map_eq_none_iff]; exact studentsT_variance_none_iff d

/-- the reported values on the "exists" side, Pareto (so that "finite value ⇒ the moment exists
    and is this number"): -/
theorem pareto_mean_eq (d : Pareto ℝ) (h : 1 < d.f_shape) :
    Pareto.mean d = some (d.f_shape * d.f_scale / (d.f_shape - 1)) := by
  unfold Pareto.mean; lit_norm; simp [not_le.mpr h]

theorem inverseGamma_mean_eq (d : InverseGamma ℝ) (h : 1 < d.f_shape) :
    InverseGamma.mean d = some (d.f_rate / (d.f_shape - 1)) := by
  unfold InverseGamma.mean; lit_norm; simp [not_le.mpr h]

theorem fisherSnedecor_mean_eq (d : FisherSnedecor ℝ) (h : 2 < d.f_freedom_2) :
    FisherSnedecor.mean d = some (d.f_freedom_2 / (d.f_freedom_2 - 2)) := by
  unfold FisherSnedecor.mean; lit_norm; simp [not_le.mpr h]

theorem studentsT_mean_eq (d : StudentsT ℝ) (h : 1 < d.f_freedom) :
    StudentsT.mean d = some d.f_location := by
  unfold StudentsT.mean; lit_norm; simp [not_le.mpr h]

example : ∃ d : Pareto ℝ, 1 < d.f_shape := ⟨⟨1, 2⟩, by norm_num⟩
example : ∃ d : StudentsT ℝ, 1 < d.f_freedom := ⟨⟨0, 1, 2⟩, by norm_num⟩

end Statrs.Props.C07
