/-
  C08 (location pins, part A) — Bernoulli, Beta, Binomial, Cauchy, Chi, ChiSquared, Dirac.

  Every value returned by the generated `median` / `mode` / `min` / `max` is pinned to the
  hand-written textbook expression of `Statrs.Spec.Location` (same parameterisation as the pdf).
  The pins are syntactic/algebraic: an edit of a constant, of a cut-over between two formula
  branches, of an operator or of an argument in a location method of /repo/src breaks one of these
  theorems.  Each branch of a piecewise formula is pinned under its own guard (`…_pin`,
  `…_large_pin`, `…_none_pin`), so the cut-over value is pinned together with the formula.
  Hypotheses are only what the identity needs; a theorem without hypotheses holds for all field
  values.  Theorems over every carrier `α` are branch logic / integer arithmetic (they also hold
  for IEEE `Float`); infinite support ends are pinned through `Location.infEnd α` for every carrier
  (over ℝ `RFun.inf` is a junk value).

  Where the code's value is NOT the textbook location the returned value is pinned (`…_code_pin`,
  or a pin to a separately defined `medianApprox…`) AND a `…_spec_counterexample` is proved:
    * Bernoulli / Binomial `median()` is `⌊np⌋` (not a median for n = 1, p = 3/4),
    * Bernoulli / Binomial `min() = 0`, `max() = n` are not tight for p = 1 / p = 0,
    * Beta `mode()` is `None` for a ≤ 1 < b (textbook 0),
    * ChiSquared `median()` for k ≥ 1 is `k − 2/3`, not the documented `k(1 − 2/(9k))³`,
    * ChiSquared `mode()` is `None` for k < 2 (textbook `max(k − 2, 0) = 0`).
-/
import Statrs.Real.Simp
import Statrs.Spec.Location
import Statrs.Lemmas.LocationPins
import Statrs.Gen.D_bernoulli
import Statrs.Gen.D_beta
import Statrs.Gen.D_binomial
import Statrs.Gen.D_cauchy
import Statrs.Gen.D_chi
import Statrs.Gen.D_chi_squared
import Statrs.Gen.D_dirac
import Mathlib.Tactic
set_option linter.unusedVariables false
set_option linter.unusedSectionVars false
namespace Statrs.Props.C08
open Statrs Statrs.Gen Statrs.Spec Statrs.Lemmas.LocationPins

/-! ### Binomial(n, p) -/
section binomial
variable (d : Binomial ℝ)

/-- `median()` is the documented approximation `⌊np⌋` (for every n, p) -/
theorem binomial_median_pin :
    Binomial.median d = ((Location.Binomial.medianApprox d.f_n d.f_p : ℤ) : ℝ) := by
  unfold Binomial.median Location.Binomial.medianApprox
  rfun_norm
  rw [mul_comm]

/-- `⌊np⌋` is not always a median: Binomial(1, 3/4) has `P(X ≤ 0) = 1/4 < 1/2`, yet `median() = 0` -/
theorem binomial_median_spec_counterexample :
    Binomial.median (⟨3 / 4, 1⟩ : Binomial ℝ) = ((0 : ℕ) : ℝ)
      ∧ ¬ Location.Binomial.IsMedian 1 (3 / 4) 0
      ∧ Location.Binomial.IsMedian 1 (3 / 4) 1 := by
  refine ⟨?_, ?_, ?_⟩
  · rw [binomial_median_pin]; unfold Location.Binomial.medianApprox; norm_num
  · unfold Location.Binomial.IsMedian Location.Binomial.pmf
    norm_num [Finset.sum_range_succ]
  · unfold Location.Binomial.IsMedian Location.Binomial.pmf
    have h : Finset.Icc 1 1 = ({1} : Finset ℕ) := by decide
    norm_num [Finset.sum_range_succ, h]

/-- branch `p == 0.0` (every carrier): mode 0 -/
theorem binomial_mode_zero_pin {α : Type} [Add α] [Sub α] [Mul α] [Div α] [Neg α] [LT α] [LE α]
    [BEq α] [DecidableLT α] [DecidableLE α] [OfScientific α] [Inhabited α] [RFun α]
    (d : Binomial α) (h : (d.f_p == (0.0 : α)) = true) : Binomial.mode d = some 0 := by
  unfold Binomial.mode; simp [h]

/-- branch `ulps_eq!(p, 1.0)` (every carrier): mode n -/
theorem binomial_mode_one_pin {α : Type} [Add α] [Sub α] [Mul α] [Div α] [Neg α] [LT α] [LE α]
    [BEq α] [DecidableLT α] [DecidableLE α] [OfScientific α] [Inhabited α] [RFun α]
    (d : Binomial α) (h0 : ¬ (d.f_p == (0.0 : α)) = true) (h1 : RFun.ulpsEq d.f_p (1.0 : α) = true) :
    Binomial.mode d = some d.f_n := by
  unfold Binomial.mode; simp [h0, h1]

/-- branch `0 ≠ p ≠ 1` over ℝ: `max(0, ⌊(n + 1)p⌋)` (the `as u64` cast saturates at 0) -/
theorem binomial_mode_mid_pin (h0 : d.f_p ≠ 0) (h1 : d.f_p ≠ 1) :
    Binomial.mode d = some (max 0 ⌊((d.f_n : ℝ) + 1) * d.f_p⌋) := by
  unfold Binomial.mode
  have e0 : ¬ ((d.f_p == (0.0 : ℝ)) = true) := by rw [real_beq]; norm_num; exact h0
  have e1 : ¬ (RFun.ulpsEq d.f_p (1.0 : ℝ) = true) := by rw [rfun_ulpsEq]; norm_num; exact h1
  simp only [e0, e1]
  rw [toU64_floor]; rfun_norm; norm_num

/-- all three branches: the textbook mode, for `0 ≤ n`, `0 ≤ p` -/
theorem binomial_mode_pin (hn : 0 ≤ d.f_n) (hp : 0 ≤ d.f_p) :
    Binomial.mode d = some (Location.Binomial.mode d.f_n d.f_p) := by
  unfold Location.Binomial.mode
  by_cases h1 : d.f_p = 1
  · have e0 : ¬ ((d.f_p == (0.0 : ℝ)) = true) := by rw [real_beq, h1]; norm_num
    have e1 : RFun.ulpsEq d.f_p (1.0 : ℝ) = true := by rw [rfun_ulpsEq, h1]; norm_num
    rw [binomial_mode_one_pin d e0 e1, if_pos h1]
  · rw [if_neg h1]
    by_cases h0 : d.f_p = 0
    · have e0 : (d.f_p == (0.0 : ℝ)) = true := by rw [real_beq, h0]; norm_num
      rw [binomial_mode_zero_pin d e0, h0]; simp
    · rw [binomial_mode_mid_pin d h0 h1]
      have : 0 ≤ ⌊((d.f_n : ℝ) + 1) * d.f_p⌋ := by
        apply Int.floor_nonneg.mpr
        have : (0 : ℝ) ≤ d.f_n := by exact_mod_cast hn
        positivity
      rw [max_eq_right this]

/-- `min()` returns 0 (every carrier) -/
theorem binomial_min_code_pin {α : Type} [Add α] [Sub α] [Mul α] [Div α] [Neg α] [LT α] [LE α]
    [BEq α] [DecidableLT α] [DecidableLE α] [OfScientific α] [Inhabited α] [RFun α]
    (d : Binomial α) : Binomial.min d = 0 := rfl

/-- `max()` returns n (every carrier) -/
theorem binomial_max_code_pin {α : Type} [Add α] [Sub α] [Mul α] [Div α] [Neg α] [LT α] [LE α]
    [BEq α] [DecidableLT α] [DecidableLE α] [OfScientific α] [Inhabited α] [RFun α]
    (d : Binomial α) : Binomial.max d = d.f_n := rfl

/-- `min()` is the textbook minimum unless `p = 1` -/
theorem binomial_min_pin (h : d.f_p ≠ 1) : Binomial.min d = Location.Binomial.min d.f_n d.f_p := by
  unfold Binomial.min Location.Binomial.min; rw [if_neg h]

/-- `max()` is the textbook maximum unless `p = 0` -/
theorem binomial_max_pin (h : d.f_p ≠ 0) : Binomial.max d = Location.Binomial.max d.f_n d.f_p := by
  unfold Binomial.max Location.Binomial.max; rw [if_neg h]

/-- Binomial(5, 1) is the point mass at 5, `min()` is 0 -/
theorem binomial_min_spec_counterexample :
    Binomial.min (⟨1, 5⟩ : Binomial ℝ) ≠ Location.Binomial.min 5 1 := by
  unfold Binomial.min Location.Binomial.min; norm_num

/-- Binomial(5, 0) is the point mass at 0, `max()` is 5 -/
theorem binomial_max_spec_counterexample :
    Binomial.max (⟨0, 5⟩ : Binomial ℝ) ≠ Location.Binomial.max 5 0 := by
  unfold Binomial.max Location.Binomial.max; norm_num

example : ∃ d : Binomial ℝ, 0 ≤ d.f_n ∧ 0 ≤ d.f_p ∧ d.f_p ≠ 0 ∧ d.f_p ≠ 1 :=
  ⟨⟨1 / 3, 7⟩, by norm_num⟩
example : ∃ d : Binomial ℝ, (d.f_p == (0.0 : ℝ)) = true := ⟨⟨0, 7⟩, by rw [real_beq]; norm_num⟩
example : ∃ d : Binomial ℝ, ¬ (d.f_p == (0.0 : ℝ)) = true ∧ RFun.ulpsEq d.f_p (1.0 : ℝ) = true :=
  ⟨⟨1, 7⟩, by rw [real_beq, rfun_ulpsEq]; norm_num⟩
end binomial

/-! ### Bernoulli(p) = Binomial(1, p) -/
section bernoulli
variable (d : Bernoulli ℝ) (hn : d.f_b.f_n = 1)

/-- `median()` is `⌊p⌋` (the Binomial approximation `⌊np⌋` at n = 1) -/
theorem bernoulli_median_pin (hn : d.f_b.f_n = 1) :
    Bernoulli.median d = ((Location.Bernoulli.medianFloor d.f_b.f_p : ℤ) : ℝ) := by
  unfold Bernoulli.median Location.Bernoulli.medianFloor
  rw [binomial_median_pin]; unfold Location.Binomial.medianApprox; rw [hn]; norm_num

/-- on `p < 1/2` the returned `⌊p⌋` is the textbook median 0 (`0 ≤ p`) -/
theorem bernoulli_median_small_pin (hn : d.f_b.f_n = 1) (h0 : 0 ≤ d.f_b.f_p) (h : d.f_b.f_p < 1 / 2) :
    Bernoulli.median d = Location.Bernoulli.median d.f_b.f_p := by
  rw [bernoulli_median_pin d hn]; unfold Location.Bernoulli.medianFloor Location.Bernoulli.median
  rw [if_pos h]
  have : ⌊d.f_b.f_p⌋ = 0 := Int.floor_eq_iff.mpr ⟨by simpa using h0, by norm_num; linarith⟩
  rw [this]; norm_num

/-- Bernoulli(3/4): textbook median 1 (`P(0) = 1/4`), `median()` is 0 -/
theorem bernoulli_median_spec_counterexample :
    Bernoulli.median (⟨⟨3 / 4, 1⟩⟩ : Bernoulli ℝ) = 0 ∧ Location.Bernoulli.median (3 / 4) = 1 := by
  constructor
  · rw [bernoulli_median_pin _ rfl]; unfold Location.Bernoulli.medianFloor; norm_num
  · unfold Location.Bernoulli.median; norm_num

/-- `mode()`: 0 for `p < 1/2`, 1 for `1/2 ≤ p` (needs only `p ≤ 1`) -/
theorem bernoulli_mode_pin (hn : d.f_b.f_n = 1) (h1 : d.f_b.f_p ≤ 1) :
    Bernoulli.mode d = some (Location.Bernoulli.mode d.f_b.f_p) := by
  unfold Bernoulli.mode Location.Bernoulli.mode
  by_cases e1 : d.f_b.f_p = 1
  · have a0 : ¬ ((d.f_b.f_p == (0.0 : ℝ)) = true) := by rw [real_beq, e1]; norm_num
    have a1 : RFun.ulpsEq d.f_b.f_p (1.0 : ℝ) = true := by rw [rfun_ulpsEq, e1]; norm_num
    rw [binomial_mode_one_pin d.f_b a0 a1, hn, e1]; norm_num
  · by_cases e0 : d.f_b.f_p = 0
    · have a0 : (d.f_b.f_p == (0.0 : ℝ)) = true := by rw [real_beq, e0]; norm_num
      rw [binomial_mode_zero_pin d.f_b a0, e0]; norm_num
    · rw [binomial_mode_mid_pin d.f_b e0 e1, hn]
      have hlt : d.f_b.f_p < 1 := lt_of_le_of_ne h1 e1
      norm_num
      split_ifs with h
      · have : ⌊2 * d.f_b.f_p⌋ ≤ 0 := by
          have : ⌊2 * d.f_b.f_p⌋ < 1 := Int.floor_lt.mpr (by norm_num; linarith)
          omega
        exact max_eq_left this
      · have : ⌊2 * d.f_b.f_p⌋ = 1 :=
          Int.floor_eq_iff.mpr ⟨by norm_num; linarith [not_lt.mp h], by norm_num; linarith⟩
        rw [this]; norm_num

/-- `min()` returns 0 (every carrier) -/
theorem bernoulli_min_code_pin {α : Type} [Add α] [Sub α] [Mul α] [Div α] [Neg α] [LT α] [LE α]
    [BEq α] [DecidableLT α] [DecidableLE α] [OfScientific α] [Inhabited α] [RFun α]
    (d : Bernoulli α) : Bernoulli.min d = 0 := rfl

/-- `max()` returns 1 (every carrier) -/
theorem bernoulli_max_code_pin {α : Type} [Add α] [Sub α] [Mul α] [Div α] [Neg α] [LT α] [LE α]
    [BEq α] [DecidableLT α] [DecidableLE α] [OfScientific α] [Inhabited α] [RFun α]
    (d : Bernoulli α) : Bernoulli.max d = 1 := rfl

/-- `min()` is the textbook minimum unless `p = 1` -/
theorem bernoulli_min_pin (h : d.f_b.f_p ≠ 1) :
    Bernoulli.min d = Location.Bernoulli.min d.f_b.f_p := by
  unfold Bernoulli.min Location.Bernoulli.min; rw [if_neg h]

/-- `max()` is the textbook maximum unless `p = 0` -/
theorem bernoulli_max_pin (h : d.f_b.f_p ≠ 0) :
    Bernoulli.max d = Location.Bernoulli.max d.f_b.f_p := by
  unfold Bernoulli.max Location.Bernoulli.max; rw [if_neg h]

/-- Bernoulli(1) is the point mass at 1, `min()` is 0 -/
theorem bernoulli_min_spec_counterexample :
    Bernoulli.min (⟨⟨1, 1⟩⟩ : Bernoulli ℝ) ≠ Location.Bernoulli.min 1 := by
  unfold Bernoulli.min Location.Bernoulli.min; norm_num

/-- Bernoulli(0) is the point mass at 0, `max()` is 1 -/
theorem bernoulli_max_spec_counterexample :
    Bernoulli.max (⟨⟨0, 1⟩⟩ : Bernoulli ℝ) ≠ Location.Bernoulli.max 0 := by
  unfold Bernoulli.max Location.Bernoulli.max; norm_num

example : ∃ d : Bernoulli ℝ, d.f_b.f_n = 1 ∧ 0 ≤ d.f_b.f_p ∧ d.f_b.f_p < 1 / 2 ∧ d.f_b.f_p ≤ 1 ∧
    d.f_b.f_p ≠ 1 := ⟨⟨⟨1 / 3, 1⟩⟩, by norm_num⟩
example : ∃ d : Bernoulli ℝ, d.f_b.f_n = 1 ∧ d.f_b.f_p ≤ 1 ∧ d.f_b.f_p ≠ 0 :=
  ⟨⟨⟨2 / 3, 1⟩⟩, by norm_num⟩
end bernoulli

/-! ### Beta(a, b) -/
section beta
variable (d : Beta ℝ)

/-- `1 < a`, `1 < b`: `(a − 1)/(a + b − 2)` -/
theorem beta_mode_pin (ha : 1 < d.f_shape_a) (hb : 1 < d.f_shape_b) :
    Beta.mode d = Location.Beta.mode d.f_shape_a d.f_shape_b := by
  unfold Beta.mode Location.Beta.mode
  have : ¬ (d.f_shape_a ≤ (1.0 : ℝ) ∨ d.f_shape_b ≤ (1.0 : ℝ)) := by norm_num; exact ⟨ha, hb⟩
  rw [if_neg this, if_pos ⟨ha, hb⟩]; norm_num

/-- `a ≤ 1` or `b ≤ 1`: `None` (the documented restriction, cut-over at exactly 1) -/
theorem beta_mode_none_pin (h : d.f_shape_a ≤ 1 ∨ d.f_shape_b ≤ 1) : Beta.mode d = none := by
  unfold Beta.mode
  have : d.f_shape_a ≤ (1.0 : ℝ) ∨ d.f_shape_b ≤ (1.0 : ℝ) := by norm_num; exact h
  rw [if_pos this]

/-- Beta(1, 2) has density `2(1 − x)` with mode 0; `mode()` is `None` -/
theorem beta_mode_spec_counterexample :
    Beta.mode (⟨1, 2⟩ : Beta ℝ) = none ∧ Location.Beta.mode 1 2 = some 0 := by
  constructor
  · exact beta_mode_none_pin _ (Or.inl (le_refl _))
  · unfold Location.Beta.mode; norm_num

theorem beta_min_pin : Beta.min d = Location.Beta.min := by
  unfold Beta.min Location.Beta.min; norm_num

theorem beta_max_pin : Beta.max d = Location.Beta.max := by
  unfold Beta.max Location.Beta.max; norm_num

example : ∃ d : Beta ℝ, 1 < d.f_shape_a ∧ 1 < d.f_shape_b := ⟨⟨2, 3⟩, by norm_num⟩
example : ∃ d : Beta ℝ, 0 < d.f_shape_a ∧ 0 < d.f_shape_b ∧ (d.f_shape_a ≤ 1 ∨ d.f_shape_b ≤ 1) :=
  ⟨⟨1, 3⟩, by norm_num⟩
end beta

/-! ### Cauchy(x₀, γ) -/
section cauchy
variable (d : Cauchy ℝ)
theorem cauchy_median_pin : Cauchy.median d = Location.Cauchy.median d.f_location := rfl
theorem cauchy_mode_pin : Cauchy.mode d = some (Location.Cauchy.mode d.f_location) := rfl
/-- `min()` is the carrier's `−∞` (every carrier) -/
theorem cauchy_min_pin {α : Type} [Add α] [Sub α] [Mul α] [Div α] [Neg α] [LT α] [LE α]
    [BEq α] [DecidableLT α] [DecidableLE α] [OfScientific α] [Inhabited α] [RFun α]
    (d : Cauchy α) : Location.infEnd α Location.Cauchy.min = some (Cauchy.min d) := infEnd_bot α
/-- `max()` is the carrier's `+∞` (every carrier) -/
theorem cauchy_max_pin {α : Type} [Add α] [Sub α] [Mul α] [Div α] [Neg α] [LT α] [LE α]
    [BEq α] [DecidableLT α] [DecidableLE α] [OfScientific α] [Inhabited α] [RFun α]
    (d : Cauchy α) : Location.infEnd α Location.Cauchy.max = some (Cauchy.max d) := infEnd_top α
example : ∃ d : Cauchy ℝ, 0 < d.f_scale := ⟨⟨0, 1⟩, by norm_num⟩
end cauchy

/-! ### Chi(k) -/
section chi
variable (d : Chi)

/-- `√(k − 1)`; `1 ≤ k` keeps the unsigned `k − 1` from panicking -/
theorem chi_mode_pin (h : 1 ≤ d.f_freedom) :
    Chi.mode (α := ℝ) d = some (Location.Chi.mode d.f_freedom) := by
  unfold Chi.mode Chi.freedom Location.Chi.mode usub
  rw [if_neg (by omega)]
  rfun_norm
  push_cast; rfl

theorem chi_min_pin : Chi.min (α := ℝ) d = Location.Chi.min := by
  unfold Chi.min Location.Chi.min; norm_num

/-- `max()` is the carrier's `+∞` (every carrier) -/
theorem chi_max_pin {α : Type} [Add α] [Sub α] [Mul α] [Div α] [Neg α] [LT α] [LE α]
    [BEq α] [DecidableLT α] [DecidableLE α] [OfScientific α] [Inhabited α] [RFun α] :
    Location.infEnd α Location.Chi.max = some (Chi.max (α := α) d) := infEnd_top α

example : ∃ d : Chi, 1 ≤ d.f_freedom := ⟨⟨3⟩, by decide⟩
end chi

/-! ### ChiSquared(k): the wrapped Gamma is `Gamma(k/2, 1/2)` (what `ChiSquared.new` builds) -/
section chiSquared
variable (d : ChiSquared ℝ)

/-- `k < 1`: the small-k expansion `k − 2/3 + 12/(81k) − 8/(729k²)` -/
theorem chiSquared_median_small_pin (h : d.f_freedom < 1) :
    ChiSquared.median d = Location.ChiSquared.medianApproxSmall d.f_freedom := by
  unfold ChiSquared.median Location.ChiSquared.medianApproxSmall
  rw [if_pos (by norm_num; exact h)]
  norm_num; ring

/-- `1 ≤ k`: `k − 2/3` -/
theorem chiSquared_median_large_pin (h : 1 ≤ d.f_freedom) :
    ChiSquared.median d = Location.ChiSquared.medianApproxLarge d.f_freedom := by
  unfold ChiSquared.median Location.ChiSquared.medianApproxLarge
  rw [if_neg (by norm_num; exact h)]
  norm_num

/-- both branches with the cut-over at exactly `k = 1` -/
theorem chiSquared_median_pin :
    ChiSquared.median d = Location.ChiSquared.medianApprox d.f_freedom := by
  unfold Location.ChiSquared.medianApprox
  split_ifs with h
  · exact chiSquared_median_small_pin d h
  · exact chiSquared_median_large_pin d (not_lt.mp h)

/-- the small-k branch IS the documented Wilson–Hilferty formula `k(1 − 2/(9k))³`, expanded -/
theorem chiSquared_medianApproxSmall_eq (k : ℝ) (hk : k ≠ 0) :
    Location.ChiSquared.medianApproxSmall k = Location.ChiSquared.medianWilsonHilferty k := by
  unfold Location.ChiSquared.medianApproxSmall Location.ChiSquared.medianWilsonHilferty
  field_simp; ring

/-- the large-k branch is NOT the documented formula: at `k = 1` `median() = 1/3`, while
    `k(1 − 2/(9k))³ = 343/729` (the true median of χ²(1) is ≈ 0.4549) -/
theorem chiSquared_median_spec_counterexample :
    ChiSquared.median (⟨1, ⟨1 / 2, 1 / 2⟩⟩ : ChiSquared ℝ) = 1 / 3
      ∧ Location.ChiSquared.medianWilsonHilferty 1 = 343 / 729 := by
  constructor
  · rw [chiSquared_median_large_pin _ (le_refl _)]
    unfold Location.ChiSquared.medianApproxLarge; norm_num
  · unfold Location.ChiSquared.medianWilsonHilferty; norm_num

/-- `2 ≤ k`: `k − 2 = max(k − 2, 0)` -/
theorem chiSquared_mode_pin (hs : d.f_g.f_shape = d.f_freedom / 2) (hr : d.f_g.f_rate = 1 / 2)
    (h : 2 ≤ d.f_freedom) : ChiSquared.mode d = some (Location.ChiSquared.mode d.f_freedom) := by
  unfold ChiSquared.mode Gamma.mode Location.ChiSquared.mode
  rw [hs, hr, if_neg (by norm_num; linarith), max_eq_left (by linarith)]
  norm_num; ring

/-- `k < 2` (shape `k/2 < 1`): `None` -/
theorem chiSquared_mode_none_pin (hs : d.f_g.f_shape = d.f_freedom / 2) (h : d.f_freedom < 2) :
    ChiSquared.mode d = none := by
  unfold ChiSquared.mode Gamma.mode
  rw [hs, if_pos (by norm_num; linarith)]

/-- χ²(1): textbook mode `max(k − 2, 0) = 0`, `mode()` is `None` -/
theorem chiSquared_mode_spec_counterexample :
    ChiSquared.mode (⟨1, ⟨1 / 2, 1 / 2⟩⟩ : ChiSquared ℝ) = none
      ∧ Location.ChiSquared.mode 1 = 0 := by
  constructor
  · exact chiSquared_mode_none_pin _ (by norm_num) (by norm_num)
  · unfold Location.ChiSquared.mode; norm_num

theorem chiSquared_min_pin : ChiSquared.min d = Location.ChiSquared.min := by
  unfold ChiSquared.min Location.ChiSquared.min; norm_num

/-- `max()` is the carrier's `+∞` (every carrier) -/
theorem chiSquared_max_pin {α : Type} [Add α] [Sub α] [Mul α] [Div α] [Neg α] [LT α] [LE α]
    [BEq α] [DecidableLT α] [DecidableLE α] [OfScientific α] [Inhabited α] [RFun α]
    (d : ChiSquared α) : Location.infEnd α Location.ChiSquared.max = some (ChiSquared.max d) :=
  infEnd_top α

example : ∃ d : ChiSquared ℝ, d.f_g.f_shape = d.f_freedom / 2 ∧ d.f_g.f_rate = 1 / 2 ∧
    0 < d.f_freedom ∧ d.f_freedom < 1 := ⟨⟨1 / 2, ⟨1 / 4, 1 / 2⟩⟩, by norm_num⟩
example : ∃ d : ChiSquared ℝ, d.f_g.f_shape = d.f_freedom / 2 ∧ d.f_g.f_rate = 1 / 2 ∧
    1 ≤ d.f_freedom ∧ 2 ≤ d.f_freedom := ⟨⟨3, ⟨3 / 2, 1 / 2⟩⟩, by norm_num⟩
end chiSquared

/-! ### Dirac(v) -/
section dirac
variable (d : Dirac ℝ)
theorem dirac_median_pin : Dirac.median d = Location.Dirac.median d.f_0 := rfl
theorem dirac_mode_pin : Dirac.mode d = some (Location.Dirac.mode d.f_0) := rfl
theorem dirac_min_pin : Dirac.min d = Location.Dirac.min d.f_0 := rfl
theorem dirac_max_pin : Dirac.max d = Location.Dirac.max d.f_0 := rfl
example : ∃ _ : Dirac ℝ, True := ⟨⟨3⟩, trivial⟩
end dirac

end Statrs.Props.C08
