/-
  C08 (location pins, part B) — DiscreteUniform, Erlang, Exp, FisherSnedecor, Gamma, Geometric,
  Gumbel.  Same conventions as part A (`LocationPinsA.lean`): every returned value of `median` /
  `mode` / `min` / `max` is pinned to the hand-written expression of `Statrs.Spec.Location`, each
  branch of a piecewise formula under its own guard, infinite ends through `Location.infEnd α` for
  every carrier `α`.

  Code values that are NOT the textbook location (pinned, with a `…_spec_counterexample`):
    * Gamma `mode()` is `None` for shape < 1 (textbook 0),
    * Geometric `median()` is `⌈−ln 2/ln(1 − p)⌉ = 0` at p = 1 (textbook 1, the point mass),
    * Geometric `max()` is `u64::MAX` for every p (textbook `+∞`, or 1 at p = 1); the doc comment
      says `2^63 − 1` (`geometric_max_doc_counterexample`).
  DiscreteUniform `mode()` is statrs' documented convention `⌊(a + b)/2⌋` (every point of the
  support is a mode: `discrete_uniform_mode_isMode`).
-/
import Statrs.Real.Simp
import Statrs.Spec.Location
import Statrs.Lemmas.LocationPins
import Statrs.Gen.D_discrete_uniform
import Statrs.Gen.D_erlang
import Statrs.Gen.D_exponential
import Statrs.Gen.D_fisher_snedecor
import Statrs.Gen.D_gamma
import Statrs.Gen.D_geometric
import Statrs.Gen.D_gumbel
import Mathlib.Tactic
set_option linter.unusedVariables false
set_option linter.unusedSectionVars false
namespace Statrs.Props.C08
open Statrs Statrs.Gen Statrs.Spec Statrs.Lemmas.LocationPins

variable {α : Type} [Add α] [Sub α] [Mul α] [Div α] [Neg α] [LT α] [LE α] [BEq α]
  [DecidableLT α] [DecidableLE α] [OfScientific α] [Inhabited α] [RFun α]

/-! ### DiscreteUniform(a, b) -/
section discreteUniform
variable (d : DiscreteUniform)

theorem discrete_uniform_median_pin :
    DiscreteUniform.median (α := ℝ) d = Location.DiscreteUniform.median d.f_min d.f_max := by
  unfold DiscreteUniform.median Location.DiscreteUniform.median
  rfun_norm; push_cast; norm_num

/-- `mode()` is the documented convention `⌊(a + b)/2⌋` -/
theorem discrete_uniform_mode_pin :
    DiscreteUniform.mode (α := ℝ) d
      = some (Location.DiscreteUniform.modeConvention d.f_min d.f_max) := by
  unfold DiscreteUniform.mode Location.DiscreteUniform.modeConvention
  rw [toI64_floor]; rfun_norm; push_cast; norm_num

/-- … which is one of the (equally likely) points of the support when `a ≤ b` -/
theorem discrete_uniform_mode_isMode (a b : ℤ) (h : a ≤ b) :
    Location.DiscreteUniform.IsMode a b (Location.DiscreteUniform.modeConvention a b) := by
  unfold Location.DiscreteUniform.IsMode Location.DiscreteUniform.modeConvention
  have hr : (a : ℝ) ≤ b := by exact_mod_cast h
  constructor
  · apply Int.le_floor.mpr; linarith
  · have h1 := Int.floor_le (((a : ℝ) + b) / 2)
    have : ((⌊((a : ℝ) + b) / 2⌋ : ℤ) : ℝ) ≤ b := by linarith
    exact_mod_cast this

/-- `min()` (every carrier) -/
theorem discrete_uniform_min_pin :
    DiscreteUniform.min (α := α) d = Location.DiscreteUniform.min d.f_min := rfl

/-- `max()` (every carrier) -/
theorem discrete_uniform_max_pin :
    DiscreteUniform.max (α := α) d = Location.DiscreteUniform.max d.f_max := rfl

example : ∃ d : DiscreteUniform, d.f_min ≤ d.f_max := ⟨⟨-3, 4⟩, by decide⟩
end discreteUniform

/-! ### Gamma(shape k, rate λ) -/
section gamma
variable (d : Gamma ℝ)

/-- `1 ≤ k`: `(k − 1)/λ` -/
theorem gamma_mode_pin (h : 1 ≤ d.f_shape) :
    Gamma.mode d = some (Location.Gamma.mode d.f_shape d.f_rate) := by
  unfold Gamma.mode Location.Gamma.mode
  rw [if_neg (by norm_num; exact h), if_pos h]; norm_num

/-- `k < 1`: `None` (cut-over at exactly 1, with `k = 1` on the `Some` side) -/
theorem gamma_mode_none_pin (h : d.f_shape < 1) : Gamma.mode d = none := by
  unfold Gamma.mode
  rw [if_pos (by norm_num; exact h)]

/-- Gamma(1/2, 1): textbook mode 0 (the density decreases from +∞), `mode()` is `None` -/
theorem gamma_mode_spec_counterexample :
    Gamma.mode (⟨1 / 2, 1⟩ : Gamma ℝ) = none ∧ Location.Gamma.mode (1 / 2) 1 = 0 := by
  constructor
  · exact gamma_mode_none_pin _ (by norm_num)
  · unfold Location.Gamma.mode; norm_num

theorem gamma_min_pin : Gamma.min d = Location.Gamma.min := by
  unfold Gamma.min Location.Gamma.min; norm_num

/-- `max()` is the carrier's `+∞` (every carrier) -/
theorem gamma_max_pin (d : Gamma α) :
    Location.infEnd α Location.Gamma.max = some (Gamma.max d) := infEnd_top α

example : ∃ d : Gamma ℝ, 0 < d.f_shape ∧ 0 < d.f_rate ∧ 1 ≤ d.f_shape := ⟨⟨1, 3⟩, by norm_num⟩
example : ∃ d : Gamma ℝ, 0 < d.f_shape ∧ 0 < d.f_rate ∧ d.f_shape < 1 := ⟨⟨1 / 2, 3⟩, by norm_num⟩
end gamma

/-! ### Erlang(k, λ): a wrapped Gamma(k, λ) -/
section erlang
variable (d : Erlang ℝ)

/-- `1 ≤ k` (always true for an Erlang built by `new` from an integer `k ≥ 1`): `(k − 1)/λ` -/
theorem erlang_mode_pin (h : 1 ≤ d.f_g.f_shape) :
    Erlang.mode d = some (Location.Erlang.mode d.f_g.f_shape d.f_g.f_rate) := by
  unfold Erlang.mode Gamma.mode Location.Erlang.mode
  rw [if_neg (by norm_num; exact h)]; norm_num

/-- the inherited `None` branch of Gamma (`k < 1`; unreachable through `Erlang::new`) -/
theorem erlang_mode_none_pin (h : d.f_g.f_shape < 1) : Erlang.mode d = none := by
  unfold Erlang.mode; exact gamma_mode_none_pin _ h

theorem erlang_min_pin : Erlang.min d = Location.Erlang.min := by
  unfold Erlang.min Gamma.min Location.Erlang.min; norm_num

/-- `max()` is the carrier's `+∞` (every carrier) -/
theorem erlang_max_pin (d : Erlang α) :
    Location.infEnd α Location.Erlang.max = some (Erlang.max d) := infEnd_top α

example : ∃ d : Erlang ℝ, 0 < d.f_g.f_rate ∧ 1 ≤ d.f_g.f_shape := ⟨⟨⟨2, 3⟩⟩, by norm_num⟩
end erlang

/-! ### Exp(rate λ) -/
section exponential
variable (d : Exp ℝ)

theorem exp_median_pin : Exp.median d = Location.Exp.median d.f_rate := by
  unfold Exp.median Location.Exp.median; rfun_norm

theorem exp_mode_pin : Exp.mode d = some Location.Exp.mode := by
  unfold Exp.mode Location.Exp.mode; norm_num

theorem exp_min_pin : Exp.min d = Location.Exp.min := by
  unfold Exp.min Location.Exp.min; norm_num

/-- `max()` is the carrier's `+∞` (every carrier) -/
theorem exp_max_pin (d : Exp α) : Location.infEnd α Location.Exp.max = some (Exp.max d) :=
  infEnd_top α

example : ∃ d : Exp ℝ, 0 < d.f_rate := ⟨⟨2⟩, by norm_num⟩
end exponential

/-! ### FisherSnedecor(d₁, d₂) -/
section fisherSnedecor
variable (d : FisherSnedecor ℝ)

/-- `2 < d₁`: `((d₁ − 2)/d₁)(d₂/(d₂ + 2))` -/
theorem fisher_snedecor_mode_pin (h : 2 < d.f_freedom_1) :
    FisherSnedecor.mode d = Location.FisherSnedecor.mode d.f_freedom_1 d.f_freedom_2 := by
  unfold FisherSnedecor.mode Location.FisherSnedecor.mode
  rw [if_neg (by norm_num; exact h), if_pos h, div_mul_div_comm, mul_comm (d.f_freedom_1 - 2)]
  norm_num

/-- `d₁ ≤ 2`: `None` (cut-over at exactly 2) -/
theorem fisher_snedecor_mode_none_pin (h : d.f_freedom_1 ≤ 2) :
    FisherSnedecor.mode d = Location.FisherSnedecor.mode d.f_freedom_1 d.f_freedom_2
      ∧ FisherSnedecor.mode d = none := by
  unfold FisherSnedecor.mode Location.FisherSnedecor.mode
  rw [if_pos (by norm_num; exact h), if_neg (not_lt.mpr h)]
  exact ⟨rfl, rfl⟩

theorem fisher_snedecor_min_pin : FisherSnedecor.min d = Location.FisherSnedecor.min := by
  unfold FisherSnedecor.min Location.FisherSnedecor.min; norm_num

/-- `max()` is the carrier's `+∞` (every carrier) -/
theorem fisher_snedecor_max_pin (d : FisherSnedecor α) :
    Location.infEnd α Location.FisherSnedecor.max = some (FisherSnedecor.max d) := infEnd_top α

example : ∃ d : FisherSnedecor ℝ, 0 < d.f_freedom_2 ∧ 2 < d.f_freedom_1 := ⟨⟨3, 5⟩, by norm_num⟩
example : ∃ d : FisherSnedecor ℝ, 0 < d.f_freedom_1 ∧ 0 < d.f_freedom_2 ∧ d.f_freedom_1 ≤ 2 :=
  ⟨⟨2, 5⟩, by norm_num⟩
end fisherSnedecor

/-! ### Geometric(p) on {1, 2, …} -/
section geometric
variable (d : Geometric ℝ)

/-- `median()` is the closed form `⌈−1/log₂(1 − p)⌉` (for every p) -/
theorem geometric_median_formula_pin :
    Geometric.median d = ((Location.Geometric.medianFormula d.f_p : ℤ) : ℝ) := by
  unfold Geometric.median Location.Geometric.medianFormula
  rfun_norm
  simp only [Real.logb]
  rw [neg_div, neg_div, one_div_div]
  norm_num

/-- … which is the textbook median unless `p = 1` -/
theorem geometric_median_pin (h : d.f_p ≠ 1) :
    Geometric.median d = ((Location.Geometric.median d.f_p : ℤ) : ℝ) := by
  rw [geometric_median_formula_pin]; unfold Location.Geometric.median; rw [if_neg h]

/-- Geometric(1) is the point mass at 1; `median()` is 0, below `min() = 1` -/
theorem geometric_median_spec_counterexample :
    Geometric.median (⟨1⟩ : Geometric ℝ) = 0 ∧ Location.Geometric.median 1 = 1
      ∧ Geometric.median (⟨1⟩ : Geometric ℝ) < ((Geometric.min (⟨1⟩ : Geometric ℝ) : ℤ) : ℝ) := by
  have h : Geometric.median (⟨1⟩ : Geometric ℝ) = 0 := by
    unfold Geometric.median; rfun_norm; norm_num
  refine ⟨h, by unfold Location.Geometric.median; norm_num, ?_⟩
  rw [h]; unfold Geometric.min; norm_num

/-- `mode()` (every carrier) -/
theorem geometric_mode_pin (d : Geometric α) : Geometric.mode d = some Location.Geometric.mode :=
  rfl

/-- `min()` (every carrier) -/
theorem geometric_min_pin (d : Geometric α) : Geometric.min d = Location.Geometric.min := rfl

/-- `max()` returns `u64::MAX = 2⁶⁴ − 1` (every carrier) -/
theorem geometric_max_code_pin (d : Geometric α) : Geometric.max d = Location.u64Max := by
  unfold Geometric.max Statrs.u64Max Location.u64Max; norm_num

/-- … which is never the textbook maximum (`+∞`, or 1 for `p = 1`) -/
theorem geometric_max_spec_counterexample :
    (((Geometric.max d : ℤ) : ℝ) : EReal) ≠ Location.Geometric.max d.f_p := by
  rw [geometric_max_code_pin]; unfold Location.Geometric.max Location.u64Max
  split_ifs with h
  · intro e
    have : (((2 ^ 64 - 1 : ℤ) : ℝ) : EReal) = ((1 : ℝ) : EReal) := by rw [e]; rfl
    have := EReal.coe_eq_coe_iff.mp this
    norm_num at this
  · exact EReal.coe_ne_top _

/-- … and not the `2^63 − 1` of the doc comment either (every carrier) -/
theorem geometric_max_doc_counterexample (d : Geometric α) :
    Geometric.max d ≠ Location.Geometric.maxDocumented := by
  rw [geometric_max_code_pin]; unfold Location.u64Max Location.Geometric.maxDocumented; norm_num

example : ∃ d : Geometric ℝ, 0 < d.f_p ∧ d.f_p ≤ 1 ∧ d.f_p ≠ 1 := ⟨⟨1 / 3⟩, by norm_num⟩
end geometric

/-! ### Gumbel(μ, β) -/
section gumbel
variable (d : Gumbel ℝ)

theorem gumbel_median_pin : Gumbel.median d = Location.Gumbel.median d.f_location d.f_scale := by
  unfold Gumbel.median Location.Gumbel.median; rfun_norm; norm_num

theorem gumbel_mode_pin : Gumbel.mode d = Location.Gumbel.mode d.f_location := rfl

/-- `min()` is the carrier's `−∞` (every carrier) -/
theorem gumbel_min_pin (d : Gumbel α) :
    Location.infEnd α Location.Gumbel.min = some (Gumbel.min d) := infEnd_bot α

/-- `max()` is the carrier's `+∞` (every carrier) -/
theorem gumbel_max_pin (d : Gumbel α) :
    Location.infEnd α Location.Gumbel.max = some (Gumbel.max d) := infEnd_top α

example : ∃ d : Gumbel ℝ, 0 < d.f_scale := ⟨⟨0, 1⟩, by norm_num⟩
end gumbel

end Statrs.Props.C08
