/-
  C08 (location pins, part C) — Hypergeometric, InverseGamma, Laplace, Levy, LogNormal,
  NegativeBinomial, Normal.  Same conventions as part A (`LocationPinsA.lean`): every returned
  value of `median` / `mode` / `min` / `max` is pinned to the hand-written expression of
  `Statrs.Spec.Location`, each branch of a piecewise formula under its own guard, infinite ends
  through `Location.infEnd α` for every carrier `α`.

  Code values that are NOT the textbook location (pinned, with a `…_spec_counterexample`):
    * NegativeBinomial `max()` is `u64::MAX` for every p (textbook `+∞`, or 0 at p = 1).
  `Levy.median` uses the abstract `SF.erfc_inv` on both sides (no premise).
-/
import Statrs.Real.Simp
import Statrs.Spec.Location
import Statrs.Lemmas.LocationPins
import Statrs.Gen.D_hypergeometric
import Statrs.Gen.D_inverse_gamma
import Statrs.Gen.D_laplace
import Statrs.Gen.D_levy
import Statrs.Gen.D_log_normal
import Statrs.Gen.D_negative_binomial
import Statrs.Gen.D_normal
import Mathlib.Tactic
set_option linter.unusedVariables false
set_option linter.unusedSectionVars false
namespace Statrs.Props.C08
open Statrs Statrs.Gen Statrs.Spec Statrs.Lemmas.LocationPins

variable {α : Type} [Add α] [Sub α] [Mul α] [Div α] [Neg α] [LT α] [LE α] [BEq α]
  [DecidableLT α] [DecidableLE α] [OfScientific α] [Inhabited α] [RFun α]

/-! ### Hypergeometric(N, K, n) — integer arithmetic only, every carrier -/
section hypergeometric
variable (d : Hypergeometric)

/-- `⌊(n + 1)(K + 1)/(N + 2)⌋` (`0 ≤ N`: the divisor is positive) -/
theorem hypergeometric_mode_pin (h : 0 ≤ d.f_population) :
    Hypergeometric.mode (α := α) d
      = some (Location.Hypergeometric.mode d.f_population d.f_successes d.f_draws) := by
  unfold Hypergeometric.mode Location.Hypergeometric.mode udiv
  rw [if_neg (by omega)]
  have h1 : ((d.f_draws : ℝ) + 1) * ((d.f_successes : ℝ) + 1)
      = (((d.f_draws + 1) * (d.f_successes + 1) : ℤ) : ℝ) := by push_cast; ring
  have h2 : (d.f_population : ℝ) + 2 = ((d.f_population + 2 : ℤ) : ℝ) := by push_cast; ring
  rw [h1, h2, Int.floor_div_cast_of_nonneg (by omega), Int.floor_intCast]

/-- `max(0, n + K − N)` -/
theorem hypergeometric_min_pin :
    Hypergeometric.min (α := α) d
      = Location.Hypergeometric.min d.f_population d.f_successes d.f_draws := by
  unfold Hypergeometric.min Location.Hypergeometric.min usatSub
  split_ifs with h
  · rw [max_eq_left (by omega)]
  · rw [max_eq_right (by omega)]

/-- `min(K, n)` -/
theorem hypergeometric_max_pin :
    Hypergeometric.max (α := α) d = Location.Hypergeometric.max d.f_successes d.f_draws := rfl

example : ∃ d : Hypergeometric, 0 ≤ d.f_population ∧ d.f_successes ≤ d.f_population ∧
    d.f_draws ≤ d.f_population := ⟨⟨10, 4, 7⟩, by decide⟩
end hypergeometric

/-! ### InverseGamma(α, β) -/
section inverseGamma
variable (d : InverseGamma ℝ)

theorem inverse_gamma_mode_pin :
    InverseGamma.mode d = some (Location.InverseGamma.mode d.f_shape d.f_rate) := by
  unfold InverseGamma.mode Location.InverseGamma.mode; norm_num

theorem inverse_gamma_min_pin : InverseGamma.min d = Location.InverseGamma.min := by
  unfold InverseGamma.min Location.InverseGamma.min; norm_num

/-- `max()` is the carrier's `+∞` (every carrier) -/
theorem inverse_gamma_max_pin (d : InverseGamma α) :
    Location.infEnd α Location.InverseGamma.max = some (InverseGamma.max d) := infEnd_top α

example : ∃ d : InverseGamma ℝ, 0 < d.f_shape ∧ 0 < d.f_rate := ⟨⟨2, 3⟩, by norm_num⟩
end inverseGamma

/-! ### Laplace(μ, b) -/
section laplace
variable (d : Laplace ℝ)
theorem laplace_median_pin : Laplace.median d = Location.Laplace.median d.f_location := rfl
theorem laplace_mode_pin : Laplace.mode d = some (Location.Laplace.mode d.f_location) := rfl
/-- `min()` is the carrier's `−∞` (every carrier) -/
theorem laplace_min_pin (d : Laplace α) :
    Location.infEnd α Location.Laplace.min = some (Laplace.min d) := infEnd_bot α
/-- `max()` is the carrier's `+∞` (every carrier) -/
theorem laplace_max_pin (d : Laplace α) :
    Location.infEnd α Location.Laplace.max = some (Laplace.max d) := infEnd_top α
example : ∃ d : Laplace ℝ, 0 < d.f_scale := ⟨⟨0, 1⟩, by norm_num⟩
end laplace

/-! ### Levy(μ, c) -/
section levy
variable (d : Levy ℝ)

/-- `μ + c/(2 (erfc⁻¹(1/2))²)`, `erfc⁻¹` the abstract `SF.erfc_inv` -/
theorem levy_median_pin [SF ℝ] : Levy.median d = Location.Levy.median d.f_mu d.f_c := by
  unfold Levy.median Location.Levy.median
  rfun_norm
  have h2 : (-(2.0 : ℝ)) = ((-2 : ℤ) : ℝ) := by norm_num
  have h5 : (0.5 : ℝ) = 1 / 2 := by norm_num
  rw [h2, Real.rpow_intCast, h5, zpow_neg]
  generalize (SF.erfc_inv (1 / 2 : ℝ) : ℝ) = e
  rw [show e ^ (2 : ℤ) = e ^ 2 by norm_cast]
  rw [show d.f_c / (2 * e ^ 2) = d.f_c * (2⁻¹ * (e ^ 2)⁻¹) by rw [div_eq_mul_inv, mul_inv]]
  ring

theorem levy_mode_pin : Levy.mode d = some (Location.Levy.mode d.f_mu d.f_c) := by
  unfold Levy.mode Location.Levy.mode; norm_num

theorem levy_min_pin : Levy.min d = Location.Levy.min d.f_mu := rfl

/-- `max()` is the carrier's `+∞` (every carrier) -/
theorem levy_max_pin (d : Levy α) : Location.infEnd α Location.Levy.max = some (Levy.max d) :=
  infEnd_top α

example : ∃ d : Levy ℝ, 0 < d.f_c := ⟨⟨0, 1⟩, by norm_num⟩
end levy

/-! ### LogNormal(μ, σ) -/
section logNormal
variable (d : LogNormal ℝ)

theorem log_normal_median_pin : LogNormal.median d = Location.LogNormal.median d.f_location := rfl

theorem log_normal_mode_pin :
    LogNormal.mode d = some (Location.LogNormal.mode d.f_location d.f_scale) := by
  unfold LogNormal.mode Location.LogNormal.mode; rfun_norm; rw [sq]

theorem log_normal_min_pin : LogNormal.min d = Location.LogNormal.min := by
  unfold LogNormal.min Location.LogNormal.min; norm_num

/-- `max()` is the carrier's `+∞` (every carrier) -/
theorem log_normal_max_pin (d : LogNormal α) :
    Location.infEnd α Location.LogNormal.max = some (LogNormal.max d) := infEnd_top α

example : ∃ d : LogNormal ℝ, 0 < d.f_scale := ⟨⟨0, 1⟩, by norm_num⟩
end logNormal

/-! ### NegativeBinomial(r, p) -/
section negativeBinomial
variable (d : NegativeBinomial ℝ)

/-- `1 < r`: `⌊(r − 1)(1 − p)/p⌋` -/
theorem negative_binomial_mode_pin (h : 1 < d.f_r) :
    NegativeBinomial.mode d = some ((Location.NegativeBinomial.mode d.f_r d.f_p : ℤ) : ℝ) := by
  unfold NegativeBinomial.mode Location.NegativeBinomial.mode
  rw [if_pos (by norm_num; exact h), if_pos h]; rfun_norm; norm_num

/-- `r ≤ 1`: 0 (cut-over at exactly 1) -/
theorem negative_binomial_mode_small_pin (h : d.f_r ≤ 1) :
    NegativeBinomial.mode d = some ((Location.NegativeBinomial.mode d.f_r d.f_p : ℤ) : ℝ)
      ∧ NegativeBinomial.mode d = some 0 := by
  unfold NegativeBinomial.mode Location.NegativeBinomial.mode
  rw [if_neg (by norm_num; exact h), if_neg (not_lt.mpr h)]; norm_num

/-- `min()` (every carrier) -/
theorem negative_binomial_min_pin (d : NegativeBinomial α) :
    NegativeBinomial.min d = Location.NegativeBinomial.min := rfl

/-- `max()` returns `u64::MAX = 2⁶⁴ − 1` (every carrier) -/
theorem negative_binomial_max_code_pin (d : NegativeBinomial α) :
    NegativeBinomial.max d = Location.u64Max := by
  unfold NegativeBinomial.max Statrs.u64Max Location.u64Max; norm_num

/-- … which is never the textbook maximum (`+∞`, or 0 for the point mass `p = 1`) -/
theorem negative_binomial_max_spec_counterexample :
    (((NegativeBinomial.max d : ℤ) : ℝ) : EReal) ≠ Location.NegativeBinomial.max d.f_p := by
  rw [negative_binomial_max_code_pin]; unfold Location.NegativeBinomial.max Location.u64Max
  split_ifs with h
  · intro e
    have : (((2 ^ 64 - 1 : ℤ) : ℝ) : EReal) = ((0 : ℝ) : EReal) := by rw [e]; rfl
    have := EReal.coe_eq_coe_iff.mp this
    norm_num at this
  · exact EReal.coe_ne_top _

example : ∃ d : NegativeBinomial ℝ, 0 ≤ d.f_p ∧ d.f_p ≤ 1 ∧ 1 < d.f_r := ⟨⟨3, 1 / 3⟩, by norm_num⟩
example : ∃ d : NegativeBinomial ℝ, 0 ≤ d.f_p ∧ d.f_p ≤ 1 ∧ 0 ≤ d.f_r ∧ d.f_r ≤ 1 :=
  ⟨⟨1, 1 / 3⟩, by norm_num⟩
end negativeBinomial

/-! ### Normal(μ, σ) -/
section normal
variable (d : Normal ℝ)
theorem normal_median_pin : Normal.median d = Location.Normal.median d.f_mean := rfl
theorem normal_mode_pin : Normal.mode d = some (Location.Normal.mode d.f_mean) := rfl
/-- `min()` is the carrier's `−∞` (every carrier) -/
theorem normal_min_pin (d : Normal α) :
    Location.infEnd α Location.Normal.min = some (Normal.min d) := infEnd_bot α
/-- `max()` is the carrier's `+∞` (every carrier) -/
theorem normal_max_pin (d : Normal α) :
    Location.infEnd α Location.Normal.max = some (Normal.max d) := infEnd_top α
example : ∃ d : Normal ℝ, 0 < d.f_std_dev := ⟨⟨0, 1⟩, by norm_num⟩
end normal

end Statrs.Props.C08
