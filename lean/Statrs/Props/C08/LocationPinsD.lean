/-
  C08 (location pins, part D) — Pareto, Poisson, StudentsT, Triangular, Uniform, Weibull,
  Categorical.  Same conventions as part A (`LocationPinsA.lean`): every returned value of
  `median` / `mode` / `min` / `max` is pinned to the hand-written expression of
  `Statrs.Spec.Location`, each branch of a piecewise formula under its own guard, infinite ends
  through `Location.infEnd α` for every carrier `α`.

  Code values that are NOT the textbook location (pinned, with a `…_spec_counterexample`):
    * Poisson `max()` is `u64::MAX` (textbook `+∞`; doc comment `2^63 − 1`),
    * Categorical `min() = 0` / `max() = K − 1` are not tight when the first / last category has
      zero mass.
  Categorical `median()` (a lower-bound binary search for `0.5·total` in the cumulative table) is
  the spec median `min {k : F(k) ≥ 1/2}` for EVERY non-decreasing table, repeated entries
  (zero-mass categories) included (`categorical_median_pin`; every table built by
  `Categorical::new` is of that kind: `categorical_median_pin_new`).  Before `binary_index` became
  a lower-bound search it returned the zero-mass index 1 on the table (1, 1, 1, 2); it now returns
  0 (`categorical_median_repeated_entry`).
  Poisson `median()` is the documented approximation `max(0, ⌊λ + 1/3 − 0.02/λ⌋)`: never below
  `min() = 0` (`poisson_median_nonneg`), and a true median (0) for `0 < λ ≤ ln 2`
  (`poisson_median_small_is_median`).
  Weibull `mode()` is the textbook mode for every shape (`weibull_mode_pin`, no hypothesis): since the
  source fix the guard is `k < 1 || ulps_eq!(k, 1)`, so `k < 1` returns 0 (it used to evaluate
  `λ((k−1)/k)^{1/k}` on a negative base: NaN in `f64`).
  Uniform `mode()` is statrs' documented convention `(a + b)/2` (every point of the support is a
  mode: `uniform_mode_isMode`).
-/
import Statrs.Real.Simp
import Statrs.Spec.Location
import Statrs.Lemmas.LocationPins
import Statrs.Lemmas.CategoricalSearch
import Statrs.Gen.D_pareto
import Statrs.Gen.D_poisson
import Statrs.Gen.D_students_t
import Statrs.Gen.D_triangular
import Statrs.Gen.D_uniform
import Statrs.Gen.D_weibull
import Statrs.Gen.D_categorical
import Mathlib.Tactic
set_option linter.unusedVariables false
set_option linter.unusedSectionVars false
namespace Statrs.Props.C08
open Statrs Statrs.Gen Statrs.Spec Statrs.Lemmas.LocationPins Statrs.Lemmas.CategoricalSearch

variable {α : Type} [Add α] [Sub α] [Mul α] [Div α] [Neg α] [LT α] [LE α] [BEq α]
  [DecidableLT α] [DecidableLE α] [OfScientific α] [Inhabited α] [RFun α]

/-! ### Pareto(x_m, α) -/
section pareto
variable (d : Pareto ℝ)

theorem pareto_median_pin : Pareto.median d = Location.Pareto.median d.f_scale d.f_shape := by
  unfold Pareto.median Location.Pareto.median; rfun_norm; norm_num

theorem pareto_mode_pin : Pareto.mode d = some (Location.Pareto.mode d.f_scale) := rfl

theorem pareto_min_pin : Pareto.min d = Location.Pareto.min d.f_scale := rfl

/-- `max()` is the carrier's `+∞` (every carrier) -/
theorem pareto_max_pin (d : Pareto α) :
    Location.infEnd α Location.Pareto.max = some (Pareto.max d) := infEnd_top α

example : ∃ d : Pareto ℝ, 0 < d.f_scale ∧ 0 < d.f_shape := ⟨⟨1, 3⟩, by norm_num⟩
end pareto

/-! ### Poisson(λ) -/
section poisson
variable (d : Poisson ℝ)

/-- `median()` is the documented approximation `max(0, ⌊λ + 1/3 − 0.02/λ⌋)` (for every λ) -/
theorem poisson_median_pin :
    Poisson.median d = ((Location.Poisson.medianApprox d.f_lambda : ℤ) : ℝ) := by
  unfold Poisson.median Location.Poisson.medianApprox
  rfun_norm
  have : d.f_lambda + (1.0 : ℝ) / (3.0 : ℝ) - (0.02 : ℝ) / d.f_lambda
      = d.f_lambda + 1 / 3 - 1 / (50 * d.f_lambda) := by norm_num; ring
  rw [this]
  have h0 : (0.0 : ℝ) = ((0 : ℤ) : ℝ) := by norm_num
  rw [h0, ← Int.cast_max, max_comm]

/-- `median()` never falls below the support: `median() ≥ 0 = min()` (for every λ; in
    particular under the constructor's `0 < λ`).  Before the clamp `median()` was `−1` at
    λ = 1/20. -/
theorem poisson_median_nonneg :
    0 ≤ Poisson.median d ∧ ((Poisson.min d : ℤ) : ℝ) ≤ Poisson.median d := by
  have h : (0 : ℝ) ≤ Poisson.median d := by
    rw [poisson_median_pin]; unfold Location.Poisson.medianApprox
    exact_mod_cast le_max_left _ _
  refine ⟨h, ?_⟩
  unfold Poisson.min; simpa using h

/-- small rates, `0 < λ ≤ ln 2`: `median()` is 0, and 0 IS a median of Poisson(λ)
    (`P(X ≤ 0) = e^{−λ} ≥ 1/2`, `P(X < 0) = 0`) -/
theorem poisson_median_small_is_median (h0 : 0 < d.f_lambda) (h1 : d.f_lambda ≤ Real.log 2) :
    Poisson.median d = 0 ∧ Location.Poisson.IsMedian d.f_lambda 0 := by
  constructor
  · rw [poisson_median_pin]; unfold Location.Poisson.medianApprox
    have hl : d.f_lambda < 0.6931471808 := lt_of_le_of_lt h1 Real.log_two_lt_d9
    have hfl : ⌊d.f_lambda + 1 / 3 - 1 / (50 * d.f_lambda)⌋ ≤ 0 := by
      have : ⌊d.f_lambda + 1 / 3 - 1 / (50 * d.f_lambda)⌋ < 1 := by
        rw [Int.floor_lt]
        have hpos : 0 < 50 * d.f_lambda := by linarith
        have key : d.f_lambda + 1 / 3 - 1 < 1 / (50 * d.f_lambda) := by
          rw [lt_div_iff₀ hpos]
          nlinarith
        push_cast; linarith
      omega
    rw [max_eq_left hfl]; norm_num
  · unfold Location.Poisson.IsMedian Location.Poisson.pmf
    have he : (1 / 2 : ℝ) ≤ Real.exp (-d.f_lambda) := by
      have : Real.exp (-Real.log 2) ≤ Real.exp (-d.f_lambda) := Real.exp_le_exp.2 (by linarith)
      rwa [Real.exp_neg, Real.exp_log (by norm_num : (0 : ℝ) < 2), ← one_div] at this
    simpa using he

/-- the old defect point λ = 1/20: `median()` is now 0, a median -/
example : Poisson.median (⟨1 / 20⟩ : Poisson ℝ) = 0 ∧ Location.Poisson.IsMedian (1 / 20) 0 :=
  poisson_median_small_is_median ⟨1 / 20⟩ (by norm_num)
    (by
      have := Real.log_two_gt_d9
      show (1 / 20 : ℝ) ≤ Real.log 2
      linarith)

/-- `mode()`: `⌊λ⌋` (`0 ≤ λ`: the `as u64` cast does not saturate) -/
theorem poisson_mode_pin (h : 0 ≤ d.f_lambda) :
    Poisson.mode d = some (Location.Poisson.mode d.f_lambda) := by
  unfold Poisson.mode Location.Poisson.mode
  rw [toU64_floor, max_eq_right (Int.floor_nonneg.mpr h)]

/-- `min()` (every carrier) -/
theorem poisson_min_pin (d : Poisson α) : Poisson.min d = Location.Poisson.min := rfl

/-- `max()` returns `u64::MAX = 2⁶⁴ − 1` (every carrier) -/
theorem poisson_max_code_pin (d : Poisson α) : Poisson.max d = Location.u64Max := by
  unfold Poisson.max Statrs.u64Max Location.u64Max; norm_num

/-- … which is not the textbook maximum `+∞` -/
theorem poisson_max_spec_counterexample :
    (((Poisson.max d : ℤ) : ℝ) : EReal) ≠ Location.Poisson.max := EReal.coe_ne_top _

/-- … and not the `2^63 − 1` of the doc comment either (every carrier) -/
theorem poisson_max_doc_counterexample (d : Poisson α) :
    Poisson.max d ≠ Location.Poisson.maxDocumented := by
  rw [poisson_max_code_pin]; unfold Location.u64Max Location.Poisson.maxDocumented; norm_num

example : ∃ d : Poisson ℝ, 0 < d.f_lambda ∧ 0 ≤ d.f_lambda := ⟨⟨3⟩, by norm_num⟩
end poisson

/-! ### StudentsT(μ, σ, ν) -/
section studentsT
variable (d : StudentsT ℝ)
theorem students_t_median_pin : StudentsT.median d = Location.StudentsT.median d.f_location := rfl
theorem students_t_mode_pin : StudentsT.mode d = some (Location.StudentsT.mode d.f_location) := rfl
/-- `min()` is the carrier's `−∞` (every carrier) -/
theorem students_t_min_pin (d : StudentsT α) :
    Location.infEnd α Location.StudentsT.min = some (StudentsT.min d) := infEnd_bot α
/-- `max()` is the carrier's `+∞` (every carrier) -/
theorem students_t_max_pin (d : StudentsT α) :
    Location.infEnd α Location.StudentsT.max = some (StudentsT.max d) := infEnd_top α
example : ∃ d : StudentsT ℝ, 0 < d.f_scale ∧ 0 < d.f_freedom := ⟨⟨0, 1, 3⟩, by norm_num⟩
end studentsT

/-! ### Triangular(a, b, c) -/
section triangular
variable (d : Triangular ℝ)

/-- `(a + b)/2 ≤ c`: `a + √((b − a)(c − a)/2)` -/
theorem triangular_median_right_pin (h : (d.f_min + d.f_max) / 2 ≤ d.f_mode) :
    Triangular.median d
      = d.f_min + Real.sqrt ((d.f_max - d.f_min) * (d.f_mode - d.f_min) / 2) := by
  unfold Triangular.median
  simp only
  rw [if_pos (by norm_num; exact h)]; rfun_norm; norm_num

/-- `c < (a + b)/2`: `b − √((b − a)(b − c)/2)` -/
theorem triangular_median_left_pin (h : d.f_mode < (d.f_min + d.f_max) / 2) :
    Triangular.median d
      = d.f_max - Real.sqrt ((d.f_max - d.f_min) * (d.f_max - d.f_mode) / 2) := by
  unfold Triangular.median
  simp only
  rw [if_neg (by norm_num; exact h)]; rfun_norm; norm_num

/-- both branches with the cut-over at exactly `c = (a + b)/2` (on the `a + √…` side) -/
theorem triangular_median_pin :
    Triangular.median d = Location.Triangular.median d.f_min d.f_max d.f_mode := by
  unfold Location.Triangular.median
  split_ifs with h
  · exact triangular_median_right_pin d h
  · exact triangular_median_left_pin d (not_le.mp h)

theorem triangular_mode_pin : Triangular.mode d = some (Location.Triangular.mode d.f_mode) := rfl
theorem triangular_min_pin : Triangular.min d = Location.Triangular.min d.f_min := rfl
theorem triangular_max_pin : Triangular.max d = Location.Triangular.max d.f_max := rfl

example : ∃ d : Triangular ℝ, d.f_min < d.f_max ∧ d.f_min ≤ d.f_mode ∧ d.f_mode ≤ d.f_max ∧
    (d.f_min + d.f_max) / 2 ≤ d.f_mode := ⟨⟨0, 2, 1⟩, by norm_num⟩
example : ∃ d : Triangular ℝ, d.f_min < d.f_max ∧ d.f_min ≤ d.f_mode ∧ d.f_mode ≤ d.f_max ∧
    d.f_mode < (d.f_min + d.f_max) / 2 := ⟨⟨0, 2, 1 / 2⟩, by norm_num⟩
end triangular

/-! ### Uniform(a, b) -/
section uniform
variable (d : Uniform ℝ)

theorem uniform_median_pin : Uniform.median d = Location.Uniform.median d.f_min d.f_max := by
  unfold Uniform.median Location.Uniform.median; norm_num

/-- `mode()` is the documented convention `(a + b)/2` -/
theorem uniform_mode_pin :
    Uniform.mode d = some (Location.Uniform.modeConvention d.f_min d.f_max) := by
  unfold Uniform.mode Location.Uniform.modeConvention; norm_num

/-- … which is one of the (equally dense) points of the support when `a ≤ b` -/
theorem uniform_mode_isMode (a b : ℝ) (h : a ≤ b) :
    Location.Uniform.IsMode a b (Location.Uniform.modeConvention a b) := by
  unfold Location.Uniform.IsMode Location.Uniform.modeConvention
  constructor <;> linarith

theorem uniform_min_pin : Uniform.min d = Location.Uniform.min d.f_min := rfl
theorem uniform_max_pin : Uniform.max d = Location.Uniform.max d.f_max := rfl

example : ∃ d : Uniform ℝ, d.f_min < d.f_max := ⟨⟨0, 2⟩, by norm_num⟩
end uniform

/-! ### Weibull(k, λ) -/
section weibull
variable (d : Weibull ℝ)

theorem weibull_median_pin : Weibull.median d = Location.Weibull.median d.f_shape d.f_scale := by
  unfold Weibull.median Location.Weibull.median; rfun_norm; norm_num

/-- branch `ulps_eq!(k, 1.0)`: 0 -/
theorem weibull_mode_one_pin (h : d.f_shape = 1) :
    Weibull.mode d = some (Location.Weibull.mode d.f_shape d.f_scale) ∧ Weibull.mode d = some 0 := by
  unfold Weibull.mode Location.Weibull.mode
  rfun_norm
  rw [h]; norm_num

/-- guard `k < 1.0 || ulps_eq!(k, 1.0)` (after the source fix): for every `k ≤ 1` `mode()` is `0`,
    the textbook mode (the density decreases from its pole / finite maximum at 0).  Before the fix
    only `k = 1` took this branch and `k < 1` evaluated the closed form on a negative base. -/
theorem weibull_mode_le_one_pin (h : d.f_shape ≤ 1) :
    Weibull.mode d = some (Location.Weibull.mode d.f_shape d.f_scale) ∧ Weibull.mode d = some 0 := by
  unfold Weibull.mode Location.Weibull.mode
  rfun_norm
  have hg : d.f_shape < (1.0 : ℝ) ∨ d.f_shape = (1.0 : ℝ) := by
    norm_num; exact lt_or_eq_of_le h
  have hn : ¬ 1 < d.f_shape := not_lt.mpr h
  simp only [decide_eq_true_eq, if_pos hg, if_neg hn]
  norm_num

/-- `k < 1` in particular -/
theorem weibull_mode_lt_one_pin (h : d.f_shape < 1) : Weibull.mode d = some 0 :=
  (weibull_mode_le_one_pin d h.le).2

/-- else-branch (`1 < k`): the formula `λ((k − 1)/k)^{1/k}` is evaluated (on a positive base) -/
theorem weibull_mode_code_pin (h : 1 < d.f_shape) :
    Weibull.mode d = some (Location.Weibull.modeFormula d.f_shape d.f_scale) := by
  unfold Weibull.mode Location.Weibull.modeFormula
  rfun_norm
  have : ¬ (d.f_shape < (1.0 : ℝ) ∨ d.f_shape = (1.0 : ℝ)) := by
    norm_num; exact ⟨h.le, h.ne'⟩
  simp only [decide_eq_true_eq, if_neg this]
  norm_num

/-- `mode()` is the textbook mode for EVERY shape (`λ((k − 1)/k)^{1/k}` for `1 < k`, `0` for
    `k ≤ 1`); no hypothesis on the parameters is needed. -/
theorem weibull_mode_pin :
    Weibull.mode d = some (Location.Weibull.mode d.f_shape d.f_scale) := by
  rcases lt_or_ge 1 d.f_shape with h | h
  · rw [weibull_mode_code_pin d h]; unfold Location.Weibull.mode; rw [if_pos h]
  · exact (weibull_mode_le_one_pin d h).1

/-- The formerly defective witness Weibull(1/2, 1): the density is decreasing, textbook mode 0, and
    `mode()` is now `0` (it was `((−1/2)/(1/2))^2 = 1` over ℝ, NaN in `f64`). -/
theorem weibull_mode_half_instance :
    Weibull.mode (⟨1 / 2, 1, 1⟩ : Weibull ℝ) = some 0 ∧ Location.Weibull.mode (1 / 2) 1 = 0 := by
  constructor
  · exact weibull_mode_lt_one_pin _ (by norm_num)
  · unfold Location.Weibull.mode; norm_num

/-- the new guard on every carrier (in particular IEEE `Float`): `shape < 1.0` alone gives `0.0` -/
theorem weibull_mode_lt_one_generic (d : Weibull α) (h : d.f_shape < (1.0 : α)) :
    Weibull.mode d = some (0.0 : α) := by
  unfold Weibull.mode; simp [h]

theorem weibull_min_pin : Weibull.min d = Location.Weibull.min := by
  unfold Weibull.min Location.Weibull.min; norm_num

/-- `max()` is the carrier's `+∞` (every carrier) -/
theorem weibull_max_pin (d : Weibull α) :
    Location.infEnd α Location.Weibull.max = some (Weibull.max d) := infEnd_top α

example : ∃ d : Weibull ℝ, 0 < d.f_scale ∧ 1 < d.f_shape := ⟨⟨2, 1, 1⟩, by norm_num⟩
example : ∃ d : Weibull ℝ, 0 < d.f_scale ∧ d.f_shape = 1 := ⟨⟨1, 1, 1⟩, by norm_num⟩
example : ∃ d : Weibull ℝ, 0 < d.f_scale ∧ 0 < d.f_shape ∧ d.f_shape < 1 :=
  ⟨⟨1 / 2, 1, 1⟩, by norm_num⟩
end weibull

/-! ### Categorical — `f_cdf` is the cumulative table of the (unnormalised) weights -/
section categorical
variable (d : Categorical ℝ)

/-- `median()` is the binary search for `0.5 · (last entry)` in the cumulative table -/
theorem categorical_median_search_pin (hne : d.f_cdf ≠ []) :
    Categorical.median d
      = ((D.categorical.binary_index d.f_cdf (1 / 2 * Location.Categorical.total d.f_cdf) : ℤ) : ℝ) := by
  unfold Categorical.median Categorical.inverse_cdf Categorical.cdf_max Location.Categorical.total
  rfun_norm
  rw [if_neg (by norm_num)]
  have : unwrapO d.f_cdf.getLast? = d.f_cdf.getLast?.getD 0 := by
    rw [List.getLast?_eq_some_getLast hne]; rfl
  simp only [this]
  norm_num

/-- every NON-DECREASING table (weights `≥ 0`, zero-mass categories = repeated entries allowed,
    length `≤ isize::MAX`): `median() = F⁻¹(1/2) = min {k : F(k) ≥ 1/2}` -/
theorem categorical_median_pin (hne : d.f_cdf ≠ []) (hs : d.f_cdf.Pairwise (· ≤ ·))
    (hn : (d.f_cdf.length : ℤ) ≤ i64Max) :
    Categorical.median d = ((Location.Categorical.median d.f_cdf : ℕ) : ℝ) := by
  rw [categorical_median_search_pin d hne, binary_index_spec _ _ hs hn]
  unfold Location.Categorical.median
  norm_num

/-- rel(hand transcription `Model.Categorical.new`): the monotonicity hypothesis is discharged for
    every constructed object — whatever `Categorical::new` accepts (masses `≥ 0`, positive sum, at
    most `isize::MAX` of them), `median()` is the spec median of its table -/
theorem categorical_median_pin_new (p : List ℝ) (hnew : Model.Categorical.new p = .ok d)
    (hn : (p.length : ℤ) ≤ i64Max) :
    Categorical.median d = ((Location.Categorical.median d.f_cdf : ℕ) : ℝ) := by
  obtain ⟨_, _, _, hne, hlen, hs, _⟩ := categorical_new_table p d hnew
  exact categorical_median_pin d hne hs (by rw [hlen]; exact hn)

/-- weights (1, 0, 0, 1), cumulative table (1, 1, 1, 2): `F(0) = 1/2` so `F⁻¹(1/2) = 0`; the
    lower-bound search returns the FIRST of the equal entries — `median()` is 0, the spec median
    (before the fix the three-way search hit the equal entry at index 1, a zero-mass category) -/
theorem categorical_median_repeated_entry :
    Categorical.median (⟨[1 / 2, 0, 0, 1 / 2], [1, 1, 1, 2], [1, 1, 1, 0]⟩ : Categorical ℝ) = 0
      ∧ Location.Categorical.median [1, 1, 1, 2] = 0 := by
  have hspec : Location.Categorical.median [1, 1, 1, 2] = 0 := by
    unfold Location.Categorical.median Location.Categorical.total
    norm_num [List.findIdx_cons]
  refine ⟨?_, hspec⟩
  rw [categorical_median_pin _ (by simp) (by simp) (by simp [i64Max])]
  show ((Location.Categorical.median [1, 1, 1, 2] : ℕ) : ℝ) = 0
  rw [hspec]; norm_num

/-- that object is the one `Categorical::new(&[1.0, 0.0, 0.0, 1.0])` builds -/
example : Model.Categorical.new ([1, 0, 0, 1] : List ℝ)
    = .ok ⟨[1 / 2, 0, 0, 1 / 2], [1, 1, 1, 2], [1, 1, 1, 0]⟩ := by
  unfold Model.Categorical.new
  norm_num [Model.Multinomial.newLoop, Model.prob_mass_to_cdf, D.categorical.cdf_to_sf,
    listGet?, usub, listLen, unwrapO]
  show ([1, 1, 1, 2] : List ℝ)[3]⁻¹ = 1 / 2
  norm_num

/-- `min()` returns 0 (every carrier) -/
theorem categorical_min_code_pin (d : Categorical α) : Categorical.min d = 0 := rfl

/-- `min()` is the textbook minimum when the first category has positive mass -/
theorem categorical_min_pin (x : ℝ) (t : List ℝ) (hc : d.f_cdf = x :: t) (hx : 0 < x) :
    Categorical.min d = ((Location.Categorical.min d.f_cdf : ℕ) : ℤ) := by
  unfold Categorical.min Location.Categorical.min
  rw [hc, List.findIdx_cons]; simp [hx]

/-- weights (0, 1), cumulative table (0, 1): the support is {1}, `min()` is 0 -/
theorem categorical_min_spec_counterexample :
    Categorical.min (⟨[0, 1], [0, 1], [1, 0]⟩ : Categorical ℝ) = 0
      ∧ Location.Categorical.min [0, 1] = 1 := by
  constructor
  · rfl
  · unfold Location.Categorical.min; norm_num [List.findIdx_cons]

/-- `max()` returns `K − 1` for a non-empty table (every carrier) -/
theorem categorical_max_code_pin (d : Categorical α) (hne : d.f_cdf ≠ []) :
    Categorical.max d = (d.f_cdf.length : ℤ) - 1 := by
  unfold Categorical.max usub listLen
  have : 0 < d.f_cdf.length := List.length_pos_iff.mpr hne
  rw [if_neg (by omega)]

/-- `max()` is the textbook maximum when the last category has positive mass (no earlier entry of
    the cumulative table equals the total) -/
theorem categorical_max_pin (hne : d.f_cdf ≠ [])
    (hlast : ∀ x ∈ d.f_cdf.dropLast, x ≠ Location.Categorical.total d.f_cdf) :
    Categorical.max d = ((Location.Categorical.max d.f_cdf : ℕ) : ℤ) := by
  rw [categorical_max_code_pin d hne]
  have hpos : 0 < d.f_cdf.length := List.length_pos_iff.mpr hne
  have hidx : d.f_cdf.length - 1 < d.f_cdf.length := by omega
  have htot : Location.Categorical.total d.f_cdf = d.f_cdf[d.f_cdf.length - 1] := by
    unfold Location.Categorical.total
    rw [List.getLast?_eq_some_getLast hne, List.getLast_eq_getElem]; rfl
  have : Location.Categorical.max d.f_cdf = d.f_cdf.length - 1 := by
    unfold Location.Categorical.max
    rw [List.findIdx_eq hidx]
    refine ⟨by simp [htot], ?_⟩
    intro j hj
    have hjd : j < d.f_cdf.dropLast.length := by rw [List.length_dropLast]; exact hj
    have hmem : d.f_cdf.dropLast[j] ∈ d.f_cdf.dropLast := List.getElem_mem hjd
    have := hlast _ hmem
    rw [List.getElem_dropLast] at this
    simpa using this
  rw [this]; omega

/-- weights (1, 0), cumulative table (1, 1): the support is {0}, `max()` is 1 -/
theorem categorical_max_spec_counterexample :
    Categorical.max (⟨[1, 0], [1, 1], [0, 0]⟩ : Categorical ℝ) = 1
      ∧ Location.Categorical.max [1, 1] = 0 := by
  constructor
  · rw [categorical_max_code_pin _ (by simp)]; norm_num
  · unfold Location.Categorical.max Location.Categorical.total; norm_num [List.findIdx_cons]

example : ∃ d : Categorical ℝ, d.f_cdf ≠ [] ∧ d.f_cdf.Pairwise (· ≤ ·) ∧
    (d.f_cdf.length : ℤ) ≤ i64Max ∧ (∃ x t, d.f_cdf = x :: t ∧ 0 < x) ∧
    (∀ x ∈ d.f_cdf.dropLast, x ≠ Location.Categorical.total d.f_cdf) :=
  ⟨⟨[1 / 4, 3 / 4], [1, 4], [3, 0]⟩, by simp, by simp, by simp [i64Max],
    ⟨1, [4], rfl, by norm_num⟩, by simp [Location.Categorical.total]⟩
end categorical

end Statrs.Props.C08
