/-
  C08 (median part) — `median()` is a 0.5-quantile of the model's cdf
  (theorems over the regenerated model, carrier ℝ, under the constructor's acceptance predicate).
  Continuous families: `cdf (median) = 1/2` (Uniform, Exp, Cauchy, Laplace, Gumbel, Pareto, Weibull,
  Triangular); Dirac and the discrete families in the two-sided form
  `P(X ≤ m) ≥ 1/2 ∧ P(X < m) ≤ 1/2`.
  Findings (counterexamples): Bernoulli's median is wrong for 1/2 < p < 1; Geometric's median is 0
  (outside the support) for p = 1.
-/
import Statrs.Real.Simp
import Statrs.Lemmas.Quantile
import Statrs.Gen.D_uniform
import Statrs.Gen.D_exponential
import Statrs.Gen.D_cauchy
import Statrs.Gen.D_laplace
import Statrs.Gen.D_gumbel
import Statrs.Gen.D_pareto
import Statrs.Gen.D_triangular
import Statrs.Gen.D_weibull
import Statrs.Gen.D_dirac
import Statrs.Gen.D_bernoulli
import Statrs.Gen.D_discrete_uniform
import Statrs.Gen.D_geometric
import Mathlib.Tactic
set_option linter.unusedVariables false
namespace Statrs.Props.C08
open Statrs Statrs.Gen Statrs.Lemmas.Quantile

/-! ## continuous families: cdf (median) = 1/2 -/

/-- Uniform: cdf(median) = 1/2 -/
theorem uniform_cdf_median (d : Uniform ℝ) (h : d.f_min < d.f_max) :
    Uniform.cdf d (Uniform.median d) = 1 / 2 := by
  unfold Uniform.cdf Uniform.median
  have h1 : ¬ ((d.f_min + d.f_max) / (2.0:ℝ) ≤ d.f_min) := by norm_num; linarith
  have h2 : ¬ (d.f_max ≤ (d.f_min + d.f_max) / (2.0:ℝ)) := by norm_num; linarith
  rw [if_neg h1, if_neg h2]
  have : d.f_max - d.f_min ≠ 0 := by linarith
  norm_num
  field_simp
  ring

example : ∃ d : Uniform ℝ, d.f_min < d.f_max := ⟨⟨0, 1⟩, by norm_num⟩

/-- Exp: cdf(median) = 1/2 -/
theorem exp_cdf_median (d : Exp ℝ) (h : 0 < d.f_rate) : Exp.cdf d (Exp.median d) = 1 / 2 := by
  unfold Exp.cdf Exp.median
  rfun_norm
  have hl : 0 < Real.log 2 := Real.log_pos (by norm_num)
  have h1 : ¬ (Real.log 2 / d.f_rate < (0.0:ℝ)) := by
    norm_num; exact div_nonneg hl.le h.le
  rw [if_neg h1]
  have : -d.f_rate * (Real.log 2 / d.f_rate) = -Real.log 2 := by field_simp
  rw [this, Real.exp_neg, Real.exp_log (by norm_num)]
  norm_num

example : ∃ d : Exp ℝ, 0 < d.f_rate := ⟨⟨1⟩, by norm_num⟩

/-- Cauchy: cdf(median) = 1/2 -/
theorem cauchy_cdf_median (d : Cauchy ℝ) (h : 0 < d.f_scale) : Cauchy.cdf d (Cauchy.median d) = 1 / 2 := by
  unfold Cauchy.cdf Cauchy.median
  rfun_norm
  norm_num

example : ∃ d : Cauchy ℝ, 0 < d.f_scale := ⟨⟨0, 1⟩, by norm_num⟩

/-- Laplace: cdf(median) = 1/2 -/
theorem laplace_cdf_median (d : Laplace ℝ) (h : 0 < d.f_scale) : Laplace.cdf d (Laplace.median d) = 1 / 2 := by
  unfold Laplace.cdf Laplace.median
  rfun_norm
  norm_num

example : ∃ d : Laplace ℝ, 0 < d.f_scale := ⟨⟨0, 1⟩, by norm_num⟩

/-- Gumbel: cdf(median) = 1/2 -/
theorem gumbel_cdf_median (d : Gumbel ℝ) (h : 0 < d.f_scale) : Gumbel.cdf d (Gumbel.median d) = 1 / 2 := by
  unfold Gumbel.cdf Gumbel.median
  rfun_norm
  have hl : 0 < Real.log 2 := Real.log_pos (by norm_num)
  have e : -(d.f_location - d.f_scale * Real.log (Real.log (2.0:ℝ)) - d.f_location) / d.f_scale
      = Real.log (Real.log 2) := by norm_num; field_simp
  rw [e, Real.exp_log hl, Real.exp_neg, Real.exp_log (by norm_num)]
  norm_num

example : ∃ d : Gumbel ℝ, 0 < d.f_scale := ⟨⟨0, 1⟩, by norm_num⟩

/-- Pareto: cdf(median) = 1/2 -/
theorem pareto_cdf_median (d : Pareto ℝ) (hs : 0 < d.f_scale) (ha : 0 < d.f_shape) :
    Pareto.cdf d (Pareto.median d) = 1 / 2 := by
  unfold Pareto.cdf Pareto.median pow2Lit
  rfun_norm
  have hf : (1:ℝ) ≤ (2.0:ℝ) ^ ((1.0:ℝ) / d.f_shape) := by
    apply Real.one_le_rpow (by norm_num)
    norm_num; exact ha.le
  have h1 : ¬ (d.f_scale * (2.0:ℝ) ^ ((1.0:ℝ) / d.f_shape) < d.f_scale) := by nlinarith
  rw [if_neg h1]
  have hpos : (0:ℝ) < (2.0:ℝ) ^ ((1.0:ℝ) / d.f_shape) := by linarith
  have e : d.f_scale / (d.f_scale * (2.0:ℝ) ^ ((1.0:ℝ) / d.f_shape)) = ((2.0:ℝ) ^ ((1.0:ℝ) / d.f_shape))⁻¹ := by
    field_simp
  rw [e, Real.inv_rpow hpos.le, ← Real.rpow_mul (by norm_num)]
  have : (1.0:ℝ) / d.f_shape * d.f_shape = 1 := by norm_num; field_simp
  rw [this, Real.rpow_one]
  norm_num

example : ∃ d : Pareto ℝ, 0 < d.f_scale ∧ 0 < d.f_shape := ⟨⟨1, 1⟩, by norm_num⟩

/-- Weibull: cdf(median) = 1/2 (`hi` is what the constructor stores in the cached field) -/
theorem weibull_cdf_median (d : Weibull ℝ) (hk : 0 < d.f_shape) (hs : 0 < d.f_scale)
    (hi : d.f_scale_pow_shape_inv = d.f_scale ^ (-d.f_shape)) :
    Weibull.cdf d (Weibull.median d) = 1 / 2 := by
  unfold Weibull.cdf Weibull.median
  rfun_norm
  have hl : 0 < Real.log 2 := Real.log_pos (by norm_num)
  have hm : 0 ≤ d.f_scale * Real.log 2 ^ ((1.0:ℝ) / d.f_shape) :=
    mul_nonneg hs.le (Real.rpow_nonneg hl.le _)
  have h1 : ¬ (d.f_scale * Real.log 2 ^ ((1.0:ℝ) / d.f_shape) < (0.0:ℝ)) := by
    rw [show (0.0:ℝ) = 0 by norm_num]; exact not_lt.mpr hm
  rw [if_neg h1, Real.mul_rpow hs.le (Real.rpow_nonneg hl.le _), ← Real.rpow_mul hl.le]
  have : (1.0:ℝ) / d.f_shape * d.f_shape = 1 := by norm_num; field_simp
  rw [this, Real.rpow_one, hi, Real.rpow_neg hs.le]
  have hp : 0 < d.f_scale ^ d.f_shape := Real.rpow_pos_of_pos hs _
  have e : -(d.f_scale ^ d.f_shape * Real.log 2) * (d.f_scale ^ d.f_shape)⁻¹ = -Real.log 2 := by
    field_simp
  rw [e, Real.exp_neg, Real.exp_log (by norm_num)]
  norm_num

example : ∃ d : Weibull ℝ, 0 < d.f_shape ∧ 0 < d.f_scale ∧ d.f_scale_pow_shape_inv = d.f_scale ^ (-d.f_shape) :=
  ⟨⟨1, 1, 1⟩, by norm_num⟩

/-- Triangular: cdf(median) = 1/2 (both branches of the median formula) -/
theorem triangular_cdf_median (d : Triangular ℝ) (h1 : d.f_min ≤ d.f_mode) (h2 : d.f_mode ≤ d.f_max)
    (h3 : d.f_min ≠ d.f_max) : Triangular.cdf d (Triangular.median d) = 1 / 2 := by
  have hab : d.f_min < d.f_max := lt_of_le_of_ne (h1.trans h2) h3
  have hba : 0 < d.f_max - d.f_min := by linarith
  unfold Triangular.cdf Triangular.median
  rfun_norm
  by_cases hb : (d.f_min + d.f_max) / (2.0:ℝ) ≤ d.f_mode
  · simp only [if_pos hb]
    have hb' : (d.f_min + d.f_max) / 2 ≤ d.f_mode := by norm_num at hb; exact hb
    have hca : 0 < d.f_mode - d.f_min := by linarith
    have hnn : 0 ≤ (d.f_max - d.f_min) * (d.f_mode - d.f_min) / (2.0:ℝ) := by norm_num; positivity
    have hs0 : 0 < Real.sqrt ((d.f_max - d.f_min) * (d.f_mode - d.f_min) / (2.0:ℝ)) :=
      Real.sqrt_pos.mpr (by norm_num; positivity)
    have hs1 : Real.sqrt ((d.f_max - d.f_min) * (d.f_mode - d.f_min) / (2.0:ℝ)) ≤ d.f_mode - d.f_min := by
      rw [Real.sqrt_le_left hca.le]; norm_num; nlinarith
    rw [if_neg (by linarith), if_pos (by linarith)]
    have e : d.f_min + Real.sqrt ((d.f_max - d.f_min) * (d.f_mode - d.f_min) / (2.0:ℝ)) - d.f_min
        = Real.sqrt ((d.f_max - d.f_min) * (d.f_mode - d.f_min) / (2.0:ℝ)) := by ring
    rw [e, Real.mul_self_sqrt hnn]
    have : d.f_mode - d.f_min ≠ 0 := hca.ne'
    have : d.f_max - d.f_min ≠ 0 := hba.ne'
    norm_num
    field_simp
  · simp only [if_neg hb]
    have hb' : d.f_mode < (d.f_min + d.f_max) / 2 := by norm_num at hb; linarith
    have hbc : 0 < d.f_max - d.f_mode := by linarith
    have hnn : 0 ≤ (d.f_max - d.f_min) * (d.f_max - d.f_mode) / (2.0:ℝ) := by norm_num; positivity
    have hs0 : 0 < Real.sqrt ((d.f_max - d.f_min) * (d.f_max - d.f_mode) / (2.0:ℝ)) :=
      Real.sqrt_pos.mpr (by norm_num; positivity)
    have hs1 : Real.sqrt ((d.f_max - d.f_min) * (d.f_max - d.f_mode) / (2.0:ℝ)) < d.f_max - d.f_mode := by
      rw [Real.sqrt_lt' hbc]; norm_num; nlinarith
    rw [if_neg (by linarith), if_neg (by linarith), if_pos (by linarith)]
    have e : d.f_max - (d.f_max - Real.sqrt ((d.f_max - d.f_min) * (d.f_max - d.f_mode) / (2.0:ℝ)))
        = Real.sqrt ((d.f_max - d.f_min) * (d.f_max - d.f_mode) / (2.0:ℝ)) := by ring
    rw [e, Real.mul_self_sqrt hnn]
    have : d.f_max - d.f_mode ≠ 0 := hbc.ne'
    have : d.f_max - d.f_min ≠ 0 := hba.ne'
    norm_num
    field_simp
    norm_num

example : ∃ d : Triangular ℝ, d.f_min ≤ d.f_mode ∧ d.f_mode ≤ d.f_max ∧ d.f_min ≠ d.f_max :=
  ⟨⟨0, 1, 0⟩, by norm_num⟩

/-! ## Dirac: two-sided form (the cdf jumps from 0 to 1 at the atom) -/

/-- Dirac: `cdf(median) ≥ 1/2` and `cdf x ≤ 1/2` for every `x` below the median (no constructor
    hypothesis over ℝ: `new` only rejects NaN) -/
theorem dirac_median (d : Dirac ℝ) :
    1 / 2 ≤ Dirac.cdf d (Dirac.median d) ∧ ∀ x, x < Dirac.median d → Dirac.cdf d x ≤ 1 / 2 := by
  unfold Dirac.cdf Dirac.median
  constructor
  · rw [if_neg (lt_irrefl _)]; norm_num
  · intro x hx; rw [if_pos hx]; norm_num

example : ∃ d : Dirac ℝ, True := ⟨⟨0⟩, trivial⟩

/-! ## discrete families: `P(X ≤ m) ≥ 1/2 ∧ P(X < m) ≤ 1/2`
`median()` returns a float; `P(X ≤ m)` is `cdf ⌊m⌋`, and `P(X < m) ≤ 1/2` is stated as
`cdf k ≤ 1/2` for every integer `k < m` (restricted to `0 ≤ k` where the argument type is `u64`). -/

/-- the two-sided median condition for Bernoulli -/
def BernoulliMedianOk (d : Bernoulli ℝ) : Prop :=
  1 / 2 ≤ Bernoulli.cdf d ⌊Bernoulli.median d⌋ ∧
    ∀ k : Int, 0 ≤ k → (k : ℝ) < Bernoulli.median d → Bernoulli.cdf d k ≤ 1 / 2

theorem bernoulli_median_eq (d : Bernoulli ℝ) (hn : d.f_b.f_n = 1) :
    Bernoulli.median d = (⌊d.f_b.f_p⌋ : ℝ) := by
  unfold Bernoulli.median Binomial.median
  rfun_norm
  rw [hn]; norm_num

/-- Bernoulli (`new p` builds `Binomial p 1` with `0 ≤ p ≤ 1`): `median() = ⌊p⌋` is a median
    exactly when `p ≤ 1/2` or `p = 1`. -/
theorem bernoulli_median_iff (d : Bernoulli ℝ) (hn : d.f_b.f_n = 1) (h0 : 0 ≤ d.f_b.f_p) (h1 : d.f_b.f_p ≤ 1) :
    BernoulliMedianOk d ↔ (d.f_b.f_p ≤ 1 / 2 ∨ d.f_b.f_p = 1) := by
  unfold BernoulliMedianOk
  rw [bernoulli_median_eq d hn]
  unfold Bernoulli.cdf Binomial.p
  rcases lt_or_eq_of_le h1 with hlt | heq
  · have hf : ⌊d.f_b.f_p⌋ = 0 := by rw [Int.floor_eq_iff]; norm_num; exact ⟨h0, hlt⟩
    rw [hf]
    simp only [Int.floor_intCast]
    norm_num
    constructor
    · intro h; left; linarith [h.1]
    · intro h
      rcases h with h | h
      · refine ⟨by linarith, ?_⟩
        intro k hk hk'; exfalso
        have : k < 0 := by exact_mod_cast hk'
        omega
      · exfalso; linarith
  · have hf : ⌊d.f_b.f_p⌋ = 1 := by rw [heq]; norm_num
    rw [hf]
    simp only [Int.floor_intCast]
    norm_num
    constructor
    · intro _; right; exact heq
    · intro _ k hk hk'
      have : k < 1 := by exact_mod_cast hk'
      have hk0 : ¬ (1 ≤ k) := by omega
      rw [if_neg hk0, heq]; norm_num

/-- FINDING: for `p = 3/4` Bernoulli's `median()` is 0 although `P(X ≤ 0) = 1/4 < 1/2`
    (the true median is 1). -/
theorem bernoulli_median_counterexample :
    ∃ d : Bernoulli ℝ, d.f_b.f_n = 1 ∧ 0 ≤ d.f_b.f_p ∧ d.f_b.f_p ≤ 1 ∧
      Bernoulli.median d = 0 ∧ Bernoulli.cdf d 0 = 1 / 4 ∧ ¬ BernoulliMedianOk d := by
  refine ⟨⟨⟨3 / 4, 1⟩⟩, rfl, by norm_num, by norm_num, ?_, ?_, ?_⟩
  · rw [bernoulli_median_eq _ rfl]
    have : ⌊(3 / 4 : ℝ)⌋ = 0 := by rw [Int.floor_eq_iff]; norm_num
    simp [this]
  · unfold Bernoulli.cdf Binomial.p; norm_num
  · rw [bernoulli_median_iff _ rfl (by norm_num) (by norm_num)]
    norm_num

example : ∃ d : Bernoulli ℝ, d.f_b.f_n = 1 ∧ 0 ≤ d.f_b.f_p ∧ d.f_b.f_p ≤ 1 := ⟨⟨⟨1 / 4, 1⟩⟩, rfl, by norm_num, by norm_num⟩

theorem discrete_uniform_median_eq (d : DiscreteUniform) :
    DiscreteUniform.median (α := ℝ) d = ((d.f_min : ℝ) + (d.f_max : ℝ)) / 2 := by
  unfold DiscreteUniform.median
  rfun_norm
  push_cast; norm_num

/-- closed form of the cdf between the bounds -/
theorem discrete_uniform_cdf_mid (d : DiscreteUniform) (h : d.f_min ≤ d.f_max) (x : Int)
    (h1 : d.f_min ≤ x) (h2 : x < d.f_max) :
    DiscreteUniform.cdf (α := ℝ) d x = ((x : ℝ) - d.f_min + 1) / ((d.f_max : ℝ) - d.f_min + 1) := by
  unfold DiscreteUniform.cdf
  rfun_norm
  rw [if_neg (by omega), if_neg (by omega)]
  have ha : (d.f_min : ℝ) ≤ x := by exact_mod_cast h1
  have hb : (x : ℝ) < d.f_max := by exact_mod_cast h2
  have hden : (0:ℝ) < (d.f_max : ℝ) - d.f_min + 1 := by linarith
  have : ¬ ((1.0:ℝ) < ((x : ℝ) - d.f_min + (1.0:ℝ)) / ((d.f_max : ℝ) - d.f_min + (1.0:ℝ))) := by
    norm_num
    rw [div_le_one hden]; linarith
  rw [if_neg this]
  norm_num

/-- DiscreteUniform (`min ≤ max`): `median() = (min+max)/2` satisfies `P(X ≤ m) ≥ 1/2` and
    `P(X < m) ≤ 1/2`. -/
theorem discrete_uniform_median (d : DiscreteUniform) (h : d.f_min ≤ d.f_max) :
    1 / 2 ≤ DiscreteUniform.cdf (α := ℝ) d ⌊DiscreteUniform.median (α := ℝ) d⌋ ∧
      ∀ k : Int, (k : ℝ) < DiscreteUniform.median (α := ℝ) d → DiscreteUniform.cdf (α := ℝ) d k ≤ 1 / 2 := by
  rw [discrete_uniform_median_eq]
  have hab : (d.f_min : ℝ) ≤ d.f_max := by exact_mod_cast h
  constructor
  · set m : Int := ⌊((d.f_min : ℝ) + (d.f_max : ℝ)) / 2⌋ with hm
    have hlo : d.f_min ≤ m := by
      rw [hm, Int.le_floor]; linarith
    have hup : ((d.f_min : ℝ) + d.f_max) / 2 < m + 1 := Int.lt_floor_add_one _
    have hint : d.f_min + d.f_max + 1 ≤ 2 * m + 2 := by
      have : ((d.f_min + d.f_max : Int) : ℝ) < ((2 * m + 2 : Int) : ℝ) := by push_cast; linarith
      have := Int.cast_lt.mp this
      omega
    by_cases hmx : d.f_max ≤ m
    · unfold DiscreteUniform.cdf
      rw [if_neg (by omega), if_pos hmx]; norm_num
    · rw [discrete_uniform_cdf_mid d h m hlo (by omega)]
      have hden : (0:ℝ) < (d.f_max : ℝ) - d.f_min + 1 := by linarith
      rw [le_div_iff₀ hden]
      have : ((d.f_min + d.f_max + 1 : Int) : ℝ) ≤ ((2 * m + 2 : Int) : ℝ) := Int.cast_le.mpr hint
      push_cast at this
      linarith
  · intro k hk
    have hint : 2 * k + 1 ≤ d.f_min + d.f_max := by
      have : ((2 * k : Int) : ℝ) < ((d.f_min + d.f_max : Int) : ℝ) := by push_cast; linarith
      have := Int.cast_lt.mp this
      omega
    by_cases hka : k < d.f_min
    · unfold DiscreteUniform.cdf
      rw [if_pos hka]; norm_num
    · rw [discrete_uniform_cdf_mid d h k (by omega) (by omega)]
      have hden : (0:ℝ) < (d.f_max : ℝ) - d.f_min + 1 := by linarith
      rw [div_le_iff₀ hden]
      have : ((2 * k + 1 : Int) : ℝ) ≤ ((d.f_min + d.f_max : Int) : ℝ) := Int.cast_le.mpr hint
      push_cast at this
      linarith

example : ∃ d : DiscreteUniform, d.f_min ≤ d.f_max := ⟨⟨0, 1⟩, by norm_num⟩

theorem geometric_cdf_eq (d : Geometric ℝ) (x : Int) (hx : x ≠ 0) :
    Geometric.cdf d x = 1 - Real.exp (Real.log (1 - d.f_p) * x) := by
  unfold Geometric.cdf
  rfun_norm
  rw [if_neg hx]
  ring_nf

theorem geometric_median_eq (d : Geometric ℝ) :
    Geometric.median d = (⌈-Real.log 2 / Real.log (1 - d.f_p)⌉ : ℝ) := by
  unfold Geometric.median
  rfun_norm
  norm_num

/-- Geometric, `0 < p < 1` (the constructor also accepts `p = 1`, see the counterexample below):
    `median()` satisfies `P(X ≤ m) ≥ 1/2` and `P(X < m) ≤ 1/2`. -/
theorem geometric_median_partial (d : Geometric ℝ) (h0 : 0 < d.f_p) (h1 : d.f_p < 1) :
    1 / 2 ≤ Geometric.cdf d ⌈Geometric.median d⌉ ∧
      ∀ k : Int, 0 ≤ k → (k : ℝ) < Geometric.median d → Geometric.cdf d k ≤ 1 / 2 := by
  rw [geometric_median_eq]
  simp only [Int.ceil_intCast]
  have hL : Real.log (1 - d.f_p) < 0 := Real.log_neg (by linarith) (by linarith)
  have hl2 : 0 < Real.log 2 := Real.log_pos (by norm_num)
  have hr : 0 < -Real.log 2 / Real.log (1 - d.f_p) := div_pos_of_neg_of_neg (by linarith) hL
  have hhalf : Real.exp (-Real.log 2) = 1 / 2 := by
    rw [Real.exp_neg, Real.exp_log (by norm_num)]; norm_num
  constructor
  · have hm : 0 < ⌈-Real.log 2 / Real.log (1 - d.f_p)⌉ := Int.ceil_pos.mpr hr
    rw [geometric_cdf_eq d _ hm.ne']
    have hle : -Real.log 2 / Real.log (1 - d.f_p) ≤ (⌈-Real.log 2 / Real.log (1 - d.f_p)⌉ : ℝ) := Int.le_ceil _
    have : Real.log (1 - d.f_p) * (⌈-Real.log 2 / Real.log (1 - d.f_p)⌉ : ℝ) ≤ -Real.log 2 := by
      rw [div_le_iff_of_neg hL] at hle
      linarith
    have := Real.exp_le_exp.mpr this
    rw [hhalf] at this
    linarith
  · intro k hk0 hk
    by_cases hz : k = 0
    · unfold Geometric.cdf; rw [if_pos hz]; norm_num
    · rw [geometric_cdf_eq d k hz]
      have hkr : (k : ℝ) < -Real.log 2 / Real.log (1 - d.f_p) := Int.lt_ceil.mp (by exact_mod_cast hk)
      have : -Real.log 2 < Real.log (1 - d.f_p) * (k : ℝ) := by
        rw [lt_div_iff_of_neg hL] at hkr
        linarith
      have := Real.exp_lt_exp.mpr this
      rw [hhalf] at this
      linarith

example : ∃ d : Geometric ℝ, 0 < d.f_p ∧ d.f_p < 1 := ⟨⟨1 / 2⟩, by norm_num⟩

/-- FINDING: `Geometric::new(1.0)` is accepted, its `median()` is `ceil(-ln 2 / ln 0) = 0`, which is
    below `min() = 1` (the distribution is the point mass at 1) and has `cdf 0 = 0 < 1/2`.
    (Over ℝ `log 0 = 0` and `x/0 = 0`; in IEEE `-ln2 / -inf = 0` gives the same value 0.) -/
theorem geometric_median_counterexample :
    ∃ d : Geometric ℝ, 0 < d.f_p ∧ d.f_p ≤ 1 ∧ Geometric.median d = 0 ∧
      (⌈Geometric.median d⌉ < Geometric.min d) ∧ Geometric.cdf d ⌈Geometric.median d⌉ = 0 := by
  have hm : Geometric.median (⟨1⟩ : Geometric ℝ) = 0 := by
    rw [geometric_median_eq]; norm_num
  refine ⟨⟨1⟩, by norm_num, by norm_num, hm, ?_, ?_⟩
  · rw [hm]; unfold Geometric.min; norm_num
  · rw [hm]; unfold Geometric.cdf; norm_num

end Statrs.Props.C08
