/-
  C08 (median part) — `median()` is a 0.5-quantile of the model's cdf
  (theorems over the regenerated model, carrier ℝ, under the constructor's acceptance predicate).
  Continuous families: `cdf (median) = 1/2` (Uniform, Exp, Cauchy, Laplace, Gumbel, Pareto, Weibull,
  Triangular); Dirac and the discrete families in the two-sided form
  `P(X ≤ m) ≥ 1/2 ∧ P(X < m) ≤ 1/2`.
  Findings (counterexamples): Bernoulli's median is wrong for 1/2 < p < 1; Geometric's median is 0
  (outside the support) for p = 1.
-/
import Statrs.Real.Simp
import Statrs.Lemmas.Quantile
import Statrs.Gen.D_uniform
import Statrs.Gen.D_exponential
import Statrs.Gen.D_cauchy
import Statrs.Gen.D_laplace
import Statrs.Gen.D_gumbel
import Statrs.Gen.D_pareto
import Statrs.Gen.D_triangular
import Statrs.Gen.D_weibull
import Statrs.Gen.D_dirac
import Statrs.Gen.D_bernoulli
import Statrs.Gen.D_discrete_uniform
import Statrs.Gen.D_geometric
import Mathlib.Tactic
set_option linter.unusedVariables false
namespace Statrs.Props.C08
open Statrs Statrs.Gen Statrs.Lemmas.Quantile

/-! ## continuous families: cdf (median) = 1/2 -/

/-- Uniform: cdf(median) = 1/2 -/
theorem uniform_cdf_median (d : Uniform ℝ) (h : d.f_min < d.f_max) :
    Uniform.cdf d (Uniform.median d) = 1 / 2 := by
  unfold Uniform.cdf Uniform.median
  have h1 : ¬ ((d.f_min + d.f_max) / (2.0:ℝ) ≤ d.f_min) := by norm_num; linarith
  have h2 : ¬ (d.f_max ≤ (d.f_min + d.f_max) / (2.0:ℝ)) := by norm_num; linarith
  rw [if_neg h1, if_neg h2]
  have : d.f_max - d.f_min ≠ 0 := by linarith
  norm_num
  field_simp
  ring

example : ∃ d : Uniform ℝ, d.f_min < d.f_max := ⟨⟨0, 1⟩, by norm_num⟩

/-- Exp: cdf(median) = 1/2 -/
theorem exp_cdf_median (d : Exp ℝ) (h : 0 < d.f_rate) : Exp.cdf d (Exp.median d) = 1 / 2 := by
  unfold Exp.cdf Exp.median
  rfun_norm
  have hl : 0 < Real.log 2 := Real.log_pos (by norm_num)
  have h1 : ¬ (Real.log 2 / d.f_rate < (0.0:ℝ)) := by
    norm_num; exact div_nonneg hl.le h.le
  rw [if_neg h1]
  have : -d.f_rate * (Real.log 2 / d.f_rate) = -Real.log 2 := by field_simp
  rw [this, Real.exp_neg, Real.exp_log (by norm_num)]
  norm_num

example : ∃ d : Exp ℝ, 0 < d.f_rate := ⟨⟨1⟩, by norm_num⟩

/-- Cauchy: cdf(median) = 1/2 -/
theorem cauchy_cdf_median (d : Cauchy ℝ) (h : 0 < d.f_scale) : Cauchy.cdf d (Cauchy.median d) = 1 / 2 := by
  unfold Cauchy.cdf Cauchy.median
  rfun_norm
  norm_num

example : ∃ d : Cauchy ℝ, 0 < d.f_scale := ⟨⟨0, 1⟩, by norm_num⟩

/-- Laplace: cdf(median) = 1/2 -/
theorem laplace_cdf_median (d : Laplace ℝ) (h : 0 < d.f_scale) : Laplace.cdf d (Laplace.median d) = 1 / 2 := by
  unfold Laplace.cdf Laplace.median
  rfun_norm
  norm_num

example : ∃ d : Laplace ℝ, 0 < d.f_scale := ⟨⟨0, 1⟩, by norm_num⟩

/-- Gumbel: cdf(median) = 1/2 -/
theorem gumbel_cdf_median (d : Gumbel ℝ) (h : 0 < d.f_scale) : Gumbel.cdf d (Gumbel.median d) = 1 / 2 := by
  unfold Gumbel.cdf Gumbel.median
  rfun_norm
  have hl : 0 < Real.log 2 := Real.log_pos (by norm_num)
  have e : -(d.f_location - d.f_scale * Real.log (Real.log (2.0:ℝ)) - d.f_location) / d.f_scale
      = Real.log (Real.log 2) := by norm_num; field_simp
  rw [e, Real.exp_log hl, Real.exp_neg, Real.exp_log (by norm_num)]
  norm_num

example : ∃ d : Gumbel ℝ, 0 < d.f_scale := ⟨⟨0, 1⟩, by norm_num⟩

/-- Pareto: cdf(median) = 1/2 -/
theorem pareto_cdf_median (d : Pareto ℝ) (hs : 0 < d.f_scale) (ha : 0 < d.f_shape) :
    Pareto.cdf d (Pareto.median d) = 1 / 2 := by
  unfold Pareto.cdf Pareto.median
  rfun_norm
  have hf : (1:ℝ) ≤ (2.0:ℝ) ^ ((1.0:ℝ) / d.f_shape) := by
    apply Real.one_le_rpow (by norm_num)
    norm_num; exact ha.le
  have h1 : ¬ (d.f_scale * (2.0:ℝ) ^ ((1.0:ℝ) / d.f_shape) < d.f_scale) := by nlinarith
  rw [if_neg h1]
  have hpos : (0:ℝ) < (2.0:ℝ) ^ ((1.0:ℝ) / d.f_shape) := by linarith
  have e : d.f_scale / (d.f_scale * (2.0:ℝ) ^ ((1.0:ℝ) / d.f_shape)) = ((2.0:ℝ) ^ ((1.0:ℝ) / d.f_shape))⁻¹ := by
    field_simp
  rw [e, Real.inv_rpow hpos.le, ← Real.rpow_mul (by norm_num)]
  have : (1.0:ℝ) / d.f_shape * d.f_shape = 1 := by norm_num; field_simp
  rw [this, Real.rpow_one]
  norm_num

example : ∃ d : Pareto ℝ, 0 < d.f_scale ∧ 0 < d.f_shape := ⟨⟨1, 1⟩, by norm_num⟩

/-- Weibull: cdf(median) = 1/2 (`hi` is what the constructor stores in the cached field) -/
theorem weibull_cdf_median (d : Weibull ℝ) (hk : 0 < d.f_shape) (hs : 0 < d.f_scale)
    (hi : d.f_scale_pow_shape_inv = d.f_scale ^ (-d.f_shape)) :
    Weibull.cdf d (Weibull.median d) = 1 / 2 := by
  unfold Weibull.cdf Weibull.median
  rfun_norm
  have hl : 0 < Real.log 2 := Real.log_pos (by norm_num)
  have hm : 0 ≤ d.f_scale * Real.log 2 ^ ((1.0:ℝ) / d.f_shape) :=
    mul_nonneg hs.le (Real.rpow_nonneg hl.le _)
  have h1 : ¬ (d.f_scale * Real.log 2 ^ ((1.0:ℝ) / d.f_shape) < (0.0:ℝ)) := by
    rw [show (0.0:ℝ) = 0 by norm_num]; exact not_lt.mpr hm
  rw [if_neg h1, Real.mul_rpow hs.le (Real.rpow_nonneg hl.le _), ← Real.rpow_mul hl.le]
  have : (1.0:ℝ) / d.f_shape * d.f_shape = 1 := by norm_num; field_simp
  rw [this, Real.rpow_one, hi, Real.rpow_neg hs.le]
  have hp : 0 < d.f_scale ^ d.f_shape := Real.rpow_pos_of_pos hs _
  have e : -(d.f_scale ^ d.f_shape * Real.log 2) * (d.f_scale ^ d.f_shape)⁻¹ = -Real.log 2 := by
    field_simp
  rw [e, Real.exp_neg, Real.exp_log (by norm_num)]
  norm_num

example : ∃ d : Weibull ℝ, 0 < d.f_shape ∧ 0 < d.f_scale ∧ d.f_scale_pow_shape_inv = d.f_scale ^ (-d.f_shape) :=
  ⟨⟨1, 1, 1⟩, by norm_num⟩

/-- Triangular: cdf(median) = 1/2 (both branches of the median formula) -/
theorem triangular_cdf_median (d : Triangular ℝ) (h1 : d.f_min ≤ d.f_mode) (h2 : d.f_mode ≤ d.f_max)
    (h3 : d.f_min ≠ d.f_max) : Triangular.cdf d (Triangular.median d) = 1 / 2 := by
  have hab : d.f_min < d.f_max := lt_of_le_of_ne (h1.trans h2) h3
  have hba : 0 < d.f_max - d.f_min := by linarith
  unfold Triangular.cdf Triangular.median
  rfun_norm
  simp only []
  by_cases hb : (d.f_min + d.f_max) / (2.0:ℝ) ≤ d.f_mode
  · simp only [if_pos hb]
    have hb' : (d.f_min + d.f_max) / 2 ≤ d.f_mode := by norm_num at hb; exact hb
    have hca : 0 < d.f_mode - d.f_min := by linarith
    have hnn : 0 ≤ (d.f_max - d.f_min) * (d.f_mode - d.f_min) / (2.0:ℝ) := by norm_num; positivity
    have hs0 : 0 < Real.sqrt ((d.f_max - d.f_min) * (d.f_mode - d.f_min) / (2.0:ℝ)) :=
      Real.sqrt_pos.mpr (by norm_num; positivity)
    have hs1 : Real.sqrt ((d.f_max - d.f_min) * (d.f_mode - d.f_min) / (2.0:ℝ)) ≤ d.f_mode - d.f_min := by
      rw [Real.sqrt_le_left hca.le]; norm_num; nlinarith
    rw [if_neg (by linarith), if_pos (by linarith)]
    have e : d.f_min + Real.sqrt ((d.f_max - d.f_min) * (d.f_mode - d.f_min) / (2.0:ℝ)) - d.f_min
        = Real.sqrt ((d.f_max - d.f_min) * (d.f_mode - d.f_min) / (2.0:ℝ)) := by ring
    rw [e, Real.mul_self_sqrt hnn]
    have : d.f_mode - d.f_min ≠ 0 := hca.ne'
    have : d.f_max - d.f_min ≠ 0 := hba.ne'
    norm_num
    field_simp
  · simp only [if_neg hb]
    have hb' : d.f_mode < (d.f_min + d.f_max) / 2 := by norm_num at hb; linarith
    have hbc : 0 < d.f_max - d.f_mode := by linarith
    have hnn : 0 ≤ (d.f_max - d.f_min) * (d.f_max - d.f_mode) / (2.0:ℝ) := by norm_num; positivity
    have hs0 : 0 < Real.sqrt ((d.f_max - d.f_min) * (d.f_max - d.f_mode) / (2.0:ℝ)) :=
      Real.sqrt_pos.mpr (by norm_num; positivity)
    have hs1 : Real.sqrt ((d.f_max - d.f_min) * (d.f_max - d.f_mode) / (2.0:ℝ)) < d.f_max - d.f_mode := by
      rw [Real.sqrt_lt' hbc]; norm_num; nlinarith
    rw [if_neg (by linarith), if_neg (by linarith), if_pos (by linarith)]
    have e : d.f_max - (d.f_max - Real.sqrt ((d.f_max - d.f_min) * (d.f_max - d.f_mode) / (2.0:ℝ)))
        = Real.sqrt ((d.f_max - d.f_min) * (d.f_max - d.f_mode) / (2.0:ℝ)) := by ring
    rw [e, Real.mul_self_sqrt hnn]
    have : d.f_max - d.f_mode ≠ 0 := hbc.ne'
    have : d.f_max - d.f_min ≠ 0 := hba.ne'
    norm_num
    field_simp
    norm_num

example : ∃ d : Triangular ℝ, d.f_min ≤ d.f_mode ∧ d.f_mode ≤ d.f_max ∧ d.f_min ≠ d.f_max :=
  ⟨⟨0, 1, 0⟩, by norm_num⟩

/-! ## Dirac: two-sided form (the cdf jumps from 0 to 1 at the atom) -/

/-- Dirac: `cdf(median) ≥ 1/2` and `cdf x ≤ 1/2` for every `x` below the median (no constructor
    hypothesis over ℝ: `new` only rejects NaN) -/
theorem dirac_median (d : Dirac ℝ) :
    1 / 2 ≤ Dirac.cdf d (Dirac.median d) ∧ ∀ x, x < Dirac.median d → Dirac.cdf d x ≤ 1 / 2 := by
  unfold Dirac.cdf Dirac.median
  constructor
  · rw [if_neg (lt_irrefl _)]; norm_num
  · intro x hx; rw [if_pos hx]; norm_num

example : ∃ d : Dirac ℝ, True := ⟨⟨0⟩, trivial⟩

end Statrs.Props.C08
