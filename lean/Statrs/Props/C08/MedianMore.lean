/-
  C08 (median part, continued) — `median()` is a 0.5-quantile of the model's cdf:
  `cdf (median) = 1/2` for Normal, LogNormal, Levy, StudentsT (carrier ℝ, under exactly the
  constructor's acceptance predicate), relative to explicit premises about the abstract `SF ℝ`:
  * Normal, LogNormal: `Spec.Erfc.ErfcSpec` (only the reflection `erfc (-z) = 2 - erfc z` at `z = 0`,
    i.e. `erfc 0 = 1`, is used);
  * Levy: `Spec.Sampling.ErfcInvSpec` (`erfc_inv 0.5 > 0`, `erfc (erfc_inv 0.5) = 0.5`);
  * StudentsT: `Spec.Incomplete.BetaSpec` (only `I_1(a,b) = 1`).
  Each premise structure has a model (`Spec.TestsSF.erfcSpec_witness`,
  `Spec.MedianMore.erfcInvSpec_witness`, `Spec.Incomplete.specs_consistent`).
-/
import Statrs.Real.Simp
import Statrs.Lemmas.ClosedCdfErfc
import Statrs.Spec.SFSpec_erfc
import Statrs.Spec.SFSpec_sampling
import Statrs.Spec.SFSpec_incomplete
import Statrs.Spec.SFSpec_tests
import Statrs.Spec.SFSpec_medianMore
import Statrs.Gen.D_normal
import Statrs.Gen.D_log_normal
import Statrs.Gen.D_levy
import Statrs.Gen.D_students_t
import Mathlib.Tactic
set_option linter.unusedVariables false
namespace Statrs.Props.C08
open Statrs Statrs.Gen Statrs.Lemmas.ClosedCdfErfc

section
variable [SF ℝ]

/-- `erfc 0 = 1` from the reflection formula at `z = 0` -/
theorem erfc_zero_of_spec (S : Statrs.Spec.Erfc.ErfcSpec) : (SF.erfc (0:ℝ) : ℝ) = 1 := by
  have h := S.erfc_neg 0
  rw [neg_zero] at h
  linarith

/-- Normal: cdf(median) = 1/2 -/
theorem normal_cdf_median_rel (S : Statrs.Spec.Erfc.ErfcSpec) (d : Normal ℝ) (h : 0 < d.f_std_dev) :
    Normal.cdf d (Normal.median d) = 1 / 2 := by
  rw [normal_cdf_eq]
  unfold Normal.median
  rw [sub_self, zero_div, erfc_zero_of_spec S]
  norm_num

/-- LogNormal: cdf(median) = 1/2 (`median() = exp location`) -/
theorem log_normal_cdf_median_rel (S : Statrs.Spec.Erfc.ErfcSpec) (d : LogNormal ℝ) (h : 0 < d.f_scale) :
    LogNormal.cdf d (LogNormal.median d) = 1 / 2 := by
  rw [log_normal_cdf_eq]
  unfold LogNormal.median
  rfun_norm
  rw [if_neg (not_le.mpr (Real.exp_pos _)), Real.log_exp, sub_self, zero_div, erfc_zero_of_spec S]
  norm_num

/-- Levy: `median() - mu = c / (2·erfc_inv(0.5)²)` -/
theorem levy_median_eq (S : Statrs.Spec.Sampling.ErfcInvSpec) (d : Levy ℝ) :
    Levy.median d = d.f_mu + 1 / 2 * d.f_c / (SF.erfc_inv (0.5:ℝ) : ℝ) ^ 2 := by
  have he : 0 < (SF.erfc_inv (0.5:ℝ) : ℝ) := S.inv_pos _ (by norm_num) (by norm_num)
  unfold Levy.median
  rfun_norm
  have hp : (SF.erfc_inv (0.5:ℝ) : ℝ) ^ (-(2.0:ℝ)) = ((SF.erfc_inv (0.5:ℝ) : ℝ) ^ 2)⁻¹ := by
    rw [show (2.0:ℝ) = ((2:ℕ):ℝ) by norm_num, Real.rpow_neg he.le, Real.rpow_natCast]
  rw [hp]
  generalize (SF.erfc_inv (0.5:ℝ) : ℝ) = e
  rw [show (0.5:ℝ) = 1 / 2 by norm_num]
  ring

/-- Levy: cdf(median) = 1/2 -/
theorem levy_cdf_median_rel (S : Statrs.Spec.Sampling.ErfcInvSpec) (d : Levy ℝ) (h : 0 < d.f_c) :
    Levy.cdf d (Levy.median d) = 1 / 2 := by
  have he : 0 < (SF.erfc_inv (0.5:ℝ) : ℝ) := S.inv_pos _ (by norm_num) (by norm_num)
  have hq : 0 < 1 / 2 * d.f_c / (SF.erfc_inv (0.5:ℝ) : ℝ) ^ 2 := by positivity
  rw [levy_median_eq S, levy_cdf_eq, if_neg (by linarith), add_sub_cancel_left]
  have : 1 / 2 * d.f_c / (1 / 2 * d.f_c / (SF.erfc_inv (0.5:ℝ) : ℝ) ^ 2) = (SF.erfc_inv (0.5:ℝ) : ℝ) ^ 2 := by
    field_simp
  rw [this, Real.sqrt_sq he.le, S.erfc_inv_right _ (by norm_num) (by norm_num)]
  norm_num

/-- StudentsT: cdf(median) = 1/2 (`k = 0`, `h = ν/ν = 1`, `I_1(ν/2, 1/2) = 1`) -/
theorem students_t_cdf_median_rel (S : Statrs.Spec.Incomplete.BetaSpec) (d : StudentsT ℝ)
    (hs : 0 < d.f_scale) (hν : 0 < d.f_freedom) :
    StudentsT.cdf d (StudentsT.median d) = 1 / 2 := by
  unfold StudentsT.cdf StudentsT.median
  rfun_norm
  simp only [Bool.false_eq_true, if_false, sub_self, zero_div, mul_zero, add_zero, le_refl, if_true]
  rw [div_self hν.ne', S.at_one _ _ (by norm_num; exact hν) (by norm_num)]
  norm_num

end

/-! ## non-vacuity: parameters and premise structures are satisfiable -/

example : ∃ d : Normal ℝ, 0 < d.f_std_dev := ⟨⟨0, 1⟩, by norm_num⟩
example : ∃ d : LogNormal ℝ, 0 < d.f_scale := ⟨⟨0, 1⟩, by norm_num⟩
example : ∃ d : Levy ℝ, 0 < d.f_c := ⟨⟨0, 1⟩, by norm_num⟩
example : ∃ d : StudentsT ℝ, 0 < d.f_scale ∧ 0 < d.f_freedom := ⟨⟨0, 1, 1⟩, by norm_num⟩
example : ∃ inst : SF ℝ, @Statrs.Spec.Erfc.ErfcSpec inst := ⟨_, Statrs.Spec.TestsSF.erfcSpec_witness⟩
example : ∃ inst : SF ℝ, @Statrs.Spec.Sampling.ErfcInvSpec inst :=
  ⟨_, Statrs.Spec.MedianMore.erfcInvSpec_witness⟩
example : ∃ inst : SF ℝ, @Statrs.Spec.Incomplete.BetaSpec inst := by
  obtain ⟨inst, _, _, hb, _, _⟩ := Statrs.Spec.Incomplete.specs_consistent
  exact ⟨inst, hb⟩

end Statrs.Props.C08
