/-
  C08 (min/max part) — `min()`/`max()` are the tightest bounds of the support
  (theorems over the regenerated model, carrier ℝ, under the constructor's acceptance predicate).
  Finite bounds: `cdf x = 0 ↔ x ≤ min` (`<` for the atomic/discrete families, as the model
  satisfies), `cdf x = 1 ↔ max ≤ x`, and the density is positive inside the support.
  Infinite bounds (`RFun.inf`/`negInf` are junk over ℝ, so they are not mentioned): the cdf never
  reaches 0 (resp. 1) and the density is positive everywhere on that side.
  Findings (counterexamples): Bernoulli's `min() = 0`, `max() = 1` are not tight for p = 1 / p = 0.
-/
import Statrs.Real.Simp
import Statrs.Lemmas.Quantile
import Statrs.Gen.D_uniform
import Statrs.Gen.D_exponential
import Statrs.Gen.D_cauchy
import Statrs.Gen.D_laplace
import Statrs.Gen.D_gumbel
import Statrs.Gen.D_pareto
import Statrs.Gen.D_triangular
import Statrs.Gen.D_weibull
import Statrs.Gen.D_dirac
import Statrs.Gen.D_bernoulli
import Statrs.Gen.D_discrete_uniform
import Statrs.Gen.D_geometric
import Mathlib.Tactic
set_option linter.unusedVariables false
namespace Statrs.Props.C08
open Statrs Statrs.Gen Statrs.Lemmas.Quantile

/-! ## Uniform -/

/-- Uniform: the cdf is 0 exactly up to `min()` -/
theorem uniform_cdf_eq_zero_iff (d : Uniform ℝ) (h : d.f_min < d.f_max) (x : ℝ) :
    Uniform.cdf d x = 0 ↔ x ≤ Uniform.min d := by
  unfold Uniform.cdf Uniform.min
  have hw : 0 < d.f_max - d.f_min := by linarith
  split_ifs with h1 h2
  · norm_num; exact h1
  · norm_num; linarith
  · have : 0 < (x - d.f_min) / (d.f_max - d.f_min) := div_pos (by linarith) hw
    constructor
    · intro h0; linarith
    · intro h0; exact absurd h0 h1

/-- Uniform: the cdf is 1 exactly from `max()` on -/
theorem uniform_cdf_eq_one_iff (d : Uniform ℝ) (h : d.f_min < d.f_max) (x : ℝ) :
    Uniform.cdf d x = 1 ↔ Uniform.max d ≤ x := by
  unfold Uniform.cdf Uniform.max
  have hw : 0 < d.f_max - d.f_min := by linarith
  split_ifs with h1 h2
  · norm_num; linarith
  · norm_num; exact h2
  · have : (x - d.f_min) / (d.f_max - d.f_min) < 1 := by rw [div_lt_one hw]; linarith
    constructor
    · intro h0; linarith
    · intro h0; exact absurd h0 h2

/-- Uniform: the density is positive exactly on `[min(), max()]` -/
theorem uniform_pdf_pos_iff (d : Uniform ℝ) (h : d.f_min < d.f_max) (x : ℝ) :
    0 < Uniform.pdf d x ↔ (Uniform.min d ≤ x ∧ x ≤ Uniform.max d) := by
  unfold Uniform.pdf Uniform.min Uniform.max
  have hw : 0 < d.f_max - d.f_min := by linarith
  split_ifs with h1
  · norm_num
    intro hx
    rcases h1 with h1 | h1
    · linarith
    · exact h1
  · push Not at h1
    have : 0 < (1.0:ℝ) / (d.f_max - d.f_min) := by norm_num; exact h
    exact ⟨fun _ => h1, fun _ => this⟩

example : ∃ d : Uniform ℝ, d.f_min < d.f_max := ⟨⟨0, 1⟩, by norm_num⟩

/-! ## Dirac (no pdf in the crate) -/

/-- Dirac: the cdf is 0 exactly below the atom `min() = max() = v`, 1 exactly from it on -/
theorem dirac_cdf_bounds (d : Dirac ℝ) (x : ℝ) :
    (Dirac.cdf d x = 0 ↔ x < Dirac.min d) ∧ (Dirac.cdf d x = 1 ↔ Dirac.max d ≤ x) := by
  unfold Dirac.cdf Dirac.min Dirac.max
  split_ifs with h1
  · refine ⟨⟨fun _ => h1, fun _ => by norm_num⟩, ⟨fun h0 => ?_, fun h0 => ?_⟩⟩
    · norm_num at h0
    · exact absurd h1 (not_lt.mpr h0)
  · refine ⟨⟨fun h0 => ?_, fun h0 => absurd h0 h1⟩, ⟨fun _ => not_lt.mp h1, fun _ => by norm_num⟩⟩
    norm_num at h0

example : ∃ d : Dirac ℝ, True := ⟨⟨0⟩, trivial⟩

/-! ## Exp -/

/-- Exp: the cdf is 0 exactly up to `min() = 0` -/
theorem exp_cdf_eq_zero_iff (d : Exp ℝ) (h : 0 < d.f_rate) (x : ℝ) :
    Exp.cdf d x = 0 ↔ x ≤ Exp.min d := by
  unfold Exp.cdf Exp.min
  rfun_norm
  split_ifs with h1
  · norm_num at h1 ⊢; exact h1.le
  · norm_num at h1 ⊢
    rw [sub_eq_zero, eq_comm, Real.exp_eq_one_iff]
    constructor
    · intro h0
      have : x = 0 := by
        rcases mul_eq_zero.mp (neg_eq_zero.mp h0) with h2 | h2
        · linarith
        · exact h2
      linarith
    · intro h0
      have : x = 0 := le_antisymm h0 h1
      rw [this]; ring

/-- Exp: the cdf never reaches 1 (upper bound of the support is +∞) -/
theorem exp_cdf_lt_one (d : Exp ℝ) (h : 0 < d.f_rate) (x : ℝ) : Exp.cdf d x < 1 := by
  unfold Exp.cdf
  rfun_norm
  split_ifs with h1
  · norm_num
  · norm_num; exact Real.exp_pos _

/-- Exp: the density is positive exactly on `[min(), ∞)` -/
theorem exp_pdf_pos_iff (d : Exp ℝ) (h : 0 < d.f_rate) (x : ℝ) :
    0 < Exp.pdf d x ↔ Exp.min d ≤ x := by
  unfold Exp.pdf Exp.min
  rfun_norm
  split_ifs with h1
  · norm_num at h1 ⊢; exact h1
  · norm_num at h1 ⊢
    exact ⟨fun _ => h1, fun _ => mul_pos h (Real.exp_pos _)⟩

example : ∃ d : Exp ℝ, 0 < d.f_rate := ⟨⟨1⟩, by norm_num⟩

/-! ## Pareto -/

/-- Pareto: the cdf is 0 exactly up to `min() = scale` -/
theorem pareto_cdf_eq_zero_iff (d : Pareto ℝ) (hs : 0 < d.f_scale) (ha : 0 < d.f_shape) (x : ℝ) :
    Pareto.cdf d x = 0 ↔ x ≤ Pareto.min d := by
  unfold Pareto.cdf Pareto.min
  rfun_norm
  split_ifs with h1
  · norm_num; exact h1.le
  · push Not at h1
    have hx : 0 < x := by linarith
    have hr0 : 0 < d.f_scale / x := div_pos hs hx
    have hr1 : d.f_scale / x ≤ 1 := by rw [div_le_one hx]; exact h1
    constructor
    · intro h0
      by_contra hlt
      push Not at hlt
      have : d.f_scale / x < 1 := by rw [div_lt_one hx]; exact hlt
      have := Real.rpow_lt_one hr0.le this ha
      norm_num at h0
      linarith
    · intro h0
      have : x = d.f_scale := le_antisymm h0 h1
      rw [this, div_self hs.ne', Real.one_rpow]; norm_num

/-- Pareto: the cdf never reaches 1 -/
theorem pareto_cdf_lt_one (d : Pareto ℝ) (hs : 0 < d.f_scale) (ha : 0 < d.f_shape) (x : ℝ) :
    Pareto.cdf d x < 1 := by
  unfold Pareto.cdf
  rfun_norm
  split_ifs with h1
  · norm_num
  · push Not at h1
    have : 0 < (d.f_scale / x) ^ d.f_shape := Real.rpow_pos_of_pos (div_pos hs (by linarith)) _
    norm_num; exact this

/-- Pareto: the density is positive exactly on `[min(), ∞)` -/
theorem pareto_pdf_pos_iff (d : Pareto ℝ) (hs : 0 < d.f_scale) (ha : 0 < d.f_shape) (x : ℝ) :
    0 < Pareto.pdf d x ↔ Pareto.min d ≤ x := by
  unfold Pareto.pdf Pareto.min
  rfun_norm
  split_ifs with h1
  · norm_num; exact h1
  · push Not at h1
    have hx : 0 < x := by linarith
    have : 0 < d.f_shape * d.f_scale ^ d.f_shape / x ^ (d.f_shape + (1.0:ℝ)) :=
      div_pos (mul_pos ha (Real.rpow_pos_of_pos hs _)) (Real.rpow_pos_of_pos hx _)
    exact ⟨fun _ => h1, fun _ => this⟩

example : ∃ d : Pareto ℝ, 0 < d.f_scale ∧ 0 < d.f_shape := ⟨⟨1, 1⟩, by norm_num⟩

/-! ## Weibull -/

/-- Weibull: closed form of the cdf on `x ≥ 0` -/
theorem weibull_cdf_eq (d : Weibull ℝ) (x : ℝ) (hx : 0 ≤ x) :
    Weibull.cdf d x = 1 - Real.exp (-(x ^ d.f_shape) * d.f_scale_pow_shape_inv) := by
  unfold Weibull.cdf
  rfun_norm
  rw [if_neg (by norm_num; exact hx)]
  ring

/-- Weibull: the cdf is 0 exactly up to `min() = 0` -/
theorem weibull_cdf_eq_zero_iff (d : Weibull ℝ) (hk : 0 < d.f_shape) (hs : 0 < d.f_scale)
    (hi : d.f_scale_pow_shape_inv = d.f_scale ^ (-d.f_shape)) (x : ℝ) :
    Weibull.cdf d x = 0 ↔ x ≤ Weibull.min d := by
  have hpos : 0 < d.f_scale_pow_shape_inv := by rw [hi]; exact Real.rpow_pos_of_pos hs _
  by_cases hx : x < 0
  · unfold Weibull.cdf Weibull.min
    rw [if_pos (by norm_num; exact hx)]
    norm_num; exact hx.le
  · push Not at hx
    rw [weibull_cdf_eq d x hx]
    unfold Weibull.min
    rw [sub_eq_zero, eq_comm, Real.exp_eq_one_iff]
    norm_num
    constructor
    · intro h0
      rcases h0 with h0 | h0
      · rw [Real.rpow_eq_zero hx hk.ne'] at h0; exact h0.le
      · exact absurd h0 hpos.ne'
    · intro h0
      left
      have : x = 0 := le_antisymm h0 hx
      rw [this, Real.zero_rpow hk.ne']

/-- Weibull: the cdf never reaches 1 -/
theorem weibull_cdf_lt_one (d : Weibull ℝ) (x : ℝ) : Weibull.cdf d x < 1 := by
  by_cases hx : x < 0
  · unfold Weibull.cdf
    rw [if_pos (by norm_num; exact hx)]; norm_num
  · push Not at hx
    rw [weibull_cdf_eq d x hx]
    have := Real.exp_pos (-(x ^ d.f_shape) * d.f_scale_pow_shape_inv)
    linarith

/-- Weibull: the density vanishes below `min()` and is positive above it
    (at `x = 0` itself it is `1/scale`, 0 or `0^(shape-1)` depending on the shape) -/
theorem weibull_pdf_support (d : Weibull ℝ) (hk : 0 < d.f_shape) (hs : 0 < d.f_scale) (x : ℝ) :
    (x < Weibull.min d → Weibull.pdf d x = 0) ∧ (Weibull.min d < x → 0 < Weibull.pdf d x) := by
  unfold Weibull.pdf Weibull.min
  rfun_norm
  constructor
  · intro hx
    rw [if_pos hx]; norm_num
  · intro hx
    have hx' : 0 < x := by norm_num at hx; exact hx
    rw [if_neg (by norm_num; exact hx'.le), if_neg (by norm_num; intro h; exact absurd h hx'.ne')]
    simp only [Bool.false_eq_true, if_false]
    have : 0 < x / d.f_scale := div_pos hx' hs
    positivity

example : ∃ d : Weibull ℝ, 0 < d.f_shape ∧ 0 < d.f_scale ∧ d.f_scale_pow_shape_inv = d.f_scale ^ (-d.f_shape) :=
  ⟨⟨1, 1, 1⟩, by norm_num⟩

/-! ## Triangular -/

/-- Triangular: the cdf is 0 exactly up to `min()` -/
theorem triangular_cdf_eq_zero_iff (d : Triangular ℝ) (h1 : d.f_min ≤ d.f_mode) (h2 : d.f_mode ≤ d.f_max)
    (h3 : d.f_min ≠ d.f_max) (x : ℝ) : Triangular.cdf d x = 0 ↔ x ≤ Triangular.min d := by
  have hab : d.f_min < d.f_max := lt_of_le_of_ne (h1.trans h2) h3
  have hba : 0 < d.f_max - d.f_min := by linarith
  unfold Triangular.cdf Triangular.min
  simp only []
  split_ifs with ha hc hb
  · norm_num; exact ha
  · push Not at ha
    have : 0 < (x - d.f_min) * (x - d.f_min) / ((d.f_max - d.f_min) * (d.f_mode - d.f_min)) := by
      have : 0 < x - d.f_min := by linarith
      have : 0 < d.f_mode - d.f_min := by linarith
      positivity
    exact ⟨fun h0 => by linarith, fun h0 => absurd h0 (not_le.mpr ha)⟩
  · push Not at ha hc
    have hbc : 0 < d.f_max - d.f_mode := by linarith
    have : (d.f_max - x) * (d.f_max - x) / ((d.f_max - d.f_min) * (d.f_max - d.f_mode)) < 1 := by
      rw [div_lt_one (by positivity)]
      nlinarith
    constructor
    · intro h0; norm_num at h0; linarith
    · intro h0; exact absurd h0 (not_le.mpr ha)
  · push Not at ha
    norm_num; exact ha

/-- Triangular: the cdf is 1 exactly from `max()` on -/
theorem triangular_cdf_eq_one_iff (d : Triangular ℝ) (h1 : d.f_min ≤ d.f_mode) (h2 : d.f_mode ≤ d.f_max)
    (h3 : d.f_min ≠ d.f_max) (x : ℝ) : Triangular.cdf d x = 1 ↔ Triangular.max d ≤ x := by
  have hab : d.f_min < d.f_max := lt_of_le_of_ne (h1.trans h2) h3
  have hba : 0 < d.f_max - d.f_min := by linarith
  unfold Triangular.cdf Triangular.max
  simp only []
  split_ifs with ha hc hb
  · norm_num; linarith
  · push Not at ha
    have hca : 0 < d.f_mode - d.f_min := by linarith
    rw [div_eq_one_iff_eq (by positivity)]
    constructor
    · intro h0
      by_contra hlt
      push Not at hlt
      nlinarith
    · intro h0
      have hx : x = d.f_max := le_antisymm (hc.trans h2) h0
      have hc' : d.f_mode = d.f_max := le_antisymm h2 (hx ▸ hc)
      rw [hx, hc']
  · push Not at ha hc
    have hbc : 0 < d.f_max - d.f_mode := by linarith
    have : 0 < (d.f_max - x) * (d.f_max - x) / ((d.f_max - d.f_min) * (d.f_max - d.f_mode)) := by
      have : 0 < d.f_max - x := by linarith
      positivity
    constructor
    · intro h0; rw [show (1.0:ℝ) = 1 by norm_num] at h0; linarith
    · intro h0; exact absurd hb (not_lt.mpr h0)
  · norm_num; exact not_lt.mp hb

/-- Triangular: the density is positive exactly on `(min(), max())` together with the point
    `mode()` (which may be an endpoint: `pdf` tests `x == mode` first and returns `2/(max-min)`
    there, so `mode = min` / `mode = max` is no longer `0/0`); in particular it is positive strictly
    inside `(min(), max())`, wherever it is positive the point lies in `[min(), max()]`, and it is 0
    outside `[min(), max()]`. -/
theorem triangular_pdf_support (d : Triangular ℝ) (h1 : d.f_min ≤ d.f_mode) (h2 : d.f_mode ≤ d.f_max)
    (h3 : d.f_min ≠ d.f_max) (x : ℝ) :
    (Triangular.min d < x → x < Triangular.max d → 0 < Triangular.pdf d x) ∧
    (0 < Triangular.pdf d x ↔ (Triangular.min d < x ∧ x < Triangular.max d) ∨ x = d.f_mode) ∧
    (0 < Triangular.pdf d x → Triangular.min d ≤ x ∧ x ≤ Triangular.max d) ∧
    (x < Triangular.min d ∨ Triangular.max d < x → Triangular.pdf d x = 0) := by
  have hab : d.f_min < d.f_max := lt_of_le_of_ne (h1.trans h2) h3
  have hba : 0 < d.f_max - d.f_min := by linarith
  have hiff : 0 < Triangular.pdf d x ↔ (d.f_min < x ∧ x < d.f_max) ∨ x = d.f_mode := by
    unfold Triangular.pdf
    rfun_norm
    split_ifs with hE hA hB
    · constructor
      · intro _; exact Or.inr hE
      · intro _; norm_num; exact hab
    · have hca : 0 < d.f_mode - d.f_min := by linarith [hA.1, hA.2]
      constructor
      · intro hp
        left
        refine ⟨?_, by linarith [hA.2]⟩
        by_contra hle
        have hx : x = d.f_min := le_antisymm (not_lt.mp hle) hA.1
        rw [hx] at hp; norm_num at hp
      · rintro (⟨ha, _⟩ | he)
        · have : 0 < x - d.f_min := by linarith
          norm_num; positivity
        · exact absurd he hE
    · have hbc : 0 < d.f_max - d.f_mode := by linarith [hB.1, hB.2]
      constructor
      · intro hp
        left
        refine ⟨by linarith [hB.1], ?_⟩
        by_contra hle
        have hx : x = d.f_max := le_antisymm hB.2 (not_lt.mp hle)
        rw [hx] at hp; norm_num at hp
      · rintro (⟨_, hb⟩ | he)
        · have : 0 < d.f_max - x := by linarith
          norm_num; positivity
        · exact absurd he hE
    · constructor
      · intro hp; norm_num at hp
      · rintro (⟨ha, hb⟩ | he)
        · exfalso
          rcases lt_or_ge x d.f_mode with hlt | hge
          · exact hA ⟨ha.le, hlt⟩
          · exact hB ⟨lt_of_le_of_ne hge (Ne.symm hE), hb.le⟩
        · exact absurd he hE
  refine ⟨?_, ?_, ?_, ?_⟩
  · intro ha hb
    exact hiff.mpr (Or.inl ⟨ha, hb⟩)
  · exact hiff
  · intro hp
    unfold Triangular.min Triangular.max
    rcases hiff.mp hp with ⟨ha, hb⟩ | he
    · exact ⟨ha.le, hb.le⟩
    · rw [he]; exact ⟨h1, h2⟩
  · intro hx
    unfold Triangular.pdf Triangular.min Triangular.max at *
    rfun_norm
    rcases hx with hx | hx
    · rw [if_neg (by intro h; linarith), if_neg (by intro h; linarith [h.1]),
        if_neg (by intro h; linarith [h.1])]; norm_num
    · rw [if_neg (by intro h; linarith), if_neg (by intro h; linarith [h.2]),
        if_neg (by intro h; linarith [h.2])]; norm_num

/-- Triangular, formerly defective corner `mode = min` (resp. `mode = max`): the density at that
    endpoint is `2/(max-min) > 0` (it was `0/0`). -/
theorem triangular_pdf_pos_at_mode (d : Triangular ℝ) (h1 : d.f_min ≤ d.f_mode) (h2 : d.f_mode ≤ d.f_max)
    (h3 : d.f_min ≠ d.f_max) :
    Triangular.pdf d d.f_mode = 2 / (d.f_max - d.f_min) ∧ 0 < Triangular.pdf d d.f_mode := by
  have hab : d.f_min < d.f_max := lt_of_le_of_ne (h1.trans h2) h3
  have hba : 0 < d.f_max - d.f_min := by linarith
  have e : Triangular.pdf d d.f_mode = 2 / (d.f_max - d.f_min) := by
    unfold Triangular.pdf
    rfun_norm
    norm_num
  exact ⟨e, by rw [e]; positivity⟩

example : ∃ d : Triangular ℝ, d.f_min ≤ d.f_mode ∧ d.f_mode ≤ d.f_max ∧ d.f_min ≠ d.f_max :=
  ⟨⟨0, 1, 0⟩, by norm_num⟩

/-! ## families supported on the whole line: Cauchy, Laplace, Gumbel
`min()`/`max()` are `∓∞` (junk over ℝ, not mentioned): tightness means the cdf stays strictly
inside (0,1) and the density is positive everywhere. -/

/-- Cauchy: `0 < cdf x < 1` and `0 < pdf x` for every x -/
theorem cauchy_full_support (d : Cauchy ℝ) (h : 0 < d.f_scale) (x : ℝ) :
    0 < Cauchy.cdf d x ∧ Cauchy.cdf d x < 1 ∧ 0 < Cauchy.pdf d x := by
  unfold Cauchy.cdf Cauchy.pdf
  rfun_norm
  have hpi := Real.pi_pos
  have a := Real.neg_pi_div_two_lt_arctan ((x - d.f_location) / d.f_scale)
  have b := Real.arctan_lt_pi_div_two ((x - d.f_location) / d.f_scale)
  have e : (1.0:ℝ) / Real.pi * Real.arctan ((x - d.f_location) / d.f_scale)
      = Real.arctan ((x - d.f_location) / d.f_scale) / Real.pi := by norm_num; ring
  rw [e]
  refine ⟨?_, ?_, ?_⟩
  · have : -(1/2) < Real.arctan ((x - d.f_location) / d.f_scale) / Real.pi := by
      rw [lt_div_iff₀ hpi]; linarith
    norm_num; linarith
  · have : Real.arctan ((x - d.f_location) / d.f_scale) / Real.pi < 1/2 := by
      rw [div_lt_iff₀ hpi]; linarith
    norm_num; linarith
  · have hu := mul_self_nonneg ((x - d.f_location) / d.f_scale)
    apply div_pos (by norm_num)
    apply mul_pos (mul_pos hpi h)
    rw [show (1.0:ℝ) = 1 by norm_num]; linarith

example : ∃ d : Cauchy ℝ, 0 < d.f_scale := ⟨⟨0, 1⟩, by norm_num⟩

/-- Laplace: `0 < cdf x < 1` and `0 < pdf x` for every x -/
theorem laplace_full_support (d : Laplace ℝ) (h : 0 < d.f_scale) (x : ℝ) :
    0 < Laplace.cdf d x ∧ Laplace.cdf d x < 1 ∧ 0 < Laplace.pdf d x := by
  unfold Laplace.cdf Laplace.pdf
  rfun_norm
  have hy0 : 0 < Real.exp (-|x - d.f_location| / d.f_scale) := Real.exp_pos _
  have hy1 : Real.exp (-|x - d.f_location| / d.f_scale) ≤ 1 := by
    rw [Real.exp_le_one_iff]
    exact div_nonpos_of_nonpos_of_nonneg (by simp) h.le
  refine ⟨?_, ?_, ?_⟩
  · split_ifs <;> norm_num <;> linarith
  · split_ifs <;> norm_num <;> linarith
  · exact div_pos (Real.exp_pos _) (by norm_num; exact h)

example : ∃ d : Laplace ℝ, 0 < d.f_scale := ⟨⟨0, 1⟩, by norm_num⟩

/-- Gumbel: `0 < cdf x < 1` and `0 < pdf x` for every x -/
theorem gumbel_full_support (d : Gumbel ℝ) (h : 0 < d.f_scale) (x : ℝ) :
    0 < Gumbel.cdf d x ∧ Gumbel.cdf d x < 1 ∧ 0 < Gumbel.pdf d x := by
  unfold Gumbel.cdf Gumbel.pdf
  rfun_norm
  refine ⟨Real.exp_pos _, ?_, ?_⟩
  · rw [Real.exp_lt_one_iff]
    have := Real.exp_pos (-(x - d.f_location) / d.f_scale)
    linarith
  · norm_num; positivity

example : ∃ d : Gumbel ℝ, 0 < d.f_scale := ⟨⟨0, 1⟩, by norm_num⟩

/-! ## discrete families (arguments are `u64`/`i64`, modelled by `Int`) -/

/-- DiscreteUniform: the cdf is 0 exactly below `min()` and 1 exactly from `max()` on -/
theorem discrete_uniform_cdf_bounds (d : DiscreteUniform) (h : d.f_min ≤ d.f_max) (x : Int) :
    (DiscreteUniform.cdf (α := ℝ) d x = 0 ↔ x < DiscreteUniform.min (α := ℝ) d) ∧
    (DiscreteUniform.cdf (α := ℝ) d x = 1 ↔ DiscreteUniform.max (α := ℝ) d ≤ x) := by
  unfold DiscreteUniform.min DiscreteUniform.max
  by_cases h1 : x < d.f_min
  · have : DiscreteUniform.cdf (α := ℝ) d x = 0 := by
      unfold DiscreteUniform.cdf; rw [if_pos h1]; norm_num
    rw [this]
    exact ⟨⟨fun _ => h1, fun _ => rfl⟩, ⟨fun h0 => by norm_num at h0, fun h0 => by omega⟩⟩
  · by_cases h2 : d.f_max ≤ x
    · have : DiscreteUniform.cdf (α := ℝ) d x = 1 := by
        unfold DiscreteUniform.cdf; rw [if_neg h1, if_pos h2]; norm_num
      rw [this]
      exact ⟨⟨fun h0 => by norm_num at h0, fun h0 => absurd h0 h1⟩, ⟨fun _ => h2, fun _ => rfl⟩⟩
    · have hc : DiscreteUniform.cdf (α := ℝ) d x = ((x : ℝ) - d.f_min + 1) / ((d.f_max : ℝ) - d.f_min + 1) := by
        unfold DiscreteUniform.cdf
        rfun_norm
        rw [if_neg h1, if_neg h2]
        have ha : (d.f_min : ℝ) ≤ x := by exact_mod_cast not_lt.mp h1
        have hb : (x : ℝ) < d.f_max := by exact_mod_cast not_le.mp h2
        have hden : (0:ℝ) < (d.f_max : ℝ) - d.f_min + 1 := by linarith
        have : ¬ ((1.0:ℝ) < ((x : ℝ) - d.f_min + (1.0:ℝ)) / ((d.f_max : ℝ) - d.f_min + (1.0:ℝ))) := by
          norm_num
          rw [div_le_one hden]; linarith
        rw [if_neg this]
        norm_num
      have ha : (d.f_min : ℝ) ≤ x := by exact_mod_cast not_lt.mp h1
      have hb : (x : ℝ) < d.f_max := by exact_mod_cast not_le.mp h2
      have hden : (0:ℝ) < (d.f_max : ℝ) - d.f_min + 1 := by linarith
      have hpos : 0 < ((x : ℝ) - d.f_min + 1) / ((d.f_max : ℝ) - d.f_min + 1) := div_pos (by linarith) hden
      have hlt : ((x : ℝ) - d.f_min + 1) / ((d.f_max : ℝ) - d.f_min + 1) < 1 := by
        rw [div_lt_one hden]; linarith
      rw [hc]
      exact ⟨⟨fun h0 => by linarith, fun h0 => absurd h0 h1⟩, ⟨fun h0 => by linarith, fun h0 => absurd h0 h2⟩⟩

/-- DiscreteUniform: the pmf is positive exactly on `[min(), max()]` -/
theorem discrete_uniform_pmf_pos_iff (d : DiscreteUniform) (h : d.f_min ≤ d.f_max) (x : Int) :
    0 < DiscreteUniform.pmf (α := ℝ) d x ↔ (DiscreteUniform.min (α := ℝ) d ≤ x ∧ x ≤ DiscreteUniform.max (α := ℝ) d) := by
  unfold DiscreteUniform.pmf DiscreteUniform.min DiscreteUniform.max
  rfun_norm
  split_ifs with h1
  · have : (0:ℝ) < ((d.f_max - d.f_min + 1 : Int) : ℝ) := by
      have : (0:Int) < d.f_max - d.f_min + 1 := by omega
      exact_mod_cast this
    have : 0 < (1.0:ℝ) / ((d.f_max - d.f_min + 1 : Int) : ℝ) := by norm_num at this ⊢; exact this
    exact ⟨fun _ => h1, fun _ => this⟩
  · constructor
    · intro h0; norm_num at h0
    · intro h0; exact absurd h0 h1

example : ∃ d : DiscreteUniform, d.f_min ≤ d.f_max := ⟨⟨0, 1⟩, by norm_num⟩

/-- Bernoulli, `0 < p < 1`: there is mass at `min() = 0` (`cdf 0 > 0`) and the cdf is 1 exactly
    from `max() = 1` on -/
theorem bernoulli_cdf_bounds (d : Bernoulli ℝ) (hn : d.f_b.f_n = 1) (h0 : 0 < d.f_b.f_p) (h1 : d.f_b.f_p < 1)
    (x : Int) :
    0 < Bernoulli.cdf d (Bernoulli.min d) ∧ (Bernoulli.cdf d x = 1 ↔ Bernoulli.max d ≤ x) := by
  unfold Bernoulli.cdf Bernoulli.min Bernoulli.max Binomial.p
  constructor
  · norm_num; exact h1
  · split_ifs with hx
    · norm_num; exact hx
    · constructor
      · intro h; norm_num at h; linarith
      · intro h; exact absurd h hx

/-- Bernoulli, `0 < p < 1`, for every special-function instance: the pmf is positive exactly on
    `[min(), max()] = {0, 1}` (arguments are `u64`, so `0 ≤ x`) -/
theorem bernoulli_pmf_pos_iff [SF ℝ] (d : Bernoulli ℝ) (hn : d.f_b.f_n = 1) (h0 : 0 < d.f_b.f_p)
    (h1 : d.f_b.f_p < 1) (x : Int) (hx : 0 ≤ x) :
    0 < Bernoulli.pmf d x ↔ (Bernoulli.min d ≤ x ∧ x ≤ Bernoulli.max d) := by
  unfold Bernoulli.pmf Binomial.pmf Bernoulli.min Bernoulli.max
  rfun_norm
  rw [hn]
  by_cases ha : (1 : Int) < x
  · rw [if_pos ha]
    constructor
    · intro h; norm_num at h
    · intro h; omega
  · have hb : ¬ (d.f_b.f_p = (0.0:ℝ)) := by norm_num; exact h0.ne'
    have hc : ¬ (decide (d.f_b.f_p = (1.0:ℝ)) = true) := by norm_num; exact h1.ne
    rw [if_neg ha, if_neg hb, if_neg hc]
    exact ⟨fun _ => ⟨hx, not_lt.mp ha⟩, fun _ => Real.exp_pos _⟩

example : ∃ d : Bernoulli ℝ, d.f_b.f_n = 1 ∧ 0 < d.f_b.f_p ∧ d.f_b.f_p < 1 := ⟨⟨⟨1 / 2, 1⟩⟩, rfl, by norm_num, by norm_num⟩

/-- FINDING: `Bernoulli::new(0.0)` is accepted; all mass is at 0 (`cdf 0 = 1`) but `max()` is 1,
    so `max()` is not the tightest upper bound of the support. -/
theorem bernoulli_max_counterexample :
    ∃ d : Bernoulli ℝ, d.f_b.f_n = 1 ∧ 0 ≤ d.f_b.f_p ∧ d.f_b.f_p ≤ 1 ∧
      Bernoulli.cdf d 0 = 1 ∧ (0 : Int) < Bernoulli.max d := by
  refine ⟨⟨⟨0, 1⟩⟩, rfl, by norm_num, by norm_num, ?_, ?_⟩
  · unfold Bernoulli.cdf Binomial.p; norm_num
  · unfold Bernoulli.max; norm_num

/-- FINDING: `Bernoulli::new(1.0)` is accepted; there is no mass at `min() = 0` (`cdf (min) = 0`),
    so `min()` is not the tightest lower bound of the support. -/
theorem bernoulli_min_counterexample :
    ∃ d : Bernoulli ℝ, d.f_b.f_n = 1 ∧ 0 ≤ d.f_b.f_p ∧ d.f_b.f_p ≤ 1 ∧
      Bernoulli.cdf d (Bernoulli.min d) = 0 := by
  refine ⟨⟨⟨1, 1⟩⟩, rfl, by norm_num, by norm_num, ?_⟩
  unfold Bernoulli.cdf Bernoulli.min Binomial.p; norm_num

/-- Geometric, `0 < p < 1` (`u64` arguments, `0 ≤ x`): the cdf is 0 exactly below `min() = 1`,
    never reaches 1, and the pmf is positive at every `x ≠ 0`
    (`max()` is `u64::MAX`, an artefact of the argument type; not stated). -/
theorem geometric_cdf_bounds_partial (d : Geometric ℝ) (h0 : 0 < d.f_p) (h1 : d.f_p < 1) (x : Int) (hx : 0 ≤ x) :
    (Geometric.cdf d x = 0 ↔ x < Geometric.min d) ∧ Geometric.cdf d x < 1 ∧
      (x ≠ 0 → 0 < Geometric.pmf d x) := by
  unfold Geometric.cdf Geometric.min Geometric.pmf
  rfun_norm
  have hL : Real.log (1 + -d.f_p) < 0 := Real.log_neg (by linarith) (by linarith)
  split_ifs with hz
  · refine ⟨⟨fun _ => by omega, fun _ => by norm_num⟩, by norm_num, fun h => absurd hz h⟩
  · have hxpos : (0:ℝ) < x := by
      have : 0 < x := by omega
      exact_mod_cast this
    have hneg : Real.log (1 + -d.f_p) * (x : ℝ) < 0 := mul_neg_of_neg_of_pos hL hxpos
    have he1 : Real.exp (Real.log (1 + -d.f_p) * (x : ℝ)) < 1 := by
      rw [Real.exp_lt_one_iff]  
      exact hneg
    have he0 := Real.exp_pos (Real.log (1 + -d.f_p) * (x : ℝ))
    refine ⟨⟨fun h => by linarith, fun h => by omega⟩, by linarith, fun _ => ?_⟩
    have : (0:ℝ) < (1.0:ℝ) - d.f_p := by norm_num; exact h1
    exact mul_pos (Real.rpow_pos_of_pos this _) h0

example : ∃ d : Geometric ℝ, 0 < d.f_p ∧ d.f_p < 1 := ⟨⟨1 / 2⟩, by norm_num⟩

end Statrs.Props.C08
