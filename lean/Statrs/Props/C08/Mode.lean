/-
  C08 (mode part) — `mode()` is a point where the model's pdf attains its supremum:
  `∀ x, pdf x ≤ pdf (mode)` (theorems over the regenerated model, carrier ℝ, under the
  constructor's acceptance predicate plus the extra hypotheses named in each statement).
  Families: Uniform, Exp, Cauchy, Laplace, Gumbel, Pareto, Triangular, Weibull; DiscreteUniform,
  Geometric (pmf).
  (Dirac has `mode()` but no pdf in the crate, so there is nothing to state.)
  (Three earlier findings were fixed in the source and are now positive theorems: Triangular with
  `mode = min`/`mode = max` — `pdf` tests `x == mode` first and returns `2/(max-min)`; Geometric pmf
  beyond `i32::MAX` — the exponent is `(x-1) as f64`, no `as i32` cast; Weibull with shape < 1 —
  `mode()` is now `0` (guard `shape < 1 || ulps_eq!(shape, 1)`), and the pdf is non-increasing on
  `(0, ∞)`: `weibull_mode_shape_le_one`, `weibull_pdf_antitone_of_shape_le_one`.)
-/
import Statrs.Real.Simp
import Statrs.Lemmas.Quantile
import Statrs.Gen.D_uniform
import Statrs.Gen.D_exponential
import Statrs.Gen.D_cauchy
import Statrs.Gen.D_laplace
import Statrs.Gen.D_gumbel
import Statrs.Gen.D_pareto
import Statrs.Gen.D_triangular
import Statrs.Gen.D_weibull
import Statrs.Gen.D_discrete_uniform
import Statrs.Gen.D_geometric
import Mathlib.Tactic
set_option linter.unusedVariables false
namespace Statrs.Props.C08
open Statrs Statrs.Gen Statrs.Lemmas.Quantile

/-- Uniform: the pdf is maximal at `mode()` (the midpoint) -/
theorem uniform_mode (d : Uniform ℝ) (h : d.f_min < d.f_max) (x : ℝ) :
    Uniform.pdf d x ≤ Uniform.pdf d (unwrapO (Uniform.mode d)) := by
  unfold Uniform.mode unwrapO Uniform.pdf
  have hm : ¬ ((d.f_min + d.f_max) / (2.0:ℝ) < d.f_min ∨ d.f_max < (d.f_min + d.f_max) / (2.0:ℝ)) := by
    norm_num; constructor <;> linarith
  simp only [if_neg hm]
  have : 0 ≤ (1.0:ℝ) / (d.f_max - d.f_min) := by norm_num; linarith
  split_ifs
  · norm_num at this ⊢; linarith
  · exact le_refl _

example : ∃ d : Uniform ℝ, d.f_min < d.f_max := ⟨⟨0, 1⟩, by norm_num⟩

/-- Exp: the pdf is maximal at `mode() = 0` -/
theorem exp_mode (d : Exp ℝ) (h : 0 < d.f_rate) (x : ℝ) :
    Exp.pdf d x ≤ Exp.pdf d (unwrapO (Exp.mode d)) := by
  unfold Exp.mode unwrapO Exp.pdf
  rfun_norm
  simp only [lt_irrefl, if_false]
  split_ifs with h1
  · norm_num; exact h.le
  · norm_num at h1 ⊢
    have : Real.exp (-(d.f_rate * x)) ≤ 1 := by
      rw [Real.exp_le_one_iff]; nlinarith
    nlinarith

example : ∃ d : Exp ℝ, 0 < d.f_rate := ⟨⟨1⟩, by norm_num⟩

/-- Cauchy: the pdf is maximal at `mode() = location` -/
theorem cauchy_mode (d : Cauchy ℝ) (h : 0 < d.f_scale) (x : ℝ) :
    Cauchy.pdf d x ≤ Cauchy.pdf d (unwrapO (Cauchy.mode d)) := by
  unfold Cauchy.mode unwrapO Cauchy.pdf
  rfun_norm
  have hpi := Real.pi_pos
  have hu := mul_self_nonneg ((x - d.f_location) / d.f_scale)
  have hps : 0 < Real.pi * d.f_scale := mul_pos hpi h
  rw [show (1.0:ℝ) = 1 by norm_num]
  simp only [sub_self, zero_div, mul_zero, add_zero, mul_one]
  apply div_le_div_of_nonneg_left (by norm_num) hps
  nlinarith

example : ∃ d : Cauchy ℝ, 0 < d.f_scale := ⟨⟨0, 1⟩, by norm_num⟩

/-- Laplace: the pdf is maximal at `mode() = location` -/
theorem laplace_mode (d : Laplace ℝ) (h : 0 < d.f_scale) (x : ℝ) :
    Laplace.pdf d x ≤ Laplace.pdf d (unwrapO (Laplace.mode d)) := by
  unfold Laplace.mode unwrapO Laplace.pdf
  rfun_norm
  simp only [sub_self, abs_zero, neg_zero, zero_div, Real.exp_zero]
  have hy1 : Real.exp (-|x - d.f_location| / d.f_scale) ≤ 1 := by
    rw [Real.exp_le_one_iff]
    exact div_nonpos_of_nonpos_of_nonneg (by simp) h.le
  exact div_le_div_of_nonneg_right hy1 (by norm_num; exact h.le)

example : ∃ d : Laplace ℝ, 0 < d.f_scale := ⟨⟨0, 1⟩, by norm_num⟩

/-- Gumbel: the pdf is maximal at `mode() = location` (`mode` is not an `Option` for this family) -/
theorem gumbel_mode (d : Gumbel ℝ) (h : 0 < d.f_scale) (x : ℝ) :
    Gumbel.pdf d x ≤ Gumbel.pdf d (Gumbel.mode d) := by
  unfold Gumbel.mode Gumbel.pdf
  rfun_norm
  simp only [sub_self, neg_zero, zero_div, Real.exp_zero, mul_one]
  have key := mul_exp_neg_le (Real.exp (-(x - d.f_location) / d.f_scale))
  have hs : 0 ≤ (1.0:ℝ) / d.f_scale := by norm_num; exact h.le
  rw [mul_assoc]
  exact mul_le_mul_of_nonneg_left key hs

example : ∃ d : Gumbel ℝ, 0 < d.f_scale := ⟨⟨0, 1⟩, by norm_num⟩

/-- Pareto: the pdf is maximal at `mode() = scale` -/
theorem pareto_mode (d : Pareto ℝ) (hs : 0 < d.f_scale) (ha : 0 < d.f_shape) (x : ℝ) :
    Pareto.pdf d x ≤ Pareto.pdf d (unwrapO (Pareto.mode d)) := by
  unfold Pareto.mode unwrapO Pareto.pdf
  rfun_norm
  simp only [lt_irrefl, if_false]
  have hnum : 0 < d.f_shape * d.f_scale ^ d.f_shape := mul_pos ha (Real.rpow_pos_of_pos hs _)
  have hden : 0 < d.f_scale ^ (d.f_shape + (1.0:ℝ)) := Real.rpow_pos_of_pos hs _
  split_ifs with h1
  · norm_num at hden ⊢; positivity
  · push Not at h1
    apply div_le_div_of_nonneg_left hnum.le hden
    apply Real.rpow_le_rpow hs.le h1
    norm_num; linarith

example : ∃ d : Pareto ℝ, 0 < d.f_scale ∧ 0 < d.f_shape := ⟨⟨1, 1⟩, by norm_num⟩

/-- Triangular: the pdf at `mode()` is `2 / (max - min)` for every parameter triple (the
    `x == mode` branch of `pdf` is tested first, so `mode = min` / `mode = max` is no longer `0/0`) -/
theorem triangular_pdf_at_mode (d : Triangular ℝ) :
    Triangular.pdf d (unwrapO (Triangular.mode d)) = 2 / (d.f_max - d.f_min) := by
  unfold Triangular.mode unwrapO Triangular.pdf
  rfun_norm
  norm_num

/-- Triangular, under exactly the constructor's acceptance predicate (`min ≤ mode ≤ max`,
    `min ≠ max`; in particular `mode = min` and `mode = max` are included): the pdf is maximal at
    `mode()` -/
theorem triangular_mode (d : Triangular ℝ) (h1 : d.f_min ≤ d.f_mode) (h2 : d.f_mode ≤ d.f_max)
    (h3 : d.f_min ≠ d.f_max) (x : ℝ) :
    Triangular.pdf d x ≤ Triangular.pdf d (unwrapO (Triangular.mode d)) := by
  have hab : d.f_min < d.f_max := lt_of_le_of_ne (h1.trans h2) h3
  have hba : 0 < d.f_max - d.f_min := by linarith
  rw [triangular_pdf_at_mode]
  unfold Triangular.pdf
  rfun_norm
  split_ifs with hE hA hB
  · norm_num
  · have hca : 0 < d.f_mode - d.f_min := by linarith [hA.1, hA.2]
    rw [div_le_div_iff₀ (by positivity) hba]
    norm_num
    have : x - d.f_min ≤ d.f_mode - d.f_min := by linarith [hA.2]
    nlinarith
  · have hbc : 0 < d.f_max - d.f_mode := by linarith [hB.1, hB.2]
    rw [div_le_div_iff₀ (by positivity) hba]
    norm_num
    have : d.f_max - x ≤ d.f_max - d.f_mode := by linarith [hB.1]
    nlinarith
  · norm_num; positivity

example : ∃ d : Triangular ℝ, d.f_min ≤ d.f_mode ∧ d.f_mode ≤ d.f_max ∧ d.f_min ≠ d.f_max :=
  ⟨⟨0, 1, 0⟩, by norm_num⟩

/-- The formerly defective case `Triangular::new(0, 1, 0)` (`mode = min`): the pdf at `mode()` is
    `2 / (1 - 0) = 2` and bounds the pdf everywhere (instance of `triangular_mode`). -/
theorem triangular_mode_eq_min_instance :
    Triangular.pdf (⟨0, 1, 0⟩ : Triangular ℝ) (unwrapO (Triangular.mode (⟨0, 1, 0⟩ : Triangular ℝ))) = 2 ∧
      ∀ x, Triangular.pdf (⟨0, 1, 0⟩ : Triangular ℝ) x
        ≤ Triangular.pdf (⟨0, 1, 0⟩ : Triangular ℝ) (unwrapO (Triangular.mode (⟨0, 1, 0⟩ : Triangular ℝ))) := by
  refine ⟨by rw [triangular_pdf_at_mode]; norm_num, fun x => ?_⟩
  exact triangular_mode _ (by norm_num) (by norm_num) (by norm_num) x

/-! ## Weibull -/

/-- Weibull: the pdf at `x > 0`, written in the variable `u = (x/scale)^shape` -/
theorem weibull_pdf_pos_eq (d : Weibull ℝ) (hk : 0 < d.f_shape) (hs : 0 < d.f_scale)
    (hi : d.f_scale_pow_shape_inv = d.f_scale ^ (-d.f_shape)) (x : ℝ) (hx : 0 < x) :
    Weibull.pdf d x = d.f_shape / d.f_scale *
      (((x / d.f_scale) ^ d.f_shape) ^ ((d.f_shape - 1) / d.f_shape) * Real.exp (-((x / d.f_scale) ^ d.f_shape))) := by
  unfold Weibull.pdf
  rfun_norm
  rw [if_neg (by norm_num; exact hx.le), if_neg (by norm_num; intro h; exact absurd h hx.ne')]
  simp only [Bool.false_eq_true, if_false]
  have hxs : 0 < x / d.f_scale := div_pos hx hs
  rw [← Real.rpow_mul hxs.le]
  have e1 : d.f_shape * ((d.f_shape - 1) / d.f_shape) = d.f_shape - (1.0:ℝ) := by norm_num; field_simp
  have e2 : -(x ^ d.f_shape) * d.f_scale_pow_shape_inv = -((x / d.f_scale) ^ d.f_shape) := by
    rw [hi, Real.rpow_neg hs.le, Real.div_rpow hx.le hs.le]; ring
  rw [e1, e2]
  ring

/-- Weibull with shape = 1: the pdf is maximal at `mode() = 0` -/
theorem weibull_mode_shape_one (d : Weibull ℝ) (hk : d.f_shape = 1) (hs : 0 < d.f_scale)
    (hi : d.f_scale_pow_shape_inv = d.f_scale ^ (-d.f_shape)) (x : ℝ) :
    Weibull.pdf d x ≤ Weibull.pdf d (unwrapO (Weibull.mode d)) := by
  have hm : unwrapO (Weibull.mode d) = 0 := by
    unfold Weibull.mode unwrapO
    rfun_norm
    norm_num [hk]
  have h0 : Weibull.pdf d 0 = 1 / d.f_scale := by
    unfold Weibull.pdf
    rfun_norm
    norm_num [hk]
  rw [hm, h0]
  rcases lt_trichotomy x 0 with hx | hx | hx
  · unfold Weibull.pdf
    rw [if_pos (by norm_num; exact hx)]
    norm_num; exact hs.le
  · rw [hx, h0]
  · rw [weibull_pdf_pos_eq d (by rw [hk]; norm_num) hs hi x hx, hk]
    simp only [sub_self, zero_div, Real.rpow_zero, one_mul, Real.rpow_one]
    have : Real.exp (-(x / d.f_scale)) ≤ 1 := by
      rw [Real.exp_le_one_iff]
      have : 0 < x / d.f_scale := div_pos hx hs
      linarith
    exact mul_le_of_le_one_right (by positivity) this

/-- Weibull with shape > 1: the pdf is maximal at `mode() = scale·((k-1)/k)^(1/k)` -/
theorem weibull_mode_shape_gt_one (d : Weibull ℝ) (hk : 1 < d.f_shape) (hs : 0 < d.f_scale)
    (hi : d.f_scale_pow_shape_inv = d.f_scale ^ (-d.f_shape)) (x : ℝ) :
    Weibull.pdf d x ≤ Weibull.pdf d (unwrapO (Weibull.mode d)) := by
  have hk0 : 0 < d.f_shape := by linarith
  have ha : 0 < (d.f_shape - 1) / d.f_shape := div_pos (by linarith) hk0
  have hm : unwrapO (Weibull.mode d) = d.f_scale * ((d.f_shape - 1) / d.f_shape) ^ (1 / d.f_shape) := by
    unfold Weibull.mode unwrapO
    rfun_norm
    have : ¬ (d.f_shape < (1.0:ℝ) ∨ decide (d.f_shape = (1.0:ℝ)) = true) := by
      norm_num; exact ⟨hk.le, hk.ne'⟩
    simp only [if_neg this]
    norm_num
  have hmpos : 0 < d.f_scale * ((d.f_shape - 1) / d.f_shape) ^ (1 / d.f_shape) :=
    mul_pos hs (Real.rpow_pos_of_pos ha _)
  have hu : (d.f_scale * ((d.f_shape - 1) / d.f_shape) ^ (1 / d.f_shape) / d.f_scale) ^ d.f_shape
      = (d.f_shape - 1) / d.f_shape := by
    rw [mul_div_cancel_left₀ _ hs.ne', ← Real.rpow_mul ha.le]
    have : 1 / d.f_shape * d.f_shape = 1 := by field_simp
    rw [this, Real.rpow_one]
  rw [hm, weibull_pdf_pos_eq d hk0 hs hi _ hmpos, hu]
  have hpm : 0 ≤ d.f_shape / d.f_scale *
      (((d.f_shape - 1) / d.f_shape) ^ ((d.f_shape - 1) / d.f_shape) * Real.exp (-((d.f_shape - 1) / d.f_shape))) := by
    have := Real.rpow_pos_of_pos ha ((d.f_shape - 1) / d.f_shape)
    positivity
  rcases lt_trichotomy x 0 with hx | hx | hx
  · unfold Weibull.pdf
    rw [if_pos (by norm_num; exact hx)]
    rw [show (0.0:ℝ) = 0 by norm_num]; exact hpm
  · have h0 : Weibull.pdf d 0 = 0 := by
      unfold Weibull.pdf
      rfun_norm
      have hne : d.f_shape - 1 ≠ 0 := by linarith
      have hne1 : ¬ d.f_shape = 1 := hk.ne'
      norm_num [hne1, Real.zero_rpow hne]
    rw [hx, h0]; exact hpm
  · rw [weibull_pdf_pos_eq d hk0 hs hi x hx]
    apply mul_le_mul_of_nonneg_left _ (by positivity)
    exact rpow_mul_exp_neg_le _ _ ha (Real.rpow_pos_of_pos (div_pos hx hs) _)

/-- Weibull, `1 ≤ shape`: the pdf is maximal at `mode()`.  (The constructor accepts every
    `shape > 0`; for `shape < 1` the density has a pole at 0, so NO point maximises it — see
    `weibull_mode_shape_le_one`, `weibull_pdf_antitone_of_shape_le_one` and
    `weibull_pdf_strictAnti_of_shape_lt_one` below for what holds there.  `_partial` is kept as the
    historical name; the hypothesis `1 ≤ shape` is necessary.) -/
theorem weibull_mode_partial (d : Weibull ℝ) (hk : 1 ≤ d.f_shape) (hs : 0 < d.f_scale)
    (hi : d.f_scale_pow_shape_inv = d.f_scale ^ (-d.f_shape)) (x : ℝ) :
    Weibull.pdf d x ≤ Weibull.pdf d (unwrapO (Weibull.mode d)) := by
  rcases lt_or_eq_of_le hk with h | h
  · exact weibull_mode_shape_gt_one d h hs hi x
  · exact weibull_mode_shape_one d h.symm hs hi x

example : ∃ d : Weibull ℝ, 1 ≤ d.f_shape ∧ 0 < d.f_scale ∧ d.f_scale_pow_shape_inv = d.f_scale ^ (-d.f_shape) :=
  ⟨⟨2, 1, 1⟩, by norm_num⟩

/-- Weibull with `shape ≤ 1` (after the source fix: guard `shape < 1.0 || ulps_eq!(shape, 1.0)`):
    `mode()` is `0`.  Before the fix only `shape = 1` took this branch; `Weibull::new(0.5, 1.0).mode()`
    evaluated `((k-1)/k)^(1/k)` on a negative base (`1` over ℝ, NaN for fractional powers in IEEE). -/
theorem weibull_mode_shape_le_one (d : Weibull ℝ) (hk : d.f_shape ≤ 1) :
    Weibull.mode d = some 0 := by
  unfold Weibull.mode
  rfun_norm
  have hg : d.f_shape < (1.0:ℝ) ∨ decide (d.f_shape = (1.0:ℝ)) = true := by
    norm_num; exact lt_or_eq_of_le hk
  simp only [if_pos hg]
  norm_num

/-- Weibull with `0 < shape ≤ 1`: the pdf is non-increasing on `(0, ∞)`, i.e. no `y > 0` has larger
    density than any point nearer to `mode() = 0`.  (For `shape < 1` the density has a pole at 0, so
    "maximal at the mode" is stated in this form; for `shape = 1` see also `weibull_mode_shape_one`.) -/
theorem weibull_pdf_antitone_of_shape_le_one (d : Weibull ℝ) (hk0 : 0 < d.f_shape)
    (hk : d.f_shape ≤ 1) (hs : 0 < d.f_scale)
    (hi : d.f_scale_pow_shape_inv = d.f_scale ^ (-d.f_shape)) (x y : ℝ) (hx : 0 < x) (hxy : x ≤ y) :
    Weibull.pdf d y ≤ Weibull.pdf d x := by
  have hy : 0 < y := lt_of_lt_of_le hx hxy
  rw [weibull_pdf_pos_eq d hk0 hs hi x hx, weibull_pdf_pos_eq d hk0 hs hi y hy]
  have hux : 0 < (x / d.f_scale) ^ d.f_shape := Real.rpow_pos_of_pos (div_pos hx hs) _
  have huxy : (x / d.f_scale) ^ d.f_shape ≤ (y / d.f_scale) ^ d.f_shape :=
    Real.rpow_le_rpow (div_pos hx hs).le (div_le_div_of_nonneg_right hxy hs.le) hk0.le
  have he : (d.f_shape - 1) / d.f_shape ≤ 0 :=
    div_nonpos_of_nonpos_of_nonneg (by linarith) hk0.le
  have h1 : ((y / d.f_scale) ^ d.f_shape) ^ ((d.f_shape - 1) / d.f_shape)
      ≤ ((x / d.f_scale) ^ d.f_shape) ^ ((d.f_shape - 1) / d.f_shape) :=
    Real.rpow_le_rpow_of_nonpos hux huxy he
  have h2 : Real.exp (-((y / d.f_scale) ^ d.f_shape)) ≤ Real.exp (-((x / d.f_scale) ^ d.f_shape)) :=
    Real.exp_le_exp.mpr (by linarith)
  apply mul_le_mul_of_nonneg_left _ (by positivity)
  exact mul_le_mul h1 h2 (Real.exp_pos _).le (Real.rpow_nonneg hux.le _)

/-- Weibull with `shape < 1`: the pdf is STRICTLY decreasing on `(0, ∞)` — every `y > 0` is beaten by
    every point nearer to `mode() = 0`, so `0` is the only candidate for a mode. -/
theorem weibull_pdf_strictAnti_of_shape_lt_one (d : Weibull ℝ) (hk0 : 0 < d.f_shape)
    (hk : d.f_shape < 1) (hs : 0 < d.f_scale)
    (hi : d.f_scale_pow_shape_inv = d.f_scale ^ (-d.f_shape)) (x y : ℝ) (hx : 0 < x) (hxy : x < y) :
    Weibull.pdf d y < Weibull.pdf d x := by
  have hy : 0 < y := hx.trans hxy
  rw [weibull_pdf_pos_eq d hk0 hs hi x hx, weibull_pdf_pos_eq d hk0 hs hi y hy]
  have hux : 0 < (x / d.f_scale) ^ d.f_shape := Real.rpow_pos_of_pos (div_pos hx hs) _
  have huxy : (x / d.f_scale) ^ d.f_shape < (y / d.f_scale) ^ d.f_shape :=
    Real.rpow_lt_rpow (div_pos hx hs).le (div_lt_div_of_pos_right hxy hs) hk0
  have he : (d.f_shape - 1) / d.f_shape ≤ 0 :=
    div_nonpos_of_nonpos_of_nonneg (by linarith) hk0.le
  have h1 : ((y / d.f_scale) ^ d.f_shape) ^ ((d.f_shape - 1) / d.f_shape)
      ≤ ((x / d.f_scale) ^ d.f_shape) ^ ((d.f_shape - 1) / d.f_shape) :=
    Real.rpow_le_rpow_of_nonpos hux huxy.le he
  have h2 : Real.exp (-((y / d.f_scale) ^ d.f_shape)) < Real.exp (-((x / d.f_scale) ^ d.f_shape)) :=
    Real.exp_lt_exp.mpr (by linarith)
  apply mul_lt_mul_of_pos_left _ (by positivity)
  exact mul_lt_mul' h1 h2 (Real.exp_pos _).le (Real.rpow_pos_of_pos hux _)

example : ∃ d : Weibull ℝ, 0 < d.f_shape ∧ d.f_shape < 1 ∧ 0 < d.f_scale ∧
    d.f_scale_pow_shape_inv = d.f_scale ^ (-d.f_shape) :=
  ⟨⟨1 / 2, 1, 1⟩, by norm_num⟩

/-- The formerly defective case `Weibull::new(0.5, 1.0)`: `mode()` is now `0` (it was `1`, and
    `pdf 1 = e⁻¹/2 < pdf 0.25 = e^(-1/2)` showed that `1` is not a maximiser); the density decreases
    on `(0, ∞)`, in particular `pdf 1 < pdf 0.25` still holds. -/
theorem weibull_mode_shape_half_instance :
    Weibull.mode (⟨1 / 2, 1, 1⟩ : Weibull ℝ) = some 0 ∧
    unwrapO (Weibull.mode (⟨1 / 2, 1, 1⟩ : Weibull ℝ)) = 0 ∧
    (∀ x y, 0 < x → x ≤ y →
      Weibull.pdf (⟨1 / 2, 1, 1⟩ : Weibull ℝ) y ≤ Weibull.pdf (⟨1 / 2, 1, 1⟩ : Weibull ℝ) x) ∧
    Weibull.pdf (⟨1 / 2, 1, 1⟩ : Weibull ℝ) 1 < Weibull.pdf (⟨1 / 2, 1, 1⟩ : Weibull ℝ) (1 / 4) := by
  have hm := weibull_mode_shape_le_one (⟨1 / 2, 1, 1⟩ : Weibull ℝ) (by norm_num)
  refine ⟨hm, by rw [hm]; rfl, fun x y hx hxy => ?_, ?_⟩
  · exact weibull_pdf_antitone_of_shape_le_one _ (by norm_num) (by norm_num) (by norm_num)
      (by norm_num) x y hx hxy
  · exact weibull_pdf_strictAnti_of_shape_lt_one _ (by norm_num) (by norm_num) (by norm_num)
      (by norm_num) (1 / 4) 1 (by norm_num) (by norm_num)

/-! ## discrete families: DiscreteUniform, Geometric
(Bernoulli's pmf goes through the abstract `SF.ln_binomial`; not covered here.) -/

theorem discrete_uniform_mode_eq (d : DiscreteUniform) :
    unwrapO (DiscreteUniform.mode (α := ℝ) d) = ⌊((d.f_min : ℝ) + d.f_max) / 2⌋ := by
  unfold DiscreteUniform.mode unwrapO
  show RFun.toI64 (RFun.floor ((RFun.ofInt (d.f_min + d.f_max) : ℝ) / (2.0 : ℝ))) = _
  rfun_norm
  show (if (0:ℝ) ≤ (⌊((d.f_min + d.f_max : Int) : ℝ) / (2.0:ℝ)⌋ : ℝ) then ⌊(⌊((d.f_min + d.f_max : Int) : ℝ) / (2.0:ℝ)⌋ : ℝ)⌋
    else ⌈(⌊((d.f_min + d.f_max : Int) : ℝ) / (2.0:ℝ)⌋ : ℝ)⌉) = _
  simp only [Int.floor_intCast, Int.ceil_intCast, ite_self]
  push_cast; norm_num

/-- DiscreteUniform: the pmf is maximal at `mode()`, and `mode()` lies in `[min(), max()]` -/
theorem discrete_uniform_mode (d : DiscreteUniform) (h : d.f_min ≤ d.f_max) (x : Int) :
    DiscreteUniform.pmf (α := ℝ) d x ≤ DiscreteUniform.pmf (α := ℝ) d (unwrapO (DiscreteUniform.mode (α := ℝ) d)) ∧
    d.f_min ≤ unwrapO (DiscreteUniform.mode (α := ℝ) d) ∧ unwrapO (DiscreteUniform.mode (α := ℝ) d) ≤ d.f_max := by
  rw [discrete_uniform_mode_eq]
  have hab : (d.f_min : ℝ) ≤ d.f_max := by exact_mod_cast h
  have hlo : d.f_min ≤ ⌊((d.f_min : ℝ) + d.f_max) / 2⌋ := by rw [Int.le_floor]; linarith
  have hhi : ⌊((d.f_min : ℝ) + d.f_max) / 2⌋ ≤ d.f_max := by
    have : ((d.f_min : ℝ) + d.f_max) / 2 ≤ d.f_max := by linarith
    have h2 := Int.floor_le (((d.f_min : ℝ) + d.f_max) / 2)
    have : ((⌊((d.f_min : ℝ) + d.f_max) / 2⌋ : Int) : ℝ) ≤ (d.f_max : ℝ) := by linarith
    exact_mod_cast this
  refine ⟨?_, hlo, hhi⟩
  have hpos : (0:ℝ) < ((d.f_max - d.f_min + 1 : Int) : ℝ) := by
    have : (0:Int) < d.f_max - d.f_min + 1 := by omega
    exact_mod_cast this
  have hm : DiscreteUniform.pmf (α := ℝ) d ⌊((d.f_min : ℝ) + d.f_max) / 2⌋
      = 1 / ((d.f_max - d.f_min + 1 : Int) : ℝ) := by
    unfold DiscreteUniform.pmf
    rw [if_pos ⟨hlo, hhi⟩]
    rfun_norm
    norm_num
  rw [hm]
  unfold DiscreteUniform.pmf
  rfun_norm
  split_ifs
  · norm_num
  · rw [show (0.0:ℝ) = 0 by norm_num]; positivity

example : ∃ d : DiscreteUniform, d.f_min ≤ d.f_max := ⟨⟨0, 1⟩, by norm_num⟩

/-- Geometric: the pmf at `mode() = 1` is `p` -/
theorem geometric_pmf_at_mode (d : Geometric ℝ) :
    Geometric.pmf d (unwrapO (Geometric.mode d)) = d.f_p := by
  unfold Geometric.mode unwrapO Geometric.pmf usub
  rfun_norm
  norm_num

/-- Geometric: for every `u64` argument (`0 ≤ x`; no upper bound is needed — the exponent is now
    `(x - 1) as f64`, not an `i32` cast) the pmf is maximal at `mode() = 1`. -/
theorem geometric_mode (d : Geometric ℝ) (h0 : 0 < d.f_p) (h1 : d.f_p ≤ 1) (x : Int)
    (hx0 : 0 ≤ x) :
    Geometric.pmf d x ≤ Geometric.pmf d (unwrapO (Geometric.mode d)) := by
  rw [geometric_pmf_at_mode]
  unfold Geometric.pmf
  rfun_norm
  split_ifs with hz
  · rw [show (0.0:ℝ) = 0 by norm_num]; exact h0.le
  · have hu : usub x 1 = x - 1 := by unfold usub; rw [if_neg (by omega)]
    rw [hu]
    have hb0 : (0:ℝ) ≤ (1.0:ℝ) - d.f_p := by norm_num; exact h1
    have hb1 : (1.0:ℝ) - d.f_p ≤ 1 := by norm_num; exact h0.le
    have he : (0:ℝ) ≤ ((x - 1 : Int) : ℝ) := by exact_mod_cast (show (0:Int) ≤ x - 1 by omega)
    have := Real.rpow_le_one hb0 hb1 he
    nlinarith

example : ∃ d : Geometric ℝ, 0 < d.f_p ∧ d.f_p ≤ 1 := ⟨⟨1 / 2⟩, by norm_num⟩

/-- The formerly defective argument `x = 2^32` (the old `x as i32` cast wrapped it to 0 and the pmf
    was 1 > pmf(mode)): for `p = 1/2` the pmf there is now `(1/2)^(2^32 - 1) · 1/2 ≤ 1/2 = pmf(mode())`. -/
theorem geometric_mode_beyond_i32_instance :
    Geometric.pmf (⟨1 / 2⟩ : Geometric ℝ) 4294967296
      ≤ Geometric.pmf (⟨1 / 2⟩ : Geometric ℝ) (unwrapO (Geometric.mode (⟨1 / 2⟩ : Geometric ℝ))) ∧
    Geometric.pmf (⟨1 / 2⟩ : Geometric ℝ) (unwrapO (Geometric.mode (⟨1 / 2⟩ : Geometric ℝ))) = 1 / 2 :=
  ⟨geometric_mode _ (by norm_num) (by norm_num) _ (by norm_num), geometric_pmf_at_mode _⟩

end Statrs.Props.C08
