/-
  C08 (mode part, special-function families A) — `mode()` is a point where the model's pdf attains
  its supremum, for the Gamma family and the three families built on the same kernel:
  Gamma, Erlang, ChiSquared, Chi.
-/
import Statrs.Real.Simp
import Statrs.Lemmas.ModeKernel
import Statrs.Spec.SFSpec_Density
import Statrs.Gen.D_gamma
import Statrs.Gen.D_erlang
import Statrs.Gen.D_chi_squared
import Statrs.Gen.D_chi
import Mathlib.Tactic
set_option linter.unusedVariables false
set_option linter.unusedSectionVars false
namespace Statrs.Props.C08
open Statrs Statrs.Gen Statrs.Lemmas.ModeKernel Statrs.Spec

variable [SF ℝ]

/-! ## Gamma -/

/-- Gamma: `mode()` is `Some((shape − 1)/rate)` exactly when `1 ≤ shape` -/
theorem gamma_mode_eq (d : Gamma ℝ) (h1 : 1 ≤ d.f_shape) :
    Gamma.mode d = some ((d.f_shape - 1) / d.f_rate) := by
  unfold Gamma.mode
  rw [if_neg (by norm_num; exact h1)]
  norm_num

/-- Gamma: the value of `pdf` at `x > 0` (the three regular branches) -/
theorem gamma_pdf_pos (d : Gamma ℝ) (x : ℝ) (hx : 0 < x) :
    Gamma.pdf d x =
      if d.f_shape = 1 then d.f_rate * Real.exp (-d.f_rate * x)
      else if 160 < d.f_shape then
        Real.exp (d.f_shape * Real.log d.f_rate + (d.f_shape - 1) * Real.log x - d.f_rate * x
          - SF.ln_gamma d.f_shape)
      else d.f_rate ^ d.f_shape * x ^ (d.f_shape - 1) * Real.exp (-d.f_rate * x) / SF.gamma d.f_shape := by
  unfold Gamma.pdf Gamma.ln_pdf
  rfun_norm
  have h0 : ¬ x < (0.0:ℝ) := by norm_num; exact hx.le
  simp only [if_neg h0, Bool.false_eq_true, if_false, decide_eq_true_eq]
  norm_num
  by_cases h : d.f_shape = 1 <;> simp [h]

/-- Gamma, core statement: under the constructor's predicate (`0 < shape`, `0 < rate`) and the guard
    `1 ≤ shape` under which `mode()` is `Some`, the pdf is maximal at `mode() = (shape−1)/rate`.
    * The only fact used about the abstract `SF.gamma` is the SIGN of the normalising constant,
      `0 ≤ SF.gamma shape` (the branch `shape ≤ 160`, `shape ≠ 1` divides by it; nothing is needed
      about `SF.ln_gamma`, which sits inside `exp`).
    * `x ≠ 0 ∨ shape ≤ 160`: for `shape > 160` the code evaluates `exp(ln_pdf x)` and `ln_pdf 0`
      contains `ln 0`, which is `−∞` in IEEE (`pdf 0 = 0`) but the junk value `0` over ℝ; that single
      point is excluded (model limit, see `gamma_mode_log_zero_artifact`). -/
theorem gamma_mode_of_gamma_nonneg (d : Gamma ℝ) (hs : 0 < d.f_shape) (hr : 0 < d.f_rate)
    (h1 : 1 ≤ d.f_shape) (hG : 0 ≤ (SF.gamma d.f_shape : ℝ)) (x : ℝ)
    (hx : x ≠ 0 ∨ d.f_shape ≤ 160) :
    Gamma.pdf d x ≤ Gamma.pdf d (unwrapO (Gamma.mode d)) := by
  rw [gamma_mode_eq d h1]
  simp only [unwrapO]
  rcases eq_or_lt_of_le h1 with he | hlt
  · -- shape = 1: the exponential density, mode 0
    have he' : d.f_shape = 1 := he.symm
    have hm0 : Gamma.pdf d ((d.f_shape - 1) / d.f_rate) = d.f_rate := by
      unfold Gamma.pdf
      rfun_norm
      norm_num [he']
    rw [hm0]
    rcases lt_or_ge x 0 with hx0 | hx0
    · unfold Gamma.pdf
      rw [if_pos (by norm_num; exact hx0)]
      norm_num; exact hr.le
    · have : Gamma.pdf d x = d.f_rate * Real.exp (-d.f_rate * x) := by
        unfold Gamma.pdf
        rfun_norm
        rw [if_neg (by norm_num; exact hx0)]
        norm_num [he']
      rw [this]
      have : Real.exp (-d.f_rate * x) ≤ 1 := by
        rw [Real.exp_le_one_iff]; nlinarith
      nlinarith
  · -- shape > 1
    have hne : ¬ d.f_shape = 1 := hlt.ne'
    have ha : 0 < d.f_shape - 1 := by linarith
    have hm : 0 < (d.f_shape - 1) / d.f_rate := div_pos ha hr
    have hk := fun y (hy : 0 < y) => log_gamma_kernel_le (d.f_shape - 1) d.f_rate y ha hr hy
    rw [gamma_pdf_pos d _ hm, if_neg hne]
    by_cases h160 : 160 < d.f_shape
    · rw [if_pos h160]
      rcases lt_trichotomy x 0 with hx0 | hx0 | hx0
      · unfold Gamma.pdf
        rw [if_pos (by norm_num; exact hx0)]
        norm_num; exact (Real.exp_pos _).le
      · exfalso
        rcases hx with hx | hx
        · exact hx hx0
        · linarith
      · rw [gamma_pdf_pos d x hx0, if_neg hne, if_pos h160]
        apply Real.exp_le_exp.mpr
        linarith [hk x hx0]
    · rw [if_neg h160]
      have hrs : 0 ≤ d.f_rate ^ d.f_shape := Real.rpow_nonneg hr.le _
      have hpm : 0 ≤ d.f_rate ^ d.f_shape * ((d.f_shape - 1) / d.f_rate) ^ (d.f_shape - 1)
          * Real.exp (-d.f_rate * ((d.f_shape - 1) / d.f_rate)) / SF.gamma d.f_shape := by
        have := Real.rpow_nonneg hm.le (d.f_shape - 1)
        positivity
      rcases lt_trichotomy x 0 with hx0 | hx0 | hx0
      · unfold Gamma.pdf
        rw [if_pos (by norm_num; exact hx0)]
        rw [show (0.0:ℝ) = 0 by norm_num]; exact hpm
      · have h0 : Gamma.pdf d 0 = 0 := by
          unfold Gamma.pdf
          rfun_norm
          have hne1 : d.f_shape - 1 ≠ 0 := ha.ne'
          norm_num [hne, h160, Real.zero_rpow hne1]
        rw [hx0, h0]; exact hpm
      · rw [gamma_pdf_pos d x hx0, if_neg hne, if_neg h160]
        apply div_le_div_of_nonneg_right _ hG
        rw [mul_assoc, mul_assoc]
        apply mul_le_mul_of_nonneg_left _ hrs
        apply rpow_mul_exp_le_of_log_le hx0 hm
        linarith [hk x hx0]

/-- Gamma, relative to `GammaDensitySpec` (`SF.gamma = Γ` on the positive half-line, hence positive) -/
theorem gamma_mode_rel (S : GammaDensitySpec) (d : Gamma ℝ) (hs : 0 < d.f_shape) (hr : 0 < d.f_rate)
    (h1 : 1 ≤ d.f_shape) (x : ℝ) (hx : x ≠ 0 ∨ d.f_shape ≤ 160) :
    Gamma.pdf d x ≤ Gamma.pdf d (unwrapO (Gamma.mode d)) :=
  gamma_mode_of_gamma_nonneg d hs hr h1
    (by rw [S.gamma_eq _ hs]; exact (Real.Gamma_pos_of_pos hs).le) x hx

/-- Why `x ≠ 0 ∨ shape ≤ 160` is there: over ℝ (`Real.log 0 = 0` stands for IEEE `−∞`) the
    `exp(ln_pdf)` branch gives `Gamma(161, 1000).pdf 0 = exp(161·ln 1000 − lnΓ 161)`, which exceeds
    the value at `mode() = 0.16`.  In IEEE arithmetic `ln_pdf 0 = −∞` and `pdf 0 = 0`: this is a
    limit of the ℝ model (a junk value), not a defect of the code. -/
theorem gamma_mode_log_zero_artifact :
    Gamma.pdf (⟨161, 1000⟩ : Gamma ℝ) (unwrapO (Gamma.mode (⟨161, 1000⟩ : Gamma ℝ)))
      < Gamma.pdf (⟨161, 1000⟩ : Gamma ℝ) 0 := by
  rw [gamma_mode_eq _ (by norm_num)]
  simp only [unwrapO]
  rw [gamma_pdf_pos _ _ (by norm_num)]
  unfold Gamma.pdf Gamma.ln_pdf
  rfun_norm
  norm_num
  have h : Real.log (4 / 25) < 0 := Real.log_neg (by norm_num) (by norm_num)
  nlinarith

example : ∃ d : Gamma ℝ, 0 < d.f_shape ∧ 0 < d.f_rate ∧ 1 ≤ d.f_shape := ⟨⟨2, 3⟩, by norm_num⟩

/-! ## Erlang (`Erlang::new(k, rate)` wraps `Gamma::new(k as f64, rate)`) -/

/-- Erlang: the pdf is maximal at `mode()`; only `0 ≤ SF.gamma shape` is used (see `gamma_mode_of_gamma_nonneg`) -/
theorem erlang_mode_of_gamma_nonneg (d : Erlang ℝ) (hs : 0 < d.f_g.f_shape) (hr : 0 < d.f_g.f_rate)
    (h1 : 1 ≤ d.f_g.f_shape) (hG : 0 ≤ (SF.gamma d.f_g.f_shape : ℝ)) (x : ℝ)
    (hx : x ≠ 0 ∨ d.f_g.f_shape ≤ 160) :
    Erlang.pdf d x ≤ Erlang.pdf d (unwrapO (Erlang.mode d)) :=
  gamma_mode_of_gamma_nonneg d.f_g hs hr h1 hG x hx

/-- Erlang, relative to `GammaDensitySpec`.  (An Erlang built by `new` has an integer shape `k ≥ 1`,
    so the guard `1 ≤ shape` of `mode()` always holds there.) -/
theorem erlang_mode_rel (S : GammaDensitySpec) (d : Erlang ℝ) (hs : 0 < d.f_g.f_shape)
    (hr : 0 < d.f_g.f_rate) (h1 : 1 ≤ d.f_g.f_shape) (x : ℝ) (hx : x ≠ 0 ∨ d.f_g.f_shape ≤ 160) :
    Erlang.pdf d x ≤ Erlang.pdf d (unwrapO (Erlang.mode d)) :=
  gamma_mode_rel S d.f_g hs hr h1 x hx

/-- for an Erlang produced by the constructor (`shape = k as f64`, `k : u64`, accepted iff `k > 0`)
    the guard of `mode()` is automatic -/
theorem erlang_shape_ge_one (d : Erlang ℝ) (k : ℤ) (hk : d.f_g.f_shape = (k : ℝ)) (hs : 0 < d.f_g.f_shape) :
    1 ≤ d.f_g.f_shape := by
  rw [hk] at hs ⊢
  have : (0:ℤ) < k := by exact_mod_cast hs
  exact_mod_cast (show (1:ℤ) ≤ k by omega)

example : ∃ d : Erlang ℝ, 0 < d.f_g.f_shape ∧ 0 < d.f_g.f_rate ∧ 1 ≤ d.f_g.f_shape := ⟨⟨⟨2, 3⟩⟩, by norm_num⟩

/-! ## ChiSquared (`ChiSquared::new(k)` wraps `Gamma::new(k/2, 0.5)`; `mode()` is `Some` iff `k ≥ 2`) -/

/-- ChiSquared: `mode() = k − 2` -/
theorem chi_squared_mode_eq (d : ChiSquared ℝ) (hs : d.f_g.f_shape = d.f_freedom / 2)
    (hr : d.f_g.f_rate = 1 / 2) (h2 : 2 ≤ d.f_freedom) :
    ChiSquared.mode d = some (d.f_freedom - 2) := by
  unfold ChiSquared.mode
  rw [gamma_mode_eq _ (by rw [hs]; linarith), hs, hr]
  congr 1; field_simp

/-- ChiSquared: the pdf is maximal at `mode()`; only `0 ≤ SF.gamma (k/2)` is used -/
theorem chi_squared_mode_of_gamma_nonneg (d : ChiSquared ℝ) (hf : 0 < d.f_freedom)
    (hs : d.f_g.f_shape = d.f_freedom / 2) (hr : d.f_g.f_rate = 1 / 2) (h2 : 2 ≤ d.f_freedom)
    (hG : 0 ≤ (SF.gamma (d.f_freedom / 2) : ℝ)) (x : ℝ) (hx : x ≠ 0 ∨ d.f_freedom ≤ 320) :
    ChiSquared.pdf d x ≤ ChiSquared.pdf d (unwrapO (ChiSquared.mode d)) :=
  gamma_mode_of_gamma_nonneg d.f_g (by rw [hs]; linarith) (by rw [hr]; norm_num) (by rw [hs]; linarith)
    (by rw [hs]; exact hG) x (by rw [hs]; rcases hx with h | h; exact Or.inl h; exact Or.inr (by linarith))

/-- ChiSquared, relative to `GammaDensitySpec` -/
theorem chi_squared_mode_rel (S : GammaDensitySpec) (d : ChiSquared ℝ) (hf : 0 < d.f_freedom)
    (hs : d.f_g.f_shape = d.f_freedom / 2) (hr : d.f_g.f_rate = 1 / 2) (h2 : 2 ≤ d.f_freedom)
    (x : ℝ) (hx : x ≠ 0 ∨ d.f_freedom ≤ 320) :
    ChiSquared.pdf d x ≤ ChiSquared.pdf d (unwrapO (ChiSquared.mode d)) :=
  chi_squared_mode_of_gamma_nonneg d hf hs hr h2
    (by rw [S.gamma_eq _ (by linarith)]; exact (Real.Gamma_pos_of_pos (by linarith)).le) x hx

example : ∃ d : ChiSquared ℝ, 0 < d.f_freedom ∧ d.f_g.f_shape = d.f_freedom / 2 ∧ d.f_g.f_rate = 1 / 2 ∧
    2 ≤ d.f_freedom := ⟨⟨3, ⟨3 / 2, 1 / 2⟩⟩, by norm_num⟩

/-! ## Chi (`freedom : u64`, accepted iff nonzero; `mode() = sqrt(freedom − 1)`) -/

/-- Chi: `mode() = √(k − 1)` -/
theorem chi_mode_eq (d : Chi) (h1 : 1 ≤ d.f_freedom) :
    Chi.mode (α := ℝ) d = some (Real.sqrt ((d.f_freedom : ℝ) - 1)) := by
  unfold Chi.mode Chi.freedom usub
  rw [if_neg (by omega)]
  rfun_norm
  push_cast
  rfl

/-- Chi: the value of `pdf` at `x > 0` -/
theorem chi_pdf_pos (d : Chi) (x : ℝ) (hx : 0 < x) :
    Chi.pdf (α := ℝ) d x =
      if 160 < d.f_freedom then
        Real.exp ((1 - (d.f_freedom : ℝ) / 2) * Real.log 2 + ((d.f_freedom : ℝ) - 1) * Real.log x
          - x * x / 2 - SF.ln_gamma ((d.f_freedom : ℝ) / 2))
      else (2:ℝ) ^ (1 - (d.f_freedom : ℝ) / 2) * x ^ ((d.f_freedom : ℝ) - 1) * Real.exp (-x * x / 2)
        / SF.gamma ((d.f_freedom : ℝ) / 2) := by
  have hinf : (RFun.inf : ℝ) = 0 := rfl
  unfold Chi.pdf Chi.ln_pdf Chi.freedom
  rfun_norm
  have h0 : ¬ (x = (RFun.inf : ℝ) ∨ x ≤ (0.0:ℝ)) := by
    rw [hinf]; norm_num; exact ⟨hx.ne', hx⟩
  simp only [if_neg h0]
  norm_num

/-- Chi: `pdf x = 0` for `x ≤ 0` -/
theorem chi_pdf_nonpos (d : Chi) (x : ℝ) (hx : x ≤ 0) : Chi.pdf (α := ℝ) d x = 0 := by
  unfold Chi.pdf
  rfun_norm
  rw [if_pos (Or.inr (by norm_num; exact hx))]
  norm_num

/-- Chi with `freedom ≥ 2`: the pdf is maximal at `mode() = √(k−1)`; the only fact used about the
    abstract special functions is `0 ≤ SF.gamma (k/2)` (sign of the normalising constant in the
    branch `k ≤ 160`). -/
theorem chi_mode_of_gamma_nonneg (d : Chi) (h2 : 2 ≤ d.f_freedom)
    (hG : 0 ≤ (SF.gamma ((d.f_freedom : ℝ) / 2) : ℝ)) (x : ℝ) :
    Chi.pdf (α := ℝ) d x ≤ Chi.pdf (α := ℝ) d (unwrapO (Chi.mode (α := ℝ) d)) := by
  rw [chi_mode_eq d (by omega)]
  simp only [unwrapO]
  have hk : (2:ℝ) ≤ (d.f_freedom : ℝ) := by exact_mod_cast h2
  have ha : 0 < (d.f_freedom : ℝ) - 1 := by linarith
  have hm : 0 < Real.sqrt ((d.f_freedom : ℝ) - 1) := Real.sqrt_pos.mpr ha
  have hmm : Real.sqrt ((d.f_freedom : ℝ) - 1) * Real.sqrt ((d.f_freedom : ℝ) - 1) = (d.f_freedom : ℝ) - 1 :=
    Real.mul_self_sqrt ha.le
  -- the log-kernel inequality
  have key : ∀ y : ℝ, 0 < y →
      ((d.f_freedom : ℝ) - 1) * Real.log y - y * y / 2
        ≤ ((d.f_freedom : ℝ) - 1) * Real.log (Real.sqrt ((d.f_freedom : ℝ) - 1))
          - Real.sqrt ((d.f_freedom : ℝ) - 1) * Real.sqrt ((d.f_freedom : ℝ) - 1) / 2 := by
    intro y hy
    have h := log_kernel_le _ (y * y) ha (mul_pos hy hy)
    rw [Real.log_mul hy.ne' hy.ne'] at h
    have hl : Real.log ((d.f_freedom : ℝ) - 1)
        = Real.log (Real.sqrt ((d.f_freedom : ℝ) - 1)) + Real.log (Real.sqrt ((d.f_freedom : ℝ) - 1)) := by
      rw [← Real.log_mul hm.ne' hm.ne', hmm]
    rw [hl] at h
    rw [hmm]
    nlinarith
  rw [chi_pdf_pos d _ hm]
  by_cases h160 : 160 < d.f_freedom
  · rw [if_pos h160]
    rcases le_or_gt x 0 with hx0 | hx0
    · rw [chi_pdf_nonpos d x hx0]; exact (Real.exp_pos _).le
    · rw [chi_pdf_pos d x hx0, if_pos h160]
      apply Real.exp_le_exp.mpr
      linarith [key x hx0]
  · rw [if_neg h160]
    have h2p : 0 ≤ (2:ℝ) ^ (1 - (d.f_freedom : ℝ) / 2) := Real.rpow_nonneg (by norm_num) _
    rcases le_or_gt x 0 with hx0 | hx0
    · rw [chi_pdf_nonpos d x hx0]
      have := Real.rpow_nonneg hm.le ((d.f_freedom : ℝ) - 1)
      positivity
    · rw [chi_pdf_pos d x hx0, if_neg h160]
      apply div_le_div_of_nonneg_right _ hG
      rw [mul_assoc, mul_assoc]
      apply mul_le_mul_of_nonneg_left _ h2p
      apply rpow_mul_exp_le_of_log_le hx0 hm
      linarith [key x hx0]

/-- Chi, `freedom ≥ 2`, relative to `GammaDensitySpec`.  PARTIAL: the constructor also accepts
    `freedom = 1`, where the statement fails (see `chi_mode_counterexample_rel`). -/
theorem chi_mode_partial_rel (S : GammaDensitySpec) (d : Chi) (h2 : 2 ≤ d.f_freedom) (x : ℝ) :
    Chi.pdf (α := ℝ) d x ≤ Chi.pdf (α := ℝ) d (unwrapO (Chi.mode (α := ℝ) d)) := by
  have hk : (2:ℝ) ≤ (d.f_freedom : ℝ) := by exact_mod_cast h2
  exact chi_mode_of_gamma_nonneg d h2
    (by rw [S.gamma_eq _ (by linarith)]; exact (Real.Gamma_pos_of_pos (by linarith)).le) x

example : ∃ d : Chi, 2 ≤ d.f_freedom := ⟨⟨3⟩, by norm_num⟩

/-- FINDING (end-point convention): `Chi::new(1)` (the half-normal law) is accepted and
    `mode() = Some(√0) = Some(0)`, but `pdf` returns `0` for every `x ≤ 0`, so `pdf(mode()) = 0`
    while `pdf x > 0` for every `x > 0`: the literal claim "pdf ≤ pdf(mode)" fails.  (The density's
    supremum `√2/Γ(½)` is approached as `x → 0⁺`; see `chi_one_antitone_rel`.) -/
theorem chi_mode_counterexample_rel (S : GammaDensitySpec) :
    ∃ d : Chi, 0 ≤ d.f_freedom ∧ d.f_freedom ≠ 0 ∧ unwrapO (Chi.mode (α := ℝ) d) = 0 ∧
      Chi.pdf (α := ℝ) d (unwrapO (Chi.mode (α := ℝ) d)) = 0 ∧
      ∀ x : ℝ, 0 < x → Chi.pdf (α := ℝ) d (unwrapO (Chi.mode (α := ℝ) d)) < Chi.pdf (α := ℝ) d x := by
  have hm : unwrapO (Chi.mode (α := ℝ) ⟨1⟩) = 0 := by
    rw [chi_mode_eq _ (by norm_num)]; simp [unwrapO]
  refine ⟨⟨1⟩, by norm_num, by norm_num, hm, ?_, ?_⟩
  · rw [hm]; exact chi_pdf_nonpos _ _ le_rfl
  · intro x hx
    rw [hm, chi_pdf_nonpos _ _ le_rfl, chi_pdf_pos _ _ hx, if_neg (by norm_num)]
    have hg : 0 < (SF.gamma (((1:ℤ):ℝ) / 2) : ℝ) := by
      rw [S.gamma_eq _ (by norm_num)]; exact Real.Gamma_pos_of_pos (by norm_num)
    have h1 : 0 < (2:ℝ) ^ (1 - ((1:ℤ):ℝ) / 2) := Real.rpow_pos_of_pos (by norm_num) _
    have h2 : 0 < x ^ (((1:ℤ):ℝ) - 1) := Real.rpow_pos_of_pos hx _
    positivity

/-- Chi with `freedom = 1`: on `(0, ∞)` the pdf is non-increasing, i.e. its supremum is approached
    at `mode() = 0` from the right (only `0 ≤ SF.gamma ½` is used). -/
theorem chi_one_antitone (d : Chi) (h1 : d.f_freedom = 1) (hG : 0 ≤ (SF.gamma ((1:ℝ) / 2) : ℝ))
    (x y : ℝ) (hx : 0 < x) (hxy : x ≤ y) :
    Chi.pdf (α := ℝ) d y ≤ Chi.pdf (α := ℝ) d x := by
  rw [chi_pdf_pos d x hx, chi_pdf_pos d y (by linarith), h1, if_neg (by norm_num), if_neg (by norm_num)]
  have e : ((1:ℤ):ℝ) = 1 := by norm_num
  rw [e] at *
  simp only [sub_self, Real.rpow_zero, mul_one]
  apply div_le_div_of_nonneg_right _ hG
  apply mul_le_mul_of_nonneg_left _ (Real.rpow_nonneg (by norm_num) _)
  apply Real.exp_le_exp.mpr
  nlinarith

theorem chi_one_antitone_rel (S : GammaDensitySpec) (d : Chi) (h1 : d.f_freedom = 1)
    (x y : ℝ) (hx : 0 < x) (hxy : x ≤ y) :
    Chi.pdf (α := ℝ) d y ≤ Chi.pdf (α := ℝ) d x :=
  chi_one_antitone d h1
    (by rw [S.gamma_eq _ (by norm_num)]; exact (Real.Gamma_pos_of_pos (by norm_num)).le) x y hx hxy

end Statrs.Props.C08
