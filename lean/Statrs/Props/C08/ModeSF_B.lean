/-
  C08 (mode part, special-function families B) — `mode()` is a point where the model's pdf attains
  its supremum: InverseGamma, Beta, FisherSnedecor.
  In each family the normalising constant (an `SF.gamma` / `SF.beta` expression) is a factor
  independent of `x`; the only thing used about the abstract special functions is its SIGN
  (`…_of_…_nonneg` theorems), which the `…_rel` versions obtain from `GammaDensitySpec` /
  `BetaFnPosSpec`.
-/
import Statrs.Real.Simp
import Statrs.Lemmas.ModeKernel
import Statrs.Spec.SFSpec_Density
import Statrs.Spec.SFSpec_modeB
import Statrs.Gen.D_inverse_gamma
import Statrs.Gen.D_beta
import Statrs.Gen.D_fisher_snedecor
import Mathlib.Tactic
set_option linter.unusedVariables false
set_option linter.unusedSectionVars false
namespace Statrs.Props.C08
open Statrs Statrs.Gen Statrs.Lemmas.ModeKernel Statrs.Spec Statrs.Spec.ModeB

variable [SF ℝ]

/-! ## InverseGamma -/

/-- InverseGamma: `mode() = rate / (shape + 1)` (always `Some`) -/
theorem inverse_gamma_mode_eq (d : InverseGamma ℝ) :
    InverseGamma.mode d = some (d.f_rate / (d.f_shape + 1)) := by
  unfold InverseGamma.mode
  norm_num

/-- InverseGamma: the value of `pdf` at `x > 0` -/
theorem inverse_gamma_pdf_pos (d : InverseGamma ℝ) (x : ℝ) (hx : 0 < x) :
    InverseGamma.pdf d x =
      if d.f_shape = 1 then d.f_rate / (x * x) * Real.exp (-(d.f_rate / x))
      else d.f_rate ^ d.f_shape * x ^ (-d.f_shape - 1) * Real.exp (-(d.f_rate / x)) / SF.gamma d.f_shape := by
  unfold InverseGamma.pdf
  rfun_norm
  have h0 : ¬ (x ≤ (0.0:ℝ) ∨ false = true) := by norm_num; exact hx
  simp only [if_neg h0, decide_eq_true_eq, neg_div]
  norm_num

/-- InverseGamma: `pdf x = 0` for `x ≤ 0` -/
theorem inverse_gamma_pdf_nonpos (d : InverseGamma ℝ) (x : ℝ) (hx : x ≤ 0) :
    InverseGamma.pdf d x = 0 := by
  unfold InverseGamma.pdf
  rw [if_pos (Or.inl (by norm_num; exact hx))]
  norm_num

/-- InverseGamma with `shape = 1`: no special function is called, the statement is unconditional -/
theorem inverse_gamma_mode_shape_one (d : InverseGamma ℝ) (hs : d.f_shape = 1) (hr : 0 < d.f_rate) (x : ℝ) :
    InverseGamma.pdf d x ≤ InverseGamma.pdf d (unwrapO (InverseGamma.mode d)) := by
  rw [inverse_gamma_mode_eq d]
  simp only [unwrapO]
  have ha : 0 < d.f_shape + 1 := by rw [hs]; norm_num
  have hm : 0 < d.f_rate / (d.f_shape + 1) := div_pos hr ha
  have hk := fun y (hy : 0 < y) => log_inv_gamma_kernel_le (d.f_shape + 1) d.f_rate y ha hr hy
  rw [inverse_gamma_pdf_pos d _ hm, if_pos hs]
  have e : ∀ y : ℝ, 0 < y → d.f_rate / (y * y) * Real.exp (-(d.f_rate / y))
      = d.f_rate * Real.exp (-((d.f_shape + 1) * Real.log y) - d.f_rate / y) := by
    intro y hy
    rw [hs, sub_eq_add_neg, Real.exp_add, Real.exp_neg ((1 + 1) * Real.log y)]
    have : Real.exp ((1 + 1) * Real.log y) = y * y := by
      rw [add_mul, one_mul, Real.exp_add, Real.exp_log hy]
    rw [this]; field_simp
  rcases le_or_gt x 0 with hx0 | hx0
  · rw [inverse_gamma_pdf_nonpos d x hx0, e _ hm]
    exact (mul_pos hr (Real.exp_pos _)).le
  · rw [inverse_gamma_pdf_pos d x hx0, if_pos hs, e x hx0, e _ hm]
    apply mul_le_mul_of_nonneg_left _ hr.le
    apply Real.exp_le_exp.mpr
    linarith [hk x hx0]

/-- InverseGamma, core statement: under the constructor's predicate the pdf is maximal at
    `mode() = rate/(shape+1)`; the only fact used about `SF.gamma` is `0 ≤ SF.gamma shape`. -/
theorem inverse_gamma_mode_of_gamma_nonneg (d : InverseGamma ℝ) (hs : 0 < d.f_shape) (hr : 0 < d.f_rate)
    (hG : 0 ≤ (SF.gamma d.f_shape : ℝ)) (x : ℝ) :
    InverseGamma.pdf d x ≤ InverseGamma.pdf d (unwrapO (InverseGamma.mode d)) := by
  by_cases h1 : d.f_shape = 1
  · exact inverse_gamma_mode_shape_one d h1 hr x
  rw [inverse_gamma_mode_eq d]
  simp only [unwrapO]
  have ha : 0 < d.f_shape + 1 := by linarith
  have hm : 0 < d.f_rate / (d.f_shape + 1) := div_pos hr ha
  have hk := fun y (hy : 0 < y) => log_inv_gamma_kernel_le (d.f_shape + 1) d.f_rate y ha hr hy
  rw [inverse_gamma_pdf_pos d _ hm, if_neg h1]
  have hrs : 0 ≤ d.f_rate ^ d.f_shape := Real.rpow_nonneg hr.le _
  rcases le_or_gt x 0 with hx0 | hx0
  · rw [inverse_gamma_pdf_nonpos d x hx0]
    have := Real.rpow_nonneg hm.le (-d.f_shape - 1)
    positivity
  · rw [inverse_gamma_pdf_pos d x hx0, if_neg h1]
    apply div_le_div_of_nonneg_right _ hG
    rw [mul_assoc, mul_assoc]
    apply mul_le_mul_of_nonneg_left _ hrs
    apply rpow_mul_exp_le_of_log_le hx0 hm
    linarith [hk x hx0]

/-- InverseGamma, relative to `GammaDensitySpec` -/
theorem inverse_gamma_mode_rel (S : GammaDensitySpec) (d : InverseGamma ℝ) (hs : 0 < d.f_shape)
    (hr : 0 < d.f_rate) (x : ℝ) :
    InverseGamma.pdf d x ≤ InverseGamma.pdf d (unwrapO (InverseGamma.mode d)) :=
  inverse_gamma_mode_of_gamma_nonneg d hs hr
    (by rw [S.gamma_eq _ hs]; exact (Real.Gamma_pos_of_pos hs).le) x

example : ∃ d : InverseGamma ℝ, 0 < d.f_shape ∧ 0 < d.f_rate := ⟨⟨2, 3⟩, by norm_num⟩

/-! ## Beta (`mode()` is `Some` iff `shape_a > 1 ∧ shape_b > 1`) -/

/-- Beta: `mode() = (a − 1)/(a + b − 2)` under the guard -/
theorem beta_mode_eq (d : Beta ℝ) (ha : 1 < d.f_shape_a) (hb : 1 < d.f_shape_b) :
    Beta.mode d = some ((d.f_shape_a - 1) / (d.f_shape_a + d.f_shape_b - 2)) := by
  unfold Beta.mode
  rw [if_neg (by norm_num; exact ⟨ha, hb⟩)]
  norm_num

/-- Beta: the value of `pdf` at an interior point `0 < x < 1` (for `a ≠ 1`, `b ≠ 1`) -/
theorem beta_pdf_interior (d : Beta ℝ) (ha : d.f_shape_a ≠ 1) (hb : d.f_shape_b ≠ 1) (x : ℝ)
    (hx0 : 0 < x) (hx1 : x < 1) :
    Beta.pdf d x =
      if 80 < d.f_shape_a ∨ 80 < d.f_shape_b then
        Real.exp (SF.ln_gamma (d.f_shape_a + d.f_shape_b) - SF.ln_gamma d.f_shape_a - SF.ln_gamma d.f_shape_b
          + (d.f_shape_a - 1) * Real.log x + (d.f_shape_b - 1) * Real.log (1 - x))
      else SF.gamma (d.f_shape_a + d.f_shape_b) / (SF.gamma d.f_shape_a * SF.gamma d.f_shape_b)
        * x ^ (d.f_shape_a - 1) * (1 - x) ^ (d.f_shape_b - 1) := by
  unfold Beta.pdf Beta.ln_pdf
  rfun_norm
  have h0 : ¬ ¬ ((0.0:ℝ) ≤ x ∧ x ≤ (1.0:ℝ)) := by norm_num; exact ⟨hx0.le, hx1.le⟩
  have hx0' : ¬ x = (0.0:ℝ) := by norm_num; exact hx0.ne'
  have hx1' : ¬ x = (1.0:ℝ) := by norm_num; exact hx1.ne
  have ha' : ¬ d.f_shape_a = (1.0:ℝ) := by norm_num; exact ha
  simp only [if_neg h0, decide_eq_true_eq, ha', hx0', hx1', false_and, and_false, if_false]
  norm_num

/-- Beta: `pdf x = 0` outside `[0,1]` -/
theorem beta_pdf_outside (d : Beta ℝ) (x : ℝ) (hx : x < 0 ∨ 1 < x) : Beta.pdf d x = 0 := by
  unfold Beta.pdf
  rw [if_pos (by norm_num; intro h; rcases hx with h' | h'; linarith; exact h')]
  norm_num

/-- Beta: `pdf 0 = pdf 1 = 0` in the direct-formula branch (`1 < a, b ≤ 80`) -/
theorem beta_pdf_endpoints (d : Beta ℝ) (ha : 1 < d.f_shape_a) (hb : 1 < d.f_shape_b)
    (ha80 : d.f_shape_a ≤ 80) (hb80 : d.f_shape_b ≤ 80) :
    Beta.pdf d 0 = 0 ∧ Beta.pdf d 1 = 0 := by
  have ha1 : d.f_shape_a - 1 ≠ 0 := by linarith
  have hb1 : d.f_shape_b - 1 ≠ 0 := by linarith
  have hane : ¬ d.f_shape_a = 1 := ha.ne'
  have h80 : ¬ (80 < d.f_shape_a ∨ 80 < d.f_shape_b) := by push Not; exact ⟨ha80, hb80⟩
  constructor
  · unfold Beta.pdf
    rfun_norm
    norm_num [hane, h80, Real.zero_rpow ha1]
  · unfold Beta.pdf
    rfun_norm
    norm_num [hane, h80, Real.zero_rpow hb1]

/-- Beta, core statement: under the constructor's predicate (`0 < a`, `0 < b`) and the guard
    `1 < a`, `1 < b` of `mode()`, the pdf is maximal at `mode() = (a−1)/(a+b−2)`.
    * Only the SIGN of the normalising constant `SF.gamma(a+b)/(SF.gamma a · SF.gamma b)` is used
      (branch `a, b ≤ 80`); nothing about `SF.ln_gamma` (it sits inside `exp`).
    * `(x ≠ 0 ∧ x ≠ 1) ∨ (a ≤ 80 ∧ b ≤ 80)`: in the `exp(ln_pdf)` branch the end points evaluate
      `ln 0`/`NEG_INFINITY`, which are `−∞` in IEEE (`pdf = 0`) but the junk value `0` over ℝ; the
      two end points are excluded there (model limit, not a code defect). -/
theorem beta_mode_of_const_nonneg (d : Beta ℝ) (ha0 : 0 < d.f_shape_a) (hb0 : 0 < d.f_shape_b)
    (ha : 1 < d.f_shape_a) (hb : 1 < d.f_shape_b)
    (hG : 0 ≤ (SF.gamma (d.f_shape_a + d.f_shape_b) / (SF.gamma d.f_shape_a * SF.gamma d.f_shape_b) : ℝ))
    (x : ℝ) (hx : (x ≠ 0 ∧ x ≠ 1) ∨ (d.f_shape_a ≤ 80 ∧ d.f_shape_b ≤ 80)) :
    Beta.pdf d x ≤ Beta.pdf d (unwrapO (Beta.mode d)) := by
  rw [beta_mode_eq d ha hb]
  simp only [unwrapO]
  have hp : 0 < d.f_shape_a - 1 := by linarith
  have hq : 0 < d.f_shape_b - 1 := by linarith
  have em : (d.f_shape_a - 1) / (d.f_shape_a + d.f_shape_b - 2)
      = (d.f_shape_a - 1) / ((d.f_shape_a - 1) + (d.f_shape_b - 1)) := by congr 1; ring
  rw [em]
  set m := (d.f_shape_a - 1) / ((d.f_shape_a - 1) + (d.f_shape_b - 1)) with hmdef
  have hm0 : 0 < m := div_pos hp (by linarith)
  have hm1 : m < 1 := by rw [hmdef, div_lt_one (by linarith)]; linarith
  have hm1' : 0 < 1 - m := by linarith
  have hk := fun y (h0 : 0 < y) (h1 : y < 1) => log_beta_kernel_le _ _ y hp hq h0 h1
  rw [beta_pdf_interior d ha.ne' hb.ne' m hm0 hm1]
  by_cases h80 : 80 < d.f_shape_a ∨ 80 < d.f_shape_b
  · rw [if_pos h80]
    have hint : 0 < x ∧ x < 1 ∨ x < 0 ∨ 1 < x := by
      rcases hx with ⟨h0, h1⟩ | ⟨h0, h1⟩
      · rcases lt_trichotomy x 0 with h | h | h
        · exact Or.inr (Or.inl h)
        · exact absurd h h0
        · rcases lt_trichotomy x 1 with h' | h' | h'
          · exact Or.inl ⟨h, h'⟩
          · exact absurd h' h1
          · exact Or.inr (Or.inr h')
      · exfalso; rcases h80 with h | h <;> linarith
    rcases hint with ⟨h0, h1⟩ | hout
    · rw [beta_pdf_interior d ha.ne' hb.ne' x h0 h1, if_pos h80]
      apply Real.exp_le_exp.mpr
      linarith [hk x h0 h1]
    · rw [beta_pdf_outside d x hout]; exact (Real.exp_pos _).le
  · rw [if_neg h80]
    have h80' : d.f_shape_a ≤ 80 ∧ d.f_shape_b ≤ 80 := by push Not at h80; exact h80
    have hpm : 0 ≤ SF.gamma (d.f_shape_a + d.f_shape_b) / (SF.gamma d.f_shape_a * SF.gamma d.f_shape_b)
        * m ^ (d.f_shape_a - 1) * (1 - m) ^ (d.f_shape_b - 1) := by
      have := Real.rpow_nonneg hm0.le (d.f_shape_a - 1)
      have := Real.rpow_nonneg hm1'.le (d.f_shape_b - 1)
      positivity
    have hend := beta_pdf_endpoints d ha hb h80'.1 h80'.2
    rcases lt_trichotomy x 0 with h | h | h
    · rw [beta_pdf_outside d x (Or.inl h)]; exact hpm
    · rw [h, hend.1]; exact hpm
    · rcases lt_trichotomy x 1 with h' | h' | h'
      · rw [beta_pdf_interior d ha.ne' hb.ne' x h h', if_neg h80, mul_assoc, mul_assoc]
        apply mul_le_mul_of_nonneg_left _ hG
        exact rpow_mul_rpow_le_of_log_le h (by linarith) hm0 hm1' (hk x h h')
      · rw [h', hend.2]; exact hpm
      · rw [beta_pdf_outside d x (Or.inr h')]; exact hpm

/-- Beta, relative to `GammaDensitySpec` (`SF.gamma = Γ > 0`) -/
theorem beta_mode_rel (S : GammaDensitySpec) (d : Beta ℝ) (ha0 : 0 < d.f_shape_a) (hb0 : 0 < d.f_shape_b)
    (ha : 1 < d.f_shape_a) (hb : 1 < d.f_shape_b) (x : ℝ)
    (hx : (x ≠ 0 ∧ x ≠ 1) ∨ (d.f_shape_a ≤ 80 ∧ d.f_shape_b ≤ 80)) :
    Beta.pdf d x ≤ Beta.pdf d (unwrapO (Beta.mode d)) := by
  apply beta_mode_of_const_nonneg d ha0 hb0 ha hb _ x hx
  rw [S.gamma_eq _ ha0, S.gamma_eq _ hb0, S.gamma_eq _ (add_pos ha0 hb0)]
  have := Real.Gamma_pos_of_pos ha0
  have := Real.Gamma_pos_of_pos hb0
  have := Real.Gamma_pos_of_pos (add_pos ha0 hb0)
  positivity

example : ∃ d : Beta ℝ, 0 < d.f_shape_a ∧ 0 < d.f_shape_b ∧ 1 < d.f_shape_a ∧ 1 < d.f_shape_b :=
  ⟨⟨2, 3⟩, by norm_num⟩

/-! ## FisherSnedecor (`mode()` is `Some` iff `freedom_1 > 2`) -/

/-- FisherSnedecor: `mode() = d2 (d1 − 2) / (d1 (d2 + 2))` under the guard -/
theorem fisher_snedecor_mode_eq (d : FisherSnedecor ℝ) (hg : 2 < d.f_freedom_1) :
    FisherSnedecor.mode d
      = some (d.f_freedom_2 * (d.f_freedom_1 - 2) / (d.f_freedom_1 * (d.f_freedom_2 + 2))) := by
  unfold FisherSnedecor.mode
  rw [if_neg (by norm_num; exact hg)]
  norm_num

/-- FisherSnedecor: the value of `pdf` at `x > 0` -/
theorem fisher_snedecor_pdf_pos (d : FisherSnedecor ℝ) (x : ℝ) (hx : 0 < x) :
    FisherSnedecor.pdf d x =
      Real.sqrt ((d.f_freedom_1 * x) ^ d.f_freedom_1 * d.f_freedom_2 ^ d.f_freedom_2
          / (d.f_freedom_1 * x + d.f_freedom_2) ^ (d.f_freedom_1 + d.f_freedom_2))
        / (x * SF.beta (d.f_freedom_1 / 2) (d.f_freedom_2 / 2)) := by
  unfold FisherSnedecor.pdf
  rfun_norm
  have h0 : ¬ (false = true ∨ x ≤ (0.0:ℝ)) := by norm_num; exact hx
  simp only [if_neg h0]
  norm_num

/-- FisherSnedecor: `pdf x = 0` for `x ≤ 0` -/
theorem fisher_snedecor_pdf_nonpos (d : FisherSnedecor ℝ) (x : ℝ) (hx : x ≤ 0) :
    FisherSnedecor.pdf d x = 0 := by
  unfold FisherSnedecor.pdf
  rw [if_pos (Or.inr (by norm_num; exact hx))]
  norm_num

/-- the F kernel `√((d1 x)^d1 d2^d2 / (d1 x + d2)^(d1+d2)) / x` written as a Beta kernel in
    `y = d1 x / (d1 x + d2)`: `(d1/d2) · y^(d1/2 − 1) (1 − y)^(d2/2 + 1)` -/
theorem fs_kernel_eq (d1 d2 x : ℝ) (h1 : 0 < d1) (h2 : 0 < d2) (hx : 0 < x) :
    Real.sqrt ((d1 * x) ^ d1 * d2 ^ d2 / (d1 * x + d2) ^ (d1 + d2)) / x
      = Real.exp (Real.log d1 - Real.log d2 + ((d1 / 2 - 1) * Real.log (d1 * x / (d1 * x + d2))
          + (d2 / 2 + 1) * Real.log (1 - d1 * x / (d1 * x + d2)))) := by
  have hdx : 0 < d1 * x := mul_pos h1 hx
  have hS : 0 < d1 * x + d2 := by linarith
  have hp1 := Real.rpow_pos_of_pos hdx d1
  have hp2 := Real.rpow_pos_of_pos h2 d2
  have hp3 := Real.rpow_pos_of_pos hS (d1 + d2)
  have hA : 0 < (d1 * x) ^ d1 * d2 ^ d2 / (d1 * x + d2) ^ (d1 + d2) := by positivity
  have hsq := Real.sqrt_pos.mpr hA
  have hL : 0 < Real.sqrt ((d1 * x) ^ d1 * d2 ^ d2 / (d1 * x + d2) ^ (d1 + d2)) / x := div_pos hsq hx
  have e1 : 1 - d1 * x / (d1 * x + d2) = d2 / (d1 * x + d2) := by field_simp; ring
  conv_lhs => rw [← Real.exp_log hL]
  congr 1
  rw [Real.log_div hsq.ne' hx.ne', Real.log_sqrt hA.le, Real.log_div (mul_pos hp1 hp2).ne' hp3.ne',
    Real.log_mul hp1.ne' hp2.ne', Real.log_rpow hdx, Real.log_rpow h2, Real.log_rpow hS, e1,
    Real.log_div hdx.ne' hS.ne', Real.log_div h2.ne' hS.ne', Real.log_mul h1.ne' hx.ne']
  ring

/-- FisherSnedecor, core statement: under the constructor's predicate (`0 < d1`, `0 < d2`) and the
    guard `2 < d1` of `mode()`, the pdf is maximal at `mode() = d2(d1−2)/(d1(d2+2))`.  The only fact
    used about the abstract `SF.beta` is the sign of the normalising constant, `0 ≤ B(d1/2, d2/2)`.
    (Over ℝ `pdf(mode()) > 0` on this whole domain, see `fisher_snedecor_pdf_mode_pos_rel`; zero
    values of `pdf(mode())` in floating point — e.g. `d1 = 90, d2 = 60`, where
    `(d1 x + d2)^(d1+d2)` overflows to `+∞` while the numerator stays finite — are overflow of the
    `powf` factors of the direct formula, outside the exact-arithmetic model.) -/
theorem fisher_snedecor_mode_of_beta_nonneg (d : FisherSnedecor ℝ) (h1 : 0 < d.f_freedom_1)
    (h2 : 0 < d.f_freedom_2) (hg : 2 < d.f_freedom_1)
    (hB : 0 ≤ (SF.beta (d.f_freedom_1 / 2) (d.f_freedom_2 / 2) : ℝ)) (x : ℝ) :
    FisherSnedecor.pdf d x ≤ FisherSnedecor.pdf d (unwrapO (FisherSnedecor.mode d)) := by
  rw [fisher_snedecor_mode_eq d hg]
  simp only [unwrapO]
  set m := d.f_freedom_2 * (d.f_freedom_1 - 2) / (d.f_freedom_1 * (d.f_freedom_2 + 2)) with hmdef
  have hm : 0 < m := by
    rw [hmdef]; apply div_pos (mul_pos h2 (by linarith)) (mul_pos h1 (by linarith))
  rw [fisher_snedecor_pdf_pos d m hm]
  rcases le_or_gt x 0 with hx0 | hx0
  · rw [fisher_snedecor_pdf_nonpos d x hx0]
    exact div_nonneg (Real.sqrt_nonneg _) (mul_nonneg hm.le hB)
  · rw [fisher_snedecor_pdf_pos d x hx0, div_mul_eq_div_div, div_mul_eq_div_div]
    apply div_le_div_of_nonneg_right _ hB
    rw [fs_kernel_eq _ _ x h1 h2 hx0, fs_kernel_eq _ _ m h1 h2 hm]
    apply Real.exp_le_exp.mpr
    have hp : 0 < d.f_freedom_1 / 2 - 1 := by linarith
    have hq : 0 < d.f_freedom_2 / 2 + 1 := by linarith
    have hS : 0 < d.f_freedom_1 * x + d.f_freedom_2 := by nlinarith
    have hy0 : 0 < d.f_freedom_1 * x / (d.f_freedom_1 * x + d.f_freedom_2) :=
      div_pos (mul_pos h1 hx0) hS
    have hy1 : d.f_freedom_1 * x / (d.f_freedom_1 * x + d.f_freedom_2) < 1 := by
      rw [div_lt_one hS]; linarith
    have hym : d.f_freedom_1 * m / (d.f_freedom_1 * m + d.f_freedom_2)
        = (d.f_freedom_1 / 2 - 1) / ((d.f_freedom_1 / 2 - 1) + (d.f_freedom_2 / 2 + 1)) := by
      rw [hmdef]
      have : d.f_freedom_2 + 2 ≠ 0 := by linarith
      have : d.f_freedom_1 + d.f_freedom_2 ≠ 0 := by linarith
      field_simp
    rw [hym]
    linarith [log_beta_kernel_le _ _ _ hp hq hy0 hy1]

/-- FisherSnedecor, relative to `BetaFnPosSpec` (`B(a,b) > 0`) -/
theorem fisher_snedecor_mode_rel (S : BetaFnPosSpec) (d : FisherSnedecor ℝ) (h1 : 0 < d.f_freedom_1)
    (h2 : 0 < d.f_freedom_2) (hg : 2 < d.f_freedom_1) (x : ℝ) :
    FisherSnedecor.pdf d x ≤ FisherSnedecor.pdf d (unwrapO (FisherSnedecor.mode d)) :=
  fisher_snedecor_mode_of_beta_nonneg d h1 h2 hg
    (S.beta_pos _ _ (by linarith) (by linarith)).le x

/-- FisherSnedecor: over ℝ the density at `mode()` is strictly positive (relative to `B > 0`), so
    "pdf(mode) = 0" values seen in floating point are overflow of the direct formula, not a property
    of the formula itself -/
theorem fisher_snedecor_pdf_mode_pos_rel (S : BetaFnPosSpec) (d : FisherSnedecor ℝ)
    (h1 : 0 < d.f_freedom_1) (h2 : 0 < d.f_freedom_2) (hg : 2 < d.f_freedom_1) :
    0 < FisherSnedecor.pdf d (unwrapO (FisherSnedecor.mode d)) := by
  rw [fisher_snedecor_mode_eq d hg]
  simp only [unwrapO]
  have hm : 0 < d.f_freedom_2 * (d.f_freedom_1 - 2) / (d.f_freedom_1 * (d.f_freedom_2 + 2)) := by
    apply div_pos (mul_pos h2 (by linarith)) (mul_pos h1 (by linarith))
  rw [fisher_snedecor_pdf_pos d _ hm]
  have hB := S.beta_pos (d.f_freedom_1 / 2) (d.f_freedom_2 / 2) (by linarith) (by linarith)
  apply div_pos _ (mul_pos hm hB)
  apply Real.sqrt_pos.mpr
  have hdx := mul_pos h1 hm
  have := Real.rpow_pos_of_pos hdx d.f_freedom_1
  have := Real.rpow_pos_of_pos h2 d.f_freedom_2
  have := Real.rpow_pos_of_pos (add_pos hdx h2) (d.f_freedom_1 + d.f_freedom_2)
  positivity

example : ∃ d : FisherSnedecor ℝ, 0 < d.f_freedom_1 ∧ 0 < d.f_freedom_2 ∧ 2 < d.f_freedom_1 :=
  ⟨⟨3, 4⟩, by norm_num⟩
example : ∃ inst : SF ℝ, @BetaFnPosSpec inst ∧ @GammaDensitySpec inst :=
  ⟨betaWitness, betaFnPosSpec_witness, gammaDensitySpec_betaWitness⟩

end Statrs.Props.C08
