/-
  C08 (mode part, continued) — `mode()` is a point where the model's pdf attains its supremum:
  `∀ x, pdf x ≤ pdf (mode)` for Normal, StudentsT, LogNormal, Levy (carrier ℝ, under exactly the
  constructor's acceptance predicate).
  No premise about the abstract special functions is needed: StudentsT's normalising constant
  `exp (ln_gamma … - ln_gamma …)` is a positive factor that does not depend on `x`.
  StudentsT covers both branches of its pdf (`freedom ≥ 1e8` → the Normal kernel, else the t kernel).
-/
import Statrs.Real.Simp
import Statrs.Lemmas.Quantile
import Statrs.Gen.D_normal
import Statrs.Gen.D_students_t
import Statrs.Gen.D_log_normal
import Statrs.Gen.D_levy
import Mathlib.Tactic
set_option linter.unusedVariables false
namespace Statrs.Props.C08
open Statrs Statrs.Gen Statrs.Lemmas.Quantile

/-! ## Normal -/

/-- the shared Normal kernel `D.normal.pdf_unchecked` (also used by StudentsT for `freedom ≥ 1e8`)
    is maximal at `x = mean` -/
theorem normal_pdf_unchecked_le (x m s : ℝ) (h : 0 < s) :
    D.normal.pdf_unchecked x m s ≤ D.normal.pdf_unchecked m m s := by
  unfold D.normal.pdf_unchecked
  rfun_norm
  simp only [sub_self, zero_div, mul_zero, Real.exp_zero]
  have hden : 0 < Real.sqrt (2 * Real.pi) * s := by positivity
  apply div_le_div_of_nonneg_right _ hden.le
  rw [Real.exp_le_one_iff, show (0.5:ℝ) = 1 / 2 by norm_num]
  nlinarith [mul_self_nonneg ((x - m) / s)]

/-- Normal: the pdf is maximal at `mode() = mean` -/
theorem normal_mode (d : Normal ℝ) (h : 0 < d.f_std_dev) (x : ℝ) :
    Normal.pdf d x ≤ Normal.pdf d (unwrapO (Normal.mode d)) := by
  unfold Normal.mode unwrapO Normal.pdf
  exact normal_pdf_unchecked_le x d.f_mean d.f_std_dev h

example : ∃ d : Normal ℝ, 0 < d.f_std_dev := ⟨⟨0, 1⟩, by norm_num⟩

/-! ## StudentsT -/

/-- StudentsT: the pdf is maximal at `mode() = location`, for every abstract `SF ℝ` (both branches:
    `freedom ≥ 1e8` uses the Normal kernel; otherwise `(1 + d²/ν)^(-(ν+1)/2) ≤ 1`, with equality at
    `d = 0`, times an `x`-independent nonnegative constant) -/
theorem students_t_mode [SF ℝ] (d : StudentsT ℝ) (hs : 0 < d.f_scale) (hν : 0 < d.f_freedom) (x : ℝ) :
    StudentsT.pdf d x ≤ StudentsT.pdf d (unwrapO (StudentsT.mode d)) := by
  unfold StudentsT.mode unwrapO StudentsT.pdf
  rfun_norm
  simp only [Bool.false_eq_true, if_false]
  split_ifs with hbig
  · exact normal_pdf_unchecked_le x d.f_location d.f_scale hs
  · simp only [sub_self, zero_div, mul_zero, add_zero]
    rw [show (1.0:ℝ) = 1 by norm_num, show (0.5:ℝ) = 1 / 2 by norm_num, show (2.0:ℝ) = 2 by norm_num,
      Real.one_rpow, mul_one]
    have hsq : 0 < Real.sqrt (d.f_freedom * Real.pi) :=
      Real.sqrt_pos.mpr (mul_pos hν Real.pi_pos)
    have hb : 1 ≤ 1 + (x - d.f_location) / d.f_scale * ((x - d.f_location) / d.f_scale) / d.f_freedom := by
      have := div_nonneg (mul_self_nonneg ((x - d.f_location) / d.f_scale)) hν.le
      linarith
    have hp : (1 + (x - d.f_location) / d.f_scale * ((x - d.f_location) / d.f_scale) / d.f_freedom)
        ^ (-(1 / 2) * (d.f_freedom + 1)) ≤ 1 :=
      Real.rpow_le_one_of_one_le_of_nonpos hb (by nlinarith)
    apply div_le_div_of_nonneg_right _ hs.le
    apply div_le_div_of_nonneg_right _ hsq.le
    exact mul_le_of_le_one_right (Real.exp_pos _).le hp

example : ∃ d : StudentsT ℝ, 0 < d.f_scale ∧ 0 < d.f_freedom := ⟨⟨0, 1, 1⟩, by norm_num⟩
/-- the Normal-kernel branch is reachable too -/
example : ∃ d : StudentsT ℝ, 0 < d.f_scale ∧ 0 < d.f_freedom ∧ (1e8:ℝ) ≤ d.f_freedom :=
  ⟨⟨0, 1, 1e8⟩, by norm_num⟩

/-! ## LogNormal -/

/-- the LogNormal density in the variable `t = ln x`, compared with its value at `t = μ - σ²`:
    the difference of the exponents is `-(t - μ + σ²)² / (2σ²) ≤ 0` -/
theorem log_normal_kernel_le (t μ σ c : ℝ) (hσ : 0 < σ) (hc : 0 < c) :
    Real.exp (-(1 / 2) * ((t - μ) / σ) * ((t - μ) / σ)) / (Real.exp t * c * σ)
      ≤ Real.exp (-(1 / 2) * ((μ - σ * σ - μ) / σ) * ((μ - σ * σ - μ) / σ)) / (Real.exp (μ - σ * σ) * c * σ) := by
  have e : (μ - σ * σ - μ) / σ = -σ := by field_simp; ring
  rw [e]
  have h1 := Real.exp_pos t
  have h2 := Real.exp_pos (μ - σ * σ)
  rw [div_le_div_iff₀ (by positivity) (by positivity)]
  have key : Real.exp (-(1 / 2) * ((t - μ) / σ) * ((t - μ) / σ)) * Real.exp (μ - σ * σ)
      ≤ Real.exp (-(1 / 2) * -σ * -σ) * Real.exp t := by
    rw [← Real.exp_add, ← Real.exp_add, Real.exp_le_exp]
    have ht : t = μ + σ * ((t - μ) / σ) := by field_simp; ring
    generalize (t - μ) / σ = u at ht ⊢
    rw [ht]
    nlinarith [mul_self_nonneg (u + σ)]
  have hcs : 0 ≤ c * σ := by positivity
  nlinarith [mul_le_mul_of_nonneg_right key hcs]

/-- LogNormal: the pdf is maximal at `mode() = exp (location - scale²)` -/
theorem log_normal_mode (d : LogNormal ℝ) (h : 0 < d.f_scale) (x : ℝ) :
    LogNormal.pdf d x ≤ LogNormal.pdf d (unwrapO (LogNormal.mode d)) := by
  unfold LogNormal.mode unwrapO LogNormal.pdf
  rfun_norm
  simp only [Bool.false_eq_true, or_false]
  have hm := Real.exp_pos (d.f_location - d.f_scale * d.f_scale)
  have hc : 0 < Real.sqrt (2 * Real.pi) := Real.sqrt_pos.mpr (by positivity)
  rw [show (0.0:ℝ) = 0 by norm_num, show (0.5:ℝ) = 1 / 2 by norm_num, if_neg (not_le.mpr hm),
    Real.log_exp]
  split_ifs with hx
  · positivity
  · have hx0 : 0 < x := not_le.mp hx
    have := log_normal_kernel_le (Real.log x) d.f_location d.f_scale _ h hc
    rwa [Real.exp_log hx0] at this

example : ∃ d : LogNormal ℝ, 0 < d.f_scale := ⟨⟨0, 1⟩, by norm_num⟩

/-! ## Levy -/

/-- the Levy kernel `e^{-c/(2y)} / y^{3/2}` is maximal at `y = c/3` (`u^{3/2} e^{-u}` with
    `u = c/(2y)` is maximal at `u = 3/2`) -/
theorem levy_kernel_le (c y : ℝ) (hc : 0 < c) (hy : 0 < y) :
    Real.exp (-(1 / 2 * c / y)) / y ^ (3 / 2 : ℝ)
      ≤ Real.exp (-(1 / 2 * c / (c / 3))) / (c / 3) ^ (3 / 2 : ℝ) := by
  have hu : 0 < c / (2 * y) := by positivity
  have key := rpow_mul_exp_neg_le (3 / 2) (c / (2 * y)) (by norm_num) hu
  have e1 : 1 / 2 * c / (c / 3) = 3 / 2 := by field_simp
  have e2 : 1 / 2 * c / y = c / (2 * y) := by field_simp
  rw [e1, e2]
  have hy32 : 0 < y ^ (3 / 2 : ℝ) := Real.rpow_pos_of_pos hy _
  have hc32 : 0 < (c / 3) ^ (3 / 2 : ℝ) := Real.rpow_pos_of_pos (by positivity) _
  rw [div_le_div_iff₀ hy32 hc32]
  have e3 : c / 3 = c / (2 * y) / (3 / 2) * y := by field_simp
  rw [e3, Real.mul_rpow (by positivity) hy.le, Real.div_rpow hu.le (by norm_num)]
  have h32 : 0 < (3 / 2 : ℝ) ^ (3 / 2 : ℝ) := by positivity
  have hq : (c / (2 * y)) ^ (3 / 2 : ℝ) * Real.exp (-(c / (2 * y))) / (3 / 2 : ℝ) ^ (3 / 2 : ℝ)
      ≤ Real.exp (-(3 / 2)) := by
    rw [div_le_iff₀ h32]; linarith
  have := mul_le_mul_of_nonneg_right hq hy32.le
  calc Real.exp (-(c / (2 * y))) * ((c / (2 * y)) ^ (3 / 2 : ℝ) / (3 / 2 : ℝ) ^ (3 / 2 : ℝ) * y ^ (3 / 2 : ℝ))
      = (c / (2 * y)) ^ (3 / 2 : ℝ) * Real.exp (-(c / (2 * y))) / (3 / 2 : ℝ) ^ (3 / 2 : ℝ) * y ^ (3 / 2 : ℝ) := by
        ring
    _ ≤ Real.exp (-(3 / 2)) * y ^ (3 / 2 : ℝ) := this

/-- Levy: the pdf is maximal at `mode() = mu + c/3` -/
theorem levy_mode (d : Levy ℝ) (h : 0 < d.f_c) (x : ℝ) :
    Levy.pdf d x ≤ Levy.pdf d (unwrapO (Levy.mode d)) := by
  unfold Levy.mode unwrapO Levy.pdf
  rfun_norm
  rw [show (3.0:ℝ) = 3 by norm_num, show (0.5:ℝ) = 1 / 2 by norm_num, show (1.5:ℝ) = 3 / 2 by norm_num,
    show (0.0:ℝ) = 0 by norm_num]
  have hc3 : 0 < d.f_c / 3 := by positivity
  rw [if_neg (show ¬ (d.f_mu + d.f_c / 3 ≤ d.f_mu) by linarith), add_sub_cancel_left]
  have hsq : 0 ≤ Real.sqrt (d.f_c / (2 * Real.pi)) := Real.sqrt_nonneg _
  have hpm : 0 ≤ Real.sqrt (d.f_c / (2 * Real.pi)) * Real.exp (-(1 / 2 * d.f_c / (d.f_c / 3)))
      / (d.f_c / 3) ^ (3 / 2 : ℝ) := by positivity
  split_ifs with hx
  · exact hpm
  · have hy : 0 < x - d.f_mu := by linarith
    have k := mul_le_mul_of_nonneg_left (levy_kernel_le d.f_c (x - d.f_mu) h hy) hsq
    rw [← mul_div_assoc, ← mul_div_assoc] at k
    exact k

example : ∃ d : Levy ℝ, 0 < d.f_c := ⟨⟨0, 1⟩, by norm_num⟩

end Statrs.Props.C08
