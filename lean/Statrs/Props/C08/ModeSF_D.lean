/-
  C08 (mode part) — discrete families whose pmf goes through the abstract special functions
  `SF.ln_factorial` / `SF.ln_binomial`: Poisson, Binomial, Bernoulli.
  `mode()` is a point where the model's pmf attains its maximum over the `u64` arguments:
  `∀ k ≥ 0, pmf k ≤ pmf (mode)` (carrier ℝ, under the constructor's acceptance predicate, relative
  to explicit premises about `SF ℝ`: `Spec.ModeD.LnFactorialStepSpec` for Poisson,
  `Spec.TestsSF.LnBinomialSpec` for Binomial/Bernoulli, `Spec.LnBinomialOneSpec` for the
  Bernoulli-only variant).
  No counterexample was found: the three statements hold on the whole constructor domain
  (including `p = 0`, `p = 1`, `n = 0`, and the tie `(n+1)p ∈ ℤ`, where `mode()` returns the
  larger of the two maximisers).
-/
import Statrs.Real.Simp
import Statrs.Gen.D_poisson
import Statrs.Gen.D_binomial
import Statrs.Gen.D_bernoulli
import Statrs.Lemmas.UnimodalSums
import Statrs.Spec.SFSpec_tests
import Statrs.Spec.SFSpec_modeD
import Mathlib.Tactic
set_option linter.unusedVariables false
namespace Statrs.Props.C08
open Statrs Statrs.Gen Statrs.Spec Statrs.Spec.TestsSF Statrs.Spec.ModeD Statrs.Lemmas.UnimodalSums

/-! ## Poisson -/

/-- Poisson: `mode() = ⌊λ⌋` -/
theorem poisson_mode_eq (d : Poisson ℝ) (h : 0 < d.f_lambda) :
    unwrapO (Poisson.mode d) = ⌊d.f_lambda⌋ := by
  unfold Poisson.mode unwrapO
  show max 0 ⌊RFun.floor d.f_lambda⌋ = _
  rfun_norm
  rw [Int.floor_intCast]
  exact max_eq_right (Int.floor_nonneg.mpr h.le)

/-- Poisson: the pmf in Mathlib's terms -/
theorem poisson_pmf_eq [SF ℝ] (d : Poisson ℝ) (k : ℤ) :
    Poisson.pmf d k = Real.exp (-d.f_lambda + (k : ℝ) * Real.log d.f_lambda - SF.ln_factorial k) := by
  unfold Poisson.pmf
  rfun_norm

/-- Poisson, one step up: `pmf k ≤ pmf (k+1)` when `k + 1 ≤ λ` -/
theorem poisson_pmf_step_up_rel [SF ℝ] (S : LnFactorialStepSpec) (d : Poisson ℝ) (h : 0 < d.f_lambda)
    (k : ℤ) (hk : 0 ≤ k) (hkl : (k : ℝ) + 1 ≤ d.f_lambda) :
    Poisson.pmf d k ≤ Poisson.pmf d (k + 1) := by
  rw [poisson_pmf_eq, poisson_pmf_eq, S.ln_factorial_succ k hk, Real.exp_le_exp]
  have hk0 : (0:ℝ) < (k : ℝ) + 1 := by
    have : (0:ℝ) ≤ (k : ℝ) := by exact_mod_cast hk
    linarith
  have := Real.log_le_log hk0 hkl
  push_cast
  linarith

/-- Poisson, one step down: `pmf (k+1) ≤ pmf k` when `λ ≤ k + 1` -/
theorem poisson_pmf_step_down_rel [SF ℝ] (S : LnFactorialStepSpec) (d : Poisson ℝ) (h : 0 < d.f_lambda)
    (k : ℤ) (hk : 0 ≤ k) (hkl : d.f_lambda ≤ (k : ℝ) + 1) :
    Poisson.pmf d (k + 1) ≤ Poisson.pmf d k := by
  rw [poisson_pmf_eq, poisson_pmf_eq, S.ln_factorial_succ k hk, Real.exp_le_exp]
  have := Real.log_le_log h hkl
  push_cast
  linarith

/-- Poisson (`new` accepts exactly `0 < λ`): for every `u64` argument the pmf is at most the pmf at
    `mode() = ⌊λ⌋`, relative to the recurrence `ln (k+1)! = ln k! + ln (k+1)`. -/
theorem poisson_mode_rel [SF ℝ] (S : LnFactorialStepSpec) (d : Poisson ℝ) (h : 0 < d.f_lambda)
    (k : ℤ) (hk : 0 ≤ k) :
    Poisson.pmf d k ≤ Poisson.pmf d (unwrapO (Poisson.mode d)) := by
  rw [poisson_mode_eq d h]
  have hm0 : 0 ≤ ⌊d.f_lambda⌋ := Int.floor_nonneg.mpr h.le
  rcases le_total k ⌊d.f_lambda⌋ with hkm | hkm
  · refine monoFrom_of_step (fun j => Poisson.pmf d j) ⌊d.f_lambda⌋ ?_ k ⌊d.f_lambda⌋ hk hkm le_rfl
    intro j hj hjm
    apply poisson_pmf_step_up_rel S d h j hj
    have : ((j + 1 : ℤ) : ℝ) ≤ d.f_lambda := Int.le_floor.mp hjm
    push_cast at this
    exact this
  · refine anti_of_step (fun j => Poisson.pmf d j) ⌊d.f_lambda⌋ ?_ ⌊d.f_lambda⌋ k le_rfl hkm
    intro j hj
    apply poisson_pmf_step_down_rel S d h j (hm0.trans hj)
    have h1 := (Int.lt_floor_add_one d.f_lambda).le
    have h2 : ((⌊d.f_lambda⌋ : ℤ) : ℝ) ≤ (j : ℝ) := by exact_mod_cast hj
    linarith

example : ∃ d : Poisson ℝ, 0 < d.f_lambda := ⟨⟨5 / 2⟩, by norm_num⟩
example : @LnFactorialStepSpec sfWitness := lnFactorialStepSpec_witness

/-! ## Binomial -/

/-- Binomial with `p = 0`: `mode() = 0` -/
theorem binomial_mode_eq_p0 (d : Binomial ℝ) (hp : d.f_p = 0) : unwrapO (Binomial.mode d) = 0 := by
  unfold Binomial.mode unwrapO
  rfun_norm
  have e0 : d.f_p = (0.0:ℝ) := by norm_num; exact hp
  simp only [if_pos e0]

/-- Binomial with `p = 1`: `mode() = n` -/
theorem binomial_mode_eq_p1 (d : Binomial ℝ) (hp : d.f_p = 1) : unwrapO (Binomial.mode d) = d.f_n := by
  unfold Binomial.mode unwrapO
  rfun_norm
  have e0 : ¬ d.f_p = (0.0:ℝ) := by rw [hp]; norm_num
  have e1 : decide (d.f_p = (1.0:ℝ)) = true := by norm_num; exact hp
  simp only [if_neg e0, if_pos e1]

/-- Binomial with `0 < p < 1`: `mode() = ⌊(n+1)p⌋` -/
theorem binomial_mode_eq_mid (d : Binomial ℝ) (hn : 0 ≤ d.f_n) (h0 : 0 < d.f_p) (h1 : d.f_p < 1) :
    unwrapO (Binomial.mode d) = ⌊((d.f_n : ℝ) + 1) * d.f_p⌋ := by
  unfold Binomial.mode unwrapO
  rfun_norm
  have e0 : ¬ d.f_p = (0.0:ℝ) := by norm_num; exact h0.ne'
  have e1 : ¬ (decide (d.f_p = (1.0:ℝ)) = true) := by norm_num; exact h1.ne
  simp only [if_neg e0, if_neg e1]
  show max 0 ⌊((⌊((d.f_n : ℝ) + (1.0:ℝ)) * d.f_p⌋ : ℤ) : ℝ)⌋ = _
  rw [Int.floor_intCast, show (1.0:ℝ) = 1 by norm_num]
  apply max_eq_right
  apply Int.floor_nonneg.mpr
  have : (0:ℝ) ≤ (d.f_n : ℝ) := by exact_mod_cast hn
  positivity

/-- the pmf is non-negative at every argument (each branch is `0`, `1` or an exponential) -/
theorem binomial_pmf_nonneg [SF ℝ] (d : Binomial ℝ) (k : ℤ) : 0 ≤ Binomial.pmf d k := by
  unfold Binomial.pmf
  rfun_norm
  split_ifs <;> first | exact (Real.exp_pos _).le | norm_num

/-- Binomial, `0 < p < 1`, on the support `0 ≤ k ≤ n`: `pmf k = C(n,k) · exp (k ln p + (n−k) ln (1−p))` -/
theorem binomial_pmf_mid_rel [SF ℝ] (S : LnBinomialSpec) (d : Binomial ℝ) (h0 : 0 < d.f_p) (h1 : d.f_p < 1)
    (k : ℤ) (hk : 0 ≤ k) (hkn : k ≤ d.f_n) :
    Binomial.pmf d k = (Nat.choose d.f_n.toNat k.toNat : ℝ) *
      Real.exp ((k : ℝ) * Real.log d.f_p + ((d.f_n : ℝ) - (k : ℝ)) * Real.log (1 - d.f_p)) := by
  unfold Binomial.pmf
  rfun_norm
  have e0 : ¬ d.f_p = (0.0:ℝ) := by norm_num; exact h0.ne'
  have e1 : ¬ (decide (d.f_p = (1.0:ℝ)) = true) := by norm_num; exact h1.ne
  have hu : usub d.f_n k = d.f_n - k := by unfold usub; rw [if_neg (by omega)]
  rw [if_neg (by omega), if_neg e0, if_neg e1, hu, show (1.0:ℝ) = 1 by norm_num]
  rw [add_assoc, Real.exp_add, S.exp_ln_binomial d.f_n k hk hkn]
  push_cast
  rfl

/-- Binomial, `0 < p < 1`: the ratio of consecutive pmf values on the support, cross-multiplied:
    `pmf (k+1) · (k+1)(1−p) = pmf k · (n−k) p` -/
theorem binomial_pmf_ratio_rel [SF ℝ] (S : LnBinomialSpec) (d : Binomial ℝ) (h0 : 0 < d.f_p) (h1 : d.f_p < 1)
    (k : ℤ) (hk : 0 ≤ k) (hkn : k + 1 ≤ d.f_n) :
    Binomial.pmf d (k + 1) * (((k : ℝ) + 1) * (1 - d.f_p))
      = Binomial.pmf d k * (((d.f_n : ℝ) - (k : ℝ)) * d.f_p) := by
  rw [binomial_pmf_mid_rel S d h0 h1 (k + 1) (by omega) hkn,
    binomial_pmf_mid_rel S d h0 h1 k hk (by omega)]
  have hq : 0 < 1 - d.f_p := by linarith
  -- the binomial coefficients
  have hc : (Nat.choose d.f_n.toNat (k + 1).toNat : ℝ) * ((k : ℝ) + 1)
      = (Nat.choose d.f_n.toNat k.toNat : ℝ) * ((d.f_n : ℝ) - (k : ℝ)) := by
    obtain ⟨K, rfl⟩ := Int.eq_ofNat_of_zero_le hk
    obtain ⟨N, hN⟩ := Int.eq_ofNat_of_zero_le (show 0 ≤ d.f_n by omega)
    rw [hN] at hkn ⊢
    have hKN : K + 1 ≤ N := by omega
    have t1 : ((K : ℤ) + 1).toNat = K + 1 := by omega
    have t2 : ((K : ℤ)).toNat = K := by omega
    have t3 : ((N : ℤ)).toNat = N := by omega
    rw [t1, t2, t3]
    have := Nat.choose_succ_right_eq N K
    have h' : ((N.choose (K + 1) * (K + 1) : ℕ) : ℝ) = ((N.choose K * (N - K) : ℕ) : ℝ) := by rw [this]
    rw [Nat.cast_mul, Nat.cast_mul, Nat.cast_sub (by omega)] at h'
    push_cast at h' ⊢
    exact h'
  -- the exponentials
  have he : Real.exp (((k + 1 : ℤ) : ℝ) * Real.log d.f_p + ((d.f_n : ℝ) - ((k + 1 : ℤ) : ℝ)) * Real.log (1 - d.f_p))
        * (1 - d.f_p)
      = Real.exp ((k : ℝ) * Real.log d.f_p + ((d.f_n : ℝ) - (k : ℝ)) * Real.log (1 - d.f_p)) * d.f_p := by
    have ep : Real.exp (Real.log d.f_p) = d.f_p := Real.exp_log h0
    have eq : Real.exp (Real.log (1 - d.f_p)) = 1 - d.f_p := Real.exp_log hq
    generalize Real.log d.f_p = L at ep ⊢
    generalize Real.log (1 - d.f_p) = M at eq ⊢
    rw [← eq, ← Real.exp_add]
    rw [← ep, ← Real.exp_add]
    congr 1
    push_cast
    ring
  calc _ = ((Nat.choose d.f_n.toNat (k + 1).toNat : ℝ) * ((k : ℝ) + 1)) *
        (Real.exp (((k + 1 : ℤ) : ℝ) * Real.log d.f_p + ((d.f_n : ℝ) - ((k + 1 : ℤ) : ℝ)) * Real.log (1 - d.f_p))
          * (1 - d.f_p)) := by ring
    _ = _ := by rw [hc, he]; ring

/-- Binomial, one step up: `pmf k ≤ pmf (k+1)` when `k + 1 ≤ (n+1) p` -/
theorem binomial_pmf_step_up_rel [SF ℝ] (S : LnBinomialSpec) (d : Binomial ℝ) (h0 : 0 < d.f_p) (h1 : d.f_p < 1)
    (k : ℤ) (hk : 0 ≤ k) (hkn : k + 1 ≤ d.f_n) (hkp : (k : ℝ) + 1 ≤ ((d.f_n : ℝ) + 1) * d.f_p) :
    Binomial.pmf d k ≤ Binomial.pmf d (k + 1) := by
  have hr := binomial_pmf_ratio_rel S d h0 h1 k hk hkn
  have hk0 : (0:ℝ) ≤ (k : ℝ) := by exact_mod_cast hk
  have hpos : 0 < ((k : ℝ) + 1) * (1 - d.f_p) := mul_pos (by linarith) (by linarith)
  apply le_of_mul_le_mul_right _ hpos
  rw [hr]
  apply mul_le_mul_of_nonneg_left _ (binomial_pmf_nonneg d k)
  nlinarith

/-- Binomial, one step down: `pmf (k+1) ≤ pmf k` when `(n+1) p ≤ k + 1` -/
theorem binomial_pmf_step_down_rel [SF ℝ] (S : LnBinomialSpec) (d : Binomial ℝ) (h0 : 0 < d.f_p) (h1 : d.f_p < 1)
    (k : ℤ) (hk : 0 ≤ k) (hkn : k + 1 ≤ d.f_n) (hkp : ((d.f_n : ℝ) + 1) * d.f_p ≤ (k : ℝ) + 1) :
    Binomial.pmf d (k + 1) ≤ Binomial.pmf d k := by
  have hr := binomial_pmf_ratio_rel S d h0 h1 k hk hkn
  have hk0 : (0:ℝ) ≤ (k : ℝ) := by exact_mod_cast hk
  have hpos : 0 < ((k : ℝ) + 1) * (1 - d.f_p) := mul_pos (by linarith) (by linarith)
  apply le_of_mul_le_mul_right _ hpos
  rw [hr]
  apply mul_le_mul_of_nonneg_left _ (binomial_pmf_nonneg d k)
  nlinarith

/-- beyond the support the pmf is `0` -/
theorem binomial_pmf_above [SF ℝ] (d : Binomial ℝ) (k : ℤ) (hkn : d.f_n < k) : Binomial.pmf d k = 0 := by
  unfold Binomial.pmf
  rw [if_pos hkn]; norm_num

/-- Binomial (`new p n` accepts exactly `0 ≤ p ≤ 1`; `n : u64`): for every `u64` argument the pmf is
    at most the pmf at `mode()` (`0` for `p = 0`, `n` for `p = 1`, `⌊(n+1)p⌋` otherwise), relative to
    `exp (ln_binomial n k) = C(n,k)` on `0 ≤ k ≤ n`.  When `(n+1)p` is an integer, `mode()` and
    `mode() − 1` are both maximisers. -/
theorem binomial_mode_rel [SF ℝ] (S : LnBinomialSpec) (d : Binomial ℝ) (hn : 0 ≤ d.f_n) (h0 : 0 ≤ d.f_p)
    (h1 : d.f_p ≤ 1) (k : ℤ) (hk : 0 ≤ k) :
    Binomial.pmf d k ≤ Binomial.pmf d (unwrapO (Binomial.mode d)) := by
  rcases eq_or_lt_of_le h0 with hp0 | hp0
  · -- p = 0
    rw [binomial_mode_eq_p0 d hp0.symm]
    unfold Binomial.pmf
    rfun_norm
    have e0 : d.f_p = (0.0:ℝ) := by norm_num; exact hp0.symm
    simp only [if_pos e0, if_neg (show ¬ d.f_n < 0 by omega), if_true]
    split_ifs <;> norm_num
  rcases eq_or_lt_of_le h1 with hp1 | hp1
  · -- p = 1
    rw [binomial_mode_eq_p1 d hp1]
    unfold Binomial.pmf
    rfun_norm
    have e0 : ¬ d.f_p = (0.0:ℝ) := by norm_num; exact hp0.ne'
    have e1 : decide (d.f_p = (1.0:ℝ)) = true := by norm_num; exact hp1
    simp only [if_neg e0, if_pos e1, if_neg (lt_irrefl d.f_n), if_true]
    split_ifs <;> norm_num
  -- 0 < p < 1
  rw [binomial_mode_eq_mid d hn hp0 hp1]
  have hn0 : (0:ℝ) ≤ (d.f_n : ℝ) := by exact_mod_cast hn
  have hm0 : 0 ≤ ⌊((d.f_n : ℝ) + 1) * d.f_p⌋ := Int.floor_nonneg.mpr (by positivity)
  have hmn : ⌊((d.f_n : ℝ) + 1) * d.f_p⌋ ≤ d.f_n := by
    have : ⌊((d.f_n : ℝ) + 1) * d.f_p⌋ < d.f_n + 1 := by
      rw [Int.floor_lt]; push_cast; nlinarith
    omega
  rcases le_total k ⌊((d.f_n : ℝ) + 1) * d.f_p⌋ with hkm | hkm
  · refine monoFrom_of_step (fun j => Binomial.pmf d j) _ ?_ k _ hk hkm le_rfl
    intro j hj hjm
    apply binomial_pmf_step_up_rel S d hp0 hp1 j hj (by omega)
    have : ((j + 1 : ℤ) : ℝ) ≤ ((d.f_n : ℝ) + 1) * d.f_p := Int.le_floor.mp hjm
    push_cast at this
    exact this
  · refine anti_of_step (fun j => Binomial.pmf d j) _ ?_ _ k le_rfl hkm
    intro j hj
    rcases lt_or_ge j d.f_n with hjn | hjn
    · apply binomial_pmf_step_down_rel S d hp0 hp1 j (hm0.trans hj) (by omega)
      have h1' := (Int.lt_floor_add_one (((d.f_n : ℝ) + 1) * d.f_p)).le
      have h2 : ((⌊((d.f_n : ℝ) + 1) * d.f_p⌋ : ℤ) : ℝ) ≤ (j : ℝ) := by exact_mod_cast hj
      linarith
    · show Binomial.pmf d (j + 1) ≤ Binomial.pmf d j
      rw [binomial_pmf_above d (j + 1) (by omega)]
      exact binomial_pmf_nonneg d j

/-- Binomial pmf on `k ≤ n`, branch `p = 0` -/
theorem binomial_pmf_p0 [SF ℝ] (d : Binomial ℝ) (hp : d.f_p = 0) (k : ℤ) (hkn : k ≤ d.f_n) :
    Binomial.pmf d k = if k = 0 then 1 else 0 := by
  unfold Binomial.pmf
  rfun_norm
  have e0 : d.f_p = (0.0:ℝ) := by norm_num; exact hp
  rw [if_neg (by omega), if_pos e0]
  norm_num

/-- Binomial pmf on `k ≤ n`, branch `p = 1` -/
theorem binomial_pmf_p1 [SF ℝ] (d : Binomial ℝ) (hp : d.f_p = 1) (k : ℤ) (hkn : k ≤ d.f_n) :
    Binomial.pmf d k = if k = d.f_n then 1 else 0 := by
  unfold Binomial.pmf
  rfun_norm
  have e0 : ¬ d.f_p = (0.0:ℝ) := by rw [hp]; norm_num
  have e1 : decide (d.f_p = (1.0:ℝ)) = true := by norm_num; exact hp
  rw [if_neg (by omega), if_neg e0, if_pos e1]
  norm_num

/-- Binomial pmf on `k ≤ n`, branch `0 < p < 1` (no premise on `SF`) -/
theorem binomial_pmf_mid_raw [SF ℝ] (d : Binomial ℝ) (h0 : 0 < d.f_p) (h1 : d.f_p < 1) (k : ℤ)
    (hkn : k ≤ d.f_n) :
    Binomial.pmf d k = Real.exp (SF.ln_binomial d.f_n k + (k : ℝ) * Real.log d.f_p
      + ((d.f_n - k : ℤ) : ℝ) * Real.log (1 - d.f_p)) := by
  unfold Binomial.pmf
  rfun_norm
  have e0 : ¬ d.f_p = (0.0:ℝ) := by norm_num; exact h0.ne'
  have e1 : ¬ (decide (d.f_p = (1.0:ℝ)) = true) := by norm_num; exact h1.ne
  have hu : usub d.f_n k = d.f_n - k := by unfold usub; rw [if_neg (by omega)]
  rw [if_neg (by omega), if_neg e0, if_neg e1, hu, show (1.0:ℝ) = 1 by norm_num]

/-- Binomial, `0 < p < 1`, the tie: when `(n+1)p` is an integer `m` (`1 ≤ m ≤ n`), `mode() = m` and
    `pmf (m − 1) = pmf m`, so `mode()` returns the larger of the two maximisers. -/
theorem binomial_mode_tie_rel [SF ℝ] (S : LnBinomialSpec) (d : Binomial ℝ) (h0 : 0 < d.f_p) (h1 : d.f_p < 1)
    (m : ℤ) (hm1 : 1 ≤ m) (hmn : m ≤ d.f_n) (hm : ((d.f_n : ℝ) + 1) * d.f_p = (m : ℝ)) :
    unwrapO (Binomial.mode d) = m ∧ Binomial.pmf d (m - 1) = Binomial.pmf d m := by
  refine ⟨?_, ?_⟩
  · rw [binomial_mode_eq_mid d (by omega) h0 h1, hm, Int.floor_intCast]
  · have hr := binomial_pmf_ratio_rel S d h0 h1 (m - 1) (by omega) (by omega)
    rw [sub_add_cancel] at hr
    have hm0 : (1:ℝ) ≤ (m : ℝ) := by exact_mod_cast hm1
    have hpos : 0 < (m : ℝ) * (1 - d.f_p) := mul_pos (by linarith) (by linarith)
    have e : ((d.f_n : ℝ) - ((m - 1 : ℤ) : ℝ)) * d.f_p = (m : ℝ) * (1 - d.f_p) := by
      push_cast; linarith
    have e' : (((m - 1 : ℤ) : ℝ) + 1) = (m : ℝ) := by push_cast; ring
    rw [e, e'] at hr
    exact (mul_right_cancel₀ hpos.ne' hr).symm

example : ∃ d : Binomial ℝ, 0 ≤ d.f_n ∧ 0 ≤ d.f_p ∧ d.f_p ≤ 1 := ⟨⟨1 / 3, 5⟩, by norm_num, by norm_num, by norm_num⟩
example : @LnBinomialSpec sfWitness := lnBinomialSpec_witness

/-! ## Bernoulli (`new p` builds `Binomial p 1`) -/

/-- Bernoulli: for every `u64` argument the pmf is at most the pmf at `mode()` (corollary of
    `binomial_mode_rel` with `n = 1`). -/
theorem bernoulli_mode_rel [SF ℝ] (S : LnBinomialSpec) (d : Bernoulli ℝ) (hn : d.f_b.f_n = 1)
    (h0 : 0 ≤ d.f_b.f_p) (h1 : d.f_b.f_p ≤ 1) (k : ℤ) (hk : 0 ≤ k) :
    Bernoulli.pmf d k ≤ Bernoulli.pmf d (unwrapO (Bernoulli.mode d)) := by
  unfold Bernoulli.pmf Bernoulli.mode
  exact binomial_mode_rel S d.f_b (by omega) h0 h1 k hk

/-- Bernoulli, closed form of `mode()` on the whole constructor domain `0 ≤ p ≤ 1`
    (`p = 0 ↦ 0`, `p = 1 ↦ 1`, `p = 1/2 ↦ 1`): `mode() = 0` if `p < 1/2`, else `1`. -/
theorem bernoulli_mode_eq (d : Bernoulli ℝ) (hn : d.f_b.f_n = 1) (h0 : 0 ≤ d.f_b.f_p)
    (h1 : d.f_b.f_p ≤ 1) :
    unwrapO (Bernoulli.mode d) = if d.f_b.f_p < 1 / 2 then 0 else 1 := by
  unfold Bernoulli.mode
  rcases eq_or_lt_of_le h0 with hp0 | hp0
  · rw [binomial_mode_eq_p0 d.f_b hp0.symm, if_pos (by rw [← hp0]; norm_num)]
  rcases eq_or_lt_of_le h1 with hp1 | hp1
  · rw [binomial_mode_eq_p1 d.f_b hp1, if_neg (by rw [hp1]; norm_num), hn]
  rw [binomial_mode_eq_mid d.f_b (by omega) hp0 hp1, hn]
  split_ifs with hh
  · rw [Int.floor_eq_iff]; push_cast; constructor <;> nlinarith
  · rw [Int.floor_eq_iff]; push_cast; constructor <;> nlinarith

/-- Bernoulli: `pmf 0 = 1 − p` on the whole constructor domain, relative to `ln C(1,0) = 0` -/
theorem bernoulli_pmf_zero_rel [SF ℝ] (O : LnBinomialOneSpec) (d : Bernoulli ℝ) (hn : d.f_b.f_n = 1)
    (h0 : 0 ≤ d.f_b.f_p) (h1 : d.f_b.f_p ≤ 1) : Bernoulli.pmf d 0 = 1 - d.f_b.f_p := by
  unfold Bernoulli.pmf
  rcases eq_or_lt_of_le h0 with hp0 | hp0
  · rw [binomial_pmf_p0 d.f_b hp0.symm 0 (by omega), ← hp0]; norm_num
  rcases eq_or_lt_of_le h1 with hp1 | hp1
  · rw [binomial_pmf_p1 d.f_b hp1 0 (by omega), hp1, hn]; norm_num
  rw [binomial_pmf_mid_raw d.f_b hp0 hp1 0 (by omega), hn, O.ln_binomial_one_zero]
  norm_num
  rw [Real.exp_log (by linarith)]

/-- Bernoulli: `pmf 1 = p` on the whole constructor domain, relative to `ln C(1,1) = 0` -/
theorem bernoulli_pmf_one_rel [SF ℝ] (O : LnBinomialOneSpec) (d : Bernoulli ℝ) (hn : d.f_b.f_n = 1)
    (h0 : 0 ≤ d.f_b.f_p) (h1 : d.f_b.f_p ≤ 1) : Bernoulli.pmf d 1 = d.f_b.f_p := by
  unfold Bernoulli.pmf
  rcases eq_or_lt_of_le h0 with hp0 | hp0
  · rw [binomial_pmf_p0 d.f_b hp0.symm 1 (by omega), ← hp0]; norm_num
  rcases eq_or_lt_of_le h1 with hp1 | hp1
  · rw [binomial_pmf_p1 d.f_b hp1 1 (by omega), hp1, hn]; norm_num
  rw [binomial_pmf_mid_raw d.f_b hp0 hp1 1 (by omega), hn, O.ln_binomial_one_one]
  norm_num
  rw [Real.exp_log hp0]

/-- Bernoulli: the same statement as `bernoulli_mode_rel` under the weaker premise
    `ln C(1,0) = ln C(1,1) = 0` (`pmf 0 = 1 − p`, `pmf 1 = p`, `pmf k = 0` for `k ≥ 2`). -/
theorem bernoulli_mode_rel_one [SF ℝ] (O : LnBinomialOneSpec) (d : Bernoulli ℝ) (hn : d.f_b.f_n = 1)
    (h0 : 0 ≤ d.f_b.f_p) (h1 : d.f_b.f_p ≤ 1) (k : ℤ) (hk : 0 ≤ k) :
    Bernoulli.pmf d k ≤ Bernoulli.pmf d (unwrapO (Bernoulli.mode d)) := by
  have hz := bernoulli_pmf_zero_rel O d hn h0 h1
  have ho := bernoulli_pmf_one_rel O d hn h0 h1
  have hm : Bernoulli.pmf d (unwrapO (Bernoulli.mode d)) = max (1 - d.f_b.f_p) d.f_b.f_p := by
    rw [bernoulli_mode_eq d hn h0 h1]
    split_ifs with hh
    · rw [hz, max_eq_left (by linarith)]
    · rw [ho, max_eq_right (by linarith)]
  rw [hm]
  rcases (show k = 0 ∨ k = 1 ∨ 2 ≤ k by omega) with rfl | rfl | h2
  · rw [hz]; exact le_max_left _ _
  · rw [ho]; exact le_max_right _ _
  · have : Bernoulli.pmf d k = 0 := by
      unfold Bernoulli.pmf
      exact binomial_pmf_above d.f_b k (by omega)
    rw [this]
    exact le_trans h0 (le_max_right _ _)

example : ∃ d : Bernoulli ℝ, d.f_b.f_n = 1 ∧ 0 ≤ d.f_b.f_p ∧ d.f_b.f_p ≤ 1 :=
  ⟨⟨⟨1 / 2, 1⟩⟩, rfl, by norm_num, by norm_num⟩
example : @LnBinomialOneSpec sfWitness := lnBinomialOneSpec_witness

end Statrs.Props.C08
