/-
  C08 (mode part), NegativeBinomial and Hypergeometric — `mode()` is a maximiser of the model's pmf
  (`∀ k ≥ 0, pmf k ≤ pmf (mode)`), over ℝ with the special functions abstract.
  * NegativeBinomial, relative to `GammaDensitySpec` (`SF.ln_gamma = log ∘ Γ` on `(0, ∞)`).
    `mode()` returns an f64 (ℝ) while `pmf` takes a `u64` (Int): the statement is about the integer
    `m` whose cast is the returned value (it exists and is ≥ 0: `negative_binomial_mode_int`).
    Partial: `0 < r`, `0 < p < 1` (the constructor also accepts `r = 0`, `p = 0`, `p = 1`, where the
    ℝ model evaluates `ln_gamma 0` / `ln 0` / `x / 0` junk).
  * Hypergeometric, relative to `BinomialChooseSpec` (`SF.binomial n k = C(n,k)` on ℕ × ℕ), under
    exactly the constructor's predicate; plus the strict step facts on the support in the form of
    the fields of C16's `UnimodalPmfSpec` (`incr`, `decr`, `le_mode`, `pos`, `zero_below`,
    `zero_above`).
  No counterexample found: both `mode()` formulas are maximisers on the stated domains.
-/
import Statrs.Real.Simp
import Statrs.Gen.D_negative_binomial
import Statrs.Gen.D_hypergeometric
import Statrs.Lemmas.UnimodalSums
import Statrs.Spec.SFSpec_Density
import Statrs.Spec.SFSpec_modeE
import Mathlib.Analysis.SpecialFunctions.Gamma.Basic
import Mathlib.Tactic
set_option linter.unusedVariables false
namespace Statrs.Props.C08
open Statrs Statrs.Gen Statrs.Spec Statrs.Lemmas.UnimodalSums

section NegativeBinomial
variable [SF ℝ]

/-- one step of the log-pmf: `ln_pmf (k+1) = ln_pmf k + log ((r+k)(1−p)/(k+1))` -/
theorem negative_binomial_ln_pmf_step_rel (S : GammaDensitySpec) (d : NegativeBinomial ℝ)
    (hr : 0 < d.f_r) (hp0 : 0 < d.f_p) (hp1 : d.f_p < 1) (k : ℤ) (hk : 0 ≤ k) :
    NegativeBinomial.ln_pmf d (k + 1) = NegativeBinomial.ln_pmf d k
      + Real.log ((d.f_r + (k : ℝ)) * (1 - d.f_p) / ((k : ℝ) + 1)) := by
  have hx : (0:ℝ) ≤ (k:ℝ) := by exact_mod_cast hk
  have hrk : 0 < d.f_r + (k:ℝ) := by linarith
  have hk1 : 0 < (k:ℝ) + 1 := by linarith
  have hq : 0 < 1 - d.f_p := by linarith
  unfold NegativeBinomial.ln_pmf
  rfun_norm
  push_cast
  rw [show (1.0:ℝ) = 1 by norm_num]
  have h1 : d.f_r + ((k:ℝ) + 1) = (d.f_r + k) + 1 := by ring
  rw [h1, S.ln_gamma_eq (d.f_r + k + 1) (by linarith), S.ln_gamma_eq (d.f_r + k) hrk,
    S.ln_gamma_eq ((k:ℝ) + 1 + 1) (by linarith), S.ln_gamma_eq ((k:ℝ) + 1) hk1,
    Real.Gamma_add_one hrk.ne', Real.Gamma_add_one hk1.ne',
    Real.log_mul hrk.ne' (Real.Gamma_pos_of_pos hrk).ne',
    Real.log_mul hk1.ne' (Real.Gamma_pos_of_pos hk1).ne',
    Real.log_div (mul_pos hrk hq).ne' hk1.ne', Real.log_mul hrk.ne' hq.ne',
    show (1:ℝ) + -d.f_p = 1 - d.f_p by ring]
  ring

/-- `pmf k ≤ pmf (k+1)` when `k + 1 ≤ (r−1)(1−p)/p` -/
theorem negative_binomial_pmf_step_le_rel (S : GammaDensitySpec) (d : NegativeBinomial ℝ)
    (hr : 0 < d.f_r) (hp0 : 0 < d.f_p) (hp1 : d.f_p < 1) (k : ℤ) (hk : 0 ≤ k)
    (h : (k : ℝ) + 1 ≤ (d.f_r - 1) * (1 - d.f_p) / d.f_p) :
    NegativeBinomial.pmf d k ≤ NegativeBinomial.pmf d (k + 1) := by
  have hx : (0:ℝ) ≤ (k:ℝ) := by exact_mod_cast hk
  have hk1 : 0 < (k:ℝ) + 1 := by linarith
  unfold NegativeBinomial.pmf
  rfun_norm
  rw [Real.exp_le_exp, negative_binomial_ln_pmf_step_rel S d hr hp0 hp1 k hk]
  have : 0 ≤ Real.log ((d.f_r + (k : ℝ)) * (1 - d.f_p) / ((k : ℝ) + 1)) := by
    apply Real.log_nonneg
    rw [le_div_iff₀ hk1, one_mul]
    rw [le_div_iff₀ hp0] at h
    nlinarith
  linarith

/-- `pmf (k+1) ≤ pmf k` when `(r−1)(1−p)/p < k + 1` -/
theorem negative_binomial_pmf_step_ge_rel (S : GammaDensitySpec) (d : NegativeBinomial ℝ)
    (hr : 0 < d.f_r) (hp0 : 0 < d.f_p) (hp1 : d.f_p < 1) (k : ℤ) (hk : 0 ≤ k)
    (h : (d.f_r - 1) * (1 - d.f_p) / d.f_p < (k : ℝ) + 1) :
    NegativeBinomial.pmf d (k + 1) ≤ NegativeBinomial.pmf d k := by
  have hx : (0:ℝ) ≤ (k:ℝ) := by exact_mod_cast hk
  have hk1 : 0 < (k:ℝ) + 1 := by linarith
  have hrk : 0 < d.f_r + (k:ℝ) := by linarith
  have hq : 0 < 1 - d.f_p := by linarith
  unfold NegativeBinomial.pmf
  rfun_norm
  rw [Real.exp_le_exp, negative_binomial_ln_pmf_step_rel S d hr hp0 hp1 k hk]
  have : Real.log ((d.f_r + (k : ℝ)) * (1 - d.f_p) / ((k : ℝ) + 1)) ≤ 0 := by
    apply Real.log_nonpos (by positivity)
    rw [div_le_iff₀ hk1, one_mul]
    rw [div_lt_iff₀ hp0] at h
    nlinarith
  linarith

omit [SF ℝ] in
/-- the value returned by `mode()` -/
theorem negative_binomial_mode_eq (d : NegativeBinomial ℝ) :
    unwrapO (NegativeBinomial.mode d)
      = if 1 < d.f_r then ((⌊(d.f_r - 1) * (1 - d.f_p) / d.f_p⌋ : ℤ) : ℝ) else 0 := by
  unfold NegativeBinomial.mode unwrapO
  rfun_norm
  norm_num

omit [SF ℝ] in
/-- `mode()` is (the cast of) a non-negative integer: `⌊(r−1)(1−p)/p⌋` for `r > 1`, else `0`
    (needs only `0 < p ≤ 1`; no special function involved) -/
theorem negative_binomial_mode_int (d : NegativeBinomial ℝ) (hp0 : 0 < d.f_p) (hp1 : d.f_p ≤ 1) :
    ∃ m : ℤ, 0 ≤ m ∧ (m : ℝ) = unwrapO (NegativeBinomial.mode d) ∧
      m = if 1 < d.f_r then ⌊(d.f_r - 1) * (1 - d.f_p) / d.f_p⌋ else 0 := by
  rw [negative_binomial_mode_eq]
  by_cases h : 1 < d.f_r
  · refine ⟨⌊(d.f_r - 1) * (1 - d.f_p) / d.f_p⌋, ?_, by rw [if_pos h], by rw [if_pos h]⟩
    apply Int.floor_nonneg.mpr
    apply div_nonneg (mul_nonneg (by linarith) (by linarith)) hp0.le
  · exact ⟨0, le_refl _, by rw [if_neg h]; norm_num, by rw [if_neg h]⟩

/-- NegativeBinomial, `0 < r`, `0 < p < 1`: the pmf is maximal (over all `u64` arguments `k ≥ 0`)
    at the integer `m` returned (as an f64) by `mode()`.
    PARTIAL w.r.t. the constructor (`0 ≤ r`, `0 ≤ p ≤ 1`): excluded are `r = 0` (`ln_gamma` at its
    pole `0`, outside `GammaDensitySpec`), `p = 0` (`ln 0` and the division by `p` are ℝ-junk; in
    IEEE `mode() = +inf`) and `p = 1` (`ln1p(−1) = ln 0` is ℝ-junk standing for `−inf`).  These are
    limits of the ℝ model, not code defects. -/
theorem negative_binomial_mode_partial (S : GammaDensitySpec) (d : NegativeBinomial ℝ)
    (hr : 0 < d.f_r) (hp0 : 0 < d.f_p) (hp1 : d.f_p < 1) (m : ℤ)
    (hm : (m : ℝ) = unwrapO (NegativeBinomial.mode d)) (k : ℤ) (hk : 0 ≤ k) :
    NegativeBinomial.pmf d k ≤ NegativeBinomial.pmf d m := by
  rw [negative_binomial_mode_eq] at hm
  set t := (d.f_r - 1) * (1 - d.f_p) / d.f_p with ht
  -- facts about m
  have hfacts : 0 ≤ m ∧ (1 ≤ m → (m : ℝ) ≤ t) ∧ t < (m : ℝ) + 1 := by
    by_cases h : 1 < d.f_r
    · rw [if_pos h] at hm
      have hm' : m = ⌊t⌋ := by exact_mod_cast hm
      have ht0 : 0 ≤ t := div_nonneg (mul_nonneg (by linarith) (by linarith)) hp0.le
      refine ⟨by rw [hm']; exact Int.floor_nonneg.mpr ht0, fun _ => by rw [hm']; exact Int.floor_le t,
        by rw [hm']; exact Int.lt_floor_add_one t⟩
    · rw [if_neg h] at hm
      have hm' : m = 0 := by exact_mod_cast hm
      have ht0 : t ≤ 0 := by
        apply div_nonpos_of_nonpos_of_nonneg _ hp0.le
        exact mul_nonpos_of_nonpos_of_nonneg (by linarith) (by linarith)
      refine ⟨by omega, fun h1 => by omega, by rw [hm']; push_cast; linarith⟩
  obtain ⟨hm0, hlo, hhi⟩ := hfacts
  rcases le_total k m with hkm | hkm
  · refine monoFrom_of_step (fun i => NegativeBinomial.pmf d i) m ?_ k m hk hkm (le_refl _)
    intro i hi0 hi
    apply negative_binomial_pmf_step_le_rel S d hr hp0 hp1 i hi0
    have h1 : ((i : ℝ) + 1) ≤ (m : ℝ) := by exact_mod_cast hi
    have := hlo (by omega)
    linarith
  · refine anti_of_step (fun i => NegativeBinomial.pmf d i) m ?_ m k (le_refl _) hkm
    intro i hi
    apply negative_binomial_pmf_step_ge_rel S d hr hp0 hp1 i (by omega)
    have h1 : (m : ℝ) ≤ (i : ℝ) := by exact_mod_cast hi
    linarith

/-- non-vacuity: parameters and the spec witness -/
example : ∃ d : NegativeBinomial ℝ, 0 < d.f_r ∧ 0 < d.f_p ∧ d.f_p < 1 ∧
    ∃ m : ℤ, 0 ≤ m ∧ (m : ℝ) = unwrapO (NegativeBinomial.mode d) := by
  refine ⟨⟨3, 1 / 2⟩, by norm_num, by norm_num, by norm_num, ?_⟩
  obtain ⟨m, h0, h1, _⟩ := negative_binomial_mode_int (⟨3, 1 / 2⟩ : NegativeBinomial ℝ)
    (by norm_num) (by norm_num)
  exact ⟨m, h0, h1⟩

end NegativeBinomial

example : @GammaDensitySpec sfWitness := gammaDensitySpec_witness

/-! ## Hypergeometric -/

section HypergeometricArith

/-- real-arithmetic core of the ratio argument: with `A'·a = A·c`, `B·b = B'·e` the comparison of
    `A·B` with `A'·B'` is the comparison of `a·e` with `c·b` -/
theorem hyper_step_le_real {A A' B B' a b c e : ℝ} (hA : 0 ≤ A) (hB' : 0 ≤ B') (ha : 0 < a)
    (hb : 0 < b) (h1 : A' * a = A * c) (h2 : B * b = B' * e) (hkey : a * e ≤ c * b) :
    A * B ≤ A' * B' := by
  have hab : 0 < a * b := mul_pos ha hb
  have e1 : A * B * (a * b) = (A * B') * (a * e) := by linear_combination (A * a) * h2
  have e2 : A' * B' * (a * b) = (A * B') * (c * b) := by linear_combination (B' * b) * h1
  have := mul_le_mul_of_nonneg_left hkey (mul_nonneg hA hB')
  exact le_of_mul_le_mul_right (by rw [e1, e2]; exact this) hab

theorem hyper_step_ge_real {A A' B B' a b c e : ℝ} (hA : 0 ≤ A) (hB' : 0 ≤ B') (ha : 0 < a)
    (hb : 0 < b) (h1 : A' * a = A * c) (h2 : B * b = B' * e) (hkey : c * b ≤ a * e) :
    A' * B' ≤ A * B := by
  have hab : 0 < a * b := mul_pos ha hb
  have e1 : A * B * (a * b) = (A * B') * (a * e) := by linear_combination (A * a) * h2
  have e2 : A' * B' * (a * b) = (A * B') * (c * b) := by linear_combination (B' * b) * h1
  have := mul_le_mul_of_nonneg_left hkey (mul_nonneg hA hB')
  exact le_of_mul_le_mul_right (by rw [e1, e2]; exact this) hab

theorem hyper_step_lt_real {A A' B B' a b c e : ℝ} (hA : 0 < A) (hB' : 0 < B') (ha : 0 < a)
    (hb : 0 < b) (h1 : A' * a = A * c) (h2 : B * b = B' * e) (hkey : a * e < c * b) :
    A * B < A' * B' := by
  have hab : 0 < a * b := mul_pos ha hb
  have e1 : A * B * (a * b) = (A * B') * (a * e) := by linear_combination (A * a) * h2
  have e2 : A' * B' * (a * b) = (A * B') * (c * b) := by linear_combination (B' * b) * h1
  have := mul_lt_mul_of_pos_left hkey (mul_pos hA hB')
  exact lt_of_mul_lt_mul_right (by rw [e1, e2]; exact this) hab.le

theorem hyper_step_gt_real {A A' B B' a b c e : ℝ} (hA : 0 < A) (hB' : 0 < B') (ha : 0 < a)
    (hb : 0 < b) (h1 : A' * a = A * c) (h2 : B * b = B' * e) (hkey : c * b < a * e) :
    A' * B' < A * B := by
  have hab : 0 < a * b := mul_pos ha hb
  have e1 : A * B * (a * b) = (A * B') * (a * e) := by linear_combination (A * a) * h2
  have e2 : A' * B' * (a * b) = (A * B') * (c * b) := by linear_combination (B' * b) * h1
  have := mul_lt_mul_of_pos_left hkey (mul_pos hA hB')
  exact lt_of_mul_lt_mul_right (by rw [e1, e2]; exact this) hab.le

/-- numerator `C(K,k)·C(N−K,n−k)` of the hypergeometric pmf (as a real) -/
noncomputable def hyperNum (N K n k : ℕ) : ℝ := (K.choose k : ℝ) * ((N - K).choose (n - k) : ℝ)

theorem hyperNum_nonneg (N K n k : ℕ) : 0 ≤ hyperNum N K n k := by
  unfold hyperNum; positivity

/-- one step of the numerator: the sign of `hyperNum (k+1) − hyperNum k` is the sign of
    `(K+1)(n+1) − (k+1)(N+2)` (strictly so where `C(K,k)·C(N−K,n−k−1) > 0`) -/
theorem hyperNum_step (N K n k : ℕ) (hK : K ≤ N) (hk : k + 1 ≤ n) :
    ((k + 1) * (N + 2) ≤ (K + 1) * (n + 1) → hyperNum N K n k ≤ hyperNum N K n (k + 1)) ∧
    ((K + 1) * (n + 1) < (k + 1) * (N + 2) → hyperNum N K n (k + 1) ≤ hyperNum N K n k) ∧
    (k ≤ K → n ≤ k + 1 + (N - K) → (k + 1) * (N + 2) < (K + 1) * (n + 1) →
      hyperNum N K n k < hyperNum N K n (k + 1)) ∧
    (k ≤ K → n ≤ k + 1 + (N - K) → (K + 1) * (n + 1) < (k + 1) * (N + 2) →
      hyperNum N K n (k + 1) < hyperNum N K n k) := by
  obtain ⟨j, hj⟩ : ∃ j, n = k + 1 + j := ⟨n - (k + 1), by omega⟩
  subst hj
  have e1 : k + 1 + j - k = j + 1 := by omega
  have e2 : k + 1 + j - (k + 1) = j := by omega
  unfold hyperNum
  rw [e1, e2]
  by_cases hkK : K < k
  · rw [Nat.choose_eq_zero_of_lt hkK, Nat.choose_eq_zero_of_lt (show K < k + 1 by omega)]
    exact ⟨fun _ => by simp, fun _ => by simp, fun h _ _ => by omega, fun h _ _ => by omega⟩
  by_cases hjM : N - K < j
  · rw [Nat.choose_eq_zero_of_lt hjM, Nat.choose_eq_zero_of_lt (show N - K < j + 1 by omega)]
    exact ⟨fun _ => by simp, fun _ => by simp, fun _ h _ => by omega, fun _ h _ => by omega⟩
  push Not at hkK hjM
  have h1 : ((K.choose (k + 1) : ℕ) : ℝ) * ((k : ℝ) + 1) = (K.choose k : ℝ) * ((K : ℝ) - k) := by
    have h := congrArg (Nat.cast (R := ℝ)) (Nat.choose_succ_right_eq K k)
    push_cast [Nat.cast_sub hkK] at h
    exact h
  have h2 : (((N - K).choose (j + 1) : ℕ) : ℝ) * ((j : ℝ) + 1)
      = ((N - K).choose j : ℝ) * ((N : ℝ) - K - j) := by
    have h := congrArg (Nat.cast (R := ℝ)) (Nat.choose_succ_right_eq (N - K) j)
    push_cast [Nat.cast_sub hjM, Nat.cast_sub hK] at h
    exact h
  have hApos : (0:ℝ) < (K.choose k : ℝ) := by exact_mod_cast Nat.choose_pos hkK
  have hBpos : (0:ℝ) < ((N - K).choose j : ℝ) := by exact_mod_cast Nat.choose_pos hjM
  have ha : (0:ℝ) < (k : ℝ) + 1 := by positivity
  have hb : (0:ℝ) < (j : ℝ) + 1 := by positivity
  have hid : ((K : ℝ) - k) * ((j : ℝ) + 1) - ((k : ℝ) + 1) * ((N : ℝ) - K - j)
      = ((K : ℝ) + 1) * (((k + 1 + j : ℕ) : ℝ) + 1) - ((k : ℝ) + 1) * ((N : ℝ) + 2) := by
    push_cast; ring
  refine ⟨fun h => ?_, fun h => ?_, fun _ _ h => ?_, fun _ _ h => ?_⟩
  · have h' : ((k : ℝ) + 1) * ((N : ℝ) + 2) ≤ ((K : ℝ) + 1) * (((k + 1 + j : ℕ) : ℝ) + 1) := by
      exact_mod_cast h
    exact hyper_step_le_real hApos.le hBpos.le ha hb h1 h2 (by linarith)
  · have h' : ((K : ℝ) + 1) * (((k + 1 + j : ℕ) : ℝ) + 1) < ((k : ℝ) + 1) * ((N : ℝ) + 2) := by
      exact_mod_cast h
    exact hyper_step_ge_real hApos.le hBpos.le ha hb h1 h2 (by linarith)
  · have h' : ((k : ℝ) + 1) * ((N : ℝ) + 2) < ((K : ℝ) + 1) * (((k + 1 + j : ℕ) : ℝ) + 1) := by
      exact_mod_cast h
    exact hyper_step_lt_real hApos hBpos ha hb h1 h2 (by linarith)
  · have h' : ((K : ℝ) + 1) * (((k + 1 + j : ℕ) : ℝ) + 1) < ((k : ℝ) + 1) * ((N : ℝ) + 2) := by
      exact_mod_cast h
    exact hyper_step_gt_real hApos hBpos ha hb h1 h2 (by linarith)

/-- the accepted parameter triples are casts of naturals -/
theorem hyper_lift (d : Hypergeometric) (h0K : 0 ≤ d.f_successes) (h0n : 0 ≤ d.f_draws)
    (hK : d.f_successes ≤ d.f_population) (hn : d.f_draws ≤ d.f_population) :
    ∃ N K n : ℕ, d = ⟨(N : ℤ), (K : ℤ), (n : ℤ)⟩ ∧ K ≤ N ∧ n ≤ N := by
  obtain ⟨N, K, n⟩ := d
  simp only at h0K h0n hK hn
  lift K to ℕ using h0K
  lift n to ℕ using h0n
  lift N to ℕ using (by omega)
  exact ⟨N, K, n, rfl, by exact_mod_cast hK, by exact_mod_cast hn⟩

end HypergeometricArith

section Hypergeometric
variable [SF ℝ]
open Statrs.Spec.ModeE

/-- the pmf on `0 ≤ k ≤ n` is `C(K,k)·C(N−K,n−k)/C(N,n)` -/
theorem hypergeometric_pmf_eq_rel (B : BinomialChooseSpec) (N K n k : ℕ) (hK : K ≤ N) (hk : k ≤ n) :
    Hypergeometric.pmf (α := ℝ) ⟨(N : ℤ), (K : ℤ), (n : ℤ)⟩ (k : ℤ)
      = hyperNum N K n k / (N.choose n : ℝ) := by
  unfold Hypergeometric.pmf hyperNum
  simp only []
  rw [if_neg (by omega)]
  have e1 : usub (N : ℤ) (K : ℤ) = ((N - K : ℕ) : ℤ) := by
    unfold usub; rw [if_neg (by omega)]; omega
  have e2 : usub (n : ℤ) (k : ℤ) = ((n - k : ℕ) : ℤ) := by
    unfold usub; rw [if_neg (by omega)]; omega
  rw [e1, e2, B.binomial_eq, B.binomial_eq, B.binomial_eq]

/-- the pmf is non-negative at every `u64` argument -/
theorem hypergeometric_pmf_nonneg_rel (B : BinomialChooseSpec) (N K n : ℕ) (hK : K ≤ N) (k : ℤ)
    (hk : 0 ≤ k) : 0 ≤ Hypergeometric.pmf (α := ℝ) ⟨(N : ℤ), (K : ℤ), (n : ℤ)⟩ k := by
  by_cases h : (n : ℤ) < k
  · unfold Hypergeometric.pmf
    simp only []
    rw [if_pos h]; norm_num
  · lift k to ℕ using hk
    rw [hypergeometric_pmf_eq_rel B N K n k hK (by omega)]
    exact div_nonneg (hyperNum_nonneg _ _ _ _) (Nat.cast_nonneg _)

/-- one step of the pmf, natural-number parameters -/
theorem hypergeometric_pmf_step_nat_rel (B : BinomialChooseSpec) (N K n k : ℕ) (hK : K ≤ N)
    (hn : n ≤ N) (hk : k + 1 ≤ n) :
    ((k + 1) * (N + 2) ≤ (K + 1) * (n + 1) →
      Hypergeometric.pmf (α := ℝ) ⟨(N : ℤ), (K : ℤ), (n : ℤ)⟩ (k : ℤ)
        ≤ Hypergeometric.pmf (α := ℝ) ⟨(N : ℤ), (K : ℤ), (n : ℤ)⟩ ((k : ℤ) + 1)) ∧
    ((K + 1) * (n + 1) < (k + 1) * (N + 2) →
      Hypergeometric.pmf (α := ℝ) ⟨(N : ℤ), (K : ℤ), (n : ℤ)⟩ ((k : ℤ) + 1)
        ≤ Hypergeometric.pmf (α := ℝ) ⟨(N : ℤ), (K : ℤ), (n : ℤ)⟩ (k : ℤ)) ∧
    (k ≤ K → n ≤ k + 1 + (N - K) → (k + 1) * (N + 2) < (K + 1) * (n + 1) →
      Hypergeometric.pmf (α := ℝ) ⟨(N : ℤ), (K : ℤ), (n : ℤ)⟩ (k : ℤ)
        < Hypergeometric.pmf (α := ℝ) ⟨(N : ℤ), (K : ℤ), (n : ℤ)⟩ ((k : ℤ) + 1)) ∧
    (k ≤ K → n ≤ k + 1 + (N - K) → (K + 1) * (n + 1) < (k + 1) * (N + 2) →
      Hypergeometric.pmf (α := ℝ) ⟨(N : ℤ), (K : ℤ), (n : ℤ)⟩ ((k : ℤ) + 1)
        < Hypergeometric.pmf (α := ℝ) ⟨(N : ℤ), (K : ℤ), (n : ℤ)⟩ (k : ℤ)) := by
  have hC : (0:ℝ) < (N.choose n : ℝ) := by exact_mod_cast Nat.choose_pos hn
  have ek := hypergeometric_pmf_eq_rel B N K n k hK (by omega)
  have ek1 := hypergeometric_pmf_eq_rel B N K n (k + 1) hK hk
  push_cast at ek1
  obtain ⟨s1, s2, s3, s4⟩ := hyperNum_step N K n k hK hk
  rw [ek, ek1]
  exact ⟨fun h => div_le_div_of_nonneg_right (s1 h) hC.le,
    fun h => div_le_div_of_nonneg_right (s2 h) hC.le,
    fun a b h => div_lt_div_of_pos_right (s3 a b h) hC,
    fun a b h => div_lt_div_of_pos_right (s4 a b h) hC⟩

omit [SF ℝ] in
/-- `mode()` is `⌊(n+1)(K+1)/(N+2)⌋` (integer floor division; the divisor `N+2` is never 0) -/
theorem hypergeometric_mode_eq (d : Hypergeometric) (h0K : 0 ≤ d.f_successes)
    (h0n : 0 ≤ d.f_draws) (hK : d.f_successes ≤ d.f_population) (hn : d.f_draws ≤ d.f_population) :
    unwrapO (Hypergeometric.mode (α := ℝ) d)
      = ((d.f_draws + 1) * (d.f_successes + 1)) / (d.f_population + 2) := by
  unfold Hypergeometric.mode unwrapO udiv
  rw [if_neg (by omega)]

omit [SF ℝ] in
/-- `mode()` lies in the support `[max 0 (n+K−N), min n K]` -/
theorem hypergeometric_mode_in_support (d : Hypergeometric) (h0K : 0 ≤ d.f_successes)
    (h0n : 0 ≤ d.f_draws) (hK : d.f_successes ≤ d.f_population) (hn : d.f_draws ≤ d.f_population) :
    max 0 (d.f_draws + d.f_successes - d.f_population) ≤ unwrapO (Hypergeometric.mode (α := ℝ) d) ∧
      unwrapO (Hypergeometric.mode (α := ℝ) d) ≤ min d.f_draws d.f_successes := by
  rw [hypergeometric_mode_eq d h0K h0n hK hn]
  have hpos : 0 < d.f_population + 2 := by omega
  have h1 := mul_nonneg (sub_nonneg.mpr hK) (sub_nonneg.mpr hn)
  refine ⟨max_le ?_ ?_, le_min ?_ ?_⟩
  · exact Int.ediv_nonneg (mul_nonneg (by omega) (by omega)) hpos.le
  · rw [Int.le_ediv_iff_mul_le hpos]; nlinarith
  · apply Int.lt_add_one_iff.mp
    rw [Int.ediv_lt_iff_lt_mul hpos]; nlinarith
  · apply Int.lt_add_one_iff.mp
    rw [Int.ediv_lt_iff_lt_mul hpos]; nlinarith

omit [SF ℝ] in
/-- the two defining inequalities of the floor quotient `m = ⌊(n+1)(K+1)/(N+2)⌋` -/
theorem hyper_mode_bounds (N K n : ℤ) (hN : 0 ≤ N) :
    ((n + 1) * (K + 1)) / (N + 2) * (N + 2) ≤ (n + 1) * (K + 1) ∧
      (n + 1) * (K + 1) < (((n + 1) * (K + 1)) / (N + 2) + 1) * (N + 2) :=
  ⟨Int.ediv_mul_le _ (by omega), Int.lt_ediv_add_one_mul_self _ (by omega)⟩

/-- Hypergeometric, under exactly the constructor's acceptance predicate (`K ≤ N`, `n ≤ N`, all
    `u64`): the pmf is maximal (over all `u64` arguments `k ≥ 0`) at `mode()`. -/
theorem hypergeometric_mode_rel (B : BinomialChooseSpec) (d : Hypergeometric)
    (h0K : 0 ≤ d.f_successes) (h0n : 0 ≤ d.f_draws) (hK : d.f_successes ≤ d.f_population)
    (hn : d.f_draws ≤ d.f_population) (k : ℤ) (hk : 0 ≤ k) :
    Hypergeometric.pmf (α := ℝ) d k
      ≤ Hypergeometric.pmf (α := ℝ) d (unwrapO (Hypergeometric.mode (α := ℝ) d)) := by
  have hsup := hypergeometric_mode_in_support d h0K h0n hK hn
  rw [hypergeometric_mode_eq d h0K h0n hK hn] at hsup ⊢
  obtain ⟨N, K, n, rfl, hKN, hnN⟩ := hyper_lift d h0K h0n hK hn
  simp only [] at hsup ⊢
  obtain ⟨hb1, hb2⟩ := hyper_mode_bounds (N : ℤ) (K : ℤ) (n : ℤ) (by omega)
  set m : ℤ := (((n : ℤ) + 1) * ((K : ℤ) + 1)) / ((N : ℤ) + 2) with hm
  have hm0 : 0 ≤ m := le_trans (le_max_left _ _) hsup.1
  have hmn : m ≤ n := le_trans hsup.2 (min_le_left _ _)
  have hN2 : (0:ℤ) < (N : ℤ) + 2 := by omega
  rcases le_total k m with hkm | hkm
  · refine monoFrom_of_step (fun i => Hypergeometric.pmf (α := ℝ) ⟨(N : ℤ), (K : ℤ), (n : ℤ)⟩ i)
      m ?_ k m hk hkm (le_refl _)
    intro i hi0 hi
    lift i to ℕ using hi0
    apply (hypergeometric_pmf_step_nat_rel B N K n i hKN hnN (by omega)).1
    have : ((i : ℤ) + 1) * ((N : ℤ) + 2) ≤ ((K : ℤ) + 1) * ((n : ℤ) + 1) := by nlinarith
    exact_mod_cast this
  · refine anti_of_step (fun i => Hypergeometric.pmf (α := ℝ) ⟨(N : ℤ), (K : ℤ), (n : ℤ)⟩ i)
      m ?_ m k (le_refl _) hkm
    intro i hi
    by_cases hin : i + 1 ≤ n
    · lift i to ℕ using (by omega)
      apply (hypergeometric_pmf_step_nat_rel B N K n i hKN hnN (by omega)).2.1
      have : ((K : ℤ) + 1) * ((n : ℤ) + 1) < ((i : ℤ) + 1) * ((N : ℤ) + 2) := by nlinarith
      exact_mod_cast this
    · have h0 : Hypergeometric.pmf (α := ℝ) ⟨(N : ℤ), (K : ℤ), (n : ℤ)⟩ (i + 1) = 0 := by
        unfold Hypergeometric.pmf
        simp only []
        rw [if_pos (by omega)]; norm_num
      show Hypergeometric.pmf (α := ℝ) ⟨(N : ℤ), (K : ℤ), (n : ℤ)⟩ (i + 1) ≤ _
      rw [h0]
      exact hypergeometric_pmf_nonneg_rel B N K n hKN i (by omega)

/-- strict increase below the mode, on the support (`incr` field of C16's `UnimodalPmfSpec`) -/
theorem hypergeometric_pmf_incr_rel (B : BinomialChooseSpec) (d : Hypergeometric)
    (h0K : 0 ≤ d.f_successes) (h0n : 0 ≤ d.f_draws) (hK : d.f_successes ≤ d.f_population)
    (hn : d.f_draws ≤ d.f_population) (k : ℤ)
    (hlo : max 0 (d.f_draws + d.f_successes - d.f_population) ≤ k)
    (hk : k + 1 < unwrapO (Hypergeometric.mode (α := ℝ) d)) :
    Hypergeometric.pmf (α := ℝ) d k < Hypergeometric.pmf (α := ℝ) d (k + 1) := by
  have hsup := hypergeometric_mode_in_support d h0K h0n hK hn
  rw [hypergeometric_mode_eq d h0K h0n hK hn] at hsup hk
  obtain ⟨N, K, n, rfl, hKN, hnN⟩ := hyper_lift d h0K h0n hK hn
  simp only [] at hsup hk hlo ⊢
  obtain ⟨hb1, hb2⟩ := hyper_mode_bounds (N : ℤ) (K : ℤ) (n : ℤ) (by omega)
  set m : ℤ := (((n : ℤ) + 1) * ((K : ℤ) + 1)) / ((N : ℤ) + 2) with hm
  have hmn : m ≤ n := le_trans hsup.2 (min_le_left _ _)
  have hmK : m ≤ K := le_trans hsup.2 (min_le_right _ _)
  have hk0 : 0 ≤ k := le_trans (le_max_left _ _) hlo
  have hk1 : (n : ℤ) + K - N ≤ k := le_trans (le_max_right _ _) hlo
  lift k to ℕ using hk0
  apply (hypergeometric_pmf_step_nat_rel B N K n k hKN hnN (by omega)).2.2.1 (by omega) (by omega)
  have : ((k : ℤ) + 1) * ((N : ℤ) + 2) < ((K : ℤ) + 1) * ((n : ℤ) + 1) := by nlinarith
  exact_mod_cast this

/-- strict decrease from the mode on, on the support (`decr` field of C16's `UnimodalPmfSpec`) -/
theorem hypergeometric_pmf_decr_rel (B : BinomialChooseSpec) (d : Hypergeometric)
    (h0K : 0 ≤ d.f_successes) (h0n : 0 ≤ d.f_draws) (hK : d.f_successes ≤ d.f_population)
    (hn : d.f_draws ≤ d.f_population) (k : ℤ)
    (hmk : unwrapO (Hypergeometric.mode (α := ℝ) d) ≤ k)
    (hk : k < min d.f_draws d.f_successes) :
    Hypergeometric.pmf (α := ℝ) d (k + 1) < Hypergeometric.pmf (α := ℝ) d k := by
  have hsup := hypergeometric_mode_in_support d h0K h0n hK hn
  rw [hypergeometric_mode_eq d h0K h0n hK hn] at hsup hmk
  obtain ⟨N, K, n, rfl, hKN, hnN⟩ := hyper_lift d h0K h0n hK hn
  simp only [] at hsup hk hmk ⊢
  obtain ⟨hb1, hb2⟩ := hyper_mode_bounds (N : ℤ) (K : ℤ) (n : ℤ) (by omega)
  set m : ℤ := (((n : ℤ) + 1) * ((K : ℤ) + 1)) / ((N : ℤ) + 2) with hm
  have hm0 : 0 ≤ m := le_trans (le_max_left _ _) hsup.1
  have hm1 : (n : ℤ) + K - N ≤ m := le_trans (le_max_right _ _) hsup.1
  have hkn : k < n := lt_of_lt_of_le hk (min_le_left _ _)
  have hkK : k < K := lt_of_lt_of_le hk (min_le_right _ _)
  lift k to ℕ using (by omega)
  apply (hypergeometric_pmf_step_nat_rel B N K n k hKN hnN (by omega)).2.2.2 (by omega) (by omega)
  have : ((K : ℤ) + 1) * ((n : ℤ) + 1) < ((k : ℤ) + 1) * ((N : ℤ) + 2) := by nlinarith
  exact_mod_cast this

/-- `pmf (mode − 1) ≤ pmf mode` (`le_mode` field of C16's `UnimodalPmfSpec`), for `mode ≥ 1`: at
    `mode = 0` the left side is `pmf (−1)`, not a `u64` argument, where the abstract `SF.binomial`
    is unconstrained. -/
theorem hypergeometric_pmf_le_mode_rel (B : BinomialChooseSpec) (d : Hypergeometric)
    (h0K : 0 ≤ d.f_successes) (h0n : 0 ≤ d.f_draws) (hK : d.f_successes ≤ d.f_population)
    (hn : d.f_draws ≤ d.f_population) (h1 : 1 ≤ unwrapO (Hypergeometric.mode (α := ℝ) d)) :
    Hypergeometric.pmf (α := ℝ) d (unwrapO (Hypergeometric.mode (α := ℝ) d) - 1)
      ≤ Hypergeometric.pmf (α := ℝ) d (unwrapO (Hypergeometric.mode (α := ℝ) d)) :=
  hypergeometric_mode_rel B d h0K h0n hK hn _ (by omega)

/-- positivity on the support, zero outside (`pos`, `zero_below`, `zero_above` of `UnimodalPmfSpec`) -/
theorem hypergeometric_pmf_support_rel (B : BinomialChooseSpec) (d : Hypergeometric)
    (h0K : 0 ≤ d.f_successes) (h0n : 0 ≤ d.f_draws) (hK : d.f_successes ≤ d.f_population)
    (hn : d.f_draws ≤ d.f_population) (k : ℤ) (hk0 : 0 ≤ k) :
    (max 0 (d.f_draws + d.f_successes - d.f_population) ≤ k → k ≤ min d.f_draws d.f_successes →
      0 < Hypergeometric.pmf (α := ℝ) d k) ∧
    (k < max 0 (d.f_draws + d.f_successes - d.f_population) → Hypergeometric.pmf (α := ℝ) d k = 0) ∧
    (min d.f_draws d.f_successes < k → Hypergeometric.pmf (α := ℝ) d k = 0) := by
  obtain ⟨N, K, n, rfl, hKN, hnN⟩ := hyper_lift d h0K h0n hK hn
  simp only []
  lift k to ℕ using hk0
  have hC : (0:ℝ) < (N.choose n : ℝ) := by exact_mod_cast Nat.choose_pos hnN
  refine ⟨fun h1 h2 => ?_, fun h1 => ?_, fun h1 => ?_⟩
  · have h3 := le_trans (le_max_right _ _) h1
    have h4 := le_trans h2 (min_le_left _ _)
    have h5 := le_trans h2 (min_le_right _ _)
    rw [hypergeometric_pmf_eq_rel B N K n k hKN (by omega)]
    apply div_pos _ hC
    unfold hyperNum
    have a1 : 0 < K.choose k := Nat.choose_pos (by omega)
    have a2 : 0 < (N - K).choose (n - k) := Nat.choose_pos (by omega)
    exact mul_pos (by exact_mod_cast a1) (by exact_mod_cast a2)
  · have h3 : (k : ℤ) < (n : ℤ) + K - N := by
      rcases lt_max_iff.mp h1 with h | h
      · omega
      · exact h
    rw [hypergeometric_pmf_eq_rel B N K n k hKN (by omega)]
    unfold hyperNum
    rw [Nat.choose_eq_zero_of_lt (show N - K < n - k by omega)]
    simp
  · by_cases hkn : (n : ℤ) < k
    · unfold Hypergeometric.pmf
      simp only []
      rw [if_pos hkn]; norm_num
    · have h3 : (K : ℤ) < k := by
        rcases min_lt_iff.mp h1 with h | h
        · omega
        · exact h
      rw [hypergeometric_pmf_eq_rel B N K n k hKN (by omega)]
      unfold hyperNum
      rw [Nat.choose_eq_zero_of_lt (show K < k by omega)]
      simp

/-- non-vacuity: parameters accepted by `Hypergeometric::new` and the spec witness -/
example : ∃ d : Hypergeometric, 0 ≤ d.f_successes ∧ 0 ≤ d.f_draws ∧
    d.f_successes ≤ d.f_population ∧ d.f_draws ≤ d.f_population ∧
    1 ≤ unwrapO (Hypergeometric.mode (α := ℝ) d) :=
  ⟨⟨10, 4, 5⟩, by decide, by decide, by decide, by decide, by decide⟩

end Hypergeometric

example : @Statrs.Spec.ModeE.BinomialChooseSpec sfWitness :=
  Statrs.Spec.ModeE.binomialChooseSpec_witness

end Statrs.Props.C08
