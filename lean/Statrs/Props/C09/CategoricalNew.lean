/-
  C09 — `Categorical::new` (src/distribution/categorical.rs:84), against the hand transcription
  `Statrs.Model.Categorical.new` in Statrs/Model/CategoricalModel.lean.

  `Categorical::new` is NOT in the generated model (untranslated: `.iter_mut`); the transcription
  is pinned to the code by the `categorical` correspondence suite (Model/CatDispatch.lean: the hand
  constructor followed by every generated method, ≈ 4.6·10⁴ requests per quick run, bit-exact).
  Theorems are tagged `rel(hand transcription)` for that reason; within it the statements are full:

    * `categorical_new_cases`     — complete decision list, in the order the code checks;    (∀α)
    * `categorical_new_ok_iff`    — `Ok` exactly on the DOCUMENTED domain `Dom.Categorical.Domain`
                                    (non-empty, sum not `== 0`, no entry `< 0` or NaN) — here
                                    documentation and code agree;                            (XR)
    * `categorical_new_err`       — the variant returned and its documented condition;       (XR)
    * `categorical_new_ok_params` — the stored tables: `cdf` = running sums, `sf` = `max − cdf`,
                                    `norm_pmf` = input divided by the LAST running sum, which is
                                    the same value as the validation loop's `prob_sum`;      (∀α)
    * `categorical_new_unwrap_safe` — `cdf[cdf.len() - 1]` is in range (never panics);       (∀α)
    * `categorical_new_ok_params_real` — over ℝ `norm_pmf` is the input divided by its sum, is
                                    non-negative and sums to 1;                              (ℝ)
    * `categorical_new_accepts_inf` — `[+∞, 1.0]` is accepted (documented: `+∞` is neither NaN
                                    nor `< 0`); in IEEE arithmetic `norm_pmf` is then `[NaN, 0]`,
                                    so "normalised probabilities" fails for that `Ok` value.
-/
import Statrs.Model.CategoricalModel
import Statrs.Spec.VectorDomain
import Statrs.Real.Simp
import Statrs.Lemmas.Multivariate
set_option linter.unusedSectionVars false
set_option linter.unusedVariables false
namespace Statrs.Props.C09
open Statrs Statrs.Gen Statrs.Model Statrs.Spec Statrs.Spec.XR Statrs.Lemmas.C09Vector

section generic
variable {α : Type} [Add α] [Sub α] [Mul α] [Div α] [Neg α] [LT α] [LE α] [BEq α]
  [DecidableLT α] [DecidableLE α] [OfScientific α] [Inhabited α] [RFun α]

/-- `prob_mass[i]` passes the validation loop: not NaN and not `< 0.0` -/
def MassOk (x : α) : Prop := ¬ ((RFun.isNaN x = true) ∨ x < (0.0 : α))

/-- the sum as the loop accumulates it -/
def massSum (p : List α) : α := p.foldl (fun a b => a + b) (0.0 : α)

/-- the fold inside `prob_mass_to_cdf`: first component = running sum, second = the pushes -/
theorem cdfFold_spec (p : List α) (c : α) (acc : List α) :
    (p.foldl (fun (st : α × List α) x => let sum := st.1 + x; (sum, st.2 ++ [sum])) (c, acc)).1
        = p.foldl (fun a b => a + b) c ∧
    (p.foldl (fun (st : α × List α) x => let sum := st.1 + x; (sum, st.2 ++ [sum])) (c, acc)).2.length
        = acc.length + p.length ∧
    ((p ≠ [] ∨ acc.getLast? = some c) →
      (p.foldl (fun (st : α × List α) x => let sum := st.1 + x; (sum, st.2 ++ [sum])) (c, acc)).2.getLast?
        = some (p.foldl (fun a b => a + b) c)) := by
  induction p generalizing c acc with
  | nil => simp
  | cons a t ih =>
    obtain ⟨h1, h2, h3⟩ := ih (c + a) (acc ++ [c + a])
    simp only [List.foldl_cons]
    refine ⟨h1, by rw [h2]; simp; omega, fun _ => h3 (Or.inr (by simp))⟩

/-- the table has one entry per mass, and its last entry is the loop's `prob_sum` (same
    additions in the same order), on every carrier -/
theorem prob_mass_to_cdf_spec' (p : List α) (hp : p ≠ []) :
    (prob_mass_to_cdf p).length = p.length ∧ (prob_mass_to_cdf p).getLast? = some (massSum p) := by
  unfold prob_mass_to_cdf massSum
  obtain ⟨_, h2, h3⟩ := cdfFold_spec p (0.0 : α) []
  exact ⟨by simpa using h2, h3 (Or.inl hp)⟩

/-- `cdf[cdf.len() - 1]` is in range and is the loop's `prob_sum` -/
theorem cdf_last (p : List α) (hp : p ≠ []) :
    listGet? (prob_mass_to_cdf p) (usub (listLen (prob_mass_to_cdf p)) (1 : Int)) = some (massSum p) := by
  obtain ⟨hlen, hlast⟩ := prob_mass_to_cdf_spec' p hp
  have hpos : 0 < p.length := List.length_pos_iff.mpr hp
  unfold listGet? usub listLen
  rw [hlen]
  have h1 : ¬ ((p.length : Int) < 1) := by omega
  rw [if_neg h1]
  have h2 : ¬ ((p.length : Int) - 1 < 0) := by omega
  rw [if_neg h2]
  rw [List.getLast?_eq_getElem?, hlen] at hlast
  have : ((p.length : Int) - 1).toNat = p.length - 1 := by omega
  rw [this]
  exact hlast

/-- the value stored by the `Ok` branch -/
def categoricalValue (p : List α) : Categorical α :=
  { f_norm_pmf := p.map (fun pm => pm / massSum p),
    f_cdf := prob_mass_to_cdf p,
    f_sf := D.categorical.cdf_to_sf (prob_mass_to_cdf p) }

/-- rel(hand transcription), ∀α: the complete behaviour of `Categorical::new`, in the order the
    code checks: empty → `ProbMassEmpty`; an entry NaN or `< 0.0` → `ProbMassHasInvalidElements`;
    accumulated sum `== 0.0` → `ProbMassSumZero`; otherwise `Ok`. -/
theorem categorical_new_cases (p : List α) :
    (p = [] ∧ Categorical.new p = .error .ProbMassEmpty) ∨
    (p ≠ [] ∧ (∃ x ∈ p, ¬ MassOk x) ∧ Categorical.new p = .error .ProbMassHasInvalidElements) ∨
    (p ≠ [] ∧ (∀ x ∈ p, MassOk x) ∧ (massSum p == (0.0 : α)) = true ∧
        Categorical.new p = .error .ProbMassSumZero) ∨
    (p ≠ [] ∧ (∀ x ∈ p, MassOk x) ∧ ¬ (massSum p == (0.0 : α)) = true ∧
        Categorical.new p = .ok (categoricalValue p)) := by
  unfold Categorical.new
  by_cases hemp : p = []
  · left; subst hemp; exact ⟨rfl, rfl⟩
  right
  have hne : p.isEmpty = false := by simpa using hemp
  rw [hne]
  simp only [Bool.false_eq_true, if_false]
  by_cases hbad : ∃ x ∈ p, ¬ MassOk x
  · left
    refine ⟨hemp, hbad, ?_⟩
    have : Multinomial.newLoop p (0.0 : α) = none := by
      rw [newLoop_eq_none_iff]
      obtain ⟨x, hx, h⟩ := hbad
      exact ⟨x, hx, not_not.mp h⟩
    rw [this]
  right
  have hall : ∀ x ∈ p, MassOk x := by
    intro x hx; by_contra h; exact hbad ⟨x, hx, h⟩
  rw [newLoop_eq_some p _ hall]
  by_cases hz : (massSum p == (0.0 : α)) = true
  · left; exact ⟨hemp, hall, hz, if_pos hz⟩
  · right; refine ⟨hemp, hall, hz, ?_⟩
    show (if (massSum p == (0.0 : α)) = true then _ else _) = _
    rw [if_neg hz, cdf_last p hemp]
    rfl

theorem categorical_new_ok_iff_generic (p : List α) :
    (∃ d, Categorical.new p = .ok d) ↔
      p ≠ [] ∧ (∀ x ∈ p, MassOk x) ∧ ¬ (massSum p == (0.0 : α)) = true := by
  rcases categorical_new_cases p with h | h | h | h
  · rw [h.2]; constructor
    · rintro ⟨d, hd⟩; cases hd
    · rintro ⟨h2, _⟩; exact absurd h.1 h2
  · rw [h.2.2]; constructor
    · rintro ⟨d, hd⟩; cases hd
    · rintro ⟨_, hall, _⟩; obtain ⟨x, hx, hb⟩ := h.2.1; exact absurd (hall x hx) hb
  · rw [h.2.2.2]; constructor
    · rintro ⟨d, hd⟩; cases hd
    · rintro ⟨_, _, hz⟩; exact absurd h.2.2.1 hz
  · rw [h.2.2.2]; exact ⟨fun _ => ⟨h.1, h.2.1, h.2.2.1⟩, fun _ => ⟨_, rfl⟩⟩

/-- rel(hand transcription), ∀α: the tables of an `Ok` value -/
theorem categorical_new_ok_params (p : List α) (d : Categorical α) (h : Categorical.new p = .ok d) :
    d = categoricalValue p ∧ d.f_norm_pmf = p.map (fun pm => pm / massSum p) ∧
      d.f_norm_pmf.length = p.length ∧ d.f_cdf.length = p.length ∧ d.f_sf.length = p.length ∧
      d.f_cdf.getLast? = some (massSum p) := by
  rcases categorical_new_cases p with h' | h' | h' | h'
  · rw [h'.2] at h; cases h
  · rw [h'.2.2] at h; cases h
  · rw [h'.2.2.2] at h; cases h
  · rw [h'.2.2.2] at h
    injection h with h
    subst h
    obtain ⟨hlen, hlast⟩ := prob_mass_to_cdf_spec' p h'.1
    refine ⟨rfl, rfl, by simp [categoricalValue], hlen, ?_, hlast⟩
    simp [categoricalValue, D.categorical.cdf_to_sf, hlen]

/-- rel(hand transcription), ∀α: never panics — the only panic site, the index
    `cdf[cdf.len() - 1]`, is in range whenever it is reached -/
theorem categorical_new_unwrap_safe (p : List α) (hp : p ≠ []) :
    ∃ s, listGet? (prob_mass_to_cdf p) (usub (listLen (prob_mass_to_cdf p)) (1 : Int)) = some s :=
  ⟨_, cdf_last p hp⟩

end generic

/-! ## on `XR` -/

theorem massOk_iff (x : XR) : MassOk x ↔ ¬ x < Dom.z ∧ ¬ IsNaN x := by
  unfold MassOk
  rw [xlit0, rfun_isNaN_iff]
  tauto

theorem massSum_eq (p : List XR) : massSum p = xsum p := by
  unfold massSum xsum; rw [xlit0]

/-- rel(hand transcription), XR: `Ok` exactly on the documented domain. -/
theorem categorical_new_ok_iff (p : List XR) :
    (∃ d, Categorical.new p = .ok d) ↔ Dom.Categorical.Domain p := by
  rw [categorical_new_ok_iff_generic, massSum_eq, xlit0]
  unfold Dom.Categorical.Domain
  simp only [massOk_iff]
  tauto

/-- the documented domain in elementary terms: non-empty, every entry a non-negative real or
    `+∞`, some entry positive -/
theorem categorical_domain_iff (p : List XR) :
    Dom.Categorical.Domain p ↔
      p ≠ [] ∧ (∀ x ∈ p, x = pinf ∨ ∃ r, 0 ≤ r ∧ x = fin r) ∧ ∃ x ∈ p, Dom.z < x := by
  unfold Dom.Categorical.Domain
  constructor
  · rintro ⟨h1, h3, h2⟩
    have hnn : ∀ x ∈ p, NN x := fun x hx => ⟨(h2 x hx).2, (h2 x hx).1⟩
    exact ⟨h1, fun x hx => (nn_iff x).mp (hnn x hx), (xsum_not_beq_zero_iff p hnn).mp h3⟩
  · rintro ⟨h1, h2, h3⟩
    have hnn : ∀ x ∈ p, NN x := fun x hx => (nn_iff x).mpr (h2 x hx)
    exact ⟨h1, (xsum_not_beq_zero_iff p hnn).mpr h3, fun x hx => ⟨(hnn x hx).2, (hnn x hx).1⟩⟩

/-- rel(hand transcription), XR: the variant returned satisfies its documented condition, and the
    order of the checks is: empty, entries, sum. -/
theorem categorical_new_err (p : List XR) (e : CategoricalError) (h : Categorical.new p = .error e) :
    Dom.Categorical.ErrDoc p e ∧
    (e = .ProbMassEmpty ↔ p = []) ∧
    (e = .ProbMassHasInvalidElements ↔ p ≠ [] ∧ ∃ x ∈ p, IsNaN x ∨ x < Dom.z) ∧
    (e = .ProbMassSumZero ↔
      p ≠ [] ∧ (∀ x ∈ p, ¬ x < Dom.z ∧ ¬ IsNaN x) ∧ (xsum p == Dom.z) = true) := by
  have hbad : (∃ x ∈ p, ¬ MassOk x) ↔ ∃ x ∈ p, IsNaN x ∨ x < Dom.z := by
    simp only [massOk_iff]
    constructor <;> rintro ⟨x, hx, h⟩ <;> refine ⟨x, hx, ?_⟩ <;> tauto
  rcases categorical_new_cases p with h' | h' | h' | h'
  · rw [h'.2] at h; injection h with h; subst h
    refine ⟨h'.1, by simp [h'.1], ?_, ?_⟩ <;>
      simp only [reduceCtorEq, false_iff, not_and] <;> intro h2 <;> exact absurd h'.1 h2
  · rw [h'.2.2] at h; injection h with h; subst h
    obtain ⟨x, hx, hb⟩ := hbad.mp h'.2.1
    refine ⟨⟨x, hx, hb⟩, ?_, by simp only [true_iff]; exact ⟨h'.1, x, hx, hb⟩, ?_⟩
    · simp only [reduceCtorEq, false_iff]; exact h'.1
    · simp only [reduceCtorEq, false_iff, not_and]
      intro _ hall; have := hall x hx; tauto
  · rw [h'.2.2.2] at h; injection h with h; subst h
    have hz : (xsum p == Dom.z) = true := by
      have := h'.2.2.1; rwa [massSum_eq, xlit0] at this
    have hall : ∀ x ∈ p, ¬ x < Dom.z ∧ ¬ IsNaN x := fun x hx => (massOk_iff x).mp (h'.2.1 x hx)
    refine ⟨hz, ?_, ?_, by simp only [true_iff]; exact ⟨h'.1, hall, hz⟩⟩
    · simp only [reduceCtorEq, false_iff]; exact h'.1
    · simp only [reduceCtorEq, false_iff, not_and, not_exists]
      intro _ x hx hb; have := hall x hx; tauto
  · rw [h'.2.2.2] at h; cases h

/-- `Categorical::new(&[+∞, 1.0])` is `Ok` (consistently with the documentation, which excludes
    only NaN and negative masses); the normalisation then divides `+∞` by `+∞`. -/
theorem categorical_new_accepts_inf : ∃ d, Categorical.new [pinf, fin 1] = .ok d := by
  rw [categorical_new_ok_iff, categorical_domain_iff]
  refine ⟨by simp, ?_, pinf, by simp, by simp⟩
  intro x hx
  simp at hx
  rcases hx with rfl | rfl
  · left; rfl
  · right; exact ⟨1, by norm_num, rfl⟩

example : Dom.Categorical.Domain [fin 0, fin 1, fin 2] := by
  rw [categorical_domain_iff]
  refine ⟨by simp, ?_, fin 1, by simp, by simp⟩
  intro x hx
  simp at hx
  rcases hx with rfl | rfl | rfl <;> right
  · exact ⟨0, le_refl _, rfl⟩
  · exact ⟨1, by norm_num, rfl⟩
  · exact ⟨2, by norm_num, rfl⟩
example : Dom.Categorical.Domain [fin 1] := by
  rw [categorical_domain_iff]
  refine ⟨by simp, ?_, fin 1, by simp, by simp⟩
  intro x hx
  simp at hx
  subst hx
  right; exact ⟨1, by norm_num, rfl⟩
example : ¬ Dom.Categorical.Domain [] := by
  rw [categorical_domain_iff]; simp
example : ¬ Dom.Categorical.Domain [fin 0, fin 0] := by
  rw [categorical_domain_iff]
  rintro ⟨_, _, x, hx, h⟩
  simp at hx
  subst hx
  simp at h
example : ¬ Dom.Categorical.Domain [fin 1, nan] := by
  rw [categorical_domain_iff]
  rintro ⟨_, h, _⟩
  have := h nan (by simp)
  simp at this

/-! ## over ℝ: the stored `norm_pmf` is normalised -/

/-- rel(hand transcription), ℝ: `norm_pmf` is the input divided by its sum, non-negative, and
    sums to `1`; `pmf(i)` reads it. -/
theorem categorical_new_ok_params_real (p : List ℝ) (d : Categorical ℝ) (h : Categorical.new p = .ok d) :
    d.f_norm_pmf = p.map (fun e => e / p.sum) ∧ (∀ e ∈ d.f_norm_pmf, 0 ≤ e) ∧
      d.f_norm_pmf.sum = 1 ∧ d.f_cdf.getLast? = some p.sum := by
  have hdom := (categorical_new_ok_iff_generic p).mp ⟨d, h⟩
  obtain ⟨_, hp, _, _, _, hlast⟩ := categorical_new_ok_params p d h
  obtain ⟨_, hall, hsum⟩ := hdom
  have hnn : ∀ r ∈ p, 0 ≤ r := by
    intro r hr
    have := hall r hr
    unfold MassOk at this
    simp only [rfun_isNaN, Bool.false_eq_true, false_or, Statrs.Lemmas.Multivariate.lit0,
      not_lt] at this
    exact this
  have hs : massSum p = p.sum := by
    unfold massSum
    rw [Statrs.Lemmas.Multivariate.foldl_add_eq_sum, Statrs.Lemmas.Multivariate.lit0, zero_add]
  have hne : p.sum ≠ 0 := by
    intro h0; apply hsum; rw [hs, h0, Statrs.Lemmas.Multivariate.lit0]; simp
  have hpos : 0 < p.sum := lt_of_le_of_ne (List.sum_nonneg hnn) (Ne.symm hne)
  rw [hs] at hp hlast
  rw [hp]
  refine ⟨rfl, ?_, ?_, hlast⟩
  · intro e he
    obtain ⟨a, ha, rfl⟩ := List.mem_map.mp he
    exact div_nonneg (hnn a ha) hpos.le
  · have : (p.map (fun e => e / p.sum)).sum = p.sum / p.sum := by
      simp only [div_eq_mul_inv]
      rw [List.sum_map_mul_right]
      simp
    rw [this, div_self hne]

example : ∃ d : Categorical ℝ, Categorical.new [0, 1, 2] = .ok d := by
  rw [categorical_new_ok_iff_generic]
  refine ⟨by simp, ?_, ?_⟩
  · intro x hx
    simp at hx
    unfold MassOk
    rcases hx with rfl | rfl | rfl <;> norm_num
  · norm_num [massSum]

end Statrs.Props.C09
