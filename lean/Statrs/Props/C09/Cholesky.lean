/-
  C09 — what "`Cholesky::new(cov)` succeeds" (the last clause of the MultivariateNormal /
  MultivariateStudent domain, `LA.choleskyNew cov ≠ none`) means over ℝ for small matrices:

    * 1×1: `[[a]]` is accepted  ⇔  `a > 0`;
    * 2×2: `[[a, b], [c, d]]` is accepted  ⇔  `a > 0 ∧ a·d − c² > 0`  (only the lower triangle is
      read; the constructors have already checked `b = c`)  ⇔  the symmetric matrix
      `!![a, c; c, d]` is positive definite (Mathlib's `Matrix.PosDef`, and in elementary form
      `a x² + 2 c x y + d y² > 0` for `(x, y) ≠ 0`);
    * consequently, in exact arithmetic, a singular positive SEMI-definite matrix such as
      `[[1, 1], [1, 1]]` or `[[0]]` is rejected with `CholeskyFailed`;
    * the complete acceptance condition of `MultivariateNormal::new_from_nalgebra` for real 2×2
      input: `b = c ∧ a > 0 ∧ a·d − b² > 0`.

  The general `n × n` statement (nalgebra's algorithm succeeds iff the matrix is positive
  definite) is NOT proved; for `n ≥ 3` the Cholesky clause of the domain stays the model
  predicate `LA.choleskyNew cov ≠ none`.
-/
import Statrs.Props.C09.VectorConstructorsB
import Statrs.Real.Simp
import Mathlib.LinearAlgebra.Matrix.PosDef
set_option linter.unusedSectionVars false
set_option linter.unusedVariables false
namespace Statrs.Props.C09
open Statrs Statrs.Gen Statrs.Model Statrs.Lemmas.C09Vector
open Matrix

theorem none_ne_none_iff {β : Type} {P : Prop} : ((none : Option β) ≠ none ↔ P) ↔ ¬ P := by
  simp
theorem some_ne_none_iff {β : Type} {P : Prop} (x : β) : (some x ≠ none ↔ P) ↔ P := by
  simp

theorem rlit0 : (0.0 : ℝ) = 0 := by norm_num
theorem rlit1 : (1.0 : ℝ) = 1 := by norm_num

/-- full(ℝ): 1×1 — `Cholesky::new([[a]])` succeeds iff `a > 0`, and the factor is `[[√a]]`. -/
theorem chol_one_real_iff (a : ℝ) : LA.choleskyNew [[a]] ≠ none ↔ 0 < a := by
  rw [choleskyNew_one]
  simp only [real_beq, rlit0]
  by_cases h0 : a = 0
  · rw [if_pos h0, none_ne_none_iff, h0]; exact lt_irrefl 0
  · rw [if_neg h0]
    by_cases h1 : 0 ≤ a
    · rw [if_pos h1, some_ne_none_iff]; exact lt_of_le_of_ne h1 (Ne.symm h0)
    · rw [if_neg h1, none_ne_none_iff]; exact fun h => h1 h.le

/-- over ℝ the second pivot is `d − c²/a` -/
theorem pivot2_real (a c d : ℝ) (ha : 0 < a) : pivot2 a c d = d - c * c / a := by
  unfold pivot2
  rw [rlit1, rfun_sqrt]
  have hsq : Real.sqrt a * Real.sqrt a = a := Real.mul_self_sqrt ha.le
  have : (c / Real.sqrt a) * (c / Real.sqrt a) = c * c / a := by rw [div_mul_div_comm, hsq]
  simp only [mul_one, one_mul, neg_mul]
  rw [this]
  ring

/-- full(ℝ): 2×2 — `Cholesky::new([[a, b], [c, d]])` succeeds iff `a > 0` and `a·d − c² > 0`
    (leading principal minors of the symmetric matrix with lower triangle `a, c, d`). -/
theorem chol_two_real_iff (a b c d : ℝ) :
    LA.choleskyNew [[a, b], [c, d]] ≠ none ↔ 0 < a ∧ 0 < a * d - c * c := by
  rw [choleskyNew_two]
  simp only [real_beq, rlit0]
  by_cases h0 : a = 0
  · rw [if_pos h0, none_ne_none_iff, h0]; exact fun h => lt_irrefl 0 h.1
  rw [if_neg h0]
  by_cases h1 : 0 ≤ a
  swap
  · rw [if_neg h1, none_ne_none_iff]; exact fun h => h1 h.1.le
  rw [if_pos h1]
  have ha : 0 < a := lt_of_le_of_ne h1 (Ne.symm h0)
  rw [pivot2_real a c d ha]
  have hkey : 0 < d - c * c / a ↔ 0 < a * d - c * c := by
    have : d - c * c / a = (a * d - c * c) / a := by field_simp
    rw [this]
    exact ⟨fun h => by have := mul_pos h ha; rwa [div_mul_cancel₀ _ h0] at this,
           fun h => div_pos h ha⟩
  by_cases h2 : d - c * c / a = 0
  · rw [if_pos h2, none_ne_none_iff]
    rintro ⟨_, h⟩
    rw [← hkey, h2] at h
    exact lt_irrefl 0 h
  rw [if_neg h2]
  by_cases h3 : 0 ≤ d - c * c / a
  · rw [if_pos h3, some_ne_none_iff]
    exact ⟨ha, hkey.mp (lt_of_le_of_ne h3 (Ne.symm h2))⟩
  · rw [if_neg h3, none_ne_none_iff]
    rintro ⟨_, h⟩
    exact h3 (hkey.mpr h).le

/-- elementary positive-definiteness of the symmetric 2×2 matrix `[[a, c], [c, d]]` -/
def PosDef2 (a c d : ℝ) : Prop := ∀ x y : ℝ, (x ≠ 0 ∨ y ≠ 0) → 0 < a * x * x + 2 * c * x * y + d * y * y

/-- Sylvester's criterion for 2×2 -/
theorem posDef2_iff (a c d : ℝ) : PosDef2 a c d ↔ 0 < a ∧ 0 < a * d - c * c := by
  constructor
  · intro h
    have ha : 0 < a := by simpa using h 1 0 (Or.inl one_ne_zero)
    refine ⟨ha, ?_⟩
    have h2 := h (-c) a (Or.inr ha.ne')
    have : a * -c * -c + 2 * c * -c * a + d * a * a = a * (a * d - c * c) := by ring
    rw [this] at h2
    exact (mul_pos_iff_of_pos_left ha).mp h2
  · rintro ⟨ha, hdet⟩ x y hxy
    have key : a * (a * x * x + 2 * c * x * y + d * y * y) =
        (a * x + c * y) ^ 2 + (a * d - c * c) * y ^ 2 := by ring
    have hpos : 0 < (a * x + c * y) ^ 2 + (a * d - c * c) * y ^ 2 := by
      by_cases hy : y = 0
      · subst hy
        have hx : x ≠ 0 := by rcases hxy with h | h; exact h; exact absurd rfl h
        have : 0 < (a * x) ^ 2 := by positivity
        simpa using this
      · have : 0 < (a * d - c * c) * y ^ 2 := mul_pos hdet (by positivity)
        have h2 : 0 ≤ (a * x + c * y) ^ 2 := sq_nonneg _
        linarith
    rw [← key] at hpos
    exact (mul_pos_iff_of_pos_left ha).mp hpos

/-- Mathlib's `Matrix.PosDef` for the symmetric real 2×2 matrix is the elementary notion -/
theorem matrix_posDef_two_iff (a c d : ℝ) :
    (!![a, c; c, d] : Matrix (Fin 2) (Fin 2) ℝ).PosDef ↔ PosDef2 a c d := by
  rw [Matrix.posDef_iff_dotProduct_mulVec]
  have hH : (!![a, c; c, d] : Matrix (Fin 2) (Fin 2) ℝ).IsHermitian := by
    ext i j
    fin_cases i <;> fin_cases j <;> simp [Matrix.conjTranspose_apply]
  have hq : ∀ x : Fin 2 → ℝ, star x ⬝ᵥ ((!![a, c; c, d] : Matrix (Fin 2) (Fin 2) ℝ) *ᵥ x) =
      a * x 0 * x 0 + 2 * c * x 0 * x 1 + d * x 1 * x 1 := by
    intro x
    simp [dotProduct, Matrix.mulVec, Fin.sum_univ_two]
    ring
  constructor
  · rintro ⟨_, h⟩ x y hxy
    have hne : (![x, y] : Fin 2 → ℝ) ≠ 0 := by
      intro h0
      have h1 : x = 0 := by simpa using congrFun h0 0
      have h2 : y = 0 := by simpa using congrFun h0 1
      rcases hxy with h | h
      · exact h h1
      · exact h h2
    have := h hne
    rw [hq] at this
    simpa using this
  · intro h
    refine ⟨hH, fun x hx => ?_⟩
    rw [hq]
    apply h
    by_contra hc
    push Not at hc
    apply hx
    ext i
    fin_cases i
    · exact hc.1
    · exact hc.2

/-- full(ℝ): for 2×2 real matrices "Cholesky succeeds" IS positive-definiteness of the symmetric
    matrix given by the lower triangle. -/
theorem chol_two_real_iff_posDef (a b c d : ℝ) :
    LA.choleskyNew [[a, b], [c, d]] ≠ none ↔
      (!![a, c; c, d] : Matrix (Fin 2) (Fin 2) ℝ).PosDef := by
  rw [chol_two_real_iff, matrix_posDef_two_iff, posDef2_iff]

/-- full(ℝ): and for 1×1 -/
theorem chol_one_real_iff_posDef (a : ℝ) :
    LA.choleskyNew [[a]] ≠ none ↔ (!![a] : Matrix (Fin 1) (Fin 1) ℝ).PosDef := by
  rw [chol_one_real_iff, Matrix.posDef_iff_dotProduct_mulVec]
  constructor
  · intro ha
    refine ⟨by ext i j; fin_cases i; fin_cases j; simp [Matrix.conjTranspose_apply], fun x hx => ?_⟩
    have hx0 : x 0 ≠ 0 := by
      intro h; apply hx; ext i; fin_cases i; exact h
    simp [dotProduct, Matrix.mulVec]
    have : 0 < a * (x 0 * x 0) := mul_pos ha (mul_self_pos.mpr hx0)
    linarith [this, show x 0 * (a * x 0) = a * (x 0 * x 0) by ring]
  · rintro ⟨_, h⟩
    have hne : (![1] : Fin 1 → ℝ) ≠ 0 := by
      intro h0; have := congrFun h0 0; simp at this
    have := h hne
    simpa [dotProduct, Matrix.mulVec] using this

/-- In exact arithmetic a singular positive semi-definite covariance is rejected:
    `[[1, 1], [1, 1]]` (perfectly correlated components) and `[[0]]` fail the factorisation. -/
theorem chol_rejects_singular :
    LA.choleskyNew [[(1 : ℝ), 1], [1, 1]] = none ∧ LA.choleskyNew [[(0 : ℝ)]] = none := by
  constructor
  · have := (chol_two_real_iff 1 1 1 1).not
    simp at this
    exact this
  · have := (chol_one_real_iff 0).not
    simp at this
    exact this

/-! ### the whole 2×2 acceptance condition of `MultivariateNormal::new_from_nalgebra` over ℝ -/

theorem covChecks_two_real (a b c d : ℝ) : CovChecks [[a, b], [c, d]] ↔ b = c := by
  unfold CovChecks
  have h1 : LA.isSquare [[a, b], [c, d]] = true := rfl
  have h3 : LA.anyNaN [[a, b], [c, d]] = false := by simp [LA.anyNaN]
  have h2 : LA.symmetricEq [[a, b], [c, d]] = true ↔ b = c := by
    simp [LA.symmetricEq, LA.mget, List.range_succ]
    exact eq_comm
  rw [h2]
  simp [h1, h3]

/-- full(ℝ): a real 2×2 covariance `[[a, b], [c, d]]` with a 2-vector of means is accepted iff
    it is symmetric and positive definite: `b = c`, `a > 0`, `a·d − b² > 0`.  (Over ℝ there are no
    NaNs, so `MeanInvalid` cannot occur.) -/
theorem mvn_new_two_dim_real_ok_iff (m₁ m₂ a b c d : ℝ) :
    (∃ D, MultivariateNormal.new_from_nalgebra [m₁, m₂] [[a, b], [c, d]] = .ok D) ↔
      b = c ∧ 0 < a ∧ 0 < a * d - b * b := by
  rw [mvn_new_ok_iff_generic, covChecks_two_real, chol_two_real_iff]
  have : ([m₁, m₂] : List ℝ).any (fun f => RFun.isNaN f) = false := by simp
  constructor
  · rintro ⟨_, hbc, _, ha, hd⟩
    subst hbc
    exact ⟨rfl, ha, hd⟩
  · rintro ⟨hbc, ha, hd⟩
    subst hbc
    exact ⟨this, rfl, rfl, ha, hd⟩

/-- full(ℝ): the error variants for real 2×2 input, in order: asymmetric → `CovInvalid`;
    symmetric but not positive definite → `CholeskyFailed`. -/
theorem mvn_new_two_dim_real_err (m₁ m₂ a b c d : ℝ) :
    (b ≠ c → MultivariateNormal.new_from_nalgebra [m₁, m₂] [[a, b], [c, d]] = .error .CovInvalid) ∧
    (b = c → ¬ (0 < a ∧ 0 < a * d - c * c) →
      MultivariateNormal.new_from_nalgebra [m₁, m₂] [[a, b], [c, d]] = .error .CholeskyFailed) := by
  have hm : ([m₁, m₂] : List ℝ).any (fun f => RFun.isNaN f) = false := by simp
  constructor
  · intro hbc
    rcases mvn_new_cases [m₁, m₂] [[a, b], [c, d]] with h | h | h | h | h
    · rw [hm] at h; cases h.1
    · exact h.2.2
    all_goals exact absurd ((covChecks_two_real a b c d).mp h.2.1) hbc
  · intro hbc hnpd
    rcases mvn_new_cases [m₁, m₂] [[a, b], [c, d]] with h | h | h | h | h
    · rw [hm] at h; cases h.1
    · exact absurd ((covChecks_two_real a b c d).mpr hbc) h.2.1
    · exact absurd rfl h.2.2.1
    · exact h.2.2.2.2
    · obtain ⟨_, _, _, L, hL, _⟩ := h
      exfalso
      apply hnpd
      rw [← chol_two_real_iff a b c d, hL]
      simp

example : ∃ D, MultivariateNormal.new_from_nalgebra [(0 : ℝ), 0] [[2, 1], [1, 2]] = .ok D := by
  rw [mvn_new_two_dim_real_ok_iff]; norm_num
example : MultivariateNormal.new_from_nalgebra [(0 : ℝ), 0] [[1, 1], [1, 1]] = .error .CholeskyFailed :=
  (mvn_new_two_dim_real_err 0 0 1 1 1 1).2 rfl (by norm_num)
example : MultivariateNormal.new_from_nalgebra [(0 : ℝ), 0] [[1, 0.5], [0, 1]] = .error .CovInvalid :=
  (mvn_new_two_dim_real_err 0 0 1 0.5 0 1).1 (by norm_num)

end Statrs.Props.C09
