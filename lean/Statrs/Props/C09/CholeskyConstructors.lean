/-
  C09 — the domain of `MultivariateNormal::new_from_nalgebra` / `MultivariateStudent::new_from_nalgebra`
  over ℝ in every dimension, with the Cholesky clause replaced by what it means
  (`Draft/C09/CholeskyGeneral`): the constructors return `Ok` exactly for a square, dimension-matching,
  (symmetric) POSITIVE DEFINITE covariance / scale matrix, and `CholeskyFailed` exactly for a symmetric
  matrix that is not positive definite.  Same for the `Vec` front ends `new(mean, cov)` /
  `new(location, scale, freedom)` (`…_vec_new_ok_iff_posDef`, matrix filled column-major).
-/
import Statrs.Props.C09.VectorConstructorsB
import Statrs.Props.C09.CholeskyInverse
set_option linter.unusedSectionVars false
set_option linter.unusedVariables false
namespace Statrs.Props.C09
open Statrs Statrs.Gen Statrs.Model Statrs.Spec Statrs.Lemmas.Cholesky Statrs.Lemmas.Multivariate Matrix

/-- full(ℝ): over ℝ the constructors' symmetry test is symmetry of the matrix. -/
theorem symmetricEq_iff_isSymm (m : List (List ℝ)) :
    LA.symmetricEq m = true ↔ (toMatrix m.length m).IsSymm := by
  refine ⟨isSymm_of_symmetricEq, fun h => ?_⟩
  unfold LA.symmetricEq
  simp only [List.all_eq_true, List.mem_range, real_beq]
  intro i hi j hj
  exact h.apply ⟨j, by omega⟩ ⟨i, hi⟩

/-- full(ℝ): over ℝ the NaN scan of a matrix never fires. -/
theorem anyNaN_real (m : List (List ℝ)) : LA.anyNaN m = false := by
  unfold LA.anyNaN
  simp

/-- full(ℝ): over ℝ the NaN scan of a vector never fires. -/
theorem list_any_isNaN_real (v : List ℝ) : v.any (fun f => RFun.isNaN f) = false := by
  simp

/-- full(ℝ): the `CovInvalid` / `ScaleInvalid` guard over ℝ: square and symmetric. -/
theorem covChecks_real_iff (cov : List (List ℝ)) :
    CovChecks cov ↔ LA.isSquare cov = true ∧ (toMatrix cov.length cov).IsSymm := by
  unfold CovChecks
  rw [symmetricEq_iff_isSymm]
  simp [anyNaN_real]

/-- full(ℝ): `Cholesky::new` on an input that passed the constructor's guard -/
theorem choleskyNew_ne_none_iff_of_checks {cov : List (List ℝ)} (hsq : LA.isSquare cov = true)
    (hsym : (toMatrix cov.length cov).IsSymm) :
    LA.choleskyNew cov ≠ none ↔ (toMatrix cov.length cov).PosDef :=
  choleskyNew_eq_some_iff_posDef rfl (rows_of_isSquare hsq) hsym

/-- full(ℝ): in every dimension, `MultivariateNormal::new_from_nalgebra(mean, cov)` is `Ok` iff `cov` is
    square, has the dimension of `mean`, and is (symmetric) positive definite. -/
theorem mvn_new_ok_iff_posDef (mean : List ℝ) (cov : List (List ℝ)) :
    (∃ d, MultivariateNormal.new_from_nalgebra mean cov = .ok d) ↔
      LA.isSquare cov = true ∧ mean.length = cov.length ∧ (toMatrix cov.length cov).PosDef := by
  rw [mvn_new_ok_iff_generic, covChecks_real_iff]
  constructor
  · rintro ⟨_, ⟨hsq, hsym⟩, hlen, hch⟩
    exact ⟨hsq, hlen, (choleskyNew_ne_none_iff_of_checks hsq hsym).mp hch⟩
  · rintro ⟨hsq, hlen, hpd⟩
    have hsym : (toMatrix cov.length cov).IsSymm := by
      have := hpd.isHermitian
      rwa [IsHermitian, conjTranspose_eq_transpose_of_trivial] at this
    exact ⟨list_any_isNaN_real mean, ⟨hsq, hsym⟩, hlen, (choleskyNew_ne_none_iff_of_checks hsq hsym).mpr hpd⟩

/-- full(ℝ): `CholeskyFailed` is returned exactly for a square symmetric matrix of the right dimension
    that is NOT positive definite (e.g. a singular positive semi-definite covariance). -/
theorem mvn_new_choleskyFailed_iff (mean : List ℝ) (cov : List (List ℝ)) :
    MultivariateNormal.new_from_nalgebra mean cov = .error .CholeskyFailed ↔
      LA.isSquare cov = true ∧ (toMatrix cov.length cov).IsSymm ∧ mean.length = cov.length ∧
        ¬ (toMatrix cov.length cov).PosDef := by
  have hnan := list_any_isNaN_real mean
  rcases mvn_new_cases mean cov with h | h | h | h | h
  · rw [hnan] at h; cases h.1
  · rw [h.2.2]
    constructor
    · intro hh; cases hh
    · rintro ⟨hsq, hsym, _, _⟩
      exact absurd ((covChecks_real_iff cov).mpr ⟨hsq, hsym⟩) h.2.1
  · rw [h.2.2.2]
    constructor
    · intro hh; cases hh
    · rintro ⟨_, _, hlen, _⟩
      exact absurd hlen h.2.2.1
  · obtain ⟨_, hc, hlen, hch, hres⟩ := h
    obtain ⟨hsq, hsym⟩ := (covChecks_real_iff cov).mp hc
    rw [hres]
    refine ⟨fun _ => ⟨hsq, hsym, hlen, ?_⟩, fun _ => rfl⟩
    intro hpd
    exact (choleskyNew_ne_none_iff_of_checks hsq hsym).mpr hpd hch
  · obtain ⟨_, hc, hlen, L, hL, hres⟩ := h
    obtain ⟨hsq, hsym⟩ := (covChecks_real_iff cov).mp hc
    rw [hres]
    constructor
    · intro hh; cases hh
    · rintro ⟨_, _, _, hnpd⟩
      exact absurd ((choleskyNew_ne_none_iff_of_checks hsq hsym).mp (by rw [hL]; simp)) hnpd

/-! ### the `Vec` front ends `new(mean: Vec, cov: Vec)` -/

/-- the matrix `DMatrix::from_vec(n, n, v)` (column-major fill): entry `(i, j)` is `v[i + j·n]` -/
noncomputable def vecMatrix (n : ℕ) (v : List ℝ) : Matrix (Fin n) (Fin n) ℝ :=
  fun i j => v.getD ((i : ℕ) + (j : ℕ) * n) 0

/-- full(ℝ): the matrix of `LA.fromVecColMajor n v` is `vecMatrix n v`. -/
theorem toMatrix_fromVecColMajor (n : ℕ) (v : List ℝ) (k : ℕ) (hk : k = n) :
    (toMatrix k (LA.fromVecColMajor n v)).PosDef ↔ (vecMatrix n v).PosDef := by
  subst hk
  have : toMatrix k (LA.fromVecColMajor k v) = vecMatrix k v := by
    ext i j
    exact fromVecColMajor_mget k v i j i.2 j.2
  rw [this]

/-- full(ℝ): in every dimension `MultivariateNormal::new(mean, cov)` (the `Vec` front end) returns `Ok`
    iff `cov` has `mean.len()²` entries (otherwise it panics) and the matrix they fill is (symmetric)
    positive definite. -/
theorem mvn_vec_new_ok_iff_posDef (mean cov : List ℝ) :
    (∃ d, MultivariateNormal.new? mean cov = some (.ok d)) ↔
      cov.length = mean.length * mean.length ∧ (vecMatrix mean.length cov).PosDef := by
  rw [mvn_vec_new_eq]
  by_cases h : cov.length ≠ mean.length * mean.length
  · rw [if_pos h]
    constructor
    · rintro ⟨d, hd⟩; cases hd
    · rintro ⟨h', _⟩; exact absurd h' h
  · rw [if_neg h]
    have h' : cov.length = mean.length * mean.length := not_not.mp h
    have key := mvn_new_ok_iff_posDef mean (LA.fromVecColMajor mean.length cov)
    rw [fromVecColMajor_isSquare, fromVecColMajor_length,
      toMatrix_fromVecColMajor mean.length cov mean.length rfl] at key
    constructor
    · rintro ⟨d, hd⟩
      exact ⟨h', (key.mp ⟨d, Option.some.inj hd⟩).2.2⟩
    · rintro ⟨_, hpd⟩
      obtain ⟨d, hd⟩ := key.mpr ⟨rfl, rfl, hpd⟩
      exact ⟨d, by rw [hd]⟩

section student
variable [SF ℝ]

/-- full(ℝ): over ℝ the freedom guard is `0 < ν`. -/
theorem freedomOk_real_iff (ν : ℝ) : FreedomOk ν ↔ 0 < ν := by
  unfold FreedomOk
  simp [lit0]

/-- full(ℝ): in every dimension, `MultivariateStudent::new_from_nalgebra(location, scale, freedom)` is
    `Ok` iff `scale` is square, has the dimension of `location`, is (symmetric) positive definite, and
    `freedom > 0`. -/
theorem mvt_new_ok_iff_posDef (loc : List ℝ) (scale : List (List ℝ)) (ν : ℝ) :
    (∃ d, MultivariateStudent.new_from_nalgebra loc scale ν = .ok d) ↔
      LA.isSquare scale = true ∧ 0 < ν ∧ loc.length = scale.length ∧
        (toMatrix scale.length scale).PosDef := by
  rw [mvt_new_ok_iff_generic, covChecks_real_iff, freedomOk_real_iff]
  constructor
  · rintro ⟨_, ⟨hsq, hsym⟩, hν, hlen, hch⟩
    exact ⟨hsq, hν, hlen, (choleskyNew_ne_none_iff_of_checks hsq hsym).mp hch⟩
  · rintro ⟨hsq, hν, hlen, hpd⟩
    have hsym : (toMatrix scale.length scale).IsSymm := by
      have := hpd.isHermitian
      rwa [IsHermitian, conjTranspose_eq_transpose_of_trivial] at this
    exact ⟨list_any_isNaN_real loc, ⟨hsq, hsym⟩, hν, hlen,
      (choleskyNew_ne_none_iff_of_checks hsq hsym).mpr hpd⟩

/-- full(ℝ): in every dimension `MultivariateStudent::new(location, scale, freedom)` (the `Vec` front
    end) returns `Ok` iff `scale` has `location.len()²` entries (otherwise it panics), the matrix they
    fill is (symmetric) positive definite, and `freedom > 0`. -/
theorem mvt_vec_new_ok_iff_posDef (loc scale : List ℝ) (ν : ℝ) :
    (∃ d, MultivariateStudent.new? loc scale ν = some (.ok d)) ↔
      scale.length = loc.length * loc.length ∧ 0 < ν ∧ (vecMatrix loc.length scale).PosDef := by
  rw [mvt_vec_new_eq]
  by_cases h : scale.length ≠ loc.length * loc.length
  · rw [if_pos h]
    constructor
    · rintro ⟨d, hd⟩; cases hd
    · rintro ⟨h', _⟩; exact absurd h' h
  · rw [if_neg h]
    have h' : scale.length = loc.length * loc.length := not_not.mp h
    have key := mvt_new_ok_iff_posDef loc (LA.fromVecColMajor loc.length scale) ν
    rw [fromVecColMajor_isSquare, fromVecColMajor_length,
      toMatrix_fromVecColMajor loc.length scale loc.length rfl] at key
    constructor
    · rintro ⟨d, hd⟩
      obtain ⟨_, hν, _, hpd⟩ := key.mp ⟨d, Option.some.inj hd⟩
      exact ⟨h', hν, hpd⟩
    · rintro ⟨_, hν, hpd⟩
      obtain ⟨d, hd⟩ := key.mpr ⟨rfl, hν, rfl, hpd⟩
      exact ⟨d, by rw [hd]⟩

end student

/-! ### non-vacuity / consequences -/

/-- a singular positive semi-definite covariance of any size is rejected: the all-ones `3 × 3` matrix -/
example : MultivariateNormal.new_from_nalgebra [0, 0, 0] ([[1, 1, 1], [1, 1, 1], [1, 1, 1]] : List (List ℝ))
    = .error .CholeskyFailed := by
  rw [mvn_new_choleskyFailed_iff]
  refine ⟨rfl, ?_, rfl, ?_⟩
  · ext i j; fin_cases i <;> fin_cases j <;> simp [toMatrix, LA.mget]
  · intro hpd
    have hx : (![1, -1, 0] : Fin 3 → ℝ) ≠ 0 := by
      intro h; have := congrFun h 0; simp at this
    have := hpd.dotProduct_mulVec_pos hx
    simp [dotProduct, mulVec, Fin.sum_univ_three, toMatrix, LA.mget] at this

/-- the identity covariance in dimension 4 is accepted -/
example : ∃ d, MultivariateNormal.new_from_nalgebra [0, 0, 0, 0]
    ([[1, 0, 0, 0], [0, 1, 0, 0], [0, 0, 1, 0], [0, 0, 0, 1]] : List (List ℝ)) = .ok d := by
  rw [mvn_new_ok_iff_posDef]
  refine ⟨rfl, rfl, ?_⟩
  have : toMatrix 4 ([[1, 0, 0, 0], [0, 1, 0, 0], [0, 0, 1, 0], [0, 0, 0, 1]] : List (List ℝ)) = 1 := by
    ext i j; fin_cases i <;> fin_cases j <;> simp [toMatrix, LA.mget]
  show (toMatrix 4 _).PosDef
  rw [this]; exact PosDef.one

end Statrs.Props.C09
