/-
  C09 — nalgebra's `Cholesky::new` (hand model `LA.choleskyNew`, Statrs/Model/Multivariate.lean) over ℝ,
  for EVERY dimension `n`:

    * `choleskyNew_eq_some_iff_posDef` — on a symmetric `n × n` list-of-lists the factorisation succeeds
      iff the matrix is positive definite (Mathlib's `Matrix.PosDef`);
    * `choleskyNew_factor` — when it returns `some l`, the unpacked factor `L` is lower triangular with a
      positive diagonal and `L * Lᵀ = m`; `choleskyNew_packed` — `l` is `n × n`, its lower triangle is
      `L` and its strict upper triangle is that of `m` (nalgebra's "dirty" packed factor);
    * `choleskyNew_det_pos` — then `0 < det m`, and `det m = (∏ L i i)²`;
    * `choleskyNew_lower_iff_posDef` — without the symmetry hypothesis: only the lower triangle is read,
      success ⇔ the symmetric matrix built from the lower triangle is positive definite.

  The list ↔ function bookkeeping is in `Draft/Lemmas/CholeskyMirror` (every carrier), the real-number
  invariant of the left-looking column algorithm in `Draft/Lemmas/CholeskyReal`.
-/
import Statrs.Lemmas.CholeskyReal
import Statrs.Spec.LinAlgSpec
import Mathlib.LinearAlgebra.Matrix.PosDef
import Mathlib.Analysis.Matrix.PosDef
import Mathlib.LinearAlgebra.Matrix.Block
import Mathlib.Algebra.Order.Star.Real
set_option linter.unusedSectionVars false
set_option linter.unusedVariables false
namespace Statrs.Props.C09
open Statrs Statrs.Model Statrs.Spec Statrs.Lemmas.Cholesky Statrs.Lemmas.Multivariate Matrix Finset

/-- the `n × n` real matrix with entries `M i j` -/
def natMat (n : ℕ) (M : ℕ → ℕ → ℝ) : Matrix (Fin n) (Fin n) ℝ := fun i j => M i j

/-- full(ℝ): `toMatrix n m` is `natMat` of the entry function (definitional). -/
theorem toMatrix_eq_natMat (n : ℕ) (m : List (List ℝ)) : toMatrix n m = natMat n (ent m) := rfl

/-- full(ℝ): the matrix of `ofFn n A` has entries `A i j`. -/
theorem toMatrix_ofFn (n : ℕ) (A : ℕ → ℕ → ℝ) : toMatrix n (ofFn n A) = natMat n A := by
  ext i j
  exact mget_ofFn n A i j i.2 j.2

/-- full(ℝ): the quadratic form of `Lemmas/CholeskyReal` is Mathlib's `xᵀ M x` -/
theorem quadF_eq (n : ℕ) (M : ℕ → ℕ → ℝ) (z : ℕ → ℝ) :
    quadF n M z = star (fun i : Fin n => z i) ⬝ᵥ (natMat n M *ᵥ (fun i : Fin n => z i)) := by
  simp only [quadF, dotProduct, mulVec, natMat, star_trivial]
  rw [← Fin.sum_univ_eq_sum_range (fun r => ∑ c ∈ range n, z r * M r c * z c) n]
  apply Finset.sum_congr rfl
  intro r _
  rw [← Fin.sum_univ_eq_sum_range (fun c => z r * M r c * z c) n, Finset.mul_sum]
  apply Finset.sum_congr rfl
  intro c _
  ring

/-- full(ℝ): a Hermitian real `natMat` is entrywise symmetric. -/
theorem natMat_symm_of_isHermitian {n : ℕ} {M : ℕ → ℕ → ℝ} (h : (natMat n M).IsHermitian)
    (r c : ℕ) (hr : r < n) (hc : c < n) : M r c = M c r := by
  have := h.apply ⟨r, hr⟩ ⟨c, hc⟩
  simpa [natMat] using this.symm

/-- full(ℝ): positive definite ⇒ every pivot is positive ⇒ the mirror algorithm succeeds -/
theorem newF_of_posDef (n : ℕ) (M : ℕ → ℕ → ℝ) (h : (natMat n M).PosDef) : ∃ A, newF n M = some A := by
  refine newF_of_posQuad M n (natMat_symm_of_isHermitian h.isHermitian) ?_ n le_rfl
  rintro z ⟨i, hi, hz⟩
  rw [quadF_eq]
  apply h.dotProduct_mulVec_pos
  intro h0
  exact hz (congrFun h0 ⟨i, hi⟩)

/-- the lower-triangular factor as a matrix -/
def lowerMat (n : ℕ) (A : ℕ → ℕ → ℝ) : Matrix (Fin n) (Fin n) ℝ := fun i k => lowerF A i k

/-- full(ℝ): entries of `lowerMat` on and below the diagonal. -/
theorem lowerMat_apply_of_le (n : ℕ) (A : ℕ → ℕ → ℝ) (i k : Fin n) (h : k ≤ i) : lowerMat n A i k = A i k := by
  simp [lowerMat, lowerF, Fin.le_def.mp h]

/-- full(ℝ): entries of `lowerMat` above the diagonal vanish. -/
theorem lowerMat_apply_of_lt (n : ℕ) (A : ℕ → ℕ → ℝ) (i k : Fin n) (h : i < k) : lowerMat n A i k = 0 := by
  have : ¬ (k : ℕ) ≤ i := by have := Fin.lt_def.mp h; omega
  simp [lowerMat, lowerF, this]

/-- full(ℝ): `lowerMat` is lower triangular (Mathlib's `IsLowerTriangular`). -/
theorem lowerMat_isLowerTriangular (n : ℕ) (A : ℕ → ℕ → ℝ) : (lowerMat n A).IsLowerTriangular := by
  intro i k hik
  exact lowerMat_apply_of_lt n A i k (by simpa using hik)

/-- full(ℝ): the determinant of `lowerMat` is the product of its diagonal. -/
theorem lowerMat_det (n : ℕ) (A : ℕ → ℕ → ℝ) : (lowerMat n A).det = ∏ i : Fin n, A i i := by
  rw [det_of_isLowerTriangular _ (lowerMat_isLowerTriangular n A)]
  apply Finset.prod_congr rfl
  intro i _
  exact lowerMat_apply_of_le n A i i le_rfl

/-- full(ℝ): at the end of a successful run `L * Lᵀ = M` -/
theorem lowerMat_mul_transpose {n : ℕ} {M A : ℕ → ℕ → ℝ} (h : CholInv M n A)
    (hsym : ∀ r c, r < n → c < n → M r c = M c r) :
    lowerMat n A * (lowerMat n A)ᵀ = natMat n M := by
  ext r c
  simp only [mul_apply, transpose_apply, lowerMat, natMat]
  rw [Fin.sum_univ_eq_sum_range (fun k => lowerF A r k * lowerF A c k) n]
  rcases le_total (c : ℕ) r with hcr | hrc
  · exact inv_lower_prod h r c c.2 hcr
  · rw [hsym r c r.2 c.2, ← inv_lower_prod h c r r.2 hrc]
    apply Finset.sum_congr rfl
    intro k _
    ring

/-- full(ℝ): under the invariant the factor has a positive determinant. -/
theorem lowerMat_det_pos {n : ℕ} {M A : ℕ → ℕ → ℝ} (h : CholInv M n A) : 0 < (lowerMat n A).det := by
  rw [lowerMat_det]
  exact Finset.prod_pos (fun i _ => h.diag_pos i i.2)

/-- full(ℝ): success of the mirror algorithm on a symmetric matrix ⇒ positive definite -/
theorem posDef_of_inv {n : ℕ} {M A : ℕ → ℕ → ℝ} (h : CholInv M n A)
    (hsym : ∀ r c, r < n → c < n → M r c = M c r) : (natMat n M).PosDef := by
  rw [← lowerMat_mul_transpose h hsym]
  have hu : IsUnit (lowerMat n A) := by
    rw [isUnit_iff_isUnit_det]
    exact (lowerMat_det_pos h).ne'.isUnit
  have := PosDef.mul_conjTranspose_self (lowerMat n A) (vecMul_injective_iff_isUnit.mpr hu)
  rwa [conjTranspose_eq_transpose_of_trivial] at this

/-! ### the list model -/

/-- full(ℝ): `IsSymm` of `toMatrix n m`, entrywise on the entry function. -/
theorem symm_of_isSymm {n : ℕ} {m : List (List ℝ)} (hsym : (toMatrix n m).IsSymm)
    (r c : ℕ) (hr : r < n) (hc : c < n) : ent m r c = ent m c r :=
  hsym.apply ⟨c, hc⟩ ⟨r, hr⟩

/-- full(ℝ): a successful `Cholesky::new`, through the mirror: the result is `ofFn n A` with `A` satisfying the
    invariant at `n` -/
theorem choleskyNew_some_inv {n : ℕ} {m l : List (List ℝ)} (hlen : m.length = n)
    (hrow : ∀ r ∈ m, r.length = n) (h : LA.choleskyNew m = some l) :
    ∃ A, l = ofFn n A ∧ CholInv (ent m) n A := by
  rw [choleskyNew_eq_mirror ⟨hlen, hrow⟩] at h
  cases hA : newF n (ent m) with
  | none => rw [hA] at h; cases h
  | some A =>
    rw [hA, Option.map_some] at h
    exact ⟨A, (Option.some.inj h).symm, newF_inv _ n A hA⟩

/-- full(ℝ): for every `n`, on a symmetric `n × n` matrix nalgebra's `Cholesky::new` succeeds iff the
    matrix is positive definite. -/
theorem choleskyNew_eq_some_iff_posDef {n : ℕ} {m : List (List ℝ)} (hlen : m.length = n)
    (hrow : ∀ r ∈ m, r.length = n) (hsym : (toMatrix n m).IsSymm) :
    LA.choleskyNew m ≠ none ↔ (toMatrix n m).PosDef := by
  constructor
  · intro h
    cases hl : LA.choleskyNew m with
    | none => exact absurd hl h
    | some l =>
      obtain ⟨A, _, hI⟩ := choleskyNew_some_inv hlen hrow hl
      rw [toMatrix_eq_natMat]
      exact posDef_of_inv hI (symm_of_isSymm hsym)
  · intro h
    rw [toMatrix_eq_natMat] at h
    obtain ⟨A, hA⟩ := newF_of_posDef n (ent m) h
    rw [choleskyNew_eq_mirror ⟨hlen, hrow⟩, hA]
    simp

/-- full(ℝ): the unpacked factor is the lower-triangular matrix of the final state -/
theorem toMatrix_unpack_ofFn (n : ℕ) (A : ℕ → ℕ → ℝ) :
    toMatrix n (LA.choleskyUnpack (ofFn n A)) = lowerMat n A := by
  rw [choleskyUnpack_ofFn, toMatrix_ofFn]
  ext i j
  simp only [natMat, unpackF, lowerMat, lowerF, lit0]
  by_cases h : (i : ℕ) < j
  · rw [if_pos h, if_neg (by omega)]
  · rw [if_neg h, if_pos (by omega)]

/-- full(ℝ): when `Cholesky::new m` returns `some l` (symmetric `n × n` input), the unpacked factor
    `L = unpack l` is lower triangular with a positive diagonal and `L * Lᵀ = m`. -/
theorem choleskyNew_factor {n : ℕ} {m l : List (List ℝ)} (hlen : m.length = n)
    (hrow : ∀ r ∈ m, r.length = n) (hsym : (toMatrix n m).IsSymm) (h : LA.choleskyNew m = some l) :
    (∀ i j : Fin n, i < j → toMatrix n (LA.choleskyUnpack l) i j = 0) ∧
    (∀ i : Fin n, 0 < toMatrix n (LA.choleskyUnpack l) i i) ∧
    toMatrix n (LA.choleskyUnpack l) * (toMatrix n (LA.choleskyUnpack l))ᵀ = toMatrix n m := by
  obtain ⟨A, rfl, hI⟩ := choleskyNew_some_inv hlen hrow h
  rw [toMatrix_unpack_ofFn]
  refine ⟨fun i j hij => lowerMat_apply_of_lt n A i j hij, fun i => ?_, ?_⟩
  · rw [lowerMat_apply_of_le n A i i le_rfl]; exact hI.diag_pos i i.2
  · rw [lowerMat_mul_transpose hI (symm_of_isSymm hsym), toMatrix_eq_natMat]

/-- full(ℝ): the packed ("dirty") factor returned by `Cholesky::new` is `n × n`; on and below the
    diagonal it is the factor `L`, strictly above the diagonal it still holds the entries of `m`
    (no symmetry needed). -/
theorem choleskyNew_packed {n : ℕ} {m l : List (List ℝ)} (hlen : m.length = n)
    (hrow : ∀ r ∈ m, r.length = n) (h : LA.choleskyNew m = some l) :
    l.length = n ∧ (∀ r ∈ l, r.length = n) ∧
    (∀ i j : Fin n, j ≤ i → toMatrix n l i j = toMatrix n (LA.choleskyUnpack l) i j) ∧
    (∀ i j : Fin n, i < j → toMatrix n l i j = toMatrix n m i j) := by
  obtain ⟨A, rfl, hI⟩ := choleskyNew_some_inv hlen hrow h
  refine ⟨(isSq_ofFn n A).1, (isSq_ofFn n A).2, ?_, ?_⟩
  · intro i j hij
    rw [toMatrix_unpack_ofFn, lowerMat_apply_of_le n A i j hij, toMatrix_ofFn]
    rfl
  · intro i j hij
    rw [toMatrix_ofFn]
    exact hI.rest i j (Or.inr (Fin.lt_def.mp hij))

/-- full(ℝ): a successful factorisation of a symmetric matrix certifies a positive determinant,
    `det m = (∏ᵢ L i i)² > 0`. -/
theorem choleskyNew_det_pos {n : ℕ} {m l : List (List ℝ)} (hlen : m.length = n)
    (hrow : ∀ r ∈ m, r.length = n) (hsym : (toMatrix n m).IsSymm) (h : LA.choleskyNew m = some l) :
    0 < (toMatrix n m).det ∧
    (toMatrix n m).det = (∏ i : Fin n, toMatrix n (LA.choleskyUnpack l) i i) ^ 2 := by
  obtain ⟨A, rfl, hI⟩ := choleskyNew_some_inv hlen hrow h
  have hm : toMatrix n m = lowerMat n A * (lowerMat n A)ᵀ := by
    rw [lowerMat_mul_transpose hI (symm_of_isSymm hsym), toMatrix_eq_natMat]
  have hdet : (toMatrix n m).det = (lowerMat n A).det ^ 2 := by
    rw [hm, det_mul, det_transpose, sq]
  have hpos := lowerMat_det_pos hI
  refine ⟨by rw [hdet]; positivity, ?_⟩
  rw [hdet, toMatrix_unpack_ofFn, lowerMat_det]
  congr 1
  apply Finset.prod_congr rfl
  intro i _
  exact (lowerMat_apply_of_le n A i i le_rfl).symm

/-! ### without the symmetry hypothesis: only the lower triangle is read -/

/-- the symmetric matrix whose lower triangle is that of `m` -/
noncomputable def symLower (n : ℕ) (m : List (List ℝ)) : Matrix (Fin n) (Fin n) ℝ :=
  fun i j => if (j : ℕ) ≤ i then LA.mget m i j else LA.mget m j i

/-- full(ℝ): `symLower` is symmetric. -/
theorem symLower_isSymm (n : ℕ) (m : List (List ℝ)) : (symLower n m).IsSymm := by
  ext i j
  simp only [transpose_apply, symLower]
  by_cases h1 : (i : ℕ) ≤ j
  · by_cases h2 : (j : ℕ) ≤ i
    · have : (i : ℕ) = j := le_antisymm h1 h2
      rw [if_pos h1, if_pos h2, this]
    · rw [if_pos h1, if_neg h2]
  · rw [if_neg h1, if_pos (by omega)]

/-- full(ℝ): on a symmetric input `symLower` is the matrix itself. -/
theorem symLower_eq_of_isSymm {n : ℕ} {m : List (List ℝ)} (hsym : (toMatrix n m).IsSymm) :
    symLower n m = toMatrix n m := by
  ext i j
  simp only [symLower]
  by_cases h : (j : ℕ) ≤ i
  · rw [if_pos h]; rfl
  · rw [if_neg h]; exact hsym.apply i j

/-- full(ℝ): the algorithm never reads the strict upper triangle: the mirror run on the symmetrised entry
    function is the run on `M` followed by the same change of the (untouched) upper triangle -/
theorem newF_lower_congr (M M' : ℕ → ℕ → ℝ) (hM : ∀ r c, c ≤ r → M r c = M' r c) :
    ∀ n, (newF n M = none ↔ newF n M' = none) ∧
      ∀ A A', newF n M = some A → newF n M' = some A' → ∀ r c, c ≤ r → A r c = A' r c := by
  intro n
  induction n with
  | zero =>
    refine ⟨by simp [newF_zero], ?_⟩
    intro A A' h h' r c hrc
    rw [newF_zero] at h h'
    cases h; cases h'
    exact hM r c hrc
  | succ n ih =>
    obtain ⟨ih1, ih2⟩ := ih
    cases hB : newF n M with
    | none =>
      have hB' := ih1.mp hB
      refine ⟨by simp [newF_succ, hB, hB'], ?_⟩
      intro A A' h
      rw [newF_succ, hB] at h; cases h
    | some B =>
      cases hB' : newF n M' with
      | none => exact absurd (ih1.mpr hB') (by rw [hB]; simp)
      | some B' =>
        have hBB := ih2 B B' hB hB'
        have hpiv : pivot B n = pivot B' n := by
          unfold pivot
          rw [hBB n n le_rfl]
          congr 1
          apply Finset.sum_congr rfl
          intro k hk
          have : k ≤ n := (Finset.mem_range.mp hk).le
          rw [hBB n k this]
        rw [newF_succ_real M n B hB, newF_succ_real M' n B' hB', hpiv]
        by_cases hp : 0 < pivot B' n
        · rw [if_pos hp, if_pos hp]
          refine ⟨by simp, ?_⟩
          intro A A' h h' r c hrc
          cases h; cases h'
          rw [scaleF_sweepF_real, scaleF_sweepF_real, hpiv, hBB r c hrc]
          by_cases hh : n ≤ r ∧ c = n
          · rw [if_pos hh, if_pos hh, hBB r n hh.1]
            have : ∑ k ∈ range n, B n k * B r k = ∑ k ∈ range n, B' n k * B' r k := by
              apply Finset.sum_congr rfl
              intro k hk
              have hk' : k < n := Finset.mem_range.mp hk
              rw [hBB n k hk'.le, hBB r k (by omega)]
            rw [this]
          · rw [if_neg hh, if_neg hh]
        · rw [if_neg hp, if_neg hp]
          exact ⟨Iff.rfl, fun A A' h => by cases h⟩

/-- full(ℝ): with NO symmetry hypothesis — `Cholesky::new m` reads only the lower triangle of the
    `n × n` input and succeeds iff the symmetric matrix with that lower triangle is positive definite. -/
theorem choleskyNew_lower_iff_posDef {n : ℕ} {m : List (List ℝ)} (hlen : m.length = n)
    (hrow : ∀ r ∈ m, r.length = n) :
    LA.choleskyNew m ≠ none ↔ (symLower n m).PosDef := by
  -- the symmetrised list
  let M' : ℕ → ℕ → ℝ := fun i j => if j ≤ i then ent m i j else ent m j i
  have hM : ∀ r c, c ≤ r → ent m r c = M' r c := fun r c h => by simp [M', h]
  have hnat : symLower n m = toMatrix n (ofFn n M') := by
    rw [toMatrix_ofFn]; rfl
  have hsym' : (toMatrix n (ofFn n M')).IsSymm := by rw [← hnat]; exact symLower_isSymm n m
  rw [hnat, ← choleskyNew_eq_some_iff_posDef (isSq_ofFn n M').1 (isSq_ofFn n M').2 hsym',
    choleskyNew_eq_mirror ⟨hlen, hrow⟩, choleskyNew_ofFn]
  have := (newF_lower_congr (ent m) M' hM n).1
  cases h1 : newF n (ent m) <;> cases h2 : newF n M' <;> simp_all

/-! ### non-vacuity -/

/-- the hypotheses are satisfiable in a dimension beyond the closed forms: the 4×4 identity -/
example : LA.choleskyNew ([[1, 0, 0, 0], [0, 1, 0, 0], [0, 0, 1, 0], [0, 0, 0, 1]] : List (List ℝ)) ≠ none := by
  rw [choleskyNew_eq_some_iff_posDef (n := 4) rfl (by simp) ?_]
  · have : toMatrix 4 ([[1, 0, 0, 0], [0, 1, 0, 0], [0, 0, 1, 0], [0, 0, 0, 1]] : List (List ℝ)) = 1 := by
      ext i j; fin_cases i <;> fin_cases j <;> simp [toMatrix, LA.mget]
    rw [this]; exact PosDef.one
  · ext i j; fin_cases i <;> fin_cases j <;> simp [toMatrix, LA.mget]

end Statrs.Props.C09
