/-
  C09 / C19 — nalgebra's `Cholesky::inverse` (hand model `LA.choleskyInverse`: forward substitution with
  `L`, back substitution with `Lᵀ`, column by column) over ℝ, for EVERY dimension `n`:

    * `choleskyInverse_mul_eq_one` — if `Cholesky::new m = some l` on a symmetric `n × n` matrix then
      `inverse(l) * m = 1`, `m * inverse(l) = 1`, `inverse(l) = m⁻¹`;
    * `choleskyInverse_posDef` — the computed precision matrix is positive definite;
    * `matrixSpec_inv_of_cholesky`, `psdSpec_of_cholesky` — the premises `Spec.MatrixSpec.inv_eq` and
      `Spec.PSDSpec` of the C19 `_rel` theorems hold on every constructed object;
    * `isSymm_of_symmetricEq`, `rows_of_isSquare` — the constructor's own checks give the hypotheses.
-/
import Statrs.Props.C09.CholeskyGeneral
import Statrs.Lemmas.CholeskySolve
set_option linter.unusedSectionVars false
set_option linter.unusedVariables false
namespace Statrs.Props.C09
open Statrs Statrs.Model Statrs.Spec Statrs.Lemmas.Cholesky Statrs.Lemmas.Multivariate Matrix Finset

/-! ### the constructor's checks, read over ℝ -/

/-- full(ℝ): `m.is_square()` in the model: every row has the length of the outer list -/
theorem rows_of_isSquare {m : List (List ℝ)} (h : LA.isSquare m = true) : ∀ r ∈ m, r.length = m.length := by
  unfold LA.isSquare at h
  rw [List.all_eq_true] at h
  intro r hr
  simpa using h r hr

/-- full(ℝ): the symmetry test of the constructors (`lower_triangle == upper_triangle.transpose`) over ℝ -/
theorem isSymm_of_symmetricEq {m : List (List ℝ)} (h : LA.symmetricEq m = true) :
    (toMatrix m.length m).IsSymm := by
  unfold LA.symmetricEq at h
  simp only [List.all_eq_true, List.mem_range, real_beq] at h
  ext i j
  simp only [transpose_apply, toMatrix]
  rcases le_total (i : ℕ) j with hij | hji
  · exact h j j.2 i (by omega)
  · exact (h i i.2 j (by omega)).symm

/-! ### the double triangular solve inverts `L Lᵀ` -/

/-- full(ℝ): `Lᵀ X = Y`, `L Y = 1` for the mirror of `Cholesky::inverse` -/
theorem lower_mul_transpose_mul_inverseF (n : ℕ) (A : ℕ → ℕ → ℝ) (hd : ∀ k, k < n → A k k ≠ 0) :
    lowerMat n A * (lowerMat n A)ᵀ * natMat n (inverseF n A) = 1 := by
  have h1 : (lowerMat n A)ᵀ * natMat n (inverseF n A) =
      natMat n (fun i c => fwdF n A (fun k => if k = c then 1 else 0) i) := by
    ext i c
    simp only [mul_apply, transpose_apply, lowerMat, natMat, inverseF]
    rw [Fin.sum_univ_eq_sum_range
      (fun r => lowerF A r i * bwdF n A (fwdF n A (fun k => if k = (c : ℕ) then 1 else 0)) r) n]
    exact bwdF_spec n A _ hd i i.2
  rw [Matrix.mul_assoc, h1]
  ext r c
  simp only [mul_apply, lowerMat, natMat]
  rw [Fin.sum_univ_eq_sum_range
    (fun k => lowerF A r k * fwdF n A (fun k => if k = (c : ℕ) then 1 else 0) k) n,
    fwdF_spec n A _ hd r r.2, Matrix.one_apply]
  simp only [Fin.ext_iff]

/-- full(ℝ): for every `n`, if `Cholesky::new m = some l` on a symmetric `n × n` matrix then the matrix
    computed by `Cholesky::inverse` is the two-sided inverse of `m`. -/
theorem choleskyInverse_mul_eq_one {n : ℕ} {m l : List (List ℝ)} (hlen : m.length = n)
    (hrow : ∀ r ∈ m, r.length = n) (hsym : (toMatrix n m).IsSymm) (h : LA.choleskyNew m = some l) :
    toMatrix n (LA.choleskyInverse l) * toMatrix n m = 1 ∧
    toMatrix n m * toMatrix n (LA.choleskyInverse l) = 1 ∧
    toMatrix n (LA.choleskyInverse l) = (toMatrix n m)⁻¹ := by
  obtain ⟨A, rfl, hI⟩ := choleskyNew_some_inv hlen hrow h
  have hd : ∀ k, k < n → A k k ≠ 0 := fun k hk => (hI.diag_pos k hk).ne'
  have h1 : toMatrix n m * toMatrix n (LA.choleskyInverse (ofFn n A)) = 1 := by
    rw [choleskyInverse_ofFn, toMatrix_ofFn, toMatrix_eq_natMat,
      ← lowerMat_mul_transpose hI (symm_of_isSymm hsym)]
    exact lower_mul_transpose_mul_inverseF n A hd
  have h2 := mul_eq_one_comm.mp h1
  exact ⟨h2, h1, (Matrix.inv_eq_left_inv h2).symm⟩

/-- full(ℝ): the precision matrix computed by `Cholesky::inverse` is positive definite. -/
theorem choleskyInverse_posDef {n : ℕ} {m l : List (List ℝ)} (hlen : m.length = n)
    (hrow : ∀ r ∈ m, r.length = n) (hsym : (toMatrix n m).IsSymm) (h : LA.choleskyNew m = some l) :
    (toMatrix n (LA.choleskyInverse l)).PosDef := by
  rw [(choleskyInverse_mul_eq_one hlen hrow hsym h).2.2]
  have hpd : (toMatrix n m).PosDef :=
    (choleskyNew_eq_some_iff_posDef hlen hrow hsym).mp (by rw [h]; simp)
  exact hpd.inv

/-- full(ℝ): `Cholesky::inverse` returns an `n × n` list-of-lists -/
theorem choleskyInverse_isSq {n : ℕ} {m l : List (List ℝ)} (hlen : m.length = n)
    (hrow : ∀ r ∈ m, r.length = n) (h : LA.choleskyNew m = some l) :
    (LA.choleskyInverse l).length = n ∧ ∀ r ∈ LA.choleskyInverse l, r.length = n := by
  obtain ⟨A, rfl, hI⟩ := choleskyNew_some_inv hlen hrow h
  rw [choleskyInverse_ofFn]
  exact isSq_ofFn n _

/-! ### the premises of the C19 `_rel` theorems -/

/-- full(ℝ): `Spec.MatrixSpec.inv_eq` holds for the stored precision of every successfully factorised
    symmetric matrix. -/
theorem matrixSpec_inv_of_cholesky {cov l : List (List ℝ)} (hsq : LA.isSquare cov = true)
    (hsym : LA.symmetricEq cov = true) (h : LA.choleskyNew cov = some l) :
    toMatrix cov.length (LA.choleskyInverse l) * toMatrix cov.length cov = 1 :=
  (choleskyInverse_mul_eq_one rfl (rows_of_isSquare hsq) (isSymm_of_symmetricEq hsym) h).1

/-- full(ℝ): the quadratic form evaluated by the densities, `(P v) · v` with nalgebra's `gemv` / `dot`, is
    Mathlib's `v ⬝ᵥ P *ᵥ v` -/
theorem dotx_matvec_eq (n : ℕ) (P : List (List ℝ)) (v : List ℝ) (hP : P.length = n) (hv : v.length = n) :
    LA.dotx (LA.matvec P v) v = toVec n v ⬝ᵥ (toMatrix n P *ᵥ toVec n v) := by
  rw [quadForm_eq P v n hP hv]
  simp only [dotProduct, mulVec, toVec, toMatrix]
  rw [← Fin.sum_univ_eq_sum_range (fun i => (∑ j ∈ range n, LA.mget P i j * v.getD j 0) * v.getD i 0) n]
  apply Finset.sum_congr rfl
  intro i _
  rw [← Fin.sum_univ_eq_sum_range (fun j => LA.mget P i j * v.getD j 0) n, mul_comm]

/-- full(ℝ): `Spec.PSDSpec` holds for the stored precision of every successfully factorised symmetric
    matrix; for `v ≠ 0` the quadratic form is strictly positive. -/
theorem psdSpec_of_cholesky {cov l : List (List ℝ)} (hsq : LA.isSquare cov = true)
    (hsym : LA.symmetricEq cov = true) (h : LA.choleskyNew cov = some l) :
    PSDSpec cov.length (LA.choleskyInverse l) ∧
    ∀ v : List ℝ, v.length = cov.length → (∃ x ∈ v, x ≠ 0) →
      0 < LA.dotx (LA.matvec (LA.choleskyInverse l) v) v := by
  have hrow := rows_of_isSquare hsq
  have hS := isSymm_of_symmetricEq hsym
  have hpd := choleskyInverse_posDef rfl hrow hS h
  have hlen := (choleskyInverse_isSq rfl hrow h).1
  refine ⟨⟨fun v hv => ?_⟩, fun v hv hne => ?_⟩
  · rw [dotx_matvec_eq _ _ v hlen hv]
    have := hpd.posSemidef.dotProduct_mulVec_nonneg (toVec cov.length v)
    simpa using this
  · rw [dotx_matvec_eq _ _ v hlen hv]
    have hv0 : toVec cov.length v ≠ 0 := by
      obtain ⟨x, hx, hx0⟩ := hne
      obtain ⟨i, hi, rfl⟩ := List.mem_iff_getElem.mp hx
      intro h0
      apply hx0
      have := congrFun h0 ⟨i, by omega⟩
      simpa [toVec, List.getD_eq_getElem?_getD, hi] using this
    have := hpd.dotProduct_mulVec_pos hv0
    simpa using this

/-! ### non-vacuity -/

example : ∃ l, LA.choleskyNew ([[4, 2], [2, 3]] : List (List ℝ)) = some l := by
  have h : LA.choleskyNew ([[4, 2], [2, 3]] : List (List ℝ)) ≠ none := by
    rw [choleskyNew_lower_iff_posDef (n := 2) rfl (by simp)]
    have : symLower 2 ([[4, 2], [2, 3]] : List (List ℝ)) = !![4, 2; 2, 3] := by
      ext i j; fin_cases i <;> fin_cases j <;> simp [symLower, LA.mget]
    rw [this]
    refine PosDef.of_dotProduct_mulVec_pos ?_ ?_
    · ext i j; fin_cases i <;> fin_cases j <;> simp [conjTranspose_apply]
    · intro x hx
      simp [dotProduct, mulVec, Fin.sum_univ_two]
      have : x 0 ≠ 0 ∨ x 1 ≠ 0 := by
        by_contra hc
        push Not at hc
        apply hx; ext i; fin_cases i
        · exact hc.1
        · exact hc.2
      have key : x 0 * (4 * x 0 + 2 * x 1) + x 1 * (2 * x 0 + 3 * x 1) =
          (2 * x 0 + x 1) ^ 2 + 2 * x 1 ^ 2 := by ring
      rw [key]
      rcases this with h0 | h1
      · by_cases h1 : x 1 = 0
        · rw [h1]; simp only [add_zero]; positivity
        · positivity
      · positivity
  cases hl : LA.choleskyNew ([[4, 2], [2, 3]] : List (List ℝ)) with
  | none => exact absurd hl h
  | some l => exact ⟨l, rfl⟩

end Statrs.Props.C09
