/-
  C09 — the Cholesky clause of the `XR` domain theorems (`mvn_new_ok_iff_impl`, `mvt_new_ok_iff_impl`,
  Props/C09/VectorConstructorsB.lean) on FINITE input.

  `XR` is "IEEE values without rounding".  On a matrix all of whose entries are finite
  (`cov.map (·.map fin)`) the `XR` run of `Cholesky::new` is entry-for-entry the real run (no NaN / ∞ is
  ever produced: every division is by the square root of a positive pivot), hence:

    * `choleskyNew_fin`                 — `Cholesky::new` commutes with the embedding `fin : ℝ → XR`;
    * `mvn_new_fin_ok_iff_posDef`       — the constructor on finite `XR` input is `Ok` iff the covariance is
                                          square, of the right dimension and positive definite;
    * `mvt_new_fin_ok_iff_posDef`       — the same for `MultivariateStudent` (and `freedom > 0` or `+∞`).
-/
import Statrs.Props.C09.VectorConstructorsB
import Statrs.Props.C09.CholeskyConstructors
set_option linter.unusedSectionVars false
set_option linter.unusedVariables false
namespace Statrs.Props.C09
open Statrs Statrs.Gen Statrs.Model Statrs.Spec Statrs.Spec.XR Statrs.Lemmas.Cholesky
  Statrs.Lemmas.C09Vector Matrix

/-- the entry function of the embedded matrix -/
def finF (A : ℕ → ℕ → ℝ) : ℕ → ℕ → XR := fun i j => fin (A i j)

/-- the embedded list-of-lists -/
def finM (m : List (List ℝ)) : List (List XR) := m.map (fun r => r.map fin)

/-- full(XR): the embedding of `ofFn n A` is `ofFn n (finF A)`. -/
theorem finM_ofFn (n : ℕ) (A : ℕ → ℕ → ℝ) : finM (ofFn n A) = ofFn n (finF A) := by
  unfold finM ofFn finF
  simp [List.map_map, Function.comp_def]

/-- full(XR): one axpy of the mirror commutes with the embedding. -/
theorem axpyF_fin (A : ℕ → ℕ → ℝ) (j k : ℕ) : axpyF (finF A) j k = finF (axpyF A j k) := by
  funext r c
  simp only [axpyF, finF]
  by_cases h : j ≤ r ∧ c = j
  · simp only [if_pos h, ofScientific_eq, neg_fin, fin_mul_fin, fin_add_fin]
  · simp only [if_neg h]

/-- full(XR): the axpy sweep commutes with the embedding. -/
theorem sweep_fin (j : ℕ) : ∀ (l : List ℕ) (A : ℕ → ℕ → ℝ),
    l.foldl (fun A k => axpyF A j k) (finF A) = finF (l.foldl (fun A k => axpyF A j k) A) := by
  intro l
  induction l with
  | nil => intro A; rfl
  | cons k t ih => intro A; rw [List.foldl_cons, List.foldl_cons, axpyF_fin, ih]

/-- full(XR): the column scaling after a positive pivot commutes with the embedding. -/
theorem scaleF_fin (B : ℕ → ℕ → ℝ) (j : ℕ) (hp : 0 < B j j) : scaleF (finF B) j = finF (scaleF B j) := by
  have hs : Real.sqrt (B j j) ≠ 0 := (Real.sqrt_pos.mpr hp).ne'
  have hsq : (RFun.sqrt (fin (B j j)) : XR) = fin (Real.sqrt (B j j)) := rfl
  funext r c
  simp only [scaleF, finF, rfun_sqrt]
  by_cases h : j ≤ r ∧ c = j
  · simp only [if_pos h]
    by_cases hr : r = j
    · simp only [if_pos hr, hsq]
    · simp only [if_neg hr, hsq, fin_div_fin _ _ hs]
  · simp only [if_neg h]

/-- full(XR): one step of the mirror commutes with the embedding. -/
theorem stepF_fin (A : ℕ → ℕ → ℝ) (j : ℕ) : stepF (finF A) j = (stepF A j).map finF := by
  have hS : sweepF (finF A) j = finF (sweepF A j) := sweep_fin j _ A
  have c0 : ((finF (sweepF A j) j j == (0.0 : XR)) = true) ↔ sweepF A j j j = (0.0 : ℝ) := by
    show ((fin (sweepF A j j j) == (0.0 : XR)) = true) ↔ _
    rw [ofScientific_eq, fin_beq_fin]
  have c1 : ((0.0 : XR) ≤ finF (sweepF A j) j j) ↔ (0.0 : ℝ) ≤ sweepF A j j j := by
    show ((0.0 : XR) ≤ fin (sweepF A j j j)) ↔ _
    rw [ofScientific_eq, fin_le_fin]
  unfold stepF
  rw [hS]
  by_cases h0 : sweepF A j j j = (0.0 : ℝ)
  · rw [if_pos (c0.mpr h0), if_pos (show (sweepF A j j j == (0.0 : ℝ)) = true by rw [real_beq]; exact h0)]; rfl
  · rw [if_neg (fun h => h0 (c0.mp h)),
      if_neg (show ¬ (sweepF A j j j == (0.0 : ℝ)) = true by rw [real_beq]; exact h0)]
    by_cases h1 : (0.0 : ℝ) ≤ sweepF A j j j
    · rw [if_pos (c1.mpr h1), if_pos h1, Option.map_some]
      have hp : 0 < sweepF A j j j := by
        rw [Statrs.Lemmas.Multivariate.lit0] at h0 h1
        exact lt_of_le_of_ne h1 (Ne.symm h0)
      rw [scaleF_fin _ j hp]
    · rw [if_neg (fun h => h1 (c1.mp h)), if_neg h1]; rfl

/-- full(XR): the mirror of `Cholesky::new` commutes with the embedding. -/
theorem newF_fin (A : ℕ → ℕ → ℝ) : ∀ n, newF n (finF A) = (newF n A).map finF := by
  intro n
  induction n with
  | zero => rfl
  | succ n ih =>
    rw [newF_succ, newF_succ, ih]
    cases newF n A with
    | none => rfl
    | some B => simp [stepF_fin]

/-- full(XR): on a square matrix with finite entries the `XR` run of `Cholesky::new` is the embedding of the
    real run (in particular it never produces a NaN or an infinity). -/
theorem choleskyNew_fin {n : ℕ} {m : List (List ℝ)} (hlen : m.length = n) (hrow : ∀ r ∈ m, r.length = n) :
    LA.choleskyNew (finM m) = (LA.choleskyNew m).map finM := by
  have hm := eq_ofFn_ent (n := n) (m := m) ⟨hlen, hrow⟩
  conv_lhs => rw [hm, finM_ofFn, choleskyNew_ofFn, newF_fin]
  conv_rhs => rw [hm, choleskyNew_ofFn]
  cases newF n (ent m) with
  | none => rfl
  | some B => simp [finM_ofFn]

/-- full(XR): on a symmetric `n × n` matrix with finite entries the `XR` Cholesky succeeds iff the matrix
    is positive definite. -/
theorem choleskyNew_fin_iff_posDef {n : ℕ} {m : List (List ℝ)} (hlen : m.length = n)
    (hrow : ∀ r ∈ m, r.length = n) (hsym : (toMatrix n m).IsSymm) :
    LA.choleskyNew (finM m) ≠ none ↔ (toMatrix n m).PosDef := by
  rw [choleskyNew_fin hlen hrow, ← choleskyNew_eq_some_iff_posDef hlen hrow hsym]
  cases LA.choleskyNew m <;> simp

/-! ### the constructors on finite `XR` input -/

/-- full(XR): the embedding keeps the number of rows. -/
theorem finM_length (m : List (List ℝ)) : (finM m).length = m.length := by simp [finM]

/-- full(XR): `is_square` does not see the embedding. -/
theorem isSquare_finM (m : List (List ℝ)) : LA.isSquare (finM m) = LA.isSquare m := by
  unfold LA.isSquare finM
  simp [List.all_map, Function.comp_def]

/-- full(XR): entries of the embedded matrix (out-of-range entries are the default NaN). -/
theorem mget_finM (m : List (List ℝ)) (i j : ℕ) (hi : i < m.length) (hj : j < (m[i]).length) :
    LA.mget (finM m) i j = fin (LA.mget m i j) := by
  simp [LA.mget, finM, List.getD_eq_getElem?_getD, hi, hj]

/-- full(XR): on a square finite matrix "symmetric and NaN-free" is symmetry of the real matrix. -/
theorem symNoNaN_finM_iff {m : List (List ℝ)} (hsq : LA.isSquare m = true) :
    SymNoNaN (finM m).length (finM m) ↔ (toMatrix m.length m).IsSymm := by
  have hrow := rows_of_isSquare hsq
  have hg : ∀ i j, i < m.length → j < m.length → LA.mget (finM m) i j = fin (LA.mget m i j) := by
    intro i j hi hj
    exact mget_finM m i j hi (by rw [hrow _ (List.getElem_mem hi)]; exact hj)
  rw [finM_length]
  unfold SymNoNaN
  constructor
  · intro h
    ext i j
    have := (h j i j.2 i.2).1
    rw [hg j i j.2 i.2, hg i j i.2 j.2] at this
    simpa [toMatrix] using this
  · intro h i j hi hj
    rw [hg i j hi hj, hg j i hj hi]
    refine ⟨?_, by simp⟩
    have := h.apply ⟨i, hi⟩ ⟨j, hj⟩
    simp only [toMatrix] at this
    rw [this]

/-- full(XR): on finite input (finite means, finite covariance entries), in every dimension,
    `MultivariateNormal::new_from_nalgebra` is `Ok` iff the covariance is square, has the dimension of
    the mean and is (symmetric) positive definite — the meaning of the clause
    `LA.choleskyNew cov ≠ none` of `Dom.MultivariateNormal.DomainImpl`. -/
theorem mvn_new_fin_ok_iff_posDef (mean : List ℝ) (cov : List (List ℝ)) :
    (∃ d, MultivariateNormal.new_from_nalgebra (mean.map fin) (finM cov) = .ok d) ↔
      LA.isSquare cov = true ∧ mean.length = cov.length ∧ (toMatrix cov.length cov).PosDef := by
  rw [mvn_new_ok_iff_impl]
  unfold Dom.MultivariateNormal.DomainImpl
  rw [isSquare_finM]
  have hnan : ∀ x ∈ mean.map fin, ¬ IsNaN x := by
    intro x hx
    obtain ⟨r, _, rfl⟩ := List.mem_map.mp hx
    simp
  constructor
  · rintro ⟨_, hsq, hsym, hlen, hch⟩
    have hS := (symNoNaN_finM_iff hsq).mp hsym
    rw [List.length_map, finM_length] at hlen
    exact ⟨hsq, hlen, (choleskyNew_fin_iff_posDef rfl (rows_of_isSquare hsq) hS).mp hch⟩
  · rintro ⟨hsq, hlen, hpd⟩
    have hS : (toMatrix cov.length cov).IsSymm := by
      have := hpd.isHermitian
      rwa [IsHermitian, conjTranspose_eq_transpose_of_trivial] at this
    refine ⟨hnan, hsq, (symNoNaN_finM_iff hsq).mpr hS, by rw [List.length_map, finM_length]; exact hlen,
      (choleskyNew_fin_iff_posDef rfl (rows_of_isSquare hsq) hS).mpr hpd⟩

section student
variable [SF XR]

/-- full(XR): on finite location / scale input, in every dimension,
    `MultivariateStudent::new_from_nalgebra` is `Ok` iff the scale matrix is square, has the dimension of
    the location, is (symmetric) positive definite, and `freedom` is not NaN and not `≤ 0`
    (`+∞` is accepted). -/
theorem mvt_new_fin_ok_iff_posDef (loc : List ℝ) (scale : List (List ℝ)) (ν : XR) :
    (∃ d, MultivariateStudent.new_from_nalgebra (loc.map fin) (finM scale) ν = .ok d) ↔
      LA.isSquare scale = true ∧ (¬ IsNaN ν ∧ ¬ ν ≤ Dom.z) ∧ loc.length = scale.length ∧
        (toMatrix scale.length scale).PosDef := by
  rw [mvt_new_ok_iff_impl]
  unfold Dom.MultivariateStudent.DomainImpl
  rw [isSquare_finM]
  have hnan : ∀ x ∈ loc.map fin, ¬ IsNaN x := by
    intro x hx
    obtain ⟨r, _, rfl⟩ := List.mem_map.mp hx
    simp
  constructor
  · rintro ⟨_, hsq, hsym, hν, hlen, hch⟩
    have hS := (symNoNaN_finM_iff hsq).mp hsym
    rw [List.length_map, finM_length] at hlen
    exact ⟨hsq, hν, hlen, (choleskyNew_fin_iff_posDef rfl (rows_of_isSquare hsq) hS).mp hch⟩
  · rintro ⟨hsq, hν, hlen, hpd⟩
    have hS : (toMatrix scale.length scale).IsSymm := by
      have := hpd.isHermitian
      rwa [IsHermitian, conjTranspose_eq_transpose_of_trivial] at this
    refine ⟨hnan, hsq, (symNoNaN_finM_iff hsq).mpr hS, hν,
      by rw [List.length_map, finM_length]; exact hlen,
      (choleskyNew_fin_iff_posDef rfl (rows_of_isSquare hsq) hS).mpr hpd⟩

end student

/-! ### non-vacuity -/
example : ∃ d, MultivariateNormal.new_from_nalgebra ([0, 0].map fin) (finM [[2, 0], [0, 2]]) = .ok d := by
  rw [mvn_new_fin_ok_iff_posDef]
  refine ⟨rfl, rfl, ?_⟩
  have : toMatrix 2 ([[2, 0], [0, 2]] : List (List ℝ)) = (2 : ℝ) • (1 : Matrix (Fin 2) (Fin 2) ℝ) := by
    ext i j; fin_cases i <;> fin_cases j <;> simp [toMatrix, LA.mget]
  show (toMatrix 2 _).PosDef
  rw [this]
  exact PosDef.one.smul (by norm_num : (0 : ℝ) < 2)

end Statrs.Props.C09
