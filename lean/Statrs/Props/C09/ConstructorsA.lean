/-
  C09 — constructors validate their parameters (part A: Bernoulli, Beta, Binomial, Cauchy, Chi,
  ChiSquared, Dirac, DiscreteUniform, Erlang, Exp).

  Carrier: `XR` (IEEE values without rounding, Statrs/Spec/XR.lean) for float parameters, `Int`
  restricted to the Rust type's range for integer parameters.  The documented domains, the
  documented meaning of every error variant and the documented variant (`Dom.X.Domain`,
  `Dom.X.ErrDoc`, `Dom.X.docErr`) are transcribed from the Rust doc comments in
  Statrs/Spec/Domain.lean.  For every family `X` and ALL argument values:
    * `x_new_ok_iff`     — `X.new args` is `Ok` exactly on the documented domain;           full(XR)
    * `x_new_err`        — an `Err(e)` carries the documented variant, and the condition
                           documented for `e` holds of the arguments;                        full(XR)
    * `x_new_ok_params`  — an `Ok(d)` stores / reports through its accessors exactly the
                           arguments it was given;                                           full(XR)
    * `x_new_no_panic`   — the result does not depend on the `Inhabited` instance, i.e. the
                           constructor never evaluates `panicV`/`unwrapO`/`unwrapE` (whose
                           value IS that instance's `default`);                              full(∀α)
  Since `Except` has only `ok` and `error`, `x_new_ok_iff` also gives `Err` everywhere outside
  the domain (`x_new_err_of_not_domain`-style corollaries are immediate and not repeated).
-/
import Statrs.Lemmas.C09Tactic
import Statrs.Gen.D_bernoulli
import Statrs.Gen.D_beta
import Statrs.Gen.D_binomial
import Statrs.Gen.D_cauchy
import Statrs.Gen.D_chi
import Statrs.Gen.D_chi_squared
import Statrs.Gen.D_dirac
import Statrs.Gen.D_discrete_uniform
import Statrs.Gen.D_erlang
import Statrs.Gen.D_exponential
set_option linter.unnecessarySeqFocus false
namespace Statrs.Props.C09
open Statrs Statrs.Gen Statrs.Spec Statrs.Spec.XR Statrs.Lemmas

/-! ## never panics (every carrier) -/
section NoPanic
variable {α : Type} [Add α] [Sub α] [Mul α] [Div α] [Neg α] [LT α] [LE α] [BEq α]
  [DecidableLT α] [DecidableLE α] [OfScientific α] [RFun α] (i₁ i₂ : Inhabited α)

theorem bernoulli_new_no_panic (p : α) :
    @Bernoulli.new α _ _ _ _ _ _ _ _ _ _ _ i₁ _ p = @Bernoulli.new α _ _ _ _ _ _ _ _ _ _ _ i₂ _ p := rfl
theorem beta_new_no_panic (a b : α) :
    @Beta.new α _ _ _ _ _ _ _ _ _ _ _ i₁ _ a b = @Beta.new α _ _ _ _ _ _ _ _ _ _ _ i₂ _ a b := rfl
theorem binomial_new_no_panic (p : α) (n : Int) :
    @Binomial.new α _ _ _ _ _ _ _ _ _ _ _ i₁ _ p n = @Binomial.new α _ _ _ _ _ _ _ _ _ _ _ i₂ _ p n := rfl
theorem cauchy_new_no_panic (l s : α) :
    @Cauchy.new α _ _ _ _ _ _ _ _ _ _ _ i₁ _ l s = @Cauchy.new α _ _ _ _ _ _ _ _ _ _ _ i₂ _ l s := rfl
theorem chi_new_no_panic (k : Int) :
    @Chi.new α _ _ _ _ _ _ _ _ _ _ _ i₁ _ k = @Chi.new α _ _ _ _ _ _ _ _ _ _ _ i₂ _ k := rfl
theorem chiSquared_new_no_panic (k : α) :
    @ChiSquared.new α _ _ _ _ _ _ _ _ _ _ _ i₁ _ k = @ChiSquared.new α _ _ _ _ _ _ _ _ _ _ _ i₂ _ k := rfl
theorem dirac_new_no_panic (v : α) :
    @Dirac.new α _ _ _ _ _ _ _ _ _ _ _ i₁ _ v = @Dirac.new α _ _ _ _ _ _ _ _ _ _ _ i₂ _ v := rfl
theorem discreteUniform_new_no_panic (a b : Int) :
    @DiscreteUniform.new α _ _ _ _ _ _ _ _ _ _ _ i₁ _ a b
      = @DiscreteUniform.new α _ _ _ _ _ _ _ _ _ _ _ i₂ _ a b := rfl
theorem erlang_new_no_panic (k : Int) (r : α) :
    @Erlang.new α _ _ _ _ _ _ _ _ _ _ _ i₁ _ k r = @Erlang.new α _ _ _ _ _ _ _ _ _ _ _ i₂ _ k r := rfl
theorem exp_new_no_panic (r : α) :
    @Exp.new α _ _ _ _ _ _ _ _ _ _ _ i₁ _ r = @Exp.new α _ _ _ _ _ _ _ _ _ _ _ i₂ _ r := rfl
end NoPanic

/-! ## Bernoulli -/

theorem bernoulli_new_ok_iff (p : XR) :
    (∃ d, Bernoulli.new p = .ok d) ↔ Dom.Bernoulli.Domain p := by
  cases p <;> ctor_solve [Bernoulli.new, Binomial.new, Dom.Bernoulli.Domain]

theorem bernoulli_new_err (p : XR) (e : BinomialError) (h : Bernoulli.new p = .error e) :
    e = Dom.Bernoulli.docErr p ∧ Dom.Bernoulli.ErrDoc p e := by
  revert h
  cases p <;> cases e <;>
    ctor_solve [Bernoulli.new, Binomial.new, Dom.Bernoulli.docErr, Dom.Bernoulli.ErrDoc]

theorem bernoulli_new_ok_params (p : XR) (d : Bernoulli XR) (h : Bernoulli.new p = .ok d) :
    d.f_b = { f_p := p, f_n := 1 } ∧ Bernoulli.p d = p ∧ Bernoulli.n d = 1 := by
  unfold Bernoulli.new Binomial.new at h
  split_ifs at h <;> simp [exceptMap] at h <;> subst h <;> simp [Bernoulli.p, Bernoulli.n, Binomial.p]

example : Dom.Bernoulli.Domain (fin 0.5) := by norm_num [Dom.Bernoulli.Domain]
example : ¬ Dom.Bernoulli.Domain (fin (-0.5)) := by norm_num [Dom.Bernoulli.Domain]

/-! ## Beta -/

theorem beta_new_ok_iff (a b : XR) : (∃ d, Beta.new a b = .ok d) ↔ Dom.Beta.Domain a b := by
  cases a <;> cases b <;> ctor_solve [Beta.new, Dom.Beta.Domain]

theorem beta_new_err (a b : XR) (e : BetaError) (h : Beta.new a b = .error e) :
    e = Dom.Beta.docErr a b ∧ Dom.Beta.ErrDoc a b e := by
  revert h
  cases a <;> cases b <;> cases e <;> ctor_solve [Beta.new, Dom.Beta.docErr, Dom.Beta.ErrDoc]

theorem beta_new_ok_params (a b : XR) (d : Beta XR) (h : Beta.new a b = .ok d) :
    d = { f_shape_a := a, f_shape_b := b } ∧ Beta.shape_a d = a ∧ Beta.shape_b d = b := by
  unfold Beta.new at h
  split_ifs at h <;> simp at h <;> subst h <;> simp [Beta.shape_a, Beta.shape_b]

example : Dom.Beta.Domain (fin 2) (fin 2) := by norm_num [Dom.Beta.Domain]
example : ¬ Dom.Beta.Domain (fin 0) (fin 0) := by norm_num [Dom.Beta.Domain]
example : ¬ Dom.Beta.Domain pinf (fin 1) := by norm_num [Dom.Beta.Domain]

/-! ## Binomial (`n : u64`) -/

theorem binomial_new_ok_iff (p : XR) (n : Int) (hn : 0 ≤ n) :
    (∃ d, Binomial.new p n = .ok d) ↔ Dom.Binomial.Domain p n := by
  cases p <;> ctor_solve [Binomial.new, Dom.Binomial.Domain]

theorem binomial_new_err (p : XR) (n : Int) (e : BinomialError) (h : Binomial.new p n = .error e) :
    e = Dom.Binomial.docErr p n ∧ Dom.Binomial.ErrDoc p n e := by
  revert h
  cases p <;> cases e <;> ctor_solve [Binomial.new, Dom.Binomial.docErr, Dom.Binomial.ErrDoc]

theorem binomial_new_ok_params (p : XR) (n : Int) (d : Binomial XR) (h : Binomial.new p n = .ok d) :
    d = { f_p := p, f_n := n } ∧ Binomial.p d = p ∧ Binomial.n d = n := by
  unfold Binomial.new at h
  split_ifs at h <;> simp at h <;> subst h <;> simp [Binomial.p, Binomial.n]

example : Dom.Binomial.Domain (fin 0.5) 5 := by norm_num [Dom.Binomial.Domain]
example : ¬ Dom.Binomial.Domain (fin (-0.5)) 5 := by norm_num [Dom.Binomial.Domain]

/-! ## Cauchy -/

theorem cauchy_new_ok_iff (l s : XR) : (∃ d, Cauchy.new l s = .ok d) ↔ Dom.Cauchy.Domain l s := by
  cases l <;> cases s <;> ctor_solve [Cauchy.new, Dom.Cauchy.Domain]

theorem cauchy_new_err (l s : XR) (e : CauchyError) (h : Cauchy.new l s = .error e) :
    e = Dom.Cauchy.docErr l s ∧ Dom.Cauchy.ErrDoc l s e := by
  revert h
  cases l <;> cases s <;> cases e <;> ctor_solve [Cauchy.new, Dom.Cauchy.docErr, Dom.Cauchy.ErrDoc]

theorem cauchy_new_ok_params (l s : XR) (d : Cauchy XR) (h : Cauchy.new l s = .ok d) :
    d = { f_location := l, f_scale := s } ∧ Cauchy.location d = l ∧ Cauchy.scale d = s := by
  unfold Cauchy.new at h
  split_ifs at h <;> simp at h <;> subst h <;> simp [Cauchy.location, Cauchy.scale]

example : Dom.Cauchy.Domain (fin 0) (fin 1) := by norm_num [Dom.Cauchy.Domain]
example : ¬ Dom.Cauchy.Domain (fin 0) (fin (-1)) := by norm_num [Dom.Cauchy.Domain]

/-! ## Chi (`freedom : u64`; the struct has no float field, the carrier is irrelevant) -/

theorem chi_new_ok_iff (k : Int) : (∃ d, Chi.new (α := XR) k = .ok d) ↔ Dom.Chi.Domain k := by
  by_cases hk : k = 0 <;> simp [Chi.new, Dom.Chi.Domain, hk]

theorem chi_new_err (k : Int) (e : ChiError) (h : Chi.new (α := XR) k = .error e) :
    e = Dom.Chi.docErr k ∧ Dom.Chi.ErrDoc k e := by
  revert h
  by_cases hk : k = 0 <;> cases e <;> simp [Chi.new, Dom.Chi.docErr, Dom.Chi.ErrDoc, hk]

theorem chi_new_ok_params (k : Int) (d : Chi) (h : Chi.new (α := XR) k = .ok d) :
    d = { f_freedom := k } ∧ Chi.freedom (α := XR) d = k := by
  revert h
  by_cases hk : k = 0 <;> simp [Chi.new, Chi.freedom, hk]
  rintro rfl; simp

example : Dom.Chi.Domain 2 := by norm_num [Dom.Chi.Domain]
example : ¬ Dom.Chi.Domain 0 := by norm_num [Dom.Chi.Domain]

/-! ## ChiSquared (= Gamma(freedom / 2.0, 0.5)) -/

theorem chiSquared_new_ok_iff (k : XR) :
    (∃ d, ChiSquared.new k = .ok d) ↔ Dom.ChiSquared.Domain k := by
  cases k <;>
    ctor_solve [ChiSquared.new, Gamma.new, Dom.ChiSquared.Domain, fin_div_fin, pinf_div_fin,
      ninf_div_fin]

theorem chiSquared_new_err (k : XR) (e : GammaError) (h : ChiSquared.new k = .error e) :
    e = Dom.ChiSquared.docErr k ∧ Dom.ChiSquared.ErrDoc k e := by
  revert h
  cases k <;> cases e <;>
    ctor_solve [ChiSquared.new, Gamma.new, Dom.ChiSquared.docErr, Dom.ChiSquared.ErrDoc,
      fin_div_fin, pinf_div_fin, ninf_div_fin]

theorem chiSquared_new_ok_params (k : XR) (d : ChiSquared XR) (h : ChiSquared.new k = .ok d) :
    d = { f_freedom := k, f_g := { f_shape := k / (2.0 : XR), f_rate := (0.5 : XR) } } ∧
      ChiSquared.freedom d = k ∧ ChiSquared.shape d = k / (2.0 : XR) ∧
      ChiSquared.rate d = (0.5 : XR) := by
  unfold ChiSquared.new Gamma.new at h
  split_ifs at h <;> simp only [exceptMap] at h <;> simp only [Except.ok.injEq, reduceCtorEq] at h <;>
    subst h <;> simp [ChiSquared.freedom, ChiSquared.shape, ChiSquared.rate, Gamma.shape, Gamma.rate]

example : Dom.ChiSquared.Domain (fin 3) := by norm_num [Dom.ChiSquared.Domain]
example : Dom.ChiSquared.Domain pinf := by norm_num [Dom.ChiSquared.Domain]
example : ¬ Dom.ChiSquared.Domain (fin 0) := by norm_num [Dom.ChiSquared.Domain]

/-! ## Dirac -/

theorem dirac_new_ok_iff (v : XR) : (∃ d, Dirac.new v = .ok d) ↔ Dom.Dirac.Domain v := by
  cases v <;> ctor_solve [Dirac.new, Dom.Dirac.Domain]

theorem dirac_new_err (v : XR) (e : DiracError) (h : Dirac.new v = .error e) :
    e = Dom.Dirac.docErr v ∧ Dom.Dirac.ErrDoc v e := by
  revert h
  cases v <;> cases e <;> ctor_solve [Dirac.new, Dom.Dirac.docErr, Dom.Dirac.ErrDoc]

theorem dirac_new_ok_params (v : XR) (d : Dirac XR) (h : Dirac.new v = .ok d) :
    d = { f_0 := v } ∧ Dirac.v d = v := by
  unfold Dirac.new at h
  split_ifs at h <;> simp at h <;> subst h <;> simp [Dirac.v]

example : Dom.Dirac.Domain (fin 0) := by norm_num [Dom.Dirac.Domain]
example : Dom.Dirac.Domain ninf := by norm_num [Dom.Dirac.Domain]
example : ¬ Dom.Dirac.Domain nan := by norm_num [Dom.Dirac.Domain]

/-! ## DiscreteUniform (`min, max : i64`) -/

theorem discreteUniform_new_ok_iff (a b : Int) :
    (∃ d, DiscreteUniform.new (α := XR) a b = .ok d) ↔ Dom.DiscreteUniform.Domain a b := by
  by_cases hab : b < a <;> simp [DiscreteUniform.new, Dom.DiscreteUniform.Domain, hab]

theorem discreteUniform_new_err (a b : Int) (e : DiscreteUniformError)
    (h : DiscreteUniform.new (α := XR) a b = .error e) :
    e = Dom.DiscreteUniform.docErr a b ∧ Dom.DiscreteUniform.ErrDoc a b e := by
  revert h
  by_cases hab : b < a <;> cases e <;>
    simp [DiscreteUniform.new, Dom.DiscreteUniform.docErr, Dom.DiscreteUniform.ErrDoc, hab]

theorem discreteUniform_new_ok_params (a b : Int) (d : DiscreteUniform)
    (h : DiscreteUniform.new (α := XR) a b = .ok d) :
    d = { f_min := a, f_max := b } ∧ DiscreteUniform.min (α := XR) d = a ∧
      DiscreteUniform.max (α := XR) d = b := by
  unfold DiscreteUniform.new at h
  split_ifs at h <;> simp at h <;> subst h <;> simp [DiscreteUniform.min, DiscreteUniform.max]

example : Dom.DiscreteUniform.Domain 0 5 := by norm_num [Dom.DiscreteUniform.Domain]
example : ¬ Dom.DiscreteUniform.Domain 5 0 := by norm_num [Dom.DiscreteUniform.Domain]

/-! ## Erlang (`shape : u64`; = Gamma(shape as f64, rate)) -/

theorem erlang_new_ok_iff (k : Int) (r : XR) (hk : 0 ≤ k) :
    (∃ d, Erlang.new k r = .ok d) ↔ Dom.Erlang.Domain k r := by
  cases r <;> ctor_solve [Erlang.new, Gamma.new, Dom.Erlang.Domain]

theorem erlang_new_err (k : Int) (r : XR) (e : GammaError)
    (h : Erlang.new k r = .error e) :
    e = Dom.Erlang.docErr k r ∧ Dom.Erlang.ErrDoc k r e := by
  revert h
  cases r <;> cases e <;>
    ctor_solve [Erlang.new, Gamma.new, Dom.Erlang.docErr, Dom.Erlang.ErrDoc]

/-- On the exact carrier `(k as f64) as u64 = k`; in `f64` the round trip is lossy above `2^53`
    (outside what `XR`, which has no rounding, can express). -/
theorem erlang_new_ok_params (k : Int) (r : XR) (hk : 0 ≤ k) (hk' : k ≤ u64Max) (d : Erlang XR)
    (h : Erlang.new k r = .ok d) :
    d = { f_g := { f_shape := fin (k : ℝ), f_rate := r } } ∧ Erlang.shape d = k ∧
      Erlang.rate d = r := by
  unfold Erlang.new Gamma.new at h
  have hu := XR.toU64_ofInt k hk hk'
  split_ifs at h <;> simp only [exceptMap] at h <;> simp only [Except.ok.injEq, reduceCtorEq] at h <;>
    subst h <;> simp_all [Erlang.shape, Erlang.rate, Gamma.shape, Gamma.rate]

example : Dom.Erlang.Domain 3 (fin 1) := by norm_num [Dom.Erlang.Domain]
example : ¬ Dom.Erlang.Domain 0 (fin 0) := by norm_num [Dom.Erlang.Domain]

/-! ## Exp -/

theorem exp_new_ok_iff (r : XR) : (∃ d, Exp.new r = .ok d) ↔ Dom.Exp.Domain r := by
  cases r <;> ctor_solve [Exp.new, Dom.Exp.Domain]

theorem exp_new_err (r : XR) (e : ExpError) (h : Exp.new r = .error e) :
    e = Dom.Exp.docErr r ∧ Dom.Exp.ErrDoc r e := by
  revert h
  cases r <;> cases e <;> ctor_solve [Exp.new, Dom.Exp.docErr, Dom.Exp.ErrDoc]

theorem exp_new_ok_params (r : XR) (d : Exp XR) (h : Exp.new r = .ok d) :
    d = { f_rate := r } ∧ Exp.rate d = r := by
  unfold Exp.new at h
  split_ifs at h <;> simp at h <;> subst h <;> simp [Exp.rate]

example : Dom.Exp.Domain (fin 1) := by norm_num [Dom.Exp.Domain]
example : Dom.Exp.Domain pinf := by norm_num [Dom.Exp.Domain]
example : ¬ Dom.Exp.Domain (fin (-1)) := by norm_num [Dom.Exp.Domain]

end Statrs.Props.C09
