/-
  C09 — constructors validate their parameters (part B: FisherSnedecor, Gamma, Geometric, Gumbel,
  Hypergeometric, InverseGamma, Laplace, Levy, LogNormal).  Conventions as in ConstructorsA.lean.

  Two families DISAGREE with the `# Errors` section of their `new` (the statements are kept as
  documented and refuted on witnesses; the exact behaviour is proved against `Dom.X.DomainImpl`):
    * `Gamma::new` — documented: error if `shape` or `rate` is infinite; code: `Ok` unless BOTH are
      (`gamma_new_ok_iff_counterexample`, witnesses `(+∞, 1)` and `(1, +∞)`);
    * `FisherSnedecor::new` — `# Errors` lists only NaN and `<= 0.0`; code (and the error-variant
      docs) also reject `+∞` (`fisherSnedecor_new_ok_iff_counterexample`, witness `(+∞, 1)`).
-/
import Statrs.Lemmas.C09Tactic
import Statrs.Gen.D_fisher_snedecor
import Statrs.Gen.D_gamma
import Statrs.Gen.D_geometric
import Statrs.Gen.D_gumbel
import Statrs.Gen.D_hypergeometric
import Statrs.Gen.D_inverse_gamma
import Statrs.Gen.D_laplace
import Statrs.Gen.D_levy
import Statrs.Gen.D_log_normal
set_option linter.unnecessarySeqFocus false
namespace Statrs.Props.C09
open Statrs Statrs.Gen Statrs.Spec Statrs.Spec.XR Statrs.Lemmas

/-! ## never panics (every carrier) -/
section NoPanic
variable {α : Type} [Add α] [Sub α] [Mul α] [Div α] [Neg α] [LT α] [LE α] [BEq α]
  [DecidableLT α] [DecidableLE α] [OfScientific α] [RFun α] (i₁ i₂ : Inhabited α)

theorem fisherSnedecor_new_no_panic (a b : α) :
    @FisherSnedecor.new α _ _ _ _ _ _ _ _ _ _ _ i₁ _ a b
      = @FisherSnedecor.new α _ _ _ _ _ _ _ _ _ _ _ i₂ _ a b := rfl
theorem gamma_new_no_panic (a b : α) :
    @Gamma.new α _ _ _ _ _ _ _ _ _ _ _ i₁ _ a b = @Gamma.new α _ _ _ _ _ _ _ _ _ _ _ i₂ _ a b := rfl
theorem geometric_new_no_panic (p : α) :
    @Geometric.new α _ _ _ _ _ _ _ _ _ _ _ i₁ _ p = @Geometric.new α _ _ _ _ _ _ _ _ _ _ _ i₂ _ p := rfl
theorem gumbel_new_no_panic (a b : α) :
    @Gumbel.new α _ _ _ _ _ _ _ _ _ _ _ i₁ _ a b = @Gumbel.new α _ _ _ _ _ _ _ _ _ _ _ i₂ _ a b := rfl
theorem hypergeometric_new_no_panic (a b c : Int) :
    @Hypergeometric.new α _ _ _ _ _ _ _ _ _ _ _ i₁ _ a b c
      = @Hypergeometric.new α _ _ _ _ _ _ _ _ _ _ _ i₂ _ a b c := rfl
theorem inverseGamma_new_no_panic (a b : α) :
    @InverseGamma.new α _ _ _ _ _ _ _ _ _ _ _ i₁ _ a b
      = @InverseGamma.new α _ _ _ _ _ _ _ _ _ _ _ i₂ _ a b := rfl
theorem laplace_new_no_panic (a b : α) :
    @Laplace.new α _ _ _ _ _ _ _ _ _ _ _ i₁ _ a b = @Laplace.new α _ _ _ _ _ _ _ _ _ _ _ i₂ _ a b := rfl
theorem levy_new_no_panic (a b : α) :
    @Levy.new α _ _ _ _ _ _ _ _ _ _ _ i₁ _ a b = @Levy.new α _ _ _ _ _ _ _ _ _ _ _ i₂ _ a b := rfl
theorem logNormal_new_no_panic (a b : α) :
    @LogNormal.new α _ _ _ _ _ _ _ _ _ _ _ i₁ _ a b = @LogNormal.new α _ _ _ _ _ _ _ _ _ _ _ i₂ _ a b := rfl
end NoPanic

/-! ## FisherSnedecor — DISCREPANCY with the `# Errors` section -/

/-- `Ok` exactly on the implemented domain: documented clauses plus "not infinite". -/
theorem fisherSnedecor_new_ok_iff_impl (a b : XR) :
    (∃ d, FisherSnedecor.new a b = .ok d) ↔ Dom.FisherSnedecor.DomainImpl a b := by
  cases a <;> cases b <;>
    ctor_solve [FisherSnedecor.new, Dom.FisherSnedecor.DomainImpl, Dom.FisherSnedecor.Domain]

/-- partial: only one direction of `ok ↔ Domain` holds (the other is refuted below) -/
theorem fisherSnedecor_new_ok_imp_domain_partial (a b : XR) (h : ∃ d, FisherSnedecor.new a b = .ok d) :
    Dom.FisherSnedecor.Domain a b :=
  ((fisherSnedecor_new_ok_iff_impl a b).1 h).1

/-- The `# Errors` section of `FisherSnedecor::new` does not list infinite degrees of freedom, but
    `new(+∞, 1.0)` is `Err(Freedom1Invalid)` and `new(1.0, +∞)` is `Err(Freedom2Invalid)`. -/
theorem fisherSnedecor_new_ok_iff_counterexample :
    (Dom.FisherSnedecor.Domain pinf (fin 1) ∧
      FisherSnedecor.new pinf (fin 1) = .error FisherSnedecorError.Freedom1Invalid) ∧
    (Dom.FisherSnedecor.Domain (fin 1) pinf ∧
      FisherSnedecor.new (fin 1) pinf = .error FisherSnedecorError.Freedom2Invalid) ∧
    ¬ ∀ a b : XR, (∃ d, FisherSnedecor.new a b = .ok d) ↔ Dom.FisherSnedecor.Domain a b := by
  refine ⟨⟨?_, ?_⟩, ⟨?_, ?_⟩, fun h => ?_⟩
  · norm_num [Dom.FisherSnedecor.Domain]
  · norm_num [FisherSnedecor.new]
  · norm_num [Dom.FisherSnedecor.Domain]
  · norm_num [FisherSnedecor.new]
  · have := (h pinf (fin 1)).2 (by norm_num [Dom.FisherSnedecor.Domain])
    simp [FisherSnedecor.new] at this

theorem fisherSnedecor_new_err (a b : XR) (e : FisherSnedecorError)
    (h : FisherSnedecor.new a b = .error e) :
    e = Dom.FisherSnedecor.docErr a b ∧ Dom.FisherSnedecor.ErrDoc a b e := by
  revert h
  cases a <;> cases b <;> cases e <;>
    ctor_solve [FisherSnedecor.new, Dom.FisherSnedecor.docErr, Dom.FisherSnedecor.ErrDoc]

theorem fisherSnedecor_new_ok_params (a b : XR) (d : FisherSnedecor XR)
    (h : FisherSnedecor.new a b = .ok d) :
    d = { f_freedom_1 := a, f_freedom_2 := b } ∧ FisherSnedecor.freedom_1 d = a ∧
      FisherSnedecor.freedom_2 d = b := by
  unfold FisherSnedecor.new at h
  split_ifs at h <;> simp at h <;> subst h <;> simp [FisherSnedecor.freedom_1, FisherSnedecor.freedom_2]

example : Dom.FisherSnedecor.DomainImpl (fin 1) (fin 1) := by
  norm_num [Dom.FisherSnedecor.DomainImpl, Dom.FisherSnedecor.Domain]
example : ¬ Dom.FisherSnedecor.Domain (fin 0) (fin 0) := by norm_num [Dom.FisherSnedecor.Domain]

/-! ## Gamma — DISCREPANCY with the `# Errors` section -/

/-- `Ok` exactly on the implemented domain: an infinite parameter is rejected only when BOTH are. -/
theorem gamma_new_ok_iff_impl (a b : XR) :
    (∃ d, Gamma.new a b = .ok d) ↔ Dom.Gamma.DomainImpl a b := by
  cases a <;> cases b <;> ctor_solve [Gamma.new, Dom.Gamma.DomainImpl]

/-- partial: only one direction of `ok ↔ Domain` holds (the other is refuted below) -/
theorem gamma_new_ok_of_domain_partial (a b : XR) (h : Dom.Gamma.Domain a b) :
    ∃ d, Gamma.new a b = .ok d := by
  revert h
  cases a <;> cases b <;> ctor_solve [Gamma.new, Dom.Gamma.Domain]

/-- `Gamma::new` is documented to "return an error if `shape` is 'NaN' or inf or `rate` is `NaN` or
    inf", but `new(+∞, 1.0)` and `new(1.0, +∞)` are `Ok`. -/
theorem gamma_new_ok_iff_counterexample :
    (¬ Dom.Gamma.Domain pinf (fin 1) ∧
      Gamma.new pinf (fin 1) = .ok { f_shape := pinf, f_rate := fin 1 }) ∧
    (¬ Dom.Gamma.Domain (fin 1) pinf ∧
      Gamma.new (fin 1) pinf = .ok { f_shape := fin 1, f_rate := pinf }) ∧
    ¬ ∀ a b : XR, (∃ d, Gamma.new a b = .ok d) ↔ Dom.Gamma.Domain a b := by
  refine ⟨⟨?_, ?_⟩, ⟨?_, ?_⟩, fun h => ?_⟩
  · norm_num [Dom.Gamma.Domain]
  · norm_num [Gamma.new]
  · norm_num [Dom.Gamma.Domain]
  · norm_num [Gamma.new]
  · have := (h pinf (fin 1)).1 ⟨_, by norm_num [Gamma.new]; rfl⟩
    norm_num [Dom.Gamma.Domain] at this

theorem gamma_new_err (a b : XR) (e : GammaError) (h : Gamma.new a b = .error e) :
    e = Dom.Gamma.docErr a b ∧ Dom.Gamma.ErrDoc a b e := by
  revert h
  cases a <;> cases b <;> cases e <;> ctor_solve [Gamma.new, Dom.Gamma.docErr, Dom.Gamma.ErrDoc]

theorem gamma_new_ok_params (a b : XR) (d : Gamma XR) (h : Gamma.new a b = .ok d) :
    d = { f_shape := a, f_rate := b } ∧ Gamma.shape d = a ∧ Gamma.rate d = b := by
  unfold Gamma.new at h
  split_ifs at h <;> simp at h <;> subst h <;> simp [Gamma.shape, Gamma.rate]

example : Dom.Gamma.Domain (fin 3) (fin 1) := by norm_num [Dom.Gamma.Domain]
example : Dom.Gamma.DomainImpl (fin 3) pinf := by norm_num [Dom.Gamma.DomainImpl]
example : ¬ Dom.Gamma.DomainImpl pinf pinf := by norm_num [Dom.Gamma.DomainImpl]

/-! ## Geometric -/

theorem geometric_new_ok_iff (p : XR) : (∃ d, Geometric.new p = .ok d) ↔ Dom.Geometric.Domain p := by
  cases p <;> ctor_solve [Geometric.new, Dom.Geometric.Domain]

theorem geometric_new_err (p : XR) (e : GeometricError) (h : Geometric.new p = .error e) :
    e = Dom.Geometric.docErr p ∧ Dom.Geometric.ErrDoc p e := by
  revert h
  cases p <;> cases e <;> ctor_solve [Geometric.new, Dom.Geometric.docErr, Dom.Geometric.ErrDoc]

theorem geometric_new_ok_params (p : XR) (d : Geometric XR) (h : Geometric.new p = .ok d) :
    d = { f_p := p } ∧ Geometric.p d = p := by
  unfold Geometric.new at h
  split_ifs at h <;> simp at h <;> subst h <;> simp [Geometric.p]

example : Dom.Geometric.Domain (fin 0.5) := by norm_num [Dom.Geometric.Domain]
example : Dom.Geometric.Domain (fin 1) := by norm_num [Dom.Geometric.Domain]
example : ¬ Dom.Geometric.Domain (fin 0) := by norm_num [Dom.Geometric.Domain]

/-! ## Gumbel -/

theorem gumbel_new_ok_iff (l s : XR) : (∃ d, Gumbel.new l s = .ok d) ↔ Dom.Gumbel.Domain l s := by
  cases l <;> cases s <;> ctor_solve [Gumbel.new, Dom.Gumbel.Domain]

theorem gumbel_new_err (l s : XR) (e : GumbelError) (h : Gumbel.new l s = .error e) :
    e = Dom.Gumbel.docErr l s ∧ Dom.Gumbel.ErrDoc l s e := by
  revert h
  cases l <;> cases s <;> cases e <;> ctor_solve [Gumbel.new, Dom.Gumbel.docErr, Dom.Gumbel.ErrDoc]

theorem gumbel_new_ok_params (l s : XR) (d : Gumbel XR) (h : Gumbel.new l s = .ok d) :
    d = { f_location := l, f_scale := s } ∧ Gumbel.location d = l ∧ Gumbel.scale d = s := by
  unfold Gumbel.new at h
  split_ifs at h <;> simp at h <;> subst h <;> simp [Gumbel.location, Gumbel.scale]

example : Dom.Gumbel.Domain (fin 0) (fin 1) := by norm_num [Dom.Gumbel.Domain]
example : ¬ Dom.Gumbel.Domain (fin 0) (fin (-1)) := by norm_num [Dom.Gumbel.Domain]

/-! ## Hypergeometric (all `u64`) -/

theorem hypergeometric_new_ok_iff (N K n : Int) :
    (∃ d, Hypergeometric.new (α := XR) N K n = .ok d) ↔ Dom.Hypergeometric.Domain N K n := by
  by_cases h1 : N < K <;> by_cases h2 : N < n <;>
    simp [Hypergeometric.new, Dom.Hypergeometric.Domain, h1, h2]

theorem hypergeometric_new_err (N K n : Int) (e : HypergeometricError)
    (h : Hypergeometric.new (α := XR) N K n = .error e) :
    e = Dom.Hypergeometric.docErr N K n ∧ Dom.Hypergeometric.ErrDoc N K n e := by
  revert h
  by_cases h1 : N < K <;> by_cases h2 : N < n <;> cases e <;>
    simp [Hypergeometric.new, Dom.Hypergeometric.docErr, Dom.Hypergeometric.ErrDoc, h1, h2]

theorem hypergeometric_new_ok_params (N K n : Int) (d : Hypergeometric)
    (h : Hypergeometric.new (α := XR) N K n = .ok d) :
    d = { f_population := N, f_successes := K, f_draws := n } ∧
      Hypergeometric.population (α := XR) d = N ∧ Hypergeometric.successes (α := XR) d = K ∧
      Hypergeometric.draws (α := XR) d = n := by
  unfold Hypergeometric.new at h
  split_ifs at h <;> simp at h <;> subst h <;>
    simp [Hypergeometric.population, Hypergeometric.successes, Hypergeometric.draws]

example : Dom.Hypergeometric.Domain 2 2 2 := by norm_num [Dom.Hypergeometric.Domain]
example : ¬ Dom.Hypergeometric.Domain 2 3 2 := by norm_num [Dom.Hypergeometric.Domain]

/-! ## InverseGamma -/

theorem inverseGamma_new_ok_iff (a b : XR) :
    (∃ d, InverseGamma.new a b = .ok d) ↔ Dom.InverseGamma.Domain a b := by
  cases a <;> cases b <;> ctor_solve [InverseGamma.new, Dom.InverseGamma.Domain]

theorem inverseGamma_new_err (a b : XR) (e : InverseGammaError) (h : InverseGamma.new a b = .error e) :
    e = Dom.InverseGamma.docErr a b ∧ Dom.InverseGamma.ErrDoc a b e := by
  revert h
  cases a <;> cases b <;> cases e <;>
    ctor_solve [InverseGamma.new, Dom.InverseGamma.docErr, Dom.InverseGamma.ErrDoc]

theorem inverseGamma_new_ok_params (a b : XR) (d : InverseGamma XR) (h : InverseGamma.new a b = .ok d) :
    d = { f_shape := a, f_rate := b } ∧ InverseGamma.shape d = a ∧ InverseGamma.rate d = b := by
  unfold InverseGamma.new at h
  split_ifs at h <;> simp at h <;> subst h <;> simp [InverseGamma.shape, InverseGamma.rate]

example : Dom.InverseGamma.Domain (fin 3) (fin 1) := by norm_num [Dom.InverseGamma.Domain]
example : ¬ Dom.InverseGamma.Domain pinf (fin 1) := by norm_num [Dom.InverseGamma.Domain]

/-! ## Laplace -/

theorem laplace_new_ok_iff (l s : XR) : (∃ d, Laplace.new l s = .ok d) ↔ Dom.Laplace.Domain l s := by
  cases l <;> cases s <;> ctor_solve [Laplace.new, Dom.Laplace.Domain]

theorem laplace_new_err (l s : XR) (e : LaplaceError) (h : Laplace.new l s = .error e) :
    e = Dom.Laplace.docErr l s ∧ Dom.Laplace.ErrDoc l s e := by
  revert h
  cases l <;> cases s <;> cases e <;> ctor_solve [Laplace.new, Dom.Laplace.docErr, Dom.Laplace.ErrDoc]

theorem laplace_new_ok_params (l s : XR) (d : Laplace XR) (h : Laplace.new l s = .ok d) :
    d = { f_location := l, f_scale := s } ∧ Laplace.location d = l ∧ Laplace.scale d = s := by
  unfold Laplace.new at h
  split_ifs at h <;> simp at h <;> subst h <;> simp [Laplace.location, Laplace.scale]

example : Dom.Laplace.Domain (fin 0) (fin 1) := by norm_num [Dom.Laplace.Domain]
example : ¬ Dom.Laplace.Domain (fin 0) (fin (-1)) := by norm_num [Dom.Laplace.Domain]

/-! ## Levy -/

theorem levy_new_ok_iff (m c : XR) : (∃ d, Levy.new m c = .ok d) ↔ Dom.Levy.Domain m c := by
  cases m <;> cases c <;> ctor_solve [Levy.new, Dom.Levy.Domain]

theorem levy_new_err (m c : XR) (e : LevyError) (h : Levy.new m c = .error e) :
    e = Dom.Levy.docErr m c ∧ Dom.Levy.ErrDoc m c e := by
  revert h
  cases m <;> cases c <;> cases e <;> ctor_solve [Levy.new, Dom.Levy.docErr, Dom.Levy.ErrDoc]

theorem levy_new_ok_params (m c : XR) (d : Levy XR) (h : Levy.new m c = .ok d) :
    d = { f_mu := m, f_c := c } ∧ Levy.mu d = m ∧ Levy.c d = c := by
  unfold Levy.new at h
  split_ifs at h <;> simp at h <;> subst h <;> simp [Levy.mu, Levy.c]

example : Dom.Levy.Domain (fin 0) (fin 1) := by norm_num [Dom.Levy.Domain]
example : ¬ Dom.Levy.Domain (fin 0) (fin 0) := by norm_num [Dom.Levy.Domain]
example : ¬ Dom.Levy.Domain ninf (fin 1) := by norm_num [Dom.Levy.Domain]

/-! ## LogNormal -/

theorem logNormal_new_ok_iff (l s : XR) :
    (∃ d, LogNormal.new l s = .ok d) ↔ Dom.LogNormal.Domain l s := by
  cases l <;> cases s <;> ctor_solve [LogNormal.new, Dom.LogNormal.Domain]

theorem logNormal_new_err (l s : XR) (e : LogNormalError) (h : LogNormal.new l s = .error e) :
    e = Dom.LogNormal.docErr l s ∧ Dom.LogNormal.ErrDoc l s e := by
  revert h
  cases l <;> cases s <;> cases e <;>
    ctor_solve [LogNormal.new, Dom.LogNormal.docErr, Dom.LogNormal.ErrDoc]

theorem logNormal_new_ok_params (l s : XR) (d : LogNormal XR) (h : LogNormal.new l s = .ok d) :
    d = { f_location := l, f_scale := s } ∧ LogNormal.location d = l ∧ LogNormal.scale d = s := by
  unfold LogNormal.new at h
  split_ifs at h <;> simp at h <;> subst h <;> simp [LogNormal.location, LogNormal.scale]

example : Dom.LogNormal.Domain (fin 0) (fin 1) := by norm_num [Dom.LogNormal.Domain]
example : ¬ Dom.LogNormal.Domain (fin 0) (fin 0) := by norm_num [Dom.LogNormal.Domain]

end Statrs.Props.C09
