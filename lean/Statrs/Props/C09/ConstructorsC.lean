/-
  C09 — constructors validate their parameters (part C: NegativeBinomial, Normal, Pareto, Poisson,
  StudentsT, Triangular, Uniform, Weibull; plus `Normal::standard/default` and
  `Uniform::standard/default`).  Conventions as in ConstructorsA.lean.
-/
import Statrs.Lemmas.C09Tactic
import Statrs.Gen.D_negative_binomial
import Statrs.Gen.D_normal
import Statrs.Gen.D_pareto
import Statrs.Gen.D_poisson
import Statrs.Gen.D_students_t
import Statrs.Gen.D_triangular
import Statrs.Gen.D_uniform
import Statrs.Gen.D_weibull
set_option linter.unnecessarySeqFocus false
namespace Statrs.Props.C09
open Statrs Statrs.Gen Statrs.Spec Statrs.Spec.XR Statrs.Lemmas

/-! ## never panics (every carrier) -/
section NoPanic
variable {α : Type} [Add α] [Sub α] [Mul α] [Div α] [Neg α] [LT α] [LE α] [BEq α]
  [DecidableLT α] [DecidableLE α] [OfScientific α] [RFun α] (i₁ i₂ : Inhabited α)

theorem negativeBinomial_new_no_panic (a b : α) :
    @NegativeBinomial.new α _ _ _ _ _ _ _ _ _ _ _ i₁ _ a b
      = @NegativeBinomial.new α _ _ _ _ _ _ _ _ _ _ _ i₂ _ a b := rfl
theorem normal_new_no_panic (a b : α) :
    @Normal.new α _ _ _ _ _ _ _ _ _ _ _ i₁ _ a b = @Normal.new α _ _ _ _ _ _ _ _ _ _ _ i₂ _ a b := rfl
theorem normal_standard_no_panic :
    @Normal.standard α _ _ _ _ _ _ _ _ _ _ _ i₁ _ = @Normal.standard α _ _ _ _ _ _ _ _ _ _ _ i₂ _ := rfl
theorem normal_default_no_panic :
    @Normal.default α _ _ _ _ _ _ _ _ _ _ _ i₁ _ = @Normal.default α _ _ _ _ _ _ _ _ _ _ _ i₂ _ := rfl
theorem pareto_new_no_panic (a b : α) :
    @Pareto.new α _ _ _ _ _ _ _ _ _ _ _ i₁ _ a b = @Pareto.new α _ _ _ _ _ _ _ _ _ _ _ i₂ _ a b := rfl
theorem poisson_new_no_panic (l : α) :
    @Poisson.new α _ _ _ _ _ _ _ _ _ _ _ i₁ _ l = @Poisson.new α _ _ _ _ _ _ _ _ _ _ _ i₂ _ l := rfl
theorem studentsT_new_no_panic (a b c : α) :
    @StudentsT.new α _ _ _ _ _ _ _ _ _ _ _ i₁ _ a b c
      = @StudentsT.new α _ _ _ _ _ _ _ _ _ _ _ i₂ _ a b c := rfl
theorem triangular_new_no_panic (a b c : α) :
    @Triangular.new α _ _ _ _ _ _ _ _ _ _ _ i₁ _ a b c
      = @Triangular.new α _ _ _ _ _ _ _ _ _ _ _ i₂ _ a b c := rfl
theorem uniform_new_no_panic (a b : α) :
    @Uniform.new α _ _ _ _ _ _ _ _ _ _ _ i₁ _ a b = @Uniform.new α _ _ _ _ _ _ _ _ _ _ _ i₂ _ a b := rfl
theorem uniform_standard_no_panic :
    @Uniform.standard α _ _ _ _ _ _ _ _ _ _ _ i₁ _ = @Uniform.standard α _ _ _ _ _ _ _ _ _ _ _ i₂ _ := rfl
theorem uniform_default_no_panic :
    @Uniform.default α _ _ _ _ _ _ _ _ _ _ _ i₁ _ = @Uniform.default α _ _ _ _ _ _ _ _ _ _ _ i₂ _ := rfl
theorem weibull_new_no_panic (a b : α) :
    @Weibull.new α _ _ _ _ _ _ _ _ _ _ _ i₁ _ a b = @Weibull.new α _ _ _ _ _ _ _ _ _ _ _ i₂ _ a b := rfl
end NoPanic

/-! ## NegativeBinomial -/

theorem negativeBinomial_new_ok_iff (r p : XR) :
    (∃ d, NegativeBinomial.new r p = .ok d) ↔ Dom.NegativeBinomial.Domain r p := by
  cases r <;> cases p <;> ctor_solve [NegativeBinomial.new, Dom.NegativeBinomial.Domain]

theorem negativeBinomial_new_err (r p : XR) (e : NegativeBinomialError)
    (h : NegativeBinomial.new r p = .error e) :
    e = Dom.NegativeBinomial.docErr r p ∧ Dom.NegativeBinomial.ErrDoc r p e := by
  revert h
  cases r <;> cases p <;> cases e <;>
    ctor_solve [NegativeBinomial.new, Dom.NegativeBinomial.docErr, Dom.NegativeBinomial.ErrDoc]

theorem negativeBinomial_new_ok_params (r p : XR) (d : NegativeBinomial XR)
    (h : NegativeBinomial.new r p = .ok d) :
    d = { f_r := r, f_p := p } ∧ NegativeBinomial.r d = r ∧ NegativeBinomial.p d = p := by
  unfold NegativeBinomial.new at h
  split_ifs at h <;> simp at h <;> subst h <;> simp [NegativeBinomial.r, NegativeBinomial.p]

example : Dom.NegativeBinomial.Domain (fin 4) (fin 0.5) := by norm_num [Dom.NegativeBinomial.Domain]
example : Dom.NegativeBinomial.Domain pinf (fin 0) := by norm_num [Dom.NegativeBinomial.Domain]
example : ¬ Dom.NegativeBinomial.Domain (fin (-0.5)) (fin 5) := by
  norm_num [Dom.NegativeBinomial.Domain]

/-! ## Normal -/

theorem normal_new_ok_iff (m s : XR) : (∃ d, Normal.new m s = .ok d) ↔ Dom.Normal.Domain m s := by
  cases m <;> cases s <;> ctor_solve [Normal.new, Dom.Normal.Domain]

theorem normal_new_err (m s : XR) (e : NormalError) (h : Normal.new m s = .error e) :
    e = Dom.Normal.docErr m s ∧ Dom.Normal.ErrDoc m s e := by
  revert h
  cases m <;> cases s <;> cases e <;> ctor_solve [Normal.new, Dom.Normal.docErr, Dom.Normal.ErrDoc]

/-- `Normal` has no `mean()`/`std_dev()` getters of its own: the parameters are reported through
    the `Distribution` trait (`mean() = Some(mean)`, `std_dev() = Some(std_dev)`). -/
theorem normal_new_ok_params (m s : XR) (d : Normal XR) (h : Normal.new m s = .ok d) :
    d = { f_mean := m, f_std_dev := s } ∧ Normal.mean d = some m ∧ Normal.std_dev d = some s := by
  unfold Normal.new at h
  split_ifs at h <;> simp at h <;> subst h <;> simp [Normal.mean, Normal.std_dev]

/-- `Normal::standard()` is "a mean of 0 and a standard deviation of 1" on every carrier … -/
theorem normal_standard_eq {α : Type} [Add α] [Sub α] [Mul α] [Div α] [Neg α] [LT α] [LE α] [BEq α]
    [DecidableLT α] [DecidableLE α] [OfScientific α] [Inhabited α] [RFun α] :
    (Normal.standard : Normal α) = { f_mean := (0.0 : α), f_std_dev := (1.0 : α) } ∧
      (Normal.default : Normal α) = Normal.standard := ⟨rfl, rfl⟩

/-- … it lies in the documented domain of `new`, and is what `new(0.0, 1.0)` returns. -/
theorem normal_standard_valid :
    (Normal.standard : Normal XR) = { f_mean := fin 0, f_std_dev := fin 1 } ∧
      Dom.Normal.Domain (Normal.standard : Normal XR).f_mean (Normal.standard : Normal XR).f_std_dev ∧
      Normal.new (0.0 : XR) (1.0 : XR) = .ok Normal.standard ∧
      Normal.new (0.0 : XR) (1.0 : XR) = .ok Normal.default := by
  norm_num [Normal.standard, Normal.default, Normal.new, Dom.Normal.Domain]

example : Dom.Normal.Domain (fin 0) (fin 1) := by norm_num [Dom.Normal.Domain]
example : Dom.Normal.Domain ninf pinf := by norm_num [Dom.Normal.Domain]
example : ¬ Dom.Normal.Domain (fin 0) (fin 0) := by norm_num [Dom.Normal.Domain]

/-! ## Pareto -/

theorem pareto_new_ok_iff (s a : XR) : (∃ d, Pareto.new s a = .ok d) ↔ Dom.Pareto.Domain s a := by
  cases s <;> cases a <;> ctor_solve [Pareto.new, Dom.Pareto.Domain]

theorem pareto_new_err (s a : XR) (e : ParetoError) (h : Pareto.new s a = .error e) :
    e = Dom.Pareto.docErr s a ∧ Dom.Pareto.ErrDoc s a e := by
  revert h
  cases s <;> cases a <;> cases e <;> ctor_solve [Pareto.new, Dom.Pareto.docErr, Dom.Pareto.ErrDoc]

theorem pareto_new_ok_params (s a : XR) (d : Pareto XR) (h : Pareto.new s a = .ok d) :
    d = { f_scale := s, f_shape := a } ∧ Pareto.scale d = s ∧ Pareto.shape d = a := by
  unfold Pareto.new at h
  split_ifs at h <;> simp at h <;> subst h <;> simp [Pareto.scale, Pareto.shape]

example : Dom.Pareto.Domain (fin 1) (fin 2) := by norm_num [Dom.Pareto.Domain]
example : ¬ Dom.Pareto.Domain (fin 0) (fin 0) := by norm_num [Dom.Pareto.Domain]

/-! ## Poisson -/

theorem poisson_new_ok_iff (l : XR) : (∃ d, Poisson.new l = .ok d) ↔ Dom.Poisson.Domain l := by
  cases l <;> ctor_solve [Poisson.new, Dom.Poisson.Domain]

theorem poisson_new_err (l : XR) (e : PoissonError) (h : Poisson.new l = .error e) :
    e = Dom.Poisson.docErr l ∧ Dom.Poisson.ErrDoc l e := by
  revert h
  cases l <;> cases e <;> ctor_solve [Poisson.new, Dom.Poisson.docErr, Dom.Poisson.ErrDoc]

theorem poisson_new_ok_params (l : XR) (d : Poisson XR) (h : Poisson.new l = .ok d) :
    d = { f_lambda := l } ∧ Poisson.lambda d = l := by
  unfold Poisson.new at h
  split_ifs at h <;> simp at h <;> subst h <;> simp [Poisson.lambda]

example : Dom.Poisson.Domain (fin 1) := by norm_num [Dom.Poisson.Domain]
example : ¬ Dom.Poisson.Domain (fin 0) := by norm_num [Dom.Poisson.Domain]

/-! ## StudentsT -/

theorem studentsT_new_ok_iff (l s k : XR) :
    (∃ d, StudentsT.new l s k = .ok d) ↔ Dom.StudentsT.Domain l s k := by
  cases l <;> cases s <;> cases k <;> ctor_solve [StudentsT.new, Dom.StudentsT.Domain]

theorem studentsT_new_err (l s k : XR) (e : StudentsTError) (h : StudentsT.new l s k = .error e) :
    e = Dom.StudentsT.docErr l s k ∧ Dom.StudentsT.ErrDoc l s k e := by
  revert h
  cases l <;> cases s <;> cases k <;> cases e <;>
    ctor_solve [StudentsT.new, Dom.StudentsT.docErr, Dom.StudentsT.ErrDoc]

theorem studentsT_new_ok_params (l s k : XR) (d : StudentsT XR) (h : StudentsT.new l s k = .ok d) :
    d = { f_location := l, f_scale := s, f_freedom := k } ∧ StudentsT.location d = l ∧
      StudentsT.scale d = s ∧ StudentsT.freedom d = k := by
  unfold StudentsT.new at h
  split_ifs at h <;> simp at h <;> subst h <;>
    simp [StudentsT.location, StudentsT.scale, StudentsT.freedom]

example : Dom.StudentsT.Domain (fin 0) (fin 1) (fin 2) := by norm_num [Dom.StudentsT.Domain]
example : Dom.StudentsT.Domain (fin 0) (fin 1) pinf := by norm_num [Dom.StudentsT.Domain]
example : ¬ Dom.StudentsT.Domain (fin 0) (fin 0) (fin 0) := by norm_num [Dom.StudentsT.Domain]

/-! ## Triangular -/

theorem triangular_new_ok_iff (a b c : XR) :
    (∃ d, Triangular.new a b c = .ok d) ↔ Dom.Triangular.Domain a b c := by
  cases a <;> cases b <;> cases c <;> ctor_solve [Triangular.new, Dom.Triangular.Domain]

theorem triangular_new_err (a b c : XR) (e : TriangularError) (h : Triangular.new a b c = .error e) :
    e = Dom.Triangular.docErr a b c ∧ Dom.Triangular.ErrDoc a b c e := by
  revert h
  cases a <;> cases b <;> cases c <;> cases e <;>
    ctor_solve [Triangular.new, Dom.Triangular.docErr, Dom.Triangular.ErrDoc]

/-- (`mode` is reported through the `Mode` trait: `mode() = Some(mode)`) -/
theorem triangular_new_ok_params (a b c : XR) (d : Triangular XR) (h : Triangular.new a b c = .ok d) :
    d = { f_min := a, f_max := b, f_mode := c } ∧ Triangular.min d = a ∧ Triangular.max d = b ∧
      Triangular.mode d = some c := by
  unfold Triangular.new at h
  split_ifs at h <;> simp at h <;> subst h <;> simp [Triangular.min, Triangular.max, Triangular.mode]

example : Dom.Triangular.Domain (fin 0) (fin 5) (fin 2.5) := by norm_num [Dom.Triangular.Domain]
example : ¬ Dom.Triangular.Domain (fin 2.5) (fin 1.5) (fin 0) := by norm_num [Dom.Triangular.Domain]
example : ¬ Dom.Triangular.Domain (fin 1) (fin 1) (fin 1) := by norm_num [Dom.Triangular.Domain]

/-! ## Uniform -/

theorem uniform_new_ok_iff (a b : XR) : (∃ d, Uniform.new a b = .ok d) ↔ Dom.Uniform.Domain a b := by
  cases a <;> cases b <;> simp [Uniform.new, Dom.Uniform.Domain]
  rename_i r s
  by_cases h : r < s <;> simp [h]

theorem uniform_new_err (a b : XR) (e : UniformError) (h : Uniform.new a b = .error e) :
    e = Dom.Uniform.docErr a b ∧ Dom.Uniform.ErrDoc a b e := by
  revert h
  cases a <;> cases b <;> cases e <;> ctor_solve [Uniform.new, Dom.Uniform.docErr, Dom.Uniform.ErrDoc]

theorem uniform_new_ok_params (a b : XR) (d : Uniform XR) (h : Uniform.new a b = .ok d) :
    d = { f_min := a, f_max := b } ∧ Uniform.min d = a ∧ Uniform.max d = b := by
  unfold Uniform.new at h
  split_ifs at h <;> simp at h <;> subst h <;> simp [Uniform.min, Uniform.max]

/-- `Uniform::standard()` is "a lower bound 0 and an upper bound of 1" on every carrier … -/
theorem uniform_standard_eq {α : Type} [Add α] [Sub α] [Mul α] [Div α] [Neg α] [LT α] [LE α] [BEq α]
    [DecidableLT α] [DecidableLE α] [OfScientific α] [Inhabited α] [RFun α] :
    (Uniform.standard : Uniform α) = { f_min := (0.0 : α), f_max := (1.0 : α) } ∧
      (Uniform.default : Uniform α) = Uniform.standard := ⟨rfl, rfl⟩

/-- … it lies in the documented domain of `new`, and is what `new(0.0, 1.0)` returns. -/
theorem uniform_standard_valid :
    (Uniform.standard : Uniform XR) = { f_min := fin 0, f_max := fin 1 } ∧
      Dom.Uniform.Domain (Uniform.standard : Uniform XR).f_min (Uniform.standard : Uniform XR).f_max ∧
      Uniform.new (0.0 : XR) (1.0 : XR) = .ok Uniform.standard ∧
      Uniform.new (0.0 : XR) (1.0 : XR) = .ok Uniform.default := by
  norm_num [Uniform.standard, Uniform.default, Uniform.new, Dom.Uniform.Domain]

example : Dom.Uniform.Domain (fin 0) (fin 1) := by norm_num [Dom.Uniform.Domain]
example : ¬ Dom.Uniform.Domain nan nan := by norm_num [Dom.Uniform.Domain]
example : ¬ Dom.Uniform.Domain ninf (fin 1) := by norm_num [Dom.Uniform.Domain]

/-! ## Weibull -/

theorem weibull_new_ok_iff (k s : XR) : (∃ d, Weibull.new k s = .ok d) ↔ Dom.Weibull.Domain k s := by
  cases k <;> cases s <;> ctor_solve [Weibull.new, Dom.Weibull.Domain]

theorem weibull_new_err (k s : XR) (e : WeibullError) (h : Weibull.new k s = .error e) :
    e = Dom.Weibull.docErr k s ∧ Dom.Weibull.ErrDoc k s e := by
  revert h
  cases k <;> cases s <;> cases e <;> ctor_solve [Weibull.new, Dom.Weibull.docErr, Dom.Weibull.ErrDoc]

/-- the cached field is `scale.powf(-shape)` of the given parameters -/
theorem weibull_new_ok_params (k s : XR) (d : Weibull XR) (h : Weibull.new k s = .ok d) :
    d = { f_shape := k, f_scale := s, f_scale_pow_shape_inv := RFun.pow s (-k) } ∧
      Weibull.shape d = k ∧ Weibull.scale d = s := by
  unfold Weibull.new at h
  split_ifs at h <;> simp only [Except.ok.injEq] at h <;> subst h <;>
    simp [Weibull.shape, Weibull.scale]

example : Dom.Weibull.Domain (fin 10) (fin 1) := by norm_num [Dom.Weibull.Domain]
example : ¬ Dom.Weibull.Domain (fin 0) (fin 0) := by norm_num [Dom.Weibull.Domain]

end Statrs.Props.C09
