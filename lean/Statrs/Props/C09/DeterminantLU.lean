/-
  C09 / C19 — nalgebra's `Matrix::determinant` (hand model `LA.determinant`: closed forms for dimensions
  0–3, `LU::new(m).determinant()` with partial pivoting above) over ℝ is Mathlib's `Matrix.det`, for
  EVERY dimension:

    * `luDeterminant_eq_det` — the LU route (product of the pivots of the in-place factorisation times
      the parity of the row transpositions) computes `det m` for every square `m`, singular or not;
    * `determinant_eq_det`   — `LA.determinant m = (toMatrix n m).det`.

  Proof: after `t` elimination steps, the working matrix with the stored multipliers (strictly below the
  diagonal in columns `< t`) replaced by zeros has determinant `(-1)^{#swaps} · det m` (row swap =
  `det_permute`, the rank-one elimination = left multiplication by a unit lower-triangular matrix); a
  zero pivot means the whole remaining column is zero (`icamax` returns a maximal entry), so skipping
  the step keeps the invariant; at the end the zeroed matrix is upper triangular.
-/
import Statrs.Props.C09.CholeskyGeneral
import Statrs.Props.C09.DeterminantSmall
import Statrs.Lemmas.LUMirror
import Mathlib.LinearAlgebra.Matrix.Determinant.Basic
set_option linter.unusedSectionVars false
set_option linter.unusedVariables false
namespace Statrs.Props.C09
open Statrs Statrs.Model Statrs.Spec Statrs.Lemmas.Cholesky Statrs.Lemmas.Multivariate Matrix Finset

/-- the working matrix with the multipliers stored in columns `< t` (below the diagonal) zeroed -/
def zeroBelow (t : ℕ) (A : ℕ → ℕ → ℝ) : ℕ → ℕ → ℝ := fun r k => if k < t ∧ k < r then 0 else A r k

/-- full(ℝ): nothing is zeroed at step `0`. -/
theorem zeroBelow_zero (A : ℕ → ℕ → ℝ) : zeroBelow 0 A = A := by
  funext r k; simp [zeroBelow]

/-- full(ℝ): swapping a row with itself. -/
theorem swapF_self (A : ℕ → ℕ → ℝ) (t : ℕ) : swapF A t t = A := by
  funext r
  unfold swapF
  by_cases h : r = t
  · rw [if_pos h, h]
  · rw [if_neg h, if_neg h]

/-- full(ℝ): entrywise form of `natMat_zeroBelow_swap`. -/
theorem zeroBelow_swapF (t p : ℕ) (A : ℕ → ℕ → ℝ) (htp : t ≤ p) (r k : ℕ) :
    zeroBelow t (swapF A t p) r k = zeroBelow t A (if r = t then p else if r = p then t else r) k := by
  unfold zeroBelow swapF
  by_cases h1 : r = t
  · subst h1
    by_cases h2 : r = p
    · subst h2; simp
    · simp only [if_neg h2, if_true]
      by_cases hk : k < r
      · simp [hk, show k < p by omega]
      · simp [hk]
  · by_cases h2 : r = p
    · subst h2
      simp only [if_neg h1, if_true]
      by_cases hk : k < t
      · simp [hk, show k < r by omega]
      · simp [hk]
    · simp [h1, h2]

/-- full(ℝ): the value of `Equiv.swap` on `Fin n`. -/
theorem fin_swap_val (n t p : ℕ) (ht : t < n) (hp : p < n) (r : Fin n) :
    ((Equiv.swap (⟨t, ht⟩ : Fin n) ⟨p, hp⟩ r : Fin n) : ℕ) =
      if (r : ℕ) = t then p else if (r : ℕ) = p then t else r := by
  rw [Equiv.swap_apply_def]
  by_cases h1 : r = ⟨t, ht⟩
  · rw [if_pos h1, if_pos (by rw [h1])]
  · have h1' : (r : ℕ) ≠ t := fun h => h1 (Fin.ext h)
    rw [if_neg h1, if_neg h1']
    by_cases h2 : r = ⟨p, hp⟩
    · rw [if_pos h2, if_pos (by rw [h2])]
    · have h2' : (r : ℕ) ≠ p := fun h => h2 (Fin.ext h)
      rw [if_neg h2, if_neg h2']

/-- full(ℝ): swapping rows `t ≤ p` commutes with zeroing the multipliers of the first `t` columns -/
theorem natMat_zeroBelow_swap (n t p : ℕ) (A : ℕ → ℕ → ℝ) (ht : t < n) (hp : p < n) (htp : t ≤ p) :
    natMat n (zeroBelow t (swapF A t p)) =
      (natMat n (zeroBelow t A)).submatrix (Equiv.swap (⟨t, ht⟩ : Fin n) ⟨p, hp⟩) id := by
  ext r k
  simp only [natMat, submatrix_apply, id]
  rw [zeroBelow_swapF t p A htp, fin_swap_val]

/-- the unit lower-triangular matrix of one elimination step -/
def elimMat (n t : ℕ) (c : ℕ → ℝ) : Matrix (Fin n) (Fin n) ℝ :=
  fun r k => if r = k then 1 else if (k : ℕ) = t ∧ t < (r : ℕ) then - c r else 0

/-- full(ℝ): the elimination matrix is unit lower triangular: determinant `1`. -/
theorem elimMat_det (n t : ℕ) (c : ℕ → ℝ) : (elimMat n t c).det = 1 := by
  have hlow : (elimMat n t c).IsLowerTriangular := by
    intro r k hrk
    have hlt : r < k := by simpa using hrk
    have h1 : r ≠ k := ne_of_lt hlt
    have h2 : ¬ ((k : ℕ) = t ∧ t < (r : ℕ)) := by
      rintro ⟨h3, h4⟩
      have := Fin.lt_def.mp hlt
      omega
    simp [elimMat, h1, h2]
  rw [det_of_isLowerTriangular _ hlow]
  apply Finset.prod_eq_one
  intro i _
  simp [elimMat]

/-- full(ℝ): left multiplication by the elimination matrix subtracts multiples of row `t` from the rows below. -/
theorem elimMat_mul (n t : ℕ) (ht : t < n) (c : ℕ → ℝ) (R : Matrix (Fin n) (Fin n) ℝ) (r k : Fin n) :
    (elimMat n t c * R) r k = R r k - (if t < (r : ℕ) then c r * R ⟨t, ht⟩ k else 0) := by
  have hE : elimMat n t c =
      1 + Matrix.of (fun r k : Fin n => if (k : ℕ) = t ∧ t < (r : ℕ) then - c r else 0) := by
    ext r k
    simp only [elimMat, Matrix.add_apply, Matrix.one_apply, Matrix.of_apply]
    by_cases h : r = k
    · subst h
      rw [if_pos rfl, if_pos rfl, if_neg (by omega), add_zero]
    · rw [if_neg h, if_neg h, zero_add]
  rw [hE, Matrix.add_mul, Matrix.one_mul, Matrix.add_apply, Matrix.mul_apply,
    Finset.sum_eq_single (⟨t, ht⟩ : Fin n)]
  · by_cases h : t < (r : ℕ)
    · simp [h]; ring
    · simp [h]
  · intro j _ hj
    have : (j : ℕ) ≠ t := fun h => hj (Fin.ext h)
    simp [this]
  · intro h; exact absurd (Finset.mem_univ _) h

/-- full(ℝ): the elimination step, on the zeroed matrices, is left multiplication by `elimMat` -/
theorem natMat_zeroBelow_gauss (n t : ℕ) (A : ℕ → ℕ → ℝ) (ht : t < n) (hd : A t t ≠ 0) :
    natMat n (zeroBelow (t + 1) (gaussF A (A t t) t)) =
      elimMat n t (fun r => A r t * (1 / A t t)) * natMat n (zeroBelow t A) := by
  ext r k
  rw [elimMat_mul n t ht]
  simp only [natMat, zeroBelow, gaussF]
  by_cases hrt : (r : ℕ) ≤ t
  · rw [if_pos hrt, if_neg (by omega : ¬ t < (r : ℕ)), sub_zero]
    by_cases hk : (k : ℕ) < r
    · rw [if_pos ⟨by omega, hk⟩, if_pos ⟨by omega, hk⟩]
    · rw [if_neg (fun h => hk h.2), if_neg (fun h => hk h.2)]
  · rw [if_neg hrt, if_pos (by omega : t < (r : ℕ))]
    by_cases hk1 : (k : ℕ) < t
    · rw [if_pos (show (k : ℕ) < t + 1 ∧ (k : ℕ) < r from ⟨by omega, by omega⟩),
        if_pos (show (k : ℕ) < t ∧ (k : ℕ) < r from ⟨hk1, by omega⟩),
        if_pos (show (k : ℕ) < t ∧ (k : ℕ) < t from ⟨hk1, hk1⟩)]
      ring
    · rw [if_neg (show ¬ ((k : ℕ) < t ∧ (k : ℕ) < r) from fun h => hk1 h.1),
        if_neg (show ¬ ((k : ℕ) < t ∧ (k : ℕ) < t) from fun h => hk1 h.1), if_neg hk1]
      by_cases hk2 : (k : ℕ) = t
      · rw [if_pos (show (k : ℕ) < t + 1 ∧ (k : ℕ) < r from ⟨by omega, by omega⟩), hk2]
        field_simp
        ring
      · rw [if_neg (show ¬ ((k : ℕ) < t + 1 ∧ (k : ℕ) < r) from fun h => by omega), if_neg hk2]
        ring

/-- full(ℝ): one step of the LU factorisation keeps `det(zeroed working matrix) · (-1)^{#swaps}` -/
theorem luStepF_det (n t : ℕ) (ht : t < n) (st : (ℕ → ℕ → ℝ) × ℕ) :
    (natMat n (zeroBelow (t + 1) (luStepF n st t).1)).det * (-1) ^ (luStepF n st t).2 =
      (natMat n (zeroBelow t st.1)).det * (-1) ^ st.2 := by
  obtain ⟨hp1, hp2, hmax⟩ := pivIdx_spec n st.1 t ht
  unfold luStepF
  by_cases h0 : st.1 (pivIdx n st.1 t) t = 0
  · rw [if_pos h0]
    congr 2
    ext r k
    simp only [natMat, zeroBelow]
    by_cases hc : (k : ℕ) < t ∧ (k : ℕ) < r
    · rw [if_pos hc, if_pos ⟨by omega, hc.2⟩]
    · rw [if_neg hc]
      by_cases hc' : (k : ℕ) < t + 1 ∧ (k : ℕ) < r
      · rw [if_pos hc']
        have hkt : (k : ℕ) = t := by omega
        have := hmax r (by omega) r.2
        rw [h0, abs_zero] at this
        rw [hkt]
        exact (abs_nonpos_iff.mp this).symm
      · rw [if_neg hc']
  · rw [if_neg h0]
    set p := pivIdx n st.1 t with hp
    have hA' : ∀ (A' : ℕ → ℕ → ℝ), A' t t = st.1 p t →
        (natMat n (zeroBelow (t + 1) (gaussF A' (st.1 p t) t))).det = (natMat n (zeroBelow t A')).det := by
      intro A' hA
      rw [← hA, natMat_zeroBelow_gauss n t A' ht (by rw [hA]; exact h0), det_mul, elimMat_det, one_mul]
    by_cases hne : p ≠ t
    · rw [if_pos hne]
      simp only
      rw [hA' (swapF st.1 t p) (by simp [swapF, hne.symm]), natMat_zeroBelow_swap n t p st.1 ht hp2 hp1,
        det_permute, Equiv.Perm.sign_swap (by intro h; exact hne (Fin.mk.inj h).symm)]
      simp only [Units.val_neg, Units.val_one, Int.cast_neg, Int.cast_one, pow_succ]
      ring
    · rw [if_neg hne]
      have hpt : p = t := not_not.mp hne
      simp only
      rw [hA' st.1 (by rw [hpt])]

/-- full(ℝ): the determinant invariant after `t` steps of the LU mirror. -/
theorem luFold_det (n : ℕ) (M : ℕ → ℕ → ℝ) : ∀ t, t ≤ n →
    (natMat n (zeroBelow t ((List.range t).foldl (luStepF n) (M, 0)).1)).det *
      (-1) ^ ((List.range t).foldl (luStepF n) (M, 0)).2 = (natMat n M).det := by
  intro t
  induction t with
  | zero => intro _; simp [zeroBelow_zero]
  | succ t ih =>
    intro ht
    rw [List.range_succ, List.foldl_append]
    simp only [List.foldl_cons, List.foldl_nil]
    rw [luStepF_det n t (by omega), ih (by omega)]

/-- full(ℝ): at the end the zeroed working matrix is upper triangular: its determinant is the product of the
    diagonal of the packed factorisation -/
theorem det_zeroBelow_full (n : ℕ) (A : ℕ → ℕ → ℝ) :
    (natMat n (zeroBelow n A)).det = ∏ i ∈ range n, A i i := by
  have hup : (natMat n (zeroBelow n A)).IsUpperTriangular := by
    intro r k hkr
    have : (k : ℕ) < r := by simpa using hkr
    simp [natMat, zeroBelow, this]
  rw [det_of_isUpperTriangular hup, ← Fin.prod_univ_eq_prod_range (fun i => A i i) n]
  apply Finset.prod_congr rfl
  intro i _
  simp [natMat, zeroBelow]

/-- full(ℝ): nalgebra's `LU::new(m).determinant()` is `det m`, for every square `m`. -/
theorem luDeterminant_eq_det {n : ℕ} {m : List (List ℝ)} (hlen : m.length = n)
    (hrow : ∀ r ∈ m, r.length = n) : LA.luDeterminant m = (toMatrix n m).det := by
  conv_lhs => rw [eq_ofFn_ent ⟨hlen, hrow⟩]
  rw [luDeterminant_ofFn, ← det_zeroBelow_full, toMatrix_eq_natMat]
  exact luFold_det n (ent m) n le_rfl

/-- full(ℝ): nalgebra's `Matrix::determinant` is Mathlib's determinant, in every dimension. -/
theorem determinant_eq_det {n : ℕ} {m : List (List ℝ)} (hlen : m.length = n)
    (hrow : ∀ r ∈ m, r.length = n) : LA.determinant m = (toMatrix n m).det := by
  by_cases hn : n ≤ 3
  · exact determinant_eq_det_small hlen hn
  · rw [← luDeterminant_eq_det hlen hrow]
    obtain ⟨k, rfl⟩ : ∃ k, n = k + 4 := ⟨n - 4, by omega⟩
    simp only [LA.determinant, hlen]

/-- full(ℝ): `Spec.CovSpec` — on a symmetric matrix accepted by `Cholesky::new` the determinant computed
    by `LA.determinant` is positive. -/
theorem covSpec_of_cholesky {cov l : List (List ℝ)} (hsq : LA.isSquare cov = true)
    (hsym : (toMatrix cov.length cov).IsSymm) (h : LA.choleskyNew cov = some l) : CovSpec cov := by
  have hrow : ∀ r ∈ cov, r.length = cov.length := by
    unfold LA.isSquare at hsq
    rw [List.all_eq_true] at hsq
    intro r hr
    simpa using hsq r hr
  refine ⟨?_⟩
  rw [determinant_eq_det rfl hrow]
  exact (choleskyNew_det_pos rfl hrow hsym h).1

/-! ### non-vacuity: a 4×4 instance goes through the LU branch -/
example : LA.determinant ([[2, 0, 0, 0], [0, 1, 0, 0], [0, 0, 1, 0], [0, 0, 0, 1]] : List (List ℝ)) =
    (toMatrix 4 [[2, 0, 0, 0], [0, 1, 0, 0], [0, 0, 1, 0], [0, 0, 0, 1]]).det :=
  determinant_eq_det rfl (by simp)

end Statrs.Props.C09
