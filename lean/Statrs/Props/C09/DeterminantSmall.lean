/-
  C09 / C19 — `LA.determinant` (nalgebra `Matrix::determinant`) for dimensions 0–3 (the closed forms of
  linalg/determinant.rs) is Mathlib's `Matrix.det` over ℝ.  (Dimensions ≥ 4 go through the LU
  factorisation: `Draft/C09/DeterminantLU`.)
-/
import Statrs.Spec.LinAlgSpec
import Mathlib.LinearAlgebra.Matrix.Determinant.Basic
set_option linter.unusedSectionVars false
set_option linter.unusedVariables false
namespace Statrs.Props.C09
open Statrs Statrs.Model Statrs.Spec Matrix

/-- full(ℝ): for `n ≤ 3` nalgebra's closed-form determinant is `Matrix.det`. -/
theorem determinant_eq_det_small {n : ℕ} {m : List (List ℝ)} (hlen : m.length = n) (hn : n ≤ 3) :
    LA.determinant m = (toMatrix n m).det := by
  interval_cases n
  · simp [LA.determinant, hlen, Statrs.Lemmas.Multivariate.lit1]
  · simp [LA.determinant, hlen, det_unique, toMatrix]
  · simp [LA.determinant, hlen, det_fin_two, toMatrix]
    ring
  · simp [LA.determinant, hlen, det_fin_three, toMatrix]
    ring

end Statrs.Props.C09
