/-
  C09 — accessor round trip of `Erlang` over the IEEE carrier `Float` (bit-compatible with `f64`).

  `Erlang::new(shape: u64, rate)` stores `shape as f64` and `Erlang::shape()` returns
  `self.g.shape() as u64`.  On the exact carrier `XR` the round trip is the identity
  (`erlang_new_ok_params`, ConstructorsA.lean); with real `f64` rounding it is NOT for
  `shape > 2^53`: the clause "an Ok value reports through its accessors exactly the parameters it
  was given" of C09 fails for `Erlang::shape`.  Proved by kernel evaluation (`decide`) of the
  generated model at `Float`.
-/
import Statrs.Inst.Float
import Statrs.Gen.D_erlang
namespace Statrs.Props.C09
open Statrs Statrs.Gen

/-- `Erlang::new(2^53 + 1, 1.0)` is `Ok`, and its `shape()` is `2^53`, not the `2^53 + 1` given. -/
theorem erlang_shape_roundtrip_counterexample :
    exceptToOption (exceptMap (fun d => Erlang.shape d)
        (Erlang.new (α := Float) 9007199254740993 1.0)) = some 9007199254740992 ∧
      (9007199254740992 : Int) ≠ 9007199254740993 := by
  decide

/-- below `2^53` the same evaluation returns the given shape (the statement above is not an
    artefact of the `Float` instance) -/
example :
    exceptToOption (exceptMap (fun d => Erlang.shape d)
        (Erlang.new (α := Float) 9007199254740991 1.0)) = some 9007199254740991 := by
  decide

end Statrs.Props.C09
