/-
  C09 (float level) — constructors validate their parameters, over EVERY carrier satisfying the IEEE order laws,
  hence over `Float` = `f64` (part A: Bernoulli, Beta, Binomial, Cauchy, Chi, ChiSquared, Dirac, DiscreteUniform,
  Erlang, Exp).

  The theorems of `Props/C09/Constructors{A,B,C}.lean` are over the rounding-free carrier `XR`.  Constructors only
  classify and compare, so the same statements hold for every `α` with `OrderLaws α` and `LitLaws α`
  (`Statrs/Spec/FloatLaws.lean`); the documented domains are `FDom.X.Domain/ErrDoc/docErr`
  (`Draft/C09/FloatDomain.lean`: the documented sentences written with `RFun.isNaN`, `RFun.isInf`, `≤`, `<`, `==`
  on `α`; equal to `Dom.X.*` at `α = XR` by `FloatDomainXR.lean`).  For every family `X` and ALL arguments:
    * `x_new_ok_iff_fl`     — `X.new args` is `Ok` exactly on the documented domain;
    * `x_new_err_fl`        — an `Err(e)` carries the documented variant and its documented condition holds;
    * `x_new_ok_params_gen` — an `Ok(d)` stores the arguments it was given (no law needed at all).
  Two constructors compute before they classify, and there `f64` differs from `XR`:
    * `ChiSquared::new(k)` validates `k / 2.0`: `ok ↔ Domain k ∧ k/2 ≠ 0` (`chiSquared_new_ok_iff_fl`, needs the
      full `FloatLaws`); on `Float` the smallest subnormal is in the documented domain but is REJECTED
      (`FloatConstructorsInst.chiSquared_new_underflow_counterexample`);
    * `Erlang::new(k, r)` validates `k as f64`: same domain as documented for every `u64` (`OfIntLaws`), but the
      accessor round trip is lossy above `2^53` (`Props/C09/ErlangFloat.lean`).
-/
import Statrs.Props.C09.FloatDomain
import Statrs.Lemmas.FloatCtorTactic
import Statrs.Lemmas.FloatLawsBasic
import Statrs.Gen.D_bernoulli
import Statrs.Gen.D_beta
import Statrs.Gen.D_binomial
import Statrs.Gen.D_cauchy
import Statrs.Gen.D_chi
import Statrs.Gen.D_chi_squared
import Statrs.Gen.D_dirac
import Statrs.Gen.D_discrete_uniform
import Statrs.Gen.D_erlang
import Statrs.Gen.D_exponential
set_option linter.unnecessarySeqFocus false
set_option linter.unusedSectionVars false
set_option linter.unusedVariables false
namespace Statrs.Props.C09
open Statrs Statrs.Gen Statrs.Spec Statrs.Lemmas

variable {α : Type} [Add α] [Sub α] [Mul α] [Div α] [Neg α] [LT α] [LE α] [BEq α]
  [DecidableLT α] [DecidableLE α] [OfScientific α] [Inhabited α] [RFun α]

/-! ## Bernoulli -/

/-- full(∀α): `Bernoulli::new(p)` is `Ok` exactly when `p` is not NaN, not `< 0.0` and not `> 1.0` -/
theorem bernoulli_new_ok_iff_fl (O : OrderLaws α) (T : LitLaws α) (p : α) :
    (∃ d, Bernoulli.new p = .ok d) ↔ FDom.Bernoulli.Domain p := by
  order_facts O T
  fctor [Bernoulli.new, Binomial.new, FDom.Bernoulli.Domain]

/-- full(∀α): an `Err(e)` of `Bernoulli::new` is the documented variant and its documented condition holds -/
theorem bernoulli_new_err_fl (O : OrderLaws α) (T : LitLaws α) (p : α) (e : BinomialError)
    (h : Bernoulli.new p = .error e) : e = FDom.Bernoulli.docErr p ∧ FDom.Bernoulli.ErrDoc p e := by
  order_facts O T
  revert h
  cases e <;> fctor [Bernoulli.new, Binomial.new, FDom.Bernoulli.docErr, FDom.Bernoulli.ErrDoc]

/-- full(∀α): an `Ok(d)` of `Bernoulli::new(p)` stores `p` (and `n = 1`) -/
theorem bernoulli_new_ok_params_gen (p : α) (d : Bernoulli α) (h : Bernoulli.new p = .ok d) :
    d.f_b = { f_p := p, f_n := 1 } ∧ Bernoulli.p d = p ∧ Bernoulli.n d = 1 := by
  unfold Bernoulli.new Binomial.new at h
  split_ifs at h <;> simp [exceptMap] at h <;> subst h <;> simp [Bernoulli.p, Bernoulli.n, Binomial.p]

/-! ## Beta -/

/-- full(∀α): `Beta::new(a, b)` is `Ok` exactly on the documented domain (no law needed: the code tests the
    documented clauses literally) -/
theorem beta_new_ok_iff_fl (a b : α) : (∃ d, Beta.new a b = .ok d) ↔ FDom.Beta.Domain a b := by
  fctor [Beta.new, FDom.Beta.Domain]

/-- full(∀α): an `Err(e)` of `Beta::new` is the documented variant and its documented condition holds -/
theorem beta_new_err_fl (a b : α) (e : BetaError) (h : Beta.new a b = .error e) :
    e = FDom.Beta.docErr a b ∧ FDom.Beta.ErrDoc a b e := by
  revert h
  cases e <;> fctor [Beta.new, FDom.Beta.docErr, FDom.Beta.ErrDoc]

/-- full(∀α): an `Ok(d)` of `Beta::new(a, b)` stores `a`, `b` -/
theorem beta_new_ok_params_gen (a b : α) (d : Beta α) (h : Beta.new a b = .ok d) :
    d = { f_shape_a := a, f_shape_b := b } ∧ Beta.shape_a d = a ∧ Beta.shape_b d = b := by
  unfold Beta.new at h
  split_ifs at h <;> simp at h <;> subst h <;> simp [Beta.shape_a, Beta.shape_b]

/-! ## Binomial (`n : u64`) -/

/-- full(∀α): `Binomial::new(p, n)` is `Ok` exactly on the documented domain -/
theorem binomial_new_ok_iff_fl (O : OrderLaws α) (T : LitLaws α) (p : α) (n : Int) (hn : 0 ≤ n) :
    (∃ d, Binomial.new p n = .ok d) ↔ FDom.Binomial.Domain p n := by
  order_facts O T
  fctor [Binomial.new, FDom.Binomial.Domain]

/-- full(∀α): an `Err(e)` of `Binomial::new` is the documented variant and its documented condition holds -/
theorem binomial_new_err_fl (O : OrderLaws α) (T : LitLaws α) (p : α) (n : Int) (e : BinomialError)
    (h : Binomial.new p n = .error e) : e = FDom.Binomial.docErr p n ∧ FDom.Binomial.ErrDoc p n e := by
  order_facts O T
  revert h
  cases e <;> fctor [Binomial.new, FDom.Binomial.docErr, FDom.Binomial.ErrDoc]

/-- full(∀α): an `Ok(d)` of `Binomial::new(p, n)` stores `p`, `n` -/
theorem binomial_new_ok_params_gen (p : α) (n : Int) (d : Binomial α) (h : Binomial.new p n = .ok d) :
    d = { f_p := p, f_n := n } ∧ Binomial.p d = p ∧ Binomial.n d = n := by
  unfold Binomial.new at h
  split_ifs at h <;> simp at h <;> subst h <;> simp [Binomial.p, Binomial.n]

/-! ## Cauchy -/

/-- full(∀α): `Cauchy::new(location, scale)` is `Ok` exactly on the documented domain -/
theorem cauchy_new_ok_iff_fl (l s : α) : (∃ d, Cauchy.new l s = .ok d) ↔ FDom.Cauchy.Domain l s := by
  fctor [Cauchy.new, FDom.Cauchy.Domain]

/-- full(∀α): an `Err(e)` of `Cauchy::new` is the documented variant and its documented condition holds -/
theorem cauchy_new_err_fl (l s : α) (e : CauchyError) (h : Cauchy.new l s = .error e) :
    e = FDom.Cauchy.docErr l s ∧ FDom.Cauchy.ErrDoc l s e := by
  revert h
  cases e <;> fctor [Cauchy.new, FDom.Cauchy.docErr, FDom.Cauchy.ErrDoc]

/-- full(∀α): an `Ok(d)` of `Cauchy::new(l, s)` stores `l`, `s` -/
theorem cauchy_new_ok_params_gen (l s : α) (d : Cauchy α) (h : Cauchy.new l s = .ok d) :
    d = { f_location := l, f_scale := s } ∧ Cauchy.location d = l ∧ Cauchy.scale d = s := by
  unfold Cauchy.new at h
  split_ifs at h <;> simp at h <;> subst h <;> simp [Cauchy.location, Cauchy.scale]

/-! ## Chi (`freedom : u64`; no float parameter: the carrier is a phantom) -/

/-- full(∀α): `Chi::new(k)` is `Ok` exactly for `k ≠ 0`, whatever the carrier -/
theorem chi_new_ok_iff_fl (k : Int) : (∃ d, Chi.new (α := α) k = .ok d) ↔ FDom.Chi.Domain k := by
  by_cases hk : k = 0 <;> simp [Chi.new, FDom.Chi.Domain, hk]

/-- full(∀α): an `Err(e)` of `Chi::new` is the documented variant and its documented condition holds -/
theorem chi_new_err_fl (k : Int) (e : ChiError) (h : Chi.new (α := α) k = .error e) :
    e = FDom.Chi.docErr k ∧ FDom.Chi.ErrDoc k e := by
  revert h
  by_cases hk : k = 0 <;> cases e <;> simp [Chi.new, FDom.Chi.docErr, FDom.Chi.ErrDoc, hk]

/-- full(∀α): an `Ok(d)` of `Chi::new(k)` stores `k` -/
theorem chi_new_ok_params_gen (k : Int) (d : Chi) (h : Chi.new (α := α) k = .ok d) :
    d = { f_freedom := k } ∧ Chi.freedom (α := α) d = k := by
  revert h
  by_cases hk : k = 0 <;> simp [Chi.new, Chi.freedom, hk]
  rintro rfl; simp

/-! ## ChiSquared (= Gamma(freedom / 2.0, 0.5)): the constructor DIVIDES before it validates -/

section ChiSquared
variable (L : FloatLaws α)
include L

/-- full(∀α): `freedom / 2.0` is NaN exactly when `freedom` is -/
theorem half_nan_iff (k : α) : RFun.isNaN (k / (2.0 : α)) = true ↔ RFun.isNaN k = true := by
  constructor
  · intro h
    rcases L.nan.div_nan _ _ h with h1 | h1 | ⟨_, h2⟩ | ⟨_, h2⟩
    · exact h1
    · have := L.two_nn; simp [NN, h1] at this
    · exact absurd h2 (L.pos_not_beq_zero L.zero_lt_two)
    · have := L.fin_not_inf L.two_fin; simp [h2] at this
  · exact fun h => L.div_nan_left _ h

/-- full(∀α): `k ≤ 0 ⇒ k / 2.0 ≤ 0` -/
theorem half_nonpos {k : α} (h : k ≤ (0.0 : α)) : k / (2.0 : α) ≤ (0.0 : α) := by
  have h2 := L.pos_not_beq_zero L.zero_lt_two
  have hz : ((0.0 : α) / (2.0 : α) == (0.0 : α)) = true := L.exact.zero_div _ L.two_nn h2
  have hn : NN (k / (2.0 : α)) := L.div_nn (L.le_nnl h) L.two_nn h2 (Or.inr L.two_fin)
  exact L.le_of_le_of_beq (L.mono.div_le_div_right _ _ _ h L.zero_lt_two hn (L.beq_nnl hz)) hz

/-- full(∀α): `0 < k ⇒ 0 ≤ k / 2.0` (the half can underflow to zero, it cannot become negative) -/
theorem half_nonneg {k : α} (h : (0.0 : α) < k) : (0.0 : α) ≤ k / (2.0 : α) :=
  L.div_nonneg (L.lt_le h) L.zero_lt_two (Or.inr L.two_fin)

/-- full(∀α): `ChiSquared::new(k)` is `Ok` exactly when `k` is not NaN and `k / 2.0` is not `≤ 0.0` (what the
    code tests: the arguments of the underlying `Gamma::new(k / 2.0, 0.5)`) -/
theorem chiSquared_new_ok_iff_half_fl (k : α) :
    (∃ d, ChiSquared.new k = .ok d) ↔ (¬ RFun.isNaN k = true ∧ ¬ k / (2.0 : α) ≤ (0.0 : α)) := by
  have hn := half_nan_iff L k
  have h1 : ¬ RFun.isNaN (0.5 : α) = true := (L.nn_iff _).1 L.half_nn
  have h2 : ¬ (0.5 : α) ≤ (0.0 : α) := L.lt_not_le L.zero_lt_half
  have h3 : ¬ RFun.isInf (0.5 : α) = true := by rw [L.fin_not_inf L.half_fin]; simp
  unfold ChiSquared.new Gamma.new
  split_ifs <;> simp only [exceptMap] <;> grind

/-- full(∀α): `ChiSquared::new(k)` is `Ok` exactly on the documented domain MINUS the arguments whose half
    rounds to zero:  `ok ↔ (k not NaN ∧ ¬ k ≤ 0) ∧ ¬ (k / 2.0 == 0.0)`.  On an exact carrier the last clause is
    implied by the first two; on `f64` it excludes the smallest subnormal `5e-324`
    (`chiSquared_new_underflow_counterexample`). -/
theorem chiSquared_new_ok_iff_fl (k : α) :
    (∃ d, ChiSquared.new k = .ok d) ↔
      (FDom.ChiSquared.Domain k ∧ ¬ ((k / (2.0 : α)) == (0.0 : α)) = true) := by
  rw [chiSquared_new_ok_iff_half_fl L k]
  unfold FDom.ChiSquared.Domain
  constructor
  · rintro ⟨h1, h2⟩
    exact ⟨⟨h1, fun h => h2 (half_nonpos L h)⟩, fun h => h2 (L.beq_le h)⟩
  · rintro ⟨⟨h1, h2⟩, h3⟩
    refine ⟨h1, fun h => h3 ?_⟩
    have hk : (0.0 : α) < k := L.lt_of_not_le L.zero_nn ((L.nn_iff _).2 h1) h2
    exact L.beq_of_le_le h (half_nonneg L hk)

/-- partial(the converse fails on `f64` when `k / 2.0` underflows to zero — see
    `chiSquared_new_underflow_counterexample`): an `Ok` `ChiSquared::new(k)` has `k` in the documented domain -/
theorem chiSquared_new_ok_imp_domain_fl_partial (k : α) (h : ∃ d, ChiSquared.new k = .ok d) :
    FDom.ChiSquared.Domain k := ((chiSquared_new_ok_iff_fl L k).1 h).1

/-- full(∀α): an `Err(e)` of `ChiSquared::new(k)` is always `ShapeInvalid` (the documented variant), and then
    `k` is NaN, or `k ≤ 0` (the documented condition), or `k / 2.0` has underflowed to zero (NOT documented) -/
theorem chiSquared_new_err_fl (k : α) (e : GammaError) (h : ChiSquared.new k = .error e) :
    e = FDom.ChiSquared.docErr k ∧
      (FDom.ChiSquared.ErrDoc k e ∨ ((k / (2.0 : α)) == (0.0 : α)) = true) := by
  have hok := chiSquared_new_ok_iff_fl L k
  have hn := half_nan_iff L k
  have h1 : ¬ RFun.isNaN (0.5 : α) = true := (L.nn_iff _).1 L.half_nn
  have h2 : ¬ (0.5 : α) ≤ (0.0 : α) := L.lt_not_le L.zero_lt_half
  have h3 : ¬ RFun.isInf (0.5 : α) = true := by rw [L.fin_not_inf L.half_fin]; simp
  have hnot : ¬ ∃ d, ChiSquared.new k = .ok d := by rintro ⟨d, hd⟩; rw [hd] at h; cases h
  have hcases : e = GammaError.ShapeInvalid := by
    revert h
    unfold ChiSquared.new Gamma.new
    split_ifs <;> simp only [exceptMap] <;> grind
  subst hcases
  refine ⟨rfl, ?_⟩
  rw [hok] at hnot
  unfold FDom.ChiSquared.Domain at hnot
  unfold FDom.ChiSquared.ErrDoc
  by_cases hb : ((k / (2.0 : α)) == (0.0 : α)) = true
  · exact Or.inr hb
  · left
    by_cases hk : RFun.isNaN k = true
    · exact Or.inl hk
    · right
      by_contra hle
      exact hnot ⟨⟨hk, hle⟩, hb⟩
end ChiSquared

/-- full(∀α): an `Ok(d)` of `ChiSquared::new(k)` stores `k` and the Gamma parameters `(k / 2.0, 0.5)` -/
theorem chiSquared_new_ok_params_gen (k : α) (d : ChiSquared α) (h : ChiSquared.new k = .ok d) :
    d = { f_freedom := k, f_g := { f_shape := k / (2.0 : α), f_rate := (0.5 : α) } } ∧
      ChiSquared.freedom d = k ∧ ChiSquared.shape d = k / (2.0 : α) ∧ ChiSquared.rate d = (0.5 : α) := by
  unfold ChiSquared.new Gamma.new at h
  split_ifs at h <;> simp only [exceptMap] at h <;> simp only [Except.ok.injEq, reduceCtorEq] at h <;>
    subst h <;> simp [ChiSquared.freedom, ChiSquared.shape, ChiSquared.rate, Gamma.shape, Gamma.rate]

/-! ## Dirac -/

/-- full(∀α): `Dirac::new(v)` is `Ok` exactly when `v` is not NaN -/
theorem dirac_new_ok_iff_fl (v : α) : (∃ d, Dirac.new v = .ok d) ↔ FDom.Dirac.Domain v := by
  fctor [Dirac.new, FDom.Dirac.Domain]

/-- full(∀α): an `Err(e)` of `Dirac::new` is the documented variant and its documented condition holds -/
theorem dirac_new_err_fl (v : α) (e : DiracError) (h : Dirac.new v = .error e) :
    e = FDom.Dirac.docErr v ∧ FDom.Dirac.ErrDoc v e := by
  revert h
  cases e <;> fctor [Dirac.new, FDom.Dirac.docErr, FDom.Dirac.ErrDoc]

/-- full(∀α): an `Ok(d)` of `Dirac::new(v)` stores `v` -/
theorem dirac_new_ok_params_gen (v : α) (d : Dirac α) (h : Dirac.new v = .ok d) :
    d = { f_0 := v } ∧ Dirac.v d = v := by
  unfold Dirac.new at h
  split_ifs at h <;> simp at h <;> subst h <;> simp [Dirac.v]

/-! ## DiscreteUniform (`min, max : i64`; the carrier is a phantom) -/

/-- full(∀α): `DiscreteUniform::new(min, max)` is `Ok` exactly for `¬ max < min` -/
theorem discreteUniform_new_ok_iff_fl (a b : Int) :
    (∃ d, DiscreteUniform.new (α := α) a b = .ok d) ↔ FDom.DiscreteUniform.Domain a b := by
  by_cases hab : b < a <;> simp [DiscreteUniform.new, FDom.DiscreteUniform.Domain, hab]

/-- full(∀α): an `Err(e)` of `DiscreteUniform::new` is the documented variant with its documented condition -/
theorem discreteUniform_new_err_fl (a b : Int) (e : DiscreteUniformError)
    (h : DiscreteUniform.new (α := α) a b = .error e) :
    e = FDom.DiscreteUniform.docErr a b ∧ FDom.DiscreteUniform.ErrDoc a b e := by
  revert h
  by_cases hab : b < a <;> cases e <;>
    simp [DiscreteUniform.new, FDom.DiscreteUniform.docErr, FDom.DiscreteUniform.ErrDoc, hab]

/-- full(∀α): an `Ok(d)` of `DiscreteUniform::new(a, b)` stores `a`, `b` -/
theorem discreteUniform_new_ok_params_gen (a b : Int) (d : DiscreteUniform)
    (h : DiscreteUniform.new (α := α) a b = .ok d) :
    d = { f_min := a, f_max := b } ∧ DiscreteUniform.min (α := α) d = a ∧
      DiscreteUniform.max (α := α) d = b := by
  unfold DiscreteUniform.new at h
  split_ifs at h <;> simp at h <;> subst h <;> simp [DiscreteUniform.min, DiscreteUniform.max]

/-! ## Erlang (`shape : u64`; = Gamma(shape as f64, rate)): the constructor CONVERTS before it validates -/

section Erlang
variable (L : FloatLaws α)
include L

/-- full(∀α): for a `u64` (indeed for `0 ≤ k ≤ 2^64`) `k as f64 ≤ 0.0` holds exactly for `k = 0` -/
theorem ofInt_le_zero_iff (k : Int) (h0 : 0 ≤ k) (h1 : k ≤ 2 ^ 64) :
    (RFun.ofInt k : α) ≤ (0.0 : α) ↔ k = 0 := by
  constructor
  · intro h
    by_contra hk
    have hk1 : (1 : Int) ≤ k := by omega
    have hm : (RFun.ofInt 1 : α) ≤ RFun.ofInt k := L.ofInt.ofInt_mono 1 k (by norm_num) hk1 h1
    have h01 : (0.0 : α) < RFun.ofInt 1 := L.lt_of_lt_of_beq L.zero_lt_one (L.beq_symm L.ofInt.ofInt_one)
    exact L.lt_not_le (L.lt_of_lt_of_le' h01 hm) h
  · rintro rfl
    exact L.beq_le L.ofInt.ofInt_zero

/-- full(∀α): `Erlang::new(k, r)` is `Ok` exactly on the documented domain (`k ≠ 0`, `r` not NaN, `¬ r ≤ 0`) for
    every `u64` `k`: the conversion `k as f64` is finite, and positive unless `k = 0` -/
theorem erlang_new_ok_iff_fl (k : Int) (r : α) (hk : 0 ≤ k) (hk' : k ≤ 2 ^ 64) :
    (∃ d, Erlang.new k r = .ok d) ↔ FDom.Erlang.Domain k r := by
  have hf := L.ofInt.ofInt_fin k (by omega) hk'
  have h1 : ¬ RFun.isNaN (RFun.ofInt k : α) = true := (L.nn_iff _).1 (L.fin_nn' hf)
  have h2 : ¬ RFun.isInf (RFun.ofInt k : α) = true := by rw [L.fin_not_inf hf]; simp
  have h3 := ofInt_le_zero_iff L k hk hk'
  unfold Erlang.new Gamma.new FDom.Erlang.Domain
  split_ifs <;> simp only [exceptMap] <;> grind

/-- full(∀α): an `Err(e)` of `Erlang::new(k, r)` (`k : u64`) is the documented variant and its documented
    condition holds -/
theorem erlang_new_err_fl (k : Int) (r : α) (hk : 0 ≤ k) (hk' : k ≤ 2 ^ 64) (e : GammaError)
    (h : Erlang.new k r = .error e) : e = FDom.Erlang.docErr k r ∧ FDom.Erlang.ErrDoc k r e := by
  have hf := L.ofInt.ofInt_fin k (by omega) hk'
  have h1 : ¬ RFun.isNaN (RFun.ofInt k : α) = true := (L.nn_iff _).1 (L.fin_nn' hf)
  have h2 : ¬ RFun.isInf (RFun.ofInt k : α) = true := by rw [L.fin_not_inf hf]; simp
  have h3 := ofInt_le_zero_iff L k hk hk'
  revert h
  unfold Erlang.new Gamma.new FDom.Erlang.docErr
  cases e <;> simp only [FDom.Erlang.ErrDoc] <;> split_ifs <;> simp only [exceptMap] <;> grind
end Erlang

/-- full(∀α): an `Ok(d)` of `Erlang::new(k, r)` stores `(k as f64, r)`; `rate()` returns `r` and `shape()` returns
    `(k as f64) as u64` — which is `k` on an exact carrier but NOT on `f64` above `2^53`
    (`erlang_shape_roundtrip_counterexample`, Props/C09/ErlangFloat.lean) -/
theorem erlang_new_ok_params_gen (k : Int) (r : α) (d : Erlang α) (h : Erlang.new k r = .ok d) :
    d = { f_g := { f_shape := RFun.ofInt k, f_rate := r } } ∧ Erlang.rate d = r ∧
      Erlang.shape d = RFun.toU64 (RFun.ofInt k : α) := by
  unfold Erlang.new Gamma.new at h
  split_ifs at h <;> simp only [exceptMap] at h <;> simp only [Except.ok.injEq, reduceCtorEq] at h <;>
    subst h <;> simp [Erlang.shape, Erlang.rate, Gamma.shape, Gamma.rate]

/-! ## Exp -/

/-- full(∀α): `Exp::new(rate)` is `Ok` exactly on the documented domain -/
theorem exp_new_ok_iff_fl (r : α) : (∃ d, Exp.new r = .ok d) ↔ FDom.Exp.Domain r := by
  fctor [Exp.new, FDom.Exp.Domain]

/-- full(∀α): an `Err(e)` of `Exp::new` is the documented variant and its documented condition holds -/
theorem exp_new_err_fl (r : α) (e : ExpError) (h : Exp.new r = .error e) :
    e = FDom.Exp.docErr r ∧ FDom.Exp.ErrDoc r e := by
  revert h
  cases e <;> fctor [Exp.new, FDom.Exp.docErr, FDom.Exp.ErrDoc]

/-- full(∀α): an `Ok(d)` of `Exp::new(r)` stores `r` -/
theorem exp_new_ok_params_gen (r : α) (d : Exp α) (h : Exp.new r = .ok d) :
    d = { f_rate := r } ∧ Exp.rate d = r := by
  unfold Exp.new at h
  split_ifs at h <;> simp at h <;> subst h <;> simp [Exp.rate]

end Statrs.Props.C09
