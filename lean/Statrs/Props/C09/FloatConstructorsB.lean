/-
  C09 (float level) — constructors validate their parameters, over EVERY carrier satisfying the IEEE order laws,
  hence over `Float` = `f64` (part B: FisherSnedecor, Gamma, Geometric, Gumbel, Hypergeometric, InverseGamma,
  Laplace, Levy, LogNormal).  See the header of `FloatConstructorsA.lean`.

  The two documentation discrepancies found on `XR` (Props/C09/ConstructorsB.lean) are carrier-independent and
  are restated here: `FisherSnedecor::new` rejects infinite degrees of freedom that its `# Errors` section does
  not list; `Gamma::new` accepts a single infinite parameter that its `# Errors` section says is an error.
  `InverseGamma`'s domain is documented with `shape < +inf`: relating `x < +∞` to `is_infinite` needs the law
  "infinite ⇔ IEEE-equal to ±∞" (`ExtraLaws.isInf_iff`, proved for `Float`), taken as the hypothesis `hI`.
-/
import Statrs.Props.C09.FloatDomain
import Statrs.Lemmas.FloatCtorTactic
import Statrs.Gen.D_fisher_snedecor
import Statrs.Gen.D_gamma
import Statrs.Gen.D_geometric
import Statrs.Gen.D_gumbel
import Statrs.Gen.D_hypergeometric
import Statrs.Gen.D_inverse_gamma
import Statrs.Gen.D_laplace
import Statrs.Gen.D_levy
import Statrs.Gen.D_log_normal
set_option linter.unnecessarySeqFocus false
set_option linter.unusedSectionVars false
set_option linter.unusedVariables false
set_option linter.unusedSimpArgs false
namespace Statrs.Props.C09
open Statrs Statrs.Gen Statrs.Spec Statrs.Lemmas

variable {α : Type} [Add α] [Sub α] [Mul α] [Div α] [Neg α] [LT α] [LE α] [BEq α]
  [DecidableLT α] [DecidableLE α] [OfScientific α] [Inhabited α] [RFun α]

/-! ## FisherSnedecor — DISCREPANCY with the `# Errors` section (carrier-independent) -/

/-- full(∀α): `FisherSnedecor::new` is `Ok` exactly on the IMPLEMENTED domain: the documented clauses plus "not
    infinite" (which only the `FisherSnedecorError` variant docs mention) -/
theorem fisherSnedecor_new_ok_iff_impl_fl (O : OrderLaws α) (T : LitLaws α) (a b : α) :
    (∃ d, FisherSnedecor.new a b = .ok d) ↔ FDom.FisherSnedecor.DomainImpl a b := by
  order_facts O T
  fctor [FisherSnedecor.new, FDom.FisherSnedecor.DomainImpl, FDom.FisherSnedecor.Domain]

/-- partial(only this direction of `ok ↔ Domain` holds, see `fisherSnedecor_new_ok_iff_float_counterexample`):
    an `Ok` result has its arguments in the documented domain -/
theorem fisherSnedecor_new_ok_imp_domain_fl_partial (O : OrderLaws α) (T : LitLaws α) (a b : α)
    (h : ∃ d, FisherSnedecor.new a b = .ok d) : FDom.FisherSnedecor.Domain a b :=
  ((fisherSnedecor_new_ok_iff_impl_fl O T a b).1 h).1

/-- full(∀α): an `Err(e)` of `FisherSnedecor::new` is the documented variant with its documented condition -/
theorem fisherSnedecor_new_err_fl (O : OrderLaws α) (T : LitLaws α) (a b : α) (e : FisherSnedecorError)
    (h : FisherSnedecor.new a b = .error e) :
    e = FDom.FisherSnedecor.docErr a b ∧ FDom.FisherSnedecor.ErrDoc a b e := by
  order_facts O T
  revert h
  cases e <;> fctor [FisherSnedecor.new, FDom.FisherSnedecor.docErr, FDom.FisherSnedecor.ErrDoc]

/-- full(∀α): an `Ok(d)` of `FisherSnedecor::new` stores the arguments it was given (no law needed) -/
theorem fisherSnedecor_new_ok_params_gen (a b : α) (d : FisherSnedecor α)
    (h : FisherSnedecor.new a b = .ok d) :
    d = { f_freedom_1 := a, f_freedom_2 := b } ∧ FisherSnedecor.freedom_1 d = a ∧
      FisherSnedecor.freedom_2 d = b := by
  unfold FisherSnedecor.new at h
  split_ifs at h <;> simp only [Except.ok.injEq, reduceCtorEq] at h <;> subst h <;>
    simp [FisherSnedecor.freedom_1, FisherSnedecor.freedom_2]

/-! ## Gamma — DISCREPANCY with the `# Errors` section (carrier-independent) -/

/-- full(∀α): `Gamma::new` is `Ok` exactly on the IMPLEMENTED domain: an infinite parameter is rejected only
    when BOTH are (no law needed: the code tests these clauses literally) -/
theorem gamma_new_ok_iff_impl_fl (a b : α) :
    (∃ d, Gamma.new a b = .ok d) ↔ FDom.Gamma.DomainImpl a b := by
  fctor [Gamma.new, FDom.Gamma.DomainImpl]

/-- partial(only this direction of `ok ↔ Domain` holds, see `gamma_new_ok_iff_float_counterexample`): on the
    documented domain the result is `Ok` -/
theorem gamma_new_ok_of_domain_fl_partial (a b : α) (h : FDom.Gamma.Domain a b) :
    ∃ d, Gamma.new a b = .ok d := by
  revert h
  fctor [Gamma.new, FDom.Gamma.Domain]

/-- full(∀α): an `Err(e)` of `Gamma::new` is the documented variant and its documented condition holds -/
theorem gamma_new_err_fl (a b : α) (e : GammaError) (h : Gamma.new a b = .error e) :
    e = FDom.Gamma.docErr a b ∧ FDom.Gamma.ErrDoc a b e := by
  revert h
  cases e <;> fctor [Gamma.new, FDom.Gamma.docErr, FDom.Gamma.ErrDoc]

/-- full(∀α): an `Ok(d)` of `Gamma::new` stores the arguments it was given (no law needed) -/
theorem gamma_new_ok_params_gen (a b : α) (d : Gamma α) (h : Gamma.new a b = .ok d) :
    d = { f_shape := a, f_rate := b } ∧ Gamma.shape d = a ∧ Gamma.rate d = b := by
  unfold Gamma.new at h
  split_ifs at h <;> simp only [Except.ok.injEq, reduceCtorEq] at h <;> subst h <;> simp [Gamma.shape, Gamma.rate]

/-! ## Geometric -/

/-- full(∀α): `Geometric::new(p)` is `Ok` exactly on the documented domain `0 < p ≤ 1` -/
theorem geometric_new_ok_iff_fl (O : OrderLaws α) (T : LitLaws α) (p : α) :
    (∃ d, Geometric.new p = .ok d) ↔ FDom.Geometric.Domain p := by
  order_facts O T
  fctor [Geometric.new, FDom.Geometric.Domain]

/-- full(∀α): an `Err(e)` of `Geometric::new` is the documented variant and its documented condition holds -/
theorem geometric_new_err_fl (O : OrderLaws α) (T : LitLaws α) (p : α) (e : GeometricError) (h : Geometric.new p = .error e) :
    e = FDom.Geometric.docErr p ∧ FDom.Geometric.ErrDoc p e := by
  order_facts O T
  revert h
  cases e <;> fctor [Geometric.new, FDom.Geometric.docErr, FDom.Geometric.ErrDoc]

/-- full(∀α): an `Ok(d)` of `Geometric::new` stores the arguments it was given (no law needed) -/
theorem geometric_new_ok_params_gen (p : α) (d : Geometric α) (h : Geometric.new p = .ok d) :
    d = { f_p := p } ∧ Geometric.p d = p := by
  unfold Geometric.new at h
  split_ifs at h <;> simp only [Except.ok.injEq, reduceCtorEq] at h <;> subst h <;> simp [Geometric.p]

/-! ## Gumbel -/

/-- full(∀α): `Gumbel::new(location, scale)` is `Ok` exactly on the documented domain -/
theorem gumbel_new_ok_iff_fl (l s : α) :
    (∃ d, Gumbel.new l s = .ok d) ↔ FDom.Gumbel.Domain l s := by
  fctor [Gumbel.new, FDom.Gumbel.Domain]

/-- full(∀α): an `Err(e)` of `Gumbel::new` is the documented variant and its documented condition holds -/
theorem gumbel_new_err_fl (l s : α) (e : GumbelError) (h : Gumbel.new l s = .error e) :
    e = FDom.Gumbel.docErr l s ∧ FDom.Gumbel.ErrDoc l s e := by
  revert h
  cases e <;> fctor [Gumbel.new, FDom.Gumbel.docErr, FDom.Gumbel.ErrDoc]

/-- full(∀α): an `Ok(d)` of `Gumbel::new` stores the arguments it was given (no law needed) -/
theorem gumbel_new_ok_params_gen (l s : α) (d : Gumbel α) (h : Gumbel.new l s = .ok d) :
    d = { f_location := l, f_scale := s } ∧ Gumbel.location d = l ∧ Gumbel.scale d = s := by
  unfold Gumbel.new at h
  split_ifs at h <;> simp only [Except.ok.injEq, reduceCtorEq] at h <;> subst h <;> simp [Gumbel.location, Gumbel.scale]

/-! ## Hypergeometric (all `u64`; the carrier is a phantom) -/

/-- full(∀α): `Hypergeometric::new(N, K, n)` is `Ok` exactly for `¬ N < K ∧ ¬ N < n` -/
theorem hypergeometric_new_ok_iff_fl (N K n : Int) :
    (∃ d, Hypergeometric.new (α := α) N K n = .ok d) ↔ FDom.Hypergeometric.Domain N K n := by
  by_cases h1 : N < K <;> by_cases h2 : N < n <;>
    simp [Hypergeometric.new, FDom.Hypergeometric.Domain, h1, h2]

/-- full(∀α): an `Err(e)` of `Hypergeometric::new` is the documented variant with its documented condition -/
theorem hypergeometric_new_err_fl (N K n : Int) (e : HypergeometricError)
    (h : Hypergeometric.new (α := α) N K n = .error e) :
    e = FDom.Hypergeometric.docErr N K n ∧ FDom.Hypergeometric.ErrDoc N K n e := by
  revert h
  by_cases h1 : N < K <;> by_cases h2 : N < n <;> cases e <;>
    simp [Hypergeometric.new, FDom.Hypergeometric.docErr, FDom.Hypergeometric.ErrDoc, h1, h2]

/-- full(∀α): an `Ok(d)` of `Hypergeometric::new` stores the arguments it was given -/
theorem hypergeometric_new_ok_params_gen (N K n : Int) (d : Hypergeometric)
    (h : Hypergeometric.new (α := α) N K n = .ok d) :
    d = { f_population := N, f_successes := K, f_draws := n } ∧
      Hypergeometric.population (α := α) d = N ∧ Hypergeometric.successes (α := α) d = K ∧
      Hypergeometric.draws (α := α) d = n := by
  unfold Hypergeometric.new at h
  split_ifs at h <;> simp only [Except.ok.injEq, reduceCtorEq] at h <;> subst h <;>
    simp [Hypergeometric.population, Hypergeometric.successes, Hypergeometric.draws]

/-! ## InverseGamma (documented with `< +inf`: needs "infinite ⇔ IEEE-equal to ±∞") -/

/-- full(∀α): `InverseGamma::new(shape, rate)` is `Ok` exactly on the documented domain "`shape`, `rate` not NaN
    and in `(0, +inf)`"; `hI` is `ExtraLaws.isInf_iff` -/
theorem inverseGamma_new_ok_iff_fl (O : OrderLaws α) (I : InfLaws α) (T : LitLaws α)
    (hI : ∀ a : α, RFun.isInf a = true ↔
      ((a == (RFun.inf : α)) = true ∨ (a == (RFun.negInf : α)) = true)) (a b : α) :
    (∃ d, InverseGamma.new a b = .ok d) ↔ FDom.InverseGamma.Domain a b := by
  order_facts O T
  have hi1 := I.le_inf
  have hi2 := I.negInf_le
  fctor [InverseGamma.new, FDom.InverseGamma.Domain]

/-- full(∀α): an `Err(e)` of `InverseGamma::new` is the documented variant with its documented condition (no
    law needed) -/
theorem inverseGamma_new_err_fl (a b : α) (e : InverseGammaError) (h : InverseGamma.new a b = .error e) :
    e = FDom.InverseGamma.docErr a b ∧ FDom.InverseGamma.ErrDoc a b e := by
  revert h
  cases e <;> fctor [InverseGamma.new, FDom.InverseGamma.docErr, FDom.InverseGamma.ErrDoc]

/-- full(∀α): an `Ok(d)` of `InverseGamma::new` stores the arguments it was given (no law needed) -/
theorem inverseGamma_new_ok_params_gen (a b : α) (d : InverseGamma α) (h : InverseGamma.new a b = .ok d) :
    d = { f_shape := a, f_rate := b } ∧ InverseGamma.shape d = a ∧ InverseGamma.rate d = b := by
  unfold InverseGamma.new at h
  split_ifs at h <;> simp only [Except.ok.injEq, reduceCtorEq] at h <;> subst h <;>
    simp [InverseGamma.shape, InverseGamma.rate]

/-! ## Laplace -/

/-- full(∀α): `Laplace::new(location, scale)` is `Ok` exactly on the documented domain -/
theorem laplace_new_ok_iff_fl (l s : α) :
    (∃ d, Laplace.new l s = .ok d) ↔ FDom.Laplace.Domain l s := by
  fctor [Laplace.new, FDom.Laplace.Domain]

/-- full(∀α): an `Err(e)` of `Laplace::new` is the documented variant and its documented condition holds -/
theorem laplace_new_err_fl (l s : α) (e : LaplaceError) (h : Laplace.new l s = .error e) :
    e = FDom.Laplace.docErr l s ∧ FDom.Laplace.ErrDoc l s e := by
  revert h
  cases e <;> fctor [Laplace.new, FDom.Laplace.docErr, FDom.Laplace.ErrDoc]

/-- full(∀α): an `Ok(d)` of `Laplace::new` stores the arguments it was given (no law needed) -/
theorem laplace_new_ok_params_gen (l s : α) (d : Laplace α) (h : Laplace.new l s = .ok d) :
    d = { f_location := l, f_scale := s } ∧ Laplace.location d = l ∧ Laplace.scale d = s := by
  unfold Laplace.new at h
  split_ifs at h <;> simp only [Except.ok.injEq, reduceCtorEq] at h <;> subst h <;> simp [Laplace.location, Laplace.scale]

/-! ## Levy -/

/-- full(∀α): `Levy::new(mu, c)` is `Ok` exactly on the documented domain -/
theorem levy_new_ok_iff_fl (m c : α) :
    (∃ d, Levy.new m c = .ok d) ↔ FDom.Levy.Domain m c := by
  fctor [Levy.new, FDom.Levy.Domain]

/-- full(∀α): an `Err(e)` of `Levy::new` is the documented variant and its documented condition holds -/
theorem levy_new_err_fl (m c : α) (e : LevyError) (h : Levy.new m c = .error e) :
    e = FDom.Levy.docErr m c ∧ FDom.Levy.ErrDoc m c e := by
  revert h
  cases e <;> fctor [Levy.new, FDom.Levy.docErr, FDom.Levy.ErrDoc]

/-- full(∀α): an `Ok(d)` of `Levy::new` stores the arguments it was given (no law needed) -/
theorem levy_new_ok_params_gen (m c : α) (d : Levy α) (h : Levy.new m c = .ok d) :
    d = { f_mu := m, f_c := c } ∧ Levy.mu d = m ∧ Levy.c d = c := by
  unfold Levy.new at h
  split_ifs at h <;> simp only [Except.ok.injEq, reduceCtorEq] at h <;> subst h <;> simp [Levy.mu, Levy.c]

/-! ## LogNormal -/

/-- full(∀α): `LogNormal::new(location, scale)` is `Ok` exactly on the documented domain -/
theorem logNormal_new_ok_iff_fl (l s : α) :
    (∃ d, LogNormal.new l s = .ok d) ↔ FDom.LogNormal.Domain l s := by
  fctor [LogNormal.new, FDom.LogNormal.Domain]

/-- full(∀α): an `Err(e)` of `LogNormal::new` is the documented variant and its documented condition holds -/
theorem logNormal_new_err_fl (l s : α) (e : LogNormalError) (h : LogNormal.new l s = .error e) :
    e = FDom.LogNormal.docErr l s ∧ FDom.LogNormal.ErrDoc l s e := by
  revert h
  cases e <;> fctor [LogNormal.new, FDom.LogNormal.docErr, FDom.LogNormal.ErrDoc]

/-- full(∀α): an `Ok(d)` of `LogNormal::new` stores the arguments it was given (no law needed) -/
theorem logNormal_new_ok_params_gen (l s : α) (d : LogNormal α) (h : LogNormal.new l s = .ok d) :
    d = { f_location := l, f_scale := s } ∧ LogNormal.location d = l ∧ LogNormal.scale d = s := by
  unfold LogNormal.new at h
  split_ifs at h <;> simp only [Except.ok.injEq, reduceCtorEq] at h <;> subst h <;> simp [LogNormal.location, LogNormal.scale]

end Statrs.Props.C09
