/-
  C09 (float level) — constructors validate their parameters, over EVERY carrier satisfying the IEEE order laws,
  hence over `Float` = `f64` (part C: NegativeBinomial, Normal, Pareto, Poisson, StudentsT, Triangular, Uniform,
  Weibull).  See the header of `FloatConstructorsA.lean`.
-/
import Statrs.Props.C09.FloatDomain
import Statrs.Lemmas.FloatCtorTactic
import Statrs.Gen.D_negative_binomial
import Statrs.Gen.D_normal
import Statrs.Gen.D_pareto
import Statrs.Gen.D_poisson
import Statrs.Gen.D_students_t
import Statrs.Gen.D_triangular
import Statrs.Gen.D_uniform
import Statrs.Gen.D_weibull
set_option linter.unnecessarySeqFocus false
set_option linter.unusedSectionVars false
set_option linter.unusedVariables false
set_option linter.unusedSimpArgs false
namespace Statrs.Props.C09
open Statrs Statrs.Gen Statrs.Spec Statrs.Lemmas

variable {α : Type} [Add α] [Sub α] [Mul α] [Div α] [Neg α] [LT α] [LE α] [BEq α]
  [DecidableLT α] [DecidableLE α] [OfScientific α] [Inhabited α] [RFun α]

/-! ## NegativeBinomial -/

/-- full(∀α): `NegativeBinomial::new(r, p)` is `Ok` exactly on the documented domain -/
theorem negativeBinomial_new_ok_iff_fl (O : OrderLaws α) (T : LitLaws α) (r p : α) :
    (∃ d, NegativeBinomial.new r p = .ok d) ↔ FDom.NegativeBinomial.Domain r p := by
  order_facts O T
  fctor [NegativeBinomial.new, FDom.NegativeBinomial.Domain]

/-- full(∀α): an `Err(e)` of `NegativeBinomial::new` is the documented variant and its documented condition holds -/
theorem negativeBinomial_new_err_fl (O : OrderLaws α) (T : LitLaws α) (r p : α) (e : NegativeBinomialError) (h : NegativeBinomial.new r p = .error e) :
    e = FDom.NegativeBinomial.docErr r p ∧ FDom.NegativeBinomial.ErrDoc r p e := by
  order_facts O T
  revert h
  cases e <;> fctor [NegativeBinomial.new, FDom.NegativeBinomial.docErr, FDom.NegativeBinomial.ErrDoc]

/-- full(∀α): an `Ok(d)` of `NegativeBinomial::new` stores the arguments it was given (no law needed) -/
theorem negativeBinomial_new_ok_params_gen (r p : α) (d : NegativeBinomial α) (h : NegativeBinomial.new r p = .ok d) :
    d = { f_r := r, f_p := p } ∧ NegativeBinomial.r d = r ∧ NegativeBinomial.p d = p := by
  unfold NegativeBinomial.new at h
  split_ifs at h <;> simp only [Except.ok.injEq, reduceCtorEq] at h <;> subst h <;> simp [NegativeBinomial.r, NegativeBinomial.p]

/-! ## Normal -/

/-- full(∀α): `Normal::new(mean, std_dev)` is `Ok` exactly on the documented domain -/
theorem normal_new_ok_iff_fl (m s : α) :
    (∃ d, Normal.new m s = .ok d) ↔ FDom.Normal.Domain m s := by
  fctor [Normal.new, FDom.Normal.Domain]

/-- full(∀α): an `Err(e)` of `Normal::new` is the documented variant and its documented condition holds -/
theorem normal_new_err_fl (m s : α) (e : NormalError) (h : Normal.new m s = .error e) :
    e = FDom.Normal.docErr m s ∧ FDom.Normal.ErrDoc m s e := by
  revert h
  cases e <;> fctor [Normal.new, FDom.Normal.docErr, FDom.Normal.ErrDoc]

/-- full(∀α): an `Ok(d)` of `Normal::new` stores the arguments it was given (no law needed) -/
theorem normal_new_ok_params_gen (m s : α) (d : Normal α) (h : Normal.new m s = .ok d) :
    d = { f_mean := m, f_std_dev := s } ∧ Normal.mean d = some m ∧ Normal.std_dev d = some s := by
  unfold Normal.new at h
  split_ifs at h <;> simp only [Except.ok.injEq, reduceCtorEq] at h <;> subst h <;> simp [Normal.mean, Normal.std_dev]

/-! ## Pareto -/

/-- full(∀α): `Pareto::new(scale, shape)` is `Ok` exactly on the documented domain -/
theorem pareto_new_ok_iff_fl (s a : α) :
    (∃ d, Pareto.new s a = .ok d) ↔ FDom.Pareto.Domain s a := by
  fctor [Pareto.new, FDom.Pareto.Domain]

/-- full(∀α): an `Err(e)` of `Pareto::new` is the documented variant and its documented condition holds -/
theorem pareto_new_err_fl (s a : α) (e : ParetoError) (h : Pareto.new s a = .error e) :
    e = FDom.Pareto.docErr s a ∧ FDom.Pareto.ErrDoc s a e := by
  revert h
  cases e <;> fctor [Pareto.new, FDom.Pareto.docErr, FDom.Pareto.ErrDoc]

/-- full(∀α): an `Ok(d)` of `Pareto::new` stores the arguments it was given (no law needed) -/
theorem pareto_new_ok_params_gen (s a : α) (d : Pareto α) (h : Pareto.new s a = .ok d) :
    d = { f_scale := s, f_shape := a } ∧ Pareto.scale d = s ∧ Pareto.shape d = a := by
  unfold Pareto.new at h
  split_ifs at h <;> simp only [Except.ok.injEq, reduceCtorEq] at h <;> subst h <;> simp [Pareto.scale, Pareto.shape]

/-! ## Poisson -/

/-- full(∀α): `Poisson::new(lambda)` is `Ok` exactly on the documented domain -/
theorem poisson_new_ok_iff_fl (l : α) :
    (∃ d, Poisson.new l = .ok d) ↔ FDom.Poisson.Domain l := by
  fctor [Poisson.new, FDom.Poisson.Domain]

/-- full(∀α): an `Err(e)` of `Poisson::new` is the documented variant and its documented condition holds -/
theorem poisson_new_err_fl (l : α) (e : PoissonError) (h : Poisson.new l = .error e) :
    e = FDom.Poisson.docErr l ∧ FDom.Poisson.ErrDoc l e := by
  revert h
  cases e <;> fctor [Poisson.new, FDom.Poisson.docErr, FDom.Poisson.ErrDoc]

/-- full(∀α): an `Ok(d)` of `Poisson::new` stores the arguments it was given (no law needed) -/
theorem poisson_new_ok_params_gen (l : α) (d : Poisson α) (h : Poisson.new l = .ok d) :
    d = { f_lambda := l } ∧ Poisson.lambda d = l := by
  unfold Poisson.new at h
  split_ifs at h <;> simp only [Except.ok.injEq, reduceCtorEq] at h <;> subst h <;> simp [Poisson.lambda]

/-! ## StudentsT -/

/-- full(∀α): `StudentsT::new(location, scale, freedom)` is `Ok` exactly on the documented domain -/
theorem studentsT_new_ok_iff_fl (l s k : α) :
    (∃ d, StudentsT.new l s k = .ok d) ↔ FDom.StudentsT.Domain l s k := by
  fctor [StudentsT.new, FDom.StudentsT.Domain]

/-- full(∀α): an `Err(e)` of `StudentsT::new` is the documented variant and its documented condition holds -/
theorem studentsT_new_err_fl (l s k : α) (e : StudentsTError) (h : StudentsT.new l s k = .error e) :
    e = FDom.StudentsT.docErr l s k ∧ FDom.StudentsT.ErrDoc l s k e := by
  revert h
  cases e <;> fctor [StudentsT.new, FDom.StudentsT.docErr, FDom.StudentsT.ErrDoc]

/-- full(∀α): an `Ok(d)` of `StudentsT::new` stores the arguments it was given (no law needed) -/
theorem studentsT_new_ok_params_gen (l s k : α) (d : StudentsT α) (h : StudentsT.new l s k = .ok d) :
    d = { f_location := l, f_scale := s, f_freedom := k } ∧ StudentsT.location d = l ∧ StudentsT.scale d = s ∧ StudentsT.freedom d = k := by
  unfold StudentsT.new at h
  split_ifs at h <;> simp only [Except.ok.injEq, reduceCtorEq] at h <;> subst h <;> simp [StudentsT.location, StudentsT.scale, StudentsT.freedom]

/-! ## Triangular -/

/-- full(∀α): `Triangular::new(min, max, mode)` is `Ok` exactly on the documented domain (finite, `¬ max < mode`, `¬ mode < min`, `¬ max == min`) -/
theorem triangular_new_ok_iff_fl (O : OrderLaws α) (T : LitLaws α) (a b c : α) :
    (∃ d, Triangular.new a b c = .ok d) ↔ FDom.Triangular.Domain a b c := by
  order_facts O T
  fctor [Triangular.new, FDom.Triangular.Domain]

/-- full(∀α): an `Err(e)` of `Triangular::new` is the documented variant and its documented condition holds -/
theorem triangular_new_err_fl (O : OrderLaws α) (T : LitLaws α) (a b c : α) (e : TriangularError) (h : Triangular.new a b c = .error e) :
    e = FDom.Triangular.docErr a b c ∧ FDom.Triangular.ErrDoc a b c e := by
  order_facts O T
  revert h
  cases e <;> fctor [Triangular.new, FDom.Triangular.docErr, FDom.Triangular.ErrDoc]

/-- full(∀α): an `Ok(d)` of `Triangular::new` stores the arguments it was given (no law needed) -/
theorem triangular_new_ok_params_gen (a b c : α) (d : Triangular α) (h : Triangular.new a b c = .ok d) :
    d = { f_min := a, f_max := b, f_mode := c } ∧ Triangular.min d = a ∧ Triangular.max d = b ∧ Triangular.mode d = some c := by
  unfold Triangular.new at h
  split_ifs at h <;> simp only [Except.ok.injEq, reduceCtorEq] at h <;> subst h <;> simp [Triangular.min, Triangular.max, Triangular.mode]

/-! ## Uniform -/

/-- full(∀α): `Uniform::new(min, max)` is `Ok` exactly on the documented domain (finite, `¬ max ≤ min`) -/
theorem uniform_new_ok_iff_fl (O : OrderLaws α) (T : LitLaws α) (a b : α) :
    (∃ d, Uniform.new a b = .ok d) ↔ FDom.Uniform.Domain a b := by
  order_facts O T
  fctor [Uniform.new, FDom.Uniform.Domain]

/-- full(∀α): an `Err(e)` of `Uniform::new` is the documented variant and its documented condition holds -/
theorem uniform_new_err_fl (O : OrderLaws α) (T : LitLaws α) (a b : α) (e : UniformError) (h : Uniform.new a b = .error e) :
    e = FDom.Uniform.docErr a b ∧ FDom.Uniform.ErrDoc a b e := by
  order_facts O T
  revert h
  cases e <;> fctor [Uniform.new, FDom.Uniform.docErr, FDom.Uniform.ErrDoc]

/-- full(∀α): an `Ok(d)` of `Uniform::new` stores the arguments it was given (no law needed) -/
theorem uniform_new_ok_params_gen (a b : α) (d : Uniform α) (h : Uniform.new a b = .ok d) :
    d = { f_min := a, f_max := b } ∧ Uniform.min d = a ∧ Uniform.max d = b := by
  unfold Uniform.new at h
  split_ifs at h <;> simp only [Except.ok.injEq, reduceCtorEq] at h <;> subst h <;> simp [Uniform.min, Uniform.max]

/-! ## Weibull -/

/-- full(∀α): `Weibull::new(shape, scale)` is `Ok` exactly on the documented domain -/
theorem weibull_new_ok_iff_fl (k s : α) :
    (∃ d, Weibull.new k s = .ok d) ↔ FDom.Weibull.Domain k s := by
  fctor [Weibull.new, FDom.Weibull.Domain]

/-- full(∀α): an `Err(e)` of `Weibull::new` is the documented variant and its documented condition holds -/
theorem weibull_new_err_fl (k s : α) (e : WeibullError) (h : Weibull.new k s = .error e) :
    e = FDom.Weibull.docErr k s ∧ FDom.Weibull.ErrDoc k s e := by
  revert h
  cases e <;> fctor [Weibull.new, FDom.Weibull.docErr, FDom.Weibull.ErrDoc]

/-- full(∀α): an `Ok(d)` of `Weibull::new` stores the arguments it was given (no law needed) -/
theorem weibull_new_ok_params_gen (k s : α) (d : Weibull α) (h : Weibull.new k s = .ok d) :
    d = { f_shape := k, f_scale := s, f_scale_pow_shape_inv := RFun.pow s (-k) } ∧ Weibull.shape d = k ∧ Weibull.scale d = s := by
  unfold Weibull.new at h
  split_ifs at h <;> simp only [Except.ok.injEq, reduceCtorEq] at h <;> subst h <;> simp [Weibull.shape, Weibull.scale]

end Statrs.Props.C09
