/-
  C09 (float level) — the carrier-generic constructor theorems (`FloatConstructors{A,B,C}.lean`) INSTANTIATED at
  the executable carrier, IEEE `Float` (Lean's kernel-visible `Float.Model`, bit-compatible with `f64`), using
  `orderLaws_float`, `litLaws_float`, `infLaws_float`, `floatLaws_float`, `extraLaws_float`
  (`Props/Common/FloatLawsFloat_*.lean`).  These are unconditional statements about ALL `f64` arguments,
  including ±0, subnormals, ±∞ and NaN:  for every scalar family `X`
      `x_new_float :  ((∃ d, X.new args = .ok d) ↔ FDom.X.Domain args) ∧
                      (∀ e, X.new args = .error e → e = FDom.X.docErr args ∧ FDom.X.ErrDoc args e)`.
  Where `f64` and the rounding-free carrier `XR` genuinely differ, the difference is exhibited by kernel
  evaluation (`decide`):
    * `chiSquared_new_underflow_counterexample` — `ChiSquared::new(5e-324)` is `Err(ShapeInvalid)` although
      `5e-324` is not NaN and not `≤ 0.0` (the documented domain): the constructor halves its argument first and
      `5e-324 / 2.0` rounds to `0.0`.  (`XR`: `chiSquared_new_ok_iff` holds without exception.)
    * `erlang_shape_roundtrip_counterexample` (Props/C09/ErlangFloat.lean, already there) — `shape()` of
      `Erlang::new(2^53 + 1, 1.0)` is `2^53`.
    * the two documentation discrepancies of `Gamma::new` / `FisherSnedecor::new` are re-exhibited on `Float`.
  The carrier-independent families `Chi`, `DiscreteUniform`, `Hypergeometric` (integer parameters only) are
  instantiated as well so that the list is complete (27 scalar constructors).
-/
import Statrs.Props.C09.FloatConstructorsA
import Statrs.Props.C09.FloatConstructorsB
import Statrs.Props.C09.FloatConstructorsC
import Statrs.Props.Common.FloatLawsFloat_Extra
import Statrs.Inst.Float
namespace Statrs.Props.C09
open Statrs Statrs.Gen Statrs.Spec Statrs.Props.Common

private abbrev O := orderLaws_float
private abbrev T := litLaws_float
private abbrev L := floatLaws_float

/-! ## the families whose code tests the documented clauses on the arguments themselves -/

/-- full(Float): `Bernoulli::new` on `f64`: `Ok` exactly on the documented domain; an `Err(e)` is the documented variant
    and its documented condition holds -/
theorem bernoulli_new_float (p : Float) :
    ((∃ d, Bernoulli.new p = .ok d) ↔ FDom.Bernoulli.Domain p) ∧
    (∀ e : BinomialError, Bernoulli.new p = .error e → e = FDom.Bernoulli.docErr p ∧ FDom.Bernoulli.ErrDoc p e) :=
  ⟨bernoulli_new_ok_iff_fl O T p, fun e h => bernoulli_new_err_fl O T p e h⟩

/-- full(Float): `Beta::new` on `f64`: `Ok` exactly on the documented domain; an `Err(e)` is the documented variant
    and its documented condition holds -/
theorem beta_new_float (a b : Float) :
    ((∃ d, Beta.new a b = .ok d) ↔ FDom.Beta.Domain a b) ∧
    (∀ e : BetaError, Beta.new a b = .error e → e = FDom.Beta.docErr a b ∧ FDom.Beta.ErrDoc a b e) :=
  ⟨beta_new_ok_iff_fl  a b, fun e h => beta_new_err_fl  a b e h⟩

/-- full(Float): `Cauchy::new` on `f64`: `Ok` exactly on the documented domain; an `Err(e)` is the documented variant
    and its documented condition holds -/
theorem cauchy_new_float (l s : Float) :
    ((∃ d, Cauchy.new l s = .ok d) ↔ FDom.Cauchy.Domain l s) ∧
    (∀ e : CauchyError, Cauchy.new l s = .error e → e = FDom.Cauchy.docErr l s ∧ FDom.Cauchy.ErrDoc l s e) :=
  ⟨cauchy_new_ok_iff_fl  l s, fun e h => cauchy_new_err_fl  l s e h⟩

/-- full(Float): `Dirac::new` on `f64`: `Ok` exactly on the documented domain; an `Err(e)` is the documented variant
    and its documented condition holds -/
theorem dirac_new_float (v : Float) :
    ((∃ d, Dirac.new v = .ok d) ↔ FDom.Dirac.Domain v) ∧
    (∀ e : DiracError, Dirac.new v = .error e → e = FDom.Dirac.docErr v ∧ FDom.Dirac.ErrDoc v e) :=
  ⟨dirac_new_ok_iff_fl  v, fun e h => dirac_new_err_fl  v e h⟩

/-- full(Float): `Exp::new` on `f64`: `Ok` exactly on the documented domain; an `Err(e)` is the documented variant
    and its documented condition holds -/
theorem exp_new_float (r : Float) :
    ((∃ d, Exp.new r = .ok d) ↔ FDom.Exp.Domain r) ∧
    (∀ e : ExpError, Exp.new r = .error e → e = FDom.Exp.docErr r ∧ FDom.Exp.ErrDoc r e) :=
  ⟨exp_new_ok_iff_fl  r, fun e h => exp_new_err_fl  r e h⟩

/-- full(Float): `Geometric::new` on `f64`: `Ok` exactly on the documented domain; an `Err(e)` is the documented variant
    and its documented condition holds -/
theorem geometric_new_float (p : Float) :
    ((∃ d, Geometric.new p = .ok d) ↔ FDom.Geometric.Domain p) ∧
    (∀ e : GeometricError, Geometric.new p = .error e → e = FDom.Geometric.docErr p ∧ FDom.Geometric.ErrDoc p e) :=
  ⟨geometric_new_ok_iff_fl O T p, fun e h => geometric_new_err_fl O T p e h⟩

/-- full(Float): `Gumbel::new` on `f64`: `Ok` exactly on the documented domain; an `Err(e)` is the documented variant
    and its documented condition holds -/
theorem gumbel_new_float (l s : Float) :
    ((∃ d, Gumbel.new l s = .ok d) ↔ FDom.Gumbel.Domain l s) ∧
    (∀ e : GumbelError, Gumbel.new l s = .error e → e = FDom.Gumbel.docErr l s ∧ FDom.Gumbel.ErrDoc l s e) :=
  ⟨gumbel_new_ok_iff_fl  l s, fun e h => gumbel_new_err_fl  l s e h⟩

/-- full(Float): `Laplace::new` on `f64`: `Ok` exactly on the documented domain; an `Err(e)` is the documented variant
    and its documented condition holds -/
theorem laplace_new_float (l s : Float) :
    ((∃ d, Laplace.new l s = .ok d) ↔ FDom.Laplace.Domain l s) ∧
    (∀ e : LaplaceError, Laplace.new l s = .error e → e = FDom.Laplace.docErr l s ∧ FDom.Laplace.ErrDoc l s e) :=
  ⟨laplace_new_ok_iff_fl  l s, fun e h => laplace_new_err_fl  l s e h⟩

/-- full(Float): `Levy::new` on `f64`: `Ok` exactly on the documented domain; an `Err(e)` is the documented variant
    and its documented condition holds -/
theorem levy_new_float (m c : Float) :
    ((∃ d, Levy.new m c = .ok d) ↔ FDom.Levy.Domain m c) ∧
    (∀ e : LevyError, Levy.new m c = .error e → e = FDom.Levy.docErr m c ∧ FDom.Levy.ErrDoc m c e) :=
  ⟨levy_new_ok_iff_fl  m c, fun e h => levy_new_err_fl  m c e h⟩

/-- full(Float): `LogNormal::new` on `f64`: `Ok` exactly on the documented domain; an `Err(e)` is the documented variant
    and its documented condition holds -/
theorem logNormal_new_float (l s : Float) :
    ((∃ d, LogNormal.new l s = .ok d) ↔ FDom.LogNormal.Domain l s) ∧
    (∀ e : LogNormalError, LogNormal.new l s = .error e → e = FDom.LogNormal.docErr l s ∧ FDom.LogNormal.ErrDoc l s e) :=
  ⟨logNormal_new_ok_iff_fl  l s, fun e h => logNormal_new_err_fl  l s e h⟩

/-- full(Float): `NegativeBinomial::new` on `f64`: `Ok` exactly on the documented domain; an `Err(e)` is the documented variant
    and its documented condition holds -/
theorem negativeBinomial_new_float (r p : Float) :
    ((∃ d, NegativeBinomial.new r p = .ok d) ↔ FDom.NegativeBinomial.Domain r p) ∧
    (∀ e : NegativeBinomialError, NegativeBinomial.new r p = .error e → e = FDom.NegativeBinomial.docErr r p ∧ FDom.NegativeBinomial.ErrDoc r p e) :=
  ⟨negativeBinomial_new_ok_iff_fl O T r p, fun e h => negativeBinomial_new_err_fl O T r p e h⟩

/-- full(Float): `Normal::new` on `f64`: `Ok` exactly on the documented domain; an `Err(e)` is the documented variant
    and its documented condition holds -/
theorem normal_new_float (m s : Float) :
    ((∃ d, Normal.new m s = .ok d) ↔ FDom.Normal.Domain m s) ∧
    (∀ e : NormalError, Normal.new m s = .error e → e = FDom.Normal.docErr m s ∧ FDom.Normal.ErrDoc m s e) :=
  ⟨normal_new_ok_iff_fl  m s, fun e h => normal_new_err_fl  m s e h⟩

/-- full(Float): `Pareto::new` on `f64`: `Ok` exactly on the documented domain; an `Err(e)` is the documented variant
    and its documented condition holds -/
theorem pareto_new_float (s a : Float) :
    ((∃ d, Pareto.new s a = .ok d) ↔ FDom.Pareto.Domain s a) ∧
    (∀ e : ParetoError, Pareto.new s a = .error e → e = FDom.Pareto.docErr s a ∧ FDom.Pareto.ErrDoc s a e) :=
  ⟨pareto_new_ok_iff_fl  s a, fun e h => pareto_new_err_fl  s a e h⟩

/-- full(Float): `Poisson::new` on `f64`: `Ok` exactly on the documented domain; an `Err(e)` is the documented variant
    and its documented condition holds -/
theorem poisson_new_float (l : Float) :
    ((∃ d, Poisson.new l = .ok d) ↔ FDom.Poisson.Domain l) ∧
    (∀ e : PoissonError, Poisson.new l = .error e → e = FDom.Poisson.docErr l ∧ FDom.Poisson.ErrDoc l e) :=
  ⟨poisson_new_ok_iff_fl  l, fun e h => poisson_new_err_fl  l e h⟩

/-- full(Float): `StudentsT::new` on `f64`: `Ok` exactly on the documented domain; an `Err(e)` is the documented variant
    and its documented condition holds -/
theorem studentsT_new_float (l s k : Float) :
    ((∃ d, StudentsT.new l s k = .ok d) ↔ FDom.StudentsT.Domain l s k) ∧
    (∀ e : StudentsTError, StudentsT.new l s k = .error e → e = FDom.StudentsT.docErr l s k ∧ FDom.StudentsT.ErrDoc l s k e) :=
  ⟨studentsT_new_ok_iff_fl  l s k, fun e h => studentsT_new_err_fl  l s k e h⟩

/-- full(Float): `Triangular::new` on `f64`: `Ok` exactly on the documented domain; an `Err(e)` is the documented variant
    and its documented condition holds -/
theorem triangular_new_float (a b c : Float) :
    ((∃ d, Triangular.new a b c = .ok d) ↔ FDom.Triangular.Domain a b c) ∧
    (∀ e : TriangularError, Triangular.new a b c = .error e → e = FDom.Triangular.docErr a b c ∧ FDom.Triangular.ErrDoc a b c e) :=
  ⟨triangular_new_ok_iff_fl O T a b c, fun e h => triangular_new_err_fl O T a b c e h⟩

/-- full(Float): `Uniform::new` on `f64`: `Ok` exactly on the documented domain; an `Err(e)` is the documented variant
    and its documented condition holds -/
theorem uniform_new_float (a b : Float) :
    ((∃ d, Uniform.new a b = .ok d) ↔ FDom.Uniform.Domain a b) ∧
    (∀ e : UniformError, Uniform.new a b = .error e → e = FDom.Uniform.docErr a b ∧ FDom.Uniform.ErrDoc a b e) :=
  ⟨uniform_new_ok_iff_fl O T a b, fun e h => uniform_new_err_fl O T a b e h⟩

/-- full(Float): `Weibull::new` on `f64`: `Ok` exactly on the documented domain; an `Err(e)` is the documented variant
    and its documented condition holds -/
theorem weibull_new_float (k s : Float) :
    ((∃ d, Weibull.new k s = .ok d) ↔ FDom.Weibull.Domain k s) ∧
    (∀ e : WeibullError, Weibull.new k s = .error e → e = FDom.Weibull.docErr k s ∧ FDom.Weibull.ErrDoc k s e) :=
  ⟨weibull_new_ok_iff_fl  k s, fun e h => weibull_new_err_fl  k s e h⟩

/-- full(Float): `Binomial::new(p, n)` (`n : u64`) on `f64` -/
theorem binomial_new_float (p : Float) (n : Int) (hn : 0 ≤ n) :
    ((∃ d, Binomial.new p n = .ok d) ↔ FDom.Binomial.Domain p n) ∧
    (∀ e : BinomialError, Binomial.new p n = .error e →
      e = FDom.Binomial.docErr p n ∧ FDom.Binomial.ErrDoc p n e) :=
  ⟨binomial_new_ok_iff_fl O T p n hn, fun e h => binomial_new_err_fl O T p n e h⟩

/-- full(Float): `InverseGamma::new` on `f64`: `Ok` exactly for non-NaN `shape`, `rate` in `(0, +inf)` -/
theorem inverseGamma_new_float (a b : Float) :
    ((∃ d, InverseGamma.new a b = .ok d) ↔ FDom.InverseGamma.Domain a b) ∧
    (∀ e : InverseGammaError, InverseGamma.new a b = .error e →
      e = FDom.InverseGamma.docErr a b ∧ FDom.InverseGamma.ErrDoc a b e) :=
  ⟨inverseGamma_new_ok_iff_fl O infLaws_float T extraLaws_float.isInf_iff a b,
   fun e h => inverseGamma_new_err_fl a b e h⟩

/-! ## integer-only families (the carrier is a phantom) -/

/-- full(Float): `Chi::new` -/
theorem chi_new_float (k : Int) :
    ((∃ d, Chi.new (α := Float) k = .ok d) ↔ FDom.Chi.Domain k) ∧
    (∀ e : ChiError, Chi.new (α := Float) k = .error e → e = FDom.Chi.docErr k ∧ FDom.Chi.ErrDoc k e) :=
  ⟨chi_new_ok_iff_fl k, fun e h => chi_new_err_fl k e h⟩

/-- full(Float): `DiscreteUniform::new` -/
theorem discreteUniform_new_float (a b : Int) :
    ((∃ d, DiscreteUniform.new (α := Float) a b = .ok d) ↔ FDom.DiscreteUniform.Domain a b) ∧
    (∀ e : DiscreteUniformError, DiscreteUniform.new (α := Float) a b = .error e →
      e = FDom.DiscreteUniform.docErr a b ∧ FDom.DiscreteUniform.ErrDoc a b e) :=
  ⟨discreteUniform_new_ok_iff_fl a b, fun e h => discreteUniform_new_err_fl a b e h⟩

/-- full(Float): `Hypergeometric::new` -/
theorem hypergeometric_new_float (N K n : Int) :
    ((∃ d, Hypergeometric.new (α := Float) N K n = .ok d) ↔ FDom.Hypergeometric.Domain N K n) ∧
    (∀ e : HypergeometricError, Hypergeometric.new (α := Float) N K n = .error e →
      e = FDom.Hypergeometric.docErr N K n ∧ FDom.Hypergeometric.ErrDoc N K n e) :=
  ⟨hypergeometric_new_ok_iff_fl N K n, fun e h => hypergeometric_new_err_fl N K n e h⟩

/-! ## Erlang: `k as f64` is validated — no difference to the documented domain for any `u64` -/

/-- full(Float): `Erlang::new(k, r)` on `f64`, for every `u64` `k`: `Ok` exactly on the documented domain -/
theorem erlang_new_float (k : Int) (r : Float) (hk : 0 ≤ k) (hk' : k ≤ u64Max) :
    ((∃ d, Erlang.new k r = .ok d) ↔ FDom.Erlang.Domain k r) ∧
    (∀ e : GammaError, Erlang.new k r = .error e → e = FDom.Erlang.docErr k r ∧ FDom.Erlang.ErrDoc k r e) := by
  have h64 : k ≤ 2 ^ 64 := by unfold u64Max at hk'; omega
  exact ⟨erlang_new_ok_iff_fl L k r hk h64, fun e h => erlang_new_err_fl L k r hk h64 e h⟩

/-! ## ChiSquared: `k / 2.0` is validated — `f64` DIFFERS from the documented domain at the smallest subnormal -/

/-- full(Float): `ChiSquared::new(k)` on `f64` is `Ok` exactly when `k` is in the documented domain AND `k / 2.0`
    has not underflowed to zero; every `Err` is `ShapeInvalid` -/
theorem chiSquared_new_float (k : Float) :
    ((∃ d, ChiSquared.new k = .ok d) ↔
      (FDom.ChiSquared.Domain k ∧ ¬ ((k / (2.0 : Float)) == (0.0 : Float)) = true)) ∧
    (∀ e : GammaError, ChiSquared.new k = .error e → e = FDom.ChiSquared.docErr k ∧
      (FDom.ChiSquared.ErrDoc k e ∨ ((k / (2.0 : Float)) == (0.0 : Float)) = true)) :=
  ⟨chiSquared_new_ok_iff_fl L k, fun e h => chiSquared_new_err_fl L k e h⟩

set_option maxRecDepth 100000 in
set_option exponentiation.threshold 400 in
/-- counterexample: `5e-324` (the smallest positive `f64`, bit pattern `1`) is in the documented domain of
    `ChiSquared::new` ("error if `freedom` is NaN or less than or equal to 0.0"), but
    `ChiSquared::new(5e-324)` is `Err(ShapeInvalid)`: the constructor validates `freedom / 2.0`, which rounds to
    `0.0` (tie to even).  So `ok ↔ documented domain`, true on the rounding-free carrier `XR`
    (`chiSquared_new_ok_iff`), is FALSE on `f64`. -/
theorem chiSquared_new_underflow_counterexample :
    (5e-324 : Float) = Float.ofBits 1 ∧
    FDom.ChiSquared.Domain (5e-324 : Float) ∧
    ChiSquared.new (5e-324 : Float) = .error GammaError.ShapeInvalid := by
  have hd : FDom.ChiSquared.Domain (5e-324 : Float) := by
    unfold FDom.ChiSquared.Domain; decide
  have hno : Except.isOk (ChiSquared.new (5e-324 : Float)) = false := by decide
  refine ⟨by decide, hd, ?_⟩
  cases h : ChiSquared.new (5e-324 : Float) with
  | ok d => rw [h] at hno; cases hno
  | error e => rw [((chiSquared_new_float _).2 e h).1]; rfl

set_option maxRecDepth 100000 in
set_option exponentiation.threshold 400 in
/-- the next double, `1e-323` (bit pattern `2`), is accepted: the defect is confined to one value (and its
    negative has always been rejected) -/
example : Except.isOk (ChiSquared.new (1e-323 : Float)) = true := by decide

/-! ## Gamma, FisherSnedecor: implemented domains, and the documentation discrepancies on `f64` -/

/-- full(Float): `Gamma::new` on `f64` is `Ok` exactly on the implemented domain (an infinite parameter is
    rejected only when both are); on the documented domain it is `Ok`; errors are as documented -/
theorem gamma_new_float (a b : Float) :
    ((∃ d, Gamma.new a b = .ok d) ↔ FDom.Gamma.DomainImpl a b) ∧
    (FDom.Gamma.Domain a b → ∃ d, Gamma.new a b = .ok d) ∧
    (∀ e : GammaError, Gamma.new a b = .error e → e = FDom.Gamma.docErr a b ∧ FDom.Gamma.ErrDoc a b e) :=
  ⟨gamma_new_ok_iff_impl_fl a b, gamma_new_ok_of_domain_fl_partial a b, fun e h => gamma_new_err_fl a b e h⟩

/-- counterexample: `Gamma::new(+∞, 1.0)` and `Gamma::new(1.0, +∞)` are `Ok` on `f64` although the `# Errors`
    section says "error if `shape` is NaN or inf or `rate` is NaN or inf" -/
theorem gamma_new_ok_iff_float_counterexample :
    (¬ FDom.Gamma.Domain (RFun.inf : Float) 1.0 ∧ Except.isOk (Gamma.new (RFun.inf : Float) 1.0) = true) ∧
    (¬ FDom.Gamma.Domain (1.0 : Float) RFun.inf ∧ Except.isOk (Gamma.new (1.0 : Float) RFun.inf) = true) := by
  unfold FDom.Gamma.Domain; decide

/-- full(Float): `FisherSnedecor::new` on `f64` is `Ok` exactly on the implemented domain (documented clauses
    plus "not infinite"); an `Ok` implies the documented domain; errors are as the variant docs say -/
theorem fisherSnedecor_new_float (a b : Float) :
    ((∃ d, FisherSnedecor.new a b = .ok d) ↔ FDom.FisherSnedecor.DomainImpl a b) ∧
    ((∃ d, FisherSnedecor.new a b = .ok d) → FDom.FisherSnedecor.Domain a b) ∧
    (∀ e : FisherSnedecorError, FisherSnedecor.new a b = .error e →
      e = FDom.FisherSnedecor.docErr a b ∧ FDom.FisherSnedecor.ErrDoc a b e) :=
  ⟨fisherSnedecor_new_ok_iff_impl_fl O T a b, fisherSnedecor_new_ok_imp_domain_fl_partial O T a b,
   fun e h => fisherSnedecor_new_err_fl O T a b e h⟩

/-- counterexample: `(+∞, 1.0)` and `(1.0, +∞)` are in the documented domain of `FisherSnedecor::new` (its
    `# Errors` section lists only NaN and `≤ 0.0`) but are rejected on `f64` -/
theorem fisherSnedecor_new_ok_iff_float_counterexample :
    (FDom.FisherSnedecor.Domain (RFun.inf : Float) 1.0 ∧
      Except.isOk (FisherSnedecor.new (RFun.inf : Float) 1.0) = false) ∧
    (FDom.FisherSnedecor.Domain (1.0 : Float) RFun.inf ∧
      Except.isOk (FisherSnedecor.new (1.0 : Float) RFun.inf) = false) := by
  unfold FDom.FisherSnedecor.Domain; decide

/-! ## non-vacuity: ordinary `f64` arguments are inside / outside the domains -/

example : FDom.Beta.Domain (2.0 : Float) 2.0 := by unfold FDom.Beta.Domain; decide
example : ¬ FDom.Beta.Domain (0.0 : Float) 2.0 := by unfold FDom.Beta.Domain; decide
example : FDom.Triangular.Domain (0.0 : Float) 5.0 2.5 := by unfold FDom.Triangular.Domain; decide
example : ¬ FDom.Triangular.Domain (-0.0 : Float) 0.0 0.0 := by unfold FDom.Triangular.Domain; decide
example : FDom.Uniform.Domain (0.0 : Float) 1.0 := by unfold FDom.Uniform.Domain; decide
example : ¬ FDom.Uniform.Domain (-0.0 : Float) 0.0 := by unfold FDom.Uniform.Domain; decide
example : FDom.InverseGamma.Domain (3.0 : Float) 1.0 := by unfold FDom.InverseGamma.Domain; decide
example : ¬ FDom.InverseGamma.Domain (RFun.inf : Float) 1.0 := by unfold FDom.InverseGamma.Domain; decide
example : FDom.Geometric.Domain (1.0 : Float) := by unfold FDom.Geometric.Domain; decide
example : FDom.Bernoulli.Domain (-0.0 : Float) := by unfold FDom.Bernoulli.Domain; decide

end Statrs.Props.C09
