/-
  Statrs.Draft.C09.FloatDomain — the DOCUMENTED parameter domains of the scalar constructors (the `# Errors`
  sections of `X::new`, the doc comments of the `XError` variants), written over an ARBITRARY carrier `α` with
  the model's own classifiers and comparisons: `RFun.isNaN · = true`, `RFun.isInf · = true`, `≤`, `<`, `==`,
  the literals `(0.0 : α)`, `(1.0 : α)` and `RFun.inf`.

  This is a verbatim transcription of `Statrs/Spec/Domain.lean` (`Dom.X.Domain/ErrDoc/docErr`, carrier `XR`)
  obtained by the substitution  `IsNaN x ↦ RFun.isNaN x = true`, `IsInf x ↦ RFun.isInf x = true`, `z ↦ 0.0`,
  `one ↦ 1.0`, `pinf ↦ RFun.inf`;  `FloatDomainXR.lean` proves `FDom.X.Domain (α := XR) = Dom.X.Domain` etc.,
  so at `XR` these ARE the documented domains, and at `α = Float` they are the same sentences read over `f64`.
  Nothing in this file mentions the generated model.
-/
import Statrs.Basic
import Statrs.Gen.Types
namespace Statrs.Spec.FDom
open Statrs Statrs.Gen
open Classical

variable {α : Type} [LT α] [LE α] [BEq α] [OfScientific α] [RFun α]

/-! ## Bernoulli — src/distribution/bernoulli.rs -/
namespace Bernoulli
def Domain (p : α) : Prop :=
  -- "Returns an error if `p` is `NaN`,
  ¬ RFun.isNaN p = true ∧
  --  less than `0.0`
  ¬ p < (0.0 : α) ∧
  --  or greater than `1.0`"
  ¬ (1.0 : α) < p
def ErrDoc (p : α) : BinomialError → Prop
  -- "The probability is NaN or not in `[0, 1]`."
  | .ProbabilityInvalid => RFun.isNaN p = true ∨ ¬ ((0.0 : α) ≤ p ∧ p ≤ (1.0 : α))
def docErr (_p : α) : BinomialError := .ProbabilityInvalid
end Bernoulli

/-! ## Beta — src/distribution/beta.rs -/
namespace Beta
def Domain (shape_a shape_b : α) : Prop :=
  -- "Returns an error if `shape_a` or `shape_b` are `NaN` or infinite."
  ¬ RFun.isNaN shape_a = true ∧ ¬ RFun.isNaN shape_b = true ∧ ¬ RFun.isInf shape_a = true ∧ ¬ RFun.isInf shape_b = true ∧
  -- "Also returns an error if `shape_a <= 0.0` or `shape_b <= 0.0`"
  ¬ shape_a ≤ (0.0 : α) ∧ ¬ shape_b ≤ (0.0 : α)
def ErrDoc (shape_a shape_b : α) : BetaError → Prop
  -- "Shape A is NaN, infinite, zero or negative."
  | .ShapeAInvalid => RFun.isNaN shape_a = true ∨ RFun.isInf shape_a = true ∨ shape_a ≤ (0.0 : α)
  -- "Shape B is NaN, infinite, zero or negative."
  | .ShapeBInvalid => RFun.isNaN shape_b = true ∨ RFun.isInf shape_b = true ∨ shape_b ≤ (0.0 : α)
noncomputable def docErr (shape_a shape_b : α) : BetaError :=
  if ErrDoc shape_a shape_b .ShapeAInvalid then .ShapeAInvalid else .ShapeBInvalid
end Beta

/-! ## Binomial — src/distribution/binomial.rs  (`n : u64`) -/
namespace Binomial
def Domain (p : α) (n : Int) : Prop :=
  -- "Returns an error if `p` is `NaN`,
  ¬ RFun.isNaN p = true ∧
  --  less than `0.0`,
  ¬ p < (0.0 : α) ∧
  --  greater than `1.0`,
  ¬ (1.0 : α) < p ∧
  --  or if `n` is less than `0`"   (vacuous for a `u64`)
  ¬ n < 0
def ErrDoc (p : α) (_n : Int) : BinomialError → Prop
  -- "The probability is NaN or not in `[0, 1]`."
  | .ProbabilityInvalid => RFun.isNaN p = true ∨ ¬ ((0.0 : α) ≤ p ∧ p ≤ (1.0 : α))
def docErr (_p : α) (_n : Int) : BinomialError := .ProbabilityInvalid
end Binomial

/-! ## Cauchy — src/distribution/cauchy.rs -/
namespace Cauchy
def Domain (location scale : α) : Prop :=
  -- "Returns an error if location or scale are `NaN`
  ¬ RFun.isNaN location = true ∧ ¬ RFun.isNaN scale = true ∧
  --  or `scale <= 0.0`"
  ¬ scale ≤ (0.0 : α)
def ErrDoc (location scale : α) : CauchyError → Prop
  -- "The location is NaN."
  | .LocationInvalid => RFun.isNaN location = true
  -- "The scale is NaN, zero or less than zero."
  | .ScaleInvalid => RFun.isNaN scale = true ∨ scale ≤ (0.0 : α)
noncomputable def docErr (location scale : α) : CauchyError :=
  if ErrDoc location scale .LocationInvalid then .LocationInvalid else .ScaleInvalid
end Cauchy

/-! ## Chi — src/distribution/chi.rs  (`freedom : u64`) -/
namespace Chi
def Domain (freedom : Int) : Prop :=
  -- "Returns an error if `freedom` is equal to `0`."
  ¬ freedom = 0
def ErrDoc (freedom : Int) : ChiError → Prop
  -- "The degrees of freedom are zero."
  | .FreedomInvalid => freedom = 0
def docErr (_freedom : Int) : ChiError := .FreedomInvalid
end Chi

/-! ## ChiSquared — src/distribution/chi_squared.rs  (errors are `GammaError`s of the underlying
    `Gamma(freedom / 2.0, 0.5)`) -/
namespace ChiSquared
def Domain (freedom : α) : Prop :=
  -- "Returns an error if `freedom` is `NaN`
  ¬ RFun.isNaN freedom = true ∧
  --  or less than or equal to `0.0`"
  ¬ freedom ≤ (0.0 : α)
def ErrDoc (freedom : α) : GammaError → Prop
  -- "The shape is NaN, zero or less than zero."  (shape = freedom / 2.0)
  | .ShapeInvalid => RFun.isNaN freedom = true ∨ freedom ≤ (0.0 : α)
  -- "The rate is NaN, zero or less than zero."  (rate = 0.5: never)
  | .RateInvalid => False
  -- "The shape and rate are both infinite."  (rate = 0.5: never)
  | .ShapeAndRateInfinite => False
def docErr (_freedom : α) : GammaError := .ShapeInvalid
end ChiSquared

/-! ## Dirac — src/distribution/dirac.rs -/
namespace Dirac
def Domain (v : α) : Prop :=
  -- "Returns an error if `v` is not-a-number."
  ¬ RFun.isNaN v = true
def ErrDoc (v : α) : DiracError → Prop
  -- "The value v is NaN."
  | .ValueInvalid => RFun.isNaN v = true
def docErr (_v : α) : DiracError := .ValueInvalid
end Dirac

/-! ## DiscreteUniform — src/distribution/discrete_uniform.rs  (`min, max : i64`) -/
namespace DiscreteUniform
def Domain (min max : Int) : Prop :=
  -- "Returns an error if `max < min`"
  ¬ max < min
def ErrDoc (min max : Int) : DiscreteUniformError → Prop
  -- "The maximum is less than the minimum."
  | .MinMaxInvalid => max < min
def docErr (_min _max : Int) : DiscreteUniformError := .MinMaxInvalid
end DiscreteUniform

/-! ## Erlang — src/distribution/erlang.rs  (`shape : u64`; errors are `GammaError`s) -/
namespace Erlang
def Domain (shape : Int) (rate : α) : Prop :=
  -- "Returns an error if `shape` or `rate` are `NaN`."   (an integer is never NaN)
  ¬ RFun.isNaN rate = true ∧
  -- "Also returns an error if `shape == 0`
  ¬ shape = 0 ∧
  --  or `rate <= 0.0`"
  ¬ rate ≤ (0.0 : α)
def ErrDoc (shape : Int) (rate : α) : GammaError → Prop
  -- "The shape is NaN, zero or less than zero."
  | .ShapeInvalid => shape ≤ 0
  -- "The rate is NaN, zero or less than zero."
  | .RateInvalid => RFun.isNaN rate = true ∨ rate ≤ (0.0 : α)
  -- "The shape and rate are both infinite."   (an integer is never infinite)
  | .ShapeAndRateInfinite => False
noncomputable def docErr (shape : Int) (rate : α) : GammaError :=
  if ErrDoc shape rate .ShapeInvalid then .ShapeInvalid else .RateInvalid
end Erlang

/-! ## Exp — src/distribution/exponential.rs -/
namespace Exp
def Domain (rate : α) : Prop :=
  -- "Returns an error if rate is `NaN`
  ¬ RFun.isNaN rate = true ∧
  --  or `rate <= 0.0`."
  ¬ rate ≤ (0.0 : α)
def ErrDoc (rate : α) : ExpError → Prop
  -- "The rate is NaN, zero or less than zero."
  | .RateInvalid => RFun.isNaN rate = true ∨ rate ≤ (0.0 : α)
def docErr (_rate : α) : ExpError := .RateInvalid
end Exp

/-! ## FisherSnedecor — src/distribution/fisher_snedecor.rs -/
namespace FisherSnedecor
/-- the domain as the `# Errors` section of `FisherSnedecor::new` documents it (infinite degrees of
    freedom are NOT listed there) -/
def Domain (freedom_1 freedom_2 : α) : Prop :=
  -- "Returns an error if `freedom_1` or `freedom_2` are `NaN`."
  ¬ RFun.isNaN freedom_1 = true ∧ ¬ RFun.isNaN freedom_2 = true ∧
  -- "Also returns an error if `freedom_1 <= 0.0` or `freedom_2 <= 0.0`"
  ¬ freedom_1 ≤ (0.0 : α) ∧ ¬ freedom_2 ≤ (0.0 : α)
/-- the domain the code implements (= `Domain` plus the "infinite" clause that only the
    `FisherSnedecorError` variant docs mention) -/
def DomainImpl (freedom_1 freedom_2 : α) : Prop :=
  Domain freedom_1 freedom_2 ∧ ¬ RFun.isInf freedom_1 = true ∧ ¬ RFun.isInf freedom_2 = true
def ErrDoc (freedom_1 freedom_2 : α) : FisherSnedecorError → Prop
  -- "`freedom_1` is NaN, infinite, zero or less than zero."
  | .Freedom1Invalid => RFun.isNaN freedom_1 = true ∨ RFun.isInf freedom_1 = true ∨ freedom_1 ≤ (0.0 : α)
  -- "`freedom_2` is NaN, infinite, zero or less than zero."
  | .Freedom2Invalid => RFun.isNaN freedom_2 = true ∨ RFun.isInf freedom_2 = true ∨ freedom_2 ≤ (0.0 : α)
noncomputable def docErr (freedom_1 freedom_2 : α) : FisherSnedecorError :=
  if ErrDoc freedom_1 freedom_2 .Freedom1Invalid then .Freedom1Invalid else .Freedom2Invalid
end FisherSnedecor

/-! ## Gamma — src/distribution/gamma.rs -/
namespace Gamma
/-- the domain as the `# Errors` section of `Gamma::new` documents it (ANY infinite parameter is an
    error there) -/
def Domain (shape rate : α) : Prop :=
  -- "Returns an error if `shape` is 'NaN' or inf
  ¬ RFun.isNaN shape = true ∧ ¬ RFun.isInf shape = true ∧
  --  or `rate` is `NaN` or inf."
  ¬ RFun.isNaN rate = true ∧ ¬ RFun.isInf rate = true ∧
  -- "Also returns an error if `shape <= 0.0` or `rate <= 0.0`"
  ¬ shape ≤ (0.0 : α) ∧ ¬ rate ≤ (0.0 : α)
/-- the domain the code implements (what the `GammaError` variant docs describe: only BOTH
    parameters infinite is an error) -/
def DomainImpl (shape rate : α) : Prop :=
  ¬ RFun.isNaN shape = true ∧ ¬ RFun.isNaN rate = true ∧ ¬ shape ≤ (0.0 : α) ∧ ¬ rate ≤ (0.0 : α) ∧ ¬ (RFun.isInf shape = true ∧ RFun.isInf rate = true)
def ErrDoc (shape rate : α) : GammaError → Prop
  -- "The shape is NaN, zero or less than zero."
  | .ShapeInvalid => RFun.isNaN shape = true ∨ shape ≤ (0.0 : α)
  -- "The rate is NaN, zero or less than zero."
  | .RateInvalid => RFun.isNaN rate = true ∨ rate ≤ (0.0 : α)
  -- "The shape and rate are both infinite."
  | .ShapeAndRateInfinite => RFun.isInf shape = true ∧ RFun.isInf rate = true
noncomputable def docErr (shape rate : α) : GammaError :=
  if ErrDoc shape rate .ShapeInvalid then .ShapeInvalid
  else if ErrDoc shape rate .RateInvalid then .RateInvalid
  else .ShapeAndRateInfinite
end Gamma

/-! ## Geometric — src/distribution/geometric.rs -/
namespace Geometric
def Domain (p : α) : Prop :=
  -- "Returns an error if `p` is not in `(0, 1]`"
  (0.0 : α) < p ∧ p ≤ (1.0 : α)
def ErrDoc (p : α) : GeometricError → Prop
  -- "The probability is NaN or not in `(0, 1]`."
  | .ProbabilityInvalid => RFun.isNaN p = true ∨ ¬ ((0.0 : α) < p ∧ p ≤ (1.0 : α))
def docErr (_p : α) : GeometricError := .ProbabilityInvalid
end Geometric

/-! ## Gumbel — src/distribution/gumbel.rs -/
namespace Gumbel
def Domain (location scale : α) : Prop :=
  -- "Returns an error if location or scale are `NaN`
  ¬ RFun.isNaN location = true ∧ ¬ RFun.isNaN scale = true ∧
  --  or `scale <= 0.0`"
  ¬ scale ≤ (0.0 : α)
def ErrDoc (location scale : α) : GumbelError → Prop
  -- "The location is invalid (NAN)"
  | .LocationInvalid => RFun.isNaN location = true
  -- "The scale is NAN, zero or less than zero"
  | .ScaleInvalid => RFun.isNaN scale = true ∨ scale ≤ (0.0 : α)
noncomputable def docErr (location scale : α) : GumbelError :=
  if ErrDoc location scale .LocationInvalid then .LocationInvalid else .ScaleInvalid
end Gumbel

/-! ## Hypergeometric — src/distribution/hypergeometric.rs  (all `u64`) -/
namespace Hypergeometric
def Domain (population successes draws : Int) : Prop :=
  -- "If `successes > population`
  ¬ population < successes ∧
  --  or `draws > population`."
  ¬ population < draws
def ErrDoc (population successes draws : Int) : HypergeometricError → Prop
  -- "The number of successes is greater than the population."
  | .TooManySuccesses => population < successes
  -- "The number of draws is greater than the population."
  | .TooManyDraws => population < draws
noncomputable def docErr (population successes draws : Int) : HypergeometricError :=
  if ErrDoc population successes draws .TooManySuccesses then .TooManySuccesses else .TooManyDraws
end Hypergeometric

/-! ## InverseGamma — src/distribution/inverse_gamma.rs -/
namespace InverseGamma
def Domain (shape rate : α) : Prop :=
  -- "Returns an error if `shape` or `rate` are `NaN`."
  ¬ RFun.isNaN shape = true ∧ ¬ RFun.isNaN rate = true ∧
  -- "Also returns an error if `shape` or `rate` are not in `(0, +inf)`"
  ((0.0 : α) < shape ∧ shape < (RFun.inf : α)) ∧ ((0.0 : α) < rate ∧ rate < (RFun.inf : α))
def ErrDoc (shape rate : α) : InverseGammaError → Prop
  -- "The shape is NaN, infinite, zero or less than zero."
  | .ShapeInvalid => RFun.isNaN shape = true ∨ RFun.isInf shape = true ∨ shape ≤ (0.0 : α)
  -- "The rate is NaN, infinite, zero or less than zero."
  | .RateInvalid => RFun.isNaN rate = true ∨ RFun.isInf rate = true ∨ rate ≤ (0.0 : α)
noncomputable def docErr (shape rate : α) : InverseGammaError :=
  if ErrDoc shape rate .ShapeInvalid then .ShapeInvalid else .RateInvalid
end InverseGamma

/-! ## Laplace — src/distribution/laplace.rs -/
namespace Laplace
def Domain (location scale : α) : Prop :=
  -- "Returns an error if location or scale are `NaN`
  ¬ RFun.isNaN location = true ∧ ¬ RFun.isNaN scale = true ∧
  --  or `scale <= 0.0`"
  ¬ scale ≤ (0.0 : α)
def ErrDoc (location scale : α) : LaplaceError → Prop
  -- "The location is NaN."
  | .LocationInvalid => RFun.isNaN location = true
  -- "The scale is NaN, zero or less than zero."
  | .ScaleInvalid => RFun.isNaN scale = true ∨ scale ≤ (0.0 : α)
noncomputable def docErr (location scale : α) : LaplaceError :=
  if ErrDoc location scale .LocationInvalid then .LocationInvalid else .ScaleInvalid
end Laplace

/-! ## Levy — src/distribution/levy.rs -/
namespace Levy
def Domain (mu c : α) : Prop :=
  -- "Returns and error if `mu` is NaN or infinite
  ¬ RFun.isNaN mu = true ∧ ¬ RFun.isInf mu = true ∧
  --  or if `c` is NaN, infinite or nonpositive"
  ¬ RFun.isNaN c = true ∧ ¬ RFun.isInf c = true ∧ ¬ c ≤ (0.0 : α)
def ErrDoc (mu c : α) : LevyError → Prop
  -- "Location is NaN or infinite"
  | .LocationInvalid => RFun.isNaN mu = true ∨ RFun.isInf mu = true
  -- "Scale is NaN, infinite or nonpositive"
  | .ScaleInvalid => RFun.isNaN c = true ∨ RFun.isInf c = true ∨ c ≤ (0.0 : α)
noncomputable def docErr (mu c : α) : LevyError :=
  if ErrDoc mu c .LocationInvalid then .LocationInvalid else .ScaleInvalid
end Levy

/-! ## LogNormal — src/distribution/log_normal.rs -/
namespace LogNormal
def Domain (location scale : α) : Prop :=
  -- "Returns an error if `location` or `scale` are `NaN`."
  ¬ RFun.isNaN location = true ∧ ¬ RFun.isNaN scale = true ∧
  -- "Returns an error if `scale <= 0.0`"
  ¬ scale ≤ (0.0 : α)
def ErrDoc (location scale : α) : LogNormalError → Prop
  -- "The location is NaN."
  | .LocationInvalid => RFun.isNaN location = true
  -- "The scale is NaN, zero or less than zero."
  | .ScaleInvalid => RFun.isNaN scale = true ∨ scale ≤ (0.0 : α)
noncomputable def docErr (location scale : α) : LogNormalError :=
  if ErrDoc location scale .LocationInvalid then .LocationInvalid else .ScaleInvalid
end LogNormal

/-! ## NegativeBinomial — src/distribution/negative_binomial.rs -/
namespace NegativeBinomial
def Domain (r p : α) : Prop :=
  -- "Returns an error if `p` is `NaN`,
  ¬ RFun.isNaN p = true ∧
  --  less than `0.0`,
  ¬ p < (0.0 : α) ∧
  --  greater than `1.0`,
  ¬ (1.0 : α) < p ∧
  --  or if `r` is `NaN`
  ¬ RFun.isNaN r = true ∧
  --  or less than `0`"
  ¬ r < (0.0 : α)
def ErrDoc (r p : α) : NegativeBinomialError → Prop
  -- "`r` is NaN or less than zero."
  | .RInvalid => RFun.isNaN r = true ∨ r < (0.0 : α)
  -- "`p` is NaN or not in `[0, 1]`."
  | .PInvalid => RFun.isNaN p = true ∨ ¬ ((0.0 : α) ≤ p ∧ p ≤ (1.0 : α))
noncomputable def docErr (r p : α) : NegativeBinomialError :=
  if ErrDoc r p .RInvalid then .RInvalid else .PInvalid
end NegativeBinomial

/-! ## Normal — src/distribution/normal.rs -/
namespace Normal
def Domain (mean std_dev : α) : Prop :=
  -- "Returns an error if `mean` or `std_dev` are `NaN`
  ¬ RFun.isNaN mean = true ∧ ¬ RFun.isNaN std_dev = true ∧
  --  or if `std_dev <= 0.0`"
  ¬ std_dev ≤ (0.0 : α)
def ErrDoc (mean std_dev : α) : NormalError → Prop
  -- "The mean is NaN."
  | .MeanInvalid => RFun.isNaN mean = true
  -- "The standard deviation is NaN, zero or less than zero."
  | .StandardDeviationInvalid => RFun.isNaN std_dev = true ∨ std_dev ≤ (0.0 : α)
noncomputable def docErr (mean std_dev : α) : NormalError :=
  if ErrDoc mean std_dev .MeanInvalid then .MeanInvalid else .StandardDeviationInvalid
end Normal

/-! ## Pareto — src/distribution/pareto.rs -/
namespace Pareto
def Domain (scale shape : α) : Prop :=
  -- "Returns an error if any of `scale` or `shape` are `NaN`."
  ¬ RFun.isNaN scale = true ∧ ¬ RFun.isNaN shape = true ∧
  -- "Returns an error if `scale <= 0.0` or `shape <= 0.0`"
  ¬ scale ≤ (0.0 : α) ∧ ¬ shape ≤ (0.0 : α)
def ErrDoc (scale shape : α) : ParetoError → Prop
  -- "The scale is NaN, zero or less than zero."
  | .ScaleInvalid => RFun.isNaN scale = true ∨ scale ≤ (0.0 : α)
  -- "The shape is NaN, zero or less than zero."
  | .ShapeInvalid => RFun.isNaN shape = true ∨ shape ≤ (0.0 : α)
noncomputable def docErr (scale shape : α) : ParetoError :=
  if ErrDoc scale shape .ScaleInvalid then .ScaleInvalid else .ShapeInvalid
end Pareto

/-! ## Poisson — src/distribution/poisson.rs -/
namespace Poisson
def Domain (lambda : α) : Prop :=
  -- "Returns an error if `lambda` is `NaN`
  ¬ RFun.isNaN lambda = true ∧
  --  or `lambda <= 0.0`"
  ¬ lambda ≤ (0.0 : α)
def ErrDoc (lambda : α) : PoissonError → Prop
  -- "The lambda is NaN, zero or less than zero."
  | .LambdaInvalid => RFun.isNaN lambda = true ∨ lambda ≤ (0.0 : α)
def docErr (_lambda : α) : PoissonError := .LambdaInvalid
end Poisson

/-! ## StudentsT — src/distribution/students_t.rs -/
namespace StudentsT
def Domain (location scale freedom : α) : Prop :=
  -- "Returns an error if any of `location`, `scale`, or `freedom` are `NaN`."
  ¬ RFun.isNaN location = true ∧ ¬ RFun.isNaN scale = true ∧ ¬ RFun.isNaN freedom = true ∧
  -- "Returns an error if `scale <= 0.0` or `freedom <= 0.0`."
  ¬ scale ≤ (0.0 : α) ∧ ¬ freedom ≤ (0.0 : α)
def ErrDoc (location scale freedom : α) : StudentsTError → Prop
  -- "The location is NaN."
  | .LocationInvalid => RFun.isNaN location = true
  -- "The scale is NaN, zero or less than zero."
  | .ScaleInvalid => RFun.isNaN scale = true ∨ scale ≤ (0.0 : α)
  -- "The degrees of freedom are NaN, zero or less than zero."
  | .FreedomInvalid => RFun.isNaN freedom = true ∨ freedom ≤ (0.0 : α)
noncomputable def docErr (location scale freedom : α) : StudentsTError :=
  if ErrDoc location scale freedom .LocationInvalid then .LocationInvalid
  else if ErrDoc location scale freedom .ScaleInvalid then .ScaleInvalid
  else .FreedomInvalid
end StudentsT

/-! ## Triangular — src/distribution/triangular.rs -/
namespace Triangular
def Domain (min max mode : α) : Prop :=
  -- "Returns an error if `min`, `max`, or `mode` are `NaN` or `±INF`."
  (¬ RFun.isNaN min = true ∧ ¬ RFun.isInf min = true) ∧ (¬ RFun.isNaN max = true ∧ ¬ RFun.isInf max = true) ∧ (¬ RFun.isNaN mode = true ∧ ¬ RFun.isInf mode = true) ∧
  -- "Returns an error if `max < mode`, `mode < min`,
  ¬ max < mode ∧ ¬ mode < min ∧
  --  or `max == min`."
  ¬ (max == min) = true
def ErrDoc (min max mode : α) : TriangularError → Prop
  -- "The minimum is NaN or infinite."
  | .MinInvalid => RFun.isNaN min = true ∨ RFun.isInf min = true
  -- "The maximum is NaN or infinite."
  | .MaxInvalid => RFun.isNaN max = true ∨ RFun.isInf max = true
  -- "The mode is NaN or infinite."
  | .ModeInvalid => RFun.isNaN mode = true ∨ RFun.isInf mode = true
  -- "The mode is less than the minimum or greater than the maximum."
  | .ModeOutOfRange => mode < min ∨ max < mode
  -- "The minimum equals the maximum."
  | .MinEqualsMax => (min == max) = true
noncomputable def docErr (min max mode : α) : TriangularError :=
  if ErrDoc min max mode .MinInvalid then .MinInvalid
  else if ErrDoc min max mode .MaxInvalid then .MaxInvalid
  else if ErrDoc min max mode .ModeInvalid then .ModeInvalid
  else if ErrDoc min max mode .ModeOutOfRange then .ModeOutOfRange
  else .MinEqualsMax
end Triangular

/-! ## Uniform — src/distribution/uniform.rs -/
namespace Uniform
def Domain (min max : α) : Prop :=
  -- "Returns an error if `min` or `max` are `NaN` or infinite."
  (¬ RFun.isNaN min = true ∧ ¬ RFun.isInf min = true) ∧ (¬ RFun.isNaN max = true ∧ ¬ RFun.isInf max = true) ∧
  -- "Returns an error if `min >= max`."
  ¬ max ≤ min
def ErrDoc (min max : α) : UniformError → Prop
  -- "The minimum is NaN or infinite."
  | .MinInvalid => RFun.isNaN min = true ∨ RFun.isInf min = true
  -- "The maximum is NaN or infinite."
  | .MaxInvalid => RFun.isNaN max = true ∨ RFun.isInf max = true
  -- "The maximum is not greater than the minimum."
  | .MaxNotGreaterThanMin => ¬ min < max
noncomputable def docErr (min max : α) : UniformError :=
  if ErrDoc min max .MinInvalid then .MinInvalid
  else if ErrDoc min max .MaxInvalid then .MaxInvalid
  else .MaxNotGreaterThanMin
end Uniform

/-! ## Weibull — src/distribution/weibull.rs -/
namespace Weibull
def Domain (shape scale : α) : Prop :=
  -- "Returns an error if `shape` or `scale` are `NaN`."
  ¬ RFun.isNaN shape = true ∧ ¬ RFun.isNaN scale = true ∧
  -- "Returns an error if `shape <= 0.0` or `scale <= 0.0`"
  ¬ shape ≤ (0.0 : α) ∧ ¬ scale ≤ (0.0 : α)
def ErrDoc (shape scale : α) : WeibullError → Prop
  -- "The shape is NaN, zero or less than zero."
  | .ShapeInvalid => RFun.isNaN shape = true ∨ shape ≤ (0.0 : α)
  -- "The scale is NaN, zero or less than zero."
  | .ScaleInvalid => RFun.isNaN scale = true ∨ scale ≤ (0.0 : α)
noncomputable def docErr (shape scale : α) : WeibullError :=
  if ErrDoc shape scale .ShapeInvalid then .ShapeInvalid else .ScaleInvalid
end Weibull



end Statrs.Spec.FDom
