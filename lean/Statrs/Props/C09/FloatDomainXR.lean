/-
  C09 — the carrier-generic documented domains `FDom.X.*` (`FloatDomain.lean`) coincide, at the rounding-free
  carrier `XR`, with the documented domains `Dom.X.*` of `Statrs/Spec/Domain.lean` against which the original C09
  theorems are stated.  Hence `FDom` is the same specification, merely readable over every carrier (in particular
  over `Float`), and `x_new_ok_iff_fl` at `α := XR` is literally `x_new_ok_iff`.
  (The integer-only families `Chi`, `DiscreteUniform`, `Hypergeometric` have carrier-free domains: `Iff.rfl`.)
-/
import Statrs.Props.C09.FloatDomain
import Statrs.Spec.Domain
import Mathlib.Tactic
set_option linter.unusedSimpArgs false
set_option linter.unnecessarySeqFocus false
set_option linter.unusedTactic false
set_option linter.unreachableTactic false
namespace Statrs.Props.C09
open Statrs Statrs.Gen Statrs.Spec Statrs.Spec.XR

theorem xr_zero_eq : (0.0 : XR) = Dom.z := by rw [ofScientific_eq]; norm_num
theorem xr_one_eq : (1.0 : XR) = Dom.one := by rw [ofScientific_eq]; norm_num

/-- full(XR): the generic documented domain of `Bernoulli::new` at `XR` is `Dom.Bernoulli.Domain` -/
theorem fdom_bernoulli_domain_xr (p : XR) : FDom.Bernoulli.Domain p ↔ Dom.Bernoulli.Domain p := by
  simp only [FDom.Bernoulli.Domain, Dom.Bernoulli.Domain, FDom.Bernoulli.Domain, Dom.Bernoulli.Domain, rfun_isNaN_iff, rfun_isInf_iff, xr_zero_eq, xr_one_eq, rfun_inf]
/-- full(XR): … so are the documented error conditions … -/
theorem fdom_bernoulli_errDoc_xr (p : XR) (e : BinomialError) : FDom.Bernoulli.ErrDoc p e ↔ Dom.Bernoulli.ErrDoc p e := by
  cases e <;> simp only [FDom.Bernoulli.ErrDoc, Dom.Bernoulli.ErrDoc, rfun_isNaN_iff, rfun_isInf_iff, xr_zero_eq, xr_one_eq, rfun_inf]
/-- full(XR): … and the documented variant -/
theorem fdom_bernoulli_docErr_xr (p : XR) : FDom.Bernoulli.docErr p = Dom.Bernoulli.docErr p := by
  first
    | rfl
    | (simp only [FDom.Bernoulli.docErr, Dom.Bernoulli.docErr]; split_ifs <;> first | rfl | (simp_all [fdom_bernoulli_errDoc_xr]))

/-- full(XR): the generic documented domain of `Beta::new` at `XR` is `Dom.Beta.Domain` -/
theorem fdom_beta_domain_xr (a b : XR) : FDom.Beta.Domain a b ↔ Dom.Beta.Domain a b := by
  simp only [FDom.Beta.Domain, Dom.Beta.Domain, FDom.Beta.Domain, Dom.Beta.Domain, rfun_isNaN_iff, rfun_isInf_iff, xr_zero_eq, xr_one_eq, rfun_inf]
/-- full(XR): … so are the documented error conditions … -/
theorem fdom_beta_errDoc_xr (a b : XR) (e : BetaError) : FDom.Beta.ErrDoc a b e ↔ Dom.Beta.ErrDoc a b e := by
  cases e <;> simp only [FDom.Beta.ErrDoc, Dom.Beta.ErrDoc, rfun_isNaN_iff, rfun_isInf_iff, xr_zero_eq, xr_one_eq, rfun_inf]
/-- full(XR): … and the documented variant -/
theorem fdom_beta_docErr_xr (a b : XR) : FDom.Beta.docErr a b = Dom.Beta.docErr a b := by
  first
    | rfl
    | (simp only [FDom.Beta.docErr, Dom.Beta.docErr]; split_ifs <;> first | rfl | (simp_all [fdom_beta_errDoc_xr]))

/-- full(XR): the generic documented domain of `Binomial::new` at `XR` is `Dom.Binomial.Domain` -/
theorem fdom_binomial_domain_xr (p : XR) (n : Int) : FDom.Binomial.Domain p n ↔ Dom.Binomial.Domain p n := by
  simp only [FDom.Binomial.Domain, Dom.Binomial.Domain, FDom.Binomial.Domain, Dom.Binomial.Domain, rfun_isNaN_iff, rfun_isInf_iff, xr_zero_eq, xr_one_eq, rfun_inf]
/-- full(XR): … so are the documented error conditions … -/
theorem fdom_binomial_errDoc_xr (p : XR) (n : Int) (e : BinomialError) : FDom.Binomial.ErrDoc p n e ↔ Dom.Binomial.ErrDoc p n e := by
  cases e <;> simp only [FDom.Binomial.ErrDoc, Dom.Binomial.ErrDoc, rfun_isNaN_iff, rfun_isInf_iff, xr_zero_eq, xr_one_eq, rfun_inf]
/-- full(XR): … and the documented variant -/
theorem fdom_binomial_docErr_xr (p : XR) (n : Int) : FDom.Binomial.docErr p n = Dom.Binomial.docErr p n := by
  first
    | rfl
    | (simp only [FDom.Binomial.docErr, Dom.Binomial.docErr]; split_ifs <;> first | rfl | (simp_all [fdom_binomial_errDoc_xr]))

/-- full(XR): the generic documented domain of `Cauchy::new` at `XR` is `Dom.Cauchy.Domain` -/
theorem fdom_cauchy_domain_xr (l s : XR) : FDom.Cauchy.Domain l s ↔ Dom.Cauchy.Domain l s := by
  simp only [FDom.Cauchy.Domain, Dom.Cauchy.Domain, FDom.Cauchy.Domain, Dom.Cauchy.Domain, rfun_isNaN_iff, rfun_isInf_iff, xr_zero_eq, xr_one_eq, rfun_inf]
/-- full(XR): … so are the documented error conditions … -/
theorem fdom_cauchy_errDoc_xr (l s : XR) (e : CauchyError) : FDom.Cauchy.ErrDoc l s e ↔ Dom.Cauchy.ErrDoc l s e := by
  cases e <;> simp only [FDom.Cauchy.ErrDoc, Dom.Cauchy.ErrDoc, rfun_isNaN_iff, rfun_isInf_iff, xr_zero_eq, xr_one_eq, rfun_inf]
/-- full(XR): … and the documented variant -/
theorem fdom_cauchy_docErr_xr (l s : XR) : FDom.Cauchy.docErr l s = Dom.Cauchy.docErr l s := by
  first
    | rfl
    | (simp only [FDom.Cauchy.docErr, Dom.Cauchy.docErr]; split_ifs <;> first | rfl | (simp_all [fdom_cauchy_errDoc_xr]))

/-- full(XR): the generic documented domain of `ChiSquared::new` at `XR` is `Dom.ChiSquared.Domain` -/
theorem fdom_chiSquared_domain_xr (k : XR) : FDom.ChiSquared.Domain k ↔ Dom.ChiSquared.Domain k := by
  simp only [FDom.ChiSquared.Domain, Dom.ChiSquared.Domain, FDom.ChiSquared.Domain, Dom.ChiSquared.Domain, rfun_isNaN_iff, rfun_isInf_iff, xr_zero_eq, xr_one_eq, rfun_inf]
/-- full(XR): … so are the documented error conditions … -/
theorem fdom_chiSquared_errDoc_xr (k : XR) (e : GammaError) : FDom.ChiSquared.ErrDoc k e ↔ Dom.ChiSquared.ErrDoc k e := by
  cases e <;> simp only [FDom.ChiSquared.ErrDoc, Dom.ChiSquared.ErrDoc, rfun_isNaN_iff, rfun_isInf_iff, xr_zero_eq, xr_one_eq, rfun_inf]
/-- full(XR): … and the documented variant -/
theorem fdom_chiSquared_docErr_xr (k : XR) : FDom.ChiSquared.docErr k = Dom.ChiSquared.docErr k := by
  first
    | rfl
    | (simp only [FDom.ChiSquared.docErr, Dom.ChiSquared.docErr]; split_ifs <;> first | rfl | (simp_all [fdom_chiSquared_errDoc_xr]))

/-- full(XR): the generic documented domain of `Dirac::new` at `XR` is `Dom.Dirac.Domain` -/
theorem fdom_dirac_domain_xr (v : XR) : FDom.Dirac.Domain v ↔ Dom.Dirac.Domain v := by
  simp only [FDom.Dirac.Domain, Dom.Dirac.Domain, FDom.Dirac.Domain, Dom.Dirac.Domain, rfun_isNaN_iff, rfun_isInf_iff, xr_zero_eq, xr_one_eq, rfun_inf]
/-- full(XR): … so are the documented error conditions … -/
theorem fdom_dirac_errDoc_xr (v : XR) (e : DiracError) : FDom.Dirac.ErrDoc v e ↔ Dom.Dirac.ErrDoc v e := by
  cases e <;> simp only [FDom.Dirac.ErrDoc, Dom.Dirac.ErrDoc, rfun_isNaN_iff, rfun_isInf_iff, xr_zero_eq, xr_one_eq, rfun_inf]
/-- full(XR): … and the documented variant -/
theorem fdom_dirac_docErr_xr (v : XR) : FDom.Dirac.docErr v = Dom.Dirac.docErr v := by
  first
    | rfl
    | (simp only [FDom.Dirac.docErr, Dom.Dirac.docErr]; split_ifs <;> first | rfl | (simp_all [fdom_dirac_errDoc_xr]))

/-- full(XR): the generic documented domain of `Erlang::new` at `XR` is `Dom.Erlang.Domain` -/
theorem fdom_erlang_domain_xr (k : Int) (r : XR) : FDom.Erlang.Domain k r ↔ Dom.Erlang.Domain k r := by
  simp only [FDom.Erlang.Domain, Dom.Erlang.Domain, FDom.Erlang.Domain, Dom.Erlang.Domain, rfun_isNaN_iff, rfun_isInf_iff, xr_zero_eq, xr_one_eq, rfun_inf]
/-- full(XR): … so are the documented error conditions … -/
theorem fdom_erlang_errDoc_xr (k : Int) (r : XR) (e : GammaError) : FDom.Erlang.ErrDoc k r e ↔ Dom.Erlang.ErrDoc k r e := by
  cases e <;> simp only [FDom.Erlang.ErrDoc, Dom.Erlang.ErrDoc, rfun_isNaN_iff, rfun_isInf_iff, xr_zero_eq, xr_one_eq, rfun_inf]
/-- full(XR): … and the documented variant -/
theorem fdom_erlang_docErr_xr (k : Int) (r : XR) : FDom.Erlang.docErr k r = Dom.Erlang.docErr k r := by
  first
    | rfl
    | (simp only [FDom.Erlang.docErr, Dom.Erlang.docErr]; split_ifs <;> first | rfl | (simp_all [fdom_erlang_errDoc_xr]))

/-- full(XR): the generic documented domain of `Exp::new` at `XR` is `Dom.Exp.Domain` -/
theorem fdom_exp_domain_xr (r : XR) : FDom.Exp.Domain r ↔ Dom.Exp.Domain r := by
  simp only [FDom.Exp.Domain, Dom.Exp.Domain, FDom.Exp.Domain, Dom.Exp.Domain, rfun_isNaN_iff, rfun_isInf_iff, xr_zero_eq, xr_one_eq, rfun_inf]
/-- full(XR): … so are the documented error conditions … -/
theorem fdom_exp_errDoc_xr (r : XR) (e : ExpError) : FDom.Exp.ErrDoc r e ↔ Dom.Exp.ErrDoc r e := by
  cases e <;> simp only [FDom.Exp.ErrDoc, Dom.Exp.ErrDoc, rfun_isNaN_iff, rfun_isInf_iff, xr_zero_eq, xr_one_eq, rfun_inf]
/-- full(XR): … and the documented variant -/
theorem fdom_exp_docErr_xr (r : XR) : FDom.Exp.docErr r = Dom.Exp.docErr r := by
  first
    | rfl
    | (simp only [FDom.Exp.docErr, Dom.Exp.docErr]; split_ifs <;> first | rfl | (simp_all [fdom_exp_errDoc_xr]))

/-- full(XR): the generic documented domain of `FisherSnedecor::new` at `XR` is `Dom.FisherSnedecor.Domain` -/
theorem fdom_fisherSnedecor_domain_xr (a b : XR) : FDom.FisherSnedecor.Domain a b ↔ Dom.FisherSnedecor.Domain a b := by
  simp only [FDom.FisherSnedecor.Domain, Dom.FisherSnedecor.Domain, FDom.FisherSnedecor.Domain, Dom.FisherSnedecor.Domain, rfun_isNaN_iff, rfun_isInf_iff, xr_zero_eq, xr_one_eq, rfun_inf]
/-- full(XR): the generic documented domain of `FisherSnedecor::new` at `XR` is `Dom.FisherSnedecor.DomainImpl` -/
theorem fdom_fisherSnedecor_domainImpl_xr (a b : XR) : FDom.FisherSnedecor.DomainImpl a b ↔ Dom.FisherSnedecor.DomainImpl a b := by
  simp only [FDom.FisherSnedecor.DomainImpl, Dom.FisherSnedecor.DomainImpl, FDom.FisherSnedecor.Domain, Dom.FisherSnedecor.Domain, rfun_isNaN_iff, rfun_isInf_iff, xr_zero_eq, xr_one_eq, rfun_inf]
/-- full(XR): … so are the documented error conditions … -/
theorem fdom_fisherSnedecor_errDoc_xr (a b : XR) (e : FisherSnedecorError) : FDom.FisherSnedecor.ErrDoc a b e ↔ Dom.FisherSnedecor.ErrDoc a b e := by
  cases e <;> simp only [FDom.FisherSnedecor.ErrDoc, Dom.FisherSnedecor.ErrDoc, rfun_isNaN_iff, rfun_isInf_iff, xr_zero_eq, xr_one_eq, rfun_inf]
/-- full(XR): … and the documented variant -/
theorem fdom_fisherSnedecor_docErr_xr (a b : XR) : FDom.FisherSnedecor.docErr a b = Dom.FisherSnedecor.docErr a b := by
  first
    | rfl
    | (simp only [FDom.FisherSnedecor.docErr, Dom.FisherSnedecor.docErr]; split_ifs <;> first | rfl | (simp_all [fdom_fisherSnedecor_errDoc_xr]))

/-- full(XR): the generic documented domain of `Gamma::new` at `XR` is `Dom.Gamma.Domain` -/
theorem fdom_gamma_domain_xr (a b : XR) : FDom.Gamma.Domain a b ↔ Dom.Gamma.Domain a b := by
  simp only [FDom.Gamma.Domain, Dom.Gamma.Domain, FDom.Gamma.Domain, Dom.Gamma.Domain, rfun_isNaN_iff, rfun_isInf_iff, xr_zero_eq, xr_one_eq, rfun_inf]
/-- full(XR): the generic documented domain of `Gamma::new` at `XR` is `Dom.Gamma.DomainImpl` -/
theorem fdom_gamma_domainImpl_xr (a b : XR) : FDom.Gamma.DomainImpl a b ↔ Dom.Gamma.DomainImpl a b := by
  simp only [FDom.Gamma.DomainImpl, Dom.Gamma.DomainImpl, FDom.Gamma.Domain, Dom.Gamma.Domain, rfun_isNaN_iff, rfun_isInf_iff, xr_zero_eq, xr_one_eq, rfun_inf]
/-- full(XR): … so are the documented error conditions … -/
theorem fdom_gamma_errDoc_xr (a b : XR) (e : GammaError) : FDom.Gamma.ErrDoc a b e ↔ Dom.Gamma.ErrDoc a b e := by
  cases e <;> simp only [FDom.Gamma.ErrDoc, Dom.Gamma.ErrDoc, rfun_isNaN_iff, rfun_isInf_iff, xr_zero_eq, xr_one_eq, rfun_inf]
/-- full(XR): … and the documented variant -/
theorem fdom_gamma_docErr_xr (a b : XR) : FDom.Gamma.docErr a b = Dom.Gamma.docErr a b := by
  first
    | rfl
    | (simp only [FDom.Gamma.docErr, Dom.Gamma.docErr]; split_ifs <;> first | rfl | (simp_all [fdom_gamma_errDoc_xr]))

/-- full(XR): the generic documented domain of `Geometric::new` at `XR` is `Dom.Geometric.Domain` -/
theorem fdom_geometric_domain_xr (p : XR) : FDom.Geometric.Domain p ↔ Dom.Geometric.Domain p := by
  simp only [FDom.Geometric.Domain, Dom.Geometric.Domain, FDom.Geometric.Domain, Dom.Geometric.Domain, rfun_isNaN_iff, rfun_isInf_iff, xr_zero_eq, xr_one_eq, rfun_inf]
/-- full(XR): … so are the documented error conditions … -/
theorem fdom_geometric_errDoc_xr (p : XR) (e : GeometricError) : FDom.Geometric.ErrDoc p e ↔ Dom.Geometric.ErrDoc p e := by
  cases e <;> simp only [FDom.Geometric.ErrDoc, Dom.Geometric.ErrDoc, rfun_isNaN_iff, rfun_isInf_iff, xr_zero_eq, xr_one_eq, rfun_inf]
/-- full(XR): … and the documented variant -/
theorem fdom_geometric_docErr_xr (p : XR) : FDom.Geometric.docErr p = Dom.Geometric.docErr p := by
  first
    | rfl
    | (simp only [FDom.Geometric.docErr, Dom.Geometric.docErr]; split_ifs <;> first | rfl | (simp_all [fdom_geometric_errDoc_xr]))

/-- full(XR): the generic documented domain of `Gumbel::new` at `XR` is `Dom.Gumbel.Domain` -/
theorem fdom_gumbel_domain_xr (l s : XR) : FDom.Gumbel.Domain l s ↔ Dom.Gumbel.Domain l s := by
  simp only [FDom.Gumbel.Domain, Dom.Gumbel.Domain, FDom.Gumbel.Domain, Dom.Gumbel.Domain, rfun_isNaN_iff, rfun_isInf_iff, xr_zero_eq, xr_one_eq, rfun_inf]
/-- full(XR): … so are the documented error conditions … -/
theorem fdom_gumbel_errDoc_xr (l s : XR) (e : GumbelError) : FDom.Gumbel.ErrDoc l s e ↔ Dom.Gumbel.ErrDoc l s e := by
  cases e <;> simp only [FDom.Gumbel.ErrDoc, Dom.Gumbel.ErrDoc, rfun_isNaN_iff, rfun_isInf_iff, xr_zero_eq, xr_one_eq, rfun_inf]
/-- full(XR): … and the documented variant -/
theorem fdom_gumbel_docErr_xr (l s : XR) : FDom.Gumbel.docErr l s = Dom.Gumbel.docErr l s := by
  first
    | rfl
    | (simp only [FDom.Gumbel.docErr, Dom.Gumbel.docErr]; split_ifs <;> first | rfl | (simp_all [fdom_gumbel_errDoc_xr]))

/-- full(XR): the generic documented domain of `InverseGamma::new` at `XR` is `Dom.InverseGamma.Domain` -/
theorem fdom_inverseGamma_domain_xr (a b : XR) : FDom.InverseGamma.Domain a b ↔ Dom.InverseGamma.Domain a b := by
  simp only [FDom.InverseGamma.Domain, Dom.InverseGamma.Domain, FDom.InverseGamma.Domain, Dom.InverseGamma.Domain, rfun_isNaN_iff, rfun_isInf_iff, xr_zero_eq, xr_one_eq, rfun_inf]
/-- full(XR): … so are the documented error conditions … -/
theorem fdom_inverseGamma_errDoc_xr (a b : XR) (e : InverseGammaError) : FDom.InverseGamma.ErrDoc a b e ↔ Dom.InverseGamma.ErrDoc a b e := by
  cases e <;> simp only [FDom.InverseGamma.ErrDoc, Dom.InverseGamma.ErrDoc, rfun_isNaN_iff, rfun_isInf_iff, xr_zero_eq, xr_one_eq, rfun_inf]
/-- full(XR): … and the documented variant -/
theorem fdom_inverseGamma_docErr_xr (a b : XR) : FDom.InverseGamma.docErr a b = Dom.InverseGamma.docErr a b := by
  first
    | rfl
    | (simp only [FDom.InverseGamma.docErr, Dom.InverseGamma.docErr]; split_ifs <;> first | rfl | (simp_all [fdom_inverseGamma_errDoc_xr]))

/-- full(XR): the generic documented domain of `Laplace::new` at `XR` is `Dom.Laplace.Domain` -/
theorem fdom_laplace_domain_xr (l s : XR) : FDom.Laplace.Domain l s ↔ Dom.Laplace.Domain l s := by
  simp only [FDom.Laplace.Domain, Dom.Laplace.Domain, FDom.Laplace.Domain, Dom.Laplace.Domain, rfun_isNaN_iff, rfun_isInf_iff, xr_zero_eq, xr_one_eq, rfun_inf]
/-- full(XR): … so are the documented error conditions … -/
theorem fdom_laplace_errDoc_xr (l s : XR) (e : LaplaceError) : FDom.Laplace.ErrDoc l s e ↔ Dom.Laplace.ErrDoc l s e := by
  cases e <;> simp only [FDom.Laplace.ErrDoc, Dom.Laplace.ErrDoc, rfun_isNaN_iff, rfun_isInf_iff, xr_zero_eq, xr_one_eq, rfun_inf]
/-- full(XR): … and the documented variant -/
theorem fdom_laplace_docErr_xr (l s : XR) : FDom.Laplace.docErr l s = Dom.Laplace.docErr l s := by
  first
    | rfl
    | (simp only [FDom.Laplace.docErr, Dom.Laplace.docErr]; split_ifs <;> first | rfl | (simp_all [fdom_laplace_errDoc_xr]))

/-- full(XR): the generic documented domain of `Levy::new` at `XR` is `Dom.Levy.Domain` -/
theorem fdom_levy_domain_xr (m c : XR) : FDom.Levy.Domain m c ↔ Dom.Levy.Domain m c := by
  simp only [FDom.Levy.Domain, Dom.Levy.Domain, FDom.Levy.Domain, Dom.Levy.Domain, rfun_isNaN_iff, rfun_isInf_iff, xr_zero_eq, xr_one_eq, rfun_inf]
/-- full(XR): … so are the documented error conditions … -/
theorem fdom_levy_errDoc_xr (m c : XR) (e : LevyError) : FDom.Levy.ErrDoc m c e ↔ Dom.Levy.ErrDoc m c e := by
  cases e <;> simp only [FDom.Levy.ErrDoc, Dom.Levy.ErrDoc, rfun_isNaN_iff, rfun_isInf_iff, xr_zero_eq, xr_one_eq, rfun_inf]
/-- full(XR): … and the documented variant -/
theorem fdom_levy_docErr_xr (m c : XR) : FDom.Levy.docErr m c = Dom.Levy.docErr m c := by
  first
    | rfl
    | (simp only [FDom.Levy.docErr, Dom.Levy.docErr]; split_ifs <;> first | rfl | (simp_all [fdom_levy_errDoc_xr]))

/-- full(XR): the generic documented domain of `LogNormal::new` at `XR` is `Dom.LogNormal.Domain` -/
theorem fdom_logNormal_domain_xr (l s : XR) : FDom.LogNormal.Domain l s ↔ Dom.LogNormal.Domain l s := by
  simp only [FDom.LogNormal.Domain, Dom.LogNormal.Domain, FDom.LogNormal.Domain, Dom.LogNormal.Domain, rfun_isNaN_iff, rfun_isInf_iff, xr_zero_eq, xr_one_eq, rfun_inf]
/-- full(XR): … so are the documented error conditions … -/
theorem fdom_logNormal_errDoc_xr (l s : XR) (e : LogNormalError) : FDom.LogNormal.ErrDoc l s e ↔ Dom.LogNormal.ErrDoc l s e := by
  cases e <;> simp only [FDom.LogNormal.ErrDoc, Dom.LogNormal.ErrDoc, rfun_isNaN_iff, rfun_isInf_iff, xr_zero_eq, xr_one_eq, rfun_inf]
/-- full(XR): … and the documented variant -/
theorem fdom_logNormal_docErr_xr (l s : XR) : FDom.LogNormal.docErr l s = Dom.LogNormal.docErr l s := by
  first
    | rfl
    | (simp only [FDom.LogNormal.docErr, Dom.LogNormal.docErr]; split_ifs <;> first | rfl | (simp_all [fdom_logNormal_errDoc_xr]))

/-- full(XR): the generic documented domain of `NegativeBinomial::new` at `XR` is `Dom.NegativeBinomial.Domain` -/
theorem fdom_negativeBinomial_domain_xr (r p : XR) : FDom.NegativeBinomial.Domain r p ↔ Dom.NegativeBinomial.Domain r p := by
  simp only [FDom.NegativeBinomial.Domain, Dom.NegativeBinomial.Domain, FDom.NegativeBinomial.Domain, Dom.NegativeBinomial.Domain, rfun_isNaN_iff, rfun_isInf_iff, xr_zero_eq, xr_one_eq, rfun_inf]
/-- full(XR): … so are the documented error conditions … -/
theorem fdom_negativeBinomial_errDoc_xr (r p : XR) (e : NegativeBinomialError) : FDom.NegativeBinomial.ErrDoc r p e ↔ Dom.NegativeBinomial.ErrDoc r p e := by
  cases e <;> simp only [FDom.NegativeBinomial.ErrDoc, Dom.NegativeBinomial.ErrDoc, rfun_isNaN_iff, rfun_isInf_iff, xr_zero_eq, xr_one_eq, rfun_inf]
/-- full(XR): … and the documented variant -/
theorem fdom_negativeBinomial_docErr_xr (r p : XR) : FDom.NegativeBinomial.docErr r p = Dom.NegativeBinomial.docErr r p := by
  first
    | rfl
    | (simp only [FDom.NegativeBinomial.docErr, Dom.NegativeBinomial.docErr]; split_ifs <;> first | rfl | (simp_all [fdom_negativeBinomial_errDoc_xr]))

/-- full(XR): the generic documented domain of `Normal::new` at `XR` is `Dom.Normal.Domain` -/
theorem fdom_normal_domain_xr (m s : XR) : FDom.Normal.Domain m s ↔ Dom.Normal.Domain m s := by
  simp only [FDom.Normal.Domain, Dom.Normal.Domain, FDom.Normal.Domain, Dom.Normal.Domain, rfun_isNaN_iff, rfun_isInf_iff, xr_zero_eq, xr_one_eq, rfun_inf]
/-- full(XR): … so are the documented error conditions … -/
theorem fdom_normal_errDoc_xr (m s : XR) (e : NormalError) : FDom.Normal.ErrDoc m s e ↔ Dom.Normal.ErrDoc m s e := by
  cases e <;> simp only [FDom.Normal.ErrDoc, Dom.Normal.ErrDoc, rfun_isNaN_iff, rfun_isInf_iff, xr_zero_eq, xr_one_eq, rfun_inf]
/-- full(XR): … and the documented variant -/
theorem fdom_normal_docErr_xr (m s : XR) : FDom.Normal.docErr m s = Dom.Normal.docErr m s := by
  first
    | rfl
    | (simp only [FDom.Normal.docErr, Dom.Normal.docErr]; split_ifs <;> first | rfl | (simp_all [fdom_normal_errDoc_xr]))

/-- full(XR): the generic documented domain of `Pareto::new` at `XR` is `Dom.Pareto.Domain` -/
theorem fdom_pareto_domain_xr (s a : XR) : FDom.Pareto.Domain s a ↔ Dom.Pareto.Domain s a := by
  simp only [FDom.Pareto.Domain, Dom.Pareto.Domain, FDom.Pareto.Domain, Dom.Pareto.Domain, rfun_isNaN_iff, rfun_isInf_iff, xr_zero_eq, xr_one_eq, rfun_inf]
/-- full(XR): … so are the documented error conditions … -/
theorem fdom_pareto_errDoc_xr (s a : XR) (e : ParetoError) : FDom.Pareto.ErrDoc s a e ↔ Dom.Pareto.ErrDoc s a e := by
  cases e <;> simp only [FDom.Pareto.ErrDoc, Dom.Pareto.ErrDoc, rfun_isNaN_iff, rfun_isInf_iff, xr_zero_eq, xr_one_eq, rfun_inf]
/-- full(XR): … and the documented variant -/
theorem fdom_pareto_docErr_xr (s a : XR) : FDom.Pareto.docErr s a = Dom.Pareto.docErr s a := by
  first
    | rfl
    | (simp only [FDom.Pareto.docErr, Dom.Pareto.docErr]; split_ifs <;> first | rfl | (simp_all [fdom_pareto_errDoc_xr]))

/-- full(XR): the generic documented domain of `Poisson::new` at `XR` is `Dom.Poisson.Domain` -/
theorem fdom_poisson_domain_xr (l : XR) : FDom.Poisson.Domain l ↔ Dom.Poisson.Domain l := by
  simp only [FDom.Poisson.Domain, Dom.Poisson.Domain, FDom.Poisson.Domain, Dom.Poisson.Domain, rfun_isNaN_iff, rfun_isInf_iff, xr_zero_eq, xr_one_eq, rfun_inf]
/-- full(XR): … so are the documented error conditions … -/
theorem fdom_poisson_errDoc_xr (l : XR) (e : PoissonError) : FDom.Poisson.ErrDoc l e ↔ Dom.Poisson.ErrDoc l e := by
  cases e <;> simp only [FDom.Poisson.ErrDoc, Dom.Poisson.ErrDoc, rfun_isNaN_iff, rfun_isInf_iff, xr_zero_eq, xr_one_eq, rfun_inf]
/-- full(XR): … and the documented variant -/
theorem fdom_poisson_docErr_xr (l : XR) : FDom.Poisson.docErr l = Dom.Poisson.docErr l := by
  first
    | rfl
    | (simp only [FDom.Poisson.docErr, Dom.Poisson.docErr]; split_ifs <;> first | rfl | (simp_all [fdom_poisson_errDoc_xr]))

/-- full(XR): the generic documented domain of `StudentsT::new` at `XR` is `Dom.StudentsT.Domain` -/
theorem fdom_studentsT_domain_xr (l s k : XR) : FDom.StudentsT.Domain l s k ↔ Dom.StudentsT.Domain l s k := by
  simp only [FDom.StudentsT.Domain, Dom.StudentsT.Domain, FDom.StudentsT.Domain, Dom.StudentsT.Domain, rfun_isNaN_iff, rfun_isInf_iff, xr_zero_eq, xr_one_eq, rfun_inf]
/-- full(XR): … so are the documented error conditions … -/
theorem fdom_studentsT_errDoc_xr (l s k : XR) (e : StudentsTError) : FDom.StudentsT.ErrDoc l s k e ↔ Dom.StudentsT.ErrDoc l s k e := by
  cases e <;> simp only [FDom.StudentsT.ErrDoc, Dom.StudentsT.ErrDoc, rfun_isNaN_iff, rfun_isInf_iff, xr_zero_eq, xr_one_eq, rfun_inf]
/-- full(XR): … and the documented variant -/
theorem fdom_studentsT_docErr_xr (l s k : XR) : FDom.StudentsT.docErr l s k = Dom.StudentsT.docErr l s k := by
  first
    | rfl
    | (simp only [FDom.StudentsT.docErr, Dom.StudentsT.docErr]; split_ifs <;> first | rfl | (simp_all [fdom_studentsT_errDoc_xr]))

/-- full(XR): the generic documented domain of `Triangular::new` at `XR` is `Dom.Triangular.Domain` -/
theorem fdom_triangular_domain_xr (a b c : XR) : FDom.Triangular.Domain a b c ↔ Dom.Triangular.Domain a b c := by
  simp only [FDom.Triangular.Domain, Dom.Triangular.Domain, FDom.Triangular.Domain, Dom.Triangular.Domain, rfun_isNaN_iff, rfun_isInf_iff, xr_zero_eq, xr_one_eq, rfun_inf]
/-- full(XR): … so are the documented error conditions … -/
theorem fdom_triangular_errDoc_xr (a b c : XR) (e : TriangularError) : FDom.Triangular.ErrDoc a b c e ↔ Dom.Triangular.ErrDoc a b c e := by
  cases e <;> simp only [FDom.Triangular.ErrDoc, Dom.Triangular.ErrDoc, rfun_isNaN_iff, rfun_isInf_iff, xr_zero_eq, xr_one_eq, rfun_inf]
/-- full(XR): … and the documented variant -/
theorem fdom_triangular_docErr_xr (a b c : XR) : FDom.Triangular.docErr a b c = Dom.Triangular.docErr a b c := by
  first
    | rfl
    | (simp only [FDom.Triangular.docErr, Dom.Triangular.docErr]; split_ifs <;> first | rfl | (simp_all [fdom_triangular_errDoc_xr]))

/-- full(XR): the generic documented domain of `Uniform::new` at `XR` is `Dom.Uniform.Domain` -/
theorem fdom_uniform_domain_xr (a b : XR) : FDom.Uniform.Domain a b ↔ Dom.Uniform.Domain a b := by
  simp only [FDom.Uniform.Domain, Dom.Uniform.Domain, FDom.Uniform.Domain, Dom.Uniform.Domain, rfun_isNaN_iff, rfun_isInf_iff, xr_zero_eq, xr_one_eq, rfun_inf]
/-- full(XR): … so are the documented error conditions … -/
theorem fdom_uniform_errDoc_xr (a b : XR) (e : UniformError) : FDom.Uniform.ErrDoc a b e ↔ Dom.Uniform.ErrDoc a b e := by
  cases e <;> simp only [FDom.Uniform.ErrDoc, Dom.Uniform.ErrDoc, rfun_isNaN_iff, rfun_isInf_iff, xr_zero_eq, xr_one_eq, rfun_inf]
/-- full(XR): … and the documented variant -/
theorem fdom_uniform_docErr_xr (a b : XR) : FDom.Uniform.docErr a b = Dom.Uniform.docErr a b := by
  first
    | rfl
    | (simp only [FDom.Uniform.docErr, Dom.Uniform.docErr]; split_ifs <;> first | rfl | (simp_all [fdom_uniform_errDoc_xr]))

/-- full(XR): the generic documented domain of `Weibull::new` at `XR` is `Dom.Weibull.Domain` -/
theorem fdom_weibull_domain_xr (k s : XR) : FDom.Weibull.Domain k s ↔ Dom.Weibull.Domain k s := by
  simp only [FDom.Weibull.Domain, Dom.Weibull.Domain, FDom.Weibull.Domain, Dom.Weibull.Domain, rfun_isNaN_iff, rfun_isInf_iff, xr_zero_eq, xr_one_eq, rfun_inf]
/-- full(XR): … so are the documented error conditions … -/
theorem fdom_weibull_errDoc_xr (k s : XR) (e : WeibullError) : FDom.Weibull.ErrDoc k s e ↔ Dom.Weibull.ErrDoc k s e := by
  cases e <;> simp only [FDom.Weibull.ErrDoc, Dom.Weibull.ErrDoc, rfun_isNaN_iff, rfun_isInf_iff, xr_zero_eq, xr_one_eq, rfun_inf]
/-- full(XR): … and the documented variant -/
theorem fdom_weibull_docErr_xr (k s : XR) : FDom.Weibull.docErr k s = Dom.Weibull.docErr k s := by
  first
    | rfl
    | (simp only [FDom.Weibull.docErr, Dom.Weibull.docErr]; split_ifs <;> first | rfl | (simp_all [fdom_weibull_errDoc_xr]))

/-- full: the integer-only domains are the same definitions -/
theorem fdom_int_families (a b c : Int) :
    (FDom.Chi.Domain a ↔ Dom.Chi.Domain a) ∧ (FDom.DiscreteUniform.Domain a b ↔ Dom.DiscreteUniform.Domain a b) ∧
    (FDom.Hypergeometric.Domain a b c ↔ Dom.Hypergeometric.Domain a b c) := ⟨Iff.rfl, Iff.rfl, Iff.rfl⟩

end Statrs.Props.C09
