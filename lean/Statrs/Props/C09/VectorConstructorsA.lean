/-
  C09 — vector constructors, part A: `Multinomial::new` / `new_from_nalgebra`, `Dirichlet::new` /
  `new_from_nalgebra` / `new_with_param` (hand models in Statrs/Model/Multivariate.lean, tied to the
  Rust by the correspondence check).  Conventions as in Props/C09/ConstructorsA.lean; the
  documented / implemented domains are in Statrs/Spec/VectorDomain.lean.

  For each constructor:
    * `x_new_cases`        — the complete decision list, in the order the code checks, with the
                             returned value in every case;                                 full(∀α)
    * `x_new_ok_iff_impl`  — `Ok` exactly on the implemented domain;                       full(XR)
    * `x_new_err`          — the variant returned, with the documented condition of that
                             variant holding of the arguments;                             full(XR)
    * `x_new_ok_params`    — what an `Ok` value stores / reports through its accessors;
                                                                            full(∀α) / full(XR) / full(ℝ)
    * never panics: `Multinomial.new`, `Dirichlet.new`, `Dirichlet.new_with_param` do not even take
      an `Inhabited α` argument (see the `example`s after the decision lists), so no panic value
      (`panicV`/`unwrapO`/`default`) can be evaluated;                                      full(∀α)
    * `x_new_doc_mismatch_counterexample` — where `# Errors` and the code disagree.

  DISCREPANCIES proved here:
    * `Multinomial::new(vec![1.0], n)` is rejected (`NotEnoughProbabilities`) although the
      `# Errors` section only excludes an EMPTY `p`;
    * `Multinomial::new(vec![+∞, 1.0], n)` is `Ok` although `ProbabilityInvalid` is documented as
      "NaN, infinite or less than zero" (in IEEE arithmetic the stored `p` is then `[NaN, 0]`);
    * `Dirichlet::new(vec![+∞, 1.0])` and `Dirichlet::new_with_param(+∞, 2)` are rejected although
      the `# Errors` sections list only `<= 0.0` and NaN.
-/
import Statrs.Spec.VectorDomain
import Statrs.Real.Simp
import Statrs.Lemmas.Multivariate
set_option linter.unusedSectionVars false
set_option linter.unusedVariables false
namespace Statrs.Props.C09
open Statrs Statrs.Gen Statrs.Model Statrs.Spec Statrs.Spec.XR Statrs.Lemmas.C09Vector

/-! ## every carrier: decision lists, accessors, no panic -/
section generic
variable {α : Type} [Add α] [Sub α] [Mul α] [Div α] [Neg α] [LT α] [LE α] [BEq α]
  [DecidableLT α] [DecidableLE α] [OfScientific α] [Inhabited α] [RFun α]

/-- `p[i]` is acceptable to the validation loop: not NaN and not `< 0.0` -/
def ProbOk (x : α) : Prop := ¬ ((RFun.isNaN x = true) ∨ x < (0.0 : α))

/-- the sum as the loop accumulates it -/
def probSum (p : List α) : α := p.foldl (fun a b => a + b) (0.0 : α)

/-- full(∀α): the complete behaviour of `Multinomial::new`, in the order the code checks:
    1. fewer than two entries → `NotEnoughProbabilities`;
    2. some entry NaN or `< 0.0` → `ProbabilityInvalid`;
    3. the accumulated sum `== 0.0` → `ProbabilitySumZero`;
    4. otherwise `Ok`, storing `n` and `p` divided entrywise by `p.lp_norm(1)`. -/
theorem multinomial_new_cases (p : List α) (n : Int) :
    (p.length < 2 ∧ Multinomial.new p n = .error .NotEnoughProbabilities) ∨
    (2 ≤ p.length ∧ (∃ x ∈ p, ¬ ProbOk x) ∧ Multinomial.new p n = .error .ProbabilityInvalid) ∨
    (2 ≤ p.length ∧ (∀ x ∈ p, ProbOk x) ∧ (probSum p == (0.0 : α)) = true ∧
        Multinomial.new p n = .error .ProbabilitySumZero) ∨
    (2 ≤ p.length ∧ (∀ x ∈ p, ProbOk x) ∧ ¬ (probSum p == (0.0 : α)) = true ∧
        Multinomial.new p n = .ok { f_p := p.map (fun e => e / LA.lpNorm1 p), f_n := n }) := by
  unfold Multinomial.new Multinomial.new_from_nalgebra
  by_cases hlen : p.length < 2
  · left; exact ⟨hlen, by rw [if_pos hlen]⟩
  right
  rw [if_neg hlen]
  have hlen' : 2 ≤ p.length := by omega
  by_cases hbad : ∃ x ∈ p, ¬ ProbOk x
  · left
    refine ⟨hlen', hbad, ?_⟩
    have : Multinomial.newLoop p (0.0 : α) = none := by
      rw [newLoop_eq_none_iff]
      obtain ⟨x, hx, h⟩ := hbad
      exact ⟨x, hx, not_not.mp h⟩
    rw [this]
  right
  have hall : ∀ x ∈ p, ProbOk x := by
    intro x hx; by_contra h; exact hbad ⟨x, hx, h⟩
  rw [newLoop_eq_some p _ hall]
  by_cases hz : (probSum p == (0.0 : α)) = true
  · left; exact ⟨hlen', hall, hz, if_pos hz⟩
  · right; exact ⟨hlen', hall, hz, if_neg hz⟩

/-- `new_from_nalgebra` is the same function (the `Vec` is only converted) -/
theorem multinomial_new_from_nalgebra_eq (p : List α) (n : Int) :
    Multinomial.new_from_nalgebra p n = Multinomial.new p n := rfl

/-- full(∀α): `Ok` iff the three checks pass -/
theorem multinomial_new_ok_iff_generic (p : List α) (n : Int) :
    (∃ d, Multinomial.new p n = .ok d) ↔
      2 ≤ p.length ∧ (∀ x ∈ p, ProbOk x) ∧ ¬ (probSum p == (0.0 : α)) = true := by
  rcases multinomial_new_cases p n with h | h | h | h
  · rw [h.2]; constructor
    · rintro ⟨d, hd⟩; cases hd
    · rintro ⟨h2, _⟩; omega
  · rw [h.2.2]; constructor
    · rintro ⟨d, hd⟩; cases hd
    · rintro ⟨_, hall, _⟩; obtain ⟨x, hx, hb⟩ := h.2.1; exact absurd (hall x hx) hb
  · rw [h.2.2.2]; constructor
    · rintro ⟨d, hd⟩; cases hd
    · rintro ⟨_, _, hz⟩; exact absurd h.2.2.1 hz
  · rw [h.2.2.2]; exact ⟨fun _ => ⟨h.1, h.2.1, h.2.2.1⟩, fun _ => ⟨_, rfl⟩⟩

/-- full(∀α): an `Ok` value stores `n` and `p / p.lp_norm(1)`; `n()` and `p()` report them -/
theorem multinomial_new_ok_params (p : List α) (n : Int) (d : Multinomial α)
    (h : Multinomial.new p n = .ok d) :
    d = { f_p := p.map (fun e => e / LA.lpNorm1 p), f_n := n } ∧
      Multinomial.n d = n ∧ Multinomial.p d = p.map (fun e => e / LA.lpNorm1 p) ∧
      (Multinomial.p d).length = p.length := by
  rcases multinomial_new_cases p n with h' | h' | h' | h'
  · rw [h'.2] at h; cases h
  · rw [h'.2.2] at h; cases h
  · rw [h'.2.2.2] at h; cases h
  · rw [h'.2.2.2] at h
    injection h with h
    subst h
    simp [Multinomial.n, Multinomial.p]


/-- never panics: the constructor elaborates WITHOUT an `Inhabited α` instance, i.e. the model has
    no panic value to return -/
example {β : Type} [Add β] [Div β] [LT β] [BEq β] [DecidableLT β] [OfScientific β] [RFun β]
    (p : List β) (n : Int) : Except MultinomialError (Multinomial β) := Multinomial.new p n

/-- `alpha[i]` is acceptable: finite and not `<= 0.0` -/
def AlphaOk (a : α) : Prop := (RFun.isFinite a = true) ∧ ¬ a ≤ (0.0 : α)

/-- full(∀α): the complete behaviour of `Dirichlet::new`, in the order the code checks:
    1. fewer than two entries → `AlphaTooShort`;
    2. some entry not finite or `<= 0.0` → `AlphaHasInvalidElements`;
    3. otherwise `Ok`, storing `alpha` unchanged. -/
theorem dirichlet_new_cases (alpha : List α) :
    (alpha.length < 2 ∧ Dirichlet.new alpha = .error .AlphaTooShort) ∨
    (2 ≤ alpha.length ∧ (∃ a ∈ alpha, ¬ AlphaOk a) ∧
        Dirichlet.new alpha = .error .AlphaHasInvalidElements) ∨
    (2 ≤ alpha.length ∧ (∀ a ∈ alpha, AlphaOk a) ∧ Dirichlet.new alpha = .ok { f_alpha := alpha }) := by
  unfold Dirichlet.new Dirichlet.new_from_nalgebra
  by_cases hlen : alpha.length < 2
  · left; exact ⟨hlen, by rw [if_pos hlen]⟩
  right
  rw [if_neg hlen]
  have hlen' : 2 ≤ alpha.length := by omega
  by_cases hany : (alpha.any (fun a_i =>
      decide ((¬ ((RFun.isFinite a_i) = true)) ∨ (a_i ≤ (0.0 : α))))) = true
  · left
    refine ⟨hlen', ?_, by rw [if_pos hany]⟩
    rw [List.any_eq_true] at hany
    obtain ⟨a, ha, h⟩ := hany
    refine ⟨a, ha, ?_⟩
    rw [decide_eq_true_eq] at h
    intro hok
    rcases h with h | h
    · exact h hok.1
    · exact hok.2 h
  · right
    refine ⟨hlen', ?_, by rw [if_neg hany]⟩
    intro a ha
    rw [List.any_eq_true] at hany
    constructor
    · by_contra hf
      exact hany ⟨a, ha, by rw [decide_eq_true_eq]; exact Or.inl hf⟩
    · intro hle
      exact hany ⟨a, ha, by rw [decide_eq_true_eq]; exact Or.inr hle⟩

theorem dirichlet_new_from_nalgebra_eq (alpha : List α) :
    Dirichlet.new_from_nalgebra alpha = Dirichlet.new alpha := rfl

/-- full(∀α): `Ok` iff at least two entries, all finite and not `<= 0.0` -/
theorem dirichlet_new_ok_iff_generic (alpha : List α) :
    (∃ d, Dirichlet.new alpha = .ok d) ↔ 2 ≤ alpha.length ∧ ∀ a ∈ alpha, AlphaOk a := by
  rcases dirichlet_new_cases alpha with h | h | h
  · rw [h.2]; constructor
    · rintro ⟨d, hd⟩; cases hd
    · rintro ⟨h2, _⟩; omega
  · rw [h.2.2]; constructor
    · rintro ⟨d, hd⟩; cases hd
    · rintro ⟨_, hall⟩; obtain ⟨x, hx, hb⟩ := h.2.1; exact absurd (hall x hx) hb
  · rw [h.2.2]; exact ⟨fun _ => ⟨h.1, h.2.1⟩, fun _ => ⟨_, rfl⟩⟩

/-- full(∀α): `alpha()` of an `Ok` value is the input -/
theorem dirichlet_new_ok_params (alpha : List α) (d : Dirichlet α) (h : Dirichlet.new alpha = .ok d) :
    d = { f_alpha := alpha } ∧ Dirichlet.alpha d = alpha := by
  rcases dirichlet_new_cases alpha with h' | h' | h'
  · rw [h'.2] at h; cases h
  · rw [h'.2.2] at h; cases h
  · rw [h'.2.2] at h
    injection h with h
    subst h
    simp [Dirichlet.alpha]


/-- full(∀α): `new_with_param(alpha, n)` (`n : usize`), in the order the code decides:
    `n < 2` → `AlphaTooShort` (whatever `alpha` is); else `alpha` not finite or `<= 0.0` →
    `AlphaHasInvalidElements`; else `Ok` with `n` copies of `alpha`. -/
theorem dirichlet_new_with_param_cases (a : α) (n : Int) :
    (n < 2 ∧ Dirichlet.new_with_param a n = .error .AlphaTooShort) ∨
    (2 ≤ n ∧ ¬ AlphaOk a ∧ Dirichlet.new_with_param a n = .error .AlphaHasInvalidElements) ∨
    (2 ≤ n ∧ AlphaOk a ∧
        Dirichlet.new_with_param a n = .ok { f_alpha := List.replicate n.toNat a }) := by
  unfold Dirichlet.new_with_param
  rcases dirichlet_new_cases (List.replicate n.toNat a) with h | h | h
  · left; refine ⟨?_, h.2⟩
    have := h.1; simp at this; omega
  · right; left
    have h1 := h.1; simp at h1
    refine ⟨by omega, ?_, h.2.2⟩
    obtain ⟨x, hx, hb⟩ := h.2.1
    rw [List.eq_of_mem_replicate hx] at hb
    exact hb
  · right; right
    have h1 := h.1; simp at h1
    refine ⟨by omega, ?_, h.2.2⟩
    exact h.2.1 a (by simp; omega)

theorem dirichlet_new_with_param_ok_iff_generic (a : α) (n : Int) :
    (∃ d, Dirichlet.new_with_param a n = .ok d) ↔ 2 ≤ n ∧ AlphaOk a := by
  rcases dirichlet_new_with_param_cases a n with h | h | h
  · rw [h.2]; constructor
    · rintro ⟨d, hd⟩; cases hd
    · rintro ⟨h2, _⟩; omega
  · rw [h.2.2]; constructor
    · rintro ⟨d, hd⟩; cases hd
    · rintro ⟨_, hok⟩; exact absurd hok h.2.1
  · rw [h.2.2]; exact ⟨fun _ => ⟨h.1, h.2.1⟩, fun _ => ⟨_, rfl⟩⟩

/-- full(∀α): `alpha()` is `n` copies of the parameter -/
theorem dirichlet_new_with_param_ok_params (a : α) (n : Int) (d : Dirichlet α)
    (h : Dirichlet.new_with_param a n = .ok d) :
    Dirichlet.alpha d = List.replicate n.toNat a ∧ ((Dirichlet.alpha d).length : Int) = n := by
  rcases dirichlet_new_with_param_cases a n with h' | h' | h'
  · rw [h'.2] at h; cases h
  · rw [h'.2.2] at h; cases h
  · rw [h'.2.2] at h
    injection h with h
    subst h
    simp [Dirichlet.alpha]
    omega

end generic

/-- never panics: no `Inhabited` instance is needed -/
example {β : Type} [LE β] [DecidableLE β] [OfScientific β] [RFun β] (alpha : List β) (a : β) (n : Int) :
    Except DirichletError (Dirichlet β) × Except DirichletError (Dirichlet β) :=
  (Dirichlet.new alpha, Dirichlet.new_with_param a n)

/-! ## Multinomial on `XR` -/

theorem probOk_iff (x : XR) : ProbOk x ↔ ¬ IsNaN x ∧ ¬ x < Dom.z := by
  unfold ProbOk
  rw [xlit0, rfun_isNaN_iff]
  exact not_or

theorem probSum_eq (p : List XR) : probSum p = xsum p := by
  unfold probSum xsum; rw [xlit0]

/-- full(XR): `Ok` exactly on the implemented domain (≥ 2 entries, none NaN or negative, sum not
    `== 0.0`). -/
theorem multinomial_new_ok_iff_impl (p : List XR) (n : Int) :
    (∃ d, Multinomial.new p n = .ok d) ↔ Dom.Multinomial.DomainImpl p := by
  rw [multinomial_new_ok_iff_generic, probSum_eq, xlit0]
  unfold Dom.Multinomial.DomainImpl
  simp only [probOk_iff]

/-- full(XR): the implemented domain in elementary terms — every entry is a non-negative real or
    `+∞`, and at least one entry is positive (for such entries the accumulated sum is `== 0.0`
    exactly when every entry is `0`). -/
theorem multinomial_domainImpl_iff (p : List XR) :
    Dom.Multinomial.DomainImpl p ↔
      2 ≤ p.length ∧ (∀ x ∈ p, x = pinf ∨ ∃ r, 0 ≤ r ∧ x = fin r) ∧ ∃ x ∈ p, Dom.z < x := by
  unfold Dom.Multinomial.DomainImpl
  constructor
  · rintro ⟨h1, h2, h3⟩
    have hnn : ∀ x ∈ p, NN x := h2
    exact ⟨h1, fun x hx => (nn_iff x).mp (hnn x hx), (xsum_not_beq_zero_iff p hnn).mp h3⟩
  · rintro ⟨h1, h2, h3⟩
    have hnn : ∀ x ∈ p, NN x := fun x hx => (nn_iff x).mpr (h2 x hx)
    exact ⟨h1, hnn, (xsum_not_beq_zero_iff p hnn).mpr h3⟩

/-- full(XR): the variant returned is sound for its documentation (`ErrDoc`), and the order of
    the checks is: length, then entries, then sum. -/
theorem multinomial_new_err (p : List XR) (n : Int) (e : MultinomialError)
    (h : Multinomial.new p n = .error e) :
    Dom.Multinomial.ErrDoc p e ∧
    (e = .NotEnoughProbabilities ↔ p.length < 2) ∧
    (e = .ProbabilityInvalid ↔ 2 ≤ p.length ∧ ∃ x ∈ p, IsNaN x ∨ x < Dom.z) ∧
    (e = .ProbabilitySumZero ↔
      2 ≤ p.length ∧ (∀ x ∈ p, ¬ IsNaN x ∧ ¬ x < Dom.z) ∧ (xsum p == Dom.z) = true) := by
  have hbad : (∃ x ∈ p, ¬ ProbOk x) ↔ ∃ x ∈ p, IsNaN x ∨ x < Dom.z := by
    simp only [probOk_iff]
    constructor <;> rintro ⟨x, hx, h⟩ <;> refine ⟨x, hx, ?_⟩ <;> tauto
  rcases multinomial_new_cases p n with h' | h' | h' | h'
  · rw [h'.2] at h; injection h with h; subst h
    refine ⟨h'.1, by simp [h'.1], ?_, ?_⟩ <;> simp <;> intro h2 <;> omega
  · rw [h'.2.2] at h; injection h with h; subst h
    obtain ⟨x, hx, hb⟩ := hbad.mp h'.2.1
    refine ⟨⟨x, hx, by tauto⟩, by simp; omega, by simp; exact ⟨h'.1, x, hx, hb⟩, ?_⟩
    simp; intro _ hall; exact absurd (hall x hx) (by tauto)
  · rw [h'.2.2.2] at h; injection h with h; subst h
    have hz : (xsum p == Dom.z) = true := by
      have := h'.2.2.1; rwa [probSum_eq, xlit0] at this
    have hall : ∀ x ∈ p, ¬ IsNaN x ∧ ¬ x < Dom.z := fun x hx => (probOk_iff x).mp (h'.2.1 x hx)
    refine ⟨hz, by simp; omega, ?_, by simp; exact ⟨h'.1, hall, hz⟩⟩
    simp only [reduceCtorEq, false_iff, not_and, not_exists]
    intro _ x hx hb; have := hall x hx; tauto
  · rw [h'.2.2.2] at h; cases h

/-- full(XR): on a vector of finite non-negative reals (`+∞` excluded — see the counterexample
    below) `p()` is the input divided by its exact sum. -/
theorem multinomial_new_ok_params_fin (l : List ℝ) (n : Int) (d : Multinomial XR)
    (h : Multinomial.new (l.map fin) n = .ok d) :
    Multinomial.n d = n ∧ Multinomial.p d = l.map (fun r => fin (r / l.sum)) ∧
      0 < l.sum ∧ ((l.map (fun r => r / l.sum)).sum = 1) := by
  have hdom := (multinomial_new_ok_iff_impl _ n).mp ⟨d, h⟩
  obtain ⟨hd, hn, hp, _⟩ := multinomial_new_ok_params _ n d h
  obtain ⟨_, hall, hsum⟩ := hdom
  have hnn : ∀ r ∈ l, 0 ≤ r := by
    intro r hr
    have := (hall (fin r) (List.mem_map.mpr ⟨r, hr, rfl⟩)).2
    simpa using this
  have hne : l.sum ≠ 0 := by
    intro h0
    apply hsum
    rw [xsum_map_fin, h0]
    simp
  have hpos : 0 < l.sum := lt_of_le_of_ne (List.sum_nonneg hnn) (Ne.symm hne)
  refine ⟨hn, ?_, hpos, ?_⟩
  · rw [hp, lpNorm1_map_fin l hnn, List.map_map]
    apply List.map_congr_left
    intro r _
    exact fin_div_fin r l.sum hne
  · have : (l.map (fun r => r / l.sum)).sum = l.sum / l.sum := by
      simp only [div_eq_mul_inv]
      rw [List.sum_map_mul_right]
      simp
    rw [this, div_self hne]

/-- full(ℝ): over the reals `p()` is the input divided by its sum, is non-negative and sums to `1`;
    `n()` is `n`. -/
theorem multinomial_new_ok_params_real (p : List ℝ) (n : Int) (d : Multinomial ℝ)
    (h : Multinomial.new p n = .ok d) :
    Multinomial.n d = n ∧ Multinomial.p d = p.map (fun e => e / p.sum) ∧
      (∀ e ∈ Multinomial.p d, 0 ≤ e) ∧ (Multinomial.p d).sum = 1 := by
  have hdom := (multinomial_new_ok_iff_generic p n).mp ⟨d, h⟩
  obtain ⟨hd, hn, hp, _⟩ := multinomial_new_ok_params p n d h
  obtain ⟨_, hall, hsum⟩ := hdom
  have hnn : ∀ r ∈ p, 0 ≤ r := by
    intro r hr
    have := hall r hr
    unfold ProbOk at this
    simp only [rfun_isNaN, Bool.false_eq_true, false_or, Statrs.Lemmas.Multivariate.lit0,
      not_lt] at this
    exact this
  have hs : probSum p = p.sum := by
    unfold probSum
    rw [Statrs.Lemmas.Multivariate.foldl_add_eq_sum, Statrs.Lemmas.Multivariate.lit0, zero_add]
  have hne : p.sum ≠ 0 := by
    intro h0; apply hsum; rw [hs, h0, Statrs.Lemmas.Multivariate.lit0]; simp
  have hpos : 0 < p.sum := lt_of_le_of_ne (List.sum_nonneg hnn) (Ne.symm hne)
  have hnorm : LA.lpNorm1 p = p.sum := by
    unfold LA.lpNorm1
    have : ∀ (l : List ℝ) (c : ℝ), (∀ e ∈ l, 0 ≤ e) →
        l.foldl (fun a b => a + RFun.powi (RFun.abs b) 1) c = c + l.sum := by
      intro l
      induction l with
      | nil => intro c _; simp
      | cons a t ih =>
        intro c hl
        rw [List.foldl_cons, ih _ (fun e he => hl e (List.mem_cons_of_mem _ he))]
        simp only [rfun_powi, rfun_abs, zpow_one, List.sum_cons,
          abs_of_nonneg (hl a List.mem_cons_self)]
        ring
    rw [this p _ hnn]
    simp [Statrs.Lemmas.Multivariate.lit0, Statrs.Lemmas.Multivariate.lit1]
  rw [hp, hnorm]
  refine ⟨hn, rfl, ?_, ?_⟩
  · intro e he
    obtain ⟨a, ha, rfl⟩ := List.mem_map.mp he
    exact div_nonneg (hnn a ha) hpos.le
  · have : (p.map (fun e => e / p.sum)).sum = p.sum / p.sum := by
      simp only [div_eq_mul_inv]
      rw [List.sum_map_mul_right]
      simp
    rw [this, div_self hne]

/-- `Multinomial::new` vs. its documentation:
    (1) `[1.0]` satisfies the `# Errors` section (non-empty, sum ≠ 0, no negative / NaN entry) but
        is rejected with `NotEnoughProbabilities`;
    (2) `[+∞, 1.0]` is `Ok` although `ProbabilityInvalid` is documented as "At least one
        probability is NaN, infinite or less than zero";
    hence neither "`Ok` iff `Domain`" nor "`Err` whenever a variant's documented condition holds"
    is true. -/
theorem multinomial_new_doc_mismatch_counterexample (n : Int) :
    (Dom.Multinomial.Domain [fin 1] ∧
      Multinomial.new [fin 1] n = .error .NotEnoughProbabilities) ∧
    (Dom.Multinomial.ErrDoc [pinf, fin 1] .ProbabilityInvalid ∧
      ∃ d, Multinomial.new [pinf, fin 1] n = .ok d) ∧
    ¬ ∀ p : List XR, (∃ d, Multinomial.new p n = .ok d) ↔ Dom.Multinomial.Domain p := by
  have h1 : Dom.Multinomial.Domain [fin 1] := by
    simp [Dom.Multinomial.Domain, xsum]
  have h2 : Multinomial.new [fin 1] n = .error .NotEnoughProbabilities := by
    simp [Multinomial.new, Multinomial.new_from_nalgebra]
  refine ⟨⟨h1, h2⟩, ⟨⟨pinf, by simp, by simp⟩, ?_⟩, fun h => ?_⟩
  · rw [multinomial_new_ok_iff_impl, multinomial_domainImpl_iff]
    refine ⟨by simp, ?_, pinf, by simp, by simp⟩
    intro x hx
    simp at hx
    rcases hx with rfl | rfl
    · left; rfl
    · right; exact ⟨1, by norm_num, rfl⟩
  · obtain ⟨d, hd⟩ := (h [fin 1]).mpr h1
    rw [h2] at hd
    cases hd

example : Dom.Multinomial.DomainImpl [fin 0, fin 1, fin 2] := by
  rw [multinomial_domainImpl_iff]
  refine ⟨by simp, ?_, fin 1, by simp, by simp⟩
  intro x hx
  simp at hx
  rcases hx with rfl | rfl | rfl <;> right
  · exact ⟨0, le_refl _, rfl⟩
  · exact ⟨1, by norm_num, rfl⟩
  · exact ⟨2, by norm_num, rfl⟩
example : ¬ Dom.Multinomial.DomainImpl [fin 0, fin (-1), fin 2] := by
  rw [multinomial_domainImpl_iff]
  rintro ⟨_, h, _⟩
  have := h (fin (-1)) (by simp)
  rcases this with h | ⟨r, hr, h⟩
  · cases h
  · injection h with h
    rw [← h] at hr; norm_num at hr
example : ¬ Dom.Multinomial.DomainImpl [fin 0, fin 0] := by
  rw [multinomial_domainImpl_iff]
  rintro ⟨_, _, x, hx, h⟩
  simp at hx
  subst hx
  simp at h
example : ∃ d, Multinomial.new [fin 0, fin 1, fin 2] 3 = .ok d ∧
    Multinomial.p d = [fin 0, fin (1 / 3), fin (2 / 3)] ∧ Multinomial.n d = 3 := by
  have hok : ∃ d, Multinomial.new ([0, 1, 2].map fin) 3 = .ok d := by
    rw [multinomial_new_ok_iff_impl, multinomial_domainImpl_iff]
    refine ⟨by simp, ?_, fin 1, by simp, by simp⟩
    intro x hx
    simp at hx
    rcases hx with rfl | rfl | rfl <;> right
    · exact ⟨0, le_refl _, rfl⟩
    · exact ⟨1, by norm_num, rfl⟩
    · exact ⟨2, by norm_num, rfl⟩
  obtain ⟨d, hd⟩ := hok
  obtain ⟨h1, h2, _, _⟩ := multinomial_new_ok_params_fin [0, 1, 2] 3 d hd
  refine ⟨d, hd, ?_, h1⟩
  rw [h2]
  norm_num

/-! ## Dirichlet on `XR` -/

theorem alphaOk_iff (a : XR) : AlphaOk a ↔ IsFinite a ∧ Dom.z < a := by
  unfold AlphaOk
  rw [xlit0, rfun_isFinite_iff]
  cases a <;> simp

/-- full(XR): `Ok` exactly on the implemented domain: at least two entries, every one finite and
    positive (= the `# Error` section of `new_from_nalgebra`). -/
theorem dirichlet_new_ok_iff_impl (alpha : List XR) :
    (∃ d, Dirichlet.new alpha = .ok d) ↔ Dom.Dirichlet.DomainImpl alpha := by
  rw [dirichlet_new_ok_iff_generic]
  unfold Dom.Dirichlet.DomainImpl
  simp only [alphaOk_iff, not_lt]

/-- full(XR): the variant is the documented one (first in declaration order whose documented
    condition holds = the order of the checks), and its documented condition holds. -/
theorem dirichlet_new_err (alpha : List XR) (e : DirichletError) (h : Dirichlet.new alpha = .error e) :
    e = Dom.Dirichlet.docErr alpha ∧ Dom.Dirichlet.ErrDoc alpha e := by
  rcases dirichlet_new_cases alpha with h' | h' | h'
  · rw [h'.2] at h; injection h with h; subst h
    simp [Dom.Dirichlet.docErr, Dom.Dirichlet.ErrDoc, h'.1]
  · rw [h'.2.2] at h; injection h with h; subst h
    have : ¬ alpha.length < 2 := by omega
    refine ⟨by simp [Dom.Dirichlet.docErr, Dom.Dirichlet.ErrDoc, this], ?_⟩
    obtain ⟨a, ha, hb⟩ := h'.2.1
    refine ⟨a, ha, ?_⟩
    rw [alphaOk_iff] at hb
    revert hb
    cases a <;> simp
  · rw [h'.2.2] at h; cases h

/-- the documented condition of `AlphaHasInvalidElements` is also COMPLETE: with at least two
    entries, an element that is NaN, infinite, zero or negative always gives that error -/
theorem dirichlet_new_err_of_invalid (alpha : List XR) (hlen : 2 ≤ alpha.length)
    (h : Dom.Dirichlet.ErrDoc alpha .AlphaHasInvalidElements) :
    Dirichlet.new alpha = .error .AlphaHasInvalidElements := by
  rcases dirichlet_new_cases alpha with h' | h' | h'
  · omega
  · exact h'.2.2
  · exfalso
    obtain ⟨a, ha, hb⟩ := h
    have := (alphaOk_iff a).mp (h'.2.1 a ha)
    revert this hb
    cases a <;> simp

/-- full(XR): `new_with_param(alpha, n)` is `Ok` exactly when `n ≥ 2` and `alpha` is finite and
    positive. -/
theorem dirichlet_new_with_param_ok_iff_impl (a : XR) (n : Int) :
    (∃ d, Dirichlet.new_with_param a n = .ok d) ↔ Dom.Dirichlet.ParamDomainImpl a n := by
  rw [dirichlet_new_with_param_ok_iff_generic, alphaOk_iff]
  unfold Dom.Dirichlet.ParamDomainImpl
  simp only [not_lt]

/-- `Dirichlet::new` / `new_with_param` vs. their `# Errors` sections ("`x <= 0.0` or `x` is NaN,
    or length `< 2`"): `+∞` satisfies the documented domain but is rejected (as the error enum
    and `new_from_nalgebra` document). -/
theorem dirichlet_new_doc_mismatch_counterexample :
    (Dom.Dirichlet.Domain [pinf, fin 1] ∧
      Dirichlet.new [pinf, fin 1] = .error .AlphaHasInvalidElements) ∧
    (Dom.Dirichlet.ParamDomain pinf 2 ∧
      Dirichlet.new_with_param pinf 2 = .error .AlphaHasInvalidElements) ∧
    ¬ ∀ alpha : List XR, (∃ d, Dirichlet.new alpha = .ok d) ↔ Dom.Dirichlet.Domain alpha := by
  have h1 : Dom.Dirichlet.Domain [pinf, fin 1] := by
    simp [Dom.Dirichlet.Domain]
  have h2 : Dirichlet.new [pinf, fin 1] = .error .AlphaHasInvalidElements :=
    dirichlet_new_err_of_invalid _ (by simp) ⟨pinf, by simp, by simp⟩
  refine ⟨⟨h1, h2⟩, ⟨by simp [Dom.Dirichlet.ParamDomain], ?_⟩, fun h => ?_⟩
  · rcases dirichlet_new_with_param_cases pinf 2 with h' | h' | h'
    · omega
    · exact h'.2.2
    · have := (alphaOk_iff pinf).mp h'.2.1; simp at this
  · obtain ⟨d, hd⟩ := (h _).mpr h1
    rw [h2] at hd
    cases hd

example : Dom.Dirichlet.DomainImpl [fin 1, fin 2, fin 3] := by
  norm_num [Dom.Dirichlet.DomainImpl]
example : ¬ Dom.Dirichlet.DomainImpl [fin 1] := by
  norm_num [Dom.Dirichlet.DomainImpl]
example : ¬ Dom.Dirichlet.DomainImpl [fin 1, fin 0] := by
  norm_num [Dom.Dirichlet.DomainImpl]
example : ¬ Dom.Dirichlet.DomainImpl [fin 1, nan] := by
  norm_num [Dom.Dirichlet.DomainImpl]
example : Dom.Dirichlet.ParamDomainImpl (fin 1) 3 := by
  norm_num [Dom.Dirichlet.ParamDomainImpl]
example : ¬ Dom.Dirichlet.ParamDomainImpl (fin 0) 1 := by
  norm_num [Dom.Dirichlet.ParamDomainImpl]
example : ∃ d, Dirichlet.new [fin 1, fin 2, fin 3] = .ok d ∧ Dirichlet.alpha d = [fin 1, fin 2, fin 3] := by
  obtain ⟨d, hd⟩ := (dirichlet_new_ok_iff_impl [fin 1, fin 2, fin 3]).mpr
    (by norm_num [Dom.Dirichlet.DomainImpl])
  exact ⟨d, hd, (dirichlet_new_ok_params _ d hd).2⟩

end Statrs.Props.C09
