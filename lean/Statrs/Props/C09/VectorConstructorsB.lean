/-
  C09 — matrix constructors, part B: `MultivariateNormal::new` / `new_from_nalgebra` and
  `MultivariateStudent::new` / `new_from_nalgebra` (hand models in Statrs/Model/Multivariate.lean).
  Conventions as in VectorConstructorsA.lean; domains in Statrs/Spec/VectorDomain.lean.

  The positive-definiteness requirement is, by definition here, "nalgebra's `Cholesky::new`
  succeeds" (`LA.choleskyNew cov ≠ none`); Statrs/Props/C09/Cholesky.lean proves that for real 1×1
  and 2×2 matrices this is positive-definiteness.

  For each family:
    * `x_new_cases`       — the complete decision list in the order the code checks, with the
                            value returned in every case;                                  full(∀α)
    * `x_new_ok_iff_impl` — `Ok` exactly on `Dom.X.DomainImpl`;                             full(XR)
    * `x_new_err`         — the variant returned, its documented condition, the order;      full(XR)
    * `x_new_ok_params`   — accessors return the arguments;                                 full(∀α)
    * `x_new_unwrap_safe` — the `.unwrap()` inside the `Ok` branch cannot panic;            full(∀α)
    * `x_vec_new_*`       — the `Vec` front end `new(mean, cov)`: it PANICS (nalgebra's
                            `DMatrix::from_vec` assertion) iff `cov.len() ≠ mean.len()²`
                            (`…_panics_counterexample`), and otherwise can never return
                            `DimensionMismatch`.                                            full(∀α)

  FINDINGS proved here:
    * `MultivariateNormal::new(vec![0.0], vec![])` panics instead of returning an `Err`
      (`mvn_vec_new_panics_counterexample`; same for `MultivariateStudent::new`);
    * the 1×1 "covariance" `[[+∞]]` is accepted (`mvn_new_accepts_infinite_cov`) — `+∞ ≠ 0` and
      `+∞ ≥ 0` is all `Cholesky::new` asks of a 1×1 matrix;
    * the empty distribution `new(vec![], vec![])` is accepted (`mvn_new_dim_zero`);
    * a NaN mean / a dimension mismatch is an error although the `# Errors` section names only
      "not symmetric or positive-definite" (`mvn_new_doc_mismatch_counterexample`);
    * the test `cov.iter().any(|f| f.is_nan())` is dead code: a NaN entry already fails the
      symmetry comparison (`mvn_cov_nan_check_redundant`).
-/
import Statrs.Spec.VectorDomain
set_option linter.unusedSectionVars false
set_option linter.unusedVariables false
namespace Statrs.Props.C09
open Statrs Statrs.Gen Statrs.Model Statrs.Spec Statrs.Spec.XR Statrs.Lemmas.C09Vector

/-! ## every carrier -/
section generic
variable {α : Type} [Add α] [Sub α] [Mul α] [Div α] [Neg α] [LT α] [LE α] [BEq α]
  [DecidableLT α] [DecidableLE α] [OfScientific α] [Inhabited α] [RFun α]

/-- the three tests of the `CovInvalid` / `ScaleInvalid` guard all pass -/
def CovChecks (cov : List (List α)) : Prop :=
  LA.isSquare cov = true ∧ LA.symmetricEq cov = true ∧ LA.anyNaN cov = false

theorem covChecks_iff (cov : List (List α)) :
    CovChecks cov ↔
      ¬ ((¬ (LA.isSquare cov) = true) ∨ (¬ (LA.symmetricEq cov) = true) ∨ ((LA.anyNaN cov) = true)) := by
  unfold CovChecks
  cases LA.isSquare cov <;> cases LA.symmetricEq cov <;> cases LA.anyNaN cov <;> simp

/-- the value stored by the `Ok` branch of `MultivariateNormal::new_from_nalgebra` -/
def mvnValue (mean : List α) (cov L : List (List α)) : MultivariateNormal α :=
  { f_pdf_const := unwrapO (density_distribution_pdf_const mean cov),
    f_cov_chol_decomp := LA.choleskyUnpack L,
    f_mu := mean,
    f_cov := cov,
    f_precision := LA.choleskyInverse L }

/-- full(∀α): the complete behaviour of `MultivariateNormal::new_from_nalgebra`, in the order the
    code checks:
    1. a NaN in `mean` → `MeanInvalid`;
    2. `cov` not square / lower triangle `!=` transposed upper triangle / a NaN in `cov`
       → `CovInvalid`;
    3. `mean.nrows ≠ cov.nrows` → `DimensionMismatch`;
    4. `Cholesky::new(cov)` is `None` → `CholeskyFailed`;
    5. otherwise `Ok`, storing `mean`, `cov`, the unpacked factor, its inverse and `pdf_const`. -/
theorem mvn_new_cases (mean : List α) (cov : List (List α)) :
    (mean.any (fun f => RFun.isNaN f) = true ∧
        MultivariateNormal.new_from_nalgebra mean cov = .error .MeanInvalid) ∨
    (mean.any (fun f => RFun.isNaN f) = false ∧ ¬ CovChecks cov ∧
        MultivariateNormal.new_from_nalgebra mean cov = .error .CovInvalid) ∨
    (mean.any (fun f => RFun.isNaN f) = false ∧ CovChecks cov ∧ mean.length ≠ cov.length ∧
        MultivariateNormal.new_from_nalgebra mean cov = .error .DimensionMismatch) ∨
    (mean.any (fun f => RFun.isNaN f) = false ∧ CovChecks cov ∧ mean.length = cov.length ∧
        LA.choleskyNew cov = none ∧
        MultivariateNormal.new_from_nalgebra mean cov = .error .CholeskyFailed) ∨
    (mean.any (fun f => RFun.isNaN f) = false ∧ CovChecks cov ∧ mean.length = cov.length ∧
        ∃ L, LA.choleskyNew cov = some L ∧
          MultivariateNormal.new_from_nalgebra mean cov = .ok (mvnValue mean cov L)) := by
  unfold MultivariateNormal.new_from_nalgebra
  by_cases h1 : mean.any (fun f => RFun.isNaN f) = true
  · left; exact ⟨h1, if_pos h1⟩
  right
  have h1' : mean.any (fun f => RFun.isNaN f) = false := by simpa using h1
  rw [if_neg h1]
  by_cases h2 : CovChecks cov
  swap
  · left; refine ⟨h1', h2, if_pos ?_⟩
    rw [covChecks_iff, not_not] at h2; exact h2
  right
  rw [if_neg ((covChecks_iff cov).mp h2)]
  by_cases h3 : mean.length ≠ cov.length
  · left; exact ⟨h1', h2, h3, if_pos h3⟩
  right
  rw [if_neg h3]
  have h3' : mean.length = cov.length := not_not.mp h3
  cases hL : LA.choleskyNew cov with
  | none => left; exact ⟨h1', h2, h3', rfl, rfl⟩
  | some L => right; exact ⟨h1', h2, h3', L, rfl, rfl⟩

/-- full(∀α): `Ok` iff all five checks pass -/
theorem mvn_new_ok_iff_generic (mean : List α) (cov : List (List α)) :
    (∃ d, MultivariateNormal.new_from_nalgebra mean cov = .ok d) ↔
      mean.any (fun f => RFun.isNaN f) = false ∧ CovChecks cov ∧ mean.length = cov.length ∧
        LA.choleskyNew cov ≠ none := by
  rcases mvn_new_cases mean cov with h | h | h | h | h
  · rw [h.2]; constructor
    · rintro ⟨d, hd⟩; cases hd
    · rintro ⟨h2, _⟩; rw [h.1] at h2; cases h2
  · rw [h.2.2]; constructor
    · rintro ⟨d, hd⟩; cases hd
    · rintro ⟨_, h2, _⟩; exact absurd h2 h.2.1
  · rw [h.2.2.2]; constructor
    · rintro ⟨d, hd⟩; cases hd
    · rintro ⟨_, _, h2, _⟩; exact absurd h2 h.2.2.1
  · rw [h.2.2.2.2]; constructor
    · rintro ⟨d, hd⟩; cases hd
    · rintro ⟨_, _, _, h2⟩; exact absurd h.2.2.2.1 h2
  · obtain ⟨h1, h2, h3, L, hL, hv⟩ := h
    rw [hv]
    exact ⟨fun _ => ⟨h1, h2, h3, by rw [hL]; simp⟩, fun _ => ⟨_, rfl⟩⟩

/-- full(∀α): `mu()` and `cov()` of an `Ok` value are the arguments (also through the
    statistics traits: `mean()`, `variance()`, `mode()`), and the stored factor / precision are
    those of `Cholesky::new(cov)`. -/
theorem mvn_new_ok_params (mean : List α) (cov : List (List α)) (d : MultivariateNormal α)
    (h : MultivariateNormal.new_from_nalgebra mean cov = .ok d) :
    MultivariateNormal.mu d = mean ∧ MultivariateNormal.cov d = cov ∧
      MultivariateNormal.mean d = some mean ∧ MultivariateNormal.variance d = some cov ∧
      MultivariateNormal.mode d = mean ∧
      ∃ L, LA.choleskyNew cov = some L ∧ d = mvnValue mean cov L := by
  rcases mvn_new_cases mean cov with h' | h' | h' | h' | h'
  · rw [h'.2] at h; cases h
  · rw [h'.2.2] at h; cases h
  · rw [h'.2.2.2] at h; cases h
  · rw [h'.2.2.2.2] at h; cases h
  · obtain ⟨_, _, _, L, hL, hv⟩ := h'
    rw [hv] at h
    injection h with h
    subst h
    exact ⟨rfl, rfl, rfl, rfl, rfl, L, hL, rfl⟩

/-- full(∀α): never panics — the only panic site of `new_from_nalgebra`,
    `density_distribution_pdf_const(&mean, &cov).unwrap()`, is reached only after the checks that
    make it `Some` -/
theorem mvn_new_unwrap_safe (mean : List α) (cov : List (List α))
    (h : ∃ d, MultivariateNormal.new_from_nalgebra mean cov = .ok d) :
    ∃ c, density_distribution_pdf_const mean cov = some c := by
  obtain ⟨_, ⟨hsq, _, _⟩, hlen, _⟩ := (mvn_new_ok_iff_generic mean cov).mp h
  unfold density_distribution_pdf_const
  rw [if_neg]
  · exact ⟨_, rfl⟩
  · rintro (h | h)
    · exact h hlen.symm
    · exact h hsq

/-! ### the `Vec` front end `MultivariateNormal::new(mean, cov)` -/

theorem fromVecColMajor_length (n : ℕ) (v : List α) : (LA.fromVecColMajor n v).length = n := by
  simp [LA.fromVecColMajor]

theorem fromVecColMajor_isSquare (n : ℕ) (v : List α) :
    LA.isSquare (LA.fromVecColMajor n v) = true := by
  simp [LA.isSquare, LA.fromVecColMajor]

/-- entry `(i, j)` of the matrix built by `DMatrix::from_vec(n, n, v)` is `v[i + j·n]` -/
theorem fromVecColMajor_mget (n : ℕ) (v : List α) (i j : ℕ) (hi : i < n) (hj : j < n) :
    LA.mget (LA.fromVecColMajor n v) i j = v.getD (i + j * n) default := by
  simp [LA.mget, LA.fromVecColMajor, hi, hj]

/-- full(∀α): `MultivariateNormal::new(mean, cov)` panics exactly when `cov.len() ≠ mean.len()²`,
    and otherwise is `new_from_nalgebra` on the column-major matrix -/
theorem mvn_vec_new_eq (mean cov : List α) :
    MultivariateNormal.new? mean cov =
      if cov.length ≠ mean.length * mean.length then none
      else some (MultivariateNormal.new_from_nalgebra mean (LA.fromVecColMajor mean.length cov)) := rfl

theorem mvn_vec_new_panics_iff (mean cov : List α) :
    MultivariateNormal.new? mean cov = none ↔ cov.length ≠ mean.length * mean.length := by
  rw [mvn_vec_new_eq]
  split_ifs with h <;> simp [h]

/-- C09 asks that constructors never panic: `MultivariateNormal::new(vec![0.0], vec![])` does
    (`none` = the `DMatrix::from_vec` assertion "Matrix init. error: the slice did not contain the
    right number of elements"), instead of returning `Err(DimensionMismatch)`. -/
theorem mvn_vec_new_panics_counterexample :
    MultivariateNormal.new? [(0.0 : α)] [] = none := by
  rw [mvn_vec_new_panics_iff]; simp

/-- full(∀α): through the `Vec` front end the matrix is square with `mean.len()` rows, so neither
    the "not square" disjunct nor `DimensionMismatch` can occur -/
theorem mvn_vec_new_never_dimension_mismatch (mean cov : List α)
    (r : Except MultivariateNormalError (MultivariateNormal α))
    (h : MultivariateNormal.new? mean cov = some r) : r ≠ .error .DimensionMismatch := by
  rw [mvn_vec_new_eq] at h
  split_ifs at h with hlen
  injection h with h
  subst h
  intro he
  rcases mvn_new_cases mean (LA.fromVecColMajor mean.length cov) with h' | h' | h' | h' | h'
  · rw [h'.2] at he; cases he
  · rw [h'.2.2] at he; cases he
  · exact h'.2.2.1 (fromVecColMajor_length _ _).symm
  · rw [h'.2.2.2.2] at he; cases he
  · obtain ⟨_, _, _, L, _, hv⟩ := h'
    rw [hv] at he; cases he

/-- full(∀α): the zero-dimensional distribution is accepted: `new(vec![], vec![])` is `Ok`
    (every check is vacuous and `Cholesky::new` of the 0×0 matrix succeeds).  Compare
    `Dirichlet` / `Multinomial`, which insist on at least two components. -/
theorem mvn_new_dim_zero :
    (∃ d : MultivariateNormal α, MultivariateNormal.new_from_nalgebra [] [] = .ok d) ∧
    (∃ d : MultivariateNormal α, MultivariateNormal.new? [] [] = some (.ok d)) := by
  have h : ∃ d : MultivariateNormal α, MultivariateNormal.new_from_nalgebra [] [] = .ok d := by
    rw [mvn_new_ok_iff_generic]
    refine ⟨rfl, ⟨rfl, rfl, rfl⟩, rfl, ?_⟩
    rw [choleskyNew_nil]; simp
  refine ⟨h, ?_⟩
  obtain ⟨d, hd⟩ := h
  refine ⟨d, ?_⟩
  rw [mvn_vec_new_eq, if_neg (by simp)]
  have : LA.fromVecColMajor ([] : List α).length ([] : List α) = [] := rfl
  rw [this, hd]

end generic

/-! ## MultivariateStudent, every carrier -/
section genericT
variable {α : Type} [Add α] [Sub α] [Mul α] [Div α] [Neg α] [LT α] [LE α] [BEq α]
  [DecidableLT α] [DecidableLE α] [OfScientific α] [Inhabited α] [RFun α] [SF α]

/-- `ln_pdf_const` as `new_from_nalgebra` computes it -/
def mvtLnPdfConst (location : List α) (scale : List (List α)) (freedom : α) : α :=
  (((SF.ln_gamma ((0.5 : α) * (freedom + (RFun.ofInt (location.length : Int) : α))))
      - (SF.ln_gamma ((0.5 : α) * freedom)))
      - (((0.5 : α) * (RFun.ofInt (location.length : Int) : α)) * (RFun.ln (freedom * (RFun.pi : α)))))
      - ((0.5 : α) * (RFun.ln (LA.determinant scale)))

/-- the value stored by the `Ok` branch of `MultivariateStudent::new_from_nalgebra` -/
def mvtValue (location : List α) (scale : List (List α)) (freedom : α) (L : List (List α)) :
    MultivariateStudent α :=
  { f_scale_chol_decomp := LA.choleskyUnpack L,
    f_location := location,
    f_scale := scale,
    f_freedom := freedom,
    f_precision := LA.choleskyInverse L,
    f_ln_pdf_const := mvtLnPdfConst location scale freedom }

/-- the `FreedomInvalid` guard passes: not NaN and not `<= 0.0` (`+∞` is allowed) -/
def FreedomOk (freedom : α) : Prop := ¬ (((RFun.isNaN freedom) = true) ∨ (freedom ≤ (0.0 : α)))

/-- full(∀α): the complete behaviour of `MultivariateStudent::new_from_nalgebra`, in the order the
    code checks: `LocationInvalid`, `ScaleInvalid`, `FreedomInvalid`, `DimensionMismatch`,
    `CholeskyFailed`, `Ok`. -/
theorem mvt_new_cases (location : List α) (scale : List (List α)) (freedom : α) :
    (location.any (fun f => RFun.isNaN f) = true ∧
        MultivariateStudent.new_from_nalgebra location scale freedom = .error .LocationInvalid) ∨
    (location.any (fun f => RFun.isNaN f) = false ∧ ¬ CovChecks scale ∧
        MultivariateStudent.new_from_nalgebra location scale freedom = .error .ScaleInvalid) ∨
    (location.any (fun f => RFun.isNaN f) = false ∧ CovChecks scale ∧ ¬ FreedomOk freedom ∧
        MultivariateStudent.new_from_nalgebra location scale freedom = .error .FreedomInvalid) ∨
    (location.any (fun f => RFun.isNaN f) = false ∧ CovChecks scale ∧ FreedomOk freedom ∧
        location.length ≠ scale.length ∧
        MultivariateStudent.new_from_nalgebra location scale freedom = .error .DimensionMismatch) ∨
    (location.any (fun f => RFun.isNaN f) = false ∧ CovChecks scale ∧ FreedomOk freedom ∧
        location.length = scale.length ∧ LA.choleskyNew scale = none ∧
        MultivariateStudent.new_from_nalgebra location scale freedom = .error .CholeskyFailed) ∨
    (location.any (fun f => RFun.isNaN f) = false ∧ CovChecks scale ∧ FreedomOk freedom ∧
        location.length = scale.length ∧
        ∃ L, LA.choleskyNew scale = some L ∧
          MultivariateStudent.new_from_nalgebra location scale freedom =
            .ok (mvtValue location scale freedom L)) := by
  unfold MultivariateStudent.new_from_nalgebra
  simp only []
  by_cases h1 : location.any (fun f => RFun.isNaN f) = true
  · left; exact ⟨h1, if_pos h1⟩
  right
  have h1' : location.any (fun f => RFun.isNaN f) = false := by simpa using h1
  rw [if_neg h1]
  by_cases h2 : CovChecks scale
  swap
  · left; refine ⟨h1', h2, if_pos ?_⟩
    rw [covChecks_iff, not_not] at h2; exact h2
  right
  rw [if_neg ((covChecks_iff scale).mp h2)]
  by_cases hf : FreedomOk freedom
  swap
  · left; exact ⟨h1', h2, hf, if_pos (not_not.mp hf)⟩
  right
  rw [if_neg hf]
  by_cases h3 : location.length ≠ scale.length
  · left; exact ⟨h1', h2, hf, h3, if_pos h3⟩
  right
  rw [if_neg h3]
  have h3' : location.length = scale.length := not_not.mp h3
  cases hL : LA.choleskyNew scale with
  | none => left; exact ⟨h1', h2, hf, h3', rfl, rfl⟩
  | some L => right; exact ⟨h1', h2, hf, h3', L, rfl, rfl⟩

/-- full(∀α): `Ok` iff all six checks pass -/
theorem mvt_new_ok_iff_generic (location : List α) (scale : List (List α)) (freedom : α) :
    (∃ d, MultivariateStudent.new_from_nalgebra location scale freedom = .ok d) ↔
      location.any (fun f => RFun.isNaN f) = false ∧ CovChecks scale ∧ FreedomOk freedom ∧
        location.length = scale.length ∧ LA.choleskyNew scale ≠ none := by
  rcases mvt_new_cases location scale freedom with h | h | h | h | h | h
  · rw [h.2]; constructor
    · rintro ⟨d, hd⟩; cases hd
    · rintro ⟨h2, _⟩; rw [h.1] at h2; cases h2
  · rw [h.2.2]; constructor
    · rintro ⟨d, hd⟩; cases hd
    · rintro ⟨_, h2, _⟩; exact absurd h2 h.2.1
  · rw [h.2.2.2]; constructor
    · rintro ⟨d, hd⟩; cases hd
    · rintro ⟨_, _, h2, _⟩; exact absurd h2 h.2.2.1
  · rw [h.2.2.2.2]; constructor
    · rintro ⟨d, hd⟩; cases hd
    · rintro ⟨_, _, _, h2, _⟩; exact absurd h2 h.2.2.2.1
  · rw [h.2.2.2.2.2]; constructor
    · rintro ⟨d, hd⟩; cases hd
    · rintro ⟨_, _, _, _, h2⟩; exact absurd h.2.2.2.2.1 h2
  · obtain ⟨h1, h2, hf, h3, L, hL, hv⟩ := h
    rw [hv]
    exact ⟨fun _ => ⟨h1, h2, hf, h3, by rw [hL]; simp⟩, fun _ => ⟨_, rfl⟩⟩

/-- full(∀α): `location()`, `scale()`, `freedom()`, `dim()` of an `Ok` value are the arguments -/
theorem mvt_new_ok_params (location : List α) (scale : List (List α)) (freedom : α)
    (d : MultivariateStudent α)
    (h : MultivariateStudent.new_from_nalgebra location scale freedom = .ok d) :
    MultivariateStudent.location d = location ∧ MultivariateStudent.scale d = scale ∧
      MultivariateStudent.freedom d = freedom ∧
      MultivariateStudent.dim d = (location.length : Int) ∧
      MultivariateStudent.mode d = location ∧
      ∃ L, LA.choleskyNew scale = some L ∧ d = mvtValue location scale freedom L := by
  rcases mvt_new_cases location scale freedom with h' | h' | h' | h' | h' | h'
  · rw [h'.2] at h; cases h
  · rw [h'.2.2] at h; cases h
  · rw [h'.2.2.2] at h; cases h
  · rw [h'.2.2.2.2] at h; cases h
  · rw [h'.2.2.2.2.2] at h; cases h
  · obtain ⟨_, _, _, _, L, hL, hv⟩ := h'
    rw [hv] at h
    injection h with h
    subst h
    exact ⟨rfl, rfl, rfl, rfl, rfl, L, hL, rfl⟩

/-- full(∀α): `MultivariateStudent::new(location, scale, freedom)` panics exactly when
    `scale.len() ≠ location.len()²` -/
theorem mvt_vec_new_eq (location scale : List α) (freedom : α) :
    MultivariateStudent.new? location scale freedom =
      if scale.length ≠ location.length * location.length then none
      else some (MultivariateStudent.new_from_nalgebra location
        (LA.fromVecColMajor location.length scale) freedom) := rfl

theorem mvt_vec_new_panics_iff (location scale : List α) (freedom : α) :
    MultivariateStudent.new? location scale freedom = none ↔
      scale.length ≠ location.length * location.length := by
  rw [mvt_vec_new_eq]
  split_ifs with h <;> simp [h]

/-- `MultivariateStudent::new(vec![0.0], vec![], ν)` panics instead of returning an `Err`. -/
theorem mvt_vec_new_panics_counterexample (freedom : α) :
    MultivariateStudent.new? [(0.0 : α)] [] freedom = none := by
  rw [mvt_vec_new_panics_iff]; simp

theorem mvt_vec_new_never_dimension_mismatch (location scale : List α) (freedom : α)
    (r : Except MultivariateStudentError (MultivariateStudent α))
    (h : MultivariateStudent.new? location scale freedom = some r) :
    r ≠ .error .DimensionMismatch := by
  rw [mvt_vec_new_eq] at h
  split_ifs at h with hlen
  injection h with h
  subst h
  intro he
  rcases mvt_new_cases location (LA.fromVecColMajor location.length scale) freedom
    with h' | h' | h' | h' | h' | h'
  · rw [h'.2] at he; cases he
  · rw [h'.2.2] at he; cases he
  · rw [h'.2.2.2] at he; cases he
  · exact h'.2.2.2.1 (fromVecColMajor_length _ _).symm
  · rw [h'.2.2.2.2.2] at he; cases he
  · obtain ⟨_, _, _, _, L, _, hv⟩ := h'
    rw [hv] at he; cases he

end genericT

/-! ## MultivariateNormal on `XR` -/

theorem covChecks_xr_iff (cov : List (List XR)) :
    CovChecks cov ↔ LA.isSquare cov = true ∧ SymNoNaN cov.length cov := by
  unfold CovChecks
  constructor
  · rintro ⟨h1, h2, _⟩; exact ⟨h1, (symmetricEq_iff cov).mp h2⟩
  · rintro ⟨h1, h2⟩
    have h2' := (symmetricEq_iff cov).mpr h2
    exact ⟨h1, h2', anyNaN_false_of_symmetricEq cov h1 h2'⟩

/-- the third disjunct of the `CovInvalid` guard is dead code: on a square matrix (every
    `OMatrix<f64, D, D>`) a NaN entry already makes `lower_triangle != upper_triangle^T` true -/
theorem mvn_cov_nan_check_redundant (cov : List (List XR)) (hsq : LA.isSquare cov = true)
    (hnan : LA.anyNaN cov = true) : LA.symmetricEq cov = false := by
  cases hs : LA.symmetricEq cov with
  | false => rfl
  | true =>
    have := anyNaN_false_of_symmetricEq cov hsq hs
    rw [hnan] at this; cases this

/-- full(XR): `Ok` exactly on the implemented domain: no NaN in `mean`, `cov` square, symmetric
    and NaN-free, as many rows as `mean`, and `Cholesky::new(cov)` succeeds.  Infinite means and
    infinite covariance entries are NOT excluded. -/
theorem mvn_new_ok_iff_impl (mean : List XR) (cov : List (List XR)) :
    (∃ d, MultivariateNormal.new_from_nalgebra mean cov = .ok d) ↔
      Dom.MultivariateNormal.DomainImpl mean cov := by
  rw [mvn_new_ok_iff_generic, covChecks_xr_iff, any_isNaN_false_iff]
  unfold Dom.MultivariateNormal.DomainImpl
  tauto

/-- full(XR): for a square `cov` (always, in Rust): the variant returned, in the order of the
    checks, and the documented condition of that variant holds. -/
theorem mvn_new_err (mean : List XR) (cov : List (List XR)) (hsq : LA.isSquare cov = true)
    (e : MultivariateNormalError)
    (h : MultivariateNormal.new_from_nalgebra mean cov = .error e) :
    Dom.MultivariateNormal.ErrDoc mean cov e ∧
    (e = .MeanInvalid ↔ ∃ x ∈ mean, IsNaN x) ∧
    (e = .CovInvalid ↔ (∀ x ∈ mean, ¬ IsNaN x) ∧ ¬ SymNoNaN cov.length cov) ∧
    (e = .DimensionMismatch ↔
      (∀ x ∈ mean, ¬ IsNaN x) ∧ SymNoNaN cov.length cov ∧ mean.length ≠ cov.length) ∧
    (e = .CholeskyFailed ↔
      (∀ x ∈ mean, ¬ IsNaN x) ∧ SymNoNaN cov.length cov ∧ mean.length = cov.length ∧
        LA.choleskyNew cov = none) := by
  have hcc : CovChecks cov ↔ SymNoNaN cov.length cov := by
    rw [covChecks_xr_iff]; exact ⟨fun h => h.2, fun h => ⟨hsq, h⟩⟩
  have hmean : mean.any (fun f => RFun.isNaN f) = true ↔ ∃ x ∈ mean, IsNaN x := by
    simp only [List.any_eq_true, rfun_isNaN_iff]
  have hmean' : mean.any (fun f => RFun.isNaN f) = false ↔ ∀ x ∈ mean, ¬ IsNaN x :=
    any_isNaN_false_iff mean
  rcases mvn_new_cases mean cov with h' | h' | h' | h' | h'
  · rw [h'.2] at h; injection h with h; subst h
    have := hmean.mp h'.1
    refine ⟨this, by simp [this], ?_, ?_, ?_⟩ <;>
      simp only [reduceCtorEq, false_iff, not_and] <;> intro hn <;>
      obtain ⟨x, hx, hb⟩ := this <;> exact absurd hb (hn x hx)
  · rw [h'.2.2] at h; injection h with h; subst h
    have h1 := hmean'.mp h'.1
    have h2 : ¬ SymNoNaN cov.length cov := fun hs => h'.2.1 (hcc.mpr hs)
    refine ⟨h2, ?_, by simp only [true_iff]; exact ⟨h1, h2⟩, ?_, ?_⟩
    · simp only [reduceCtorEq, false_iff, not_exists, not_and]; exact h1
    · simp only [reduceCtorEq, false_iff, not_and]; intro _ hs; exact absurd hs h2
    · simp only [reduceCtorEq, false_iff, not_and]; intro _ hs; exact absurd hs h2
  · rw [h'.2.2.2] at h; injection h with h; subst h
    have h1 := hmean'.mp h'.1
    have h2 := hcc.mp h'.2.1
    have h3 := h'.2.2.1
    refine ⟨h3, ?_, ?_, by simp only [true_iff]; exact ⟨h1, h2, h3⟩, ?_⟩
    · simp only [reduceCtorEq, false_iff, not_exists, not_and]; exact h1
    · simp only [reduceCtorEq, false_iff, not_and, not_not]; intro _; exact h2
    · simp only [reduceCtorEq, false_iff, not_and]; intro _ _ hl; exact absurd hl h3
  · rw [h'.2.2.2.2] at h; injection h with h; subst h
    have h1 := hmean'.mp h'.1
    have h2 := hcc.mp h'.2.1
    have h3 := h'.2.2.1
    have h4 := h'.2.2.2.1
    refine ⟨h4, ?_, ?_, ?_, by simp only [true_iff]; exact ⟨h1, h2, h3, h4⟩⟩
    · simp only [reduceCtorEq, false_iff, not_exists, not_and]; exact h1
    · simp only [reduceCtorEq, false_iff, not_and, not_not]; intro _; exact h2
    · simp only [reduceCtorEq, false_iff, not_and, not_not]; intro _ _; exact h3
  · obtain ⟨_, _, _, L, _, hv⟩ := h'
    rw [hv] at h; cases h

/-! ### witnesses on `XR` -/

theorem symNoNaN_one (s : XR) (hs : ¬ IsNaN s) : SymNoNaN 1 [[s]] := by
  intro i j hi hj
  obtain rfl : i = 0 := by omega
  obtain rfl : j = 0 := by omega
  exact ⟨rfl, hs⟩

/-- full(XR): `Cholesky::new` of a 1×1 matrix succeeds iff the entry is `> 0` (`+∞` included) -/
theorem chol_one_xr_iff (s : XR) : LA.choleskyNew [[s]] ≠ none ↔ Dom.z < s := by
  rw [choleskyNew_one, xlit0]
  by_cases h1 : (s == fin 0) = true
  · rw [if_pos h1]
    have := ((beq_iff _ _).mp h1).1
    subst this
    simp
  · rw [if_neg h1]
    by_cases h2 : fin 0 ≤ s
    · rw [if_pos h2]
      have : Dom.z < s := by
        revert h1 h2
        cases s <;> simp
        intro h1 h2; exact lt_of_le_of_ne h2 (Ne.symm h1)
      simp [this]
    · rw [if_neg h2]
      have : ¬ Dom.z < s := by
        revert h2
        cases s <;> simp
        intro h; exact h.le
      simp [this]

/-- full(XR): a 1×1 matrix `[[s]]` with mean `[m]` is accepted iff `m` is not NaN and `s > 0`
    (including `s = +∞`). -/
theorem mvn_new_one_dim_ok_iff (m s : XR) :
    (∃ d, MultivariateNormal.new_from_nalgebra [m] [[s]] = .ok d) ↔ ¬ IsNaN m ∧ Dom.z < s := by
  rw [mvn_new_ok_iff_impl]
  unfold Dom.MultivariateNormal.DomainImpl
  constructor
  · rintro ⟨h1, _, _, _, h5⟩
    exact ⟨h1 m (by simp), (chol_one_xr_iff s).mp h5⟩
  · rintro ⟨h1, h2⟩
    have hs : ¬ IsNaN s := by revert h2; cases s <;> simp
    refine ⟨by simpa using h1, rfl, symNoNaN_one s hs, rfl, (chol_one_xr_iff s).mpr h2⟩

/-- The 1×1 "covariance matrix" `[[+∞]]` (and the mean `[+∞]`) is accepted: nothing in
    `new_from_nalgebra` or in `Cholesky::new` rejects infinite entries, although `+∞` is not a
    (positive-definite) real matrix as the `# Errors` section requires. -/
theorem mvn_new_accepts_infinite_cov :
    (∃ d, MultivariateNormal.new_from_nalgebra [fin 0] [[pinf]] = .ok d) ∧
    (∃ d, MultivariateNormal.new_from_nalgebra [pinf] [[pinf]] = .ok d) := by
  constructor <;> rw [mvn_new_one_dim_ok_iff] <;> simp

/-- `new`/`new_from_nalgebra` vs. the `# Errors` section ("Returns an error if the given covariance
    matrix is not symmetric or positive-definite"): with the symmetric positive-definite
    covariance `[[1.0]]`, a NaN mean gives `Err(MeanInvalid)` and a mean of the wrong length gives
    `Err(DimensionMismatch)` — conditions documented only on the error enum. -/
theorem mvn_new_doc_mismatch_counterexample :
    MultivariateNormal.new_from_nalgebra [nan] [[fin 1]] = .error .MeanInvalid ∧
    MultivariateNormal.new_from_nalgebra [fin 0, fin 0] [[fin 1]] = .error .DimensionMismatch ∧
    ∃ d, MultivariateNormal.new_from_nalgebra [fin 0] [[fin 1]] = .ok d := by
  refine ⟨?_, ?_, ?_⟩
  · rcases mvn_new_cases [nan] [[fin 1]] with h | h | h | h | h
    · exact h.2
    all_goals (have := h.1; simp at this)
  · have hcc : CovChecks [[fin (1 : ℝ)]] := by
      rw [covChecks_xr_iff]; exact ⟨rfl, symNoNaN_one _ (by simp)⟩
    rcases mvn_new_cases [fin 0, fin 0] [[fin 1]] with h | h | h | h | h
    · have := h.1; simp at this
    · exact absurd hcc h.2.1
    · exact h.2.2.2
    · have := h.2.2.1; simp at this
    · have := h.2.2.1; simp at this
  · rw [mvn_new_one_dim_ok_iff]; simp

example : Dom.MultivariateNormal.DomainImpl [fin 0] [[fin 1]] := by
  rw [← mvn_new_ok_iff_impl, mvn_new_one_dim_ok_iff]; simp
example : ¬ Dom.MultivariateNormal.DomainImpl [fin 0] [[fin 0]] := by
  rw [← mvn_new_ok_iff_impl, mvn_new_one_dim_ok_iff]; simp
example : ¬ Dom.MultivariateNormal.DomainImpl [fin 0] [[fin (-1)]] := by
  rw [← mvn_new_ok_iff_impl, mvn_new_one_dim_ok_iff]; simp

/-- a 2×2 witness: the identity covariance -/
example : Dom.MultivariateNormal.DomainImpl [fin 0, fin 0] [[fin 1, fin 0], [fin 0, fin 1]] := by
  refine ⟨by simp, rfl, ?_, rfl, ?_⟩
  · intro i j hi hj
    simp at hi hj
    interval_cases i <;> interval_cases j <;> simp [LA.mget]
  · rw [choleskyNew_two]
    have hs : RFun.sqrt (fin 1 : XR) = fin 1 := by
      show fin (Real.sqrt 1) = fin 1
      rw [Real.sqrt_one]
    have hp : pivot2 (fin 1 : XR) (fin 0) (fin 1) = fin 1 := by
      unfold pivot2
      rw [hs, fin_div_fin _ _ one_ne_zero, xlit1]
      simp
    rw [hp, xlit0]
    simp

/-- an asymmetric 2×2 matrix is rejected with `CovInvalid` -/
example : MultivariateNormal.new_from_nalgebra [fin 0, fin 0] [[fin 1, fin 0.5], [fin 0, fin 1]]
    = .error .CovInvalid := by
  rcases mvn_new_cases [fin 0, fin 0] [[fin 1, fin 0.5], [fin (0 : ℝ), fin 1]] with h | h | h | h | h
  · have := h.1; simp at this
  · exact h.2.2
  all_goals
    exfalso
    have := ((covChecks_xr_iff _).mp h.2.1).2 0 1 (by simp) (by simp)
    simp [LA.mget] at this
    norm_num at this

/-! ## MultivariateStudent on `XR` (the special functions only enter `ln_pdf_const`) -/
section xrT
variable [SF XR]

theorem freedomOk_iff (freedom : XR) : FreedomOk freedom ↔ ¬ IsNaN freedom ∧ ¬ freedom ≤ Dom.z := by
  unfold FreedomOk
  rw [xlit0, rfun_isNaN_iff]
  exact not_or

/-- full(XR): `Ok` exactly on the implemented domain; `freedom = +∞` is allowed. -/
theorem mvt_new_ok_iff_impl (location : List XR) (scale : List (List XR)) (freedom : XR) :
    (∃ d, MultivariateStudent.new_from_nalgebra location scale freedom = .ok d) ↔
      Dom.MultivariateStudent.DomainImpl location scale freedom := by
  rw [mvt_new_ok_iff_generic, covChecks_xr_iff, any_isNaN_false_iff, freedomOk_iff]
  unfold Dom.MultivariateStudent.DomainImpl
  tauto

/-- full(XR): for a square `scale`: the variant returned, in the order of the checks
    (location, scale, freedom, dimension, Cholesky), with its documented condition. -/
theorem mvt_new_err (location : List XR) (scale : List (List XR)) (freedom : XR)
    (hsq : LA.isSquare scale = true) (e : MultivariateStudentError)
    (h : MultivariateStudent.new_from_nalgebra location scale freedom = .error e) :
    Dom.MultivariateStudent.ErrDoc location scale freedom e ∧
    (e = .LocationInvalid ↔ ∃ x ∈ location, IsNaN x) ∧
    (e = .ScaleInvalid ↔ (∀ x ∈ location, ¬ IsNaN x) ∧ ¬ SymNoNaN scale.length scale) ∧
    (e = .FreedomInvalid ↔ (∀ x ∈ location, ¬ IsNaN x) ∧ SymNoNaN scale.length scale ∧
      (IsNaN freedom ∨ freedom ≤ Dom.z)) ∧
    (e = .DimensionMismatch ↔ (∀ x ∈ location, ¬ IsNaN x) ∧ SymNoNaN scale.length scale ∧
      ¬ (IsNaN freedom ∨ freedom ≤ Dom.z) ∧ location.length ≠ scale.length) ∧
    (e = .CholeskyFailed ↔ (∀ x ∈ location, ¬ IsNaN x) ∧ SymNoNaN scale.length scale ∧
      ¬ (IsNaN freedom ∨ freedom ≤ Dom.z) ∧ location.length = scale.length ∧
      LA.choleskyNew scale = none) := by
  have hcc : CovChecks scale ↔ SymNoNaN scale.length scale := by
    rw [covChecks_xr_iff]; exact ⟨fun h => h.2, fun h => ⟨hsq, h⟩⟩
  have hloc : location.any (fun f => RFun.isNaN f) = true ↔ ∃ x ∈ location, IsNaN x := by
    simp only [List.any_eq_true, rfun_isNaN_iff]
  have hloc' : location.any (fun f => RFun.isNaN f) = false ↔ ∀ x ∈ location, ¬ IsNaN x :=
    any_isNaN_false_iff location
  have hfr : FreedomOk freedom ↔ ¬ (IsNaN freedom ∨ freedom ≤ Dom.z) := by
    rw [freedomOk_iff]; tauto
  rcases mvt_new_cases location scale freedom with h' | h' | h' | h' | h' | h'
  · rw [h'.2] at h; injection h with h; subst h
    have := hloc.mp h'.1
    refine ⟨this, by simp [this], ?_, ?_, ?_, ?_⟩ <;>
      simp only [reduceCtorEq, false_iff, not_and] <;> intro hn <;>
      obtain ⟨x, hx, hb⟩ := this <;> exact absurd hb (hn x hx)
  · rw [h'.2.2] at h; injection h with h; subst h
    have h1 := hloc'.mp h'.1
    have h2 : ¬ SymNoNaN scale.length scale := fun hs => h'.2.1 (hcc.mpr hs)
    refine ⟨h2, ?_, by simp only [true_iff]; exact ⟨h1, h2⟩, ?_, ?_, ?_⟩
    · simp only [reduceCtorEq, false_iff, not_exists, not_and]; exact h1
    all_goals (simp only [reduceCtorEq, false_iff, not_and]; intro _ hs; exact absurd hs h2)
  · rw [h'.2.2.2] at h; injection h with h; subst h
    have h1 := hloc'.mp h'.1
    have h2 := hcc.mp h'.2.1
    have h3 : IsNaN freedom ∨ freedom ≤ Dom.z := by
      have := h'.2.2.1; rw [hfr, not_not] at this; exact this
    refine ⟨h3, ?_, ?_, by simp only [true_iff]; exact ⟨h1, h2, h3⟩, ?_, ?_⟩
    · simp only [reduceCtorEq, false_iff, not_exists, not_and]; exact h1
    · simp only [reduceCtorEq, false_iff, not_and, not_not]; intro _; exact h2
    all_goals (simp only [reduceCtorEq, false_iff, not_and]; intro _ _ hf; exact absurd h3 hf)
  · rw [h'.2.2.2.2] at h; injection h with h; subst h
    have h1 := hloc'.mp h'.1
    have h2 := hcc.mp h'.2.1
    have h3 := hfr.mp h'.2.2.1
    have h4 := h'.2.2.2.1
    refine ⟨h4, ?_, ?_, ?_, by simp only [true_iff]; exact ⟨h1, h2, h3, h4⟩, ?_⟩
    · simp only [reduceCtorEq, false_iff, not_exists, not_and]; exact h1
    · simp only [reduceCtorEq, false_iff, not_and, not_not]; intro _; exact h2
    · simp only [reduceCtorEq, false_iff, not_and]; intro _ _ hf; exact absurd hf h3
    · simp only [reduceCtorEq, false_iff, not_and]; intro _ _ _ hl; exact absurd hl h4
  · rw [h'.2.2.2.2.2] at h; injection h with h; subst h
    have h1 := hloc'.mp h'.1
    have h2 := hcc.mp h'.2.1
    have h3 := hfr.mp h'.2.2.1
    have h4 := h'.2.2.2.1
    have h5 := h'.2.2.2.2.1
    refine ⟨h5, ?_, ?_, ?_, ?_, by simp only [true_iff]; exact ⟨h1, h2, h3, h4, h5⟩⟩
    · simp only [reduceCtorEq, false_iff, not_exists, not_and]; exact h1
    · simp only [reduceCtorEq, false_iff, not_and, not_not]; intro _; exact h2
    · simp only [reduceCtorEq, false_iff, not_and]; intro _ _ hf; exact absurd hf h3
    · simp only [reduceCtorEq, false_iff, not_and, not_not]; intro _ _ _; exact h4
  · obtain ⟨_, _, _, _, L, _, hv⟩ := h'
    rw [hv] at h; cases h

/-- full(XR): the one-dimensional case in elementary terms; `freedom = +∞` and `scale = +∞` pass. -/
theorem mvt_new_one_dim_ok_iff (m s ν : XR) :
    (∃ d, MultivariateStudent.new_from_nalgebra [m] [[s]] ν = .ok d) ↔
      ¬ IsNaN m ∧ Dom.z < s ∧ Dom.z < ν := by
  have hν : (¬ IsNaN ν ∧ ¬ ν ≤ Dom.z) ↔ Dom.z < ν := by cases ν <;> simp
  have hmvn := mvn_new_one_dim_ok_iff m s
  rw [mvn_new_ok_iff_impl] at hmvn
  rw [mvt_new_ok_iff_impl]
  unfold Dom.MultivariateStudent.DomainImpl
  unfold Dom.MultivariateNormal.DomainImpl at hmvn
  rw [hν]
  constructor
  · rintro ⟨h1, h2, h3, h4, h5, h6⟩
    have := hmvn.mp ⟨h1, h2, h3, h5, h6⟩
    exact ⟨this.1, this.2, h4⟩
  · rintro ⟨h1, h2, h3⟩
    obtain ⟨a, b, c, d, e⟩ := hmvn.mpr ⟨h1, h2⟩
    exact ⟨a, b, c, h3, d, e⟩

example : ∃ d, MultivariateStudent.new_from_nalgebra [fin 0] [[fin 1]] (fin 3) = .ok d := by
  rw [mvt_new_one_dim_ok_iff]; simp
example : ∃ d, MultivariateStudent.new_from_nalgebra [fin 0] [[fin 1]] pinf = .ok d := by
  rw [mvt_new_one_dim_ok_iff]; simp
example : ¬ ∃ d, MultivariateStudent.new_from_nalgebra [fin 0] [[fin 1]] (fin 0) = .ok d := by
  rw [mvt_new_one_dim_ok_iff]; simp
example : ¬ ∃ d, MultivariateStudent.new_from_nalgebra [fin 0] [[fin 1]] nan = .ok d := by
  rw [mvt_new_one_dim_ok_iff]; simp

end xrT

end Statrs.Props.C09
