/-
  C10 — Beta(1, 1) = Uniform(0, 1), carrier ℝ.  Over ℝ the model's `ulps_eq!(a, 1.0)` test is
  exact equality, so `Beta(1,1)` takes the short-cut branches.  full(ℝ) except entropy and the
  quantile, which go through `SF.ln_beta` / `SF.inv_beta_reg` (`_rel`).  The `mode` genuinely
  differs (Beta: `None`, Uniform: midpoint) — recorded as a theorem.
-/
import Statrs.Real.Simp
import Statrs.Gen.D_beta
import Statrs.Gen.D_uniform
import Statrs.Spec.SFSpec_related
import Statrs.Lemmas.Related
import Mathlib.Tactic
namespace Statrs.Props.C10
open Statrs Statrs.Gen Statrs.Spec Statrs.Lemmas.Related

/-- `Beta.new 1 1` and `Uniform.new 0 1` succeed with these objects -/
theorem beta11_uniform01_constructed :
    Beta.new (1 : ℝ) 1 = .ok ⟨1, 1⟩ ∧ Uniform.new (0 : ℝ) 1 = .ok ⟨0, 1⟩ := by
  unfold Beta.new Uniform.new
  rfun_norm; lit_norm
  norm_num

theorem beta11_cdf_eq_uniform [SF ℝ] (x : ℝ) :
    Beta.cdf ⟨1, 1⟩ x = Uniform.cdf ⟨0, 1⟩ x := by
  unfold Beta.cdf Uniform.cdf
  rfun_norm; lit_norm
  by_cases h0 : x < 0
  · simp [h0, h0.le]
  · by_cases h00 : x = 0
    · subst h00; simp
    · have : ¬ x ≤ 0 := fun h => h00 (le_antisymm h (not_lt.mp h0))
      simp [h0, this]

theorem beta11_sf_eq_uniform [SF ℝ] (x : ℝ) :
    Beta.sf ⟨1, 1⟩ x = Uniform.sf ⟨0, 1⟩ x := by
  unfold Beta.sf Uniform.sf
  rfun_norm; lit_norm
  by_cases h0 : x < 0
  · simp [h0, h0.le]
  · by_cases h00 : x = 0
    · subst h00; simp
    · have : ¬ x ≤ 0 := fun h => h00 (le_antisymm h (not_lt.mp h0))
      simp [h0, this]

theorem beta11_pdf_eq_uniform [SF ℝ] (x : ℝ) :
    Beta.pdf ⟨1, 1⟩ x = Uniform.pdf ⟨0, 1⟩ x := by
  unfold Beta.pdf Uniform.pdf
  rfun_norm; lit_norm
  by_cases h : 0 ≤ x ∧ x ≤ 1
  · have : ¬ (x < 0 ∨ 1 < x) := by rintro (h' | h') <;> linarith [h.1, h.2]
    simp [h, this]
  · have : (x < 0 ∨ 1 < x) := by
      by_contra hc; rw [not_or, not_lt, not_lt] at hc; exact h hc
    simp [h, this]

theorem beta11_ln_pdf_eq_uniform [SF ℝ] (x : ℝ) :
    Beta.ln_pdf ⟨1, 1⟩ x = Uniform.ln_pdf ⟨0, 1⟩ x := by
  unfold Beta.ln_pdf Uniform.ln_pdf
  rfun_norm; lit_norm
  by_cases h : 0 ≤ x ∧ x ≤ 1
  · have : ¬ (x < 0 ∨ 1 < x) := by rintro (h' | h') <;> linarith [h.1, h.2]
    simp [h, this]
  · have : (x < 0 ∨ 1 < x) := by
      by_contra hc; rw [not_or, not_lt, not_lt] at hc; exact h hc
    simp [h, this]

theorem beta11_mean_eq_uniform : Beta.mean (⟨1, 1⟩ : Beta ℝ) = Uniform.mean ⟨0, 1⟩ := by
  unfold Beta.mean Uniform.mean; lit_norm; norm_num

theorem beta11_variance_eq_uniform :
    Beta.variance (⟨1, 1⟩ : Beta ℝ) = Uniform.variance ⟨0, 1⟩ := by
  unfold Beta.variance Uniform.variance; lit_norm; norm_num

theorem beta11_std_dev_eq_uniform :
    Beta.std_dev (⟨1, 1⟩ : Beta ℝ) = Uniform.std_dev ⟨0, 1⟩ := by
  unfold Beta.std_dev Uniform.std_dev; rw [beta11_variance_eq_uniform]

theorem beta11_skewness_eq_uniform :
    Beta.skewness (⟨1, 1⟩ : Beta ℝ) = Uniform.skewness ⟨0, 1⟩ := by
  unfold Beta.skewness Uniform.skewness; rfun_norm; lit_norm; norm_num

theorem beta11_min_max_eq_uniform :
    Beta.min (⟨1, 1⟩ : Beta ℝ) = Uniform.min ⟨0, 1⟩ ∧
    Beta.max (⟨1, 1⟩ : Beta ℝ) = Uniform.max ⟨0, 1⟩ := by
  unfold Beta.min Beta.max Uniform.min Uniform.max; lit_norm; simp

/-- DISCREPANCY (benign): the two objects report different modes — `Beta(1,1).mode()` is `None`
    (no unique mode), `Uniform(0,1).mode()` is `Some(0.5)`. -/
theorem beta11_mode_ne_uniform :
    Beta.mode (⟨1, 1⟩ : Beta ℝ) = none ∧ Uniform.mode (⟨0, 1⟩ : Uniform ℝ) = some (1 / 2) := by
  unfold Beta.mode Uniform.mode; lit_norm; norm_num

theorem beta11_entropy_eq_uniform_rel [SF ℝ] (S : RelatedSpec) :
    Beta.entropy (⟨1, 1⟩ : Beta ℝ) = Uniform.entropy ⟨0, 1⟩ := by
  unfold Beta.entropy Uniform.entropy
  rfun_norm; lit_norm
  simp [S.ln_beta_one_one]; left; norm_num

/-- quantile on the open interval (at `p = 0, 1` both return the end points only if
    `inv_beta_reg` does; covered by the premise on the closed interval) -/
theorem beta11_inverse_cdf_eq_uniform_rel [SF ℝ] (S : RelatedSpec) (p : ℝ) (hp0 : 0 ≤ p)
    (hp1 : p ≤ 1) :
    Beta.inverse_cdf ⟨1, 1⟩ p = Uniform.inverse_cdf ⟨0, 1⟩ p := by
  unfold Beta.inverse_cdf Uniform.inverse_cdf
  rfun_norm; lit_norm
  have : ¬ ¬ ((0 : ℝ) ≤ p ∧ p ≤ 1) := not_not.mpr ⟨hp0, hp1⟩
  simp only [this, if_false, S.inv_beta_reg_one_one p hp0 hp1]
  split_ifs <;> simp_all

example : ∃ (_ : SF ℝ), RelatedSpec := ⟨witnessSF, relatedSpec_witness⟩

end Statrs.Props.C10
