/-
  C10 — Dirac as the degenerate member: families whose parameters collapse the support to one
  point report the same cdf and moments as `Dirac` at that point.
    DiscreteUniform(a, a) = Dirac(a),  Binomial(p, 0) = Dirac(0),  Binomial(0, n) ~ Dirac(0),
    Binomial(1, n) ~ Dirac(n) (mass and moments; the cdf goes through `SF.beta_reg`).
  Carrier ℝ.  full(ℝ).  (Continuous scale families cannot be constructed with scale 0, so no
  statement is made about them.)
-/
import Statrs.Real.Simp
import Statrs.Gen.D_dirac
import Statrs.Gen.D_discrete_uniform
import Statrs.Gen.D_binomial
import Statrs.Lemmas.Related
import Mathlib.Tactic
namespace Statrs.Props.C10
open Statrs Statrs.Gen Statrs.Lemmas.Related

/-! ### DiscreteUniform(a, a) = Dirac(a) -/
section du
variable (a : Int)

theorem discreteUniform_point_cdf (x : Int) :
    DiscreteUniform.cdf (α := ℝ) ⟨a, a⟩ x = Dirac.cdf ⟨(a : ℝ)⟩ (x : ℝ) := by
  unfold DiscreteUniform.cdf Dirac.cdf
  rfun_norm; lit_norm
  by_cases h : x < a
  · have : (x : ℝ) < (a : ℝ) := by exact_mod_cast h
    simp [h, this]
  · have : ¬ (x : ℝ) < (a : ℝ) := by exact_mod_cast h
    simp [h, this, not_lt.mp h]

theorem discreteUniform_point_sf (x : Int) :
    DiscreteUniform.sf (α := ℝ) ⟨a, a⟩ x = Dirac.sf ⟨(a : ℝ)⟩ (x : ℝ) := by
  unfold DiscreteUniform.sf Dirac.sf
  rfun_norm; lit_norm
  by_cases h : x < a
  · have : (x : ℝ) < (a : ℝ) := by exact_mod_cast h
    simp [h, this]
  · have : ¬ (x : ℝ) < (a : ℝ) := by exact_mod_cast h
    simp [h, this, not_lt.mp h]

theorem discreteUniform_point_pmf (x : Int) :
    DiscreteUniform.pmf (α := ℝ) ⟨a, a⟩ x = if x = a then 1 else 0 := by
  unfold DiscreteUniform.pmf
  rfun_norm; lit_norm
  by_cases h : x = a
  · subst h; simp
  · have : ¬ (a ≤ x ∧ x ≤ a) := fun hc => h (le_antisymm hc.2 hc.1)
    simp [h, this]

theorem discreteUniform_point_moments :
    DiscreteUniform.mean (α := ℝ) ⟨a, a⟩ = Dirac.mean ⟨(a : ℝ)⟩ ∧
    DiscreteUniform.variance (α := ℝ) ⟨a, a⟩ = Dirac.variance ⟨(a : ℝ)⟩ ∧
    DiscreteUniform.std_dev (α := ℝ) ⟨a, a⟩ = Dirac.std_dev ⟨(a : ℝ)⟩ ∧
    DiscreteUniform.entropy (α := ℝ) ⟨a, a⟩ = Dirac.entropy ⟨(a : ℝ)⟩ ∧
    DiscreteUniform.skewness (α := ℝ) ⟨a, a⟩ = Dirac.skewness ⟨(a : ℝ)⟩ ∧
    DiscreteUniform.median (α := ℝ) ⟨a, a⟩ = Dirac.median ⟨(a : ℝ)⟩ ∧
    ((DiscreteUniform.min (α := ℝ) ⟨a, a⟩ : Int) : ℝ) = Dirac.min ⟨(a : ℝ)⟩ ∧
    ((DiscreteUniform.max (α := ℝ) ⟨a, a⟩ : Int) : ℝ) = Dirac.max ⟨(a : ℝ)⟩ := by
  unfold DiscreteUniform.mean DiscreteUniform.variance DiscreteUniform.std_dev
    DiscreteUniform.variance DiscreteUniform.entropy DiscreteUniform.skewness
    DiscreteUniform.median DiscreteUniform.min DiscreteUniform.max
    Dirac.mean Dirac.variance Dirac.std_dev Dirac.variance Dirac.entropy Dirac.skewness
    Dirac.median Dirac.min Dirac.max
  rfun_norm; lit_norm
  refine ⟨?_, ?_, ?_, ?_, ?_, ?_, ?_, ?_⟩
  all_goals first
    | rfl
    | simp

end du

/-! ### Binomial(p, 0) = Dirac(0) -/
section bin0
variable (p : ℝ)

theorem binomial_n0_cdf [SF ℝ] (x : Int) (hx : 0 ≤ x) :
    Binomial.cdf ⟨p, 0⟩ x = Dirac.cdf ⟨(0 : ℝ)⟩ (x : ℝ) := by
  unfold Binomial.cdf Dirac.cdf
  lit_norm
  have h0 : (0 : ℝ) ≤ (x : ℝ) := by exact_mod_cast hx
  simp [hx, not_lt.mpr h0]

theorem binomial_n0_sf [SF ℝ] (x : Int) (hx : 0 ≤ x) :
    Binomial.sf ⟨p, 0⟩ x = Dirac.sf ⟨(0 : ℝ)⟩ (x : ℝ) := by
  unfold Binomial.sf Dirac.sf
  lit_norm
  have h0 : (0 : ℝ) ≤ (x : ℝ) := by exact_mod_cast hx
  simp [hx, not_lt.mpr h0]

theorem binomial_n0_moments :
    Binomial.mean ⟨p, 0⟩ = Dirac.mean ⟨(0 : ℝ)⟩ ∧
    Binomial.variance ⟨p, 0⟩ = Dirac.variance ⟨(0 : ℝ)⟩ ∧
    Binomial.std_dev ⟨p, 0⟩ = Dirac.std_dev ⟨(0 : ℝ)⟩ ∧
    Binomial.median ⟨p, 0⟩ = Dirac.median ⟨(0 : ℝ)⟩ := by
  unfold Binomial.mean Binomial.std_dev Binomial.variance Binomial.median
    Dirac.mean Dirac.std_dev Dirac.variance Dirac.median
  rfun_norm; lit_norm
  simp

end bin0

/-! ### Binomial(0, n) and Binomial(1, n): point masses at 0 and n -/
theorem binomial_p0_pmf [SF ℝ] (n x : Int) (hx : x ≤ n) :
    Binomial.pmf ⟨(0 : ℝ), n⟩ x = if x = 0 then 1 else 0 := by
  unfold Binomial.pmf; rfun_norm; lit_norm
  simp [not_lt.mpr hx]

theorem binomial_p0_moments (n : Int) :
    Binomial.mean ⟨(0 : ℝ), n⟩ = Dirac.mean ⟨(0 : ℝ)⟩ ∧
    Binomial.variance ⟨(0 : ℝ), n⟩ = Dirac.variance ⟨(0 : ℝ)⟩ ∧
    Binomial.mode ⟨(0 : ℝ), n⟩ = some 0 := by
  unfold Binomial.mean Binomial.variance Binomial.mode Dirac.mean Dirac.variance
  rfun_norm; lit_norm
  simp

theorem binomial_p1_pmf [SF ℝ] (n x : Int) (hx : x ≤ n) :
    Binomial.pmf ⟨(1 : ℝ), n⟩ x = if x = n then 1 else 0 := by
  unfold Binomial.pmf; rfun_norm; lit_norm
  simp [not_lt.mpr hx]

theorem binomial_p1_moments (n : Int) :
    Binomial.mean ⟨(1 : ℝ), n⟩ = Dirac.mean ⟨(n : ℝ)⟩ ∧
    Binomial.variance ⟨(1 : ℝ), n⟩ = Dirac.variance ⟨(n : ℝ)⟩ ∧
    Binomial.mode ⟨(1 : ℝ), n⟩ = some n := by
  unfold Binomial.mean Binomial.variance Binomial.mode Dirac.mean Dirac.variance
  rfun_norm; lit_norm
  simp

end Statrs.Props.C10
