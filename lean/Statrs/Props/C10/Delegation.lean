/-
  C10 (delegation part) — families that are implemented by wrapping another family give the
  same answers as the wrapped family under the documented reparameterisation:
  ChiSquared(k) = Gamma(k/2, 1/2), Erlang(k, r) = Gamma(k, r), Bernoulli(p) = Binomial(p, 1).
  All theorems here are branch/definition logic only and hold for EVERY carrier α
  (hence also for IEEE `Float`): tag full(∀α).
-/
import Statrs.Gen.D_gamma
import Statrs.Gen.D_chi_squared
import Statrs.Gen.D_erlang
import Statrs.Gen.D_binomial
import Statrs.Gen.D_bernoulli
import Mathlib.Tactic
namespace Statrs.Props.C10
open Statrs Statrs.Gen

section generic
variable {α : Type} [Add α] [Sub α] [Mul α] [Div α] [Neg α] [LT α] [LE α] [BEq α]
  [DecidableLT α] [DecidableLE α] [OfScientific α] [Inhabited α] [RFun α]

/-! ### ChiSquared(k) = Gamma(k/2, 1/2) -/

/-- What `ChiSquared.new k` builds when it succeeds: the inner Gamma is exactly `Gamma(k/2, 0.5)`. -/
theorem chiSquared_new_ok (k : α) (d : ChiSquared α) (h : ChiSquared.new k = .ok d) :
    d.f_freedom = k ∧ d.f_g = ⟨k / (2.0 : α), (0.5 : α)⟩ := by
  unfold ChiSquared.new Gamma.new at h
  split_ifs at h <;> simp [exceptMap] at h
  subst h; exact ⟨rfl, rfl⟩

/-- `ChiSquared.new k` succeeds exactly when `Gamma.new (k/2) 0.5` does. -/
theorem chiSquared_new_isOk_iff (k : α) :
    (ChiSquared.new k).isOk = (Gamma.new (k / (2.0 : α)) (0.5 : α)).isOk := by
  unfold ChiSquared.new
  cases Gamma.new (k / (2.0 : α)) (0.5 : α) <;> rfl

variable (d : ChiSquared α) (hg : d.f_g = ⟨d.f_freedom / (2.0 : α), (0.5 : α)⟩)
include hg

theorem chiSquared_cdf_eq_gamma [SF α] (x : α) :
    ChiSquared.cdf d x = Gamma.cdf ⟨d.f_freedom / (2.0 : α), (0.5 : α)⟩ x := by rw [← hg]; rfl
theorem chiSquared_sf_eq_gamma [SF α] (x : α) :
    ChiSquared.sf d x = Gamma.sf ⟨d.f_freedom / (2.0 : α), (0.5 : α)⟩ x := by rw [← hg]; rfl
theorem chiSquared_pdf_eq_gamma [SF α] (x : α) :
    ChiSquared.pdf d x = Gamma.pdf ⟨d.f_freedom / (2.0 : α), (0.5 : α)⟩ x := by rw [← hg]; rfl
theorem chiSquared_ln_pdf_eq_gamma [SF α] (x : α) :
    ChiSquared.ln_pdf d x = Gamma.ln_pdf ⟨d.f_freedom / (2.0 : α), (0.5 : α)⟩ x := by rw [← hg]; rfl
theorem chiSquared_mean_eq_gamma :
    ChiSquared.mean d = Gamma.mean ⟨d.f_freedom / (2.0 : α), (0.5 : α)⟩ := by rw [← hg]; rfl
theorem chiSquared_variance_eq_gamma :
    ChiSquared.variance d = Gamma.variance ⟨d.f_freedom / (2.0 : α), (0.5 : α)⟩ := by rw [← hg]; rfl
theorem chiSquared_std_dev_eq_gamma :
    ChiSquared.std_dev d = Gamma.std_dev ⟨d.f_freedom / (2.0 : α), (0.5 : α)⟩ := by rw [← hg]; rfl
theorem chiSquared_entropy_eq_gamma [SF α] :
    ChiSquared.entropy d = Gamma.entropy ⟨d.f_freedom / (2.0 : α), (0.5 : α)⟩ := by rw [← hg]; rfl
theorem chiSquared_skewness_eq_gamma :
    ChiSquared.skewness d = Gamma.skewness ⟨d.f_freedom / (2.0 : α), (0.5 : α)⟩ := by rw [← hg]; rfl
theorem chiSquared_mode_eq_gamma :
    ChiSquared.mode d = Gamma.mode ⟨d.f_freedom / (2.0 : α), (0.5 : α)⟩ := by rw [← hg]; rfl
omit hg in
theorem chiSquared_min_eq_gamma (g : Gamma α) : ChiSquared.min d = Gamma.min g := rfl
omit hg in
theorem chiSquared_max_eq_gamma (g : Gamma α) : ChiSquared.max d = Gamma.max g := rfl
theorem chiSquared_shape_rate :
    ChiSquared.shape d = d.f_freedom / (2.0 : α) ∧ ChiSquared.rate d = (0.5 : α) := by
  unfold ChiSquared.shape ChiSquared.rate; rw [hg]; exact ⟨rfl, rfl⟩

end generic

section generic2
variable {α : Type} [Add α] [Sub α] [Mul α] [Div α] [Neg α] [LT α] [LE α] [BEq α]
  [DecidableLT α] [DecidableLE α] [OfScientific α] [Inhabited α] [RFun α]

/-! ### Erlang(k, r) = Gamma(k, r) -/

/-- What `Erlang.new k r` builds when it succeeds: the inner Gamma is `Gamma(k as f64, r)`. -/
theorem erlang_new_ok (k : Int) (r : α) (d : Erlang α) (h : Erlang.new k r = .ok d) :
    d.f_g = ⟨(RFun.ofInt k : α), r⟩ := by
  unfold Erlang.new Gamma.new at h
  split_ifs at h <;> simp [exceptMap] at h
  subst h; rfl

theorem erlang_new_isOk_iff (k : Int) (r : α) :
    (Erlang.new k r).isOk = (Gamma.new (RFun.ofInt k : α) r).isOk := by
  unfold Erlang.new
  cases Gamma.new (RFun.ofInt k : α) r <;> rfl

variable (d : Erlang α)
theorem erlang_cdf_eq_gamma [SF α] (x : α) : Erlang.cdf d x = Gamma.cdf d.f_g x := rfl
theorem erlang_sf_eq_gamma [SF α] (x : α) : Erlang.sf d x = Gamma.sf d.f_g x := rfl
theorem erlang_pdf_eq_gamma [SF α] (x : α) : Erlang.pdf d x = Gamma.pdf d.f_g x := rfl
theorem erlang_ln_pdf_eq_gamma [SF α] (x : α) : Erlang.ln_pdf d x = Gamma.ln_pdf d.f_g x := rfl
theorem erlang_mean_eq_gamma : Erlang.mean d = Gamma.mean d.f_g := rfl
theorem erlang_variance_eq_gamma : Erlang.variance d = Gamma.variance d.f_g := rfl
theorem erlang_std_dev_eq_gamma : Erlang.std_dev d = Gamma.std_dev d.f_g := rfl
theorem erlang_entropy_eq_gamma [SF α] : Erlang.entropy d = Gamma.entropy d.f_g := rfl
theorem erlang_skewness_eq_gamma : Erlang.skewness d = Gamma.skewness d.f_g := rfl
theorem erlang_mode_eq_gamma : Erlang.mode d = Gamma.mode d.f_g := rfl
theorem erlang_min_eq_gamma : Erlang.min d = Gamma.min d.f_g := rfl
theorem erlang_max_eq_gamma : Erlang.max d = Gamma.max d.f_g := rfl
theorem erlang_rate_eq_gamma : Erlang.rate d = Gamma.rate d.f_g := rfl

/-! ### Bernoulli(p) = Binomial(p, 1) -/

/-- What `Bernoulli.new p` builds when it succeeds: the inner Binomial is `Binomial(p, 1)`. -/
theorem bernoulli_new_ok (p : α) (d : Bernoulli α) (h : Bernoulli.new p = .ok d) :
    d.f_b = ⟨p, 1⟩ := by
  unfold Bernoulli.new Binomial.new at h
  split_ifs at h <;> simp [exceptMap] at h
  subst h; rfl

theorem bernoulli_new_isOk_iff (p : α) :
    (Bernoulli.new p).isOk = (Binomial.new p 1).isOk := by
  unfold Bernoulli.new
  cases Binomial.new p 1 <;> rfl

variable (b : Bernoulli α)
theorem bernoulli_sf_eq_binomial [SF α] (x : Int) : Bernoulli.sf b x = Binomial.sf b.f_b x := rfl
theorem bernoulli_pmf_eq_binomial [SF α] (x : Int) : Bernoulli.pmf b x = Binomial.pmf b.f_b x := rfl
theorem bernoulli_ln_pmf_eq_binomial [SF α] (x : Int) :
    Bernoulli.ln_pmf b x = Binomial.ln_pmf b.f_b x := rfl
theorem bernoulli_mean_eq_binomial : Bernoulli.mean b = Binomial.mean b.f_b := rfl
theorem bernoulli_variance_eq_binomial : Bernoulli.variance b = Binomial.variance b.f_b := rfl
theorem bernoulli_std_dev_eq_binomial : Bernoulli.std_dev b = Binomial.std_dev b.f_b := rfl
theorem bernoulli_entropy_eq_binomial [SF α] : Bernoulli.entropy b = Binomial.entropy b.f_b := rfl
theorem bernoulli_skewness_eq_binomial : Bernoulli.skewness b = Binomial.skewness b.f_b := rfl
theorem bernoulli_median_eq_binomial : Bernoulli.median b = Binomial.median b.f_b := rfl
theorem bernoulli_mode_eq_binomial : Bernoulli.mode b = Binomial.mode b.f_b := rfl
theorem bernoulli_p_eq_binomial : Bernoulli.p b = Binomial.p b.f_b := rfl
theorem bernoulli_min_eq_binomial : Bernoulli.min b = Binomial.min b.f_b := rfl
/-- `max`/`n` are hard-coded to 1 in Bernoulli; they agree with the inner Binomial when `n = 1`
    (which `Bernoulli.new` guarantees, see `bernoulli_new_ok`). -/
theorem bernoulli_max_eq_binomial (hn : b.f_b.f_n = 1) :
    Bernoulli.max b = Binomial.max b.f_b ∧ Bernoulli.n b = Binomial.n b.f_b := by
  unfold Bernoulli.max Binomial.max Bernoulli.n Binomial.n; rw [hn]; exact ⟨rfl, rfl⟩
/-- `Bernoulli.cdf` is NOT delegated; on `x ≥ 1` it agrees with `Binomial(p,1).cdf` by branch logic
    alone (the `x = 0` case needs `I_{1-p}(1,1) = 1-p`, see `bernoulli_cdf_eq_binomial_rel`). -/
theorem bernoulli_cdf_eq_binomial_of_one_le [SF α] (hn : b.f_b.f_n = 1) (x : Int) (hx : 1 ≤ x) :
    Bernoulli.cdf b x = Binomial.cdf b.f_b x := by
  unfold Bernoulli.cdf Binomial.cdf; rw [hn]; simp [hx]

end generic2

/-! ### non-vacuity: the constructor hypotheses are satisfiable -/
example : ∃ d : ChiSquared Nat, d.f_g = ⟨d.f_freedom / 2, 5⟩ := ⟨⟨4, ⟨2, 5⟩⟩, rfl⟩

end Statrs.Props.C10
