/-
  C10 — discrete identities that go through the abstract special functions (`_rel`, premises
  `Spec.RelatedSpec`):
    Bernoulli(p).cdf = Binomial(p,1).cdf           (needs I_x(1,1) = x)
    Geometric(p) vs NegativeBinomial(1,p), shifted by one (Geometric counts trials, support ≥ 1;
      NegativeBinomial counts failures, support ≥ 0)    (needs ln Γ(1) = 0)
  plus, after the source fix `(1.0 - p).powf((x - 1) as f64)` (was `powi(x as i32 - 1)`, which
  wrapped for `x ≥ 2³¹`): the closed form of `Geometric::pmf` for EVERY `x ≥ 1` and
  `0 ≤ pmf ≤ 1` (`geometric_pmf_closed`, `geometric_pmf_mem_unit`).
-/
import Statrs.Real.Simp
import Statrs.Gen.D_binomial
import Statrs.Gen.D_bernoulli
import Statrs.Gen.D_geometric
import Statrs.Gen.D_negative_binomial
import Statrs.Spec.SFSpec_related
import Statrs.Lemmas.Related
import Mathlib.Tactic
namespace Statrs.Props.C10
open Statrs Statrs.Gen Statrs.Spec Statrs.Lemmas.Related

/-! ### Bernoulli.cdf (hand-written in bernoulli.rs) vs Binomial(p, 1).cdf -/
theorem bernoulli_cdf_eq_binomial_rel [SF ℝ] (S : RelatedSpec) (b : Bernoulli ℝ)
    (hn : b.f_b.f_n = 1) (hp0 : 0 ≤ b.f_b.f_p) (hp1 : b.f_b.f_p ≤ 1) (x : Int) (hx : 0 ≤ x) :
    Bernoulli.cdf b x = Binomial.cdf b.f_b x := by
  unfold Bernoulli.cdf Binomial.cdf Binomial.p
  rw [hn]
  rfun_norm; lit_norm
  by_cases h1 : 1 ≤ x
  · simp [h1]
  · have hx0 : x = 0 := by omega
    subst hx0
    simp only [h1, if_false]
    have : usub 1 0 = 1 := by simp [usub]
    rw [this]
    norm_num
    exact (S.beta_reg_one_one _ (by linarith) (by linarith)).symm

/-! ### Geometric(p) and NegativeBinomial(1, p) -/
section geometric
variable (d : Geometric ℝ) (hp0 : 0 < d.f_p) (hp1 : d.f_p < 1)

/-- the object `NegativeBinomial.new 1 p` builds -/
def geomAsNegBin (d : Geometric ℝ) : NegativeBinomial ℝ := ⟨1, d.f_p⟩

include hp0 hp1 in
theorem geomAsNegBin_is_new :
    NegativeBinomial.new (1 : ℝ) d.f_p = .ok (geomAsNegBin d) := by
  unfold NegativeBinomial.new geomAsNegBin
  rfun_norm; lit_norm
  have : ¬ ¬ (0 ≤ d.f_p ∧ d.f_p ≤ 1) := not_not.mpr ⟨hp0.le, hp1.le⟩
  simp [this]

/-- variance: identical (a shift does not change it) -/
theorem geometric_variance_eq_negBin :
    Geometric.variance d = NegativeBinomial.variance (geomAsNegBin d) := by
  unfold Geometric.variance NegativeBinomial.variance geomAsNegBin; lit_norm; simp

/-- mean: shifted by one (trials = failures + 1) -/
theorem geometric_mean_eq_negBin (hp0 : 0 < d.f_p) :
    Geometric.mean d = (NegativeBinomial.mean (geomAsNegBin d)).map (fun m => m + 1) := by
  unfold Geometric.mean NegativeBinomial.mean geomAsNegBin; lit_norm
  have : d.f_p ≠ 0 := hp0.ne'
  simp only [Option.map_some, Option.some.injEq]
  field_simp; ring

theorem geometric_skewness_eq_negBin (hp1 : d.f_p < 1) :
    Geometric.skewness d = NegativeBinomial.skewness (geomAsNegBin d) := by
  unfold Geometric.skewness NegativeBinomial.skewness geomAsNegBin; rfun_norm; lit_norm
  simp [hp1.ne]

variable [SF ℝ] (S : RelatedSpec)
include S hp0 hp1

omit hp0 in
/-- log-mass: `ln P_G(x) = ln P_NB(x − 1)` for every `x ≥ 1` -/
theorem geometric_ln_pmf_eq_negBin_rel (x : Int) (hx : 1 ≤ x) :
    Geometric.ln_pmf d x = NegativeBinomial.ln_pmf (geomAsNegBin d) (x - 1) := by
  unfold Geometric.ln_pmf NegativeBinomial.ln_pmf geomAsNegBin
  rfun_norm; lit_norm
  have hx0 : x ≠ 0 := by omega
  have hu : usub x 1 = x - 1 := by unfold usub; simp [not_lt.mpr hx]
  simp only [hx0, hp1.ne, if_false, decide_false, Bool.false_eq_true, false_and, hu,
    S.ln_gamma_one]
  rw [add_comm (1 : ℝ) ((x - 1 : Int) : ℝ)]
  ring_nf

/-- mass: `P_G(x) = P_NB(x − 1)` for EVERY `x ≥ 1` (the fixed source raises `1 − p` to the
    `f64` power `(x − 1) as f64`; the former `x as i32` restriction `x < 2³¹` is gone) -/
theorem geometric_pmf_eq_negBin_rel (x : Int) (hx : 1 ≤ x) :
    Geometric.pmf d x = NegativeBinomial.pmf (geomAsNegBin d) (x - 1) := by
  unfold Geometric.pmf NegativeBinomial.pmf NegativeBinomial.ln_pmf geomAsNegBin
  rfun_norm; lit_norm
  have hx0 : x ≠ 0 := by omega
  have hu : usub x 1 = x - 1 := by unfold usub; simp [not_lt.mpr hx]
  simp only [hx0, if_false, hu, S.ln_gamma_one]
  rw [add_comm (1 : ℝ) ((x - 1 : Int) : ℝ)]
  have h1p : 0 < 1 - d.f_p := by linarith
  have e : Real.exp (SF.ln_gamma (((x - 1 : Int) : ℝ) + 1) - 0 - SF.ln_gamma (((x - 1 : Int) : ℝ) + 1)
      + 1 * Real.log d.f_p + ((x - 1 : Int) : ℝ) * Real.log (1 + -d.f_p))
      = d.f_p * Real.exp (Real.log (1 - d.f_p) * ((x - 1 : Int) : ℝ)) := by
    rw [show SF.ln_gamma (((x - 1 : Int) : ℝ) + 1) - 0 - SF.ln_gamma (((x - 1 : Int) : ℝ) + 1)
      + 1 * Real.log d.f_p + ((x - 1 : Int) : ℝ) * Real.log (1 + -d.f_p)
      = Real.log d.f_p + Real.log (1 - d.f_p) * ((x - 1 : Int) : ℝ) by ring_nf,
      Real.exp_add, Real.exp_log hp0]
  rw [e, ← Real.rpow_def_of_pos h1p, mul_comm]

end geometric

/-! ### `Geometric::pmf` after the `powf` fix: closed form and range, for every `x : u64` -/

/-- closed form on the support: `pmf(x) = (1 − p)^(x − 1) · p` (natural-number power) for every
    `x ≥ 1` and every `p` — no `i32` wrap any more. -/
theorem geometric_pmf_closed (d : Geometric ℝ) (x : Int) (hx : 1 ≤ x) :
    Geometric.pmf d x = (1 - d.f_p) ^ (x - 1).toNat * d.f_p := by
  unfold Geometric.pmf
  rfun_norm; lit_norm
  have hx0 : x ≠ 0 := by omega
  have hu : usub x 1 = x - 1 := by unfold usub; simp [not_lt.mpr hx]
  simp only [hx0, if_false, hu]
  have hc : ((x - 1 : Int) : ℝ) = (((x - 1).toNat : ℕ) : ℝ) := by
    have : (x - 1 : Int) = (((x - 1).toNat : ℕ) : Int) := (Int.toNat_of_nonneg (by omega)).symm
    exact_mod_cast congrArg (fun z : Int => (z : ℝ)) this
  rw [hc, Real.rpow_natCast]

/-- `Geometric::pmf` takes values in `[0, 1]` for every `x : u64` (`x ≥ 0`) under the
    constructor's hypotheses `0 < p ≤ 1`.  (Replaces the former
    `geometric_pmf_i32_wrap_counterexample`: with `powi(x as i32 - 1)` the value at `x = 2³¹`
    was `2^(2³¹) > 1`.) -/
theorem geometric_pmf_mem_unit (d : Geometric ℝ) (hp0 : 0 < d.f_p) (hp1 : d.f_p ≤ 1)
    (x : Int) (hx : 0 ≤ x) : 0 ≤ Geometric.pmf d x ∧ Geometric.pmf d x ≤ 1 := by
  rcases hx.eq_or_lt with h0 | hpos
  · subst h0
    unfold Geometric.pmf; rfun_norm; lit_norm; simp
  · rw [geometric_pmf_closed d x (by omega)]
    have hq0 : 0 ≤ 1 - d.f_p := by linarith
    have hq1 : 1 - d.f_p ≤ 1 := by linarith
    have hpw0 : 0 ≤ (1 - d.f_p) ^ (x - 1).toNat := pow_nonneg hq0 _
    have hpw1 : (1 - d.f_p) ^ (x - 1).toNat ≤ 1 := pow_le_one₀ hq0 hq1
    exact ⟨mul_nonneg hpw0 hp0.le, by nlinarith⟩

/-- the former defect witness, now correct: `Geometric(1/2).pmf(2³¹) = (1/2)^(2³¹)` (`≤ 1`). -/
theorem geometric_pmf_two_pow_31 :
    Geometric.pmf (⟨1 / 2⟩ : Geometric ℝ) 2147483648 = (1 / 2 : ℝ) ^ (2147483648 : ℕ) := by
  rw [geometric_pmf_closed _ _ (by norm_num)]
  show ((1 : ℝ) - 1 / 2) ^ ((2147483648 : Int) - 1).toNat * (1 / 2) = _
  rw [show ((2147483648 : Int) - 1).toNat = 2147483647 by decide,
    show ((1 : ℝ) - 1 / 2) = 1 / 2 by norm_num, ← pow_succ]

example : ∃ (_ : SF ℝ) (_ : RelatedSpec) (d : Geometric ℝ), 0 < d.f_p ∧ d.f_p < 1 :=
  ⟨witnessSF, relatedSpec_witness, ⟨1 / 2⟩, by norm_num⟩

end Statrs.Props.C10
