/-
  C10 — Exp(r) = Weibull(1, 1/r) = Gamma(1, r), carrier ℝ, `0 < r` (what `Exp.new` enforces).
  Algebraic identities are full(ℝ); those that go through the abstract special functions
  (`SF.gamma`, `SF.gamma_lr`, …) are `_rel` w.r.t. `Spec.RelatedSpec`.
-/
import Statrs.Real.Simp
import Statrs.Gen.D_exponential
import Statrs.Gen.D_weibull
import Statrs.Gen.D_gamma
import Statrs.Spec.SFSpec_related
import Statrs.Lemmas.Related
import Mathlib.Tactic
namespace Statrs.Props.C10
open Statrs Statrs.Gen Statrs.Spec Statrs.Lemmas.Related

/-- the Weibull object that `Weibull.new 1 (1/r)` builds -/
noncomputable def expAsWeibull (d : Exp ℝ) : Weibull ℝ :=
  ⟨1, 1 / d.f_rate, RFun.pow (1 / d.f_rate) (-(1 : ℝ))⟩

theorem expAsWeibull_is_new (d : Exp ℝ) (h : 0 < d.f_rate) :
    Weibull.new (1 : ℝ) (1 / d.f_rate) = .ok (expAsWeibull d) := by
  unfold Weibull.new expAsWeibull
  rfun_norm; lit_norm
  simp [not_le.mpr h]

/-- the Gamma object that `Gamma.new 1 r` builds -/
def expAsGamma (d : Exp ℝ) : Gamma ℝ := ⟨1, d.f_rate⟩

theorem expAsGamma_is_new (d : Exp ℝ) (h : 0 < d.f_rate) :
    Gamma.new (1 : ℝ) d.f_rate = .ok (expAsGamma d) := by
  unfold Gamma.new expAsGamma
  rfun_norm; lit_norm
  simp [not_le.mpr h]

private lemma inv_pow (r : ℝ) : (1 / r : ℝ) ^ (-(1 : ℝ)) = r := by
  rw [Real.rpow_neg_one]; simp

section weibull
variable (d : Exp ℝ)

theorem exp_cdf_eq_weibull (x : ℝ) : Exp.cdf d x = Weibull.cdf (expAsWeibull d) x := by
  unfold Exp.cdf Weibull.cdf expAsWeibull
  rfun_norm; lit_norm
  simp only [inv_pow, Real.rpow_one]
  split_ifs <;> ring_nf

theorem exp_sf_eq_weibull (x : ℝ) : Exp.sf d x = Weibull.sf (expAsWeibull d) x := by
  unfold Exp.sf Weibull.sf expAsWeibull
  rfun_norm; lit_norm
  simp only [inv_pow, Real.rpow_one]
  split_ifs <;> ring_nf

theorem exp_pdf_eq_weibull (h : 0 < d.f_rate) (x : ℝ) :
    Exp.pdf d x = Weibull.pdf (expAsWeibull d) x := by
  unfold Exp.pdf Weibull.pdf expAsWeibull
  rfun_norm; lit_norm
  simp only [inv_pow, Real.rpow_one]
  have hr : d.f_rate ≠ 0 := h.ne'
  by_cases hx : x < 0
  · simp [hx]
  · by_cases hx0 : x = 0
    · subst hx0; simp
    · simp only [hx, hx0, false_and, if_false, Bool.false_eq_true, sub_self, Real.rpow_zero]
      field_simp

theorem exp_ln_pdf_eq_weibull (h : 0 < d.f_rate) (x : ℝ) :
    Exp.ln_pdf d x = Weibull.ln_pdf (expAsWeibull d) x := by
  unfold Exp.ln_pdf Weibull.ln_pdf expAsWeibull
  rfun_norm; lit_norm
  simp only [inv_pow, Real.rpow_one]
  have hr : d.f_rate ≠ 0 := h.ne'
  by_cases hx : x < 0
  · simp [hx]
  · by_cases hx0 : x = 0
    · subst hx0; simp
    · simp only [hx, hx0, false_and, if_false, Bool.false_eq_true, sub_self, zero_mul]
      rw [Real.log_div one_ne_zero hr]
      simp; ring

theorem exp_inverse_cdf_eq_weibull (p : ℝ) (hp0 : 0 ≤ p) (hp1 : p ≤ 1) :
    Exp.inverse_cdf d p = Weibull.inverse_cdf (expAsWeibull d) p := by
  unfold Exp.inverse_cdf Weibull.inverse_cdf expAsWeibull
  rfun_norm; lit_norm
  have : ¬ ¬ ((0 : ℝ) ≤ p ∧ p ≤ 1) := not_not.mpr ⟨hp0, hp1⟩
  simp only [this, if_false, inv_pow, div_one, Real.rpow_one]
  ring

theorem exp_entropy_eq_weibull (h : 0 < d.f_rate) :
    Exp.entropy d = Weibull.entropy (expAsWeibull d) := by
  unfold Exp.entropy Weibull.entropy expAsWeibull
  rfun_norm; lit_norm
  have hr : d.f_rate ≠ 0 := h.ne'
  simp only [div_one, sub_self, mul_zero, zero_add]
  rw [Real.log_div one_ne_zero hr]
  simp; ring

theorem exp_median_eq_weibull : Exp.median d = Weibull.median (expAsWeibull d) := by
  unfold Exp.median Weibull.median expAsWeibull
  rfun_norm; lit_norm
  simp only [div_one, Real.rpow_one]
  ring

theorem exp_mode_eq_weibull : Exp.mode d = Weibull.mode (expAsWeibull d) := by
  unfold Exp.mode Weibull.mode expAsWeibull
  rfun_norm; lit_norm
  simp

theorem exp_min_max_eq_weibull :
    Exp.min d = Weibull.min (expAsWeibull d) ∧ Exp.max d = Weibull.max (expAsWeibull d) :=
  ⟨rfl, rfl⟩

variable [SF ℝ] (S : RelatedSpec)
include S

theorem exp_mean_eq_weibull_rel : Exp.mean d = Weibull.mean (expAsWeibull d) := by
  unfold Exp.mean Weibull.mean expAsWeibull
  lit_norm
  simp only [div_one]
  rw [show (1 : ℝ) + 1 = 2 by norm_num, S.gamma_two]; simp

theorem exp_variance_eq_weibull_rel (h : 0 < d.f_rate) :
    Exp.variance d = Weibull.variance (expAsWeibull d) := by
  unfold Exp.variance Weibull.variance Weibull.mean expAsWeibull
  have hr : d.f_rate ≠ 0 := h.ne'
  lit_norm
  simp only [div_one]
  rw [show (1 : ℝ) + 1 = 2 by norm_num, show (1 : ℝ) + 2 = 3 by norm_num, S.gamma_two,
    S.gamma_three]
  simp only [Option.some.injEq]
  field_simp; ring

end weibull

section gamma
variable (d : Exp ℝ)

theorem exp_pdf_eq_gamma [SF ℝ] (x : ℝ) : Exp.pdf d x = Gamma.pdf (expAsGamma d) x := by
  unfold Exp.pdf Gamma.pdf expAsGamma
  rfun_norm; lit_norm
  simp

theorem exp_ln_pdf_eq_gamma [SF ℝ] (x : ℝ) : Exp.ln_pdf d x = Gamma.ln_pdf (expAsGamma d) x := by
  unfold Exp.ln_pdf Gamma.ln_pdf expAsGamma
  rfun_norm; lit_norm
  simp

theorem exp_mean_eq_gamma : Exp.mean d = Gamma.mean (expAsGamma d) := by
  unfold Exp.mean Gamma.mean expAsGamma; lit_norm

theorem exp_variance_eq_gamma : Exp.variance d = Gamma.variance (expAsGamma d) := by
  unfold Exp.variance Gamma.variance expAsGamma; lit_norm

theorem exp_std_dev_eq_gamma : Exp.std_dev d = Gamma.std_dev (expAsGamma d) := by
  unfold Exp.std_dev Gamma.std_dev; rw [exp_variance_eq_gamma]

theorem exp_skewness_eq_gamma : Exp.skewness d = Gamma.skewness (expAsGamma d) := by
  unfold Exp.skewness Gamma.skewness expAsGamma; rfun_norm; lit_norm; simp

theorem exp_mode_eq_gamma : Exp.mode d = Gamma.mode (expAsGamma d) := by
  unfold Exp.mode Gamma.mode expAsGamma; lit_norm; simp

theorem exp_min_max_eq_gamma :
    Exp.min d = Gamma.min (expAsGamma d) ∧ Exp.max d = Gamma.max (expAsGamma d) := ⟨rfl, rfl⟩

variable [SF ℝ] (S : RelatedSpec)
include S

theorem exp_cdf_eq_gamma_rel (h : 0 < d.f_rate) (x : ℝ) :
    Exp.cdf d x = Gamma.cdf (expAsGamma d) x := by
  unfold Exp.cdf Gamma.cdf expAsGamma
  rfun_norm; lit_norm
  by_cases hx : x < 0
  · simp [hx, hx.le]
  · rw [not_lt] at hx
    by_cases hx0 : x = 0
    · subst hx0; simp
    · have hpos : 0 < x := lt_of_le_of_ne hx (Ne.symm hx0)
      have hne : x * d.f_rate ≠ 0 := mul_ne_zero hpos.ne' h.ne'
      simp only [not_le.mpr hpos, not_lt.mpr hx, if_false, Bool.false_eq_true, and_false, hne]
      rw [S.gamma_lr_one _ (mul_nonneg hx h.le)]
      ring_nf

theorem exp_sf_eq_gamma_rel (h : 0 < d.f_rate) (x : ℝ) :
    Exp.sf d x = Gamma.sf (expAsGamma d) x := by
  unfold Exp.sf Gamma.sf expAsGamma
  rfun_norm; lit_norm
  by_cases hx : x < 0
  · simp [hx, hx.le]
  · rw [not_lt] at hx
    by_cases hx0 : x = 0
    · subst hx0; simp
    · have hpos : 0 < x := lt_of_le_of_ne hx (Ne.symm hx0)
      have hne : x * d.f_rate ≠ 0 := mul_ne_zero hpos.ne' h.ne'
      simp only [not_le.mpr hpos, not_lt.mpr hx, if_false, Bool.false_eq_true, and_false, hne]
      rw [S.gamma_ur_one _ (mul_nonneg hx h.le)]
      ring_nf

/-- entropy: needs `ln Γ(1) = 0` (the digamma term is multiplied by `1 − 1 = 0`) -/
theorem exp_entropy_eq_gamma_rel : Exp.entropy d = Gamma.entropy (expAsGamma d) := by
  unfold Exp.entropy Gamma.entropy expAsGamma
  rfun_norm; lit_norm
  simp only [S.ln_gamma_one]
  simp

end gamma

example : ∃ d : Exp ℝ, 0 < d.f_rate := ⟨⟨1⟩, one_pos⟩
example : ∃ (_ : SF ℝ), RelatedSpec := ⟨witnessSF, relatedSpec_witness⟩

end Statrs.Props.C10
